(* The Dump API (raft_log/dump.rs, dump_api.rs; Chunk::dump, Chunk::load_records_iter,
   Chunk::open_chunk_file; chunk/record_iterator.rs).  No proofs in this file.

   Both dumpers call the visitor [write_record(chunk_id, i, res)] once per item of the
   RecordIterator of each chunk FILE, read from byte 0:
     - [Ok((Segment{offset, size}, record))] for every record that decodes,
     - one [Err] item when the iterator hits a decode error (kind UnexpectedEof for an
       incomplete record, InvalidData for a damaged one); the iterator then stops, so
       nothing follows the error item of a chunk.
   [i] is the 0-based position of the item in its chunk (Iterator::enumerate), so the
   error item carries the number of complete records before it.

   Segment offset: RecordIterator::next builds [Segment::new(start, self.r.offset() - start)]
   where [start = self.r.offset()] is the OffsetReader's own counter, which starts at 0 for
   a freshly opened file.  The offset reported by the Dump API is therefore FILE-LOCAL (the
   first record of every chunk has offset 0), not the global offset [chunk id + position]
   that the index map ([ld_off]) and [Chunk::open]'s [global_offsets] use (Chunk::open adds
   [chunk_id.offset()] itself).  The OCaml glue this file replaces (ocaml/modelrun.ml,
   [run_xops], case [Dump]: [go 0 0 recs]) and the harness (it prints [seg.offset().0]
   as delivered by the crate) agree on the file-local offset, and the differential check
   validates it.  The global offset of an item is [id + pos] (see [ditem_end]).

   Doubts / modelling choices, mirrored from the OCaml glue:
     - a chunk whose file is missing: the crate's [open_chunk_file] fails and [write_with]
       returns that io::Error (NotFound) without visiting the remaining chunks; the glue
       (and [dump_ref]) read a missing file as empty, which yields no item.  The two differ
       only when a tracked chunk has no file; [dump_ref_openable] says that this is not the
       case (Proofs/DumpFacts.v: it holds in every reachable state).
     - [SFuel] never happens (ScanFacts.scan_file_no_fuel); the glue prints "err:Fuel"
       for it, here the error item carries the [scan_end] itself so nothing is lost:
       [SEof] = UnexpectedEof, [SInvalid] = InvalidData.
     - the standalone [Dump] takes the directory lock (Model/Lock.v) and lists the
       directory through [load_chunk_ids] (file-name parser of Model/Names.v, sorted ids);
       the directory model [disk] is already the id-sorted list of chunk files.
     - the visitor's own error (it may return Err and stop the walk) is not modelled:
       the functions below return what a visitor that always returns Ok(()) sees. *)
From Coq Require Import List NArith Bool.
From Coq.Strings Require Import Byte.
From RaftLog Require Import Base.Bytes Model.Types Model.Codec Model.Cache Model.Core Model.Recover.
Import ListNotations.
Local Open Scope N_scope.

(* one call of the visitor *)
Inductive ditem :=
| DRec (id : N) (i : nat) (pos : N) (size : N) (r : record)   (* Ok((Segment{pos,size}, r)) *)
| DErr (id : N) (i : nat) (e : scan_end).                     (* Err: SEof | SInvalid *)

(* the Ok items of one chunk: [i] counts from the given start, [pos] is the running
   file-local offset *)
Fixpoint dump_items (id : N) (i : nat) (pos : N) (recs : list (record * N)) : list ditem :=
  match recs with
  | [] => []
  | (r, sz) :: tl => DRec id i pos sz r :: dump_items id (S i) (pos + sz) tl
  end.

(* the item that ends a chunk, if the iterator stopped on an error *)
Definition dump_end (id : N) (n : nat) (e : scan_end) : list ditem :=
  match e with
  | SEnd => []
  | _ => [DErr id n e]
  end.

(* Chunk::dump / load_records_iter on the bytes of one file *)
Definition dump_file (id : N) (data : bytes) : list ditem :=
  let '(recs, _, e) := scan_file data in
  dump_items id 0 0 recs ++ dump_end id (length recs) e.

(* content of a file of the directory; a missing file reads as empty *)
Definition dump_data (d : disk) (id : N) : bytes :=
  match disk_get id d with Some f => f_data f | None => [] end.

(* RefDump: wal.closed in key order, then wal.open *)
Definition dump_ref_ids (k : core) : list N :=
  map (fun c => ck_id (cl_chunk c)) (k_closed k) ++ [ck_id (k_open k)].

Definition dump_ref (k : core) (d : disk) : list ditem :=
  flat_map (fun id => dump_file id (dump_data d id)) (dump_ref_ids k).

(* every file RefDump opens exists (otherwise the crate returns the open error) *)
Definition dump_ref_openable (k : core) (d : disk) : bool :=
  forallb (fun id => match disk_get id d with Some _ => true | None => false end)
          (dump_ref_ids k).

(* Dump (standalone): every chunk file of the directory, in id order *)
Definition dump_dir (d : disk) : list ditem :=
  flat_map (fun f => dump_file (f_id f) (f_data f)) d.

(* ------------------------------------------------------------------ projections *)
Definition ditem_id (it : ditem) : N :=
  match it with DRec id _ _ _ _ => id | DErr id _ _ => id end.
Definition ditem_index (it : ditem) : nat :=
  match it with DRec _ i _ _ _ => i | DErr _ i _ => i end.
Definition ditem_is_err (it : ditem) : bool :=
  match it with DRec _ _ _ _ _ => false | DErr _ _ _ => true end.
Definition ditem_record (it : ditem) : option record :=
  match it with DRec _ _ _ _ r => Some r | DErr _ _ _ => None end.
(* global offset one past the record (what Chunk::open pushes on global_offsets) *)
Definition ditem_end (it : ditem) : option N :=
  match it with DRec id _ pos size _ => Some (id + pos + size) | DErr _ _ _ => None end.

(* the records of a dump, in visiting order *)
Fixpoint dump_records (l : list ditem) : list record :=
  match l with
  | [] => []
  | DRec _ _ _ _ r :: tl => r :: dump_records tl
  | DErr _ _ _ :: tl => dump_records tl
  end.

(* ------------------------------------------------------------------ sanity checks *)
Example dump_file_empty : dump_file 7 [] = [].
Proof. vm_compute. reflexivity. Qed.

Example dump_file_two :
  dump_file 5 (enc_record (RVote (1, 2)) ++ enc_record (RCommit (3, 4))) =
  [DRec 5 0 0 (rec_size (RVote (1, 2))) (RVote (1, 2));
   DRec 5 1 (rec_size (RVote (1, 2))) (rec_size (RCommit (3, 4))) (RCommit (3, 4))].
Proof. vm_compute. reflexivity. Qed.

Example dump_file_cut :
  dump_file 5 (enc_record (RVote (1, 2)) ++ firstn 3 (enc_record (RCommit (3, 4)))) =
  [DRec 5 0 0 (rec_size (RVote (1, 2))) (RVote (1, 2)); DErr 5 1 SEof].
Proof. vm_compute. reflexivity. Qed.

Example dump_file_zeros :
  dump_file 5 (enc_record (RVote (1, 2)) ++ repeat x00 40) =
  [DRec 5 0 0 (rec_size (RVote (1, 2))) (RVote (1, 2)); DErr 5 1 SInvalid].
Proof. vm_compute. reflexivity. Qed.
