(* L3: recovery (RaftLog::open, Chunk::open, handle_record_error,
   verify_trailing_zeros, reopen_last_closed). No proofs in this file. *)
From Coq Require Import List NArith Bool.
From Coq.Strings Require Import Byte.
From RaftLog Require Import Base.Bytes Base.Crc32 Model.Types Model.Codec Model.Cache Model.Core.
Import ListNotations.
Local Open Scope N_scope.

(* how the record iterator stopped *)
Inductive scan_end := SEnd | SEof | SInvalid | SFuel.

(* RecordIterator: decode records until the position reaches the file size or a
   decode error occurs. Returns the records with their sizes, the unread rest and
   the way it ended. Fuel: every record has at least 12 bytes, so
   [S (length bs)] always suffices (SFuel is excluded by lemma). *)
Fixpoint scan (fuel : nat) (bs : bytes) : list (record * N) * bytes * scan_end :=
  match fuel with
  | O => ([], bs, SFuel)
  | S fuel' =>
    match bs with
    | [] => ([], [], SEnd)
    | _ =>
      match dec_record bs with
      | DOk (r, rest) =>
        let n := N.of_nat (length bs - length rest) in
        let '(rs, tl, e) := scan fuel' rest in ((r, n) :: rs, tl, e)
      | DEof => ([], bs, SEof)
      | DInvalid => ([], bs, SInvalid)
      end
    end
  end.

Definition scan_file (bs : bytes) := scan (S (length bs)) bs.

Fixpoint ends_from (start : N) (sizes : list N) : list N :=
  match sizes with
  | [] => []
  | n :: r => (start + n) :: ends_from (start + n) r
  end.

Record opened_chunk := mkOC {
  oc_chunk : chunk;
  oc_records : list record;
  oc_truncated : bool;
  oc_data : bytes }.        (* file content after the (possible) set_len *)

(* Chunk::open on the bytes of one file *)
Definition chunk_open (cfg : config) (id : N) (data : bytes) : opened_chunk + err :=
  let '(recs, rest, e) := scan_file data in
  let ends := ends_from id (map snd recs) in
  let ch := mkChunk id ends in
  let keep := firstn (length data - length rest) data in
  match e with
  | SEnd => inl (mkOC ch (map fst recs) false data)
  | SEof => if c_truncate cfg then inl (mkOC ch (map fst recs) true keep) else inr EDecodeEof
  | SInvalid =>
    if all_zero rest && c_truncate cfg then inl (mkOC ch (map fst recs) true keep)
    else inr EDecodeInvalid
  | SFuel => inr EDecodeInvalid
  end.

(* replay the records of one chunk *)
Fixpoint replay (s : sm) (id : N) (start : N) (recs : list record) (ends : list N)
  : sm * option err :=
  match recs, ends with
  | r :: recs', e :: ends' =>
    match sm_apply s r id (start, e - start) with
    | (s1, None) => replay s1 id e recs' ends'
    | (s1, Some er) => (s1, Some er)
    end
  | _, _ => (s, None)
  end.

Record open_acc := mkOA {
  oa_sm : sm;
  oa_closed : list closed;
  oa_prev_end : option N;
  oa_last : option logid;
  oa_disk : disk }.

Inductive open_res :=
| OpenOk (y : sys)
| OpenErr (e : err) (d : disk).    (* the directory as the failed open left it *)

(* the loop over the sorted chunk files; [is_last] marks the newest file *)
Fixpoint open_loop (cfg : config) (files : list file) (a : open_acc) : open_acc + (err * disk) :=
  match files with
  | [] => inl a
  | f :: rest =>
    let sm0 := mkSM (m_rs (oa_sm a)) (m_log (oa_sm a))
                    (cache_set_evictable (m_cache (oa_sm a)) (oa_last a)) in
    let id := f_id f in
    let gap := match oa_prev_end a with Some p => negb (N.eqb p id) | None => false end in
    if gap then inr (EGap, oa_disk a)
    else
      match chunk_open cfg id (f_data f) with
      | inr e => inr (e, oa_disk a)
      | inl oc =>
        (* set_len + sync_all when truncated *)
        let d1 := if oc_truncated oc
                  then disk_put (mkFile id (oc_data oc) (N.of_nat (length (oc_data oc)))) (oa_disk a)
                  else oa_disk a in
        match ck_ends (oc_chunk oc), rest with
        | [], [] =>
          (* newest chunk without a complete record: remove it (it is created again) and
             restore the eviction boundary *)
          inl (mkOA (oa_sm a) (oa_closed a) (Some id) (oa_last a) (disk_remove id d1))
        | _, _ =>
          match replay sm0 id id (oc_records oc) (ck_ends (oc_chunk oc)) with
          | (s1, Some e) => inr (e, d1)
          | (s1, None) =>
            let cl := mkClosed (oc_chunk oc) (m_rs s1) (oc_truncated oc) in
            open_loop cfg rest
              (mkOA s1 (closed_insert cl (oa_closed a)) (Some (ck_end (oc_chunk oc)))
                    (r_last (m_rs s1)) d1)
          end
        end
      end
  end.

Definition sm_new (cfg : config) : sm :=
  mkSM rstate0 [] (cache_new (c_max_items cfg) (c_capacity cfg)).

(* last element and the list without it *)
Fixpoint split_last {A} (l : list A) : option (list A * A) :=
  match l with
  | [] => None
  | [x] => Some ([], x)
  | x :: r => match split_last r with Some (i, z) => Some (x :: i, z) | None => None end
  end.

(* RaftLog::open on a directory image (the lock is modelled separately) *)
Definition open_dir (cfg : config) (d : disk) : open_res :=
  match open_loop cfg d (mkOA (sm_new cfg) [] None None d) with
  | inr (e, d') => OpenErr e d'
  | inl a =>
    (* reopen_last_closed *)
    let reuse :=
      match split_last (oa_closed a) with
      | Some (init, lastc) => if cl_truncated lastc then None else Some (init, lastc)
      | None => None
      end in
    match reuse with
    | Some (init, lastc) =>
      let prev_last := match split_last init with Some (_, c) => r_last (cl_state c) | None => None end in
      let k := mkCore cfg (oa_sm a) (cl_chunk lastc) [] init [] 0 0 0 in
      OpenOk (mkSys k (oa_disk a) [] [mkWF (ck_id (cl_chunk lastc)) prev_last] [])
    | None =>
      let id := match oa_prev_end a with Some p => p | None => 0 end in
      match disk_get id (oa_disk a) with
      | Some _ => OpenErr EExists (oa_disk a)           (* create_new fails *)
      | None =>
        let head := enc_record (RState (m_rs (oa_sm a))) in
        let open := ck_push (mkChunk id []) (N.of_nat (length head)) in
        let prev_last := match split_last (oa_closed a) with
                         | Some (_, c) => r_last (cl_state c) | None => None end in
        let k := mkCore cfg (oa_sm a) open [] (oa_closed a) [] 0 0 0 in
        OpenOk (mkSys k (disk_put (mkFile id head 0) (oa_disk a)) [] [mkWF id prev_last] [])
      end
    end
  end.

(* a fresh store in an empty directory *)
Definition sys_init (cfg : config) : open_res := open_dir cfg [].
