(* Running histories on the L1 system: the operations a caller can issue, and the
   canonical observation of each. *)
From Coq Require Import List NArith Bool.
From RaftLog Require Import Base.Bytes Model.Types Model.Codec Model.Cache Model.Core Model.Recover.
From RaftLog Require Import Spec.Spec.
Import ListNotations.
Local Open Scope N_scope.

Inductive op :=
| OW (w : wop)
| OFlush (cb : bool)
| ORead (from to : N)
| ODumpIter
| OStat
| OSize
| OIdle                    (* wait_worker_idle *)
| ODrain                   (* drain_cache_evictable *)
| ORestart (cfg : config). (* wait idle; drop; open with cfg *)

Inductive result :=
| ResW (w : wres)
| ResUnit
| ResRead (items : list ritem)
| ResStat (s : stat) (rs : rstate)
| ResSize (n : N)
| ResOpened
| ResOpenErr (k : ekind)
| ResPanic.

Definition with_core (y : sys) (k : core) : sys :=
  mkSys k (y_disk y) (y_queue y) (y_files y) (y_acks y).

(* [None]: the run cannot continue (panic or failed open) *)
Definition run_op (y : sys) (o : op) : option sys * result :=
  match o with
  | OW w =>
    match do_write (y_core y) w with
    | Panic => (None, ResPanic)
    | Ret (k, r, effs) => (Some (apply_effs (with_core y k) effs), ResW r)
    end
  | OFlush cb =>
    let '(k, effs) := do_flush (y_core y) cb in
    (Some (apply_effs (with_core y k) effs), ResUnit)
  | ORead from to =>
    let '(k, items) := do_read (y_core y) (y_disk y) from to in
    (Some (with_core y k), ResRead items)
  | ODumpIter => (Some y, ResRead (do_dump_iter (y_core y) (y_disk y)))
  | OStat => (Some y, ResStat (do_stat (y_core y)) (m_rs (k_sm (y_core y))))
  | OSize => (Some y, ResSize (do_on_disk_size (y_core y)))
  | OIdle => (Some (worker_idle y), ResUnit)
  | ODrain =>
    (Some (with_core y (core_with_cache (y_core y) (cache_drain (m_cache (k_sm (y_core y)))))),
     ResUnit)
  | ORestart cfg =>
    let y1 := worker_idle y in
    match open_dir cfg (y_disk y1) with
    | OpenOk y2 => (Some y2, ResOpened)
    | OpenErr e _ => (None, ResOpenErr (err_kind e))
    end
  end.

Fixpoint run_ops (y : sys) (ops : list op) : list result * option sys :=
  match ops with
  | [] => ([], Some y)
  | o :: r =>
    match run_op y o with
    | (Some y', res) => let '(rs, fin) := run_ops y' r in (res :: rs, fin)
    | (None, res) => ([res], None)
    end
  end.

Definition run_case (cfg : config) (ops : list op) : list result * option sys :=
  match open_dir cfg [] with
  | OpenOk y => run_ops y ops
  | OpenErr e _ => ([ResOpenErr (err_kind e)], None)
  end.

(* expansion of caller writes into spec writes (one per journal record) *)
Definition swrites_of (w : wop) : list swrite :=
  match w with
  | OVote v => [SVote v]
  | OAppend es => map (fun e => SEntry (fst e) (snd e)) es
  | OTruncate i => [STruncate i]
  | OPurge u => [SPurge u]
  | OCommit id => [SCommit id]
  | OUser u => [SUser u]
  | OUpdateState _ => []
  end.
