(* Payload cache (src/raft_log/state_machine/payload_cache.rs). The BTreeMap is a
   list sorted by log id; every function follows the Rust loop it models. *)
From Coq Require Import List NArith Bool.
From RaftLog Require Import Base.Bytes Model.Types.
Import ListNotations.
Local Open Scope N_scope.

Definition psize (p : payload) : N := N.of_nat (length p).

Record cache := mkCache {
  ch_max_items : N;
  ch_capacity : N;
  ch_size : N;
  ch_entries : list (logid * payload);     (* sorted by log id, no duplicates *)
  ch_evictable : option logid }.

Definition cache_new (max_items capacity : N) : cache :=
  mkCache max_items capacity 0 [] None.

Definition cache_set_evictable (c : cache) (b : option logid) : cache :=
  mkCache (ch_max_items c) (ch_capacity c) (ch_size c) (ch_entries c) b.

Definition cache_with (c : cache) (sz : N) (es : list (logid * payload)) : cache :=
  mkCache (ch_max_items c) (ch_capacity c) sz es (ch_evictable c).

(* BTreeMap::insert *)
Fixpoint ent_insert (k : logid) (v : payload) (es : list (logid * payload)) :=
  match es with
  | [] => [(k, v)]
  | (k', v') :: r =>
    match pair_cmp k k' with
    | Lt => (k, v) :: es
    | Eq => (k, v) :: r
    | Gt => (k', v') :: ent_insert k v r
    end
  end.

Fixpoint ent_get (k : logid) (es : list (logid * payload)) : option payload :=
  match es with
  | [] => None
  | (k', v) :: r => if pair_eqb k k' then Some v else ent_get k r
  end.

Definition need_evict (c : cache) (n : nat) (sz : N) : bool :=
  N.ltb (ch_max_items c) (N.of_nat n) || N.ltb (ch_capacity c) sz.

(* try_evict: while need_evict, pop the first entry if it is <= last_evictable *)
Fixpoint evict_loop (c : cache) (es : list (logid * payload)) (sz : N)
  : list (logid * payload) * N :=
  match es with
  | [] => ([], sz)
  | (id, p) :: r =>
    if need_evict c (length es) sz then
      if opair_leb (Some id) (ch_evictable c) then evict_loop c r (sz - psize p)
      else (es, sz)
    else (es, sz)
  end.

Definition cache_insert (c : cache) (k : logid) (v : payload) : cache :=
  let es := ent_insert k v (ch_entries c) in
  let sz := ch_size c + psize v in
  let '(es', sz') := evict_loop c es sz in
  cache_with c sz' es'.

(* drain_evictable *)
Fixpoint drain_loop (b : option logid) (es : list (logid * payload)) (sz : N) :=
  match es with
  | [] => ([], sz)
  | (id, p) :: r =>
    if opair_leb (Some id) b then drain_loop b r (sz - psize p) else (es, sz)
  end.
Definition cache_drain (c : cache) : cache :=
  let '(es, sz) := drain_loop (ch_evictable c) (ch_entries c) (ch_size c) in
  cache_with c sz es.

(* truncate_after: pop_last while key < log_id; works on the reversed list *)
Fixpoint pop_last_loop (key : logid) (rev_es : list (logid * payload)) (sz : N) :=
  match rev_es with
  | [] => ([], sz)
  | (id, p) :: r =>
    if pair_ltb key id then pop_last_loop key r (sz - psize p) else (rev_es, sz)
  end.
Definition cache_truncate_after (c : cache) (key : logid) : cache :=
  let '(r, sz) := pop_last_loop key (rev (ch_entries c)) (ch_size c) in
  cache_with c sz (rev r).

(* purge_upto: pop_first while log_id <= key && log_id <= last_evictable *)
Fixpoint purge_loop (key : logid) (b : option logid) (es : list (logid * payload)) (sz : N) :=
  match es with
  | [] => ([], sz)
  | (id, p) :: r =>
    if pair_leb id key && opair_leb (Some id) b then purge_loop key b r (sz - psize p)
    else (es, sz)
  end.
Definition cache_purge_upto (c : cache) (key : logid) : cache :=
  let '(es, sz) := purge_loop key (ch_evictable c) (ch_entries c) (ch_size c) in
  cache_with c sz es.

Definition cache_clear (c : cache) : cache := cache_with c 0 [].
