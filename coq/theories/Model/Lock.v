(* Directory ownership (src/file_lock.rs, RaftLog::open, Dump::new): contenders race to
   open, drop and reopen one directory. An open is FileLock::new (open/truncate the LOCK
   file, then flock(LOCK_EX|LOCK_NB)) and, only when the lock was obtained, everything
   else (directory scan, recovery, writes, chunk creation and removal). The semantics of
   flock (exclusive per open file description, released by unlock/close) is the model's
   assumption about the kernel. No proofs in this file. *)
From Coq Require Import List Arith Bool.
Import ListNotations.

Inductive cstate := CIdle | CLockFileOpen | COwner.

Record lstate := mkL {
  l_holder : option nat;          (* who holds the flock *)
  l_cs : nat -> cstate;           (* per contender *)
  l_touches : list (nat * bool) } (* log: (contender, was it the holder?) for every chunk-file access *).

Definition l_init : lstate := mkL None (fun _ => CIdle) [].

Definition upd (f : nat -> cstate) (c : nat) (v : cstate) : nat -> cstate :=
  fun x => if Nat.eqb x c then v else f x.

Inductive lev :=
| LOpenLockFile (c : nat)   (* OpenOptions create+truncate on dir/LOCK *)
| LTryLock (c : nat)        (* try_lock_exclusive; on failure the open returns an error *)
| LTouch (c : nat)          (* any access to chunk files: list, read, create, write, truncate, unlink *)
| LDrop (c : nat).          (* drop: worker joined, then unlock *)

Definition holder_is (s : lstate) (c : nat) : bool :=
  match l_holder s with Some h => Nat.eqb h c | None => false end.

(* the crate's code: what each event does, and when the code can perform it *)
Definition lstep (s : lstate) (e : lev) : option lstate :=
  match e with
  | LOpenLockFile c =>
    match l_cs s c with
    | CIdle => Some (mkL (l_holder s) (upd (l_cs s) c CLockFileOpen) (l_touches s))
    | _ => None
    end
  | LTryLock c =>
    match l_cs s c with
    | CLockFileOpen =>
      match l_holder s with
      | None => Some (mkL (Some c) (upd (l_cs s) c COwner) (l_touches s))
      | Some _ => Some (mkL (l_holder s) (upd (l_cs s) c CIdle) (l_touches s))   (* refused: error, fd closed *)
      end
    | _ => None
    end
  | LTouch c =>
    match l_cs s c with
    | COwner => Some (mkL (l_holder s) (l_cs s) (l_touches s ++ [(c, holder_is s c)]))
    | _ => None          (* the code touches chunk files only after FileLock::new succeeded *)
    end
  | LDrop c =>
    match l_cs s c with
    | COwner => Some (mkL None (upd (l_cs s) c CIdle) (l_touches s))
    | _ => None
    end
  end.

Fixpoint lrun (s : lstate) (es : list lev) : option lstate :=
  match es with
  | [] => Some s
  | e :: r => match lstep s e with Some s' => lrun s' r | None => None end
  end.
