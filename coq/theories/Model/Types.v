(* Data types of the model: the fixed instantiation of the crate's [Types]
   (LogId = (term, index), Vote = (term, voted_for) with the partial order of a Raft vote,
   LogPayload = UserData = Vec<u8>). *)
From Coq Require Import List NArith Bool.
From Coq.Strings Require Import Byte.
From RaftLog Require Import Base.Bytes.
Import ListNotations.
Local Open Scope N_scope.

Definition logid := (N * N)%type.   (* (term, index) *)
Definition vote := (N * N)%type.    (* (term, voted_for) *)
Definition payload := bytes.

Definition lid_index (l : logid) : N := snd l.

(* derived lexicographic order of Rust tuples *)
Definition pair_cmp (a b : N * N) : comparison :=
  match N.compare (fst a) (fst b) with
  | Eq => N.compare (snd a) (snd b)
  | c => c
  end.
Definition pair_ltb a b := match pair_cmp a b with Lt => true | _ => false end.
Definition pair_leb a b := match pair_cmp a b with Gt => false | _ => true end.
Definition pair_eqb (a b : N * N) := N.eqb (fst a) (fst b) && N.eqb (snd a) (snd b).

(* Option<T>: None < Some _ *)
Definition opair_cmp (a b : option (N * N)) : comparison :=
  match a, b with
  | None, None => Eq
  | None, Some _ => Lt
  | Some _, None => Gt
  | Some x, Some y => pair_cmp x y
  end.
Definition opair_ltb a b := match opair_cmp a b with Lt => true | _ => false end.
Definition opair_leb a b := match opair_cmp a b with Gt => false | _ => true end.

(* The vote is only PartialOrd in the crate. The instantiation used here has the partial
   order of a Raft vote: a higher term is greater, the same term and the same candidate
   are equal, the same term and different candidates are INCOMPARABLE.
   [ovote_accepts cur v] is the crate's test [Some(v) >= cur] (RaftLogState::check_vote):
   true iff partial_cmp is Greater or Equal; None is below everything. *)
Definition vote_geb (v c : vote) : bool :=
  N.ltb (fst c) (fst v) || (N.eqb (fst v) (fst c) && N.eqb (snd v) (snd c)).
Definition ovote_accepts (cur : option vote) (v : vote) : bool :=
  match cur with
  | None => true
  | Some c => vote_geb v c
  end.

Record rstate := mkRState {
  r_vote : option vote;
  r_last : option logid;
  r_committed : option logid;
  r_purged : option logid;
  r_user : option payload }.

Definition rstate0 : rstate := mkRState None None None None None.

Inductive record :=
| RVote (v : vote)
| RAppend (id : logid) (p : payload)
| RCommit (id : logid)
| RTrunc (after : option logid)
| RPurge (upto : logid)
| RState (st : rstate).

(* T::next_log_index, unbounded; the u64 overflow is guarded where the code guards it *)
Definition next_index (o : option logid) : N :=
  match o with Some l => lid_index l + 1 | None => 0 end.

Definition U64MAX : N := 18446744073709551615.

(* result of a computation that may panic *)
Inductive outcome (A : Type) := Ret (a : A) | Panic.
Arguments Ret {A} a.
Arguments Panic {A}.
