(* Chunk file names (src/config.rs: chunk_file_name / parse_chunk_file_name, src/num.rs:
   format_grouped). Strings are byte lists (ASCII). No proofs in this file. *)
From Coq Require Import List NArith Bool Arith.
From Coq.Strings Require Import Byte.
From RaftLog Require Import Base.Bytes Model.Types.
Import ListNotations.
Local Open Scope N_scope.

Definition digit_byte (d : N) : byte := n2b (48 + d).

(* format!("{:0width$}", n): k decimal digits, most significant first (n < 10^k) *)
Fixpoint digits (k : nat) (n : N) : bytes :=
  match k with
  | O => []
  | S k' => digit_byte ((n / 10 ^ N.of_nat k') mod 10) :: digits k' n
  end.

(* format_grouped: an underscore before every group of three digits counted from the right *)
Fixpoint grouped_aux (len i : nat) (ds : bytes) : bytes :=
  match ds with
  | [] => []
  | d :: r =>
    (if Nat.ltb 0 i && Nat.eqb ((len - i) mod 3) 0 then [x5f] else []) ++ d :: grouped_aux len (S i) r
  end.
Definition grouped (ds : bytes) : bytes := grouped_aux (length ds) 0 ds.

Definition prefix_r : bytes := [x72; x2d].                (* "r-" *)
Definition suffix_wal : bytes := [x2e; x77; x61; x6c].    (* ".wal" *)

(* Config::chunk_file_name *)
Definition chunk_file_name (id : N) : bytes := prefix_r ++ grouped (digits 20 id) ++ suffix_wal.

Definition bytes_eqb (a b : bytes) : bool :=
  Nat.eqb (length a) (length b) && forallb (fun p => N.eqb (b2n (fst p)) (b2n (snd p))) (combine a b).

Definition strip_prefix (p s : bytes) : option bytes :=
  if bytes_eqb (firstn (length p) s) p then Some (skipn (length p) s) else None.
Definition strip_suffix (p s : bytes) : option bytes :=
  if Nat.leb (length p) (length s) && bytes_eqb (skipn (length s - length p) s) p
  then Some (firstn (length s - length p) s) else None.

Definition is_digit (b : byte) : bool := N.leb 48 (b2n b) && N.leb (b2n b) 57.

(* str::parse::<u64>() of a string of ASCII digits: empty and overflow are errors *)
Definition parse_dec (ds : bytes) : option N :=
  match ds with
  | [] => None
  | _ =>
    let n := fold_left (fun acc d => acc * 10 + (b2n d - 48)) ds 0 in
    if N.leb n U64MAX then Some n else None
  end.

(* Config::parse_chunk_file_name *)
Definition parse_chunk_file_name (s : bytes) : option N :=
  match strip_suffix suffix_wal s with
  | None => None
  | Some s1 =>
    match strip_prefix prefix_r s1 with
    | None => None
    | Some s2 =>
      if Nat.eqb (length s2) 26 then parse_dec (filter is_digit s2) else None
    end
  end.

(* lexicographic order of byte strings (how file names sort) *)
Fixpoint bytes_ltb (a b : bytes) : bool :=
  match a, b with
  | [], [] => false
  | [], _ :: _ => true
  | _ :: _, [] => false
  | x :: a', y :: b' =>
    if N.ltb (b2n x) (b2n y) then true
    else if N.eqb (b2n x) (b2n y) then bytes_ltb a' b' else false
  end.
