(* L2: the caller, the flush worker and the file system as a small-step system
   (wal/flush_worker.rs, wal/mod.rs). Caller operations are split into their
   in-memory part and the effects they perform afterwards, so that worker steps
   and crashes can fall in between. No proofs in this file. *)
From Coq Require Import List NArith Bool.
From Coq.Strings Require Import Byte.
From RaftLog Require Import Base.Bytes Model.Types Model.Codec Model.Cache Model.Core Model.Recover Model.Run.
Import ListNotations.
Local Open Scope N_scope.

(* micro effects of a caller operation *)
Inductive xeff :=
| XCreate (id : N)                     (* OpenOptions::create_new *)
| XWriteHead (id : N) (data : bytes)   (* write_all of the head record, on the caller thread *)
| XSend (r : wreq).

Definition expand_eff (e : eff) : list xeff :=
  match e with
  | ECreate id head => [XCreate id; XWriteHead id head]
  | ESend r => [XSend r]
  end.

(* position of the worker inside a batch *)
Inductive wpos :=
| BWrite (i : nat)        (* next: write_all of request i *)
| BSyncOld                (* next: sync_data of the oldest file while more than one is tracked *)
| BSetEvict               (* next: set_last_evictable *)
| BSyncNew                (* next: sync_data of the newest file *)
| BCallbacks (i : nat)    (* next: callback of request i *)
| BPostponed              (* next: removals postponed by an earlier failed sync *)
| BNonFlush               (* next: the drained non-write request *)
| BUnlink (ids : list N)  (* inside RemoveChunks *)
| BDone.                  (* next: store done_seq *)

Record wwrite := mkWW { ww_upto : N; ww_data : bytes; ww_cb : option N }.

Record batch := mkBatch {
  b_writes : list wwrite;
  b_nf : option wreq;
  b_pos : wpos;
  b_ok : bool }.           (* the sync result of this batch (true until a sync fails) *)

Record worker := mkWorker {
  w_files : list wfile;
  w_alive : bool;
  w_batch : option batch;
  w_sync_failed : bool;       (* a sync failed and no later sync has succeeded yet *)
  w_postponed : list N }.     (* removals requested while w_sync_failed *)

(* history variables: they record what happened and influence nothing *)
Record ghost := mkGhost {
  g_writes : list (wop * wres);              (* every write call with its result, in call order *)
  g_flushed : list (option N * N * nat);     (* flush calls: callback id, journal end offset, number of write calls before it *)
  g_removals : list (list N * N);            (* RemoveChunks sent: chunk ids, journal end offset of the flush that carried them *)
  g_created : list N }.                      (* chunk files ever created (or found at open), oldest first *)

Record sys2 := mkSys2 {
  z_core : core;
  z_todo : list xeff;          (* effects of the API call in progress still to perform *)
  z_disk : disk;
  z_queue : list wreq;
  z_w : worker;
  z_acks : list (N * bool);
  z_dropped : bool;
  z_ghost : ghost }.

(* what an event did that an observer of system calls and callbacks can see *)
Inductive vis :=
| VCreate (id : N)
| VWrite (caller : bool) (id : N) (len : N) (ok : bool)
| VSync (id : N) (ok : bool)
| VUnlink (id : N) (ok : bool)
| VCallback (cb : N) (ok : bool)
| VResult (r : result).

Inductive zev :=
| ZCall (o : op)                 (* the in-memory part of an API call *)
| ZEff                           (* the next pending effect of the call in progress *)
| ZRecv (k : nat) (nf : bool)    (* worker: receive one request and drain k further writes (and the following non-write) *)
| ZWork (ok : bool)              (* worker: next action; ok = result of the system call if it is one *)
| ZDrop.                         (* the caller drops the store *)

Definition set_core (z : sys2) (k : core) : sys2 :=
  mkSys2 k (z_todo z) (z_disk z) (z_queue z) (z_w z) (z_acks z) (z_dropped z) (z_ghost z).
Definition set_todo (z : sys2) (t : list xeff) : sys2 :=
  mkSys2 (z_core z) t (z_disk z) (z_queue z) (z_w z) (z_acks z) (z_dropped z) (z_ghost z).
Definition set_disk (z : sys2) (d : disk) : sys2 :=
  mkSys2 (z_core z) (z_todo z) d (z_queue z) (z_w z) (z_acks z) (z_dropped z) (z_ghost z).
Definition set_queue (z : sys2) (q : list wreq) : sys2 :=
  mkSys2 (z_core z) (z_todo z) (z_disk z) q (z_w z) (z_acks z) (z_dropped z) (z_ghost z).
Definition set_w (z : sys2) (w : worker) : sys2 :=
  mkSys2 (z_core z) (z_todo z) (z_disk z) (z_queue z) w (z_acks z) (z_dropped z) (z_ghost z).
Definition add_ack (z : sys2) (c : N) (ok : bool) : sys2 :=
  mkSys2 (z_core z) (z_todo z) (z_disk z) (z_queue z) (z_w z) (z_acks z ++ [(c, ok)]) (z_dropped z) (z_ghost z).
Definition set_ghost (z : sys2) (g : ghost) : sys2 :=
  mkSys2 (z_core z) (z_todo z) (z_disk z) (z_queue z) (z_w z) (z_acks z) (z_dropped z) g.

Definition w_set_batch (w : worker) (b : option batch) : worker :=
  mkWorker (w_files w) (w_alive w) b (w_sync_failed w) (w_postponed w).
Definition w_set_pos (w : worker) (b : batch) (p : wpos) : worker :=
  w_set_batch w (Some (mkBatch (b_writes b) (b_nf b) p (b_ok b))).
Definition w_die (w : worker) : worker :=
  mkWorker (w_files w) false None (w_sync_failed w) (w_postponed w).

Definition worker_quiet (z : sys2) : bool :=
  match w_batch (z_w z) with None => true | Some _ => false end.

(* ---- caller ---- *)
Definition zcall (z : sys2) (o : op) : option (sys2 * list vis) :=
  match z_todo z, z_dropped z with
  | [], false =>
    match o with
    | OW w =>
      match do_write (z_core z) w with
      | Panic => None
      | Ret (k, r, effs) =>
        let t := flat_map expand_eff effs in
        let g := z_ghost z in
        let z1 := set_ghost (set_todo (set_core z k) t)
                    (mkGhost (g_writes g ++ [(w, r)]) (g_flushed g) (g_removals g) (g_created g)) in
        (* the call returns when its effects are done; the result is known now *)
        Some (z1, [VResult (ResW r)])
      end
    | OFlush cb =>
      let '(k, effs) := do_flush (z_core z) cb in
      let g := z_ghost z in
      let upto := ck_end (k_open (z_core z)) in
      let cbid := if cb then Some (k_next_cb (z_core z)) else None in
      let g' := mkGhost (g_writes g) (g_flushed g ++ [(cbid, upto, length (g_writes g))])
                        (match k_removed (z_core z) with
                         | [] => g_removals g
                         | ids => g_removals g ++ [(ids, upto)]
                         end)
                        (g_created g) in
      Some (set_ghost (set_todo (set_core z k) (flat_map expand_eff effs)) g', [VResult ResUnit])
    | ORead from to =>
      let '(k, items) := do_read (z_core z) (z_disk z) from to in
      Some (set_core z k, [VResult (ResRead items)])
    | ODumpIter => Some (z, [VResult (ResRead (do_dump_iter (z_core z) (z_disk z)))])
    | OStat => Some (z, [VResult (ResStat (do_stat (z_core z)) (m_rs (k_sm (z_core z))))])
    | OSize => Some (z, [VResult (ResSize (do_on_disk_size (z_core z)))])
    | OIdle =>
      (* wait_worker_idle returns only when everything sent has been processed *)
      match z_queue z with
      | [] => if worker_quiet z then Some (z, [VResult ResUnit]) else None
      | _ => None
      end
    | ODrain =>
      Some (set_core z (core_with_cache (z_core z) (cache_drain (m_cache (k_sm (z_core z))))),
            [VResult ResUnit])
    | ORestart _ => None
    end
  | _, _ => None
  end.

Definition zeff (z : sys2) : option (sys2 * list vis) :=
  match z_todo z with
  | [] => None
  | XCreate id :: t =>
    let g := z_ghost z in
    Some (set_ghost (set_todo (set_disk z (disk_put (mkFile id [] 0) (z_disk z))) t)
                    (mkGhost (g_writes g) (g_flushed g) (g_removals g) (g_created g ++ [id])),
          [VCreate id])
  | XWriteHead id data :: t =>
    Some (set_todo (set_disk z (disk_append id data (z_disk z))) t,
          [VWrite true id (N.of_nat (length data)) true])
  | XSend r :: t => Some (set_todo (set_queue z (z_queue z ++ [r])) t, [])
  end.

(* ---- worker ---- *)
Fixpoint take_writes (k : nat) (q : list wreq) : option (list wwrite * list wreq) :=
  match k with
  | O => Some ([], q)
  | S k' =>
    match q with
    | WWrite upto data cb :: r =>
      match take_writes k' r with
      | Some (ws, rest) => Some (mkWW upto data cb :: ws, rest)
      | None => None
      end
    | _ => None
    end
  end.

Definition zrecv (z : sys2) (k : nat) (nf : bool) : option (sys2 * list vis) :=
  let w := z_w z in
  match w_alive w, w_batch w, z_queue z with
  | true, None, WWrite upto data cb :: q =>
    match take_writes k q with
    | None => None
    | Some (ws, rest) =>
      let '(onf, rest') :=
        match nf, rest with
        | true, (WWrite _ _ _ :: _) => (None, rest)        (* not enabled, rejected below *)
        | true, r :: rest'' => (Some r, rest'')
        | _, _ => (None, rest)
        end in
      match nf, onf with
      | true, None => None
      | _, _ =>
        Some (set_w (set_queue z rest')
                    (w_set_batch w (Some (mkBatch (mkWW upto data cb :: ws) onf (BWrite 0) true))), [])
      end
    end
  | true, None, r :: q =>
    (* a non-write request received directly *)
    if Nat.eqb k 0 && negb nf then
      Some (set_w (set_queue z q) (w_set_batch w (Some (mkBatch [] (Some r) BNonFlush true))), [])
    else None
  | _, _, _ => None
  end.

Definition newest (w : worker) : option wfile :=
  match rev (w_files w) with f :: _ => Some f | [] => None end.

Definition zwork (z : sys2) (ok : bool) : option (sys2 * list vis) :=
  let w := z_w z in
  match w_alive w, w_batch w with
  | true, Some b =>
    match b_pos b with
    | BWrite i =>
      match nth_error (b_writes b) i with
      | None => Some (set_w z (w_set_pos w b BSyncOld), [])
      | Some ww =>
        match ww_data ww, newest w with
        | [], _ => Some (set_w z (w_set_pos w b (BWrite (S i))), [])    (* empty data: no write call *)
        | _, None => None
        | data, Some f =>
          if ok then
            Some (set_w (set_disk z (disk_append (wf_id f) data (z_disk z))) (w_set_pos w b (BWrite (S i))),
                  [VWrite false (wf_id f) (N.of_nat (length data)) true])
          else
            (* write_all failed: run_inner returns the error, the thread ends *)
            Some (set_w z (w_die w), [VWrite false (wf_id f) (N.of_nat (length data)) false])
        end
      end
    | BSyncOld =>
      match w_files w with
      | f :: (_ :: _) as rest =>
        if ok then
          Some (set_w (set_disk z (disk_sync (wf_id f) (z_disk z)))
                      (w_set_pos (mkWorker rest true (w_batch w) (w_sync_failed w) (w_postponed w)) b BSyncOld),
                [VSync (wf_id f) true])
        else
          Some (set_w z (mkWorker (w_files w) true
                                  (Some (mkBatch (b_writes b) (b_nf b) (BCallbacks 0) false))
                                  true (w_postponed w)),
                [VSync (wf_id f) false])
      | _ => Some (set_w z (w_set_pos w b BSetEvict), [])
      end
    | BSetEvict =>
      match w_files w with
      | f :: _ =>
        Some (set_w (set_core z (core_with_cache (z_core z)
                       (cache_set_evictable (m_cache (k_sm (z_core z))) (wf_prev_last f))))
                    (w_set_pos w b BSyncNew), [])
      | [] => None
      end
    | BSyncNew =>
      match w_files w with
      | f :: _ =>
        if ok then
          Some (set_w (set_disk z (disk_sync (wf_id f) (z_disk z)))
                      (mkWorker (w_files w) true
                                (Some (mkBatch (b_writes b) (b_nf b) (BCallbacks 0) true))
                                false (w_postponed w)),
                [VSync (wf_id f) true])
        else
          Some (set_w z (mkWorker (w_files w) true
                                  (Some (mkBatch (b_writes b) (b_nf b) (BCallbacks 0) false))
                                  true (w_postponed w)),
                [VSync (wf_id f) false])
      | [] => None
      end
    | BCallbacks i =>
      match nth_error (b_writes b) i with
      | None => Some (set_w z (w_set_pos w b BPostponed), [])
      | Some ww =>
        match ww_cb ww with
        | None => Some (set_w z (w_set_pos w b (BCallbacks (S i))), [])
        | Some c =>
          Some (add_ack (set_w z (w_set_pos w b (BCallbacks (S i)))) c (b_ok b), [VCallback c (b_ok b)])
        end
      end
    | BPostponed =>
      (* removals postponed by a failed sync are carried out once a sync has succeeded *)
      if w_sync_failed w then Some (set_w z (w_set_pos w b BNonFlush), [])
      else
        match w_postponed w with
        | [] => Some (set_w z (w_set_pos w b BNonFlush), [])
        | id :: rest =>
          if ok then
            Some (set_w (set_disk z (disk_remove id (z_disk z)))
                        (mkWorker (w_files w) true (w_batch w) false rest), [VUnlink id true])
          else Some (set_w z (w_die w), [VUnlink id false])
        end
    | BNonFlush =>
      match b_nf b with
      | None => Some (set_w z (w_set_pos w b BDone), [])
      | Some (WAppendFile off prev) =>
        Some (set_w z (w_set_pos (mkWorker (w_files w ++ [mkWF off prev]) true (w_batch w)
                                           (w_sync_failed w) (w_postponed w)) b BDone), [])
      | Some (WRemove ids) =>
        if w_sync_failed w then
          Some (set_w z (w_set_pos (mkWorker (w_files w) true (w_batch w) true (w_postponed w ++ ids)) b BDone), [])
        else Some (set_w z (w_set_pos w b (BUnlink ids)), [])
      | Some (WWrite _ _ _) => None
      end
    | BUnlink ids =>
      match ids with
      | [] => Some (set_w z (w_set_pos w b BDone), [])
      | id :: rest =>
        if ok then
          Some (set_w (set_disk z (disk_remove id (z_disk z))) (w_set_pos w b (BUnlink rest)),
                [VUnlink id true])
        else Some (set_w z (w_die w), [VUnlink id false])
      end
    | BDone => Some (set_w z (w_set_batch w None), [])
    end
  | _, _ => None
  end.

Definition zstep (z : sys2) (e : zev) : option (sys2 * list vis) :=
  match e with
  | ZCall o => zcall z o
  | ZEff => zeff z
  | ZRecv k nf => zrecv z k nf
  | ZWork ok => zwork z ok
  | ZDrop =>
    match z_todo z with
    | [] => Some (mkSys2 (z_core z) [] (z_disk z) (z_queue z) (z_w z) (z_acks z) true (z_ghost z), [])
    | _ => None
    end
  end.

Fixpoint zrun (z : sys2) (es : list zev) : option (sys2 * list vis) :=
  match es with
  | [] => Some (z, [])
  | e :: r =>
    match zstep z e with
    | None => None
    | Some (z1, v1) =>
      match zrun z1 r with
      | None => None
      | Some (z2, v2) => Some (z2, v1 ++ v2)
      end
    end
  end.

Definition sys2_of (y : sys) : sys2 :=
  mkSys2 (y_core y) [] (y_disk y) (y_queue y) (mkWorker (y_files y) true None false []) (y_acks y) false
         (mkGhost [] [] [] (map f_id (y_disk y))).

Definition zinit (cfg : config) (d : disk) : option sys2 :=
  match open_dir cfg d with
  | OpenOk y => Some (sys2_of y)
  | OpenErr _ _ => None
  end.

(* ---- crash images ---- *)
(* What a directory may look like after a crash in state z: the set of files is the
   current one (directory operations are durable and ordered); every file keeps at
   least its synced prefix and at most what was written (cut at any byte), possibly
   followed, from a record boundary on, by zeros up to the written length (size
   updated, data blocks lost). *)
(* a whole number of (decodable) records *)
Definition whole_records (bs : bytes) : Prop :=
  exists rs, bs = concat (map enc_record rs) /\
             Forall (fun r => dec_record (enc_record r) = DOk (r, [])) rs.
Definition file_image (f f' : file) : Prop :=
  f_id f' = f_id f /\
  exists n k : nat, (f_synced f <= N.of_nat n)%N /\ (n + k <= length (f_data f))%nat /\
              f_data f' = firstn n (f_data f) ++ zeros k /\
              (* a zero-filled tail starts at a record boundary *)
              (k = 0%nat \/ whole_records (firstn n (f_data f))).
Definition crash_image (z : sys2) (d' : disk) : Prop := Forall2 file_image (z_disk z) d'.

(* process crash: every completed write is kept *)
Definition process_crash_image (z : sys2) : disk :=
  map (fun f => mkFile (f_id f) (f_data f) (N.of_nat (length (f_data f)))) (z_disk z).
