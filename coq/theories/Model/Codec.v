(* L0: the record codec (src/raft_log/wal/wal_record.rs, raft_log_state.rs, codeq impls). *)
From Coq Require Import List NArith Bool.
From Coq.Strings Require Import Byte.
From RaftLog Require Import Base.Bytes Base.Crc32 Model.Types.
Import ListNotations.
Local Open Scope N_scope.

(* ---- encoders ---- *)
Definition enc_u8 (n : N) : bytes := be_enc 1 n.
Definition enc_u32 (n : N) : bytes := be_enc 4 n.
Definition enc_u64 (n : N) : bytes := be_enc 8 n.
Definition enc_pair (a : N * N) : bytes := enc_u64 (fst a) ++ enc_u64 (snd a).
Definition enc_opt {A} (e : A -> bytes) (o : option A) : bytes :=
  match o with None => [x00] | Some a => x01 :: e a end.
(* Vec<u8>: u32 length (len as u32: truncating) then the bytes *)
Definition enc_bytes (p : bytes) : bytes := enc_u32 (N.of_nat (length p)) ++ p.

Definition enc_rstate (s : rstate) : bytes :=
  x01 ::                                   (* version *)
  enc_opt enc_pair (r_vote s) ++
  enc_opt enc_pair (r_last s) ++
  enc_opt enc_pair (r_committed s) ++
  enc_opt enc_pair (r_purged s) ++
  enc_opt enc_bytes (r_user s).

Definition rec_tag (r : record) : N :=
  match r with
  | RVote _ => 0 | RAppend _ _ => 1 | RCommit _ => 2
  | RTrunc _ => 3 | RPurge _ => 4 | RState _ => 5
  end.

Definition enc_payload (r : record) : bytes :=
  match r with
  | RVote v => enc_pair v
  | RAppend id p => enc_pair id ++ enc_bytes p
  | RCommit id => enc_pair id
  | RTrunc o => enc_opt enc_pair o
  | RPurge id => enc_pair id
  | RState s => enc_rstate s
  end.

Definition enc_body (r : record) : bytes := enc_u32 (rec_tag r) ++ enc_payload r.
Definition enc_record (r : record) : bytes :=
  let b := enc_body r in b ++ enc_u64 (crc32 b).
Definition rec_size (r : record) : N := N.of_nat (length (enc_record r)).

(* ---- decoders, reading left to right in the order of the Rust decoder ---- *)
Definition p_u8 : parser N := p_be 1.
Definition p_u32 : parser N := p_be 4.
Definition p_u64 : parser N := p_be 8.
Definition p_pair : parser (N * N) := ppair p_u64 p_u64.

Definition p_opt {A} (pa : parser A) : parser (option A) :=
  pbind (take_n 1) (fun tg =>
    match tg with
    | [x00] => pret None
    | [x01] => pbind pa (fun a => pret (Some a))
    | _ => pfail
    end).

(* read_exact of an N-sized buffer; the length test avoids building a huge unary
   number for absurd length prefixes, the result is that of [take_n (N.to_nat n)] *)
Definition take_N (n : N) : parser bytes :=
  fun bs => if N.ltb (N.of_nat (length bs)) n then DEof else take_n (N.to_nat n) bs.

Definition p_bytes : parser bytes := pbind p_u32 take_N.

Definition p_rstate : parser rstate :=
  pbind p_u8 (fun ver =>
    if N.eqb ver 1 then
      pbind (p_opt p_pair) (fun v =>
      pbind (p_opt p_pair) (fun l =>
      pbind (p_opt p_pair) (fun c =>
      pbind (p_opt p_pair) (fun p =>
      pbind (p_opt p_bytes) (fun u =>
      pret (mkRState v l c p u))))))
    else pfail).

Definition p_payload (tag : N) : parser record :=
  match tag with
  | 0 => pmap RVote p_pair
  | 1 => pbind p_pair (fun id => pbind p_bytes (fun p => pret (RAppend id p)))
  | 2 => pmap RCommit p_pair
  | 3 => pmap RTrunc (p_opt p_pair)
  | 4 => pmap RPurge p_pair
  | 5 => pmap RState p_rstate
  | _ => pfail
  end.

Definition p_body : parser record := pbind p_u32 p_payload.

(* WALRecord::decode: body through the checksumming reader, then 8 bytes compared
   with the CRC-32 of exactly the bytes consumed so far *)
Definition dec_record : parser record :=
  fun bs =>
    match p_body bs with
    | DOk (r, rest) =>
      let consumed := firstn (length bs - length rest) bs in
      match p_u64 rest with
      | DOk (c, rest') => if N.eqb c (crc32 consumed) then DOk (r, rest') else DInvalid
      | DEof => DEof
      | DInvalid => DInvalid
      end
    | DEof => DEof
    | DInvalid => DInvalid
    end.
