(* L1: the sequential core of RaftLog (raft_log.rs, wal/mod.rs, the state_machine
   and chunk modules), plus a sequential, fault-free flush worker. Every function follows the
   statement order of the Rust code it models. No proofs in this file. *)
From Coq Require Import List NArith Bool.
From Coq.Strings Require Import Byte.
From RaftLog Require Import Base.Bytes Base.Crc32 Model.Types Model.Codec Model.Cache.
Import ListNotations.
Local Open Scope N_scope.

(* ------------------------------------------------------------------ config *)
Record config := mkConfig {
  c_max_items : N;      (* log_cache_max_items *)
  c_capacity : N;       (* log_cache_capacity *)
  c_max_records : N;    (* chunk_max_records *)
  c_max_size : N;       (* chunk_max_size *)
  c_truncate : bool }.  (* truncate_incomplete_record *)

(* ------------------------------------------------------------------ errors *)
(* io::ErrorKind classes that the crate produces *)
Inductive ekind := KInvalidInput | KInvalidData | KUnexpectedEof | KNotFound
                 | KAlreadyExists | KWouldBlock | KOther.

Inductive err :=
| EVoteReversal | ELogIdReversal | ENonConsecutive | EIndexNotFound | EIndexLimit
| EChunkNotFound | EGap | EDecodeEof | EDecodeInvalid | EExists.

Definition err_kind (e : err) : ekind :=
  match e with
  | EVoteReversal | ELogIdReversal | ENonConsecutive | EIndexNotFound | EIndexLimit => KInvalidInput
  | EChunkNotFound => KNotFound
  | EGap => KInvalidData
  | EDecodeEof => KUnexpectedEof
  | EDecodeInvalid => KInvalidData
  | EExists => KAlreadyExists
  end.

(* ------------------------------------------------------------------ RaftLogState *)
Definition rs_set_vote (s : rstate) v := mkRState v (r_last s) (r_committed s) (r_purged s) (r_user s).
Definition rs_set_last (s : rstate) l := mkRState (r_vote s) l (r_committed s) (r_purged s) (r_user s).
Definition rs_set_committed (s : rstate) c := mkRState (r_vote s) (r_last s) c (r_purged s) (r_user s).
Definition rs_set_purged (s : rstate) p := mkRState (r_vote s) (r_last s) (r_committed s) p (r_user s).
Definition rs_set_user (s : rstate) u := mkRState (r_vote s) (r_last s) (r_committed s) (r_purged s) u.

(* the checks of update_vote / append / commit, without mutation (RaftLogState::validate) *)
Definition rs_validate (s : rstate) (r : record) : option err :=
  match r with
  | RVote v => if ovote_accepts (r_vote s) v then None else Some EVoteReversal
  | RAppend id _ =>
    if opair_leb (Some id) (r_last s) then Some ELogIdReversal
    else match r_last s with
         | Some l => if N.eqb (lid_index l + 1) (lid_index id) then None else Some ENonConsecutive
         | None => None
         end
  | RCommit id => if opair_ltb (Some id) (r_committed s) then Some ELogIdReversal else None
  | _ => None
  end.

(* RaftLogState::apply *)
Definition rs_apply (s : rstate) (r : record) : rstate + err :=
  match rs_validate s r with
  | Some e => inr e
  | None =>
    inl match r with
        | RVote v => rs_set_vote s (Some v)
        | RAppend id _ => rs_set_last s (Some id)
        | RCommit id => rs_set_committed s (Some id)
        | RTrunc o => if opair_ltb o (r_last s) then rs_set_last s o else s
        | RPurge id =>
          let s1 := if opair_ltb (r_purged s) (Some id) then rs_set_purged s (Some id) else s in
          if opair_ltb (r_last s1) (Some id) then rs_set_last s1 (Some id) else s1
        | RState st => st
        end
  end.

(* ------------------------------------------------------------------ index map *)
Record logdata := mkLD { ld_id : logid; ld_chunk : N; ld_off : N; ld_len : N }.
Definition logmap := list (N * logdata).     (* BTreeMap<u64, LogData>: sorted by index *)

Fixpoint lm_insert (k : N) (v : logdata) (m : logmap) : logmap :=
  match m with
  | [] => [(k, v)]
  | (k', v') :: r =>
    match N.compare k k' with
    | Lt => (k, v) :: m
    | Eq => (k, v) :: r
    | Gt => (k', v') :: lm_insert k v r
    end
  end.
Fixpoint lm_get (k : N) (m : logmap) : option logdata :=
  match m with
  | [] => None
  | (k', v) :: r => if N.eqb k k' then Some v else lm_get k r
  end.
Definition lm_keep_lt (k : N) (m : logmap) : logmap := filter (fun e => N.ltb (fst e) k) m.
Definition lm_keep_ge (k : N) (m : logmap) : logmap := filter (fun e => N.leb k (fst e)) m.
Definition lm_range (from to : N) (m : logmap) : logmap :=
  filter (fun e => N.leb from (fst e) && N.ltb (fst e) to) m.

(* ------------------------------------------------------------------ state machine *)
Record sm := mkSM { m_rs : rstate; m_log : logmap; m_cache : cache }.

(* RaftLogStateMachine::apply: index map and cache first, then RaftLogState::apply *)
Definition sm_apply (s : sm) (r : record) (chunk : N) (seg : N * N) : sm * option err :=
  let '(lg, ch) :=
    match r with
    | RAppend id p =>
      (lm_insert (lid_index id) (mkLD id chunk (fst seg) (snd seg)) (m_log s),
       cache_insert (m_cache s) id p)
    | RTrunc o =>
      (lm_keep_lt (next_index o) (m_log s),
       match o with
       | Some id => cache_truncate_after (m_cache s) id
       | None => cache_clear (m_cache s)
       end)
    | RPurge id =>
      (lm_keep_ge (next_index (Some id)) (m_log s), cache_purge_upto (m_cache s) id)
    | _ => (m_log s, m_cache s)
    end in
  match rs_apply (m_rs s) r with
  | inl rs' => (mkSM rs' lg ch, None)
  | inr e => (mkSM (m_rs s) lg ch, Some e)
  end.

(* ------------------------------------------------------------------ chunks *)
(* global_offsets = ck_id :: ck_ends *)
Record chunk := mkChunk { ck_id : N; ck_ends : list N }.
Definition ck_records (c : chunk) : N := N.of_nat (length (ck_ends c)).
Definition ck_end (c : chunk) : N := last (ck_ends c) (ck_id c).
Definition ck_size (c : chunk) : N := ck_end c - ck_id c.
(* Chunk::last_segment: offsets[l-2], offsets[l-1]; l-2 underflows without a record *)
Definition ck_last_segment (c : chunk) : outcome (N * N) :=
  match rev (ck_ends c) with
  | [] => Panic
  | e :: r => let s := match r with [] => ck_id c | e' :: _ => e' end in Ret (s, e - s)
  end.
Definition ck_push (c : chunk) (size : N) : chunk :=
  mkChunk (ck_id c) (ck_ends c ++ [ck_end c + size]).

Record closed := mkClosed { cl_chunk : chunk; cl_state : rstate; cl_truncated : bool }.

Fixpoint closed_insert (c : closed) (l : list closed) : list closed :=
  match l with
  | [] => [c]
  | c' :: r =>
    match N.compare (ck_id (cl_chunk c)) (ck_id (cl_chunk c')) with
    | Lt => c :: l
    | Eq => c :: r
    | Gt => c' :: closed_insert c r
    end
  end.
Fixpoint closed_get (id : N) (l : list closed) : option closed :=
  match l with
  | [] => None
  | c :: r => if N.eqb id (ck_id (cl_chunk c)) then Some c else closed_get id r
  end.

(* ------------------------------------------------------------------ worker requests, effects *)
Inductive wreq :=
| WWrite (upto : N) (data : bytes) (cb : option N)     (* sync is always true *)
| WAppendFile (offset : N) (prev_last : option logid)
| WRemove (ids : list N).

(* what a caller operation does outside its own memory, in order *)
Inductive eff :=
| ECreate (id : N) (head : bytes)    (* create_new r-<id>.wal, then write_all(head) on the caller thread *)
| ESend (r : wreq).

(* ------------------------------------------------------------------ caller-side state *)
Record core := mkCore {
  k_cfg : config;
  k_sm : sm;
  k_open : chunk;
  k_pending : bytes;
  k_closed : list closed;       (* sorted by chunk id *)
  k_removed : list N;           (* removed_chunks (as chunk ids) *)
  k_hit : N;
  k_miss : N;
  k_next_cb : N }.

Definition core_with_sm (k : core) (s : sm) : core :=
  mkCore (k_cfg k) s (k_open k) (k_pending k) (k_closed k) (k_removed k) (k_hit k) (k_miss k) (k_next_cb k).
Definition core_with_cache (k : core) (c : cache) : core :=
  core_with_sm k (mkSM (m_rs (k_sm k)) (m_log (k_sm k)) c).

Definition is_full (cfg : config) (c : chunk) : bool :=
  N.leb (c_max_records cfg) (ck_records c) || N.leb (c_max_size cfg) (ck_size c).

(* RaftLogWAL::try_close_full_chunk *)
Definition try_close (k : core) : outcome (core * list eff) :=
  if is_full (k_cfg k) (k_open k) then
    match ck_last_segment (k_open k) with
    | Panic => Panic
    | Ret (s, l) =>
      let offset := s + l in
      let state := m_rs (k_sm k) in
      let head := enc_record (RState state) in
      let new_open := ck_push (mkChunk offset []) (N.of_nat (length head)) in
      let effs :=
        [ECreate offset head] ++
        (match k_pending k with [] => [] | _ => [ESend (WWrite offset (k_pending k) None)] end) ++
        [ESend (WAppendFile offset (r_last state))] in
      let cl := mkClosed (k_open k) state false in
      Ret (mkCore (k_cfg k) (k_sm k) new_open [] (closed_insert cl (k_closed k))
                  (k_removed k) (k_hit k) (k_miss k) (k_next_cb k), effs)
    end
  else Ret (k, []).

Inductive wres :=
| WOk (off len : N)          (* Ok(Segment) *)
| WErr (e : err).

(* RaftLog::append_and_apply (with the u64::MAX guard and validate-before-journal) *)
Definition index_limit (r : record) : bool :=
  match r with
  | RAppend id _ => N.eqb (lid_index id) U64MAX
  | RPurge id => N.eqb (lid_index id) U64MAX
  | _ => false
  end.

Definition append_and_apply (k : core) (r : record) : outcome (core * wres * list eff) :=
  if index_limit r then Ret (k, WErr EIndexLimit, [])
  else match rs_validate (m_rs (k_sm k)) r with
  | Some e => Ret (k, WErr e, [])
  | None =>
    let bytes := enc_record r in
    let open1 := ck_push (k_open k) (N.of_nat (length bytes)) in
    match ck_last_segment open1 with
    | Panic => Panic
    | Ret seg =>
      let '(sm1, oe) := sm_apply (k_sm k) r (ck_id open1) seg in
      let k1 := mkCore (k_cfg k) sm1 open1 (k_pending k ++ bytes) (k_closed k)
                       (k_removed k) (k_hit k) (k_miss k) (k_next_cb k) in
      match oe with
      | Some e => Ret (k1, WErr e, [])          (* unreachable after validate; kept faithful *)
      | None =>
        match try_close k1 with
        | Panic => Panic
        | Ret (k2, effs) => Ret (k2, WOk (fst seg) (snd seg), effs)
        end
      end
    end
  end.

Definition wal_last_segment (k : core) : outcome wres :=
  match ck_last_segment (k_open k) with
  | Panic => Panic
  | Ret (s, l) => Ret (WOk s l)
  end.

(* RaftLogWriter::append: stops at the first refused entry *)
Fixpoint do_append (k : core) (es : list (logid * payload)) (acc : wres) (effs : list eff)
  : outcome (core * wres * list eff) :=
  match es with
  | [] => Ret (k, acc, effs)
  | (id, p) :: r =>
    match append_and_apply k (RAppend id p) with
    | Panic => Panic
    | Ret (k1, WErr e, ef) => Ret (k1, WErr e, effs ++ ef)
    | Ret (k1, w, ef) => do_append k1 r w (effs ++ ef)
    end
  end.

Definition lm_get_id (k : core) (i : N) : option logid :=
  match lm_get i (m_log (k_sm k)) with Some d => Some (ld_id d) | None => None end.

(* purge: pop closed chunks whose closing last <= upto *)
Fixpoint pop_obsolete (upto : logid) (cl : list closed) : list N * list closed :=
  match cl with
  | [] => ([], [])
  | c :: r =>
    if opair_ltb (Some upto) (r_last (cl_state c)) then ([], cl)
    else let '(ids, rest) := pop_obsolete upto r in (ck_id (cl_chunk c) :: ids, rest)
  end.

Inductive wop :=
| OVote (v : vote)
| OAppend (es : list (logid * payload))
| OTruncate (i : N)
| OPurge (upto : logid)
| OCommit (id : logid)
| OUser (u : option payload)
| OUpdateState (st : rstate).

Definition do_write (k : core) (o : wop) : outcome (core * wres * list eff) :=
  match o with
  | OVote v => append_and_apply k (RVote v)
  | OAppend es =>
    match wal_last_segment k with
    | Panic => Panic
    | Ret w0 => do_append k es w0 []
    end
  | OTruncate i =>
    let purged := r_purged (m_rs (k_sm k)) in
    if N.eqb i (next_index purged) then append_and_apply k (RTrunc purged)
    else if N.eqb i 0 then Ret (k, WErr EIndexNotFound, [])
    else match lm_get_id k (i - 1) with
         | None => Ret (k, WErr EIndexNotFound, [])
         | Some id => append_and_apply k (RTrunc (Some id))
         end
  | OPurge upto =>
    let purged := r_purged (m_rs (k_sm k)) in
    if N.ltb (lid_index upto) (next_index purged) then
      match wal_last_segment k with Panic => Panic | Ret w => Ret (k, w, []) end
    else
      match append_and_apply k (RPurge upto) with
      | Panic => Panic
      | Ret (k1, WErr e, ef) => Ret (k1, WErr e, ef)
      | Ret (k1, w, ef) =>
        let '(ids, rest) := pop_obsolete upto (k_closed k1) in
        Ret (mkCore (k_cfg k1) (k_sm k1) (k_open k1) (k_pending k1) rest
                    (k_removed k1 ++ ids) (k_hit k1) (k_miss k1) (k_next_cb k1), w, ef)
      end
  | OCommit id => append_and_apply k (RCommit id)
  | OUser u => append_and_apply k (RState (rs_set_user (m_rs (k_sm k)) u))
  | OUpdateState st => append_and_apply k (RState st)
  end.

(* flush: send_flush, then RemoveChunks if any *)
Definition do_flush (k : core) (want_cb : bool) : core * list eff :=
  let cb := if want_cb then Some (k_next_cb k) else None in
  let e1 := ESend (WWrite (ck_end (k_open k)) (k_pending k) cb) in
  let e2 := match k_removed k with [] => [] | ids => [ESend (WRemove ids)] end in
  (mkCore (k_cfg k) (k_sm k) (k_open k) [] (k_closed k) [] (k_hit k) (k_miss k)
          (if want_cb then k_next_cb k + 1 else k_next_cb k),
   e1 :: e2).

(* ------------------------------------------------------------------ disk *)
Record file := mkFile { f_id : N; f_data : bytes; f_synced : N }.
Definition disk := list file.     (* sorted by chunk id *)

Fixpoint disk_get (id : N) (d : disk) : option file :=
  match d with
  | [] => None
  | f :: r => if N.eqb id (f_id f) then Some f else disk_get id r
  end.
Fixpoint disk_put (f : file) (d : disk) : disk :=
  match d with
  | [] => [f]
  | g :: r =>
    match N.compare (f_id f) (f_id g) with
    | Lt => f :: d
    | Eq => f :: r
    | Gt => g :: disk_put f r
    end
  end.
Definition disk_remove (id : N) (d : disk) : disk :=
  filter (fun f => negb (N.eqb id (f_id f))) d.
Definition disk_append (id : N) (data : bytes) (d : disk) : disk :=
  match disk_get id d with
  | Some f => disk_put (mkFile id (f_data f ++ data) (f_synced f)) d
  | None => d
  end.
Definition disk_sync (id : N) (d : disk) : disk :=
  match disk_get id d with
  | Some f => disk_put (mkFile id (f_data f) (N.of_nat (length (f_data f)))) d
  | None => d
  end.

(* ------------------------------------------------------------------ reads *)
Inductive ritem := RIOk (id : logid) (p : payload) | RIErr (k : ekind) | RIPanic.

(* Chunk::read_record: pread of the segment, then decode *)
Definition read_record (d : disk) (c : chunk) (off len : N) : outcome (record + err) :=
  (* segment.offset().0 - self.global_start() on u64 comes first, before any I/O: it
     underflows (a panic in debug builds) when the offset lies below the chunk's start *)
  if N.ltb off (ck_id c) then Panic else
  match disk_get (ck_id c) d with
  | None => Ret (inr EDecodeEof)
  | Some f =>
    let rel := off - ck_id c in
    if N.ltb (N.of_nat (length (f_data f))) (rel + len) then Ret (inr EDecodeEof)
    else
      let buf := firstn (N.to_nat len) (skipn (N.to_nat rel) (f_data f)) in
      match dec_record buf with
      | DOk (r, _) => Ret (inl r)
      | DEof => Ret (inr EDecodeEof)
      | DInvalid => Ret (inr EDecodeInvalid)
      end
  end.

(* load_log_payload: closed chunks only *)
Definition load_payload (cl : list closed) (d : disk) (ld : logdata) : ritem :=
  match closed_get (ld_chunk ld) cl with
  | None => RIErr KNotFound
  | Some c =>
    match read_record d (cl_chunk c) (ld_off ld) (ld_len ld) with
    | Panic => RIPanic
    | Ret (inr e) => RIErr (err_kind e)
    | Ret (inl (RAppend _ p)) => RIOk (ld_id ld) p
    | Ret (inl _) => RIPanic
    end
  end.

Fixpoint read_items (ch : cache) (cl : list closed) (d : disk) (m : logmap) (hit miss : N)
  : list ritem * N * N :=
  match m with
  | [] => ([], hit, miss)
  | (_, ld) :: r =>
    match ent_get (ld_id ld) (ch_entries ch) with
    | Some p =>
      let '(items, h, ms) := read_items ch cl d r (hit + 1) miss in (RIOk (ld_id ld) p :: items, h, ms)
    | None =>
      let '(items, h, ms) := read_items ch cl d r hit (miss + 1) in
      (load_payload cl d ld :: items, h, ms)
    end
  end.

(* RaftLog::read(from, to): an inverted range is empty *)
Definition do_read (k : core) (d : disk) (from to : N) : core * list ritem :=
  let to' := N.max to from in
  let '(items, h, ms) :=
    read_items (m_cache (k_sm k)) (k_closed k) d (lm_range from to' (m_log (k_sm k)))
               (k_hit k) (k_miss k) in
  (mkCore (k_cfg k) (k_sm k) (k_open k) (k_pending k) (k_closed k) (k_removed k) h ms (k_next_cb k),
   items).

(* dump_data().iter(): snapshot iteration; its own hit/miss counters *)
Definition do_dump_iter (k : core) (d : disk) : list ritem :=
  let '(items, _, _) :=
    read_items (m_cache (k_sm k)) (k_closed k) d (m_log (k_sm k)) 0 0 in items.

(* ------------------------------------------------------------------ stat *)
Record chunk_stat := mkCS { cs_id : N; cs_records : N; cs_start : N; cs_end : N; cs_size : N;
                            cs_state : rstate }.
Record stat := mkStat {
  st_closed : list chunk_stat;
  st_open : chunk_stat;
  st_evictable : option logid;
  st_items : N; st_max_items : N; st_size : N; st_capacity : N;
  st_miss : N; st_hit : N }.

Definition chunk_stat_of (c : chunk) (s : rstate) : chunk_stat :=
  mkCS (ck_id c) (ck_records c) (ck_id c) (ck_end c) (ck_size c) s.

Definition do_stat (k : core) : stat :=
  let ch := m_cache (k_sm k) in
  mkStat (map (fun c => chunk_stat_of (cl_chunk c) (cl_state c)) (k_closed k))
         (chunk_stat_of (k_open k) (m_rs (k_sm k)))
         (ch_evictable ch) (N.of_nat (length (ch_entries ch))) (ch_max_items ch)
         (ch_size ch) (ch_capacity ch) (k_miss k) (k_hit k).

Definition do_on_disk_size (k : core) : N :=
  let first := match k_closed k with c :: _ => ck_id (cl_chunk c) | [] => ck_id (k_open k) end in
  ck_end (k_open k) - first.

(* ------------------------------------------------------------------ sequential worker *)
Record wfile := mkWF { wf_id : N; wf_prev_last : option logid }.

Record sys := mkSys {
  y_core : core;
  y_disk : disk;
  y_queue : list wreq;
  y_files : list wfile;          (* FlushWorker.files *)
  y_acks : list (N * bool) }.    (* callback invocations, in order: (callback id, ok) *)

Definition apply_eff (y : sys) (e : eff) : sys :=
  match e with
  | ECreate id head =>
    mkSys (y_core y) (disk_put (mkFile id head 0) (y_disk y)) (y_queue y) (y_files y) (y_acks y)
  | ESend r => mkSys (y_core y) (y_disk y) (y_queue y ++ [r]) (y_files y) (y_acks y)
  end.
Definition apply_effs (y : sys) (es : list eff) : sys := fold_left apply_eff es y.

(* one request processed to completion, no faults *)
Definition worker_step (y : sys) (r : wreq) : sys :=
  match r with
  | WWrite upto data cb =>
    match rev (y_files y) with
    | [] => y
    | newest :: older =>
      let d1 := disk_append (wf_id newest) data (y_disk y) in
      let d2 := fold_left (fun d f => disk_sync (wf_id f) d) (rev older) d1 in
      let k' := core_with_cache (y_core y)
                  (cache_set_evictable (m_cache (k_sm (y_core y))) (wf_prev_last newest)) in
      let d3 := disk_sync (wf_id newest) d2 in
      mkSys k' d3 (y_queue y) [newest]
            (match cb with Some c => y_acks y ++ [(c, true)] | None => y_acks y end)
    end
  | WAppendFile off prev =>
    mkSys (y_core y) (y_disk y) (y_queue y) (y_files y ++ [mkWF off prev]) (y_acks y)
  | WRemove ids =>
    mkSys (y_core y) (fold_left (fun d i => disk_remove i d) ids (y_disk y)) (y_queue y)
          (y_files y) (y_acks y)
  end.

(* wait_worker_idle: the whole queue is processed *)
Definition worker_idle (y : sys) : sys :=
  let y0 := mkSys (y_core y) (y_disk y) [] (y_files y) (y_acks y) in
  fold_left worker_step (y_queue y) y0.
