(* C15 — Payload cache accounting is exact; only pinned entries may exceed the limits.
   Pinned statements only; proofs are in Proofs/CacheFacts.v and Proofs/CacheSys.v. *)
From Coq Require Import List NArith.
From RaftLog Require Import Base.Bytes Model.Types Model.Cache Model.Core Model.Recover Model.Run.
From RaftLog Require Import Proofs.CacheFacts Proofs.CacheSys.
Import ListNotations.

(* In every state reachable from an empty directory by any operations with any
   arguments (accepted or refused writes of the six kinds, flushes, reads, stats,
   worker progress, forced drains), the size counter equals the total payload size of
   the resident entries and the keys are distinct. *)
Theorem C15_counts_exact : forall cfg ops res y,
  ops_no_restart ops = true ->
  run_case cfg ops = (res, Some y) ->
  cache_ok (m_cache (k_sm (y_core y))).
Proof. exact CacheSys.C15_counts_exact. Qed.

(* what stat() reports *)
Theorem C15_stat_exact : forall cfg ops res y,
  ops_no_restart ops = true ->
  run_case cfg ops = (res, Some y) ->
  let es := ch_entries (m_cache (k_sm (y_core y))) in
  st_items (do_stat (y_core y)) = N.of_nat (length es) /\
  st_size (do_stat (y_core y)) = total es /\ NoDup (map fst es).
Proof. exact CacheSys.C15_stat_exact. Qed.

(* after an accepted append, a cache over either limit holds only entries above the
   eviction boundary in force at that append *)
Theorem C15_over_limit_pinned : forall cfg ops res y es y' o l,
  ops_no_restart ops = true -> run_case cfg ops = (res, Some y) -> es <> [] ->
  run_op y (OW (OAppend es)) = (Some y', ResW (WOk o l)) ->
  let c := m_cache (k_sm (y_core y)) in
  let c' := m_cache (k_sm (y_core y')) in
  need_evict c' (length (ch_entries c')) (ch_size c') = true ->
  forall id p, In (id, p) (ch_entries c') -> opair_leb (Some id) (ch_evictable c) = false.
Proof. exact CacheSys.C15_over_limit_pinned. Qed.

(* after draining, no resident entry lies at or below the boundary *)
Theorem C15_drain : forall cfg ops res y y' r,
  ops_no_restart ops = true -> run_case cfg ops = (res, Some y) ->
  run_op y ODrain = (Some y', r) ->
  let c' := m_cache (k_sm (y_core y')) in
  ch_evictable c' = ch_evictable (m_cache (k_sm (y_core y))) /\
  forall id p, In (id, p) (ch_entries c') -> opair_leb (Some id) (ch_evictable c') = false.
Proof. exact CacheSys.C15_drain. Qed.

(* replaying a journal keeps the accounting exact as long as every State record in it
   carries a last log id not below the resident keys (restart case, partial: the
   premise heads_ok is discharged by the journal invariant, not yet proved here) *)
Theorem C15_replay_partial : forall s id start recs ends s1,
  cinv s -> heads_ok (m_rs s) recs -> replay s id start recs ends = (s1, None) -> cinv s1.
Proof. intros s id start recs ends s1. exact (CacheSys.replay_cinv recs ends s id start s1). Qed.

(* non-vacuity: a reachable state with a rotation, a truncation and a refused write *)
Example C15_reachable_example :
  exists res y, run_case (mkConfig 1 10 2 1000 true)
    [OW (OAppend [((1,0), [Byte.x61]); ((1,1), [Byte.x62; Byte.x63])]); OFlush true; OIdle;
     OW (OAppend [((1,1), [Byte.x64])]); OW (OTruncate 1); OW (OAppend [((2,1), [])]); ODrain]%N
    = (res, Some y) /\ ch_size (m_cache (k_sm (y_core y))) = total (ch_entries (m_cache (k_sm (y_core y)))).
Proof. eexists; eexists; split; [vm_compute; reflexivity | vm_compute; reflexivity]. Qed.

Print Assumptions C15_counts_exact.
Print Assumptions C15_over_limit_pinned.
Print Assumptions C15_drain.
