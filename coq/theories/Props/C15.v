(* C15 — Payload cache accounting is exact; only pinned entries may exceed the limits.
   Pinned statements only; proofs are in Proofs/CacheFacts.v and Proofs/CacheSys.v. *)
From Coq Require Import List NArith.
From RaftLog Require Import Base.Bytes Model.Types Model.Cache Model.Core Model.Recover Model.Run.
From RaftLog Require Import Proofs.CacheFacts Proofs.CacheSys Proofs.JournalFacts.
From RaftLog Require Proofs.CacheRestart.
Import ListNotations.

(* In every state reachable from an empty directory by any operations with any
   arguments (accepted or refused writes of the six kinds, flushes, reads, stats,
   worker progress, forced drains), the size counter equals the total payload size of
   the resident entries and the keys are distinct. *)
Theorem C15_counts_exact : forall cfg ops res y,
  ops_no_restart ops = true ->
  run_case cfg ops = (res, Some y) ->
  cache_ok (m_cache (k_sm (y_core y))).
Proof. exact CacheSys.C15_counts_exact. Qed.

(* what stat() reports *)
Theorem C15_stat_exact : forall cfg ops res y,
  ops_no_restart ops = true ->
  run_case cfg ops = (res, Some y) ->
  let es := ch_entries (m_cache (k_sm (y_core y))) in
  st_items (do_stat (y_core y)) = N.of_nat (length es) /\
  st_size (do_stat (y_core y)) = total es /\ NoDup (map fst es).
Proof. exact CacheSys.C15_stat_exact. Qed.

(* after an accepted append, a cache over either limit holds only entries above the
   eviction boundary in force at that append *)
Theorem C15_over_limit_pinned : forall cfg ops res y es y' o l,
  ops_no_restart ops = true -> run_case cfg ops = (res, Some y) -> es <> [] ->
  run_op y (OW (OAppend es)) = (Some y', ResW (WOk o l)) ->
  let c := m_cache (k_sm (y_core y)) in
  let c' := m_cache (k_sm (y_core y')) in
  need_evict c' (length (ch_entries c')) (ch_size c') = true ->
  forall id p, In (id, p) (ch_entries c') -> opair_leb (Some id) (ch_evictable c) = false.
Proof. exact CacheSys.C15_over_limit_pinned. Qed.

(* after draining, no resident entry lies at or below the boundary *)
Theorem C15_drain : forall cfg ops res y y' r,
  ops_no_restart ops = true -> run_case cfg ops = (res, Some y) ->
  run_op y ODrain = (Some y', r) ->
  let c' := m_cache (k_sm (y_core y')) in
  ch_evictable c' = ch_evictable (m_cache (k_sm (y_core y))) /\
  forall id p, In (id, p) (ch_entries c') -> opair_leb (Some id) (ch_evictable c') = false.
Proof. exact CacheSys.C15_drain. Qed.

(* the same with restarts anywhere in the history: any configuration and any cache limits
   (0/0 included) at every restart, unflushed bytes lost at a restart, refused writes and
   Raft-illegal purges included; only update_state (which installs an arbitrary state) is
   excluded. Arguments are well-formed (u64 / u32 ranges) so that recovery decodes what was
   written. *)
Theorem C15_counts_exact_restarts : forall cfg ops res y,
  forallb CacheRestart.op_c15 ops = true -> Forall op_wf ops ->
  run_case cfg ops = (res, Some y) ->
  cache_ok (m_cache (k_sm (y_core y))).
Proof. exact CacheRestart.C15_counts_exact_restarts. Qed.

Theorem C15_stat_exact_restarts : forall cfg ops res y,
  forallb CacheRestart.op_c15 ops = true -> Forall op_wf ops ->
  run_case cfg ops = (res, Some y) ->
  let es := ch_entries (m_cache (k_sm (y_core y))) in
  st_items (do_stat (y_core y)) = N.of_nat (length es) /\
  st_size (do_stat (y_core y)) = total es /\ NoDup (map fst es).
Proof. exact CacheRestart.C15_stat_exact_restarts. Qed.

(* on these histories a restart never fails: recovery replays exactly the records that
   were validated when they were written *)
Theorem C15_restart_always_opens : forall cfg ops res y,
  forallb CacheRestart.op_c15 ops = true -> Forall op_wf ops ->
  run_case cfg ops = (res, Some y) ->
  forall cfg', exists y', run_op y (ORestart cfg') = (Some y', ResOpened).
Proof. intros cfg ops res y H1 H2 H3 cfg'. exact (CacheRestart.C15_restart_always_opens cfg ops res y cfg' H1 H2 H3). Qed.

(* non-vacuity: a reachable state with a rotation, a truncation and a refused write *)
Example C15_reachable_example :
  exists res y, run_case (mkConfig 1 10 2 1000 true)
    [OW (OAppend [((1,0), [Byte.x61]); ((1,1), [Byte.x62; Byte.x63])]); OFlush true; OIdle;
     OW (OAppend [((1,1), [Byte.x64])]); OW (OTruncate 1); OW (OAppend [((2,1), [])]); ODrain]%N
    = (res, Some y) /\ ch_size (m_cache (k_sm (y_core y))) = total (ch_entries (m_cache (k_sm (y_core y)))).
Proof. eexists; eexists; split; [vm_compute; reflexivity | vm_compute; reflexivity]. Qed.

Print Assumptions C15_counts_exact_restarts.
Print Assumptions C15_counts_exact.
Print Assumptions C15_over_limit_pinned.
Print Assumptions C15_drain.
