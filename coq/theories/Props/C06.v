(* C06 — Rejected writes leave no trace.
   Pinned statements only; proofs are in Proofs/SmFacts.v and Proofs/Refine.v. *)
From Coq Require Import List NArith.
From RaftLog Require Import Base.Bytes Model.Types Model.Cache Model.Core Model.Recover Model.Run.
From RaftLog Require Import Spec.Spec Spec.Hist Proofs.SmFacts Proofs.Refine.
Import ListNotations.

(* Unconditionally, in ANY state: a record that is refused leaves the whole caller-side
   state (Raft state, index map, cache and its counters, chunk bookkeeping, buffered
   bytes, pending removals) identical and produces no file-system or worker effect.
   Since the state is identical, every later operation, flush and restart behaves as if
   the call had never been made. *)
Theorem C06_refused_record_no_trace : forall k r k' e effs,
  append_and_apply k r = Ret (k', WErr e, effs) -> k' = k /\ effs = [].
Proof. exact SmFacts.C06_refused_record_no_trace. Qed.

(* the same for every write call other than a multi-entry append: vote going backwards,
   commit going backwards, truncate at an index that does not exist, index u64::MAX *)
Theorem C06_refused_write_no_trace : forall k w k' e effs,
  (match w with OAppend _ => False | _ => True end) ->
  do_write k w = Ret (k', WErr e, effs) -> k' = k /\ effs = [].
Proof. exact SmFacts.C06_refused_write_no_trace. Qed.

(* a multi-entry append refused at some entry leaves exactly the state of appending the
   accepted prefix (the refused entry itself leaves nothing) *)
Theorem C06_refused_append_prefix : forall k es k' e effs,
  do_write k (OAppend es) = Ret (k', WErr e, effs) ->
  exists es1 x es2, es = es1 ++ x :: es2 /\
    exists w1, do_write k (OAppend es1) = Ret (k', w1, effs) /\
               (match w1 with WOk _ _ => True | WErr _ => False end).
Proof. exact SmFacts.C06_refused_append_prefix. Qed.

(* and the store refuses exactly what the reference log refuses (Raft-legal history,
   no cache pressure): so "refused by the sequential specification" implies all of the above *)
Theorem C06_refused_iff_spec_refuses : forall cfg ops0 w res0 y0,
  ops_plain spec0 (ops0 ++ [OW w]) = true ->
  big_cache cfg (ops0 ++ [OW w]) ->
  run_case cfg ops0 = (res0, Some y0) ->
  match run_op y0 (OW w) with
  | (_, ResW (WOk _ _)) => snd (spec_wop (spec_ops spec0 ops0) w) = true
  | (_, ResW (WErr _)) => snd (spec_wop (spec_ops spec0 ops0) w) = false
  | _ => False
  end.
Proof. exact Refine.C01_results_agree. Qed.

Print Assumptions C06_refused_record_no_trace.
Print Assumptions C06_refused_write_no_trace.
Print Assumptions C06_refused_append_prefix.
