(* C07 — Reads are independent of cache limits and background-worker progress.
   Pinned statements only; proofs are in Proofs/ReadCache.v, ReadInv.v, ReadFacts.v.
   The property is NOT true of the code in full (known finding F2): the refutation is
   carried as a machine-checked witness, and the positive theorem covers every history
   outside the known class. *)
From Coq Require Import List NArith.
From RaftLog Require Import Base.Bytes Model.Types Model.Cache Model.Core Model.Recover Model.Run.
From RaftLog Require Import Spec.Spec Spec.Hist.
From RaftLog Require Import Model.Sys Proofs.JournalFacts Proofs.ReadInv Proofs.ReadFacts.
From RaftLog Require Proofs.PurgeFacts Proofs.PurgeLive Proofs.ReadSys Proofs.ReadSysFaults Proofs.ReadRestart Proofs.ReadRestarts Proofs.RestartCycles.
Import ListNotations.

(* Finding F2: a Raft-legal history (append three entries at term 5, flush, worker idle,
   truncate everything, append (1,0)) under a cache of zero items after which reading
   the live entry 0 returns an error, and the store does not show the reference log. *)
Theorem C07_refuted_live : exists cfg ops res fin,
  ops_plain spec0 ops = true /\ run_case cfg ops = (res, fin) /\
  sp_entries (spec_ops spec0 ops) = [((1, 0), [])]%N /\
  res = [ResW (WOk 82 32); ResUnit; ResUnit; ResW (WOk 148 13); ResW (WOk 161 32);
         ResRead [RIErr KNotFound]]%N /\
  exists y, fin = Some y /\ ~ observes y (spec_ops spec0 ops).
Proof. exact ReadFacts.C07_refuted_live. Qed.

(* Outside the known class — every appended log id is above every eviction boundary in
   force or still to be installed by the worker ([bounds y]: the cache's boundary, the
   prev_last of every file the worker tracks and of every queued AppendFile), checked
   along the run by [run_ok_c07b] — for ANY cache limits (0 included), any chunk limits,
   drains and worker progress at any point: the run never panics and every range read and
   the snapshot iteration return exactly the reference log's entries with their payloads. *)
Theorem C07_reads_total_outside_known : forall cfg ops res fin,
  ops_c07 spec0 ops = true -> Forall op_wf ops ->
  (match open_dir cfg [] with OpenOk y0 => run_ok_c07b y0 ops = true | _ => False end) ->
  run_case cfg ops = (res, fin) ->
  exists y, fin = Some y /\ observes y (spec_ops spec0 ops).
Proof. exact ReadFacts.C07_reads_total_outside_known_partial. Qed.

(* the known class cannot be narrowed to the boundary in force alone: with that weaker
   side condition the statement is false (a boundary queued in an AppendFile is installed
   later and then evicts an entry re-appended in the meantime) *)
Theorem C07_boundary_in_force_is_not_enough : exists cfg ops res fin,
  ops_c07 spec0 ops = true /\ Forall op_wf ops /\
  (match open_dir cfg [] with OpenOk y0 => run_ok_c07 y0 ops = true | _ => False end) /\
  run_case cfg ops = (res, fin) /\
  ~ (exists y, fin = Some y /\ observes y (spec_ops spec0 ops)).
Proof. exact ReadFacts.C07_reads_total_outside_known_refuted. Qed.

(* The same on the L2 system: EVERY interleaving of caller calls with worker steps at
   system-call granularity (data still buffered, queued, in flight, written, synced,
   evicted), any batching, failing writes/syncs/unlinks and worker death. Between API
   calls, for a Raft-legal history of well-formed writes in which every append was above
   all boundaries (in force, pending in the worker's files/batch/queue, or lost with a dead
   worker; checked along the run by [zrun_ok_c07f]): the reported state, every range read
   and the snapshot iteration are exactly the reference log's. *)
Theorem C07_reads_total_outside_known_L2 : forall cfg es z v,
  zrun (PurgeFacts.z0_of cfg) es = Some (z, v) ->
  ReadSysFaults.zrun_ok_c07f (PurgeFacts.z0_of cfg) [] es = true ->
  PurgeLive.hist_legal z -> Forall wop_wf (PurgeLive.hist z) -> z_todo z = [] ->
  let sp := PurgeLive.spec_wops spec0 (PurgeLive.hist z) in
  m_rs (k_sm (z_core z)) = spec_state sp /\
  (forall from to, read_ok (snd (do_read (z_core z) (z_disk z) from to)) (spec_read sp from to)) /\
  read_ok (do_dump_iter (z_core z) (z_disk z)) (sp_entries sp).
Proof. exact ReadSysFaults.C07_reads_total_outside_known_L2_faults. Qed.

(* ---- across a clean restart, under ANY cache limits of the reopening run (0 included):
   after a history outside the known class, flushed and with the worker idle, if no live
   entry stored in the newest chunk file lies at or below the boundary the restart installs
   for that file ([restart_ok]: the F2 class as it shows at a restart; the boundary is the
   [last] of the snapshot heading that file), the directory opens under any configuration and
   the reopened store reads exactly the reference log (state, every range, snapshot
   iteration) and satisfies the read invariant I7 again ... *)
Theorem C07_restart_reads_total : forall cfg cfg' ops res y,
  ops_c07 spec0 ops = true -> Forall op_wf ops ->
  (match open_dir cfg [] with OpenOk y0 => run_ok_c07b y0 ops = true | _ => False end) ->
  run_case cfg ops = (res, Some y) ->
  y_queue y = [] -> k_pending (y_core y) = [] ->
  ReadRestart.restart_ok y = true ->
  exists y', open_dir cfg' (y_disk y) = OpenOk y' /\ observes y' (spec_ops spec0 ops) /\
             I7 y' (spec_ops spec0 ops).
Proof. exact ReadRestart.C07_restart_reads_total. Qed.

(* ... and keeps doing so for every continuation outside the known class *)
Theorem C07_restart_continue : forall cfg cfg' ops ops2 res y,
  ops_c07 spec0 ops = true -> Forall op_wf ops ->
  (match open_dir cfg [] with OpenOk y0 => run_ok_c07b y0 ops = true | _ => False end) ->
  run_case cfg ops = (res, Some y) ->
  y_queue y = [] -> k_pending (y_core y) = [] ->
  ReadRestart.restart_ok y = true ->
  exists y', open_dir cfg' (y_disk y) = OpenOk y' /\
    forall res2 fin,
      ops_c07 (spec_ops spec0 ops) ops2 = true -> Forall op_wf ops2 -> run_ok_c07b y' ops2 = true ->
      run_ops y' ops2 = (res2, fin) ->
      exists y2, fin = Some y2 /\ observes y2 (spec_ops spec0 (ops ++ ops2)) /\
                 I7 y2 (spec_ops spec0 (ops ++ ops2)).
Proof. exact ReadRestart.C07_restart_continue. Qed.

(* F2 across a restart: a store that reads its live entry correctly becomes unable to read
   it after a clean restart under a zero-item cache (append three entries at term 5,
   truncate everything, append (1,0), flush, idle, reopen) *)
Theorem C07_restart_refuted : exists cfg cfg' ops res y,
  ops_c07 spec0 ops = true /\ Forall op_wf ops /\
  run_case cfg ops = (res, Some y) /\ y_queue y = [] /\ k_pending (y_core y) = [] /\
  sp_entries (spec_ops spec0 ops) = [((1, 0), [])]%N /\
  snd (do_read (y_core y) (y_disk y) 0 1) = [RIOk (1, 0)%N []] /\
  ReadRestart.restart_bound y = Some (5, 2)%N /\ ReadRestart.restart_ok y = false /\
  exists y', open_dir cfg' (y_disk y) = OpenOk y' /\
    snd (do_read (y_core y') (y_disk y') 0 1) = [RIErr KNotFound] /\
    ~ observes y' (spec_ops spec0 ops).
Proof. exact ReadRestart.C07_restart_refuted. Qed.

(* [restart_ok] is not an extra assumption: for a history outside the known class it HOLDS at
   every flushed idle point (invariant HB: every boundary the worker still has to install is
   the [last] of the snapshot heading that file on disk, or None for the oldest file).  So
   across a clean restart the same side condition as without restarts suffices: *)
Theorem C07_restart_reads_total_strong : forall cfg cfg' ops res y,
  ops_c07 spec0 ops = true -> Forall op_wf ops ->
  (match open_dir cfg [] with OpenOk y0 => run_ok_c07b y0 ops = true | _ => False end) ->
  run_case cfg ops = (res, Some y) ->
  y_queue y = [] -> k_pending (y_core y) = [] ->
  exists y', open_dir cfg' (y_disk y) = OpenOk y' /\ observes y' (spec_ops spec0 ops) /\
             I7 y' (spec_ops spec0 ops).
Proof. exact ReadRestarts.C07_restart_reads_total_strong. Qed.

(* ANY number of clean restarts (each a flush followed by a reopen under its own
   configuration with ANY cache and chunk limits), drains, reads and worker progress anywhere:
   outside the known class (the same run-time check, which follows the run through the
   restarts) the store observes the reference log at the end — and, the theorem being closed
   under prefixes of the history, at every point *)
Theorem C07_restarts_reads_total : forall cfg ops res fin,
  ReadRestarts.ops_c07r spec0 ops = true -> Forall op_wf ops ->
  (match open_dir cfg [] with OpenOk y0 => ReadRestarts.run_ok_c07r y0 ops = true | _ => False end) ->
  run_case cfg ops = (res, fin) ->
  exists y, fin = Some y /\ observes y (spec_ops spec0 ops).
Proof. exact ReadRestarts.C07_restarts_reads_total. Qed.

(* the hypotheses are met by a history with two restarts (a one-item cache, then a zero
   cache), rotation, truncate + re-append above the boundaries, drain and purge *)
Theorem C07_restarts_nonvacuous :
  let cfg := mkConfig 0 0 3 100000 true in
  let cfg1 := mkConfig 1 10 4 100000 false in
  let cfg2 := mkConfig 0 0 2 100000 true in
  let ops := [OW (OAppend [((1, 0), [Byte.x01]); ((1, 1), []); ((1, 2), [])]); OFlush true; ORestart cfg1;
              OW (OTruncate 2); OW (OAppend [((2, 2), []); ((2, 3), [Byte.x02])]); ODrain; ORead 0 10;
              OW (OPurge (1, 0)); OFlush false; ORestart cfg2;
              OW (OAppend [((3, 4), [Byte.x03])]); ORead 0 10; ODumpIter]%N in
  ReadRestarts.ops_c07r spec0 ops = true /\ Forall op_wf ops /\
  (match open_dir cfg [] with OpenOk y0 => ReadRestarts.run_ok_c07r y0 ops = true | _ => False end) /\
  RestartCycles.restart_cfgs ops = [cfg1; cfg2].
Proof.
  intros cfg cfg1 cfg2 ops.
  destruct ReadRestarts.C07_restarts_hyps_inhabited as (H1 & H2 & H3 & H4 & _).
  repeat split; assumption.
Qed.

Print Assumptions C07_reads_total_outside_known_L2.
Print Assumptions C07_refuted_live.
Print Assumptions C07_reads_total_outside_known.
Print Assumptions C07_restart_reads_total.
Print Assumptions C07_restart_continue.
Print Assumptions C07_restart_refuted.
Print Assumptions C07_restart_reads_total_strong.
Print Assumptions C07_restarts_reads_total.
