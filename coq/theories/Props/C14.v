(* C14 — Dropping the store quiesces it.
   Pinned statements only; proofs are in Proofs/PurgeFacts.v and Proofs/PurgeDrain.v.
   In the code (after the repair) drop closes the request channel and joins the worker;
   in the model that is: ZDrop, then worker steps until worker_idle2. *)
From Coq Require Import List NArith Bool.
From RaftLog Require Import Base.Bytes Model.Types Model.Cache Model.Core Model.Recover Model.Run Model.Sys.
From RaftLog Require Import Spec.Durable.
From RaftLog Require Proofs.PurgeFacts Proofs.PurgeDrain.
Import ListNotations.

(* once the dropped store's worker has finished, no event of that instance changes the directory *)
Theorem C14_quiescent : forall cfg z,
  zreach cfg z -> z_dropped z = true -> worker_idle2 z -> quiesced z.
Proof. exact PurgeFacts.C14_quiescent. Qed.

(* and the worker always finishes: the join in drop terminates when no I/O error occurs *)
Theorem C14_drain_terminates : forall cfg z,
  zreach cfg z -> z_dropped z = true -> z_todo z = [] -> w_alive (z_w z) = true ->
  exists es z' vis, forallb ev_fault_free es = true /\ zrun z es = Some (z', vis) /\ worker_idle2 z'.
Proof. exact PurgeDrain.C14_drain_terminates. Qed.

Print Assumptions C14_quiescent.
Print Assumptions C14_drain_terminates.
