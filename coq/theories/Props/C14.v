(* C14 — Dropping the store quiesces it.
   Pinned statements only; proofs are in Proofs/PurgeFacts.v and Proofs/PurgeDrain.v.
   In the code (after the repair) drop closes the request channel and joins the worker;
   in the model that is: ZDrop, then worker steps until worker_idle2. *)
From Coq Require Import List NArith Bool.
From RaftLog Require Import Base.Bytes Model.Types Model.Cache Model.Core Model.Recover Model.Run Model.Sys.
From RaftLog Require Import Spec.Durable.
From RaftLog Require Import Spec.Spec Spec.Hist.
From RaftLog Require Proofs.Refine Proofs.CrashSteps Proofs.CrashPrefix Proofs.CrashFacts Proofs.PurgeLive.
From RaftLog Require Proofs.PurgeFacts Proofs.PurgeDrain Proofs.RestartSys Proofs.DropReopen Proofs.RestartChain.
Import ListNotations.

(* once the dropped store's worker has finished, no event of that instance changes the directory *)
Theorem C14_quiescent : forall cfg z,
  zreach cfg z -> z_dropped z = true -> worker_idle2 z -> quiesced z.
Proof. exact PurgeFacts.C14_quiescent. Qed.

(* and the worker always finishes: the join in drop terminates when no I/O error occurs *)
Theorem C14_drain_terminates : forall cfg z,
  zreach cfg z -> z_dropped z = true -> z_todo z = [] -> w_alive (z_w z) = true ->
  exists es z' vis, forallb ev_fault_free es = true /\ zrun z es = Some (z', vis) /\ worker_idle2 z'.
Proof. exact PurgeDrain.C14_drain_terminates. Qed.

(* ---- "opening it again succeeds and shows the acknowledged state": for a fault-free run
   with a well-formed Raft-legal history, once the store is dropped and its worker has
   finished, the directory opens under ANY configuration with tail truncation enabled and
   shows exactly the reference log after the first k journalled records, where k is at
   least the number of records journalled before the LAST flush call (acknowledged or not,
   with or without callback; this dominates the acknowledged count) and at most the number
   journalled at all (records never flushed may or may not be there). *)
Theorem C14_reopen_after_drop : forall cfg cfg' z,
  zreach_ff cfg z -> CrashSteps.hist_wf z -> PurgeLive.hist_legal z ->
  z_dropped z = true -> worker_idle2 z -> c_truncate cfg' = true ->
  exists y' k sp, open_dir cfg' (z_disk z) = OpenOk y' /\
    (DropReopen.flushed_recs z <= k)%nat /\ (k <= CrashFacts.issued z)%nat /\
    nth_error (CrashPrefix.ref_states (PurgeLive.hist z)) k = Some sp /\
    m_rs (k_sm (y_core y')) = spec_state sp /\
    map Refine.f_log (m_log (k_sm (y_core y'))) = map Refine.g_ent (sp_entries sp).
Proof. exact DropReopen.C14_reopen_after_drop. Qed.

(* if the last call before the drop was a flush (nothing left in the caller's buffer) the
   directory holds only whole records and opens with truncation DISABLED as well *)
Theorem C14_reopen_after_drop_no_truncate : forall cfg cfg' z,
  zreach_ff cfg z -> CrashSteps.hist_wf z -> PurgeLive.hist_legal z ->
  z_dropped z = true -> worker_idle2 z -> k_pending (z_core z) = [] ->
  exists y' k sp, open_dir cfg' (z_disk z) = OpenOk y' /\
    (DropReopen.flushed_recs z <= k)%nat /\ (k <= CrashFacts.issued z)%nat /\
    nth_error (CrashPrefix.ref_states (PurgeLive.hist z)) k = Some sp /\
    m_rs (k_sm (y_core y')) = spec_state sp /\
    map Refine.f_log (m_log (k_sm (y_core y'))) = map Refine.g_ent (sp_entries sp).
Proof. exact DropReopen.C14_reopen_after_drop_no_truncate. Qed.

Theorem C14_flushed_dominates_acked : forall cfg z,
  zreach cfg z -> (CrashFacts.acked z <= DropReopen.flushed_recs z)%nat.
Proof. exact DropReopen.acked_le_flushed_recs. Qed.

(* the hypotheses are met: rotation, flush with callback, an unflushed commit, drop while
   requests are queued, two worker batches *)
Theorem C14_reopen_nonvacuous :
  zreach_ff DropReopen.dr_cfg DropReopen.dr_z /\ CrashSteps.hist_wf DropReopen.dr_z /\
  PurgeLive.hist_legal DropReopen.dr_z /\
  z_dropped DropReopen.dr_z = true /\ worker_idle2 DropReopen.dr_z /\ c_truncate DropReopen.dr_cfg = true /\
  DropReopen.flushed_recs DropReopen.dr_z = 4%nat /\ CrashFacts.acked DropReopen.dr_z = 4%nat /\
  CrashFacts.issued DropReopen.dr_z = 5%nat /\
  z_acks DropReopen.dr_z = [(0%N, true)] /\
  map (fun f => (f_id f, length (f_data f))) (z_disk DropReopen.dr_z) = [(0%N, 114%nat); (114%N, 62%nat)] /\
  length (k_pending (z_core DropReopen.dr_z)) = 28%nat.
Proof. exact DropReopen.C14_reopen_nonvacuous. Qed.

(* ---- "the new instance keeps working": the reopened instance (any directory that opens)
   satisfies the same contracts: a dropped instance whose worker is idle is quiescent, the
   drain always terminates; with C04_*_from and C08_*_from its flushes are acknowledged
   exactly once and its purges remove their files *)
Theorem C14_quiescent_from : forall cfg d z,
  RestartSys.zreach_from cfg d z -> z_dropped z = true -> worker_idle2 z -> quiesced z.
Proof. exact RestartSys.C14_quiescent_from. Qed.

Theorem C14_drain_terminates_from : forall cfg d z,
  RestartSys.zreach_from cfg d z -> z_dropped z = true -> z_todo z = [] -> w_alive (z_w z) = true ->
  exists es z' vis, forallb ev_fault_free es = true /\ zrun z es = Some (z', vis) /\ worker_idle2 z'.
Proof. exact RestartSys.C14_drain_terminates_from. Qed.

(* ---- the contracts CHAIN across incarnations.  The directory a cleanly ended instance
   leaves (worker alive and idle, tracking only the newest file: what a final flush gives)
   satisfies the hypotheses of the *_from theorems, so the next instance started on it
   satisfies the durability / ordering contracts, whatever it does *)
Theorem C14_next_instance_contracts : forall cfg cfg' z1 z2,
  zreach_ff cfg z1 -> worker_idle2 z1 -> length (w_files (z_w z1)) = 1%nat ->
  RestartSys.zreach_from cfg' (z_disk z1) z2 ->
  acked_durable z2 /\ removed_after_durable z2 /\ files_contiguous z2 /\ acks_in_order z2 /\
  Forall (fun f => (f_synced f <= N.of_nat (length (f_data f)))%N) (z_disk z2).
Proof. exact RestartChain.C14_next_instance_contracts. Qed.

(* ... for ANY number of incarnations, each started by opening what the previous one left
   ([chain d l zl]: the instances of l run one after the other from directory d, each but the
   last ending cleanly; zl is any state of the last one) *)
Theorem C14_incarnations_contracts : forall l zl,
  RestartChain.chain [] l zl -> RestartChain.contracts zl.
Proof. exact RestartChain.C14_incarnations_contracts. Qed.

(* the next instance does start (C14_reopen_after_drop), and then satisfies the contracts *)
Theorem C14_next_instance_starts : forall cfg cfg' z1,
  zreach_ff cfg z1 -> CrashSteps.hist_wf z1 -> PurgeLive.hist_legal z1 ->
  z_dropped z1 = true -> worker_idle2 z1 -> c_truncate cfg' = true ->
  exists z0, zinit cfg' (z_disk z1) = Some z0 /\ RestartSys.zreach_from cfg' (z_disk z1) z0 /\
    (length (w_files (z_w z1)) = 1%nat ->
     forall z2, RestartSys.zreach_from cfg' (z_disk z1) z2 -> RestartChain.contracts z2).
Proof. exact RestartChain.C14_next_instance_starts. Qed.

(* the side condition "tracks only the newest file" is not automatic: after a rotation that
   is not followed by a flush an idle fault-free worker tracks two files (witness) *)
Theorem C14_idle_worker_may_track_two_files : exists z,
  zreach_ff RestartChain.w2_cfg z /\ z_dropped z = true /\ worker_idle2 z /\
  map wf_id (w_files (z_w z)) = [0; 50]%N /\ RestartSys.older_synced (z_disk z).
Proof. exact RestartChain.ff_idle_two_files. Qed.

(* non-vacuity: two incarnations (rotations, flush, drop, drain; reopen under other limits,
   acknowledged flush, purge, unlink) *)
Theorem C14_two_incarnations : exists zl,
  RestartChain.chain [] [(RestartChain.d2_cfg1, RestartChain.d2_events1); (RestartChain.d2_cfg2, RestartChain.d2_events2)] zl /\
  forallb ev_fault_free (RestartChain.d2_events1 ++ RestartChain.d2_events2) = true /\
  In (0%N, true) (z_acks zl) /\ disk_get 0%N (z_disk zl) = None.
Proof.
  destruct RestartChain.two_incarnations as (zl & H1 & H2 & _ & _ & _ & _ & _ & _ & H3 & _ & H4 & _).
  exists zl. repeat split; assumption.
Qed.

Print Assumptions C14_quiescent.
Print Assumptions C14_drain_terminates.
Print Assumptions C14_reopen_after_drop.
Print Assumptions C14_reopen_after_drop_no_truncate.
Print Assumptions C14_quiescent_from.
Print Assumptions C14_drain_terminates_from.
Print Assumptions C14_next_instance_contracts.
Print Assumptions C14_incarnations_contracts.
Print Assumptions C14_two_incarnations.
