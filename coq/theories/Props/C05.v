(* C05 — Crash recoverability: the store opens after any crash and stays usable.
   Pinned statements only; proofs are in Proofs/CrashBase.v, CrashJournal.v, CrashSteps.v,
   CrashRecover.v. The property is NOT true of the code in full (known finding F3): the
   refutation is a machine-checked witness and the positive theorem covers every crash
   image outside the known class. The crash model is [crash_image] of Model/Sys.v. *)
From Coq Require Import List NArith.
From RaftLog Require Import Base.Bytes Model.Types Model.Cache Model.Core Model.Recover Model.Run Model.Sys.
From RaftLog Require Import Spec.Durable Proofs.NoPanic Proofs.CrashSteps Proofs.CrashRecover.
From RaftLog Require Proofs.CodecFacts Proofs.ScanFacts Proofs.RestartSys Proofs.RestartCrash Proofs.RestartCrashImg Proofs.RestartChain Proofs.RestartCrashIter Proofs.RestartCrashErase Proofs.RestartCrashErase2.
Import ListNotations.

(* Finding F3: a vote that fills the chunk (chunk_max_records = 2) rotates; right after the
   caller has created the new file and written its head — before any worker step — the
   process-crash image has an older file shorter than the next file's name, and open
   refuses with the gap error. *)
Theorem C05_refuted_gap :
  exists z d', zreach gap_cfg z /\ hist_wf z /\ crash_image z d' /\ gap_class d' /\
               exists dd, open_dir gap_cfg d' = OpenErr EGap dd.
Proof. exact CrashRecover.C05_refuted_gap. Qed.

(* Outside that class: for EVERY reachable state of the caller/worker/file-system system
   (any interleaving, batching, injected failures, worker death, crashes between and
   inside calls of both threads), EVERY crash image of it in which no older file stops
   short of the next file's name, and every configuration with tail truncation enabled:
   the directory opens, and the recovered store never panics whatever is done with it
   (further writes, flushes, reads, restarts). *)
Theorem C05_recovers_outside_known : forall cfg cfg' z d',
  zreach cfg z -> hist_wf z -> crash_image z d' ->
  ~ gap_class d' -> c_truncate cfg' = true ->
  exists y', open_dir cfg' d' = OpenOk y' /\ sys_ok y' /\
             (forall ops res fin, run_ops y' ops = (res, fin) -> ~ In ResPanic res).
Proof. exact CrashRecover.C05_recovers_outside_known. Qed.

(* the image with every completed write kept is one of the crash images *)
Theorem C05_process_crash_is_image : forall cfg z,
  zreach cfg z -> crash_image z (process_crash_image z).
Proof. exact CrashRecover.process_crash_is_image. Qed.

(* ---- the same for a store instance started on a NON-EMPTY directory (a restart, clean or
   after an earlier crash): [dir_ok d] = file ids strictly increasing, synced <= written, every
   file but the newest completely synced, and [dir_chained d]: every file that holds a complete
   record starts with a state snapshot whose replay through the file's records ends in the next
   file's head state (open_dir itself checks neither; every directory the crate writes has it).
   For EVERY state reachable from opening such a directory, every crash image of it outside the
   gap class opens under every configuration with truncation enabled, and the recovered store
   never panics. *)
Theorem C05_recovers_outside_known_from : forall cfg cfg' d z d',
  RestartCrash.dir_ok d -> RestartSys.zreach_from cfg d z -> hist_wf z -> crash_image z d' ->
  ~ gap_class d' -> c_truncate cfg' = true ->
  exists y', open_dir cfg' d' = OpenOk y' /\ sys_ok y' /\
             (forall ops res fin, run_ops y' ops = (res, fin) -> ~ In ResPanic res).
Proof. exact RestartCrashImg.C05_recovers_outside_known_from. Qed.

(* what open_dir leaves behind, for ANY sorted directory that opens: every file is a whole
   number of well-formed records (at least one) *)
Theorem C05_open_dir_whole : forall cfg d y,
  disk_sorted d -> open_dir cfg d = OpenOk y ->
  Forall (fun p => exists rs, f_data p = ScanFacts.encs rs /\ Forall CodecFacts.wf_record rs /\ rs <> []) (y_disk y).
Proof. exact RestartCrash.open_dir_whole. Qed.

(* non-vacuity: a directory left by a crash (newest file torn inside its head record) meets the
   hypotheses and opens; the reopened store rotates, crashes in the middle of the worker's
   batch, and that image opens again *)
Theorem C05_from_nonvacuous :
  (RestartCrash.dir_ok RestartCrashImg.torn_dir /\ length RestartCrashImg.torn_dir = 2%nat /\
   exists z0, zinit RestartSys.demo_cfg RestartCrashImg.torn_dir = Some z0) /\
  exists z, RestartSys.zreach_from RestartSys.demo_cfg RestartCrashImg.torn_dir z /\ hist_wf z /\
            crash_image z (z_disk z) /\ ~ gap_class (z_disk z) /\
            exists y', open_dir RestartSys.demo_cfg (z_disk z) = OpenOk y'.
Proof. split; [exact RestartCrashImg.torn_dir_ok | exact RestartCrashImg.torn_dir_recovers]. Qed.

(* after a MACHINE crash and reboot everything that is on disk is durable ([reboot d']: the
   image with every file marked synced; open_dir ignores the synced marks: open_dir_deq): the
   image outside the gap class opens, and the instance started on it satisfies the L2
   durability and ordering contracts (C04/C08), whatever it does *)
Theorem C05_reboot_next_instance : forall cfg cfg' z1 d',
  zreach cfg z1 -> hist_wf z1 -> crash_image z1 d' ->
  ~ gap_class d' -> c_truncate cfg' = true ->
  exists z0, zinit cfg' (RestartChain.reboot d') = Some z0 /\
    forall z2, RestartSys.zreach_from cfg' (RestartChain.reboot d') z2 -> RestartChain.contracts z2.
Proof. exact RestartChain.C05_reboot_next_instance. Qed.

(* ---- crash, reboot, reopen, crash again, ... : every crash image outside the gap class is
   again a chained directory, and after a reboot (everything on disk durable) it meets [dir_ok];
   so the theorem iterates: the instance may itself have been started on a [dir_ok] directory
   (for instance the rebooted crash image of ITS predecessor), any number of times *)
Theorem C05_crash_image_chained_from : forall cfg d z d',
  RestartCrash.dir_ok d -> RestartSys.zreach_from cfg d z -> hist_wf z -> crash_image z d' ->
  ~ gap_class d' -> RestartCrash.dir_ok (RestartCrashIter.reboot d').
Proof. exact RestartCrashIter.crash_reboot_ok_from. Qed.

Theorem C05_recovers_again : forall cfg cfg' cfg'' d z1 d1 z2 d2,
  RestartCrash.dir_ok d -> RestartSys.zreach_from cfg d z1 -> hist_wf z1 -> crash_image z1 d1 -> ~ gap_class d1 ->
  RestartSys.zreach_from cfg' (RestartCrashIter.reboot d1) z2 -> hist_wf z2 -> crash_image z2 d2 -> ~ gap_class d2 ->
  c_truncate cfg'' = true ->
  exists y, open_dir cfg'' d2 = OpenOk y /\ sys_ok y /\
            (forall ops res fin, run_ops y ops = (res, fin) -> ~ In ResPanic res).
Proof. exact RestartCrashIter.C05_recovers_again. Qed.

(* the synced marks of the START directory do not matter for recoverability (they matter for
   the durability contracts of C04/C08): a lock-step simulation against the run from the
   rebooted directory shows that the journal invariant never reads them.  So for ANY sorted,
   chained directory — whatever a previous process left unsynced in older files — every crash
   image of the new instance outside the gap class opens and the recovered store never panics *)
Theorem C05_recovers_outside_known_from_any_marks : forall cfg cfg' d z d',
  disk_sorted d -> RestartCrash.dir_chained d -> RestartSys.zreach_from cfg d z -> hist_wf z ->
  crash_image z d' -> ~ gap_class d' -> c_truncate cfg' = true ->
  exists y', open_dir cfg' d' = OpenOk y' /\ sys_ok y' /\
             (forall ops res fin, run_ops y' ops = (res, fin) -> ~ In ResPanic res).
Proof. exact RestartCrashErase.C05_recovers_outside_known_from_any_marks. Qed.

(* ... and the pair (sorted, chained) is preserved by "run, crash outside the gap class", so
   crash -> reopen -> crash iterates with no reboot step and no assumption on synced marks *)
Theorem C05_crash_image_chained_any : forall cfg d z d',
  disk_sorted d -> RestartCrash.dir_chained d -> RestartSys.zreach_from cfg d z -> hist_wf z ->
  crash_image z d' -> ~ gap_class d' -> disk_sorted d' /\ RestartCrash.dir_chained d'.
Proof. exact RestartCrashErase2.crash_image_chained_any. Qed.

Theorem C05_recovers_again_any : forall cfg cfg' cfg'' d z1 d1 z2 d2,
  disk_sorted d -> RestartCrash.dir_chained d -> RestartSys.zreach_from cfg d z1 -> hist_wf z1 ->
  crash_image z1 d1 -> ~ gap_class d1 -> RestartSys.zreach_from cfg' d1 z2 -> hist_wf z2 ->
  crash_image z2 d2 -> ~ gap_class d2 -> c_truncate cfg'' = true ->
  exists y, open_dir cfg'' d2 = OpenOk y /\ sys_ok y /\
            (forall ops res fin, run_ops y ops = (res, fin) -> ~ In ResPanic res).
Proof. exact RestartCrashErase2.C05_recovers_again_any. Qed.

Print Assumptions C05_refuted_gap.
Print Assumptions C05_recovers_outside_known.
Print Assumptions C05_recovers_outside_known_from.
Print Assumptions C05_from_nonvacuous.
Print Assumptions C05_reboot_next_instance.
Print Assumptions C05_recovers_again.
Print Assumptions C05_recovers_outside_known_from_any_marks.
Print Assumptions C05_recovers_again_any.
