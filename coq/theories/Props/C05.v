(* C05 — Crash recoverability: the store opens after any crash and stays usable.
   Pinned statements only; proofs are in Proofs/CrashBase.v, CrashJournal.v, CrashSteps.v,
   CrashRecover.v. The property is NOT true of the code in full (known finding F3): the
   refutation is a machine-checked witness and the positive theorem covers every crash
   image outside the known class. The crash model is [crash_image] of Model/Sys.v. *)
From Coq Require Import List NArith.
From RaftLog Require Import Base.Bytes Model.Types Model.Cache Model.Core Model.Recover Model.Run Model.Sys.
From RaftLog Require Import Spec.Durable Proofs.NoPanic Proofs.CrashSteps Proofs.CrashRecover.
Import ListNotations.

(* Finding F3: a vote that fills the chunk (chunk_max_records = 2) rotates; right after the
   caller has created the new file and written its head — before any worker step — the
   process-crash image has an older file shorter than the next file's name, and open
   refuses with the gap error. *)
Theorem C05_refuted_gap :
  exists z d', zreach gap_cfg z /\ hist_wf z /\ crash_image z d' /\ gap_class d' /\
               exists dd, open_dir gap_cfg d' = OpenErr EGap dd.
Proof. exact CrashRecover.C05_refuted_gap. Qed.

(* Outside that class: for EVERY reachable state of the caller/worker/file-system system
   (any interleaving, batching, injected failures, worker death, crashes between and
   inside calls of both threads), EVERY crash image of it in which no older file stops
   short of the next file's name, and every configuration with tail truncation enabled:
   the directory opens, and the recovered store never panics whatever is done with it
   (further writes, flushes, reads, restarts). *)
Theorem C05_recovers_outside_known : forall cfg cfg' z d',
  zreach cfg z -> hist_wf z -> crash_image z d' ->
  ~ gap_class d' -> c_truncate cfg' = true ->
  exists y', open_dir cfg' d' = OpenOk y' /\ sys_ok y' /\
             (forall ops res fin, run_ops y' ops = (res, fin) -> ~ In ResPanic res).
Proof. exact CrashRecover.C05_recovers_outside_known. Qed.

(* the image with every completed write kept is one of the crash images *)
Theorem C05_process_crash_is_image : forall cfg z,
  zreach cfg z -> crash_image z (process_crash_image z).
Proof. exact CrashRecover.process_crash_is_image. Qed.

Print Assumptions C05_refuted_gap.
Print Assumptions C05_recovers_outside_known.
