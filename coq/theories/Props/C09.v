(* C09 — Corruption and missing pieces are reported, never silently absorbed.
   Pinned statements only; proofs are in Proofs/Crc32Facts.v and Proofs/CorruptFacts.v.
   The property is NOT true of the code in full: two classes of alterations are
   recorded as known findings and carried here as [_refuted] witnesses. *)
From Coq Require Import List NArith Bool.
From Coq.Strings Require Import Byte.
From RaftLog Require Import Base.Bytes Base.Crc32 Model.Types Model.Codec Model.Cache Model.Core Model.Recover Model.Run.
From RaftLog Require Import Proofs.Crc32Facts Proofs.CodecFacts Proofs.ScanFacts Proofs.CorruptFacts.
Import ListNotations.

(* CRC-32 detects every single altered byte of a message of any length *)
Theorem C09_crc32_single_byte : forall pre suf b b',
  b <> b' -> crc32 (pre ++ b :: suf) <> crc32 (pre ++ b' :: suf).
Proof. exact Crc32Facts.crc32_single_byte. Qed.

(* a single altered byte inside a complete record is never accepted as a record of the
   same length: it is InvalidData, or UnexpectedEof, or (a 32-bit checksum coincidence
   on a different parse shape, which no proof can exclude) a record of another length *)
Theorem C09_single_byte_outcomes : forall r t pre b suf b',
  wf_record r -> enc_record r = pre ++ b :: suf -> b <> b' ->
  dec_record (pre ++ b' :: suf ++ t) = DInvalid \/
  dec_record (pre ++ b' :: suf ++ t) = DEof \/
  exists r' t', dec_record (pre ++ b' :: suf ++ t) = DOk (r', t') /\
                wf_record r' /\
                pre ++ b' :: suf ++ t = enc_record r' ++ t' /\
                length (enc_record r') <> length (enc_record r).
Proof. exact CorruptFacts.C09_single_byte_outcomes. Qed.

(* alterations that cannot change the parse shape are always InvalidData:
   the 8 checksum bytes of any record ... *)
Theorem C09_checksum_field : forall r t pre b suf b',
  wf_record r -> enc_record r = pre ++ b :: suf -> b <> b' ->
  length (enc_body r) <= length pre ->
  dec_record (pre ++ b' :: suf ++ t) = DInvalid.
Proof. exact CorruptFacts.C09_checksum_field. Qed.

(* ... the log id / vote bytes of SaveVote, Commit and PurgeUpto records ... *)
Theorem C09_fixed_fields : forall r t pre b suf b',
  pair_record r ->
  wf_record r -> enc_record r = pre ++ b :: suf -> b <> b' ->
  4 <= length pre < 20 ->
  dec_record (pre ++ b' :: suf ++ t) = DInvalid.
Proof. exact CorruptFacts.C09_fixed_fields. Qed.

(* ... and the log id and payload content bytes of an Append record *)
Theorem C09_append_fixed_fields : forall id p t pre b suf b',
  wf_record (RAppend id p) -> enc_record (RAppend id p) = pre ++ b :: suf -> b <> b' ->
  (4 <= length pre < 20 \/ 24 <= length pre) ->
  dec_record (pre ++ b' :: suf ++ t) = DInvalid.
Proof. exact CorruptFacts.C09_append_fixed_fields. Qed.

(* a damaged record (InvalidData, not an all-zero tail) in ANY chunk makes open fail,
   and the failed open has modified nothing, provided the chunks before it are intact *)
Theorem C09_open_refuses : forall cfg pre id synced post rs x,
  Forall scans_end pre -> Forall wf_record rs ->
  dec_record x = DInvalid -> all_zero x = false ->
  exists e, open_dir cfg (pre ++ mkFile id (encs rs ++ x) synced :: post)
            = OpenErr e (pre ++ mkFile id (encs rs ++ x) synced :: post).
Proof. exact CorruptFacts.C09_open_refuses_record. Qed.

(* a chunk file missing in the middle of a clean journal: refused, nothing modified *)
Theorem C09_middle_missing : forall cfg pre f post,
  clean_files (pre ++ f :: post) -> pre <> [] -> post <> [] ->
  exists e, open_dir cfg (pre ++ post) = OpenErr e (pre ++ post).
Proof. exact CorruptFacts.C09_middle_missing_refused. Qed.

(* ------------------------------------------------------------------ known findings *)
(* a directory produced by the store: two chunks *)
Definition img_cfg : config := mkConfig 100 1000 3 100000 true.
Definition img_disk : disk :=
  match run_case img_cfg
          [OW (OAppend [((1,0), [x68; x69]); ((1,1), [x61; x61])]%N);
           OW (OAppend [((1,2), [x62])]%N); OFlush true; OIdle] with
  | (_, Some y) => y_disk y
  | _ => []
  end.

Definition set_byte (p : nat) (b : byte) (bs : bytes) : bytes :=
  firstn p bs ++ b :: skipn (S p) bs.
Definition map_file (id : N) (f : bytes -> bytes) (d : disk) : disk :=
  map (fun g => if N.eqb (f_id g) id then mkFile (f_id g) (f (f_data g)) (f_synced g) else g) d.

Definition n_entries (r : open_res) : option nat :=
  match r with OpenOk y => Some (length (m_log (k_sm (y_core y)))) | OpenErr _ _ => None end.

(* the clean image opens and holds three entries *)
Example C09_clean_image_opens : n_entries (open_dir img_cfg img_disk) = Some 3.
Proof. vm_compute. reflexivity. Qed.

(* Finding F5 (class L): one altered byte — the high byte of the payload length of the
   entry in the NEWEST chunk (offset 34+20 of file 86) — makes the record run past the
   end of the file; recovery takes it for a torn tail and open SUCCEEDS with that entry
   silently gone. *)
Theorem C09_refuted_length_flip_in_newest_chunk :
  exists d', d' = map_file 86 (set_byte 54 x01) img_disk /\
             n_entries (open_dir img_cfg d') = Some 2.
Proof. eexists. split; [reflexivity|]. vm_compute. reflexivity. Qed.

(* Finding F6 (class T): the same alteration in a NON-newest chunk is refused (gap), but
   the refused open has already cut that older file back: it does not leave every chunk
   file other than the newest exactly as it was. *)
Theorem C09_refuted_refused_open_truncates_older_chunk :
  exists d' e d'', d' = map_file 0 (set_byte 38 x01) img_disk /\
                   open_dir img_cfg d' = OpenErr e d'' /\ d'' <> d'.
Proof.
  eexists. eexists. eexists. split; [reflexivity|]. split; [vm_compute; reflexivity|].
  vm_compute. discriminate.
Qed.

Print Assumptions C09_single_byte_outcomes.
Print Assumptions C09_append_fixed_fields.
Print Assumptions C09_open_refuses.
Print Assumptions C09_middle_missing.
