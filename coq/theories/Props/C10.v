(* C10 — Torn or zero-filled tail: exactly the longest complete prefix is recovered.
   Pinned statements only; proofs are in Proofs/ScanFacts.v and Proofs/RecoverFacts.v.

   The newest chunk file is [encs rs ++ tl]: complete records [rs] followed by a tail
   [tl] that is empty, a non-empty proper prefix of a well-formed record (a cut inside
   a record), or a run of zeros of any length >= 1. By [cut_tail_shape] every cut
   position 0..len of a clean file has this shape, with rs = the complete records
   below the cut (possibly none). *)
From Coq Require Import List NArith.
From RaftLog Require Import Base.Bytes Model.Types Model.Codec Model.Cache Model.Core Model.Recover Model.Run.
From RaftLog Require Import Model.Dump Proofs.CodecFacts Proofs.ScanFacts Proofs.RecoverFacts Proofs.JournalChunk Proofs.DumpFacts.
Import ListNotations.
Local Open Scope N_scope.

(* every cut of a clean file is "complete records + a torn record" *)
Theorem C10_every_cut_has_this_shape : forall rs p, Forall wf_record rs -> (p <= length (encs rs))%nat ->
  exists k q, firstn p (encs rs) = encs (firstn k rs) ++ q /\
              Forall wf_record (firstn k rs) /\ tail_shape q.
Proof. exact RecoverFacts.cut_tail_shape. Qed.

Section C10.
Variable cfg : config.
Variable older : list file.
Variables id syn : N.
Variable rs : list record.
Variable tl : bytes.
Variable a : open_acc.          (* the state accumulated from the older chunks *)

(* the older chunks open without error (possibly after truncations of their own) *)
Hypothesis Holder :
  open_older cfg older (acc0 cfg (older ++ [mkFile id (encs rs ++ tl) syn])) = inl a.
(* the file is the newest one and follows the previous chunk without a gap *)
Hypothesis Hids : Forall (fun g => f_id g < id) older.
Hypothesis Hgap : oa_prev_end a = Some id \/ older = [].
Hypothesis Hrs : Forall wf_record rs.
Hypothesis Htl : tail_shape tl.

Theorem C10_longest_prefix_open : forall s1,
  (* truncation of incomplete records enabled (not needed for a complete file) *)
  c_truncate cfg = true \/ tl = [] ->
  (* the complete records replay without a validation error *)
  replay (sm_pre a) id id rs (ends_from id (map rec_size rs)) = (s1, None) ->
  exists y,
    open_dir cfg (older ++ [mkFile id (encs rs ++ tl) syn]) = OpenOk y /\
    (* Raft state and index map: the older chunks, then exactly the complete records *)
    m_rs (k_sm (y_core y)) = m_rs s1 /\
    m_log (k_sm (y_core y)) = m_log s1 /\
    (rs <> [] -> k_sm (y_core y) = s1) /\
    (rs = [] -> k_sm (y_core y) = oa_sm a) /\
    (* complete file: untouched and reopened for appending *)
    (tl = [] -> rs <> [] ->
       y_disk y = oa_disk a /\ k_open (y_core y) = chunk_of id rs /\
       k_closed (y_core y) = oa_closed a) /\
    (* discarded tail: cut back to the records; a fresh chunk starts at the cut *)
    (tl <> [] -> rs <> [] ->
       let len := N.of_nat (length (encs rs)) in
       let head := enc_record (RState (m_rs s1)) in
       y_disk y = disk_put (mkFile (id + len) head 0)
                           (disk_put (mkFile id (encs rs) len) (oa_disk a)) /\
       k_open (y_core y) = mkChunk (id + len) [id + len + N.of_nat (length head)] /\
       k_closed (y_core y) = oa_closed a ++ [mkClosed (chunk_of id rs) (m_rs s1) true]) /\
    (* no complete record: the file is removed; either the last closed chunk is
       reopened or the file is created again with a head record *)
    (rs = [] ->
       match reusable (oa_closed a) with
       | Some (init, lastc) =>
         y_disk y = disk_remove id (oa_disk a) /\ k_open (y_core y) = cl_chunk lastc /\
         k_closed (y_core y) = init
       | None =>
         let head := enc_record (RState (m_rs (oa_sm a))) in
         y_disk y = disk_put (mkFile id head 0) (disk_remove id (oa_disk a)) /\
         k_open (y_core y) = mkChunk id [id + N.of_nat (length head)] /\
         k_closed (y_core y) = oa_closed a
       end) /\
    (* nothing is queued *)
    k_pending (y_core y) = [] /\ y_queue y = [].
Proof. exact (RecoverFacts.C10_longest_prefix_open cfg older id syn rs tl a Holder Hids Hgap Hrs Htl). Qed.

Theorem C10_truncate_disabled :
  c_truncate cfg = false -> tl <> [] ->
  exists e, (e = EDecodeEof \/ e = EDecodeInvalid) /\
    open_dir cfg (older ++ [mkFile id (encs rs ++ tl) syn]) =
    OpenErr e (older ++ [mkFile id (encs rs ++ tl) syn]).
Proof. exact (RecoverFacts.C10_truncate_disabled cfg older id syn rs tl a Holder Hids Hgap Hrs Htl). Qed.

End C10.

(* The Dump API on such a file (Model/Dump.v): exactly the complete records, each with
   its offset and size, then ONE error item carrying the number of complete records:
   UnexpectedEof for a cut inside a record or fewer than 28 zero bytes. *)
Theorem C10_dump_torn : forall id rs r tl,
  Forall wf_record rs -> wf_record r -> pprefix tl (enc_record r) -> tl <> [] ->
  dump_file id (JournalChunk.encs rs ++ tl) = recs_items id 0 0 rs ++ [DErr id (length rs) SEof].
Proof. exact DumpFacts.dump_file_torn. Qed.
Theorem C10_dump_zero_tail_short : forall id rs z,
  Forall wf_record rs -> (1 <= z)%nat -> (z < 28)%nat ->
  dump_file id (JournalChunk.encs rs ++ zeros z) = recs_items id 0 0 rs ++ [DErr id (length rs) SEof].
Proof. exact DumpFacts.dump_file_zero_tail_short. Qed.

Print Assumptions C10_dump_torn.
Print Assumptions C10_longest_prefix_open.
Print Assumptions C10_truncate_disabled.
Print Assumptions C10_every_cut_has_this_shape.
