(* C04 — Flush acknowledgement soundness.
   Pinned statements only; proofs are in Proofs/AckFacts.v and Proofs/AckDurable.v.
   The system is Model/Sys.v: caller micro-steps, worker steps at system-call
   granularity, any batching, any interleaving, injected write/fdatasync/unlink failures
   ([ZWork false]), worker death. Contracts are in Spec/Durable.v. *)
From Coq Require Import List NArith.
From RaftLog Require Import Base.Bytes Model.Types Model.Cache Model.Core Model.Recover Model.Run Model.Sys.
From RaftLog Require Import Spec.Durable.
From RaftLog Require Proofs.AckFacts Proofs.AckDurable.
Import ListNotations.

(* In EVERY reachable state: if the callback of a flush has reported success, every
   journal byte below the journal end at that flush call that lies in a file still
   present is inside that file's synced prefix (hence also written). This holds under
   any failures: after a failed sync, no later success for data never synced. *)
Theorem C04_ack_after_sync : forall cfg z, zreach cfg z -> acked_durable z.
Proof. exact AckDurable.C04_ack_after_sync. Qed.

Theorem C04_synced_le_written : forall cfg z, zreach cfg z ->
  Forall (fun f => (f_synced f <= N.of_nat (length (f_data f)))%N) (z_disk z).
Proof. exact AckFacts.C04_synced_le_written. Qed.

(* each callback at most once, in the order the flushes were requested *)
Theorem C04_once_in_order : forall cfg z, zreach cfg z -> acks_in_order z.
Proof. exact AckFacts.C04_once_in_order. Qed.

(* exactly once when no I/O error occurs and the worker has caught up *)
Theorem C04_exactly_once : forall cfg z, zreach_ff cfg z -> worker_idle2 z -> acks_complete z.
Proof. exact AckFacts.C04_exactly_once. Qed.

Print Assumptions C04_ack_after_sync.
Print Assumptions C04_once_in_order.
Print Assumptions C04_exactly_once.
