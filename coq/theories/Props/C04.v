(* C04 — Flush acknowledgement soundness.
   Pinned statements only; proofs are in Proofs/AckFacts.v and Proofs/AckDurable.v.
   The system is Model/Sys.v: caller micro-steps, worker steps at system-call
   granularity, any batching, any interleaving, injected write/fdatasync/unlink failures
   ([ZWork false]), worker death. Contracts are in Spec/Durable.v. *)
From Coq Require Import List NArith.
From RaftLog Require Import Base.Bytes Model.Types Model.Cache Model.Core Model.Recover Model.Run Model.Sys.
From RaftLog Require Import Spec.Durable.
From RaftLog Require Proofs.AckFacts Proofs.AckDurable Proofs.RestartSys.
Import ListNotations.

(* In EVERY reachable state: if the callback of a flush has reported success, every
   journal byte below the journal end at that flush call that lies in a file still
   present is inside that file's synced prefix (hence also written). This holds under
   any failures: after a failed sync, no later success for data never synced. *)
Theorem C04_ack_after_sync : forall cfg z, zreach cfg z -> acked_durable z.
Proof. exact AckDurable.C04_ack_after_sync. Qed.

Theorem C04_synced_le_written : forall cfg z, zreach cfg z ->
  Forall (fun f => (f_synced f <= N.of_nat (length (f_data f)))%N) (z_disk z).
Proof. exact AckFacts.C04_synced_le_written. Qed.

(* each callback at most once, in the order the flushes were requested *)
Theorem C04_once_in_order : forall cfg z, zreach cfg z -> acks_in_order z.
Proof. exact AckFacts.C04_once_in_order. Qed.

(* exactly once when no I/O error occurs and the worker has caught up *)
Theorem C04_exactly_once : forall cfg z, zreach_ff cfg z -> worker_idle2 z -> acks_complete z.
Proof. exact AckFacts.C04_exactly_once. Qed.

(* ---- the same contracts for a store instance started by opening ANY directory that opens
   (a restart; [zinit cfg d] runs the recovery model open_dir on d), not only an empty one.
   [dir_wf d]: file ids strictly increasing and synced <= written; [older_synced d]: every file
   but the newest is completely synced (the new worker tracks only the newest file).  The last
   hypothesis is necessary: see C04_restart_needs_older_synced. *)
Theorem C04_ack_after_sync_from : forall cfg d z,
  RestartSys.dir_wf d -> RestartSys.older_synced d -> RestartSys.zreach_from cfg d z -> acked_durable z.
Proof. exact RestartSys.C04_ack_after_sync_from. Qed.

Theorem C04_once_in_order_from : forall cfg d z, RestartSys.zreach_from cfg d z -> acks_in_order z.
Proof. exact RestartSys.C04_once_in_order_from. Qed.

Theorem C04_exactly_once_from : forall cfg d z,
  RestartSys.zreach_from_ff cfg d z -> worker_idle2 z -> acks_complete z.
Proof. exact RestartSys.C04_exactly_once_from. Qed.

(* the instance started on the empty directory is the special case d = [] *)
Theorem C04_from_nil : forall cfg z, RestartSys.zreach_from cfg [] z <-> zreach cfg z.
Proof. exact RestartSys.zreach_from_nil. Qed.

(* a store opened over an older chunk file whose tail was written by a previous process but
   never synced (a process crash that the machine survived) acknowledges a flush although
   that older file is not durable: the new instance never syncs files it did not write.  On a
   later power loss the image falls into the gap class of finding F3 (C05). *)
Theorem C04_restart_needs_older_synced :
  exists z, RestartSys.dir_wf RestartSys.bad_dir /\
            RestartSys.zreach_from RestartSys.demo_cfg RestartSys.bad_dir z /\ ~ acked_durable z.
Proof. exact RestartSys.older_synced_needed. Qed.

(* non-vacuity: a two-file directory left by an earlier run (newest file unsynced) opens and
   the reopened instance reaches a state with an acknowledged flush *)
Theorem C04_from_nonvacuous :
  (length RestartSys.demo_dir = 2%nat /\ RestartSys.dir_wf RestartSys.demo_dir /\
   RestartSys.older_synced RestartSys.demo_dir /\
   (exists z0, zinit RestartSys.demo_cfg RestartSys.demo_dir = Some z0) /\
   ~ Forall (fun f => f_synced f = N.of_nat (length (f_data f))) RestartSys.demo_dir) /\
  exists z, RestartSys.zreach_from RestartSys.demo_cfg RestartSys.demo_dir z /\ In (0%N, true) (z_acks z).
Proof. split; [exact RestartSys.demo_dir_ok | exact RestartSys.demo_ack_reachable]. Qed.

Print Assumptions C04_ack_after_sync.
Print Assumptions C04_once_in_order.
Print Assumptions C04_exactly_once.
Print Assumptions C04_ack_after_sync_from.
Print Assumptions C04_exactly_once_from.
Print Assumptions C04_restart_needs_older_synced.
