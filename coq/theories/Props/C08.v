(* C08 — Chunk files are deleted only when obsolete and durably purged, oldest first.
   Pinned statements only; proofs are in Proofs/PurgeFacts.v, PurgeDurable.v,
   PurgeLive.v. Contracts are in Spec/Durable.v; the system is Model/Sys.v. *)
From Coq Require Import List NArith.
From RaftLog Require Import Base.Bytes Model.Types Model.Cache Model.Core Model.Recover Model.Run Model.Sys.
From RaftLog Require Import Spec.Durable.
From RaftLog Require Proofs.NoPanic Proofs.PurgeFacts Proofs.PurgeDurable Proofs.PurgeLive Proofs.RestartSys.
Import ListNotations.

(* any interleaving, batching and failures: a chunk file that is gone was requested for
   removal by a flush, and everything journalled before that flush call (in particular
   the purge record) is durable in the files that remain *)
Theorem C08_removed_after_durable : forall cfg z, zreach cfg z -> removed_after_durable z.
Proof. exact PurgeDurable.C08_removed_after_durable. Qed.

(* deletion is oldest-first: the files present are always a contiguous run, in creation
   order, of the files ever created *)
Theorem C08_oldest_first : forall cfg z, zreach cfg z -> files_contiguous z.
Proof. exact PurgeFacts.C08_oldest_first. Qed.

(* without failures, once the worker has caught up, every chunk whose removal was requested is gone *)
Theorem C08_liveness : forall cfg z, zreach_ff cfg z -> worker_idle2 z -> removals_done z.
Proof. exact PurgeFacts.C08_liveness. Qed.

(* which chunks are requested: exactly the closed chunks, from the oldest on, whose closing
   last log id is <= the purge point *)
Theorem C08_pop_obsolete_spec_partial : forall upto cl ids rest,
  NoDup (map (fun c => ck_id (cl_chunk c)) cl) ->
  pop_obsolete upto cl = (ids, rest) ->
  map (fun c => ck_id (cl_chunk c)) cl = ids ++ map (fun c => ck_id (cl_chunk c)) rest /\
  (forall c, In c cl -> In (ck_id (cl_chunk c)) ids -> opair_leb (r_last (cl_state c)) (Some upto) = true) /\
  (match rest with c :: _ => opair_ltb (Some upto) (r_last (cl_state c)) = true | [] => True end).
Proof. exact PurgeFacts.C08_pop_obsolete_spec_partial. Qed.

(* only dead chunks are deleted: under a Raft-legal history, between API calls, every
   live index entry is stored in a file that still exists (cache limits arbitrary) *)
Theorem C08_only_dead_partial : forall cfg z,
  zreach cfg z -> PurgeLive.hist_legal z -> z_todo z = [] -> live_entries_have_files z.
Proof. exact PurgeLive.C08_only_dead_partial. Qed.

(* ---- the same for a store instance started by opening ANY directory that opens (restart) *)
Theorem C08_removed_after_durable_from : forall cfg d z,
  RestartSys.dir_wf d -> RestartSys.older_synced d -> RestartSys.zreach_from cfg d z -> removed_after_durable z.
Proof. exact RestartSys.C08_removed_after_durable_from. Qed.

Theorem C08_oldest_first_from : forall cfg d z,
  NoPanic.disk_sorted d -> RestartSys.zreach_from cfg d z -> files_contiguous z.
Proof. exact RestartSys.C08_oldest_first_from. Qed.

Theorem C08_liveness_from : forall cfg d z,
  NoPanic.disk_sorted d -> RestartSys.zreach_from_ff cfg d z -> worker_idle2 z -> removals_done z.
Proof. exact RestartSys.C08_liveness_from. Qed.

(* [older_synced] is necessary here too: a reopened store purges and unlinks the oldest file
   while a middle file it never wrote is unsynced *)
Theorem C08_restart_needs_older_synced :
  exists z, RestartSys.dir_wf RestartSys.bad_dir3 /\
            RestartSys.zreach_from RestartSys.demo_cfg RestartSys.bad_dir3 z /\ ~ removed_after_durable z.
Proof. exact RestartSys.older_synced_needed_C08. Qed.

Print Assumptions C08_removed_after_durable.
Print Assumptions C08_oldest_first.
Print Assumptions C08_liveness.
Print Assumptions C08_only_dead_partial.
Print Assumptions C08_removed_after_durable_from.
Print Assumptions C08_liveness_from.
