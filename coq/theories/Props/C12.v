(* C12 — Record codec round-trips and decoding is total.
   Only pinned statements here; proofs are in Proofs/CodecFacts.v. *)
From Coq Require Import List NArith Arith Lia.
From Coq.Strings Require Import Byte.
From RaftLog Require Import Base.Bytes Model.Types Model.Codec Proofs.CodecFacts.
Import ListNotations.

(* encode then decode gives the record back and leaves exactly the tail *)
Theorem C12_roundtrip :
  forall r t, wf_record r -> dec_record (enc_record r ++ t) = DOk (r, t).
Proof. exact dec_enc_record. Qed.

(* whatever decodes successfully is the encoding of the decoded record *)
Theorem C12_canonical :
  forall bs r t, dec_record bs = DOk (r, t) -> wf_record r /\ bs = enc_record r ++ t.
Proof. exact dec_record_canonical. Qed.

(* the result depends only on the bytes of the record: any other tail is returned untouched *)
Theorem C12_no_overread :
  forall bs r t, dec_record bs = DOk (r, t) ->
  forall t', dec_record (firstn (length bs - length t) bs ++ t') = DOk (r, t').
Proof.
  intros bs r t H t'. destruct (dec_record_canonical bs r t H) as [W E].
  subst bs. rewrite app_length.
  replace (length (enc_record r) + length t - length t)%nat with (length (enc_record r)) by lia.
  rewrite firstn_app, Nat.sub_diag, firstn_all, firstn_O, app_nil_r.
  now apply dec_enc_record.
Qed.

(* the decoder consumes exactly the number of bytes the encoder reported *)
Theorem C12_consumed_is_size :
  forall bs r t, dec_record bs = DOk (r, t) -> N.of_nat (length bs - length t) = rec_size r.
Proof. exact dec_record_consumed. Qed.

(* a torn record (any proper prefix of an encoding) is reported as UnexpectedEof *)
Theorem C12_prefix_is_eof :
  forall r q, wf_record r -> pprefix q (enc_record r) -> dec_record q = DEof.
Proof. exact dec_record_prefix_eof. Qed.

(* decoding is total: a record whose re-encoding is the consumed bytes, or an error *)
Theorem C12_total :
  forall bs, (exists r t, dec_record bs = DOk (r, t) /\ bs = enc_record r ++ t)
             \/ dec_record bs = DEof \/ dec_record bs = DInvalid.
Proof.
  intros bs. destruct (dec_record bs) as [[r t]| |] eqn:E; auto.
  left. exists r, t. split; [reflexivity|]. now apply dec_record_canonical.
Qed.

(* non-vacuity: a concrete well-formed record of every kind *)
Example C12_wf_inhabited :
  wf_record (RAppend (3, 7)%N [x68; x69]) /\
  wf_record (RState (mkRState (Some (1, 2)%N) None (Some (0, 18446744073709551615)%N) None (Some [x00]))) /\
  dec_record (enc_record (RTrunc None) ++ [xff]) = DOk (RTrunc None, [xff]).
Proof. repeat split; vm_compute; try reflexivity; try constructor. Qed.

Check C12_roundtrip : forall r t, wf_record r -> dec_record (enc_record r ++ t) = DOk (r, t).
Check C12_canonical : forall bs r t, dec_record bs = DOk (r, t) -> wf_record r /\ bs = enc_record r ++ t.
Check C12_prefix_is_eof : forall r q, wf_record r -> pprefix q (enc_record r) -> dec_record q = DEof.
Print Assumptions C12_roundtrip.
Print Assumptions C12_canonical.
Print Assumptions C12_no_overread.
Print Assumptions C12_total.
