(* C11 — The on-disk journal is an exact, gap-free record of accepted writes.
   Pinned statements only; proofs are in Proofs/JournalDisk.v, JournalChunk.v,
   JournalFacts.v (and NamesFacts.v for the file-name codec). *)
From Coq Require Import List NArith Sorted.
From RaftLog Require Import Base.Bytes Model.Types Model.Codec Model.Cache Model.Core Model.Recover Model.Run.
From RaftLog Require Import Model.Names Model.Dump Proofs.CodecFacts Proofs.JournalDisk Proofs.JournalChunk Proofs.JournalFacts Proofs.NamesFacts Proofs.DumpFacts.
From RaftLog Require Proofs.CacheRestart.
Import ListNotations.
Local Open Scope N_scope.

(* [logical y] is the directory as it will be once the worker has processed its queue
   and the caller's buffered bytes are flushed; after flush + idle it IS the directory: *)
Theorem C11_idle_disk_is_journal : forall y, journal_wf y ->
  y_queue y = [] -> k_pending (y_core y) = [] -> logical y = y_disk y.
Proof. exact JournalFacts.C11_idle_disk_is_journal. Qed.

(* the structural invariant holds in every state reachable from an empty directory by
   any history of well-formed operations (any arguments, refused writes, purges, flushes,
   worker progress, update_state; restarts excluded here, see C02) *)
Theorem C11_invariant : forall cfg ops res y,
  ops_c11 ops = true -> Forall op_wf ops ->
  run_case cfg ops = (res, Some y) -> journal_wf y.
Proof. exact JournalFacts.C11_invariant. Qed.

(* ... and with restarts anywhere in the history (any configuration at each restart, unflushed
   bytes lost at the restart; update_state excluded) *)
Theorem C11_invariant_restarts : forall cfg ops res y,
  forallb CacheRestart.op_c15 ops = true -> Forall op_wf ops ->
  run_case cfg ops = (res, Some y) -> journal_wf y.
Proof. exact CacheRestart.C11_invariant_restarts. Qed.

(* what the invariant says: file names are global offsets, files abut, every file is a
   sequence of records headed by a state snapshot equal to the closing state of its
   predecessor, chunk offset tables are those of the records, and every index entry
   points at the encoding of its own Append record *)
Theorem C11_structure : forall y, journal_wf y ->
  let k := y_core y in
  let D := logical y in
  let o := ck_id (k_open k) in
  ids D = k_removed k ++ map (fun c => ck_id (cl_chunk c)) (k_closed k) ++ [o] /\
  StronglySorted N.lt (ids D) /\
  (forall pre a b post, ids D = pre ++ a :: b :: post ->
     b = a + N.of_nat (length (file_bytes D a))) /\
  (forall c, In c (map cl_chunk (k_closed k) ++ [k_open k]) ->
     exists rs, Forall wf_record rs /\ file_bytes D (ck_id c) = encs rs /\
                ck_ends c = ends_from (ck_id c) (map rec_size rs) /\
                exists st tl, rs = RState st :: tl) /\
  heads_ok (file_bytes D) (k_closed k) o /\
  (exists older pl, y_files (worker_idle y) = older ++ [mkWF o pl]) /\
  (forall i ld, In (i, ld) (m_log (k_sm k)) ->
     wf_pair (ld_id ld) /\ ld_chunk ld <= o /\
     (In (ld_chunk ld) (ids D) ->
      exists pre p post, wf_bytes p /\
        file_bytes D (ld_chunk ld) = pre ++ enc_record (RAppend (ld_id ld) p) ++ post /\
        ld_off ld = ld_chunk ld + N.of_nat (length pre) /\
        ld_len ld = rec_size (RAppend (ld_id ld) p))).
Proof. exact JournalFacts.C11_structure. Qed.

(* one record per accepted write, in call order: an accepted record appends exactly its
   encoding to the open chunk's file; the returned segment is where it is; nothing else
   changes; a rotation starts a file named by the end offset whose content is the
   snapshot of the state at that moment *)
Theorem C11_write_appends : forall y r k' off len effs, journal_wf y ->
  append_and_apply (y_core y) r = Ret (k', WOk off len, effs) -> wf_record r ->
  let y' := apply_effs (with_core y k') effs in
  let oid := ck_id (k_open (y_core y)) in
  file_bytes (logical y') oid = file_bytes (logical y) oid ++ enc_record r /\
  off = oid + N.of_nat (length (file_bytes (logical y) oid)) /\ len = rec_size r /\
  (forall id, id <> oid -> id <> ck_id (k_open k') ->
     file_bytes (logical y') id = file_bytes (logical y) id) /\
  (ck_id (k_open k') <> oid ->
     ck_id (k_open k') = oid + N.of_nat (length (file_bytes (logical y') oid)) /\
     file_bytes (logical y') (ck_id (k_open k')) = enc_record (RState (m_rs (k_sm k')))).
Proof. exact JournalFacts.C11_write_appends. Qed.

(* a file is closed as soon as it reaches a limit: after every accepted write the open
   chunk is below both limits or holds only its head snapshot (limits 0 and 1 included) *)
Theorem C11_rotation : forall k r k' off len effs,
  append_and_apply k r = Ret (k', WOk off len, effs) ->
  is_full (k_cfg k') (k_open k') = true -> ck_records (k_open k') = 1%N.
Proof. exact JournalChunk.C11_rotation. Qed.

(* the reported on-disk size is the number of bytes from the oldest retained chunk to the journal end *)
Theorem C11_on_disk_size : forall y, journal_wf y ->
  do_on_disk_size (y_core y) =
  nsum (map (fun id => N.of_nat (length (file_bytes (logical y) id)))
            (closed_ids (y_core y) ++ [ck_id (k_open (y_core y))])).
Proof. exact JournalFacts.C11_on_disk_size. Qed.

(* the file-name encoding, for all u64 offsets: it round-trips through the parser, is
   injective, and numeric order of offsets is lexicographic order of names *)
Theorem C11_name_roundtrip : forall n, (n <= U64MAX)%N ->
  parse_chunk_file_name (chunk_file_name n) = Some n.
Proof. exact NamesFacts.C11_name_roundtrip. Qed.
Theorem C11_name_order : forall n m, (n <= U64MAX)%N -> (m <= U64MAX)%N -> (n < m)%N ->
  bytes_ltb (chunk_file_name n) (chunk_file_name m) = true.
Proof. exact NamesFacts.C11_name_order. Qed.

(* What the Dump API shows (Model/Dump.v: dump_ref = RaftLog::dump(), dump_dir = the
   standalone Dump): after any history followed by flush + idle, both dumpers agree, report
   no error item, visit exactly the chunk files of the directory, and list exactly the
   journal: for every live chunk its records in order, each file starting with a state
   snapshot, each item with its file-local offset and size. *)
Theorem C11_dump_after_flush_idle : forall cfg ops cb res y,
  ops_c11 ops = true -> Forall op_wf ops ->
  run_case cfg (ops ++ [OFlush cb; OIdle]) = (res, Some y) ->
  let k := y_core y in
  let d := y_disk y in
  dump_ref k d = dump_dir d /\
  Forall (fun it => ditem_is_err it = false) (dump_ref k d) /\
  ids d = dump_ref_ids k /\
  exists rss : list (list record),
    Forall2 (chunk_records (file_bytes d)) (live_chunks k) rss /\
    dump_ref k d = journal_items (live_chunks k) rss /\
    dump_records (dump_ref k d) = concat rss.
Proof. exact DumpFacts.C11_dump_after_flush_idle. Qed.

(* without the flush the two dumpers can differ: chunk files whose removal is still
   buffered in the caller are on disk but no longer tracked (witness) *)
Theorem C11_dump_is_journal_refuted : exists cfg ops res y,
  ops_c11 ops = true /\ Forall op_wf ops /\ run_case cfg ops = (res, Some y) /\
  y_queue y = [] /\ k_pending (y_core y) = [] /\
  dump_ref (y_core y) (y_disk y) <> dump_dir (y_disk y).
Proof. exact DumpFacts.C11_dump_is_journal_refuted. Qed.

(* a file of complete records dumps as exactly those records *)
Theorem C11_dump_file_encs : forall id rs, Forall wf_record rs ->
  dump_file id (JournalChunk.encs rs) = recs_items id 0 0 rs.
Proof. exact DumpFacts.dump_file_encs. Qed.

Print Assumptions C11_dump_after_flush_idle.
Print Assumptions C11_dump_is_journal_refuted.
Print Assumptions C11_name_roundtrip.
Print Assumptions C11_name_order.
Print Assumptions C11_invariant.
Print Assumptions C11_write_appends.
Print Assumptions C11_structure.
Print Assumptions C11_invariant_restarts.
