(* C03 — Crash safety: recovery yields a prefix that contains everything acknowledged.
   Pinned statements only; proofs are in Proofs/CrashBase.v, CrashJournal.v, CrashSteps.v,
   CrashRecover.v, CrashSpec.v, CrashPrefix.v, CrashFacts.v, CrashSuffix.v, CrashRemoved.v,
   CrashPurged.v. The crash model is [crash_image] of Model/Sys.v: the set of files is the
   current one, every file keeps at least its synced prefix and at most what was written,
   cut at any byte, or zero-filled from a record boundary.

   "Whenever the store can be opened afterwards": the images in gap_class are exactly the
   ones that do not open (finding F3 of C05, an older file stops short of the next file's
   name); for every other image the theorem shows that open succeeds AND what it yields. *)
From Coq Require Import List NArith.
From RaftLog Require Import Base.Bytes Model.Types Model.Cache Model.Core Model.Recover Model.Run Model.Sys.
From RaftLog Require Import Spec.Spec Spec.Hist Spec.Durable.
From RaftLog Require Import Proofs.Refine Proofs.CrashSteps Proofs.CrashRecover Proofs.CrashSpec Proofs.CrashPrefix
  Proofs.CrashFacts Proofs.CrashPurged.
Import ListNotations.

(* For EVERY reachable state of the caller/worker/file-system system (any history of
   well-formed, Raft-legal writes, any interleaving, batching, rotation, purge with physical
   removal of chunk files, injected write/sync/unlink failures, worker death; the crash may
   fall between or inside calls of both threads) and EVERY crash image of it: the
   directory opens and the recovered store shows exactly the reference-log state after the
   first k journalled records, where k is at least the number of records journalled before
   any flush whose callback has reported success (acked) and at most the number journalled
   so far (issued).  The Raft state equals the reference state and the index lists exactly
   its entries: nothing acknowledged is forgotten, nothing that was not issued appears, and
   no partially written record is visible. *)
Theorem C03_prefix : forall cfg cfg' z d',
  zreach cfg z -> hist_wf z -> PL.hist_legal z -> crash_image z d' ->
  ~ gap_class d' -> c_truncate cfg' = true ->
  exists y' k sp, open_dir cfg' d' = OpenOk y' /\
    (acked z <= k)%nat /\ (k <= issued z)%nat /\
    nth_error (ref_states (PL.hist z)) k = Some sp /\
    m_rs (k_sm (y_core y')) = spec_state sp /\
    map f_log (m_log (k_sm (y_core y'))) = map g_ent (sp_entries sp).
Proof. exact CrashPurged.C03_prefix. Qed.

(* the hypotheses are met by a reachable state with an acknowledged flush, a rotation and
   a crash image that tears the last record (no chunk removed) ... *)
Theorem C03_nonvacuous :
  zreach ex_cfg ex_z /\ hist_wf ex_z /\ PL.hist_legal ex_z /\ crash_image ex_z ex_d /\
  ~ gap_class ex_d /\ hd_error (map f_id ex_d) = Some 0%N /\ c_truncate ex_cfg = true /\
  acked ex_z = 1%nat /\ issued ex_z = 3%nat /\
  map (fun f => length (f_data f)) (z_disk ex_z) = [74; 78]%nat /\
  map (fun f => length (f_data f)) ex_d = [74; 75]%nat.
Proof. exact CrashFacts.C03_nonvacuous. Qed.

(* ... and by one in which chunk 0 has been created, purged and physically removed (the
   only file left is chunk 114), four records are acknowledged, a fifth is torn *)
Theorem C03_nonvacuous_purged :
  zreach pex_cfg pex_z /\ hist_wf pex_z /\ PL.hist_legal pex_z /\ crash_image pex_z pex_d /\
  ~ gap_class pex_d /\ c_truncate pex_cfg = true /\
  In 0%N (g_created (z_ghost pex_z)) /\ map f_id (z_disk pex_z) = [114%N] /\ map f_id pex_d = [114%N] /\
  acked pex_z = 4%nat /\ issued pex_z = 5%nat /\
  map (fun f => length (f_data f)) (z_disk pex_z) = [90]%nat /\
  map (fun f => length (f_data f)) pex_d = [87]%nat.
Proof. exact CrashPurged.C03_prefix_nonvacuous_purged. Qed.

Print Assumptions C03_prefix.
Print Assumptions C03_nonvacuous.
Print Assumptions C03_nonvacuous_purged.
