(* C03 — Crash safety: recovery yields a prefix that contains everything acknowledged.
   Pinned statements only; proofs are in Proofs/CrashBase.v, CrashJournal.v, CrashSteps.v,
   CrashRecover.v, CrashSpec.v, CrashPrefix.v, CrashFacts.v. The crash model is
   [crash_image] of Model/Sys.v: every file keeps at least its synced prefix and at most
   what was written, cut at any byte, or zero-filled from a record boundary.

   The full statement (NOT proved, not known to be false) is

     forall cfg cfg' z d',
       zreach cfg z -> hist_wf z -> PL.hist_legal z -> crash_image z d' ->
       ~ gap_class d' -> c_truncate cfg' = true ->
       exists y' k sp, open_dir cfg' d' = OpenOk y' /\
         (acked z <= k)%nat /\ (k <= issued z)%nat /\
         nth_error (ref_states (PL.hist z)) k = Some sp /\
         m_rs (k_sm (y_core y')) = spec_state sp /\
         map f_log (m_log (k_sm (y_core y'))) = map g_ent (sp_entries sp).

   ("whenever the store can be opened afterwards": images in gap_class are the ones that
   do not open, finding F3 of C05.)  What is proved adds one hypothesis: the first chunk
   file is still present in the image, i.e. no chunk file has been physically removed yet
   (purge calls and purge records are allowed).  The name says so. *)
From Coq Require Import List NArith.
From RaftLog Require Import Base.Bytes Model.Types Model.Cache Model.Core Model.Recover Model.Run Model.Sys.
From RaftLog Require Import Spec.Spec Spec.Hist Spec.Durable.
From RaftLog Require Import Proofs.Refine Proofs.CrashSteps Proofs.CrashRecover Proofs.CrashSpec Proofs.CrashPrefix Proofs.CrashFacts.
Import ListNotations.

(* For EVERY reachable state of the caller/worker/file-system system (any interleaving,
   batching, injected failures, worker death; crash between or inside calls of both
   threads) and EVERY crash image of it: the directory opens and the recovered store shows
   exactly the reference-log state after the first k journalled records, where k is at
   least the number of records journalled before any flush whose callback has reported
   success and at most the number journalled so far.  The Raft state equals the reference
   state and the index lists exactly its entries: nothing acknowledged is forgotten and
   no partially written record is visible. *)
Theorem C03_prefix_no_purge_partial : forall cfg cfg' z d',
  zreach cfg z -> hist_wf z -> PL.hist_legal z -> crash_image z d' ->
  ~ gap_class d' -> hd_error (map f_id d') = Some 0%N -> c_truncate cfg' = true ->
  exists y' k sp, open_dir cfg' d' = OpenOk y' /\
    (acked z <= k)%nat /\ (k <= issued z)%nat /\
    nth_error (ref_states (PL.hist z)) k = Some sp /\
    m_rs (k_sm (y_core y')) = spec_state sp /\
    map f_log (m_log (k_sm (y_core y'))) = map g_ent (sp_entries sp).
Proof. exact CrashFacts.C03_prefix_no_purge_partial. Qed.

(* the hypotheses are met by a reachable state with an acknowledged flush, a rotation and
   a crash image that tears the last record; the conclusion for it *)
Theorem C03_nonvacuous :
  zreach ex_cfg ex_z /\ hist_wf ex_z /\ PL.hist_legal ex_z /\ crash_image ex_z ex_d /\
  ~ gap_class ex_d /\ hd_error (map f_id ex_d) = Some 0%N /\ c_truncate ex_cfg = true /\
  acked ex_z = 1%nat /\ issued ex_z = 3%nat /\
  map (fun f => length (f_data f)) (z_disk ex_z) = [74; 78]%nat /\
  map (fun f => length (f_data f)) ex_d = [74; 75]%nat.
Proof. exact CrashFacts.C03_nonvacuous. Qed.

Print Assumptions C03_prefix_no_purge_partial.
Print Assumptions C03_nonvacuous.
