(* C16 — No argument makes a public operation panic.
   Pinned statements only; proofs are in Proofs/NoPanic.v. *)
From Coq Require Import List NArith.
From RaftLog Require Import Base.Bytes Model.Types Model.Cache Model.Core Model.Recover Model.Run.
From RaftLog Require Import Proofs.NoPanic.
From RaftLog Require Import Model.Sys Spec.Durable.
From RaftLog Require Proofs.JournalFacts Proofs.CacheRestart Proofs.CrashSteps Proofs.ReadNoPanic.
Import ListNotations.

(* Every run from an empty directory — any operations, any argument values, any
   configurations, including restarts, update_state and drains — never produces a
   panic as the result of a call. *)
Theorem C16_no_panic : forall cfg ops res fin,
  run_case cfg ops = (res, fin) -> ~ In ResPanic res.
Proof. exact NoPanic.C16_no_panic. Qed.

(* one call, any argument: a write returns Ok or Err *)
Theorem C16_write_no_panic : forall k w, open_nonempty k ->
  exists k' r effs, do_write k w = Ret (k', r, effs) /\ open_nonempty k'.
Proof. exact NoPanic.C16_write_no_panic. Qed.

(* an inverted range is empty *)
Theorem C16_read_inverted_empty : forall k d from to,
  (to <= from)%N -> snd (do_read k d from to) = [].
Proof. exact NoPanic.C16_read_inverted_empty. Qed.

(* the guard at the integer limit: log index u64::MAX is refused before anything is touched *)
Theorem C16_index_limit_refused : forall k r,
  index_limit r = true -> append_and_apply k r = Ret (k, WErr EIndexLimit, []).
Proof. exact NoPanic.C16_index_limit_refused. Qed.

(* hence next_log_index never overflows u64 for an accepted record (arguments are u64) *)
Theorem C16_next_index_in_range_partial : forall k r k' off len effs,
  rec_index_u64 r ->
  append_and_apply k r = Ret (k', WOk off len, effs) ->
  match r with
  | RAppend id _ | RPurge id => (next_index (Some id) <= U64MAX)%N
  | _ => True
  end.
Proof. exact NoPanic.C16_next_index_in_range_partial. Qed.

(* ---- panics INSIDE a read.  A read returns items; RIPanic stands for a panic in the read
   path: the u64 subtraction `segment.offset - chunk.global_start` in Chunk::read_record
   (modelled: read_record = Panic when the offset lies below the chunk's start) or a record
   that decodes to something other than an Append.  Neither can happen: *)

(* the subtraction never underflows: every index entry lies inside the chunk it names *)
Theorem C16_read_record_no_underflow : forall y i ld c, JournalFacts.journal_wf y ->
  In (i, ld) (m_log (k_sm (y_core y))) ->
  closed_get (ld_chunk ld) (k_closed (y_core y)) = Some c ->
  (ck_id (cl_chunk c) <= ld_off ld)%N.
Proof. exact ReadNoPanic.C16_read_record_no_underflow. Qed.

(* the branch is live in the model: exactly the offsets below the chunk's start panic *)
Theorem C16_read_record_panic_iff : forall d c off len,
  read_record d c off len = Panic <-> (off < ck_id c)%N.
Proof. exact ReadNoPanic.read_record_panic_iff. Qed.

(* no item of any read of any run is a panic: any history of well-formed operations, restarts
   anywhere, any cache limits (0 included: items may be errors in the F2 class, never panics) *)
Theorem C16_run_reads_no_panic : forall cfg ops res fin,
  forallb CacheRestart.op_c15 ops = true -> Forall JournalFacts.op_wf ops ->
  run_case cfg ops = (res, fin) ->
  forall items, In (ResRead items) res -> ~ In RIPanic items.
Proof. exact ReadNoPanic.C16_run_reads_no_panic. Qed.

(* the same in every state of the small-step system: any worker position (bytes buffered,
   queued, partly written), failed writes/syncs/unlinks, worker death; update_state included *)
Theorem C16_read_items_no_panic_L2 : forall cfg z,
  zreach cfg z -> CrashSteps.hist_wf z ->
  (forall from to, ~ In RIPanic (snd (do_read (z_core z) (z_disk z) from to))) /\
  ~ In RIPanic (do_dump_iter (z_core z) (z_disk z)).
Proof. exact ReadNoPanic.C16_read_items_no_panic_sys. Qed.

Print Assumptions C16_no_panic.
Print Assumptions C16_write_no_panic.
Print Assumptions C16_next_index_in_range_partial.
Print Assumptions C16_run_reads_no_panic.
Print Assumptions C16_read_items_no_panic_L2.
Print Assumptions C16_read_record_no_underflow.
