(* C16 — No argument makes a public operation panic.
   Pinned statements only; proofs are in Proofs/NoPanic.v. *)
From Coq Require Import List NArith.
From RaftLog Require Import Base.Bytes Model.Types Model.Cache Model.Core Model.Recover Model.Run.
From RaftLog Require Import Proofs.NoPanic.
Import ListNotations.

(* Every run from an empty directory — any operations, any argument values, any
   configurations, including restarts, update_state and drains — never produces a
   panic as the result of a call. *)
Theorem C16_no_panic : forall cfg ops res fin,
  run_case cfg ops = (res, fin) -> ~ In ResPanic res.
Proof. exact NoPanic.C16_no_panic. Qed.

(* one call, any argument: a write returns Ok or Err *)
Theorem C16_write_no_panic : forall k w, open_nonempty k ->
  exists k' r effs, do_write k w = Ret (k', r, effs) /\ open_nonempty k'.
Proof. exact NoPanic.C16_write_no_panic. Qed.

(* an inverted range is empty *)
Theorem C16_read_inverted_empty : forall k d from to,
  (to <= from)%N -> snd (do_read k d from to) = [].
Proof. exact NoPanic.C16_read_inverted_empty. Qed.

(* the guard at the integer limit: log index u64::MAX is refused before anything is touched *)
Theorem C16_index_limit_refused : forall k r,
  index_limit r = true -> append_and_apply k r = Ret (k, WErr EIndexLimit, []).
Proof. exact NoPanic.C16_index_limit_refused. Qed.

(* hence next_log_index never overflows u64 for an accepted record (arguments are u64) *)
Theorem C16_next_index_in_range_partial : forall k r k' off len effs,
  rec_index_u64 r ->
  append_and_apply k r = Ret (k', WOk off len, effs) ->
  match r with
  | RAppend id _ | RPurge id => (next_index (Some id) <= U64MAX)%N
  | _ => True
  end.
Proof. exact NoPanic.C16_next_index_in_range_partial. Qed.

Print Assumptions C16_no_panic.
Print Assumptions C16_write_no_panic.
Print Assumptions C16_next_index_in_range_partial.
