(* C02 — Clean restart equivalence.
   Pinned statements only; proofs are in Proofs/RestartSim.v, RestartInv.v,
   RestartFacts.v, RestartCycles.v. *)
From Coq Require Import List NArith.
From RaftLog Require Import Base.Bytes Model.Types Model.Cache Model.Core Model.Recover Model.Run.
From RaftLog Require Import Spec.Spec Spec.Hist.
From RaftLog Require Import Proofs.JournalFacts Proofs.Refine.
From RaftLog Require Proofs.RestartFacts Proofs.RestartCycles.
Import ListNotations.

(* one clean restart: after a Raft-legal history, flushed and with the worker idle, the
   directory reopens under ANY other configuration, is left untouched, and the reopened
   store shows exactly the reference log (state, every range, snapshot iteration) *)
Theorem C02_restart : forall cfg cfg' ops res y,
  ops_plain spec0 ops = true -> Forall op_wf ops ->
  big_cache cfg ops -> big_cache cfg' ops ->
  run_case cfg ops = (res, Some y) ->
  y_queue y = [] -> k_pending (y_core y) = [] ->
  exists y', open_dir cfg' (y_disk y) = OpenOk y' /\
             y_disk y' = y_disk y /\
             observes y' (spec_ops spec0 ops) /\
             exists n b, Inv (y_core y') (spec_ops spec0 ops) n b.
Proof. exact RestartFacts.C02_restart. Qed.

(* ... and it continues to accept writes with the same semantics *)
Theorem C02_restart_continue : forall cfg cfg' ops ops2 res y,
  ops_plain spec0 (ops ++ ops2) = true -> Forall op_wf ops ->
  big_cache cfg (ops ++ ops2) -> big_cache cfg' (ops ++ ops2) ->
  run_case cfg ops = (res, Some y) ->
  y_queue y = [] -> k_pending (y_core y) = [] ->
  exists y', open_dir cfg' (y_disk y) = OpenOk y' /\
    forall res2 fin, run_ops y' ops2 = (res2, fin) ->
      exists y2, fin = Some y2 /\ observes y2 (spec_ops spec0 (ops ++ ops2)).
Proof. exact RestartFacts.C02_restart_continue. Qed.

(* any number of close/open cycles, each under its own configuration, each preceded by a flush *)
Theorem C02_restart_cycles : forall cfg ops res fin,
  RestartCycles.ops_clean_restarts spec0 ops = true -> Forall op_wf ops ->
  big_cache cfg ops -> (forall c, In c (RestartCycles.restart_cfgs ops) -> big_cache c ops) ->
  run_case cfg ops = (res, fin) ->
  exists y, fin = Some y /\ observes y (spec_ops spec0 ops).
Proof. exact RestartCycles.C02_restart_cycles. Qed.

Print Assumptions C02_restart.
Print Assumptions C02_restart_continue.
Print Assumptions C02_restart_cycles.
