(* C13 — A directory is owned by at most one store or dump at a time.
   Pinned statements only; the model is Model/Lock.v, proofs in Proofs/LockFacts.v.
   Partial: the kernel's flock semantics is the model's assumption; what is proved is that
   the protocol of the crate (lock before anything, everything else only as owner) gives
   mutual exclusion in every interleaving of any number of contenders. *)
From Coq Require Import List.
From RaftLog Require Import Model.Lock Proofs.LockFacts.
Import ListNotations.

Theorem C13_mutex : forall es s a b,
  lrun l_init es = Some s -> l_cs s a = COwner -> l_cs s b = COwner -> a = b.
Proof. exact LockFacts.C13_mutex. Qed.

Theorem C13_touch_only_owner : forall es s c h,
  lrun l_init es = Some s -> In (c, h) (l_touches s) -> h = true.
Proof. exact LockFacts.C13_touch_only_owner. Qed.

Theorem C13_refused_is_inert : forall es s c o s',
  lrun l_init es = Some s -> l_cs s o = COwner -> l_cs s c = CLockFileOpen ->
  lstep s (LTryLock c) = Some s' ->
  l_cs s' c = CIdle /\ l_holder s' = Some o /\ l_touches s' = l_touches s /\ lstep s' (LTouch c) = None.
Proof. exact LockFacts.C13_refused_is_inert. Qed.

Theorem C13_reacquire : forall es s o s1 c s2,
  lrun l_init es = Some s -> l_cs s o = COwner -> lstep s (LDrop o) = Some s1 ->
  l_cs s1 c = CLockFileOpen -> lstep s1 (LTryLock c) = Some s2 -> l_cs s2 c = COwner.
Proof. exact LockFacts.C13_reacquire. Qed.

Print Assumptions C13_mutex.
Print Assumptions C13_touch_only_owner.
Print Assumptions C13_reacquire.
