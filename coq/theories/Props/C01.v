(* C01 — Sequential log semantics: reads and state match a reference log.
   Pinned statements only; proofs are in Proofs/OrderFacts.v, SmFacts.v, Refine.v.
   The reference log is Spec/Spec.v; histories are read through Spec/Hist.v. *)
From Coq Require Import List NArith.
From RaftLog Require Import Base.Bytes Model.Types Model.Cache Model.Core Model.Recover Model.Run.
From RaftLog Require Import Spec.Spec Spec.Hist Proofs.Refine.
Import ListNotations.

(* Every run of a Raft-legal history (accepted and refused writes of the six kinds with
   any arguments, flushes, reads, stats, worker progress at any point) from an empty
   directory, under ANY chunk limits, with a cache large enough that nothing is
   evicted: never panics, and afterwards the caller observes exactly the reference
   log: the reported state, every range read, and the snapshot iteration. *)
Theorem C01_refines_spec : forall cfg ops res fin,
  ops_plain spec0 ops = true ->
  big_cache cfg ops ->
  run_case cfg ops = (res, fin) ->
  exists y, fin = Some y /\ observes y (spec_ops spec0 ops).
Proof. exact Refine.C01_refines_spec. Qed.

(* each write call is accepted exactly when the reference log accepts it *)
Theorem C01_results_agree : forall cfg ops0 w res0 y0,
  ops_plain spec0 (ops0 ++ [OW w]) = true ->
  big_cache cfg (ops0 ++ [OW w]) ->
  run_case cfg ops0 = (res0, Some y0) ->
  match run_op y0 (OW w) with
  | (_, ResW (WOk _ _)) => snd (spec_wop (spec_ops spec0 ops0) w) = true
  | (_, ResW (WErr _)) => snd (spec_wop (spec_ops spec0 ops0) w) = false
  | _ => False
  end.
Proof. exact Refine.C01_results_agree. Qed.

(* splitting the journal into chunk files is invisible to the caller *)
Theorem C01_chunking_invisible : forall cfg cfg' ops res res' y y',
  ops_plain spec0 ops = true -> big_cache cfg ops -> big_cache cfg' ops ->
  run_case cfg ops = (res, Some y) -> run_case cfg' ops = (res', Some y') ->
  m_rs (k_sm (y_core y)) = m_rs (k_sm (y_core y')) /\
  forall from to, snd (do_read (y_core y) (y_disk y) from to) = snd (do_read (y_core y') (y_disk y') from to).
Proof. exact Refine.C01_chunking_invisible. Qed.

Print Assumptions C01_refines_spec.
Print Assumptions C01_results_agree.
Print Assumptions C01_chunking_invisible.
