(* Histories of caller operations seen through the reference specification.
   Definitions only. *)
From Coq Require Import List NArith Bool.
From RaftLog Require Import Base.Bytes Model.Types Model.Cache Model.Core Model.Recover Model.Run Spec.Spec.
Import ListNotations.
Local Open Scope N_scope.

(* a multi-entry append is a sequence of per-entry writes that stops at the first
   refused entry (the crate documents no batch atomicity) *)
Fixpoint spec_append (s : spec) (es : list (logid * payload)) : spec * bool :=
  match es with
  | [] => (s, true)
  | (id, p) :: r =>
    match spec_step s (SEntry id p) with
    | Some s' => spec_append s' r
    | None => (s, false)
    end
  end.

Definition spec_one (s : spec) (w : swrite) : spec * bool :=
  match spec_step s w with Some s' => (s', true) | None => (s, false) end.

(* the reference log after a caller write, and whether the call is accepted *)
Definition spec_wop (s : spec) (w : wop) : spec * bool :=
  match w with
  | OVote v => spec_one s (SVote v)
  | OAppend es => spec_append s es
  | OTruncate i => spec_one s (STruncate i)
  | OPurge u => spec_one s (SPurge u)
  | OCommit id => spec_one s (SCommit id)
  | OUser u => spec_one s (SUser u)
  | OUpdateState _ => (s, true)
  end.

Definition spec_op (s : spec) (o : op) : spec :=
  match o with OW w => fst (spec_wop s w) | _ => s end.
Definition spec_ops (s : spec) (ops : list op) : spec := fold_left spec_op ops s.

(* Raft-legal caller write: purge arguments name an entry or lie beyond the log;
   update_state (which installs an arbitrary state) is not one of the six write kinds *)
Definition wop_legal (s : spec) (w : wop) : bool :=
  match w with
  | OPurge u => purge_legal s u
  | OUpdateState _ => false
  | _ => true
  end.

(* histories of one run: the six write kinds (accepted or refused), flushes, reads,
   stats, worker progress; no restart, no forced cache drain *)
Definition op_plain (s : spec) (o : op) : bool :=
  match o with
  | OW w => wop_legal s w
  | ODrain => false
  | ORestart _ => false
  | _ => true
  end.
Fixpoint ops_plain (s : spec) (ops : list op) : bool :=
  match ops with
  | [] => true
  | o :: r => op_plain s o && ops_plain (spec_op s o) r
  end.

(* the same, but with restarts and drains allowed *)
Definition op_legal (s : spec) (o : op) : bool :=
  match o with OW w => wop_legal s w | _ => true end.
Fixpoint ops_legal (s : spec) (ops : list op) : bool :=
  match ops with
  | [] => true
  | o :: r => op_legal s o && ops_legal (spec_op s o) r
  end.

(* "cache limits large enough that nothing is evicted" *)
Definition op_entries (o : op) : list (logid * payload) :=
  match o with OW (OAppend es) => es | _ => [] end.
Definition appended (ops : list op) : list (logid * payload) := flat_map op_entries ops.
Definition appended_bytes (ops : list op) : N :=
  fold_right (fun e acc => psize (snd e) + acc) 0 (appended ops).
Definition big_cache (cfg : config) (ops : list op) : Prop :=
  N.of_nat (length (appended ops)) <= c_max_items cfg /\ appended_bytes ops <= c_capacity cfg.

(* what a caller observes of a state: the reported state and every read *)
Definition read_ok (items : list ritem) (es : list (logid * payload)) : Prop :=
  items = map (fun e => RIOk (fst e) (snd e)) es.
Definition observes (y : sys) (s : spec) : Prop :=
  m_rs (k_sm (y_core y)) = spec_state s /\
  (forall from to, read_ok (snd (do_read (y_core y) (y_disk y) from to)) (spec_read s from to)) /\
  read_ok (do_dump_iter (y_core y) (y_disk y)) (sp_entries s).
