(* The reference specification: a plain in-memory Raft log. Readable in minutes;
   nothing here knows about chunks, files, caches or workers. *)
From Coq Require Import List NArith Bool.
From RaftLog Require Import Base.Bytes Model.Types.
Import ListNotations.
Local Open Scope N_scope.

Record spec := mkSpec {
  sp_vote : option vote;
  sp_entries : list (logid * payload);      (* in index order *)
  sp_committed : option logid;
  sp_purged : option logid;
  sp_user : option payload }.

Definition spec0 : spec := mkSpec None [] None None None.

(* the last log id: that of the last entry, or the purged id when the log is empty *)
Definition sp_last (s : spec) : option logid :=
  match rev (sp_entries s) with
  | (id, _) :: _ => Some id
  | [] => sp_purged s
  end.

Definition sp_has_index (s : spec) (i : N) : bool :=
  existsb (fun e => N.eqb (lid_index (fst e)) i) (sp_entries s).

(* one write, at the granularity of one journal record *)
Inductive swrite :=
| SVote (v : vote)
| SEntry (id : logid) (p : payload)
| STruncate (i : N)
| SPurge (upto : logid)
| SCommit (id : logid)
| SUser (u : option payload).

(* [None] = the write is refused *)
Definition spec_step (s : spec) (w : swrite) : option spec :=
  match w with
  | SVote v =>
    if ovote_accepts (sp_vote s) v
    then Some (mkSpec (Some v) (sp_entries s) (sp_committed s) (sp_purged s) (sp_user s))
    else None
  | SEntry id p =>
    if opair_ltb (sp_last s) (Some id)
       && match sp_last s with Some l => N.eqb (lid_index id) (lid_index l + 1) | None => true end
       && negb (N.eqb (lid_index id) U64MAX)
    then Some (mkSpec (sp_vote s) (sp_entries s ++ [(id, p)]) (sp_committed s) (sp_purged s) (sp_user s))
    else None
  | STruncate i =>
    if N.eqb i (next_index (sp_purged s)) || (negb (N.eqb i 0) && sp_has_index s (i - 1))
    then Some (mkSpec (sp_vote s) (filter (fun e => N.ltb (lid_index (fst e)) i) (sp_entries s))
                      (sp_committed s) (sp_purged s) (sp_user s))
    else None
  | SPurge u =>
    if N.ltb (lid_index u) (next_index (sp_purged s)) then Some s      (* already purged: no-op *)
    else if N.eqb (lid_index u) U64MAX then None
    else Some (mkSpec (sp_vote s)
                      (filter (fun e => N.ltb (lid_index u) (lid_index (fst e))) (sp_entries s))
                      (sp_committed s)
                      (if opair_ltb (sp_purged s) (Some u) then Some u else sp_purged s)
                      (sp_user s))
  | SCommit id =>
    if opair_leb (sp_committed s) (Some id)
    then Some (mkSpec (sp_vote s) (sp_entries s) (Some id) (sp_purged s) (sp_user s))
    else None
  | SUser u => Some (mkSpec (sp_vote s) (sp_entries s) (sp_committed s) (sp_purged s) u)
  end.

(* a refused write changes nothing *)
Definition spec_apply (s : spec) (w : swrite) : spec :=
  match spec_step s w with Some s' => s' | None => s end.

Definition spec_read (s : spec) (from to : N) : list (logid * payload) :=
  filter (fun e => N.leb from (lid_index (fst e)) && N.ltb (lid_index (fst e)) to) (sp_entries s).

(* the state a caller observes *)
Definition spec_state (s : spec) : rstate :=
  mkRState (sp_vote s) (sp_last s) (sp_committed s) (sp_purged s) (sp_user s).

(* Raft-legal purge argument: names an entry of the log, or lies beyond the log *)
Definition purge_legal (s : spec) (u : logid) : bool :=
  N.ltb (lid_index u) (next_index (sp_purged s))
  || existsb (fun e => pair_eqb (fst e) u) (sp_entries s)
  || (opair_ltb (sp_last s) (Some u)
      && match sp_last s with Some l => N.ltb (lid_index l) (lid_index u) | None => true end).

Definition write_legal (s : spec) (w : swrite) : bool :=
  match w with SPurge u => purge_legal s u | _ => true end.

(* a history is Raft-legal when every purge argument is legal where it is issued *)
Fixpoint legal (s : spec) (h : list swrite) : bool :=
  match h with
  | [] => true
  | w :: r => write_legal s w && legal (spec_apply s w) r
  end.

Definition spec_run (s : spec) (h : list swrite) : spec := fold_left spec_apply h s.
