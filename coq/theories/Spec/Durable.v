(* Durability and ordering contracts over the L2 system (definitions only). *)
From Coq Require Import List NArith Bool.
From RaftLog Require Import Base.Bytes Model.Types Model.Codec Model.Cache Model.Core Model.Recover Model.Run Model.Sys.
Import ListNotations.
Local Open Scope N_scope.

(* reachable states of one store instance started in an empty directory *)
Definition zreach (cfg : config) (z : sys2) : Prop :=
  exists z0 es vis, zinit cfg [] = Some z0 /\ zrun z0 es = Some (z, vis).

(* no injected failure: every system call of the worker succeeds *)
Definition ev_fault_free (e : zev) : bool := match e with ZWork ok => ok | _ => true end.
Definition zreach_ff (cfg : config) (z : sys2) : Prop :=
  exists z0 es vis, zinit cfg [] = Some z0 /\ forallb ev_fault_free es = true /\ zrun z0 es = Some (z, vis).

(* Every journal byte below the global offset U that lies in a file still present
   is inside that file's synced prefix. Files are named by the global offset of their
   first byte and abut, so the bytes of file f below U are [f_id f, min U (next id)). *)
Fixpoint durable_upto (d : disk) (U : N) : Prop :=
  match d with
  | [] => True
  | f :: rest =>
    (f_id f < U ->
     match rest with g :: _ => N.min U (f_id g) | [] => U end <= f_id f + f_synced f)
    /\ durable_upto rest U
  end.

(* C04: a callback that reported success implies durability of everything journalled
   before its flush call (U = the journal end offset at that call) *)
Definition acked_durable (z : sys2) : Prop :=
  forall c U n, In (Some c, U, n) (g_flushed (z_ghost z)) -> In (c, true) (z_acks z) ->
                durable_upto (z_disk z) U.

(* C04: each callback at most once, in the order the flushes were requested *)
Fixpoint strictly_increasing (l : list N) : Prop :=
  match l with
  | [] => True
  | a :: r => match r with [] => True | b :: _ => a < b end /\ strictly_increasing r
  end.
Definition acks_in_order (z : sys2) : Prop := strictly_increasing (map fst (z_acks z)).

Definition worker_idle2 (z : sys2) : Prop :=
  z_queue z = [] /\ w_batch (z_w z) = None /\ z_todo z = [].

(* C04: exactly once when nothing fails and the worker has caught up *)
Definition acks_complete (z : sys2) : Prop :=
  map fst (z_acks z) = map N.of_nat (seq 0 (N.to_nat (k_next_cb (z_core z)))).

(* C08: a chunk file that has been unlinked was requested for removal by a flush whose
   journal end offset U (which lies behind the purge record) is durable in the files
   that remain *)
Definition removed_after_durable (z : sys2) : Prop :=
  forall ids U id, In (ids, U) (g_removals (z_ghost z)) -> In id ids ->
                   disk_get id (z_disk z) = None -> durable_upto (z_disk z) U.

(* C08: the files present are a contiguous run (by creation order) of the files ever
   created: deletion is oldest-first and never leaves a hole *)
Definition contiguous_suffix_of (present created : list N) : Prop :=
  exists gone later, created = gone ++ present ++ later.
Definition files_contiguous (z : sys2) : Prop :=
  contiguous_suffix_of (map f_id (z_disk z)) (g_created (z_ghost z)).

(* C08: no live entry is stored in a chunk whose file is gone *)
Definition live_entries_have_files (z : sys2) : Prop :=
  forall i ld, In (i, ld) (m_log (k_sm (z_core z))) -> disk_get (ld_chunk ld) (z_disk z) <> None.

(* C08 liveness: once the worker has caught up without failures, every chunk whose
   removal was requested is gone *)
Definition removals_done (z : sys2) : Prop :=
  forall ids U id, In (ids, U) (g_removals (z_ghost z)) -> In id ids -> disk_get id (z_disk z) = None.

(* C14: a dropped store whose worker has finished can do nothing any more *)
Definition quiesced (z : sys2) : Prop :=
  z_dropped z = true /\ forall e, zstep z e = None \/ exists z', zstep z e = Some (z', []) /\ z_disk z' = z_disk z.
