(* Code-level facts about the sequential core: no panic in append_and_apply, the
   shape of its three outcomes, property C06 (a refused write leaves no trace), and
   characterisations of the cache / index-map primitives on sorted lists. *)
From Coq Require Import List NArith Bool Lia Sorted.
From RaftLog Require Import Base.Bytes Base.Crc32 Model.Types Model.Codec Model.Cache Model.Core
  Model.Recover Model.Run.
From RaftLog Require Import Proofs.OrderFacts.
Import ListNotations.
Local Open Scope N_scope.

(* ------------------------------------------------------------------ chunks *)
Lemma ck_push_ends_nonempty : forall c n, ck_ends (ck_push c n) <> [].
Proof.
  intros c n E. unfold ck_push in E. cbn [ck_ends] in E.
  apply app_eq_nil in E. destruct E as [_ E]. discriminate.
Qed.

Lemma ck_last_segment_nonempty : forall c, ck_ends c <> [] -> exists seg, ck_last_segment c = Ret seg.
Proof.
  intros c H. unfold ck_last_segment. destruct (rev (ck_ends c)) as [|e r] eqn:E.
  - exfalso. apply H. apply (f_equal (@rev N)) in E. rewrite rev_involutive in E. exact E.
  - eexists. reflexivity.
Qed.

Lemma ck_last_segment_push : forall c n, exists seg, ck_last_segment (ck_push c n) = Ret seg.
Proof. intros c n. apply ck_last_segment_nonempty. apply ck_push_ends_nonempty. Qed.

Lemma wal_last_segment_ok : forall k, ck_ends (k_open k) <> [] ->
  exists s l, wal_last_segment k = Ret (WOk s l).
Proof.
  intros k H. unfold wal_last_segment.
  destruct (ck_last_segment_nonempty _ H) as [[s l] Hs]. rewrite Hs. eexists. eexists. reflexivity.
Qed.

Lemma wal_last_segment_cases : forall k,
  wal_last_segment k = Panic \/ exists s l, wal_last_segment k = Ret (WOk s l).
Proof.
  intros k. unfold wal_last_segment. destruct (ck_last_segment (k_open k)) as [[s l]|].
  - right. eexists. eexists. reflexivity.
  - left. reflexivity.
Qed.

(* ------------------------------------------------------------------ sm_apply *)
Lemma sm_apply_snd : forall s r c seg,
  rs_validate (m_rs s) r = None -> snd (sm_apply s r c seg) = None.
Proof.
  intros s r c seg H. unfold sm_apply, rs_apply. rewrite H. destruct r; reflexivity.
Qed.

Lemma sm_apply_vote : forall s v c seg, rs_validate (m_rs s) (RVote v) = None ->
  fst (sm_apply s (RVote v) c seg) = mkSM (rs_set_vote (m_rs s) (Some v)) (m_log s) (m_cache s).
Proof. intros s v c seg H. unfold sm_apply, rs_apply. rewrite H. reflexivity. Qed.

Lemma sm_apply_commit : forall s id c seg, rs_validate (m_rs s) (RCommit id) = None ->
  fst (sm_apply s (RCommit id) c seg) = mkSM (rs_set_committed (m_rs s) (Some id)) (m_log s) (m_cache s).
Proof. intros s id c seg H. unfold sm_apply, rs_apply. rewrite H. reflexivity. Qed.

Lemma sm_apply_append : forall s id p c seg, rs_validate (m_rs s) (RAppend id p) = None ->
  fst (sm_apply s (RAppend id p) c seg) =
  mkSM (rs_set_last (m_rs s) (Some id))
       (lm_insert (lid_index id) (mkLD id c (fst seg) (snd seg)) (m_log s))
       (cache_insert (m_cache s) id p).
Proof. intros s id p c seg H. unfold sm_apply, rs_apply. rewrite H. reflexivity. Qed.

Lemma sm_apply_state : forall s st c seg,
  fst (sm_apply s (RState st) c seg) = mkSM st (m_log s) (m_cache s).
Proof. reflexivity. Qed.

Lemma sm_apply_trunc : forall s o c seg,
  fst (sm_apply s (RTrunc o) c seg) =
  mkSM (if opair_ltb o (r_last (m_rs s)) then rs_set_last (m_rs s) o else m_rs s)
       (lm_keep_lt (next_index o) (m_log s))
       (match o with
        | Some id => cache_truncate_after (m_cache s) id
        | None => cache_clear (m_cache s)
        end).
Proof. reflexivity. Qed.

Lemma sm_apply_purge : forall s id c seg,
  fst (sm_apply s (RPurge id) c seg) =
  mkSM (let s1 := if opair_ltb (r_purged (m_rs s)) (Some id) then rs_set_purged (m_rs s) (Some id) else m_rs s in
        if opair_ltb (r_last s1) (Some id) then rs_set_last s1 (Some id) else s1)
       (lm_keep_ge (next_index (Some id)) (m_log s))
       (cache_purge_upto (m_cache s) id).
Proof. reflexivity. Qed.

(* ------------------------------------------------------------------ try_close, append_and_apply *)
Lemma try_close_ok : forall k, ck_ends (k_open k) <> [] ->
  exists k' effs, try_close k = Ret (k', effs) /\ k_sm k' = k_sm k /\ ck_ends (k_open k') <> [].
Proof.
  intros k H. unfold try_close. destruct (is_full (k_cfg k) (k_open k)).
  - destruct (ck_last_segment_nonempty _ H) as [[s l] Hs]. rewrite Hs.
    eexists. eexists. split; [reflexivity|]. cbn [k_sm k_open]. split; [reflexivity|].
    apply ck_push_ends_nonempty.
  - exists k, []. split; [reflexivity|]. split; [reflexivity|exact H].
Qed.

Lemma aaa_limit : forall k r, index_limit r = true ->
  append_and_apply k r = Ret (k, WErr EIndexLimit, []).
Proof. intros k r H. unfold append_and_apply. rewrite H. reflexivity. Qed.

Lemma aaa_invalid : forall k r e, index_limit r = false -> rs_validate (m_rs (k_sm k)) r = Some e ->
  append_and_apply k r = Ret (k, WErr e, []).
Proof. intros k r e H1 H2. unfold append_and_apply. rewrite H1, H2. reflexivity. Qed.

(* the accepted case never panics, and its state machine is the one of sm_apply *)
Lemma aaa_ok : forall k r, index_limit r = false -> rs_validate (m_rs (k_sm k)) r = None ->
  exists k' off len effs c seg,
    append_and_apply k r = Ret (k', WOk off len, effs) /\
    k_sm k' = fst (sm_apply (k_sm k) r c seg) /\
    ck_ends (k_open k') <> [].
Proof.
  intros k r HL HV. unfold append_and_apply. rewrite HL, HV. cbv zeta.
  destruct (ck_last_segment_push (k_open k) (N.of_nat (length (enc_record r)))) as [seg Hseg].
  rewrite Hseg.
  pose proof (sm_apply_snd (k_sm k) r
                (ck_id (ck_push (k_open k) (N.of_nat (length (enc_record r))))) seg HV) as Hs.
  destruct (sm_apply (k_sm k) r (ck_id (ck_push (k_open k) (N.of_nat (length (enc_record r))))) seg)
    as [sm1 oe] eqn:E.
  cbn [snd] in Hs. subst oe.
  match goal with |- context [try_close ?K] =>
    destruct (try_close_ok K) as [k2 [effs [Ht [Hsm Hop]]]]
  end.
  - cbn [k_open]. apply ck_push_ends_nonempty.
  - rewrite Ht. exists k2, (fst seg), (snd seg), effs.
    exists (ck_id (ck_push (k_open k) (N.of_nat (length (enc_record r))))), seg.
    split; [reflexivity|]. split; [|exact Hop].
    rewrite Hsm. cbn [k_sm]. rewrite E. reflexivity.
Qed.

Lemma aaa_never_panics : forall k r, append_and_apply k r <> Panic.
Proof.
  intros k r H. destruct (index_limit r) eqn:HL.
  - rewrite (aaa_limit k r HL) in H. discriminate.
  - destruct (rs_validate (m_rs (k_sm k)) r) as [e|] eqn:HV.
    + rewrite (aaa_invalid k r e HL HV) in H. discriminate.
    + destruct (aaa_ok k r HL HV) as (k2 & off & len & ef & c & seg & Ha & _).
      rewrite Ha in H. discriminate.
Qed.

(* ------------------------------------------------------------------ C06 *)
Theorem C06_refused_record_no_trace : forall k r k' e effs,
  append_and_apply k r = Ret (k', WErr e, effs) -> k' = k /\ effs = [].
Proof.
  intros k r k' e effs H. destruct (index_limit r) eqn:HL.
  - rewrite (aaa_limit k r HL) in H. inversion H. split; reflexivity.
  - destruct (rs_validate (m_rs (k_sm k)) r) as [e0|] eqn:HV.
    + rewrite (aaa_invalid k r e0 HL HV) in H. inversion H. split; reflexivity.
    + destruct (aaa_ok k r HL HV) as (k2 & off & len & ef & c & seg & Ha & _).
      rewrite Ha in H. discriminate.
Qed.

Theorem C06_refused_write_no_trace : forall k w k' e effs,
  (match w with OAppend _ => False | _ => True end) ->
  do_write k w = Ret (k', WErr e, effs) -> k' = k /\ effs = [].
Proof.
  intros k w k' e effs Hw H. destruct w as [v|es|i|upto|id|u|st]; cbn [do_write] in H.
  - eapply C06_refused_record_no_trace. exact H.
  - contradiction.
  - destruct (N.eqb i (next_index (r_purged (m_rs (k_sm k))))).
    + eapply C06_refused_record_no_trace. exact H.
    + destruct (N.eqb i 0).
      * inversion H. split; reflexivity.
      * destruct (lm_get_id k (i - 1)) as [id|].
        -- eapply C06_refused_record_no_trace. exact H.
        -- inversion H. split; reflexivity.
  - destruct (N.ltb (lid_index upto) (next_index (r_purged (m_rs (k_sm k))))).
    + destruct (wal_last_segment k) as [w|]; [|discriminate]. inversion H. split; reflexivity.
    + destruct (append_and_apply k (RPurge upto)) as [[[k1 w1] ef]|] eqn:E; [|discriminate].
      destruct w1 as [off len|e1].
      * destruct (pop_obsolete upto (k_closed k1)) as [ids rest]. discriminate.
      * inversion H. subst. eapply C06_refused_record_no_trace. exact E.
  - eapply C06_refused_record_no_trace. exact H.
  - eapply C06_refused_record_no_trace. exact H.
  - eapply C06_refused_record_no_trace. exact H.
Qed.

Definition wres_ok (w : wres) : Prop := match w with WOk _ _ => True | WErr _ => False end.

Lemma do_append_refused_prefix : forall es k acc effs0 k' e effs,
  wres_ok acc ->
  do_append k es acc effs0 = Ret (k', WErr e, effs) ->
  exists es1 x es2, es = es1 ++ x :: es2 /\
    exists w1, do_append k es1 acc effs0 = Ret (k', w1, effs) /\ wres_ok w1.
Proof.
  intros es. induction es as [|[id p] r IH]; intros k acc effs0 k' e effs Hacc H.
  - cbn [do_append] in H. inversion H. subst. destruct Hacc.
  - cbn [do_append] in H.
    destruct (append_and_apply k (RAppend id p)) as [[[k1 w1] ef]|] eqn:E; [|discriminate].
    destruct w1 as [off len|e1].
    + destruct (IH k1 (WOk off len) (effs0 ++ ef) k' e effs I H)
        as (es1 & x & es2 & Hes & w1 & Hd & Hok).
      exists ((id, p) :: es1), x, es2. split; [rewrite Hes; reflexivity|].
      exists w1. split; [|exact Hok]. cbn [do_append]. rewrite E. exact Hd.
    + inversion H. subst.
      destruct (C06_refused_record_no_trace _ _ _ _ _ E) as [Hk Hef]. subst.
      exists [], (id, p), r. split; [reflexivity|].
      exists acc. split; [|exact Hacc]. cbn [do_append]. rewrite app_nil_r. reflexivity.
Qed.

Theorem C06_refused_append_prefix : forall k es k' e effs,
  do_write k (OAppend es) = Ret (k', WErr e, effs) ->
  exists es1 x es2, es = es1 ++ x :: es2 /\
    exists w1, do_write k (OAppend es1) = Ret (k', w1, effs) /\
               (match w1 with WOk _ _ => True | WErr _ => False end).
Proof.
  intros k es k' e effs H. cbn [do_write] in *.
  destruct (wal_last_segment_cases k) as [Hp|[s [l Hs]]].
  - rewrite Hp in H. discriminate.
  - rewrite Hs in *.
    destruct (do_append_refused_prefix es k (WOk s l) [] k' e effs I H)
      as (es1 & x & es2 & Hes & w1 & Hd & Hok).
    exists es1, x, es2. split; [exact Hes|]. exists w1. split; [exact Hd|]. exact Hok.
Qed.

(* ------------------------------------------------------------------ cache primitives *)
Definition clt (a b : logid * payload) : Prop := pair_cmp (fst a) (fst b) = Lt.

Lemma evict_loop_noop : forall c es sz,
  need_evict c (length es) sz = false -> evict_loop c es sz = (es, sz).
Proof.
  intros c es sz H. destruct es as [|[id p] r]; [reflexivity|].
  cbn [evict_loop]. rewrite H. reflexivity.
Qed.

Lemma ent_insert_end : forall k v es,
  (forall e, In e es -> pair_cmp (fst e) k = Lt) -> ent_insert k v es = es ++ [(k, v)].
Proof.
  intros k v es. induction es as [|[k' v'] r IH]; intros H; [reflexivity|].
  cbn [ent_insert app].
  assert (Hk : pair_cmp k k' = Gt).
  { rewrite (pair_cmp_opp k' k). pose proof (H (k', v') (or_introl eq_refl)) as Hx.
    cbn [fst] in Hx. rewrite Hx. reflexivity. }
  rewrite Hk. f_equal. apply IH. intros e He. apply H. right. exact He.
Qed.

Lemma ent_get_app_l : forall k es l p, ent_get k es = Some p -> ent_get k (es ++ l) = Some p.
Proof.
  intros k es l p. induction es as [|[k' v] r IH]; intros H; cbn in *; [discriminate|].
  destruct (pair_eqb k k'); [exact H|apply IH; exact H].
Qed.

Lemma ent_get_app_r : forall k es l,
  (forall e, In e es -> fst e <> k) -> ent_get k (es ++ l) = ent_get k l.
Proof.
  intros k es l. induction es as [|[k' v] r IH]; intros H; cbn [app ent_get]; [reflexivity|].
  assert (E : pair_eqb k k' = false).
  { apply pair_eqb_neq. intros E. apply (H (k', v) (or_introl eq_refl)). cbn. congruence. }
  rewrite E. apply IH. intros e He. apply H. right. exact He.
Qed.

Lemma ent_get_filter_key : forall (g : logid -> bool) k es,
  g k = true -> ent_get k (filter (fun e => g (fst e)) es) = ent_get k es.
Proof.
  intros g k es Hg. induction es as [|[k' v] r IH]; [reflexivity|].
  cbn [filter fst ent_get]. destruct (pair_eqb k k') eqn:E.
  - apply pair_eqb_eq in E. subst k'. rewrite Hg. cbn [ent_get]. rewrite pair_eqb_refl. reflexivity.
  - destruct (g k'); cbn [ent_get]; [rewrite E|]; exact IH.
Qed.

Lemma SS_rev : forall {A} (Rel : A -> A -> Prop) l,
  StronglySorted Rel l -> StronglySorted (fun a b => Rel b a) (rev l).
Proof.
  intros A Rel l. induction l as [|a l IH]; intros S; cbn [rev]; [constructor|].
  apply StronglySorted_inv in S. destruct S as [S F]. rewrite Forall_forall in F.
  apply SS_app_intro; [apply IH; exact S|apply SS_single|].
  intros x y Hx [Hy|[]]. subst y. apply F. apply in_rev. exact Hx.
Qed.

Lemma pop_last_loop_filter : forall key l sz,
  StronglySorted (fun a b => clt b a) l ->
  fst (pop_last_loop key l sz) = filter (fun e => negb (pair_ltb key (fst e))) l.
Proof.
  intros key l. induction l as [|[id p] r IH]; intros sz S; [reflexivity|].
  apply StronglySorted_inv in S. destruct S as [S F]. rewrite Forall_forall in F.
  cbn [pop_last_loop filter fst]. destruct (pair_ltb key id) eqn:E; cbn [negb].
  - apply IH. exact S.
  - cbn [fst]. f_equal. symmetry. apply filter_all_true. intros x Hx.
    cbv beta. apply negb_true_iff. apply pair_ltb_ge.
    apply pair_ltb_ge in E. specialize (F x Hx). unfold clt in F. cbn [fst] in F.
    assert (L : pair_cmp (fst x) key = Lt) by (eapply pair_cmp_lt_le_trans; eassumption).
    intros G. pose proof (eq_trans (eq_sym L) G) as X. discriminate X.
Qed.

Lemma pop_last_loop_size : forall key l sz, snd (pop_last_loop key l sz) <= sz.
Proof.
  intros key l. induction l as [|[id p] r IH]; intros sz; cbn [pop_last_loop snd]; [lia|].
  destruct (pair_ltb key id); cbn [snd]; [|lia].
  specialize (IH (sz - psize p)). lia.
Qed.

Lemma cache_truncate_after_entries : forall c key,
  StronglySorted clt (ch_entries c) ->
  ch_entries (cache_truncate_after c key) =
  filter (fun e => negb (pair_ltb key (fst e))) (ch_entries c).
Proof.
  intros c key S. unfold cache_truncate_after.
  pose proof (pop_last_loop_filter key (rev (ch_entries c)) (ch_size c) (SS_rev _ _ S)) as H.
  destruct (pop_last_loop key (rev (ch_entries c)) (ch_size c)) as [r sz].
  cbn [fst] in H. cbn [cache_with ch_entries]. rewrite H, filter_rev', rev_involutive. reflexivity.
Qed.

Lemma cache_truncate_after_meta : forall c key,
  ch_size (cache_truncate_after c key) <= ch_size c /\
  ch_max_items (cache_truncate_after c key) = ch_max_items c /\
  ch_capacity (cache_truncate_after c key) = ch_capacity c.
Proof.
  intros c key. unfold cache_truncate_after.
  pose proof (pop_last_loop_size key (rev (ch_entries c)) (ch_size c)) as H.
  destruct (pop_last_loop key (rev (ch_entries c)) (ch_size c)) as [r sz].
  cbn [snd] in H. cbn. split; [exact H|]. split; reflexivity.
Qed.

Lemma purge_loop_split : forall key b es sz es' sz',
  purge_loop key b es sz = (es', sz') ->
  exists es1, es = es1 ++ es' /\ (forall x, In x es1 -> pair_cmp (fst x) key <> Gt) /\ sz' <= sz.
Proof.
  intros key b es. induction es as [|[id p] r IH]; intros sz es' sz' H; cbn [purge_loop] in H.
  - inversion H. subst. exists []. split; [reflexivity|]. split; [intros x []|lia].
  - destruct (pair_leb id key && opair_leb (Some id) b) eqn:E.
    + destruct (IH _ _ _ H) as [es1 [H1 [H2 H3]]].
      exists ((id, p) :: es1). split; [rewrite H1; reflexivity|]. split; [|lia].
      intros x [Hx|Hx]; [|apply H2; exact Hx]. subst x. cbn [fst].
      apply andb_true_iff in E. destruct E as [E _]. apply pair_leb_le. exact E.
    + inversion H. subst. exists []. split; [reflexivity|]. split; [intros x []|lia].
Qed.

Lemma cache_purge_upto_split : forall c key,
  exists es1, ch_entries c = es1 ++ ch_entries (cache_purge_upto c key) /\
    (forall x, In x es1 -> pair_cmp (fst x) key <> Gt) /\
    ch_size (cache_purge_upto c key) <= ch_size c /\
    ch_max_items (cache_purge_upto c key) = ch_max_items c /\
    ch_capacity (cache_purge_upto c key) = ch_capacity c.
Proof.
  intros c key. unfold cache_purge_upto.
  destruct (purge_loop key (ch_evictable c) (ch_entries c) (ch_size c)) as [es sz] eqn:E.
  destruct (purge_loop_split _ _ _ _ _ _ E) as [es1 [H1 [H2 H3]]].
  exists es1. cbn. split; [exact H1|]. split; [exact H2|]. split; [exact H3|]. split; reflexivity.
Qed.

(* cache_insert of a key above every cached key, within the budget *)
Lemma cache_insert_end : forall c k v,
  (forall e, In e (ch_entries c) -> pair_cmp (fst e) k = Lt) ->
  N.of_nat (length (ch_entries c)) + 1 <= ch_max_items c ->
  ch_size c + psize v <= ch_capacity c ->
  cache_insert c k v = cache_with c (ch_size c + psize v) (ch_entries c ++ [(k, v)]).
Proof.
  intros c k v Hk Hn Hs. unfold cache_insert. rewrite (ent_insert_end k v _ Hk).
  rewrite evict_loop_noop; [reflexivity|].
  unfold need_evict. rewrite app_length. cbn [length].
  apply orb_false_iff. split; apply N.ltb_ge; [rewrite Nat2N.inj_add; exact Hn|exact Hs].
Qed.

(* ------------------------------------------------------------------ index map *)
Lemma lm_insert_end : forall k v m,
  (forall e, In e m -> fst e < k) -> lm_insert k v m = m ++ [(k, v)].
Proof.
  intros k v m. induction m as [|[k' v'] r IH]; intros H; [reflexivity|].
  cbn [lm_insert app].
  assert (Hk : N.compare k k' = Gt).
  { apply N.compare_gt_iff. apply (H (k', v') (or_introl eq_refl)). }
  rewrite Hk. f_equal. apply IH. intros e He. apply H. right. exact He.
Qed.

(* ------------------------------------------------------------------ effects, worker, reads *)
Lemma apply_effs_core : forall effs y, y_core (apply_effs y effs) = y_core y.
Proof.
  intros effs. unfold apply_effs. induction effs as [|e r IH]; intros y; cbn [fold_left]; [reflexivity|].
  rewrite IH. destruct e; reflexivity.
Qed.

Lemma do_read_core : forall k d from to,
  k_sm (fst (do_read k d from to)) = k_sm k /\ k_open (fst (do_read k d from to)) = k_open k.
Proof.
  intros k d from to. unfold do_read.
  destruct (read_items (m_cache (k_sm k)) (k_closed k) d
              (lm_range from (N.max to from) (m_log (k_sm k))) (k_hit k) (k_miss k)) as [[items h] ms].
  split; reflexivity.
Qed.

Lemma do_read_items : forall k d from to,
  snd (do_read k d from to) =
  fst (fst (read_items (m_cache (k_sm k)) (k_closed k) d
              (lm_range from (N.max to from) (m_log (k_sm k))) (k_hit k) (k_miss k))).
Proof.
  intros k d from to. unfold do_read.
  destruct (read_items (m_cache (k_sm k)) (k_closed k) d
              (lm_range from (N.max to from) (m_log (k_sm k))) (k_hit k) (k_miss k)) as [[items h] ms].
  reflexivity.
Qed.

Lemma do_dump_iter_items : forall k d,
  do_dump_iter k d =
  fst (fst (read_items (m_cache (k_sm k)) (k_closed k) d (m_log (k_sm k)) 0 0)).
Proof.
  intros k d. unfold do_dump_iter.
  destruct (read_items (m_cache (k_sm k)) (k_closed k) d (m_log (k_sm k)) 0 0) as [[items h] ms].
  reflexivity.
Qed.

(* a property of the caller state that ignores the cache's evictable boundary
   survives the worker *)
Lemma worker_step_core : forall (P : core -> Prop),
  (forall k b, P k -> P (core_with_cache k (cache_set_evictable (m_cache (k_sm k)) b))) ->
  forall y r, P (y_core y) -> P (y_core (worker_step y r)).
Proof.
  intros P HP y r H. destruct r as [upto data cb|off prev|ids]; cbn [worker_step].
  - destruct (rev (y_files y)) as [|newest older]; [exact H|]. cbn [y_core]. apply HP. exact H.
  - exact H.
  - exact H.
Qed.

Lemma worker_idle_core : forall (P : core -> Prop),
  (forall k b, P k -> P (core_with_cache k (cache_set_evictable (m_cache (k_sm k)) b))) ->
  forall y, P (y_core y) -> P (y_core (worker_idle y)).
Proof.
  intros P HP y H. unfold worker_idle.
  assert (G : forall q y0, P (y_core y0) -> P (y_core (fold_left worker_step q y0))).
  { intros q. induction q as [|r q IH]; intros y0 H0; cbn [fold_left]; [exact H0|].
    apply IH. apply worker_step_core; assumption. }
  apply G. exact H.
Qed.

(* ------------------------------------------------------------------ the fresh store *)
Lemma open_dir_nil : forall cfg,
  open_dir cfg [] =
  OpenOk (mkSys (mkCore cfg (sm_new cfg)
                        (ck_push (mkChunk 0 []) (N.of_nat (length (enc_record (RState rstate0)))))
                        [] [] [] 0 0 0)
                (disk_put (mkFile 0 (enc_record (RState rstate0)) 0) [])
                [] [mkWF 0 None] []).
Proof. intros cfg. reflexivity. Qed.
