(* Property C07: reads are independent of cache limits and worker progress.

   - C07_refuted: the property is false for the code (finding F2).
   - C07_reads_total_outside_known_refuted: the positive statement that only excludes
     appends at or below the boundary IN FORCE is false too (a boundary that is still
     pending installation is enough).
   - C07_reads_total_outside_known_partial: for every cache configuration (0 included)
     and every Raft-legal history in which no append is at or below a boundary in
     force or pending, every run ends in a state whose reads are exactly the reference
     log's. *)
From Coq Require Import List NArith Bool Lia Arith Sorted.
From Coq.Strings Require Import Byte.
From RaftLog Require Import Base.Bytes Base.Crc32 Model.Types Model.Codec Model.Cache Model.Core
  Model.Recover Model.Run Spec.Spec Spec.Hist.
From RaftLog Require Proofs.CacheFacts Proofs.NoPanic.
From RaftLog Require Import Proofs.CodecFacts Proofs.JournalDisk Proofs.JournalChunk Proofs.JournalFacts
  Proofs.PurgeFacts.
From RaftLog Require Import Proofs.OrderFacts Proofs.SmFacts Proofs.Refine Proofs.PurgeLive Proofs.ReadCache
  Proofs.ReadInv.
Import ListNotations.
Local Open Scope N_scope.
Local Arguments N.add : simpl never.
Local Arguments N.sub : simpl never.
Local Arguments N.mul : simpl never.
Local Arguments N.eqb : simpl never.
Local Arguments N.ltb : simpl never.
Local Arguments N.leb : simpl never.
Local Arguments N.compare : simpl never.
Local Arguments N.of_nat : simpl never.
Local Arguments enc_record : simpl never.

(* ================================================================== records other than Append *)
Lemma spec_step_incl : forall sp w sp', (forall id p, w <> SEntry id p) ->
  spec_step sp w = Some sp' -> incl (sp_entries sp') (sp_entries sp).
Proof.
  intros sp w sp' Hw H. destruct w as [v|id p|i|u|id|u]; cbn [spec_step] in H.
  - destruct (ovote_accepts (sp_vote sp) v); inversion H. apply incl_refl.
  - exfalso. apply (Hw id p). reflexivity.
  - destruct (N.eqb i (next_index (sp_purged sp)) || (negb (N.eqb i 0) && sp_has_index sp (i - 1)));
      inversion H. cbn [sp_entries]. intros x Hx. apply filter_In in Hx. apply Hx.
  - destruct (N.ltb (lid_index u) (next_index (sp_purged sp))); [inversion H; apply incl_refl|].
    destruct (N.eqb (lid_index u) U64MAX); inversion H.
    cbn [sp_entries]. intros x Hx. apply filter_In in Hx. apply Hx.
  - destruct (opair_leb (sp_committed sp) (Some id)); inversion H. apply incl_refl.
  - inversion H. apply incl_refl.
Qed.

Lemma I7_record_other : forall y sp r w k' res effs,
  I7 y sp -> wf_record r ->
  append_and_apply (y_core y) r = Ret (k', res, effs) ->
  step_sim0 (k_sm (y_core y)) sp r w ->
  step_sim7 (k_sm (y_core y)) sp r w (OnDisk y) ->
  (forall id p, r <> RAppend id p) -> (forall id p, w <> SEntry id p) ->
  I7 (apply_effs (with_core y k') effs) (fst (spec_one sp w)) /\
  res_agrees res (snd (spec_one sp w)).
Proof.
  intros y sp r w k' res effs HI Hr H HS0 HS7 Hnr Hnw.
  destruct (I7_record y sp r w k' res effs HI Hr H HS0 HS7) as (H1 & H2 & _); [|split; assumption].
  intros sp' Es. split.
  - intros i ld p0 _ Hp. apply (spec_step_incl sp w sp' Hnw Es). exact Hp.
  - intros id p Er. exfalso. apply (Hnr id p Er).
Qed.

(* ---- the simulation facts of the records written by do_write ---- *)
Lemma sims_trunc_purged : forall s sp Q, R0 s sp -> CIs s sp Q ->
  step_sim0 s sp (RTrunc (sp_purged sp)) (STruncate (next_index (sp_purged sp))) /\
  step_sim7 s sp (RTrunc (sp_purged sp)) (STruncate (next_index (sp_purged sp))) Q.
Proof.
  intros s sp Q HR HC. split.
  - unfold step_sim0. cbn [spec_step]. rewrite N.eqb_refl. cbn [orb].
    split; [reflexivity|]. split; [reflexivity|]. intros c seg.
    apply trunc_accept0; [exact HR|]. left. reflexivity.
  - unfold step_sim7. cbn [spec_step]. rewrite N.eqb_refl. cbn [orb]. intros c seg.
    apply CI_trunc; [exact HR|exact HC|]. left. reflexivity.
Qed.

Lemma sims_trunc_entry : forall s sp Q i (d : logdata) p, R0 s sp -> CIs s sp Q ->
  N.eqb i (next_index (sp_purged sp)) = false -> N.eqb i 0 = false ->
  In (ld_id d, p) (sp_entries sp) -> lid_index (ld_id d) = i - 1 ->
  step_sim0 s sp (RTrunc (Some (ld_id d))) (STruncate i) /\
  step_sim7 s sp (RTrunc (Some (ld_id d))) (STruncate i) Q.
Proof.
  intros s sp Q i d p HR HC E1 E2 Hin Hidx.
  assert (Hh : sp_has_index sp (i - 1) = true).
  { unfold sp_has_index. apply existsb_exists. exists (ld_id d, p).
    split; [exact Hin|]. cbn [fst]. apply N.eqb_eq. exact Hidx. }
  assert (Hi : i = next_index (Some (ld_id d))).
  { cbn [next_index]. apply N.eqb_neq in E2. lia. }
  split.
  - unfold step_sim0. cbn [spec_step]. rewrite E1, E2, Hh. cbn [orb negb andb].
    split; [reflexivity|]. split; [reflexivity|]. intros c seg.
    rewrite Hi. apply trunc_accept0; [exact HR|].
    right. exists (ld_id d), p. split; [reflexivity|exact Hin].
  - unfold step_sim7. cbn [spec_step]. rewrite E1, E2, Hh. cbn [orb negb andb]. intros c seg.
    rewrite Hi. apply CI_trunc; [exact HR|exact HC|].
    right. exists (ld_id d), p. split; [reflexivity|exact Hin].
Qed.

Lemma sims_purge : forall s sp Q u, R0 s sp -> CIs s sp Q ->
  N.ltb (lid_index u) (next_index (sp_purged sp)) = false -> purge_legal sp u = true ->
  step_sim0 s sp (RPurge u) (SPurge u) /\ step_sim7 s sp (RPurge u) (SPurge u) Q.
Proof.
  intros s sp Q u HR HC E1 Hleg.
  assert (Ho : (exists p, In (u, p) (sp_entries sp)) \/
               (opair_cmp (sp_last sp) (Some u) = Lt /\ forall l, sp_last sp = Some l -> lid_index l < lid_index u)).
  { unfold purge_legal in Hleg. rewrite E1 in Hleg. cbn [orb] in Hleg.
    apply orb_true_iff in Hleg. destruct Hleg as [Hl|Hl].
    + left. apply existsb_exists in Hl. destruct Hl as [[id p] [Hin He]].
      cbn [fst] in He. apply pair_eqb_eq in He. subst id. exists p. exact Hin.
    + right. apply andb_true_iff in Hl. destruct Hl as [H1 H2].
      split; [apply opair_ltb_lt; exact H1|]. intros l Hl. rewrite Hl in H2.
      apply N.ltb_lt. exact H2. }
  split.
  - unfold step_sim0. cbn [spec_step index_limit]. rewrite E1.
    destruct (N.eqb (lid_index u) U64MAX) eqn:E2.
    + left. reflexivity.
    + split; [reflexivity|]. split; [reflexivity|]. intros c seg.
      apply purge_accept0; [exact HR|exact Ho].
  - unfold step_sim7. cbn [spec_step]. rewrite E1.
    destruct (N.eqb (lid_index u) U64MAX) eqn:E2; [exact I|]. intros c seg.
    apply CI_purge; [exact HR|exact HC|exact Ho].
Qed.

(* ================================================================== purge: dropping closed chunks *)
Lemma I7_popped : forall y1 sp1 u rm rest, I7 y1 sp1 ->
  opair_cmp (Some u) (sp_purged sp1) <> Gt ->
  pop_obsolete u (k_closed (y_core y1)) = (rm, rest) ->
  I7 (with_core y1 (purged_core (y_core y1) rm rest)) sp1.
Proof.
  intros y1 sp1 u rm rest [(HR & HJ & Hk) JW HPL HC HEB HML] Hu Ep.
  constructor.
  - cbn [with_core y_core]. split; [exact HR|]. split.
    + apply (J_pop (y_core y1) sp1 u rm rest HJ Hk HR Hu Ep).
    + destruct (pop_obsolete_split _ _ _ _ Ep) as (popped & P1 & _).
      destruct Hk as [Ho S]. split; [exact Ho|]. unfold tail_ids in *. cbn [purged_core k_closed k_open].
      rewrite P1, map_app, <- app_assoc in S. apply ss_suffix in S. exact S.
  - apply (jw_purged y1 u rm rest JW Ep).
  - assert (El : logical (with_core y1 (purged_core (y_core y1) rm rest)) = logical y1).
    { rewrite !logical_eq. reflexivity. }
    intros i ld p Hl Hp Hin. rewrite El in *. apply (HPL i ld p Hl Hp Hin).
  - exact HC.
  - exact HEB.
  - exact HML.
Qed.

(* ================================================================== the append loop *)
Definition HB (y : sys) (es : list (logid * payload)) : Prop :=
  forall b, In b (bounds y) ->
    (forall e, In e es -> opair_cmp b (Some (fst e)) = Lt) \/
    opair_cmp b (r_last (m_rs (k_sm (y_core y)))) <> Gt.

Lemma validate_last_lt : forall rs (id : logid) p, rs_validate rs (RAppend id p) = None ->
  opair_cmp (r_last rs) (Some id) = Lt.
Proof.
  intros rs id p H. apply entry_validate in H. apply andb_true_iff in H. destruct H as [H _].
  apply opair_ltb_lt. exact H.
Qed.

Lemma HB_above : forall y (id : logid) p es, HB y ((id, p) :: es) ->
  rs_validate (m_rs (k_sm (y_core y))) (RAppend id p) = None -> above y id.
Proof.
  intros y id p es H Hv b Hb. destruct (H b Hb) as [H1|H1].
  - apply (H1 (id, p)). left. reflexivity.
  - eapply opair_le_lt_trans; [exact H1|]. eapply validate_last_lt. exact Hv.
Qed.

Lemma I7_do_append : forall es y sp acc effs0 k' r effs,
  I7 y sp -> Forall (fun e => wf_pair (fst e) /\ wf_bytes (snd e)) es -> HB y es ->
  do_append (y_core y) es acc effs0 = Ret (k', r, effs) ->
  exists effs1, effs = effs0 ++ effs1 /\
    I7 (apply_effs (with_core y k') effs1) (fst (spec_append sp es)).
Proof.
  intros es. induction es as [|[id p] es IH]; intros y sp acc effs0 k' r effs HI Hwf HBy H.
  - cbn [do_append] in H. inversion H; subst. exists []. rewrite app_nil_r. split; [reflexivity|].
    cbn [apply_effs fold_left spec_append fst]. rewrite with_core_self. exact HI.
  - inversion Hwf as [|? ? Hw1 Hw2]; subst. cbn [fst snd] in Hw1.
    cbn [do_append] in H.
    destruct (append_and_apply (y_core y) (RAppend id p)) as [[[k1 w1] ef]|] eqn:E; [|discriminate H].
    pose proof HI as [(HR & HJ & Hk) JW HPL HC HEB HML].
    assert (Hab : rs_validate (m_rs (k_sm (y_core y))) (RAppend id p) = None -> above y id).
    { apply (HB_above y id p es HBy). }
    assert (HS7 : step_sim7 (k_sm (y_core y)) sp (RAppend id p) (SEntry id p) (OnDisk y)).
    { apply sim7_entry; [exact HR|exact HC|]. intros Hv. apply opair_ltb_lt.
      apply (Hab Hv). unfold bounds. left. reflexivity. }
    destruct (I7_record y sp (RAppend id p) (SEntry id p) k1 w1 ef HI Hw1 E
                (core_entry0 _ _ id p HR) HS7) as (HI1 & Hag & Hb1).
    { intros sp' Es. cbn [spec_step] in Es. revert Es.
      destruct (opair_ltb (sp_last sp) _) eqn:E1; cbn [andb]; [|intros Es; discriminate Es].
      destruct (match sp_last sp with Some l => N.eqb (lid_index id) (lid_index l + 1) | None => true end);
        cbn [andb]; [|intros Es; discriminate Es].
      destruct (negb (N.eqb (lid_index id) U64MAX)); intros Es; [|discriminate Es].
      inversion Es. subst sp'. clear Es. cbn [sp_entries].
      apply opair_ltb_lt in E1.
      assert (Hfresh : forall e, In e (sp_entries sp) -> fst e <> id).
      { intros e He Ee. destruct (entry_le_last0 _ sp e HR He) as [l [Hl [H1 _]]].
        rewrite Hl in E1. cbn [opair_cmp] in E1. rewrite Ee in H1.
        apply H1. rewrite (pair_cmp_opp l id), E1. reflexivity. }
      split.
      - intros i ld p0 Hl Hp. apply in_app_or in Hp. destruct Hp as [Hp|[Hp|[]]]; [exact Hp|].
        exfalso. inversion Hp as [[H1 H2]].
        destruct (log_key_in0 _ sp (i, ld) HR Hl) as [b [Hb [_ Hid]]]. cbn [snd] in Hid.
        apply (Hfresh b Hb). rewrite <- Hid. symmetry. exact H1.
      - intros id' p' Er. inversion Er. subst id' p'. split; [|exact Hab].
        intros p0 Hp. apply in_app_or in Hp. destruct Hp as [Hp|[Hp|[]]].
        + exfalso. apply (Hfresh _ Hp). reflexivity.
        + inversion Hp. reflexivity. }
    set (y1 := apply_effs (with_core y k1) ef) in *.
    assert (Hcore : y_core y1 = k1) by (unfold y1; rewrite apply_effs_core; reflexivity).
    unfold spec_one in HI1, Hag. cbn [spec_append].
    destruct (spec_step sp (SEntry id p)) as [sp1|] eqn:Es; cbn [fst snd] in HI1, Hag.
    + destruct w1 as [off len|e]; [|discriminate Hag].
      assert (Hlast : r_last (m_rs (k_sm (y_core y1))) = Some id).
      { destruct HI1 as [(HR1 & _) _ _ _ _ _]. rewrite (R0_rs _ _ HR1). cbn [spec_state r_last].
        cbn [spec_step] in Es. revert Es.
        match goal with |- (if ?c then _ else _) = _ -> _ => destruct c end; intros Es; [|discriminate Es].
        inversion Es. rewrite sp_last_olast. cbn [sp_entries]. rewrite olast_snoc. reflexivity. }
      assert (Hv : rs_validate (m_rs (k_sm (y_core y))) (RAppend id p) = None).
      { apply append_and_apply_cases in E as [(_ & _ & e & He)|(sm1 & Hv & _)]; [discriminate He|exact Hv]. }
      rewrite <- Hcore in H.
      destruct (IH y1 sp1 (WOk off len) (effs0 ++ ef) k' r effs HI1 Hw2) as (effs2 & E2 & HI2); [|exact H|].
      * intros b Hb. destruct (Hb1 b Hb) as [Hb0|Hb0].
        -- destruct (HBy b Hb0) as [H1|H1].
           ++ left. intros e He. apply H1. right. exact He.
           ++ right. rewrite Hlast. apply opair_lt_le. eapply opair_le_lt_trans; [exact H1|].
              eapply validate_last_lt. exact Hv.
        -- right. rewrite Hcore. rewrite Hb0. apply opair_eq_le.
      * exists (ef ++ effs2). split; [rewrite E2, app_assoc; reflexivity|].
        unfold y1 in HI2. rewrite apply_effs_app, !apply_effs_with_core.
        rewrite !apply_effs_with_core in HI2. exact HI2.
    + destruct w1 as [off len|e]; [discriminate Hag|].
      inversion H; subst k' r effs. exists ef. split; [reflexivity|exact HI1].
Qed.

(* ================================================================== one write call *)
Definition append_above_bounds (y : sys) (w : wop) : bool :=
  match w with
  | OAppend es => forallb (fun e => forallb (fun b => opair_ltb b (Some (fst e))) (bounds y)) es
  | _ => true
  end.

Lemma I7_do_write : forall y sp w k' r effs,
  I7 y sp -> wop_wf w -> wop_legal sp w = true -> append_above_bounds y w = true ->
  do_write (y_core y) w = Ret (k', r, effs) ->
  I7 (apply_effs (with_core y k') effs) (fst (spec_wop sp w)).
Proof.
  intros y sp w k' r effs HI Hw Hleg Hab H.
  pose proof HI as [(HR & HJ & Hk) JW HPL HC HEB HML].
  pose proof (jw_inv _ JW) as Jv.
  pose proof (ji_rs _ _ _ Jv) as (Wv & Wl & Wc & Wp & Wu).
  destruct w as [v|es|i|u|id|u|st]; cbn [do_write spec_wop wop_wf] in *.
  - refine (proj1 (I7_record_other y sp (RVote v) (SVote v) k' r effs HI Hw H
                     (core_vote0 _ _ v HR) (sim7_vote _ _ v _ HC) _ _)); intros; discriminate.
  - destruct (wal_last_segment (y_core y)) as [w0|]; [|discriminate H].
    destruct (I7_do_append es y sp w0 [] k' r effs HI Hw) as (effs1 & E1 & HI1); [|exact H|].
    + intros b Hb. left. intros e He. cbn [append_above_bounds] in Hab.
      rewrite forallb_forall in Hab. specialize (Hab e He). rewrite forallb_forall in Hab.
      apply opair_ltb_lt. apply (Hab b Hb).
    + cbn [app] in E1. subst effs1. exact HI1.
  - assert (HP : r_purged (m_rs (k_sm (y_core y))) = sp_purged sp) by (rewrite (R0_rs _ _ HR); reflexivity).
    rewrite HP in H.
    destruct (N.eqb i (next_index (sp_purged sp))) eqn:E1.
    + apply N.eqb_eq in E1. subst i.
      destruct (sims_trunc_purged _ sp (OnDisk y) HR HC) as [S0 S7].
      assert (Hwr : wf_record (RTrunc (sp_purged sp))) by (cbn [wf_record]; rewrite <- HP; exact Wp).
      refine (proj1 (I7_record_other y sp _ _ k' r effs HI Hwr H S0 S7 _ _)); intros; discriminate.
    + destruct (N.eqb i 0) eqn:E2.
      * inversion H; subst. unfold spec_one. cbn [spec_step]. rewrite E1, E2. cbn [orb negb andb fst].
        cbn [apply_effs fold_left]. rewrite with_core_self. exact HI.
      * pose proof (lm_get_rel (m_log (k_sm (y_core y))) (sp_entries sp) (i - 1) (R0_log _ _ HR)) as HG.
        unfold lm_get_id in H. destruct (lm_get (i - 1) (m_log (k_sm (y_core y)))) as [d|] eqn:El.
        -- destruct HG as [p [Hin Hidx]].
           destruct (sims_trunc_entry _ sp (OnDisk y) i d p HR HC E1 E2 Hin Hidx) as [S0 S7].
           assert (Hwr : wf_record (RTrunc (Some (ld_id d)))).
           { cbn [wf_record wf_opt]. apply lm_get_In in El.
             pose proof (ji_log _ _ _ Jv) as HL. rewrite Forall_forall in HL.
             destruct (HL _ El) as (Wd & _). exact Wd. }
           refine (proj1 (I7_record_other y sp _ _ k' r effs HI Hwr H S0 S7 _ _)); intros; discriminate.
        -- inversion H; subst. unfold spec_one. cbn [spec_step]. rewrite E1, E2. cbn [orb negb andb].
           unfold sp_has_index. rewrite HG. cbn [fst].
           cbn [apply_effs fold_left]. rewrite with_core_self. exact HI.
  - cbn [wop_legal] in Hleg.
    assert (HP : r_purged (m_rs (k_sm (y_core y))) = sp_purged sp) by (rewrite (R0_rs _ _ HR); reflexivity).
    rewrite HP in H.
    destruct (N.ltb (lid_index u) (next_index (sp_purged sp))) eqn:E1.
    + destruct (wal_last_segment (y_core y)); [|discriminate H]. inversion H; subst.
      unfold spec_one. cbn [spec_step]. rewrite E1. cbn [fst].
      cbn [apply_effs fold_left]. rewrite with_core_self. exact HI.
    + destruct (sims_purge _ sp (OnDisk y) u HR HC E1 Hleg) as [S0 S7].
      destruct (append_and_apply (y_core y) (RPurge u)) as [[[k1 res] ef]|] eqn:Ea; [|discriminate H].
      destruct (I7_record_other y sp (RPurge u) (SPurge u) k1 res ef HI Hw Ea S0 S7) as [HI1 Hag];
        try (intros; discriminate).
      destruct res as [off len|e].
      * destruct (pop_obsolete u (k_closed k1)) as [rm rest] eqn:Ep. inversion H; subst k' r effs. clear H.
        unfold spec_one in HI1, Hag |- *. cbn [spec_step] in HI1, Hag |- *. rewrite E1 in HI1, Hag |- *.
        destruct (N.eqb (lid_index u) U64MAX) eqn:E2; [discriminate Hag|]. cbn [fst] in HI1 |- *.
        set (y1 := apply_effs (with_core y k1) ef) in *.
        assert (Hcore : y_core y1 = k1) by (unfold y1; rewrite apply_effs_core; reflexivity).
        rewrite <- Hcore in Ep.
        pose proof (I7_popped y1 _ u rm rest HI1) as HI2. cbn [sp_purged] in HI2.
        assert (Hu : opair_cmp (Some u)
                       (if opair_ltb (sp_purged sp) (Some u) then Some u else sp_purged sp) <> Gt).
        { destruct (opair_ltb (sp_purged sp) (Some u)) eqn:E3.
          - apply opair_eq_le.
          - apply opair_ltb_ge in E3. exact E3. }
        specialize (HI2 Hu Ep). rewrite Hcore in HI2. unfold y1 in HI2.
        rewrite apply_effs_with_core.
        rewrite apply_effs_with_core in HI2. exact HI2.
      * inversion H; subst. exact HI1.
  - refine (proj1 (I7_record_other y sp (RCommit id) (SCommit id) k' r effs HI Hw H
                     (core_commit0 _ _ id HR) (sim7_commit _ _ id _ HC) _ _)); intros; discriminate.
  - assert (Hwr : wf_record (RState (rs_set_user (m_rs (k_sm (y_core y))) u))).
    { cbn [wf_record]. unfold wf_rstate. cbn. tauto. }
    refine (proj1 (I7_record_other y sp _ (SUser u) k' r effs HI Hwr H
                     (core_user0 _ _ u HR) (sim7_user _ _ _ u _ HC) _ _)); intros; discriminate.
  - discriminate Hleg.
Qed.

(* ================================================================== flush *)
Lemma flush_sys : forall y cb,
  let y' := apply_effs (with_core y (fst (do_flush (y_core y) cb))) (snd (do_flush (y_core y) cb)) in
  y_disk y' = y_disk y /\ y_files y' = y_files y /\
  flat_map req_fb (y_queue y') = flat_map req_fb (y_queue y) /\
  k_sm (y_core y') = k_sm (y_core y) /\ k_open (y_core y') = k_open (y_core y) /\
  k_closed (y_core y') = k_closed (y_core y).
Proof.
  intros y cb y'. unfold y'. rewrite apply_effs_core. unfold do_flush. cbn [fst snd].
  destruct (k_removed (y_core y)) as [|a l];
    cbn [apply_effs fold_left apply_eff with_core y_core y_disk y_files y_queue y_acks k_sm k_open k_closed];
    rewrite ?flat_map_app; cbn [flat_map req_fb app]; rewrite ?app_nil_r; repeat split; reflexivity.
Qed.

(* the journal invariant after a flush, together with what happened to the logical files
   (the proof is that of JournalFacts.jw_flush, keeping the description of the files) *)
Lemma jw_flush_fb : forall y cb, journal_wf y ->
  let y' := apply_effs (with_core y (fst (do_flush (y_core y) cb))) (snd (do_flush (y_core y) cb)) in
  journal_wf y' /\
  forall j, In j (ids (logical y')) ->
    In j (ids (logical y)) /\ file_bytes (logical y') j = file_bytes (logical y) j.
Proof.
  intros y cb JW.
  pose proof (jw_inv _ JW) as J.
  pose proof (jw_FD_sorted _ JW) as SFD.
  pose proof (jw_ids_FD _ JW) as EFD.
  pose proof (jw_open_in_FD _ JW) as IoFD.
  destruct (jw_newest _ JW) as (older & pl & Enew).
  remember (y_core y) as k eqn:Ek.
  remember (ck_id (k_open k)) as o eqn:Eo.
  remember (k_removed k) as rm eqn:Erm.
  remember (fst (wfinal y)) as FD eqn:EFDdef.
  assert (Ewf : wfinal y = (FD, older ++ [mkWF o pl])).
  { rewrite (surjective_pairing (wfinal y)), <- EFDdef, Enew. reflexivity. }
  remember (if cb then Some (k_next_cb k) else None) as cbo eqn:Ecbo.
  remember (if cb then k_next_cb k + 1 else k_next_cb k) as cbn eqn:Ecbn.
  remember (WWrite (ck_end (k_open k)) (k_pending k) cbo) as W eqn:EW.
  destruct (wstep_write older (mkWF o pl) FD (ck_end (k_open k)) (k_pending k) cbo SFD)
    as (W1 & W2 & W3 & W4 & W5).
  cbn [wf_id] in W4, W5. specialize (W4 IoFD). rewrite <- EW in *.
  remember (wstep (FD, older ++ [mkWF o pl]) W) as s1 eqn:Es1.
  assert (Hrm_lt : forall j, In j rm -> j < o).
  { intros j Ij. subst rm o. apply (ji_removed_lt _ _ _ J). assumption. }
  assert (Edo : do_flush k cb = (flushed_core k cbn, flush_effs W rm)).
  { unfold do_flush, flush_effs, flushed_core. subst. destruct (k_removed (y_core y)); reflexivity. }
  rewrite Edo. cbn [fst snd].
  remember (apply_effs (with_core y (flushed_core k cbn)) (flush_effs W rm)) as y' eqn:Ey'.
  assert (Ew : wfinal y' = (remove_all rm (fst s1), [mkWF o pl])).
  { subst y'. rewrite wfinal_flush, Ewf, <- Es1, W1. reflexivity. }
  destruct (flush_effs_sys y (flushed_core k cbn) W rm) as (Edisk & Efiles & Ement).
  rewrite <- Ey' in Edisk, Efiles, Ement.
  assert (Ecore : y_core y' = flushed_core k cbn).
  { subst y'. rewrite apply_effs_core. reflexivity. }
  assert (Eopen' : ck_id (k_open (y_core y')) = o) by (rewrite Ecore; subst o; reflexivity).
  assert (Hsort : StronglySorted N.lt (rm ++ closed_ids k ++ [o])).
  { pose proof (ji_sorted _ _ _ J) as S. rewrite (ji_ids _ _ _ J) in S.
    unfold chunk_ids in S. subst rm o. exact S. }
  assert (Eids' : ids (remove_all rm (fst s1)) = closed_ids k ++ [o]).
  { rewrite ids_remove_all, W2, <- EFD, (ji_ids _ _ _ J). unfold chunk_ids.
    rewrite <- Erm, <- Eo. apply filter_notmem_app. exact Hsort. }
  assert (Hnot : forall j, In j (closed_ids k ++ [o]) -> mem j rm = false).
  { intros j Ij. apply mem_false. intros I.
    apply ss_app_inv in Hsort as (_ & _ & S). specialize (S _ _ I Ij). lia. }
  set (fb' := fun j => if mem j rm then [] else file_bytes (logical y) j).
  destruct (jw_build y' (closed_ids k ++ [o]) fb') as (JW' & Hids' & Hfb').
  - rewrite Edisk. apply (jw_sorted _ JW).
  - rewrite Eopen', Ew. simpl. rewrite Eids'. apply in_app_iff. right. left. reflexivity.
  - rewrite Eopen', Ew. simpl. exists [], pl. reflexivity.
  - rewrite Eopen', Ement. apply Forall_app. split.
    + pose proof (jw_bound _ JW) as HB. rewrite <- Ek, <- Eo in HB. exact HB.
    + subst W. simpl. rewrite Forall_forall. intros j Ij. specialize (Hrm_lt _ Ij). lia.
  - rewrite Ew. simpl. symmetry. exact Eids'.
  - rewrite Ecore, Eo. apply jinv_flush with (idl := ids (logical y)) (fb := file_bytes (logical y)); [exact J|].
    rewrite <- Eo. intros j Ij. unfold fb'. rewrite (Hnot j Ij). reflexivity.
  - rewrite Eopen', Ecore, Ew. simpl. rewrite app_nil_r. unfold fb'.
    rewrite fb_remove_all.
    rewrite (Hnot o) by (apply in_app_iff; right; left; reflexivity).
    rewrite W4. subst o k FD. apply (jw_fb_open _ JW).
  - rewrite Eopen', Ew. simpl. intros j Hj. unfold fb'. rewrite fb_remove_all.
    destruct (mem j rm); [reflexivity|]. rewrite W5 by assumption.
    subst o k FD. apply (jw_fb_other y j). assumption.
  - split; [exact JW'|]. intros j Ij. rewrite Hids' in Ij. split.
    + rewrite (ji_ids _ _ _ J). unfold chunk_ids. rewrite <- Eo. apply in_or_app. right. exact Ij.
    + rewrite Hfb'. unfold fb'. rewrite (Hnot j Ij). reflexivity.
Qed.

Lemma I7_flush : forall y sp cb, I7 y sp ->
  I7 (apply_effs (with_core y (fst (do_flush (y_core y) cb))) (snd (do_flush (y_core y) cb))) sp.
Proof.
  intros y sp cb [(HR & HJ & Hk) JW HPL HC HEB HML].
  destruct (jw_flush_fb y cb JW) as [JW' Hfb]. cbv zeta in JW', Hfb.
  destruct (flush_sys y cb) as (Ed & Ef & Eq & Esm & Eo & Ecl). cbv zeta in Ed, Ef, Eq, Esm, Eo, Ecl.
  set (y' := apply_effs (with_core y (fst (do_flush (y_core y) cb))) (snd (do_flush (y_core y) cb))) in *.
  assert (Ecore : y_core y' = fst (do_flush (y_core y) cb)).
  { unfold y'. rewrite apply_effs_core. reflexivity. }
  constructor.
  - rewrite Ecore. destruct (do_flush (y_core y) cb) as [k1 effs1] eqn:Edo. cbn [fst].
    destruct (do_flush_ok _ _ _ _ Hk Edo) as (Hk' & Ht & _).
    unfold do_flush in Edo. inversion Edo; subst k1 effs1; clear Edo.
    split; [exact HR|]. split; [|exact Hk'].
    destruct HJ as [J1 J2].
    constructor; cbn [k_sm k_closed]; [intros e He; rewrite Ht; apply J1; exact He|exact J2].
  - exact JW'.
  - intros i ld p Hl Hp Hin. rewrite Esm in Hl. destruct (Hfb _ Hin) as [Hin0 Ebytes].
    rewrite Ebytes. apply (HPL i ld p Hl Hp Hin0).
  - rewrite Esm. eapply CI_mono; [exact HC|].
    intros i ld _ [H1 H2]. split; [rewrite Eo; exact H1|rewrite Ed; exact H2].
  - assert (Hb : fbounds y' = fbounds y) by (apply fbounds_same; [exact Ef|exact Eq]).
    intros fid b i ld p Hbb Hl Hp Hle. rewrite Esm in Hl. rewrite Hb in Hbb.
    apply (HEB fid b i ld p Hbb Hl Hp Hle).
  - rewrite (fbounds_same y y' Ef Eq). exact HML.
Qed.

(* ================================================================== changes of the core that leave the journal alone *)
Lemma I7_core : forall y sp k',
  I7 y sp -> core_eqj (y_core y) k' ->
  ch_evictable (m_cache (k_sm k')) = ch_evictable (m_cache (k_sm (y_core y))) ->
  CIs (k_sm k') sp (OnDisk y) ->
  I7 (with_core y k') sp.
Proof.
  intros y sp k' [HK JW HPL HC HEB HML] Ec Hev HC'.
  pose proof Ec as (E1 & E2 & E3 & E4 & E5 & E6 & E7).
  constructor.
  - cbn [with_core y_core]. apply (KInv_eqj _ _ _ Ec HK).
  - apply jw_with_core; assumption.
  - assert (El : logical (with_core y k') = logical y).
    { apply logical_core_eqj; [reflexivity|exact Ec]. }
    intros i ld p Hl Hp Hin. cbn [with_core y_core] in Hl. rewrite E7 in Hl. rewrite El in *.
    apply (HPL i ld p Hl Hp Hin).
  - cbn [with_core y_core]. eapply CI_mono; [exact HC'|].
    intros i ld _ [H1 H2]. split; [cbn [with_core y_core]; rewrite E2; exact H1|exact H2].
  - intros fid b i ld p Hbb Hl Hp Hle. cbn [with_core y_core] in Hl. rewrite E7 in Hl.
    change (fbounds (with_core y k')) with (fbounds y) in Hbb.
    apply (HEB fid b i ld p Hbb Hl Hp Hle).
  - exact HML.
Qed.

(* ================================================================== the worker *)
Definition hfb (y : sys) : list (N * option logid) := map wf_fb (y_files y).
Definition evb (y : sys) : option logid := ch_evictable (m_cache (k_sm (y_core y))).

Lemma hfb_step : forall y r x, In x (hfb (worker_step y r)) -> In x (hfb y) \/ In x (req_fb r).
Proof.
  intros y r x Hx. unfold hfb in *. destruct r as [upto data cb|off prev|rm]; cbn [worker_step] in Hx.
  - destruct (rev (y_files y)) as [|newest older] eqn:Er; [left; exact Hx|].
    cbn [y_files map] in Hx.
    assert (Hn : In newest (y_files y)) by (apply in_rev; rewrite Er; left; reflexivity).
    left. destruct Hx as [Hx|[]]. subst x. apply in_map. exact Hn.
  - cbn [y_files] in Hx. rewrite map_app in Hx. cbn [map] in Hx.
    apply in_app_or in Hx. destruct Hx as [Hx|Hx]; [left; exact Hx|right; exact Hx].
  - left. exact Hx.
Qed.

Lemma evb_step : forall y r, evb (worker_step y r) = evb y \/ exists fid, In (fid, evb (worker_step y r)) (hfb y).
Proof.
  intros y r. unfold evb, hfb. destruct r as [upto data cb|off prev|rm]; cbn [worker_step];
    try (left; reflexivity).
  destruct (rev (y_files y)) as [|newest older] eqn:Er; [left; reflexivity|].
  cbn [y_core core_with_cache core_with_sm k_sm m_cache cache_set_evictable ch_evictable].
  right. exists (wf_id newest).
  assert (Hn : In newest (y_files y)) by (apply in_rev; rewrite Er; left; reflexivity).
  apply in_map_iff. exists newest. split; [reflexivity|exact Hn].
Qed.

Lemma fold_bounds : forall q y,
  (forall x, In x (hfb (fold_left worker_step q y)) -> In x (hfb y ++ flat_map req_fb q)) /\
  (evb (fold_left worker_step q y) = evb y \/
   exists fid, In (fid, evb (fold_left worker_step q y)) (hfb y ++ flat_map req_fb q)).
Proof.
  intros q. induction q as [|r q IH]; intros y; cbn [fold_left flat_map].
  - rewrite app_nil_r. split; [intros x Hx; exact Hx|left; reflexivity].
  - destruct (IH (worker_step y r)) as [IH1 IH2].
    assert (Hsub : forall x, In x (hfb (worker_step y r) ++ flat_map req_fb q) ->
              In x (hfb y ++ req_fb r ++ flat_map req_fb q)).
    { intros x Hx. apply in_app_or in Hx. apply in_or_app. destruct Hx as [Hx|Hx].
      - apply hfb_step in Hx. destruct Hx as [Hx|Hx]; [left; exact Hx|right; apply in_or_app; left; exact Hx].
      - right. apply in_or_app. right. exact Hx. }
    split.
    + intros x Hx. apply Hsub. apply IH1. exact Hx.
    + destruct IH2 as [IH2|[fid IH2]].
      * rewrite IH2. destruct (evb_step y r) as [E|[fid E]]; [left; exact E|right].
        exists fid. apply in_or_app. left. exact E.
      * right. exists fid. apply Hsub. exact IH2.
Qed.

Lemma idle_bounds : forall y,
  (forall x, In x (fbounds (worker_idle y)) -> In x (fbounds y)) /\
  (evb (worker_idle y) = evb y \/ exists fid, In (fid, evb (worker_idle y)) (fbounds y)).
Proof.
  intros y. unfold fbounds at 1. rewrite worker_idle_queue. cbn [flat_map]. 
  unfold worker_idle.
  destruct (fold_bounds (y_queue y) (mkSys (y_core y) (y_disk y) [] (y_files y) (y_acks y))) as [H1 H2].
  split.
  - intros x Hx. rewrite app_nil_r in Hx. apply (H1 x Hx).
  - exact H2.
Qed.

Lemma fold_sorted : forall q y,
  StronglySorted N.lt (map fst (hfb y ++ flat_map req_fb q)) ->
  StronglySorted N.lt (map fst (hfb (fold_left worker_step q y))).
Proof.
  intros q. induction q as [|r q IH]; intros y H; cbn [fold_left flat_map] in *.
  - rewrite app_nil_r in H. exact H.
  - apply IH. unfold hfb in *. destruct r as [upto data cb|off prev|rm]; cbn [worker_step req_fb app] in *.
    + destruct (rev (y_files y)) as [|newest older] eqn:Er; [exact H|].
      cbn [y_files map].
      assert (Ef : y_files y = rev older ++ [newest]).
      { rewrite <- (rev_involutive (y_files y)), Er. reflexivity. }
      rewrite Ef in H. rewrite (map_app wf_fb) in H. rewrite <- app_assoc in H.
      rewrite (map_app fst) in H. apply ss_suffix in H. exact H.
    + cbn [y_files]. rewrite (map_app wf_fb), <- app_assoc. exact H.
    + exact H.
Qed.

Lemma idle_sorted : forall y, StronglySorted N.lt (map fst (fbounds y)) ->
  StronglySorted N.lt (map fst (fbounds (worker_idle y))).
Proof.
  intros y H. unfold fbounds at 1. rewrite worker_idle_queue. cbn [flat_map]. rewrite app_nil_r.
  unfold worker_idle.
  apply (fold_sorted (y_queue y) (mkSys (y_core y) (y_disk y) [] (y_files y) (y_acks y))). exact H.
Qed.

Lemma idle_entries : forall y,
  ch_entries (m_cache (k_sm (y_core (worker_idle y)))) = ch_entries (m_cache (k_sm (y_core y))).
Proof.
  intros y.
  apply (SmFacts.worker_idle_core
           (fun k => ch_entries (m_cache (k_sm k)) = ch_entries (m_cache (k_sm (y_core y))))).
  - intros k b H. exact H.
  - reflexivity.
Qed.

(* with an empty queue every entry outside the open chunk is completely on disk *)
Lemma ondisk_quiet : forall y sp i ld p,
  KInv (y_core y) sp -> journal_wf y -> PL y sp -> y_queue y = [] ->
  In (i, ld) (m_log (k_sm (y_core y))) -> In (ld_id ld, p) (sp_entries sp) ->
  ld_chunk ld <> ck_id (k_open (y_core y)) -> OnDisk y ld.
Proof.
  intros y sp i ld p (HR & [J1 J2] & Hk) JW HPL Hq Hl Hp Hne.
  pose proof (jw_inv _ JW) as Jv.
  assert (Hin : In (ld_chunk ld) (ids (logical y))).
  { rewrite (ji_ids _ _ _ Jv). unfold chunk_ids. apply in_or_app. right.
    specialize (J1 _ Hl). cbn [snd] in J1. exact J1. }
  destruct (HPL i ld p Hl Hp Hin) as (_ & pre & post & Ef & Eoff & Elen).
  split; [exact Hne|].
  assert (Ew : fst (wfinal y) = y_disk y) by (unfold wfinal; rewrite Hq; reflexivity).
  rewrite logical_eq, Ew in Ef, Hin.
  rewrite ids_append in Hin by apply (jw_sorted _ JW).
  rewrite fb_append_other in Ef by exact Hne.
  destruct (disk_get_Some_In _ _ Hin) as [f Hf]. exists f. split; [exact Hf|].
  unfold file_bytes in Ef. rewrite Hf in Ef. rewrite Ef, Eoff, Elen, rec_size_blen, !blen_app. lia.
Qed.

Lemma I7_idle : forall y sp, I7 y sp -> I7 (worker_idle y) sp.
Proof.
  intros y sp [HK JW HPL HC HEB HML].
  pose proof (JournalDisk.worker_idle_core y) as Ec.
  pose proof Ec as (E1 & E2 & E3 & E4 & E5 & E6 & E7).
  assert (HK' : KInv (y_core (worker_idle y)) sp) by (apply (KInv_eqj _ _ _ Ec HK)).
  assert (JW' : journal_wf (worker_idle y)) by (apply jw_idle; exact JW).
  assert (HPL' : PL (worker_idle y) sp).
  { assert (El : logical (worker_idle y) = logical y).
    { apply logical_core_eqj; [apply wfinal_idle|exact Ec]. }
    intros i ld p Hl Hp Hin. rewrite E7 in Hl. rewrite El in *. apply (HPL i ld p Hl Hp Hin). }
  assert (Hquiet : forall i ld p, In (i, ld) (m_log (k_sm (y_core y))) -> In (ld_id ld, p) (sp_entries sp) ->
            ld_chunk ld <> ck_id (k_open (y_core y)) -> OnDisk (worker_idle y) ld).
  { intros i ld p Hl Hp Hne.
    apply (ondisk_quiet (worker_idle y) sp i ld p HK' JW' HPL' (worker_idle_queue y)).
    - rewrite E7. exact Hl.
    - exact Hp.
    - rewrite E2. exact Hne. }
  destruct (idle_bounds y) as [Hfb Hev].
  constructor; try assumption.
  - unfold CIs. rewrite E7.
    pose proof HC as [C1 C2 C3 C4 C5].
    constructor; rewrite ?idle_entries; try assumption.
    + intros i ld p Hl Hp. destruct (C4 i ld p Hl Hp) as [Hin|[Hne _]]; [left; exact Hin|right].
      apply (Hquiet i ld p Hl Hp Hne).
    + intros i ld p Hl Hp Hle. apply (Hquiet i ld p Hl Hp).
      fold (evb (worker_idle y)) in Hle. destruct Hev as [Hev|[fid Hev]].
      * rewrite Hev in Hle. destruct (C5 i ld p Hl Hp Hle) as [Hne _]. exact Hne.
      * pose proof (HEB fid _ i ld p Hev Hl Hp Hle) as Hlt.
        pose proof (jw_bound _ JW) as HB. rewrite Forall_forall in HB.
        specialize (HB fid (fbounds_mentioned _ _ _ Hev)). lia.
  - intros fid b i ld p Hb Hl Hp Hle. rewrite E7 in Hl.
    apply (HEB fid b i ld p (Hfb _ Hb) Hl Hp Hle).
  - apply idle_sorted. exact HML.
Qed.

(* ================================================================== one operation *)
Definition op_c07 (s : spec) (o : op) : bool :=
  match o with
  | OW w => wop_legal s w
  | ORestart _ => false
  | _ => true
  end.
Fixpoint ops_c07 (s : spec) (ops : list op) : bool :=
  match ops with
  | [] => true
  | o :: r => op_c07 s o && ops_c07 (spec_op s o) r
  end.

Definition op_above_bounds (y : sys) (o : op) : bool :=
  match o with OW w => append_above_bounds y w | _ => true end.

Lemma jw_open_nonempty : forall y, journal_wf y -> NoPanic.open_nonempty (y_core y).
Proof.
  intros y JW. unfold NoPanic.open_nonempty.
  destruct (ji_open_ok _ _ _ (jw_inv _ JW)) as (rs & _ & _ & He & st & tl & Ers).
  rewrite He, Ers. cbn. discriminate.
Qed.

Lemma I7_run_op : forall y sp o,
  I7 y sp -> op_c07 sp o = true -> op_wf o -> op_above_bounds y o = true ->
  exists y' r, run_op y o = (Some y', r) /\ I7 y' (spec_op sp o).
Proof.
  intros y sp o HI Hc Hw Hab.
  destruct o as [w|cb|from to| | | | | |cfg]; cbn [op_c07 op_wf op_above_bounds] in *;
    cbn [run_op spec_op]; try discriminate Hc.
  - destruct (NoPanic.C16_write_no_panic (y_core y) w (jw_open_nonempty y (i_jw _ _ HI)))
      as (k' & r & effs & Hd & _).
    rewrite Hd. eexists. eexists. split; [reflexivity|].
    apply (I7_do_write y sp w k' r effs HI Hw Hc Hab Hd).
  - pose proof (I7_flush y sp cb HI) as HF.
    destruct (do_flush (y_core y) cb) as [k effs]. eexists. eexists. split; [reflexivity|exact HF].
  - pose proof (JournalFacts.do_read_core (y_core y) (y_disk y) from to) as Ec.
    pose proof (SmFacts.do_read_core (y_core y) (y_disk y) from to) as [Esm _].
    destruct (do_read (y_core y) (y_disk y) from to) as [k items]. cbn [fst] in Ec, Esm.
    eexists. eexists. split; [reflexivity|].
    apply I7_core; [exact HI|exact Ec|rewrite Esm; reflexivity|rewrite Esm; apply (i_ci _ _ HI)].
  - eexists. eexists. split; [reflexivity|exact HI].
  - eexists. eexists. split; [reflexivity|exact HI].
  - eexists. eexists. split; [reflexivity|exact HI].
  - eexists. eexists. split; [reflexivity|apply I7_idle; exact HI].
  - eexists. eexists. split; [reflexivity|].
    apply I7_core; [exact HI|apply core_eqj_cache| |].
    + cbn [core_with_cache core_with_sm k_sm m_cache]. apply CacheFacts.cache_drain_evictable.
    + unfold CIs. cbn [core_with_cache core_with_sm k_sm m_cache m_log]. apply CI_drain. apply (i_ci _ _ HI).
Qed.

(* ================================================================== runs *)
(* no append at or below a boundary in force or pending installation, along the run *)
Fixpoint run_ok_c07b (y : sys) (ops : list op) : bool :=
  match ops with
  | [] => true
  | o :: r =>
    op_above_bounds y o &&
    match run_op y o with
    | (Some y', _) => run_ok_c07b y' r
    | (None, _) => true
    end
  end.

Lemma I7_run_ops : forall ops y sp res fin,
  I7 y sp -> ops_c07 sp ops = true -> Forall op_wf ops -> run_ok_c07b y ops = true ->
  run_ops y ops = (res, fin) ->
  exists y', fin = Some y' /\ I7 y' (spec_ops sp ops).
Proof.
  intros ops. induction ops as [|o r IH]; intros y sp res fin HI Hc Hw Hok Hrun.
  - cbn [run_ops] in Hrun. inversion Hrun. subst. exists y. split; [reflexivity|exact HI].
  - cbn [ops_c07] in Hc. apply andb_true_iff in Hc. destruct Hc as [Hc1 Hc2].
    inversion Hw as [|? ? Hw1 Hw2]; subst.
    cbn [run_ok_c07b] in Hok. apply andb_true_iff in Hok. destruct Hok as [Hok1 Hok2].
    destruct (I7_run_op y sp o HI Hc1 Hw1 Hok1) as (y' & r0 & Hop & HI').
    cbn [run_ops] in Hrun. rewrite Hop in Hrun, Hok2.
    destruct (run_ops y' r) as [rs fin'] eqn:Er. inversion Hrun. subst.
    cbn [spec_ops fold_left]. apply (IH y' (spec_op sp o) rs fin HI' Hc2 Hw2 Hok2 Er).
Qed.

(* ================================================================== the fresh store *)
Lemma I7_init : forall cfg, I7 (sys0 cfg) spec0.
Proof.
  intros cfg. constructor.
  - split; [|split].
    + destruct (R_init cfg) as [H1 H2 H3 H4 _ _ _]. constructor; assumption.
    + constructor; cbn [sys0 y_core k_sm sm_new m_log]; [intros e []|intros e c []].
    + split.
      * cbn [sys0 y_core k_open]. rewrite ck_id_push, ck_end_push. cbn [ck_id].
        replace (ck_end (mkChunk 0 [])) with 0 by reflexivity.
        pose proof (blen_enc_pos (RState rstate0)) as H. unfold blen in H. lia.
      * unfold tail_ids. cbn. repeat constructor.
  - apply jw_init.
  - intros i ld p [].
  - apply CI_init.
  - intros fid b i ld p _ [].
  - cbn. repeat constructor.
Qed.

(* ================================================================== reading *)
Lemma closed_get_in : forall id cl, In id (map cid cl) ->
  exists c, closed_get id cl = Some c /\ ck_id (cl_chunk c) = id.
Proof.
  intros id cl. induction cl as [|c r IH]; intros H; [destruct H|].
  cbn [closed_get]. destruct (N.eqb_spec id (ck_id (cl_chunk c))) as [E|E].
  - exists c. split; [reflexivity|symmetry; exact E].
  - destruct H as [H|H]; [exfalso; apply E; symmetry; exact H|]. apply IH. exact H.
Qed.

Lemma load_ok : forall y sp i ld p, I7 y sp ->
  In (i, ld) (m_log (k_sm (y_core y))) -> In (ld_id ld, p) (sp_entries sp) -> OnDisk y ld ->
  load_payload (k_closed (y_core y)) (y_disk y) ld = RIOk (ld_id ld) p.
Proof.
  intros y sp i ld p [(HR & [J1 J2] & Hk) JW HPL HC HEB HML] Hl Hp [Hne (f & Hf & Hlen)].
  pose proof (jw_inv _ JW) as Jv.
  assert (Hcl : In (ld_chunk ld) (map cid (k_closed (y_core y)))).
  { specialize (J1 _ Hl). cbn [snd] in J1. unfold tail_ids in J1.
    apply in_app_or in J1. destruct J1 as [J1|[J1|[]]]; [exact J1|exfalso; apply Hne; symmetry; exact J1]. }
  assert (Hin : In (ld_chunk ld) (ids (logical y))).
  { rewrite (ji_ids _ _ _ Jv). unfold chunk_ids. apply in_or_app. right. apply in_or_app. left. exact Hcl. }
  destruct (HPL i ld p Hl Hp Hin) as (Hwf & pre & post & Ef & Eoff & Elen).
  destruct (closed_get_in _ _ Hcl) as (c & Hc & Eid).
  unfold load_payload. rewrite Hc. unfold read_record. rewrite Eid.
  destruct (N.ltb_spec (ld_off ld) (ld_chunk ld)) as [Hu|_]; [unfold blen in Eoff; lia|].
  rewrite Hf.
  destruct (C11_disk_is_prefix y _ f (jw_sorted _ JW) Hf Hin) as [tl Etl].
  set (e := enc_record (RAppend (ld_id ld) p)) in *.
  assert (Erel : ld_off ld - ld_chunk ld = blen pre) by lia.
  rewrite Erel in *. rewrite rec_size_blen in Elen. fold e in Elen.
  assert (L : N.ltb (N.of_nat (length (f_data f))) (blen pre + ld_len ld) = false).
  { apply N.ltb_ge. unfold blen in *. lia. }
  rewrite L.
  assert (Hx : exists w, f_data f = (pre ++ e) ++ w).
  { apply (app_eq_prefix (pre ++ e) (f_data f) tl post).
    - rewrite <- Etl, Ef, app_assoc. reflexivity.
    - rewrite app_length. unfold blen in *. lia. }
  destruct Hx as [w Ew]. rewrite Ew, Elen. unfold blen. rewrite !Nat2N.id.
  rewrite <- app_assoc, skipn_app, skipn_all, Nat.sub_diag. cbn [skipn app].
  rewrite firstn_app, firstn_all, Nat.sub_diag. cbn [firstn]. rewrite app_nil_r.
  rewrite <- (app_nil_r e). unfold e. rewrite dec_enc_record; [reflexivity|exact Hwf].
Qed.

Lemma read_items_c07 : forall ch cl d m es h ms,
  map f_log m = map g_ent es ->
  (forall i ld p, In (i, ld) m -> In (ld_id ld, p) es ->
     ent_get (ld_id ld) (ch_entries ch) = Some p \/
     (ent_get (ld_id ld) (ch_entries ch) = None /\ load_payload cl d ld = RIOk (ld_id ld) p)) ->
  fst (fst (read_items ch cl d m h ms)) = map (fun e => RIOk (fst e) (snd e)) es.
Proof.
  intros ch cl d m. induction m as [|[k ld] m IH]; intros [|[id p] es] h ms Hm Hh;
    cbn [map] in Hm; try discriminate Hm.
  - reflexivity.
  - injection Hm as H1 H2 H3. cbn [fst snd] in H1, H2.
    assert (Hh' : forall i ld0 p0, In (i, ld0) m -> In (ld_id ld0, p0) es ->
              ent_get (ld_id ld0) (ch_entries ch) = Some p0 \/
              (ent_get (ld_id ld0) (ch_entries ch) = None /\ load_payload cl d ld0 = RIOk (ld_id ld0) p0)).
    { intros i ld0 p0 Hi Hp0. apply (Hh i ld0 p0); right; assumption. }
    assert (Hhd : In (ld_id ld, p) ((id, p) :: es)) by (left; rewrite H2; reflexivity).
    cbn [read_items].
    destruct (Hh k ld p (or_introl eq_refl) Hhd) as [Hg|[Hg Hload]]; rewrite Hg.
    + specialize (IH es (h + 1) ms H3 Hh').
      destruct (read_items ch cl d m (h + 1) ms) as [[items h'] ms'].
      cbn [fst snd] in IH. cbn [fst snd map]. rewrite IH, H2. reflexivity.
    + specialize (IH es h (ms + 1) H3 Hh').
      destruct (read_items ch cl d m h (ms + 1)) as [[items h'] ms'].
      cbn [fst snd] in IH. cbn [fst snd map]. rewrite IH, Hload, H2. reflexivity.
Qed.

Lemma I7_item : forall y sp i ld p, I7 y sp ->
  In (i, ld) (m_log (k_sm (y_core y))) -> In (ld_id ld, p) (sp_entries sp) ->
  ent_get (ld_id ld) (ch_entries (m_cache (k_sm (y_core y)))) = Some p \/
  (ent_get (ld_id ld) (ch_entries (m_cache (k_sm (y_core y)))) = None /\
   load_payload (k_closed (y_core y)) (y_disk y) ld = RIOk (ld_id ld) p).
Proof.
  intros y sp i ld p HI Hl Hp. pose proof (i_ci _ _ HI) as [C1 C2 C3 C4 C5].
  destruct (ent_get (ld_id ld) (ch_entries (m_cache (k_sm (y_core y))))) as [p'|] eqn:Eg.
  - left. apply ent_get_some_in in Eg. rewrite (C3 _ _ _ Hp Eg). reflexivity.
  - right. split; [reflexivity|].
    destruct (C4 i ld p Hl Hp) as [Hin|HQ].
    + rewrite (ent_get_clt_in _ _ _ C1 Hin) in Eg. discriminate Eg.
    + apply (load_ok y sp i ld p HI Hl Hp HQ).
Qed.

Lemma I7_observes : forall y sp, I7 y sp -> observes y sp.
Proof.
  intros y sp HI. pose proof (i_k _ _ HI) as (HR & _ & _).
  unfold observes. split; [apply (R0_rs _ _ HR)|]. split.
  - intros from to. unfold read_ok. rewrite do_read_items. apply read_items_c07.
    + unfold lm_range, spec_read.
      rewrite (filter_ext (fun e : N * logdata => N.leb from (fst e) && N.ltb (fst e) (N.max to from))
                          (fun e : N * logdata => N.leb from (fst e) && N.ltb (fst e) to)).
      * exact (map_filter_rel (fun q : N * logid => N.leb from (fst q) && N.ltb (fst q) to)
                 f_log g_ent _ _ (R0_log _ _ HR)).
      * intros a. destruct (N.leb from (fst a)) eqn:E1; cbn [andb]; [|reflexivity].
        apply N.leb_le in E1. destruct (N.ltb (fst a) to) eqn:E2.
        -- apply N.ltb_lt. apply N.ltb_lt in E2. lia.
        -- apply N.ltb_ge. apply N.ltb_ge in E2. lia.
    + intros i ld p Hl Hp. unfold lm_range in Hl. apply filter_In in Hl. destruct Hl as [Hl _].
      unfold spec_read in Hp. apply filter_In in Hp. destruct Hp as [Hp _].
      apply (I7_item y sp i ld p HI Hl Hp).
  - unfold read_ok. rewrite do_dump_iter_items. apply read_items_c07.
    + apply (R0_log _ _ HR).
    + intros i ld p Hl Hp. apply (I7_item y sp i ld p HI Hl Hp).
Qed.

(* ================================================================== C07 *)
(* The property as stated in the catalogue is false for the code: a Raft-legal history
   whose last read returns an error for a live entry (finding F2). *)
Definition c07_cfg : config := mkConfig 0 0 4 100000 true.
Definition c07_ops : list op :=
  [OW (OAppend [((5, 0), []); ((5, 1), []); ((5, 2), [])]); OFlush true; OIdle;
   OW (OTruncate 0); OW (OAppend [((1, 0), [])]); ORead 0 1].

Theorem C07_refuted : exists cfg ops res fin,
  ops_plain spec0 ops = true /\ run_case cfg ops = (res, fin) /\
  exists items, In (ResRead items) res /\ exists k, In (RIErr k) items.
Proof.
  exists c07_cfg, c07_ops. eexists. eexists.
  split; [vm_compute; reflexivity|]. split; [vm_compute; reflexivity|].
  exists [RIErr KNotFound]. split; [do 5 right; left; reflexivity|].
  exists KNotFound. left. reflexivity.
Qed.

(* the same witness, with the facts that make it a violation spelled out: the history is
   Raft-legal, the reference log holds exactly the entry (1,0), the read asks for it, and
   the final state does not observe the reference log *)
Theorem C07_refuted_live : exists cfg ops res fin,
  ops_plain spec0 ops = true /\ run_case cfg ops = (res, fin) /\
  sp_entries (spec_ops spec0 ops) = [((1, 0), [])] /\
  res = [ResW (WOk 82 32); ResUnit; ResUnit; ResW (WOk 148 13); ResW (WOk 161 32);
         ResRead [RIErr KNotFound]] /\
  exists y, fin = Some y /\ ~ observes y (spec_ops spec0 ops).
Proof.
  exists c07_cfg, c07_ops.
  destruct (run_case c07_cfg c07_ops) as [res fin] eqn:Er. exists res, fin.
  split; [vm_compute; reflexivity|]. split; [reflexivity|].
  split; [vm_compute; reflexivity|].
  assert (Hy : res = [ResW (WOk 82 32); ResUnit; ResUnit; ResW (WOk 148 13); ResW (WOk 161 32);
                      ResRead [RIErr KNotFound]] /\
               exists y0, fin = Some y0 /\
                 snd (do_read (y_core y0) (y_disk y0) 0 1) = [RIErr KNotFound]).
  { vm_compute in Er. inversion Er. split; [reflexivity|].
    eexists. split; [reflexivity|]. vm_compute. reflexivity. }
  destruct Hy as (Hres & y0 & Hf0 & Hr0). split; [exact Hres|].
  exists y0. split; [exact Hf0|]. intros (_ & Hread & _).
  specialize (Hread 0 1). unfold read_ok in Hread. rewrite Hr0 in Hread.
  vm_compute in Hread. discriminate Hread.
Qed.

(* The positive statement first proposed: only appends at or below the boundary IN FORCE
   are excluded. *)
Definition append_above_boundary (y : sys) (w : wop) : bool :=
  match w with
  | OAppend es => forallb (fun e => opair_ltb (ch_evictable (m_cache (k_sm (y_core y)))) (Some (fst e))) es
  | _ => true
  end.
Fixpoint run_ok_c07 (y : sys) (ops : list op) : bool :=
  match ops with
  | [] => true
  | o :: r =>
    match o with OW w => append_above_boundary y w | _ => true end &&
    match run_op y o with
    | (Some y', _) => run_ok_c07 y' r
    | (None, _) => true
    end
  end.

(* It is false: the boundary (5,2) is recorded at the rotation but installed by the
   worker only later; (1,0) is appended in between, into the open chunk, and evicted
   by the next insertion.

Theorem C07_reads_total_outside_known : forall cfg ops res fin,
  ops_c07 spec0 ops = true -> Forall op_wf ops ->
  (match open_dir cfg [] with OpenOk y0 => run_ok_c07 y0 ops = true | _ => False end) ->
  run_case cfg ops = (res, fin) ->
  exists y, fin = Some y /\ observes y (spec_ops spec0 ops). *)
Definition c07b_cfg : config := mkConfig 0 0 100 114 true.
Definition c07b_ops : list op :=
  [OW (OAppend [((5, 0), []); ((5, 1), []); ((5, 2), [])]); OW (OTruncate 0);
   OW (OAppend [((1, 0), [])]); OFlush true; OIdle; OW (OAppend [((6, 1), [])]); ORead 0 2].

Theorem C07_reads_total_outside_known_refuted : exists cfg ops res fin,
  ops_c07 spec0 ops = true /\ Forall op_wf ops /\
  (match open_dir cfg [] with OpenOk y0 => run_ok_c07 y0 ops = true | _ => False end) /\
  run_case cfg ops = (res, fin) /\
  ~ (exists y, fin = Some y /\ observes y (spec_ops spec0 ops)).
Proof.
  exists c07b_cfg, c07b_ops.
  destruct (run_case c07b_cfg c07b_ops) as [res fin] eqn:Er. exists res, fin.
  split; [vm_compute; reflexivity|]. split.
  { unfold c07b_ops. repeat constructor; cbn; unfold wf_pair, wf_u64, wf_bytes; cbn; lia. }
  split; [vm_compute; reflexivity|]. split; [reflexivity|].
  intros (y & Hf & _ & Hread & _).
  assert (Hy : exists y0, fin = Some y0 /\
             snd (do_read (y_core y0) (y_disk y0) 0 2) = [RIErr KNotFound; RIOk (6, 1) []]).
  { vm_compute in Er. inversion Er. eexists. split; [reflexivity|]. vm_compute. reflexivity. }
  destruct Hy as (y0 & Hf0 & Hr0). rewrite Hf in Hf0. inversion Hf0. subst y0.
  specialize (Hread 0 2). unfold read_ok in Hread. rewrite Hr0 in Hread.
  vm_compute in Hread. discriminate Hread.
Qed.

(* The strongest variant proved: every append is above every boundary that is in force
   OR still pending installation ([run_ok_c07b], via [bounds]). Any cache limits. *)
Theorem C07_reads_total_outside_known_partial : forall cfg ops res fin,
  ops_c07 spec0 ops = true -> Forall op_wf ops ->
  (match open_dir cfg [] with OpenOk y0 => run_ok_c07b y0 ops = true | _ => False end) ->
  run_case cfg ops = (res, fin) ->
  exists y, fin = Some y /\ observes y (spec_ops spec0 ops).
Proof.
  intros cfg ops res fin Hc Hw Hok Hrun. unfold run_case in Hrun.
  rewrite JournalFacts.open_dir_nil in Hrun, Hok.
  destruct (I7_run_ops ops (sys0 cfg) spec0 res fin (I7_init cfg) Hc Hw Hok Hrun) as (y & Hf & HI).
  exists y. split; [exact Hf|apply I7_observes; exact HI].
Qed.

(* the hypotheses are satisfiable by a history with a zero-size cache that rotates, evicts,
   truncates, re-appends (above the boundaries), purges and drains *)
Example C07_hyps_inhabited :
  let cfg := mkConfig 0 0 3 100000 true in
  let ops := [OW (OAppend [((1, 0), [x01]); ((1, 1), []); ((1, 2), [])]); OFlush true; OIdle;
              OW (OTruncate 2); OW (OAppend [((2, 2), []); ((2, 3), [])]); ODrain; ORead 0 10;
              OW (OPurge (1, 0)); OFlush false; OIdle; ODumpIter] in
  ops_c07 spec0 ops = true /\
  (match open_dir cfg [] with OpenOk y0 => run_ok_c07b y0 ops = true | _ => False end) /\
  map fst (sp_entries (spec_ops spec0 ops)) = [(1, 1); (2, 2); (2, 3)].
Proof. cbv zeta. split; [vm_compute; reflexivity|]. split; vm_compute; reflexivity. Qed.

Print Assumptions C07_refuted.
Print Assumptions C07_refuted_live.
Print Assumptions C07_reads_total_outside_known_refuted.
Print Assumptions C07_reads_total_outside_known_partial.
