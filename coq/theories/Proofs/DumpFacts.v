(* What the Dump API (Model/Dump.v: [dump_file], [dump_ref] = RefDump, [dump_dir] = the
   standalone Dump) returns.

   Part A (any file): the dump of a file made of well-formed records is the list of
   these records with their index, file-local offset and size and no error item; a torn
   tail adds exactly one UnexpectedEof item; a zero tail one UnexpectedEof / InvalidData
   item; whatever the bytes are, the dump is "records, then at most one error item".

   Part B (the journal, property C11): in every flushed and idle state reachable from an
   empty directory, RefDump lists exactly the records of the journal, chunk after chunk,
   without error item, and the standalone Dump of the same directory lists the same items
   preceded by the items of the chunk files that a purge has retired but the next flush
   has not yet handed to the worker for removal ([k_removed]).  In every reachable state
   (idle or not) all files RefDump opens exist, and RefDump is the standalone Dump
   restricted to the tracked files.

   The offsets of the items are FILE-LOCAL (see the header of Model/Dump.v); the global
   end offset [id + pos + size] of the items of a chunk is the chunk's offset table. *)
From Coq Require Import List NArith Lia Bool Arith Sorting.Sorted.
From Coq.Strings Require Import Byte.
From RaftLog Require Import Base.Bytes Model.Types Model.Codec Model.Cache Model.Core
  Model.Recover Model.Run Model.Dump.
From RaftLog Require Proofs.ScanFacts.
From RaftLog Require Import Proofs.CodecFacts Proofs.JournalDisk Proofs.JournalChunk
  Proofs.JournalFacts.
Import ListNotations.
Local Open Scope N_scope.
Local Arguments N.add : simpl never.
Local Arguments N.sub : simpl never.
Local Arguments N.mul : simpl never.
Local Arguments N.eqb : simpl never.
Local Arguments N.ltb : simpl never.
Local Arguments N.leb : simpl never.
Local Arguments N.compare : simpl never.
Local Arguments N.of_nat : simpl never.
Local Arguments enc_record : simpl never.
Local Arguments scan_file : simpl never.

(* [encs rs] below is JournalChunk.encs rs = concat (map enc_record rs); ScanFacts has
   its own copy of the same definition *)
Lemma encs_scan rs : ScanFacts.encs rs = encs rs.
Proof. reflexivity. Qed.

(* ================================================================== Part A: one file *)
(* the items of a list of records: index from [i], file-local offset from [pos] *)
Fixpoint recs_items (id : N) (i : nat) (pos : N) (rs : list record) : list ditem :=
  match rs with
  | [] => []
  | r :: tl => DRec id i pos (rec_size r) r :: recs_items id (S i) (pos + rec_size r) tl
  end.

Lemma dump_items_sized id rs : forall i pos,
  dump_items id i pos (ScanFacts.sized rs) = recs_items id i pos rs.
Proof.
  induction rs as [|r rs IH]; intros i pos; [reflexivity|].
  cbn [ScanFacts.sized map dump_items recs_items]. f_equal. apply IH.
Qed.

Lemma recs_items_length id rs : forall i pos, length (recs_items id i pos rs) = length rs.
Proof.
  induction rs as [|r rs IH]; intros i pos; [reflexivity|].
  cbn [recs_items length]. f_equal. apply IH.
Qed.

Lemma recs_items_app id a : forall b i pos,
  recs_items id i pos (a ++ b) =
  recs_items id i pos a ++ recs_items id (i + length a) (pos + blen (encs a)) b.
Proof.
  induction a as [|r a IH]; intros b i pos.
  - cbn [app recs_items length]. rewrite Nat.add_0_r.
    change (encs []) with (@nil byte). rewrite blen_nil, N.add_0_r. reflexivity.
  - cbn [app recs_items length]. f_equal. rewrite IH. f_equal.
    rewrite encs_cons, blen_app, <- rec_size_blen.
    replace (S i + length a)%nat with (i + S (length a))%nat by lia.
    f_equal. lia.
Qed.

(* the j-th item: index j, offset = total size of the records before it *)
Lemma recs_items_nth id rs : forall j i pos r, nth_error rs j = Some r ->
  nth_error (recs_items id i pos rs) j =
  Some (DRec id (i + j) (pos + blen (encs (firstn j rs))) (rec_size r) r).
Proof.
  induction rs as [|r0 rs IH]; intros j i pos r H.
  - destruct j; discriminate.
  - destruct j as [|j].
    + cbn [nth_error] in H. inversion H; subst r0. cbn [recs_items nth_error firstn].
      change (encs []) with (@nil byte). rewrite blen_nil, N.add_0_r, Nat.add_0_r. reflexivity.
    + cbn [nth_error] in H. cbn [recs_items nth_error firstn]. rewrite (IH j _ _ r H).
      rewrite encs_cons, blen_app, <- rec_size_blen.
      replace (S i + j)%nat with (i + S j)%nat by lia.
      do 2 f_equal. lia.
Qed.

Lemma dump_records_app a b : dump_records (a ++ b) = dump_records a ++ dump_records b.
Proof.
  induction a as [|x a IH]; [reflexivity|].
  destruct x; cbn [app dump_records]; rewrite IH; reflexivity.
Qed.

Lemma recs_items_records id rs : forall i pos, dump_records (recs_items id i pos rs) = rs.
Proof.
  induction rs as [|r rs IH]; intros i pos; [reflexivity|].
  cbn [recs_items dump_records]. f_equal. apply IH.
Qed.

Lemma recs_items_no_err id rs : forall i pos,
  Forall (fun it => ditem_is_err it = false) (recs_items id i pos rs).
Proof.
  induction rs as [|r rs IH]; intros i pos; constructor; [reflexivity|apply IH].
Qed.

Lemma recs_items_ids id rs : forall i pos,
  Forall (fun it => ditem_id it = id) (recs_items id i pos rs).
Proof.
  induction rs as [|r rs IH]; intros i pos; constructor; [reflexivity|apply IH].
Qed.

Lemma recs_items_indices id rs : forall i pos,
  map ditem_index (recs_items id i pos rs) = seq i (length rs).
Proof.
  induction rs as [|r rs IH]; intros i pos; [reflexivity|].
  cbn [recs_items map length seq ditem_index]. f_equal. apply IH.
Qed.

(* the global end offsets of the items are the offset table that Chunk::open builds *)
Lemma recs_items_ends id rs : forall i pos,
  map ditem_end (recs_items id i pos rs) = map Some (ends_from (id + pos) (map rec_size rs)).
Proof.
  induction rs as [|r rs IH]; intros i pos; [reflexivity|].
  cbn [recs_items map ends_from ditem_end]. f_equal.
  rewrite IH. do 2 f_equal. lia.
Qed.

(* 1. a file of complete records *)
Theorem dump_file_encs : forall id rs, Forall wf_record rs ->
  dump_file id (encs rs) = recs_items id 0 0 rs.
Proof.
  intros id rs H. unfold dump_file. rewrite <- encs_scan, (ScanFacts.scan_encs rs H).
  cbn [dump_end]. rewrite app_nil_r. apply dump_items_sized.
Qed.

(* the same, item by item *)
Corollary dump_file_encs_nth : forall id rs j r, Forall wf_record rs ->
  nth_error rs j = Some r ->
  nth_error (dump_file id (encs rs)) j =
  Some (DRec id j (blen (encs (firstn j rs))) (rec_size r) r).
Proof.
  intros id rs j r H Hj. rewrite (dump_file_encs id rs H), (recs_items_nth id rs j 0 0 r Hj).
  rewrite N.add_0_l. reflexivity.
Qed.

Corollary dump_file_encs_length : forall id rs, Forall wf_record rs ->
  length (dump_file id (encs rs)) = length rs.
Proof. intros id rs H. rewrite (dump_file_encs id rs H). apply recs_items_length. Qed.

(* 2. a torn tail: exactly one UnexpectedEof item, carrying the number of complete records *)
Theorem dump_file_torn : forall id rs r tl,
  Forall wf_record rs -> wf_record r -> pprefix tl (enc_record r) -> tl <> [] ->
  dump_file id (encs rs ++ tl) = recs_items id 0 0 rs ++ [DErr id (length rs) SEof].
Proof.
  intros id rs r tl H Hr Hp Hne. unfold dump_file.
  rewrite <- encs_scan, (ScanFacts.scan_torn rs r tl H Hr Hp Hne).
  rewrite ScanFacts.sized_length, dump_items_sized. reflexivity.
Qed.

(* a zero tail (preallocated or zero-filled blocks after a crash) *)
Theorem dump_file_zero_tail_short : forall id rs z,
  Forall wf_record rs -> (1 <= z)%nat -> (z < 28)%nat ->
  dump_file id (encs rs ++ zeros z) = recs_items id 0 0 rs ++ [DErr id (length rs) SEof].
Proof.
  intros id rs z H H1 H2. unfold dump_file.
  rewrite <- encs_scan, (ScanFacts.scan_zero_tail_short rs z H H1 H2).
  rewrite ScanFacts.sized_length, dump_items_sized. reflexivity.
Qed.

Theorem dump_file_zero_tail_long : forall id rs z,
  Forall wf_record rs -> (28 <= z)%nat ->
  dump_file id (encs rs ++ zeros z) = recs_items id 0 0 rs ++ [DErr id (length rs) SInvalid].
Proof.
  intros id rs z H H1. unfold dump_file.
  rewrite <- encs_scan, (ScanFacts.scan_zero_tail_long rs z H H1).
  rewrite ScanFacts.sized_length, dump_items_sized. reflexivity.
Qed.

(* any bytes: the dump is the items of a list of well-formed records whose encodings are
   a prefix of the file, followed by nothing (the whole file was consumed) or by one
   error item that says why the rest does not decode; "Fuel" never shows up *)
Theorem dump_file_shape : forall id data, exists rs rest e,
  data = encs rs ++ rest /\ Forall wf_record rs /\
  dump_file id data = recs_items id 0 0 rs ++ dump_end id (length rs) e /\
  match e with
  | SEnd => rest = []
  | SEof => rest <> [] /\ dec_record rest = DEof
  | SInvalid => rest <> [] /\ dec_record rest = DInvalid
  | SFuel => False
  end.
Proof.
  intros id data. unfold dump_file.
  destruct (scan_file data) as [[recs rest] e] eqn:E.
  destruct (ScanFacts.scan_file_sound _ _ _ _ E) as (E1 & E2 & E3).
  pose proof (ScanFacts.scan_file_end _ _ _ _ E) as E4.
  exists (map fst recs), rest, e.
  split; [exact E1|]. split; [exact E2|]. split; [|exact E4].
  rewrite (ScanFacts.sized_of_sound recs E3) at 1 2.
  rewrite dump_items_sized, ScanFacts.sized_length. reflexivity.
Qed.

(* at most one error item per file, and it is the last item *)
Corollary dump_file_err_last : forall id data pre it post,
  dump_file id data = pre ++ it :: post -> ditem_is_err it = true -> post = [].
Proof.
  intros id data pre it post H He.
  destruct (dump_file_shape id data) as (rs & rest & e & _ & _ & E & _).
  rewrite E in H. clear E.
  assert (A : forall l1 l2 : list ditem, Forall (fun x => ditem_is_err x = false) l1 ->
            (length l2 <= 1)%nat -> l1 ++ l2 = pre ++ it :: post -> post = []).
  { clear - He. intros l1. revert pre. induction l1 as [|x l1 IH]; intros pre l2 F L H.
    - cbn [app] in H. subst l2. rewrite app_length in L. cbn [length] in L.
      destruct post; [reflexivity|cbn [length] in L; lia].
    - inversion F as [|? ? Fx Fl]; subst. destruct pre as [|p pre].
      + cbn [app] in H. inversion H; subst. congruence.
      + cbn [app] in H. inversion H; subst. apply (IH pre l2 Fl L H2). }
  assert (L : (length (dump_end id (length rs) e) <= 1)%nat) by (destruct e; cbn; lia).
  apply (A _ _ (recs_items_no_err id rs 0%nat 0) L H).
Qed.

(* ================================================================== Part B: the directory *)
Definition gdump (d : disk) (id : N) : list ditem := dump_file id (file_bytes d id).

Lemma dump_ref_ids_eq k : dump_ref_ids k = closed_ids k ++ [ck_id (k_open k)].
Proof. reflexivity. Qed.

Lemma dump_ref_ids_live k : dump_ref_ids k = map ck_id (live_chunks k).
Proof.
  unfold dump_ref_ids, live_chunks. rewrite map_app, map_map. reflexivity.
Qed.

Lemma dump_ref_eq k d : dump_ref k d = flat_map (gdump d) (dump_ref_ids k).
Proof. reflexivity. Qed.

(* the standalone dump walks the ids of the directory *)
Lemma dump_dir_ids d : dsorted d -> dump_dir d = flat_map (gdump d) (ids d).
Proof.
  intros S. unfold dump_dir, ids. rewrite flat_map_concat_map, flat_map_concat_map, map_map.
  f_equal. apply map_ext_in. intros f I. unfold gdump, file_bytes.
  rewrite (In_disk_get d f S I). reflexivity.
Qed.

Lemma dump_ref_openable_iff k d :
  dump_ref_openable k d = true <-> incl (dump_ref_ids k) (ids d).
Proof.
  unfold dump_ref_openable. rewrite forallb_forall. split.
  - intros H j I. specialize (H j I).
    destruct (disk_get j d) as [f|] eqn:E; [|discriminate].
    pose proof (disk_get_In _ _ _ E) as If. apply disk_get_id in E. subst j.
    apply in_map. exact If.
  - intros H j I. destruct (disk_get_Some_In j d (H j I)) as [f E]. rewrite E. reflexivity.
Qed.

(* ------------------------------------------------------------------ sorted sub-lists *)
Lemma mem_cons_ne j a l : j <> a -> mem j (a :: l) = mem j l.
Proof.
  intros H. unfold mem. cbn [existsb]. destruct (N.eqb_spec j a); [contradiction|reflexivity].
Qed.

Lemma filter_mem_sorted : forall D l, StronglySorted N.lt D -> StronglySorted N.lt l ->
  incl l D -> filter (fun j => mem j l) D = l.
Proof.
  induction D as [|a D IH]; intros l SD Sl I.
  - destruct l as [|b l]; [reflexivity|]. destruct (I b (or_introl eq_refl)).
  - apply ss_inv in SD as [SD FD]. rewrite Forall_forall in FD.
    destruct l as [|b l].
    + cbn [filter]. change (mem a []) with false. apply (IH [] SD Sl). intros x [].
    + pose proof (ss_inv _ _ Sl) as [Sl' Fb]. rewrite Forall_forall in Fb.
      destruct (N.eq_dec a b) as [E|E].
      * subst b. cbn [filter].
        assert (Ha : mem a (a :: l) = true) by (apply mem_In; left; reflexivity).
        rewrite Ha. f_equal.
        assert (Il : incl l D).
        { intros x Ix. destruct (I x (or_intror Ix)) as [Ex|Ex]; [|exact Ex].
          subst x. specialize (Fb a Ix). lia. }
        transitivity (filter (fun j => mem j l) D); [|apply (IH l SD Sl' Il)].
        apply filter_ext_in.
        intros j Ij. apply mem_cons_ne. specialize (FD j Ij). lia.
      * assert (Ib : In b D).
        { destruct (I b (or_introl eq_refl)) as [Ex|Ex]; [congruence|exact Ex]. }
        assert (Hab : a < b) by (apply FD, Ib).
        assert (Ha : mem a (b :: l) = false).
        { apply mem_false. intros [Ex|Ex]; [congruence|]. specialize (Fb a Ex). lia. }
        cbn [filter]. rewrite Ha. apply (IH (b :: l) SD Sl).
        intros x Ix. destruct (I x Ix) as [Ex|Ex]; [|exact Ex].
        subst x. destruct Ix as [Ex|Ex]; [congruence|]. specialize (Fb a Ex). lia.
Qed.

Lemma ids_filter (p : N -> bool) d : ids (filter (fun f => p (f_id f)) d) = filter p (ids d).
Proof.
  unfold ids. induction d as [|f d IH]; [reflexivity|].
  cbn [filter map]. destruct (p (f_id f)); cbn [map]; rewrite IH; reflexivity.
Qed.

(* the standalone dump of the directory restricted to a sorted set of present ids *)
Lemma dump_dir_restrict d l : dsorted d -> StronglySorted N.lt l -> incl l (ids d) ->
  flat_map (gdump d) l = dump_dir (filter (fun f => mem (f_id f) l) d).
Proof.
  intros S Sl I.
  rewrite <- (filter_mem_sorted (ids d) l S Sl I) at 1.
  rewrite <- (ids_filter (fun j => mem j l) d).
  unfold dump_dir, ids. rewrite flat_map_concat_map, flat_map_concat_map, map_map.
  f_equal. apply map_ext_in. intros f If. apply filter_In in If as [If _].
  unfold gdump, file_bytes. rewrite (In_disk_get d f S If). reflexivity.
Qed.

(* ------------------------------------------------------------------ the worker only removes files *)
Lemma wstep_ids_incl s r : dsorted (fst s) -> incl (ids (fst (wstep s r))) (ids (fst s)).
Proof.
  intros S j I. destruct (disk_get_Some_In _ _ I) as [g Hg].
  destruct (wstep_get_back s r j g S Hg) as [f Hf].
  pose proof (disk_get_In _ _ _ Hf) as If. apply disk_get_id in Hf. subst j.
  apply in_map. exact If.
Qed.

Lemma wrun_ids_incl q : forall s, dsorted (fst s) -> incl (ids (fst (wrun q s))) (ids (fst s)).
Proof.
  unfold wrun. induction q as [|r q IH]; intros s S; cbn [fold_left].
  - apply incl_refl.
  - eapply incl_tran; [apply (IH (wstep s r) (wstep_sorted _ _ S))|apply wstep_ids_incl, S].
Qed.

(* ------------------------------------------------------------------ the records of the journal *)
(* [rs] are the records of chunk [c] in the directory whose file contents are [fb]
   (JournalChunk.chunk_ok with the record list exposed) *)
Definition chunk_records (fb : N -> bytes) (c : chunk) (rs : list record) : Prop :=
  Forall wf_record rs /\ fb (ck_id c) = encs rs /\
  ck_ends c = ends_from (ck_id c) (map rec_size rs) /\ exists st tl, rs = RState st :: tl.

(* the items of the chunks [cs] holding the record lists [rss] *)
Definition journal_items (cs : list chunk) (rss : list (list record)) : list ditem :=
  flat_map (fun p => recs_items (ck_id (fst p)) 0 0 (snd p)) (combine cs rss).

Lemma chunk_ok_records fb cs : Forall (chunk_ok fb) cs ->
  exists rss, Forall2 (chunk_records fb) cs rss.
Proof.
  intros H. induction H as [|c cs Hc Hcs [rss IH]].
  - exists []. constructor.
  - destruct Hc as (rs & H1 & H2 & H3 & H4). exists (rs :: rss).
    constructor; [|exact IH]. repeat split; assumption.
Qed.

Lemma Forall2_len {A B} (R : A -> B -> Prop) l l' : Forall2 R l l' -> length l = length l'.
Proof. intros H. induction H as [|x y l l' _ _ IH]; [reflexivity|]. cbn [length]. f_equal. exact IH. Qed.

(* the record lists are determined by the file contents *)
Lemma chunk_records_unique fb c rs rs' :
  chunk_records fb c rs -> chunk_records fb c rs' -> rs = rs'.
Proof.
  intros (W & E & _) (W' & E' & _). rewrite E in E'.
  pose proof (ScanFacts.scan_encs rs W) as S. pose proof (ScanFacts.scan_encs rs' W') as S'.
  rewrite encs_scan in S, S'. rewrite E' in S. rewrite S in S'. inversion S' as [H].
  rewrite <- (ScanFacts.sized_fst rs), <- (ScanFacts.sized_fst rs'), H. reflexivity.
Qed.

Lemma dump_chunks fb cs rss : Forall2 (chunk_records fb) cs rss ->
  flat_map (fun id => dump_file id (fb id)) (map ck_id cs) = journal_items cs rss.
Proof.
  intros H. unfold journal_items. induction H as [|c rs cs rss (W & E & _) H IH]; [reflexivity|].
  cbn [map flat_map combine fst snd]. rewrite IH, E, (dump_file_encs _ rs W). reflexivity.
Qed.

Lemma journal_items_records cs : forall rss, length cs = length rss ->
  dump_records (journal_items cs rss) = concat rss.
Proof.
  unfold journal_items. induction cs as [|c cs IH]; intros rss L.
  - destruct rss; [reflexivity|discriminate].
  - destruct rss as [|rs rss]; [discriminate|]. cbn [combine flat_map concat fst snd].
    rewrite dump_records_app, recs_items_records, IH; [reflexivity|].
    cbn [length] in L. lia.
Qed.

Lemma journal_items_no_err cs : forall rss,
  Forall (fun it => ditem_is_err it = false) (journal_items cs rss).
Proof.
  unfold journal_items. induction cs as [|c cs IH]; intros rss; [constructor|].
  destruct rss as [|rs rss]; [constructor|]. cbn [combine flat_map fst snd].
  apply Forall_app. split; [apply recs_items_no_err|apply IH].
Qed.

(* the items of chunk [c] sit at the positions of [c]'s offset table: the global end
   offset of its j-th item is [ck_ends c]'s j-th entry *)
Lemma chunk_records_ends fb c rs : chunk_records fb c rs ->
  map ditem_end (recs_items (ck_id c) 0 0 rs) = map Some (ck_ends c).
Proof.
  intros (_ & _ & E & _). rewrite recs_items_ends, E, N.add_0_r. reflexivity.
Qed.

(* ------------------------------------------------------------------ 4. any reachable state *)
(* RefDump never fails to open a file, visits the tracked chunks in id order, and is the
   standalone dump of the directory restricted to the tracked chunk files; without other
   files in the directory the two dumpers agree *)
Theorem dump_ref_subset_dir : forall y, journal_wf y ->
  let k := y_core y in
  let d := y_disk y in
  dump_ref_openable k d = true /\
  incl (dump_ref_ids k) (ids d) /\
  StronglySorted N.lt (dump_ref_ids k) /\
  dump_ref k d = dump_dir (filter (fun f => mem (f_id f) (dump_ref_ids k)) d) /\
  (ids d = dump_ref_ids k -> dump_ref k d = dump_dir d).
Proof.
  intros y JW k d. pose proof (jw_sorted _ JW) as S. pose proof (jw_inv _ JW) as J.
  assert (I : incl (dump_ref_ids k) (ids d)).
  { intros j Ij. apply (wrun_ids_incl (y_queue y) (wproj y) S). fold (wfinal y).
    rewrite <- (jw_ids_FD y JW), (ji_ids _ _ _ J). unfold chunk_ids.
    apply in_or_app. right. exact Ij. }
  assert (Sl : StronglySorted N.lt (dump_ref_ids k)).
  { pose proof (ji_sorted _ _ _ J) as SS. rewrite (ji_ids _ _ _ J) in SS. unfold chunk_ids in SS.
    apply ss_app_inv in SS. apply SS. }
  split; [apply dump_ref_openable_iff, I|]. split; [exact I|]. split; [exact Sl|].
  split.
  - rewrite dump_ref_eq. apply dump_dir_restrict; assumption.
  - intros E. rewrite dump_ref_eq, <- E. symmetry. apply dump_dir_ids, S.
Qed.

Corollary dump_ref_subset_dir_run : forall cfg ops res y,
  ops_c11 ops = true -> Forall op_wf ops -> run_case cfg ops = (res, Some y) ->
  let k := y_core y in
  let d := y_disk y in
  dump_ref_openable k d = true /\
  incl (dump_ref_ids k) (ids d) /\
  StronglySorted N.lt (dump_ref_ids k) /\
  dump_ref k d = dump_dir (filter (fun f => mem (f_id f) (dump_ref_ids k)) d) /\
  (ids d = dump_ref_ids k -> dump_ref k d = dump_dir d).
Proof.
  intros cfg ops res y Hc Hw H. apply dump_ref_subset_dir.
  apply (C11_invariant cfg ops res y Hc Hw H).
Qed.

(* ------------------------------------------------------------------ 3. flushed and idle *)
(* Full statement of the task, FALSE for the model (and for the crate, see
   [C11_dump_is_journal_refuted] below):
     journal_wf y -> y_queue y = [] -> k_pending (y_core y) = [] ->
     dump_ref (y_core y) (y_disk y) = dump_dir (y_disk y) /\ ...
   A purge that also fills the open chunk leaves nothing pending (the rotation hands the
   buffered bytes to the worker) but the retired chunk files stay in the directory until the
   next flush sends RemoveChunks: [k_removed] is not empty, RefDump skips these files and
   the standalone Dump lists them.  The exact statement: the standalone dump is the dump
   of the retired files followed by RefDump; they agree when [k_removed k = []]. *)
Theorem C11_dump_is_journal : forall y, journal_wf y ->
  y_queue y = [] -> k_pending (y_core y) = [] ->
  let k := y_core y in
  let d := y_disk y in
  exists rss : list (list record),
    (* the record lists of the chunk files, closed chunks then the open one *)
    Forall2 (chunk_records (file_bytes d)) (live_chunks k) rss /\
    (* RefDump lists exactly these records, with index and offset, chunk after chunk *)
    dump_ref k d = journal_items (live_chunks k) rss /\
    dump_records (dump_ref k d) = concat rss /\
    Forall (fun it => ditem_is_err it = false) (dump_ref k d) /\
    dump_ref_openable k d = true /\
    (* each file starts with the snapshot of the state its predecessor was closed in *)
    heads_ok (file_bytes d) (k_closed k) (ck_id (k_open k)) /\
    (* the directory: retired files not yet removed, then the live chunks *)
    ids d = k_removed k ++ dump_ref_ids k /\
    dump_dir d = flat_map (gdump d) (k_removed k) ++ dump_ref k d /\
    (k_removed k = [] -> dump_dir d = dump_ref k d).
Proof.
  intros y JW Hq Hp k d.
  pose proof (C11_idle_disk_is_journal y JW Hq Hp) as EL.
  pose proof (jw_inv _ JW) as J. rewrite EL in J. fold k d in J.
  pose proof (jw_sorted _ JW) as S. fold d in S.
  destruct (chunk_ok_records _ _ (ji_chunks _ _ _ J)) as [rss F2].
  assert (ER : dump_ref k d = journal_items (live_chunks k) rss).
  { rewrite dump_ref_eq, dump_ref_ids_live. apply (dump_chunks (file_bytes d) _ _ F2). }
  assert (EI : ids d = k_removed k ++ dump_ref_ids k) by apply (ji_ids _ _ _ J).
  assert (ED : dump_dir d = flat_map (gdump d) (k_removed k) ++ dump_ref k d).
  { rewrite (dump_dir_ids d S), EI, flat_map_app. reflexivity. }
  exists rss. split; [exact F2|]. split; [exact ER|].
  split; [rewrite ER; apply journal_items_records, (Forall2_len _ _ _ F2)|].
  split; [rewrite ER; apply journal_items_no_err|].
  split; [apply (dump_ref_subset_dir y JW)|].
  split; [apply (ji_heads _ _ _ J)|].
  split; [exact EI|]. split; [exact ED|].
  intros Hr. rewrite ED, Hr. reflexivity.
Qed.

(* the same from an empty directory, hypotheses of Props/C11.v (C11_invariant) *)
Corollary C11_dump_is_journal_run : forall cfg ops res y,
  ops_c11 ops = true -> Forall op_wf ops -> run_case cfg ops = (res, Some y) ->
  y_queue y = [] -> k_pending (y_core y) = [] ->
  let k := y_core y in
  let d := y_disk y in
  exists rss : list (list record),
    Forall2 (chunk_records (file_bytes d)) (live_chunks k) rss /\
    dump_ref k d = journal_items (live_chunks k) rss /\
    dump_records (dump_ref k d) = concat rss /\
    Forall (fun it => ditem_is_err it = false) (dump_ref k d) /\
    dump_ref_openable k d = true /\
    heads_ok (file_bytes d) (k_closed k) (ck_id (k_open k)) /\
    ids d = k_removed k ++ dump_ref_ids k /\
    dump_dir d = flat_map (gdump d) (k_removed k) ++ dump_ref k d /\
    (k_removed k = [] -> dump_dir d = dump_ref k d).
Proof.
  intros cfg ops res y Hc Hw H Hq Hp.
  apply C11_dump_is_journal; try assumption.
  apply (C11_invariant cfg ops res y Hc Hw H).
Qed.

(* [C11_dump_is_journal_partial]: the task's statement under the exact extra hypothesis
   [k_removed (y_core y) = []] (no retired chunk waits for the next flush) *)
Theorem C11_dump_is_journal_partial : forall cfg ops res y,
  ops_c11 ops = true -> Forall op_wf ops -> run_case cfg ops = (res, Some y) ->
  y_queue y = [] -> k_pending (y_core y) = [] -> k_removed (y_core y) = [] ->
  let k := y_core y in
  let d := y_disk y in
  dump_ref k d = dump_dir d /\
  Forall (fun it => ditem_is_err it = false) (dump_ref k d) /\
  ids d = dump_ref_ids k /\
  exists rss : list (list record),
    Forall2 (chunk_records (file_bytes d)) (live_chunks k) rss /\
    dump_ref k d = journal_items (live_chunks k) rss /\
    dump_records (dump_ref k d) = concat rss.
Proof.
  intros cfg ops res y Hc Hw H Hq Hp Hr k d.
  destruct (C11_dump_is_journal_run cfg ops res y Hc Hw H Hq Hp)
    as (rss & F2 & ER & ERR & NE & _ & _ & EI & _ & ED).
  fold k d in F2, ER, ERR, NE, EI, ED.
  split; [symmetry; apply ED, Hr|]. split; [exact NE|].
  split; [rewrite EI; unfold k; rewrite Hr; reflexivity|].
  exists rss. auto.
Qed.

(* ------------------------------------------------------------------ after flush + wait idle *)
Lemma run_ops_app a : forall y b res fin, run_ops y (a ++ b) = (res, Some fin) ->
  exists r1 y1 r2, run_ops y a = (r1, Some y1) /\ run_ops y1 b = (r2, Some fin).
Proof.
  induction a as [|o a IH]; intros y b res fin H.
  - exists [], y, res. split; [reflexivity|exact H].
  - cbn [app run_ops] in H. cbn [run_ops].
    destruct (run_op y o) as [[y'|] r] eqn:E.
    + destruct (run_ops y' (a ++ b)) as [rs f] eqn:E2. inversion H; subst.
      destruct (IH y' b rs fin E2) as (r1 & y1 & r2 & A & B).
      exists (r :: r1), y1, r2. rewrite A. split; [reflexivity|exact B].
    + inversion H.
Qed.

(* a history that ends with flush; wait_worker_idle needs no side condition: both dumpers
   return the same items, the records of the journal, without error item *)
Theorem C11_dump_after_flush_idle : forall cfg ops cb res y,
  ops_c11 ops = true -> Forall op_wf ops ->
  run_case cfg (ops ++ [OFlush cb; OIdle]) = (res, Some y) ->
  let k := y_core y in
  let d := y_disk y in
  dump_ref k d = dump_dir d /\
  Forall (fun it => ditem_is_err it = false) (dump_ref k d) /\
  ids d = dump_ref_ids k /\
  exists rss : list (list record),
    Forall2 (chunk_records (file_bytes d)) (live_chunks k) rss /\
    dump_ref k d = journal_items (live_chunks k) rss /\
    dump_records (dump_ref k d) = concat rss.
Proof.
  intros cfg ops cb res y Hc Hw H.
  assert (Hc' : ops_c11 (ops ++ [OFlush cb; OIdle]) = true).
  { unfold ops_c11 in *. rewrite forallb_app, Hc. reflexivity. }
  assert (Hw' : Forall op_wf (ops ++ [OFlush cb; OIdle])).
  { apply Forall_app. split; [exact Hw|]. repeat constructor. }
  assert (Hs : y_queue y = [] /\ k_pending (y_core y) = [] /\ k_removed (y_core y) = []).
  { unfold run_case in H. rewrite open_dir_nil in H.
    destruct (run_ops_app ops _ _ _ _ H) as (r1 & y1 & r2 & _ & B).
    cbn [run_ops run_op] in B.
    destruct (do_flush (y_core y1) cb) as [k1 effs] eqn:EF.
    inversion B; subst y. clear B.
    set (y2 := apply_effs (with_core y1 k1) effs).
    destruct (worker_idle_core y2) as (_ & _ & P & _ & R & _).
    split; [apply worker_idle_queue|]. rewrite P, R. unfold y2. rewrite apply_effs_core.
    unfold do_flush in EF. inversion EF; subst k1. split; reflexivity. }
  destruct Hs as (Hq & Hp & Hr).
  apply (C11_dump_is_journal_partial cfg _ res y Hc' Hw' H Hq Hp Hr).
Qed.

(* ------------------------------------------------------------------ the refutation *)
(* chunk_max_records = 2: every write fills the open chunk.  append (1,0); purge (1,0);
   wait idle.  The purge record fills and closes the second chunk, so nothing is pending
   and the queue is processed, but the two retired chunk files wait for the next flush:
   the standalone Dump lists 5 records, RefDump only the snapshot heading the open chunk. *)
Definition dump_cex_cfg : config := mkConfig 10 1000 2 1000000 true.
Definition dump_cex_ops : list op :=
  [OW (OAppend [((1, 0), [])]); OW (OPurge (1, 0)); OIdle].

Lemma dump_cex_run : exists res y,
  run_case dump_cex_cfg dump_cex_ops = (res, Some y) /\
  y_queue y = [] /\ k_pending (y_core y) = [] /\
  length (k_removed (y_core y)) = 2%nat /\
  length (dump_ref (y_core y) (y_disk y)) = 1%nat /\
  length (dump_dir (y_disk y)) = 5%nat.
Proof.
  destruct (run_case dump_cex_cfg dump_cex_ops) as [res [y|]] eqn:E.
  - exists res, y. split; [reflexivity|].
    vm_compute in E. inversion E; subst. vm_compute. repeat split.
  - vm_compute in E. discriminate.
Qed.

Theorem C11_dump_is_journal_refuted : exists cfg ops res y,
  ops_c11 ops = true /\ Forall op_wf ops /\ run_case cfg ops = (res, Some y) /\
  y_queue y = [] /\ k_pending (y_core y) = [] /\
  dump_ref (y_core y) (y_disk y) <> dump_dir (y_disk y).
Proof.
  destruct dump_cex_run as (res & y & H & Hq & Hp & _ & L1 & L2).
  exists dump_cex_cfg, dump_cex_ops, res, y.
  split; [reflexivity|]. split.
  { unfold dump_cex_ops. repeat constructor; cbn; unfold wf_u64; lia. }
  split; [exact H|]. split; [exact Hq|]. split; [exact Hp|].
  intros E. rewrite E in L1. rewrite L1 in L2. discriminate.
Qed.

Print Assumptions dump_file_encs.
Print Assumptions dump_file_encs_nth.
Print Assumptions dump_file_torn.
Print Assumptions dump_file_zero_tail_short.
Print Assumptions dump_file_zero_tail_long.
Print Assumptions dump_file_shape.
Print Assumptions dump_file_err_last.
Print Assumptions dump_ref_subset_dir.
Print Assumptions dump_ref_subset_dir_run.
Print Assumptions C11_dump_is_journal.
Print Assumptions C11_dump_is_journal_run.
Print Assumptions C11_dump_is_journal_partial.
Print Assumptions C11_dump_after_flush_idle.
Print Assumptions C11_dump_is_journal_refuted.
