(* C03/C05, part A (system side): the L2 journal invariant [JI] holds in every
   reachable state of the L2 system (L2_journal). *)
From Coq Require Import List NArith Bool Lia Arith Sorting.Sorted.
From Coq Require Import ZifyBool ZifyN ZifyNat.
From Coq.Strings Require Import Byte.
From RaftLog Require Import Base.Bytes Model.Types Model.Codec Model.Cache Model.Core
  Model.Recover Model.Run Model.Sys Spec.Durable.
From RaftLog Require Import Proofs.CodecFacts Proofs.NoPanic Proofs.JournalDisk Proofs.JournalChunk
  Proofs.JournalFacts.
From RaftLog Require Import Proofs.CrashBase Proofs.CrashJournal.
Import ListNotations.
Local Open Scope N_scope.
Local Arguments N.add : simpl never.
Local Arguments N.sub : simpl never.
Local Arguments N.mul : simpl never.
Local Arguments N.eqb : simpl never.
Local Arguments N.ltb : simpl never.
Local Arguments N.leb : simpl never.
Local Arguments N.compare : simpl never.
Local Arguments N.of_nat : simpl never.
Local Arguments enc_record : simpl never.
Local Arguments skipn : simpl never.

(* ------------------------------------------------------------------ what a worker step does *)
Inductive wk (z z' : sys2) : Prop :=
| WkSame : AD.stream z' = AD.stream z -> cur0 z' = cur0 z ->
    (z_disk z' = z_disk z \/ exists id, z_disk z' = disk_sync id (z_disk z)) ->
    wk z z'
| WkDrop r : AD.stream z = XSend r :: AD.stream z' ->
    (match r with WWrite _ [] _ => True | WRemove _ => True | _ => False end) ->
    cur0 z' = cur0 z -> z_disk z' = z_disk z -> wk z z'
| WkWrite u data cb : AD.stream z = XSend (WWrite u data cb) :: AD.stream z' ->
    cur0 z' = cur0 z -> newest (z_w z) <> None ->
    z_disk z' = disk_append (cur0 z) data (z_disk z) -> wk z z'
| WkTrack off p : AD.stream z = XSend (WAppendFile off p) :: AD.stream z' ->
    cur0 z' = off -> z_disk z' = z_disk z -> wk z z'
| WkRemove id : AD.stream z' = AD.stream z -> cur0 z' = cur0 z ->
    z_disk z' = disk_remove id (z_disk z) -> wk z z'
| WkDie : w_alive (z_w z') = false -> z_disk z' = z_disk z -> wk z z'.

Lemma rev_head_cons {A} (f : A) l : l <> [] ->
  match rev (f :: l) with x :: _ => Some x | [] => None end =
  match rev l with x :: _ => Some x | [] => None end.
Proof.
  intros H. simpl. destruct (rev l) as [|x r] eqn:E.
  - exfalso. apply H. apply (f_equal (@rev A)) in E. now rewrite rev_involutive in E.
  - reflexivity.
Qed.

Lemma core_eqj_same k : core_eqj k k.
Proof. apply core_eqj_refl. Qed.

Ltac curs := unfold cur0, newest; simpl; try match goal with E : w_files _ = _ |- _ => rewrite ?E end; reflexivity.
Ltac sunf := unfold AD.stream, AD.stream_batch, AD.nf_list, cur0, newest.

Lemma zwork_wk z ok z' v : zwork z ok = Some (z', v) ->
  z_todo z' = z_todo z /\ z_ghost z' = z_ghost z /\ core_eqj (z_core z) (z_core z') /\
  (w_alive (z_w z') = true -> w_alive (z_w z) = true) /\ wk z z'.
Proof.
  intros H. unfold zwork in H.
  destruct (w_alive (z_w z)) eqn:Eal; [|discriminate].
  destruct (w_batch (z_w z)) as [b|] eqn:Eb; [|discriminate].
  destruct (b_pos b) eqn:Ep.
  - (* BWrite *)
    destruct (nth_error (b_writes b) i) as [ww|] eqn:En.
    + destruct (ww_data ww) as [|b0 data] eqn:Ed.
      * inversion H; subst; clear H. repeat split; auto using core_eqj_refl.
        apply (WkDrop _ _ (AF.req_of_ww ww)).
        { sunf. simpl. rewrite Eb, Ep. rewrite (AF.skipn_nth_cons _ _ _ En). simpl. reflexivity. }
        { unfold AF.req_of_ww. now rewrite Ed. }
        { reflexivity. }
        { reflexivity. }
      * destruct (newest (z_w z)) as [f|] eqn:Enw; [|discriminate].
        destruct ok; inversion H; subst; clear H.
        { repeat split; auto using core_eqj_refl.
          apply (WkWrite _ _ (ww_upto ww) (b0 :: data) (ww_cb ww)).
          - sunf. simpl. rewrite Eb, Ep. rewrite (AF.skipn_nth_cons _ _ _ En). simpl.
            unfold AF.req_of_ww at 1. rewrite Ed. reflexivity.
          - reflexivity.
          - congruence.
          - simpl. unfold cur0. now rewrite Enw. }
        { repeat split; auto using core_eqj_refl. now apply WkDie. }
    + inversion H; subst; clear H. repeat split; auto using core_eqj_refl.
      apply WkSame; [|curs|now left].
      sunf. simpl. rewrite Eb, Ep. now rewrite (AF.skipn_nth_none _ _ En).
  - (* BSyncOld *)
    destruct (w_files (z_w z)) as [|f [|g rest]] eqn:Ef.
    + inversion H; subst; clear H. repeat split; auto using core_eqj_refl.
      apply WkSame; [|curs|now left]. sunf. simpl. now rewrite Eb, Ep.
    + inversion H; subst; clear H. repeat split; auto using core_eqj_refl.
      apply WkSame; [|curs|now left]. sunf. simpl. now rewrite Eb, Ep.
    + destruct ok; inversion H; subst; clear H; repeat split; auto using core_eqj_refl.
      * apply WkSame; [| |right; eexists; reflexivity].
        { sunf. simpl. now rewrite Eb, Ep. }
        { unfold cur0, newest. simpl w_files. rewrite Ef.
          rewrite (rev_head_cons f (g :: rest)) by discriminate. reflexivity. }
      * apply WkSame; [|curs|now left]. sunf. simpl. now rewrite Eb, Ep.
  - (* BSetEvict *)
    destruct (w_files (z_w z)) as [|f rest] eqn:Ef; [discriminate|]. inversion H; subst; clear H.
    split; [reflexivity|]. split; [reflexivity|]. split; [apply core_eqj_cache|]. split; [auto|].
    apply WkSame; [|curs|now left]. sunf. simpl. now rewrite Eb, Ep.
  - (* BSyncNew *)
    destruct (w_files (z_w z)) as [|f rest] eqn:Ef; [discriminate|].
    destruct ok; inversion H; subst; clear H; repeat split; auto using core_eqj_refl.
    + apply WkSame; [|curs|right; eexists; reflexivity]. sunf. simpl. now rewrite Eb, Ep.
    + apply WkSame; [|curs|now left]. sunf. simpl. now rewrite Eb, Ep.
  - (* BCallbacks *)
    destruct (nth_error (b_writes b) i) as [ww|] eqn:En.
    + destruct (ww_cb ww) as [c|] eqn:Ec; inversion H; subst; clear H;
        repeat split; auto using core_eqj_refl;
        (apply WkSame; [|curs|now left]); sunf; simpl; now rewrite Eb, Ep.
    + inversion H; subst; clear H. repeat split; auto using core_eqj_refl.
      apply WkSame; [|curs|now left]. sunf. simpl. now rewrite Eb, Ep.
  - (* BPostponed *)
    destruct (w_sync_failed (z_w z)) eqn:Esf.
    { inversion H; subst; clear H. repeat split; auto using core_eqj_refl.
      apply WkSame; [|curs|now left]. sunf. simpl. now rewrite Eb, Ep. }
    destruct (w_postponed (z_w z)) as [|id rest] eqn:Epp.
    { inversion H; subst; clear H. repeat split; auto using core_eqj_refl.
      apply WkSame; [|curs|now left]. sunf. simpl. now rewrite Eb, Ep. }
    destruct ok; inversion H; subst; clear H; repeat split; auto using core_eqj_refl.
    + apply (WkRemove _ _ id); [|reflexivity|reflexivity]. sunf. simpl. now rewrite Eb.
    + now apply WkDie.
  - (* BNonFlush *)
    destruct (b_nf b) as [[u d c|off p|ids]|] eqn:Enf; try discriminate.
    + inversion H; subst; clear H. repeat split; auto using core_eqj_refl.
      apply (WkTrack _ _ off p).
      * sunf. simpl. rewrite Eb, Ep, Enf. reflexivity.
      * unfold cur0, newest. simpl. now rewrite rev_unit.
      * reflexivity.
    + destruct (w_sync_failed (z_w z)) eqn:Esf; inversion H; subst; clear H;
        repeat split; auto using core_eqj_refl.
      * apply (WkDrop _ _ (WRemove ids)); [|exact I|reflexivity|reflexivity].
        sunf. simpl. rewrite Eb, Ep, Enf. reflexivity.
      * apply (WkDrop _ _ (WRemove ids)); [|exact I|reflexivity|reflexivity].
        sunf. simpl. rewrite Eb, Ep, Enf. reflexivity.
    + inversion H; subst; clear H. repeat split; auto using core_eqj_refl.
      apply WkSame; [|curs|now left]. sunf. simpl. now rewrite Eb, Ep, Enf.
  - (* BUnlink *)
    destruct ids as [|id rest].
    { inversion H; subst; clear H. repeat split; auto using core_eqj_refl.
      apply WkSame; [|curs|now left]. sunf. simpl. now rewrite Eb, Ep. }
    destruct ok; inversion H; subst; clear H; repeat split; auto using core_eqj_refl.
    + apply (WkRemove _ _ id); [|reflexivity|reflexivity]. sunf. simpl. now rewrite Eb, Ep.
    + now apply WkDie.
  - (* BDone *)
    inversion H; subst; clear H. repeat split; auto using core_eqj_refl.
    apply WkSame; [|curs|now left]. sunf. simpl. now rewrite Eb, Ep.
Qed.

(* ------------------------------------------------------------------ the invariant of the system *)
Definition tinv (cr : list N) (t : list xeff) : Prop :=
  match t with
  | XWriteHead id _ :: r => In id cr /\ ~ In id (creates r) /\ paired r
  | _ => paired t
  end.

Record JI (z : sys2) (G : list jfile) : Prop := mkJI {
  ji_gi : GI (z_core z) (g_created (z_ghost z)) (z_todo z) G;
  ji_t : tinv (g_created (z_ghost z)) (z_todo z);
  ji_hw : HW (z_disk z) (z_todo z) G;
  ji_e : w_alive (z_w z) = true -> EI (z_core z) (z_disk z) (cur0 z) (AD.stream z) G }.

Lemma paired_tinv cr t : paired t -> tinv cr t.
Proof. destruct t as [|[i|i h|r] t]; simpl; tauto. Qed.

Lemma EI_eqj k k' d c0 S G : core_eqj k k' -> EI k d c0 S G -> EI k' d c0 S G.
Proof. intros (_ & E2 & E3 & _). now apply EI_core. Qed.

Lemma cur0_on_disk z : AD.cinv z -> newest (z_w z) <> None -> In (cur0 z) (map f_id (z_disk z)).
Proof.
  intros (old & tin & fc & fut & fl & st & C) Hn. destruct C.
  unfold cur0. destruct (newest (z_w z)) as [f|] eqn:En; [|congruence].
  rewrite (AD.newest_id _ _ _ _ c_files En), c_disk, !map_app. simpl.
  apply in_or_app. right. apply in_or_app. right. now left.
Qed.

(* ---- worker steps ---- *)
Lemma EI_wk z z' G : wk z z' -> z_todo z' = z_todo z ->
  (newest (z_w z) <> None -> In (cur0 z) (map f_id (z_disk z))) ->
  (forall c, In c (creates (AD.stream z)) -> ~ In c (map f_id (z_disk z))) ->
  w_alive (z_w z') = true ->
  EI (z_core z) (z_disk z) (cur0 z) (AD.stream z) G ->
  EI (z_core z) (z_disk z') (cur0 z') (AD.stream z') G.
Proof.
  intros W Ht Hcur Hfresh Hal [Hf HE Hh Hb].
  destruct W as [Es Ec Hd|r Es Hr Ec Hd|u data cb Es Ec Hn Hd|off p Es Ec Hd|id Es Ec Hd|Hdead _].
  - rewrite Es, Ec. constructor; try assumption.
    intros id Hin. destruct Hd as [Hd|(i & Hd)]; rewrite Hd in *; [now apply HE|].
    rewrite data_of_sync. apply HE. rewrite in_app_iff in *. rewrite ids_sync in Hin. exact Hin.
  - rewrite Es in *. rewrite Ec, Hd. clear Es.
    assert (Hp : forall id, pw (cur0 z) (XSend r :: AD.stream z') id = pw (cur0 z) (AD.stream z') id).
    { intros id. destruct r as [u [|b0 dta] cb|off p|ids]; simpl in *; try tauto.
      destruct (N.eqb (cur0 z) id); reflexivity. }
    destruct r as [u [|b0 dta] cb|off p|ids]; simpl in Hr; try tauto.
    + constructor; try assumption. intros id Hin. rewrite <- Hp. now apply HE.
    + constructor; assumption.
  - rewrite Es in *. rewrite Ec, Hd. clear Es. specialize (Hcur Hn).
    constructor; try assumption.
    intros id Hin. rewrite in_app_iff, ids_append, <- in_app_iff in Hin. specialize (HE id Hin).
    simpl in HE. destruct (N.eqb_spec (cur0 z) id) as [E|Hne].
    + rewrite <- E in *. rewrite data_of_append_same by exact Hcur. rewrite <- HE, <- !app_assoc. reflexivity.
    + rewrite data_of_append_other by congruence. exact HE.
  - rewrite Es in *. rewrite Ec, Hd. clear Es. simpl in *. constructor; try assumption.
    + eapply hf_anti; [exact Hh|]. intros y [->|[]]. now left.
    + rewrite Forall_forall in *. intros c Hc. apply Hb.
      eapply (seen_of_mono (AD.stream z') [off]); [|exact Hc]. intros y [->|[]]. now left.
  - rewrite Es, Ec, Hd. constructor; try assumption.
    intros i Hin. rewrite in_app_iff, ids_remove in Hin.
    destruct (N.eq_dec i id) as [->|Hne].
    + destruct Hin as [[Hx _]|Hin]; [congruence|].
      pose proof (Hfresh _ Hin) as Hnd.
      rewrite data_of_absent by (rewrite ids_remove; tauto).
      assert (HE' := HE id (in_or_app _ _ _ (or_intror Hin))).
      rewrite (data_of_absent _ _ Hnd) in HE'. exact HE'.
    + rewrite data_of_remove_other by exact Hne. apply HE. rewrite in_app_iff. tauto.
  - congruence.
Qed.

Lemma stream_split z : AD.stream z = map XSend (AD.stream_batch (z_w z) ++ z_queue z) ++ z_todo z.
Proof. reflexivity. Qed.

Lemma creates_stream z : creates (AD.stream z) = creates (z_todo z).
Proof. rewrite stream_split, creates_app, creates_sends. reflexivity. Qed.

Lemma HW_dom d d' t G :
  (forall i, In i (map f_id d') -> In i (map f_id d)) ->
  (forall i, In i (map f_id d' ++ creates t) -> data_of d' i = data_of d i) ->
  HW d t G -> HW d' t G.
Proof.
  intros Hi Hd H id Hin. rewrite (Hd id Hin). apply H.
  rewrite in_app_iff in *. destruct Hin as [Hin|Hin]; [left; now apply Hi|now right].
Qed.

Lemma HW_wk z z' G : wk z z' -> z_todo z' = z_todo z ->
  (newest (z_w z) <> None -> In (cur0 z) (map f_id (z_disk z))) ->
  (forall c, In c (creates (z_todo z)) -> ~ In c (map f_id (z_disk z))) ->
  EI (z_core z) (z_disk z) (cur0 z) (AD.stream z) G ->
  HW (z_disk z) (z_todo z) G -> HW (z_disk z') (z_todo z') G.
Proof.
  intros W Ht Hcur Hfresh [Hf HE Hh Hb] H. rewrite Ht.
  destruct W as [Es Ec Hd|r Es Hr Ec Hd|u data cb Es Ec Hn Hd|off p Es Ec Hd|id Es Ec Hd|Hdead Hd];
    try (rewrite Hd; exact H).
  - destruct Hd as [Hd|(i & Hd)]; rewrite Hd; [exact H|].
    eapply HW_dom; [| |exact H].
    + intros j. now rewrite ids_sync.
    + intros j _. apply data_of_sync.
  - rewrite Hd. specialize (Hcur Hn). set (c0 := cur0 z) in *.
    assert (Hth : theads (z_todo z) c0 = []).
    { apply theads_notin. rewrite stream_split in Hh. apply hf_app in Hh. destruct Hh as [_ Hh].
      eapply hf_hd_ids; [exact Hh|]. apply seen_of_incl. now left. }
    intros id Hin. rewrite in_app_iff, ids_append, <- in_app_iff in Hin.
    destruct (N.eq_dec id c0) as [->|Hne].
    + rewrite data_of_append_same by exact Hcur. rewrite Hth, app_nil_r.
      assert (HE' := HE c0 (in_or_app _ _ _ (or_introl Hcur))).
      rewrite Es in HE'. simpl in HE'. rewrite N.eqb_refl in HE'. rewrite <- HE'.
      rewrite <- !app_assoc. rewrite (app_assoc (data_of (z_disk z) c0) data). apply bprefix_app.
    + rewrite data_of_append_other by exact Hne. now apply H.
  - rewrite Hd. intros i Hin. rewrite in_app_iff, ids_remove in Hin.
    destruct (N.eq_dec i id) as [->|Hne].
    + destruct Hin as [[Hx _]|Hin]; [congruence|].
      pose proof (Hfresh _ Hin) as Hnd.
      rewrite data_of_absent by (rewrite ids_remove; tauto).
      assert (H' := H id (in_or_app _ _ _ (or_intror Hin))).
      rewrite (data_of_absent _ _ Hnd) in H'. exact H'.
    + rewrite data_of_remove_other by exact Hne. apply H. rewrite in_app_iff. tauto.
Qed.

(* ---- receiving requests does not change the stream ---- *)
Lemma zrecv_stream z k nf z' v : zrecv z k nf = Some (z', v) ->
  AD.stream z' = AD.stream z /\ cur0 z' = cur0 z /\ w_alive (z_w z') = w_alive (z_w z).
Proof.
  intros H. unfold zrecv in H.
  destruct (w_alive (z_w z)) eqn:Eal; [|discriminate].
  destruct (w_batch (z_w z)) eqn:Eb; [discriminate|].
  destruct (z_queue z) as [|r q] eqn:Eq; [discriminate|].
  unfold AD.stream, AD.stream_batch, AD.nf_list. rewrite Eb, Eq.
  destruct r as [upto data cb|off p|ids].
  - destruct (take_writes k q) as [[ws rest]|] eqn:Et; [|discriminate].
    apply AF.take_writes_spec in Et. subst q.
    destruct nf.
    + destruct rest as [|[u2 d2 c2|off p|ids] rest'']; try discriminate;
        inversion H; subst; clear H; simpl; rewrite ?Eal; repeat split;
        rewrite <- ?app_assoc; reflexivity.
    + inversion H; subst; clear H; simpl; rewrite ?Eal; repeat split.
      rewrite app_nil_r. reflexivity.
  - destruct (Nat.eqb k 0 && negb nf); [|discriminate]. inversion H; subst; clear H.
    simpl. rewrite ?Eal. repeat split.
  - destruct (Nat.eqb k 0 && negb nf); [|discriminate]. inversion H; subst; clear H.
    simpl. rewrite ?Eal. repeat split.
Qed.

(* ---- small facts ---- *)
Lemma creates_create id t : creates (XCreate id :: t) = id :: creates t.
Proof. reflexivity. Qed.
Lemma creates_head id h t : creates (XWriteHead id h :: t) = creates t.
Proof. reflexivity. Qed.
Lemma creates_send r t : creates (XSend r :: t) = creates t.
Proof. reflexivity. Qed.

Lemma b_fresh z : AD.binv z -> forall c, In c (creates (z_todo z)) -> ~ In c (map f_id (z_disk z)).
Proof.
  intros B c Hc Hin. apply in_map_iff in Hin. destruct Hin as (f & E & Hf).
  pose proof (AD.b_dlt _ B f c Hf Hc). lia.
Qed.

Lemma seen_of_remove_incl a s x b : incl (seen_of s (a ++ b)) (seen_of s (a ++ x :: b)).
Proof.
  rewrite !seen_of_app. change (x :: b) with ([x] ++ b). rewrite seen_of_app.
  apply seen_of_mono, seen_of_incl.
Qed.

Lemma EI_remove_mid k d c0 A x B G :
  (forall off p, x <> XSend (WAppendFile off p)) ->
  (forall i, In i (map f_id d ++ creates (A ++ B)) -> In i (map f_id d ++ creates (A ++ x :: B))) ->
  (forall i, pw c0 (A ++ x :: B) i = pw c0 (A ++ B) i) ->
  EI k d c0 (A ++ x :: B) G -> EI k d c0 (A ++ B) G.
Proof.
  intros Hx Hdom Hpw [Hf HE Hh Hb]. constructor.
  - now rewrite <- (fcur_drop A x B c0 Hx).
  - intros i Hin. rewrite <- Hpw. apply HE, Hdom, Hin.
  - eapply hf_remove_mid; eauto.
  - rewrite Forall_forall in *. intros c Hc. apply Hb. eapply seen_of_remove_incl; eauto.
Qed.

(* ---- the steps ---- *)
Lemma JI_work z ok z' v G : AD.full z -> JI z G -> zwork z ok = Some (z', v) -> JI z' G.
Proof.
  intros F [Gi Ti Hw He] H.
  destruct (zwork_wk _ _ _ _ H) as (Ht & Hg & Hc & _ & W).
  pose proof (AD.zwork_alive _ _ _ _ H) as Hal.
  destruct (AD.f_a _ F Hal) as [L C]. specialize (He Hal).
  pose proof (b_fresh _ (AD.f_b _ F)) as Hfr.
  constructor.
  - rewrite Ht, Hg. eapply GI_eqj; eauto.
  - rewrite Ht, Hg. exact Ti.
  - eapply HW_wk; eauto. apply cur0_on_disk, C.
  - intros Hal'. eapply EI_eqj; [exact Hc|]. eapply EI_wk; eauto.
    + apply cur0_on_disk, C.
    + intros c. rewrite creates_stream. apply Hfr.
Qed.

Lemma JI_recv z k nf z' v G : JI z G -> zrecv z k nf = Some (z', v) -> JI z' G.
Proof.
  intros [Gi Ti Hw He] H.
  destruct (AD.zrecv_frame _ _ _ _ _ H) as (Ht & Hg & Hc & Hd & _).
  destruct (zrecv_stream _ _ _ _ _ H) as (Hs & Hcu & Hal).
  constructor; rewrite ?Ht, ?Hg, ?Hc, ?Hd, ?Hs, ?Hcu, ?Hal; assumption.
Qed.

Lemma JI_eff z z' v G : AD.full z -> JI z G -> zeff z = Some (z', v) -> JI z' G.
Proof.
  intros F [Gi Ti Hw He] H. pose proof (b_fresh _ (AD.f_b _ F)) as Hfr.
  unfold zeff in H. destruct (z_todo z) as [|[id|id h|r] t] eqn:Et; [discriminate| | |];
    inversion H; subst; clear H.
  - (* XCreate *)
    assert (Hnd : ~ In id (map f_id (z_disk z))) by (apply Hfr; now left).
    simpl in Ti. destruct t as [|[i'|id' h'|r'] t']; try tauto. destruct Ti as [<- Hp].
    constructor; simpl.
    + destruct Gi as [J Hi Hs Hok Hab Hch Hl Hhd]. constructor; try assumption.
      rewrite Hi, creates_create, creates_head, <- app_assoc. reflexivity.
    + split; [apply in_or_app; right; now left|]. split; [|exact Hp].
      pose proof (gi_sorted _ _ _ _ Gi) as Hs. rewrite (gi_ids _ _ _ _ Gi) in Hs.
      rewrite creates_create, creates_head in Hs. apply ss_nodup_app in Hs. tauto.
    + intros i Hin. rewrite data_of_create by exact Hnd. apply (Hw i).
      rewrite in_app_iff in *. rewrite ids_put in Hin. simpl in Hin. rewrite creates_create. simpl. intuition (subst; auto).
    + intros Hal. specialize (He Hal).
      assert (Es : AD.stream z = map XSend (AD.stream_batch (z_w z) ++ z_queue z) ++
                                 XCreate id :: XWriteHead id h' :: t') by (rewrite stream_split, Et; reflexivity).
      rewrite Es in He.
      change (EI (z_core z) (disk_put (mkFile id [] 0) (z_disk z)) (cur0 z)
                 (map XSend (AD.stream_batch (z_w z) ++ z_queue z) ++ XWriteHead id h' :: t') G).
      assert (He' : EI (z_core z) (disk_put (mkFile id [] 0) (z_disk z)) (cur0 z)
                 (map XSend (AD.stream_batch (z_w z) ++ z_queue z) ++
                  XCreate id :: XWriteHead id h' :: t') G).
      { destruct He as [Hf HE Hh Hb]. constructor; try assumption.
        intros i Hin. rewrite data_of_create by exact Hnd. apply HE.
        rewrite in_app_iff in *. rewrite ids_put in Hin. simpl in Hin.
        rewrite !creates_app, creates_create in *. rewrite in_app_iff in *. simpl.
        intuition (subst; auto). }
      apply EI_remove_mid in He'.
      * exact He'.
      * discriminate.
      * intros i. rewrite !in_app_iff, ids_put, !creates_app, creates_create, !in_app_iff. simpl. tauto.
      * intros i. apply pw_create.
  - (* XWriteHead *)
    simpl in Ti. destruct Ti as (Hcr & Hnc & Hp).
    assert (Ecase : In id (map f_id (z_disk z)) \/ ~ In id (map f_id (z_disk z))).
    { destruct (in_dec N.eq_dec id (map f_id (z_disk z))); auto. }
    constructor; simpl.
    + destruct Gi as [J Hi Hs Hok Hab Hch Hl Hhd]. constructor; try assumption.
      intros x Hx. apply Hhd. simpl. now right.
    + now apply paired_tinv.
    + intros i Hin. rewrite in_app_iff, ids_append, <- in_app_iff in Hin.
      destruct (N.eq_dec i id) as [->|Hne].
      * destruct Ecase as [Hon|Hoff].
        { rewrite data_of_append_same by exact Hon.
          assert (H' := Hw id (in_or_app _ _ _ (or_introl Hon))). simpl in H'.
          rewrite N.eqb_refl in H'. rewrite <- app_assoc. exact H'. }
        { exfalso. rewrite in_app_iff in Hin. tauto. }
      * rewrite data_of_append_other by exact Hne.
        assert (H' := Hw i). rewrite creates_head in H'. specialize (H' Hin). simpl in H'.
        destruct (N.eqb_spec id i); [congruence|exact H'].
    + intros Hal. specialize (He Hal).
      assert (Es : AD.stream z = map XSend (AD.stream_batch (z_w z) ++ z_queue z) ++
                                 XWriteHead id h :: t) by (rewrite stream_split, Et; reflexivity).
      rewrite Es in He.
      change (EI (z_core z) (disk_append id h (z_disk z)) (cur0 z)
                 (map XSend (AD.stream_batch (z_w z) ++ z_queue z) ++ t) G).
      set (Q := map XSend (AD.stream_batch (z_w z) ++ z_queue z)) in *.
      pose proof (ei_hf _ _ _ _ _ He) as Hh.
      assert (Hdom : forall i, In i (map f_id (z_disk z) ++ creates (Q ++ t)) ->
                               In i (map f_id (z_disk z) ++ creates (Q ++ XWriteHead id h :: t))).
      { intros i. rewrite !creates_app, creates_head. tauto. }
      destruct He as [Hf HE _ Hb]. constructor.
      * rewrite <- (fcur_drop Q (XWriteHead id h) t); [exact Hf|discriminate].
      * intros i Hin. rewrite in_app_iff, ids_append, <- in_app_iff in Hin.
        destruct (N.eq_dec i id) as [->|Hne].
        { destruct Ecase as [Hon|Hoff].
          - rewrite data_of_append_same by exact Hon.
            rewrite <- (HE id (Hdom id Hin)).
            rewrite (pw_head Q (cur0 z) [cur0 z] id h t (or_introl eq_refl) Hh).
            rewrite <- !app_assoc. reflexivity.
          - exfalso. unfold Q in Hin. rewrite creates_app, creates_sends in Hin. simpl in Hin.
            rewrite in_app_iff in Hin. tauto. }
        { rewrite data_of_append_other by exact Hne. rewrite <- (HE i (Hdom i Hin)).
          rewrite (pw_head_other Q (cur0 z) id h t i Hne). reflexivity. }
      * eapply hf_remove_mid; eauto.
      * rewrite Forall_forall in *. intros c Hc. apply Hb. eapply seen_of_remove_incl; eauto.
  - (* XSend *)
    simpl in Ti.
    constructor; simpl.
    + destruct Gi as [J Hi Hs Hok Hab Hch Hl Hhd]. constructor; assumption.
    + now apply paired_tinv.
    + exact Hw.
    + intros Hal. specialize (He Hal).
      replace (AD.stream (set_todo (set_queue z (z_queue z ++ [r])) t)) with (AD.stream z); [exact He|].
      unfold AD.stream. simpl. rewrite Et. fold (AD.stream_batch (z_w z)).
      rewrite !map_app, <- !app_assoc. reflexivity.
Qed.

(* the journal after an event: only a write call changes it *)
Definition gstep (z : sys2) (e : zev) (G : list jfile) : list jfile :=
  match e with
  | ZCall (OW w) => gfold (z_core z) (wrecs (z_core z) w) G
  | _ => G
  end.

Lemma JI_call z o z' v G :
  AD.full z -> JI z G -> (forall w, o = OW w -> wop_wf w) -> zcall z o = Some (z', v) ->
  JI z' (gstep z (ZCall o) G).
Proof.
  intros F [Gi Ti Hw He] Hwf H. unfold zcall in H.
  destruct (z_todo z) eqn:Et; [|discriminate]. destruct (z_dropped z); [discriminate|].
  pose proof (AD.b_dle _ (AD.f_b _ F)) as Hd.
  assert (Es : AD.stream z = map XSend (AD.stream_batch (z_w z) ++ z_queue z))
    by (rewrite stream_split, Et; apply app_nil_r).
  destruct o as [w|cb|from to| | | | | |cfg']; cbn [gstep].
  - destruct (do_write (z_core z) w) as [[[k r] effs]|] eqn:E; [|discriminate].
    inversion H; subst; clear H.
    destruct (write_step _ _ _ _ _ _ _ _ Gi Hw Hd (Hwf w eq_refl) E) as (G1 & W1 & D1 & E1).
    constructor; simpl.
    + exact G1.
    + apply paired_tinv, paired_expand.
    + exact W1.
    + intros Hal. specialize (E1 _ _ (He Hal)). rewrite Es in E1. exact E1.
  - unfold do_flush in H. inversion H; subst; clear H.
    destruct (flush_step _ _ _ _ cb Gi Hw Hd) as (G1 & W1 & D1 & E1).
    constructor.
    + exact G1.
    + apply paired_tinv. apply (paired_expand (snd (do_flush (z_core z) cb))).
    + exact W1.
    + intros Hal. specialize (E1 _ _ (He Hal)). rewrite Es in E1. exact E1.
  - destruct (do_read (z_core z) (z_disk z) from to) as [k items] eqn:Er. inversion H; subst; clear H.
    pose proof (do_read_core (z_core z) (z_disk z) from to) as Hc. rewrite Er in Hc. simpl in Hc.
    constructor; simpl; rewrite ?Et.
    + eapply GI_eqj; eauto.
    + exact Ti.
    + exact Hw.
    + intros Hal. eapply EI_eqj; [exact Hc|]. exact (He Hal).
  - inversion H; subst. constructor; rewrite ?Et; assumption.
  - inversion H; subst. constructor; rewrite ?Et; assumption.
  - inversion H; subst. constructor; rewrite ?Et; assumption.
  - destruct (z_queue z); [|discriminate]. destruct (worker_quiet z); [|discriminate].
    inversion H; subst. constructor; rewrite ?Et; assumption.
  - inversion H; subst; clear H.
    pose proof (core_eqj_cache (z_core z) (cache_drain (m_cache (k_sm (z_core z))))) as Hc.
    constructor; simpl; rewrite ?Et.
    + eapply GI_eqj; eauto.
    + exact Ti.
    + exact Hw.
    + intros Hal. eapply EI_eqj; [exact Hc|]. exact (He Hal).
  - discriminate.
Qed.

Lemma JI_step z e z' v G :
  AD.full z -> JI z G -> (forall w, e = ZCall (OW w) -> wop_wf w) -> zstep z e = Some (z', v) ->
  JI z' (gstep z e G).
Proof.
  intros F J Hwf H. destruct e as [o| |k nf|ok|]; simpl in H.
  - eapply JI_call; eauto. intros w ->. now apply Hwf.
  - eapply JI_eff; eauto.
  - eapply JI_recv; eauto.
  - eapply JI_work; eauto.
  - destruct (z_todo z) eqn:Et; [|discriminate]. inversion H; subst; clear H.
    destruct J as [Gi Ti Hw He]. constructor; simpl; rewrite ?Et in *; try assumption.
    intros Hal. specialize (He Hal). unfold AD.stream in *. simpl. rewrite Et in He. exact He.
Qed.

(* ------------------------------------------------------------------ the initial state *)
Definition G_init : list jfile := [(0, [RState rstate0])].

Lemma gbytes_init : gbytes G_init 0 = enc_record (RState rstate0).
Proof. unfold gbytes, G_init. cbn [glook fst snd]. rewrite N.eqb_refl. apply encs_one. Qed.

Lemma data_of_one x s : data_of [mkFile 0 x s] 0 = x.
Proof. unfold data_of. cbn [disk_get f_id f_data]. now rewrite N.eqb_refl. Qed.

Lemma JI_init cfg : JI (AF.zstart cfg) G_init.
Proof.
  assert (Wr : wf_rstate rstate0) by (unfold wf_rstate; simpl; tauto).
  constructor; simpl.
  - constructor.
    + constructor.
      * reflexivity.
      * repeat constructor.
      * simpl. auto.
      * unfold live_chunks. simpl. constructor; [|constructor].
        apply (chunk_ok_fresh (gbytes G_init) rstate0 0 Wr gbytes_init).
      * exact I.
      * exact Wr.
      * constructor.
    + reflexivity.
    + repeat constructor.
    + constructor; [|constructor]. split; simpl; [constructor; [exact Wr|constructor]|].
      exists rstate0, []. reflexivity.
    + simpl. auto.
    + simpl. split; [|exact I]. exists rstate0, []. split; reflexivity.
    + exists [], [RState rstate0]. reflexivity.
    + intros x [].
  - exact I.
  - intros id [<-|[]]. cbn [theads f_id]. rewrite app_nil_r, data_of_one, gbytes_init. apply bprefix_refl.
  - intros _. unfold AD.stream, cur0, newest. cbn. constructor.
    + reflexivity.
    + intros id [<-|[]]. cbn [pw k_open AF.core0 ck_id ck_push k_pending f_id]. rewrite N.eqb_refl.
      rewrite !app_nil_r, data_of_one. symmetry. apply gbytes_init.
    + exact I.
    + cbn [seen_of]. repeat constructor. cbn. lia.
Qed.

(* ------------------------------------------------------------------ every reachable state *)
Definition hist_wf (z : sys2) : Prop := Forall wop_wf (map fst (g_writes (z_ghost z))).

Lemma hist_wf_step z e z' v : zstep z e = Some (z', v) -> hist_wf z' ->
  hist_wf z /\ forall w, e = ZCall (OW w) -> wop_wf w.
Proof.
  intros H Hw. destruct e as [o| |k nf|ok|]; simpl in H.
  - unfold zcall in H.
    destruct (z_todo z) eqn:Et; [|discriminate]. destruct (z_dropped z); [discriminate|].
    destruct o as [w|cb|from to| | | | | |cfg'].
    + destruct (do_write (z_core z) w) as [[[k r] effs]|] eqn:E; [|discriminate].
      inversion H; subst; clear H. unfold hist_wf in *. simpl in Hw.
      rewrite map_app, Forall_app in Hw. destruct Hw as [H1 H2]. split; [exact H1|].
      intros w0 E0. inversion E0; subst. now inversion H2.
    + unfold do_flush in H. inversion H; subst; clear H. split; [exact Hw|]. intros; discriminate.
    + destruct (do_read (z_core z) (z_disk z) from to) as [k items]. inversion H; subst; clear H.
      split; [exact Hw|]. intros; discriminate.
    + inversion H; subst. split; [exact Hw|]. intros; discriminate.
    + inversion H; subst. split; [exact Hw|]. intros; discriminate.
    + inversion H; subst. split; [exact Hw|]. intros; discriminate.
    + destruct (z_queue z); [|discriminate]. destruct (worker_quiet z); [|discriminate].
      inversion H; subst. split; [exact Hw|]. intros; discriminate.
    + inversion H; subst. split; [exact Hw|]. intros; discriminate.
    + discriminate.
  - unfold zeff in H. AF.inv_step H; (split; [exact Hw|intros; discriminate]).
  - destruct (AD.zrecv_frame _ _ _ _ _ H) as (_ & Hg & _). unfold hist_wf in *. rewrite Hg in Hw.
    split; [exact Hw|intros; discriminate].
  - destruct (AD.zwork_frame _ _ _ _ H) as (_ & Hg & _). unfold hist_wf in *. rewrite Hg in Hw.
    split; [exact Hw|intros; discriminate].
  - AF.inv_step H. split; [exact Hw|intros; discriminate].
Qed.

(* induction over reachable states, with the journal threaded along: an additional
   invariant P of (state, journal) may use [full], [JI] and the well-formedness of the
   write in progress *)
Lemma L2_journal_ind (P : sys2 -> list jfile -> Prop) cfg :
  P (AF.zstart cfg) G_init ->
  (forall z e z' v G, AD.full z -> JI z G -> hist_wf z' -> P z G ->
     zstep z e = Some (z', v) -> P z' (gstep z e G)) ->
  forall z, zreach cfg z -> hist_wf z -> exists G, JI z G /\ P z G.
Proof.
  intros H0 Hs z Hr.
  assert (H : AD.full z /\ (hist_wf z -> exists G, JI z G /\ P z G)).
  { revert z Hr. apply (AF.zreach_ind (fun z => AD.full z /\ (hist_wf z -> exists G, JI z G /\ P z G))).
    - split; [apply AD.full_init|]. intros _. exists G_init. split; [apply JI_init|exact H0].
    - intros z e z' v [F IH] Hst. split; [eapply AD.full_step; eauto|].
      intros Hw. destruct (hist_wf_step _ _ _ _ Hst Hw) as [Hw0 Hwe].
      destruct (IH Hw0) as (G & J & HP). exists (gstep z e G). split.
      + eapply JI_step; eauto.
      + eapply Hs; eauto. }
  apply H.
Qed.

Theorem L2_journal : forall cfg z, zreach cfg z -> hist_wf z -> exists G, JI z G.
Proof.
  intros cfg z Hr Hw.
  destruct (L2_journal_ind (fun _ _ => True) cfg I (fun _ _ _ _ _ _ _ _ _ _ => I) z Hr Hw) as (G & J & _).
  eauto.
Qed.

Print Assumptions L2_journal.

Lemma full_reach cfg z : zreach cfg z -> AD.full z.
Proof.
  revert z. apply (AF.zreach_ind AD.full); [apply AD.full_init|].
  intros; eapply AD.full_step; eauto.
Qed.

(* ------------------------------------------------------------------ stage A, in words *)
(* In every reachable state (any interleaving, injected failures included) whose write
   calls had well-formed arguments there is a journal G (chunk id, records) such that
   - the caller-side invariant [jinv] of C11 holds for the bytes of G;
   - every file of G is a sequence of well-formed records headed by a State snapshot,
     files abut, the snapshot heading a file is the state reached at the end of the
     file before it, ids are strictly increasing;
   - every present file holds a PREFIX of its journal file, and synced <= written;
   - while the worker is alive, present file ++ pending bytes = journal file. *)
Theorem L2_journal_facts : forall cfg z, zreach cfg z -> hist_wf z ->
  exists G,
    jinv (z_core z) (chunk_ids (z_core z)) (gbytes G) /\
    Forall gfile_ok G /\ RF.Abut G /\ RS.Chain (m_rs (k_sm (z_core z))) G /\
    StronglySorted N.lt (map fst G) /\
    map fst G = g_created (z_ghost z) ++ creates (z_todo z) /\
    (forall f, In f (z_disk z) ->
       bprefix (f_data f) (gbytes G (f_id f)) /\
       (f_synced f <= N.of_nat (length (f_data f)))) /\
    (w_alive (z_w z) = true ->
       forall f, In f (z_disk z) -> logical2 z (f_id f) = gbytes G (f_id f)).
Proof.
  intros cfg z Hr Hw. destruct (L2_journal cfg z Hr Hw) as [G [Gi Ti HW He]].
  pose proof (AD.C04_ack_written cfg z Hr) as [_ Hsy].
  assert (Hsd : disk_sorted (z_disk z)) by (apply AD.b_sorted, AD.f_b; eapply full_reach; eauto).
  exists G. destruct Gi as [J Hi Hs Hok Hab Hch Hl Hhd].
  repeat (split; [assumption|]). split.
  - intros f Hf. split.
    + assert (H := HW (f_id f)). rewrite (data_of_in _ _ Hsd Hf) in H.
      eapply bprefix_trans; [apply bprefix_app|]. apply H. apply in_or_app. left. now apply in_map.
    + rewrite Forall_forall in Hsy. now apply Hsy.
  - intros Hal f Hf. destruct (He Hal) as [Hfc HE _ _].
    unfold logical2, pend. rewrite Hfc. apply HE. apply in_or_app. left. now apply in_map.
Qed.

Print Assumptions L2_journal_facts.
