(* Property C08, last part: no live entry is stored in a chunk whose file is gone
   (C08_only_dead), for Raft-legal histories, in the states between API calls.

   Part A: a cache-free version [R0] of the abstraction relation of Refine.v (the
   proofs are those of Refine.v without the cache clauses, so no cache budget is
   needed and eviction is allowed).
   Part B: every index-map entry points into a chunk the caller still lists, and the
   entries of a closed chunk are at most the last id recorded when it was closed.
   Part C: lifting to the L2 system through the ghost history g_writes. *)
From Coq Require Import List NArith Bool Lia Sorted.
From RaftLog Require Import Base.Bytes Base.Crc32 Model.Types Model.Codec Model.Cache Model.Core
  Model.Recover Model.Run Spec.Spec Spec.Hist Model.Sys Spec.Durable.
From RaftLog Require Import Proofs.JournalDisk Proofs.JournalChunk Proofs.PurgeFacts.
From RaftLog Require Import Proofs.OrderFacts Proofs.SmFacts Proofs.Refine.
Import ListNotations.
Local Open Scope N_scope.

(* ================================================================== Part A: cache-free refinement *)
Record R0 (s : sm) (sp : spec) : Prop := mkR0 {
  R0_rs : m_rs s = spec_state sp;
  R0_log : map f_log (m_log s) = map g_ent (sp_entries sp);
  R0_sorted : StronglySorted klt (sp_entries sp);
  R0_purged : forall e, In e (sp_entries sp) ->
      opair_cmp (sp_purged sp) (Some (fst e)) = Lt /\ next_index (sp_purged sp) <= lid_index (fst e) }.

Lemma purged_le_last0 : forall s sp, R0 s sp ->
  opair_cmp (sp_purged sp) (sp_last sp) <> Gt /\ next_index (sp_purged sp) <= next_index (sp_last sp).
Proof.
  intros s sp HR. rewrite sp_last_olast. destruct (sp_entries sp) as [|e es] eqn:E.
  - rewrite olast_nil. split; [apply opair_eq_le|lia].
  - destruct (last_max (e :: es) (sp_purged sp) e) as [x [Hx [Hl _]]].
    + rewrite <- E. apply (R0_sorted _ _ HR).
    + left. reflexivity.
    + rewrite Hl. rewrite <- E in Hx. destruct (R0_purged _ _ HR x Hx) as [H1 H2].
      split; [rewrite H1; discriminate|]. cbn [next_index]. lia.
Qed.

Lemma entry_le_last0 : forall s sp e, R0 s sp -> In e (sp_entries sp) ->
  exists l, sp_last sp = Some l /\ pair_cmp (fst e) l <> Gt /\ lid_index (fst e) <= lid_index l.
Proof.
  intros s sp e HR He.
  destruct (last_max _ (sp_purged sp) e (R0_sorted _ _ HR) He) as [x [Hx [Hl Hc]]].
  exists (fst x). split; [exact Hl|]. destruct Hc as [Hc|[Hc1 Hc2]].
  - subst x. split; [rewrite pair_cmp_refl; discriminate|lia].
  - split; [rewrite Hc1; discriminate|lia].
Qed.

Lemma log_key_in0 : forall s sp e, R0 s sp -> In e (m_log s) ->
  exists b, In b (sp_entries sp) /\ fst e = lid_index (fst b) /\ ld_id (snd e) = fst b.
Proof.
  intros s sp e HR He.
  destruct (map_eq_in_l f_log g_ent _ _ e (R0_log _ _ HR) He) as [b [Hb1 Hb2]].
  exists b. split; [exact Hb1|]. unfold f_log, g_ent in Hb2. inversion Hb2. split; reflexivity.
Qed.

Lemma R0_same : forall s sp s' sp', R0 s sp ->
  sp_entries sp' = sp_entries sp -> sp_purged sp' = sp_purged sp ->
  m_log s' = m_log s -> m_rs s' = spec_state sp' -> R0 s' sp'.
Proof.
  intros s sp s' sp' HR He Hp Hl Hrs.
  destruct HR as [H1 H2 H3 H4].
  constructor; rewrite ?He, ?Hp, ?Hl; assumption.
Qed.

Definition step_sim0 (s : sm) (sp : spec) (r : record) (w : swrite) : Prop :=
  match spec_step sp w with
  | Some sp' =>
    index_limit r = false /\ rs_validate (m_rs s) r = None /\
    forall c seg, R0 (fst (sm_apply s r c seg)) sp'
  | None => index_limit r = true \/ exists e, rs_validate (m_rs s) r = Some e
  end.

Lemma core_vote0 : forall s sp v, R0 s sp -> step_sim0 s sp (RVote v) (SVote v).
Proof.
  intros s sp v HR. unfold step_sim0. cbn [spec_step index_limit].
  assert (HV : r_vote (m_rs s) = sp_vote sp) by (rewrite (R0_rs _ _ HR); reflexivity).
  unfold rs_validate. rewrite HV.
  destruct (ovote_accepts (sp_vote sp) v) eqn:E.
  - split; [reflexivity|]. split; [reflexivity|]. intros c seg.
    rewrite sm_apply_vote by (unfold rs_validate; rewrite HV, E; reflexivity).
    eapply R0_same; [exact HR|reflexivity|reflexivity|reflexivity|].
    cbn [m_rs]. rewrite (R0_rs _ _ HR). reflexivity.
  - right. eexists. reflexivity.
Qed.

Lemma core_commit0 : forall s sp id, R0 s sp -> step_sim0 s sp (RCommit id) (SCommit id).
Proof.
  intros s sp id HR. unfold step_sim0. cbn [spec_step index_limit].
  assert (HV : r_committed (m_rs s) = sp_committed sp) by (rewrite (R0_rs _ _ HR); reflexivity).
  unfold rs_validate. rewrite HV. rewrite (opair_leb_negb_ltb (sp_committed sp) (Some id)).
  destruct (opair_ltb (Some id) (sp_committed sp)) eqn:E; cbn [negb].
  - right. eexists. reflexivity.
  - split; [reflexivity|]. split; [reflexivity|]. intros c seg.
    rewrite sm_apply_commit by (unfold rs_validate; rewrite HV, E; reflexivity).
    eapply R0_same; [exact HR|reflexivity|reflexivity|reflexivity|].
    cbn [m_rs]. rewrite (R0_rs _ _ HR). reflexivity.
Qed.

Lemma core_user0 : forall s sp u, R0 s sp ->
  step_sim0 s sp (RState (rs_set_user (m_rs s) u)) (SUser u).
Proof.
  intros s sp u HR. unfold step_sim0. cbn [spec_step index_limit].
  split; [reflexivity|]. split; [reflexivity|]. intros c seg.
  rewrite sm_apply_state.
  eapply R0_same; [exact HR|reflexivity|reflexivity|reflexivity|].
  cbn [m_rs]. rewrite (R0_rs _ _ HR). reflexivity.
Qed.

Lemma entry_accept0 : forall s sp id p,
  R0 s sp ->
  opair_cmp (sp_last sp) (Some id) = Lt ->
  (forall l, sp_last sp = Some l -> lid_index id = lid_index l + 1) ->
  rs_validate (m_rs s) (RAppend id p) = None ->
  forall c seg,
    R0 (fst (sm_apply s (RAppend id p) c seg))
      (mkSpec (sp_vote sp) (sp_entries sp ++ [(id, p)]) (sp_committed sp) (sp_purged sp) (sp_user sp)).
Proof.
  intros s sp id p HR Hlt Hidx HV c seg.
  rewrite (sm_apply_append s id p c seg HV).
  assert (F1 : forall e, In e (sp_entries sp) -> klt e (id, p)).
  { intros e He. destruct (entry_le_last0 s sp e HR He) as [l [Hl [H1 H2]]].
    rewrite Hl in Hlt. cbn [opair_cmp] in Hlt. specialize (Hidx l Hl).
    split; cbn [fst]; [eapply pair_cmp_le_lt_trans; eassumption|lia]. }
  assert (F2 : forall e, In e (m_log s) -> fst e < lid_index id).
  { intros e He. destruct (log_key_in0 s sp e HR He) as [x [Hx1 [Hx2 _]]].
    destruct (F1 x Hx1) as [_ Hi]. cbn [fst] in Hi. lia. }
  set (sp' := mkSpec (sp_vote sp) (sp_entries sp ++ [(id, p)]) (sp_committed sp) (sp_purged sp) (sp_user sp)).
  assert (HL : sp_last sp' = Some id).
  { rewrite sp_last_olast. unfold sp'. cbn [sp_entries]. rewrite olast_snoc. reflexivity. }
  constructor.
  + cbn [m_rs]. unfold spec_state. rewrite HL. rewrite (R0_rs _ _ HR). reflexivity.
  + cbn [m_log]. unfold sp'. cbn [sp_entries]. rewrite (lm_insert_end _ _ _ F2).
    rewrite !map_app, (R0_log _ _ HR). reflexivity.
  + unfold sp'. cbn [sp_entries]. apply SS_app_intro; [apply (R0_sorted _ _ HR)|apply SS_single|].
    intros a x Ha [Hx|[]]. subst x. apply F1. exact Ha.
  + unfold sp'. cbn [sp_entries sp_purged]. intros e He. apply in_app_or in He.
    destruct He as [He|[He|[]]]; [apply (R0_purged _ _ HR e He)|].
    subst e. cbn [fst]. destruct (purged_le_last0 s sp HR) as [P1 P2]. split.
    * eapply opair_le_lt_trans; eassumption.
    * destruct (sp_last sp) as [l|] eqn:EL.
      -- rewrite (Hidx l eq_refl). cbn [next_index] in P2. exact P2.
      -- apply opair_le_None in P1. rewrite P1. cbn [next_index]. lia.
Qed.

Lemma core_entry0 : forall s sp id p, R0 s sp -> step_sim0 s sp (RAppend id p) (SEntry id p).
Proof.
  intros s sp id p HR. unfold step_sim0. cbn [spec_step index_limit].
  pose proof (entry_validate (m_rs s) id p) as HV.
  assert (HL : r_last (m_rs s) = sp_last sp) by (rewrite (R0_rs _ _ HR); reflexivity).
  rewrite HL in HV.
  destruct (opair_ltb (sp_last sp) (Some id) &&
            match sp_last sp with Some l => N.eqb (lid_index id) (lid_index l + 1) | None => true end) eqn:E1.
  - destruct (N.eqb (lid_index id) U64MAX) eqn:E3; cbn [andb negb].
    + left. reflexivity.
    + split; [reflexivity|]. split; [apply HV; reflexivity|]. intros c seg.
      apply andb_true_iff in E1. destruct E1 as [E1 E2].
      apply entry_accept0; [exact HR| | |apply HV; reflexivity].
      * apply opair_ltb_lt. exact E1.
      * intros l Hl. rewrite Hl in E2. apply N.eqb_eq in E2. exact E2.
  - cbn [andb]. right. destruct (rs_validate (m_rs s) (RAppend id p)) as [e|] eqn:V.
    + exists e. reflexivity.
    + exfalso. destruct HV as [HV _]. specialize (HV eq_refl). discriminate.
Qed.

Lemma trunc_accept0 : forall s sp o,
  R0 s sp ->
  (o = sp_purged sp \/ exists id p, o = Some id /\ In (id, p) (sp_entries sp)) ->
  forall c seg,
    R0 (fst (sm_apply s (RTrunc o) c seg))
      (mkSpec (sp_vote sp) (filter (fun e => N.ltb (lid_index (fst e)) (next_index o)) (sp_entries sp))
              (sp_committed sp) (sp_purged sp) (sp_user sp)).
Proof.
  intros s sp o HR Ho c seg. rewrite sm_apply_trunc.
  set (f := fun e : logid * payload => N.ltb (lid_index (fst e)) (next_index o)).
  set (sp' := mkSpec (sp_vote sp) (filter f (sp_entries sp)) (sp_committed sp) (sp_purged sp) (sp_user sp)).
  assert (T : opair_cmp o (sp_last sp) <> Gt /\ sp_last sp' = o).
  { destruct Ho as [Ho|[id [p [Ho Hin]]]].
    - subst o. split; [apply (purged_le_last0 s sp HR)|].
      assert (Hnil : filter f (sp_entries sp) = []).
      { apply filter_all_false. intros x Hx. destruct (R0_purged _ _ HR x Hx) as [_ Hi].
        unfold f. apply N.ltb_ge. exact Hi. }
      rewrite sp_last_olast. unfold sp'. cbn [sp_entries sp_purged]. rewrite Hnil. reflexivity.
    - subst o. split.
      + destruct (entry_le_last0 s sp (id, p) HR Hin) as [l [Hl [H1 _]]]. rewrite Hl.
        cbn [opair_cmp fst] in *. exact H1.
      + rewrite sp_last_olast. unfold sp'. cbn [sp_entries sp_purged]. unfold f. cbn [next_index].
        apply (trunc_last _ _ id p (R0_sorted _ _ HR) Hin). }
  destruct T as [T1 T2].
  assert (Hrs : (if opair_ltb o (r_last (m_rs s)) then rs_set_last (m_rs s) o else m_rs s) = spec_state sp').
  { rewrite (R0_rs _ _ HR). cbn [spec_state r_last].
    destruct (opair_ltb o (sp_last sp)) eqn:E.
    - unfold spec_state. rewrite T2. reflexivity.
    - apply opair_ltb_ge in E. pose proof (opair_le_antisym _ _ T1 E) as Heq.
      unfold spec_state. rewrite T2. rewrite Heq. reflexivity. }
  assert (Hlog : map f_log (lm_keep_lt (next_index o) (m_log s)) = map g_ent (filter f (sp_entries sp))).
  { exact (map_filter_rel (fun q : N * logid => N.ltb (fst q) (next_index o)) f_log g_ent _ _ (R0_log _ _ HR)). }
  assert (Hpg : forall e, In e (filter f (sp_entries sp)) ->
      opair_cmp (sp_purged sp) (Some (fst e)) = Lt /\ next_index (sp_purged sp) <= lid_index (fst e)).
  { intros e He. apply filter_In in He. apply (R0_purged _ _ HR e). apply He. }
  constructor; cbn [m_rs m_log].
  * exact Hrs.
  * exact Hlog.
  * apply SS_filter. apply (R0_sorted _ _ HR).
  * exact Hpg.
Qed.

Lemma purge_accept0 : forall s sp u,
  R0 s sp ->
  ((exists p, In (u, p) (sp_entries sp)) \/
   (opair_cmp (sp_last sp) (Some u) = Lt /\ forall l, sp_last sp = Some l -> lid_index l < lid_index u)) ->
  forall c seg,
    R0 (fst (sm_apply s (RPurge u) c seg))
      (mkSpec (sp_vote sp) (filter (fun e => N.ltb (lid_index u) (lid_index (fst e))) (sp_entries sp))
              (sp_committed sp)
              (if opair_ltb (sp_purged sp) (Some u) then Some u else sp_purged sp) (sp_user sp)).
Proof.
  intros s sp u HR Ho c seg. rewrite sm_apply_purge.
  set (f := fun e : logid * payload => N.ltb (lid_index u) (lid_index (fst e))).
  set (nl := if opair_ltb (sp_last sp) (Some u) then Some u else sp_last sp).
  assert (P : opair_cmp (sp_purged sp) (Some u) = Lt /\
              olast (filter f (sp_entries sp)) (Some u) = nl /\
              (forall e, In e (filter f (sp_entries sp)) -> pair_cmp u (fst e) = Lt)).
  { destruct Ho as [[p Hin]|[Hlt Hidx]].
    - destruct (entry_le_last0 s sp (u, p) HR Hin) as [l [Hl [H1 _]]]. cbn [fst] in H1.
      assert (Hnl : nl = sp_last sp).
      { unfold nl. rewrite Hl.
        assert (E : opair_ltb (Some l) (Some u) = false) by (apply opair_ltb_ge; exact H1).
        rewrite E. reflexivity. }
      split; [apply (R0_purged _ _ HR (u, p) Hin)|]. split.
      + rewrite Hnl, sp_last_olast. apply (purge_last _ _ u p (R0_sorted _ _ HR) Hin).
      + intros e He. apply filter_In in He. destruct He as [He1 He2]. unfold f in He2.
        apply N.ltb_lt in He2.
        apply (sorted_mono _ (u, p) e (R0_sorted _ _ HR) Hin He1). cbn [fst]. exact He2.
    - assert (Hnl : nl = Some u).
      { unfold nl. assert (E : opair_ltb (sp_last sp) (Some u) = true) by (apply opair_ltb_lt; exact Hlt).
        rewrite E. reflexivity. }
      assert (Hnil : filter f (sp_entries sp) = []).
      { apply filter_all_false. intros x Hx.
        destruct (entry_le_last0 s sp x HR Hx) as [l [Hl [_ H2]]]. specialize (Hidx l Hl).
        unfold f. apply N.ltb_ge. lia. }
      split; [|split].
      + destruct (purged_le_last0 s sp HR) as [Q1 _]. eapply opair_le_lt_trans; eassumption.
      + rewrite Hnil, Hnl. reflexivity.
      + rewrite Hnil. intros e []. }
  destruct P as [P1 [P2 P3]].
  assert (P1' : opair_ltb (sp_purged sp) (Some u) = true) by (apply opair_ltb_lt; exact P1).
  rewrite P1'.
  set (sp' := mkSpec (sp_vote sp) (filter f (sp_entries sp)) (sp_committed sp) (Some u) (sp_user sp)).
  assert (HL : sp_last sp' = nl).
  { rewrite sp_last_olast. unfold sp'. cbn [sp_entries sp_purged]. exact P2. }
  constructor; cbn [m_rs m_log].
  + rewrite (R0_rs _ _ HR). unfold spec_state. cbn [r_purged]. rewrite P1'. cbv zeta.
    cbn [rs_set_purged rs_set_last r_last r_vote r_committed r_user r_purged].
    rewrite HL. unfold nl.
    destruct (opair_ltb (sp_last sp) (Some u)); reflexivity.
  + unfold lm_keep_ge.
    rewrite (filter_ext (fun e : N * logdata => N.leb (next_index (Some u)) (fst e))
                        (fun e : N * logdata => N.ltb (lid_index u) (fst e))).
    * exact (map_filter_rel (fun q : N * logid => N.ltb (lid_index u) (fst q)) f_log g_ent _ _ (R0_log _ _ HR)).
    * intros a. cbn [next_index]. destruct (N.ltb (lid_index u) (fst a)) eqn:E.
      -- apply N.leb_le. apply N.ltb_lt in E. lia.
      -- apply N.leb_gt. apply N.ltb_ge in E. lia.
  + apply SS_filter. apply (R0_sorted _ _ HR).
  + unfold sp'. cbn [sp_entries sp_purged]. intros e He. split.
    * cbn [opair_cmp]. apply P3. exact He.
    * apply filter_In in He. destruct He as [_ He]. unfold f in He. apply N.ltb_lt in He.
      cbn [next_index]. lia.
Qed.

(* ================================================================== Part B: entries and chunks *)
Record J (k : core) : Prop := mkJ {
  J_in : forall e, In e (m_log (k_sm k)) -> In (ld_chunk (snd e)) (tail_ids k);
  J_le : forall e c, In e (m_log (k_sm k)) -> In c (k_closed k) -> ld_chunk (snd e) = cid c ->
         opair_cmp (Some (ld_id (snd e))) (r_last (cl_state c)) <> Gt }.

Definition KInv (k : core) (sp : spec) : Prop := R0 (k_sm k) sp /\ J k /\ core_ok k.

Lemma closed_not_open k c : core_ok k -> In c (k_closed k) -> cid c <> ck_id (k_open k).
Proof.
  intros [_ S] Hc E. pose proof (tail_ids_lt k (cid c) S) as H.
  assert (Hin : In (cid c) (map cid (k_closed k))) by (apply in_map; exact Hc).
  specialize (H Hin). rewrite E in H. apply (N.lt_irrefl _ H).
Qed.

Lemma J_record k r sm1 seg : J k -> core_ok k ->
  sm_apply (k_sm k) r (ck_id (k_open k)) seg = (sm1, None) -> J (appended k r sm1).
Proof.
  intros [J1 J2] Hk Hs.
  assert (Hlog : forall e, In e (m_log sm1) -> In e (m_log (k_sm k)) \/ ld_chunk (snd e) = ck_id (k_open k)).
  { intros e He. pose proof (sm_apply_log (k_sm k) r (ck_id (k_open k)) seg e) as H. rewrite Hs in H.
    destruct (H He) as [H1|(id & p & _ & H1)]; [left; exact H1|right]. subst e. reflexivity. }
  destruct (appended_ok k r sm1 Hk) as (_ & Ht & _).
  constructor.
  - intros e He. rewrite Ht. cbn [appended k_sm] in He. destruct (Hlog e He) as [H|H].
    + apply J1. exact H.
    + rewrite H. unfold tail_ids. apply in_or_app. right. left. reflexivity.
  - intros e c He Hc Ec. cbn [appended k_sm k_closed] in He, Hc. destruct (Hlog e He) as [H|H].
    + apply J2; assumption.
    + exfalso. apply (closed_not_open k c Hk Hc). rewrite <- Ec. exact H.
Qed.

Lemma R0_entry_le_last s sp e : R0 s sp -> In e (m_log s) ->
  opair_cmp (Some (ld_id (snd e))) (r_last (m_rs s)) <> Gt.
Proof.
  intros HR He. destruct (log_key_in0 s sp e HR He) as (b & Hb & _ & Hid).
  destruct (entry_le_last0 s sp b HR Hb) as (l & Hl & Hc & _).
  rewrite (R0_rs _ _ HR). cbn [spec_state r_last]. rewrite Hl, Hid. cbn [opair_cmp]. exact Hc.
Qed.

Lemma J_rotate k1 sp1 : J k1 -> core_ok k1 -> R0 (k_sm k1) sp1 -> J (rotated k1).
Proof.
  intros [J1 J2] Hk HR.
  destruct (rotated_ok k1 Hk) as (_ & _ & Ht & _). rewrite rotate_effs_cr in Ht.
  assert (Hcl : k_closed (rotated k1) = k_closed k1 ++ [mkClosed (k_open k1) (m_rs (k_sm k1)) false]).
  { unfold rotated. cbn [k_closed]. apply closed_insert_last. rewrite Forall_forall. intros c Hc.
    cbn [cl_chunk]. destruct Hk as [_ S]. apply (tail_ids_lt k1); [exact S|]. apply in_map_iff. exists c. auto. }
  constructor.
  - intros e He. rewrite Ht. apply in_or_app. left. apply J1. exact He.
  - intros e c He Hc Ec. rewrite Hcl in Hc. apply in_app_or in Hc as [Hc|[Hc|[]]].
    + apply J2; assumption.
    + subst c. cbn [cl_state]. eapply R0_entry_le_last; [exact HR|exact He].
Qed.

Lemma J_pop k1 sp1 u ids rest : J k1 -> core_ok k1 -> R0 (k_sm k1) sp1 ->
  opair_cmp (Some u) (sp_purged sp1) <> Gt ->
  pop_obsolete u (k_closed k1) = (ids, rest) ->
  J (mkCore (k_cfg k1) (k_sm k1) (k_open k1) (k_pending k1) rest (k_removed k1 ++ ids)
            (k_hit k1) (k_miss k1) (k_next_cb k1)).
Proof.
  intros [J1 J2] Hk HR Hu Hp.
  destruct (pop_obsolete_split _ _ _ _ Hp) as (popped & E1 & E2 & E3 & _).
  constructor; cbn [k_sm k_closed].
  - intros e He. specialize (J1 e He). unfold tail_ids in *. cbn [k_closed k_open].
    rewrite E1, map_app, <- app_assoc in J1. apply in_app_or in J1 as [J1|J1]; [|exact J1].
    exfalso. apply in_map_iff in J1 as (c & Ec & Hc).
    assert (Hcl : In c (k_closed k1)) by (rewrite E1; apply in_or_app; left; exact Hc).
    pose proof (J2 e c He Hcl (eq_sym Ec)) as Hle.
    rewrite Forall_forall in E3. specialize (E3 c Hc). apply opair_leb_le in E3.
    destruct (log_key_in0 _ _ e HR He) as (b & Hb & _ & Hid).
    destruct (R0_purged _ _ HR b Hb) as [Hpg _]. rewrite <- Hid in Hpg.
    assert (H1 : opair_cmp (Some (ld_id (snd e))) (Some u) <> Gt) by (eapply opair_le_trans; eassumption).
    assert (H2 : opair_cmp (Some (ld_id (snd e))) (sp_purged sp1) <> Gt) by (eapply opair_le_trans; eassumption).
    eapply opair_lt_not_ge; eassumption.
  - intros e c He Hc Ec. apply J2; [exact He| |exact Ec]. rewrite E1. apply in_or_app. right. exact Hc.
Qed.

(* ---- one record ---- *)
Lemma one_sim0 k sp r w k' res effs : KInv k sp -> step_sim0 (k_sm k) sp r w ->
  append_and_apply k r = Ret (k', res, effs) ->
  KInv k' (fst (spec_one sp w)) /\ res_agrees res (snd (spec_one sp w)).
Proof.
  intros (HR & HJ & Hk) HS H. unfold step_sim0 in HS. unfold spec_one.
  destruct (spec_step sp w) as [sp'|]; cbn [fst snd].
  - destruct HS as [HL [HV Hsim]].
    destruct (aaa_ok k r HL HV) as (k2 & off & len & ef2 & c & seg & Ha & _ & _).
    rewrite Ha in H. inversion H; subst k2 res ef2. clear H. split; [|reflexivity].
    pose proof (append_and_apply_ok _ _ _ _ _ Hk Ha) as (Hk' & _).
    apply append_and_apply_cases in Ha as [(_ & _ & e & He)|(sm1 & _ & Hs & _ & Ht)]; [discriminate|].
    pose proof (Hsim (ck_id (k_open k)) (ck_end (k_open k), rec_size r)) as HR1. rewrite Hs in HR1. cbn [fst] in HR1.
    pose proof (J_record _ _ _ _ HJ Hk Hs) as HJ1.
    destruct (appended_ok k r sm1 Hk) as (Hk1 & _ & _).
    eapply try_close_cases in Ht as [(_ & E1 & _)|(_ & E1 & _)]; [| |reflexivity]; subst k'.
    + split; [exact HR1|split; [exact HJ1|exact Hk']].
    + split; [exact HR1|split; [|exact Hk']]. eapply J_rotate; [exact HJ1|exact Hk1|exact HR1].
  - assert (E : append_and_apply k r = Ret (k, WErr (match rs_validate (m_rs (k_sm k)) r with Some e => e | None => EIndexLimit end), [])
                \/ append_and_apply k r = Ret (k, WErr EIndexLimit, [])).
    { destruct (index_limit r) eqn:HL; [right; apply aaa_limit; exact HL|].
      destruct HS as [HS|[e HS]]; [discriminate|]. left. rewrite HS. apply aaa_invalid; assumption. }
    destruct E as [E|E]; rewrite E in H; inversion H; subst; (split; [split; [exact HR|split; assumption]|reflexivity]).
Qed.

Lemma do_append_sim0 es : forall k sp acc effs0 k' r effs, KInv k sp -> wres_ok acc ->
  do_append k es acc effs0 = Ret (k', r, effs) ->
  KInv k' (fst (spec_append sp es)) /\ res_agrees r (snd (spec_append sp es)).
Proof.
  induction es as [|[id p] es IH]; intros k sp acc effs0 k' r effs HI Hacc H; cbn [do_append spec_append] in *.
  - inversion H; subst. cbn [fst snd]. split; [exact HI|]. destruct r; [reflexivity|destruct Hacc].
  - destruct (append_and_apply k (RAppend id p)) as [[[k1 w1] ef]|] eqn:E; [|discriminate].
    destruct HI as (HR & HJ & Hk).
    destruct (one_sim0 _ _ _ _ _ _ _ (conj HR (conj HJ Hk)) (core_entry0 _ _ id p HR) E) as [HI1 Hag].
    unfold spec_one in HI1, Hag.
    destruct (spec_step sp (SEntry id p)) as [sp1|]; cbn [fst snd] in HI1, Hag.
    + destruct w1 as [off len|e]; [|discriminate Hag]. eapply IH; [exact HI1| |exact H]; exact I.
    + destruct w1 as [off len|e]; [discriminate Hag|]. inversion H; subst. cbn [fst snd].
      split; [exact HI1|reflexivity].
Qed.

Lemma do_write_sim0 k sp w k' r effs : KInv k sp -> wop_legal sp w = true ->
  do_write k w = Ret (k', r, effs) -> KInv k' (fst (spec_wop sp w)).
Proof.
  intros HI Hleg H. pose proof HI as (HR & HJ & Hk).
  destruct w as [v|es|i|u|id|u|st]; cbn [do_write spec_wop] in *.
  - eapply one_sim0; [exact HI|apply core_vote0; exact HR|exact H].
  - destruct (wal_last_segment k) as [w0|] eqn:Ew; [|discriminate].
    assert (Hw0 : wres_ok w0).
    { unfold wal_last_segment in Ew. destruct (ck_last_segment (k_open k)) as [[s0 l0]|]; [|discriminate].
      inversion Ew. exact I. }
    eapply do_append_sim0; [exact HI|exact Hw0|exact H].
  - assert (HP : r_purged (m_rs (k_sm k)) = sp_purged sp) by (rewrite (R0_rs _ _ HR); reflexivity).
    rewrite HP in H.
    destruct (N.eqb i (next_index (sp_purged sp))) eqn:E1.
    + apply N.eqb_eq in E1. subst i.
      eapply one_sim0; [exact HI| |exact H].
      unfold step_sim0. cbn [spec_step]. rewrite N.eqb_refl. cbn [orb].
      split; [reflexivity|]. split; [reflexivity|]. intros c seg.
      apply trunc_accept0; [exact HR|]. left. reflexivity.
    + destruct (N.eqb i 0) eqn:E2.
      * inversion H; subst. unfold spec_one. cbn [spec_step]. rewrite E1, E2. cbn [orb negb andb fst]. exact HI.
      * pose proof (lm_get_rel (m_log (k_sm k)) (sp_entries sp) (i - 1) (R0_log _ _ HR)) as HG.
        unfold lm_get_id in H. destruct (lm_get (i - 1) (m_log (k_sm k))) as [d|].
        -- destruct HG as [p [Hin Hidx]].
           eapply one_sim0; [exact HI| |exact H].
           unfold step_sim0. cbn [spec_step]. rewrite E1, E2. cbn [orb negb andb].
           assert (Hh : sp_has_index sp (i - 1) = true).
           { unfold sp_has_index. apply existsb_exists. exists (ld_id d, p).
             split; [exact Hin|]. cbn [fst]. apply N.eqb_eq. exact Hidx. }
           rewrite Hh. split; [reflexivity|]. split; [reflexivity|]. intros c seg.
           assert (Hi : i = next_index (Some (ld_id d))).
           { cbn [next_index]. apply N.eqb_neq in E2. lia. }
           rewrite Hi. apply trunc_accept0; [exact HR|].
           right. exists (ld_id d), p. split; [reflexivity|exact Hin].
        -- inversion H; subst. unfold spec_one. cbn [spec_step]. rewrite E1, E2. cbn [orb negb andb].
           unfold sp_has_index. rewrite HG. cbn [fst]. exact HI.
  - cbn [wop_legal] in Hleg.
    assert (HP : r_purged (m_rs (k_sm k)) = sp_purged sp) by (rewrite (R0_rs _ _ HR); reflexivity).
    rewrite HP in H.
    destruct (N.ltb (lid_index u) (next_index (sp_purged sp))) eqn:E1.
    + destruct (wal_last_segment k); [|discriminate]. inversion H; subst.
      unfold spec_one. cbn [spec_step]. rewrite E1. cbn [fst]. exact HI.
    + assert (HS : step_sim0 (k_sm k) sp (RPurge u) (SPurge u)).
      { unfold step_sim0. cbn [spec_step index_limit]. rewrite E1.
        destruct (N.eqb (lid_index u) U64MAX) eqn:E2.
        - left. reflexivity.
        - split; [reflexivity|]. split; [reflexivity|]. intros c seg.
          apply purge_accept0; [exact HR|].
          unfold purge_legal in Hleg. rewrite E1 in Hleg. cbn [orb] in Hleg.
          apply orb_true_iff in Hleg. destruct Hleg as [Hl|Hl].
          + left. apply existsb_exists in Hl. destruct Hl as [[id p] [Hin He]].
            cbn [fst] in He. apply pair_eqb_eq in He. subst id. exists p. exact Hin.
          + right. apply andb_true_iff in Hl. destruct Hl as [H1 H2].
            split; [apply opair_ltb_lt; exact H1|]. intros l Hl. rewrite Hl in H2.
            apply N.ltb_lt. exact H2. }
      destruct (append_and_apply k (RPurge u)) as [[[k1 res] ef]|] eqn:Ea; [|discriminate].
      destruct (one_sim0 _ _ _ _ _ _ _ HI HS Ea) as [HI1 Hag].
      destruct res as [off len|e].
      * destruct (pop_obsolete u (k_closed k1)) as [ids rest] eqn:Ep. inversion H; subst k' r effs. clear H.
        unfold spec_one in HI1, Hag |- *. cbn [spec_step] in HI1, Hag |- *. rewrite E1 in HI1, Hag |- *.
        destruct (N.eqb (lid_index u) U64MAX) eqn:E2; [discriminate Hag|]. cbn [fst] in HI1 |- *.
        destruct HI1 as (HR1 & HJ1 & Hk1).
        split; [exact HR1|]. split.
        -- eapply J_pop; [exact HJ1|exact Hk1|exact HR1| |exact Ep]. cbn [sp_purged].
           destruct (opair_ltb (sp_purged sp) (Some u)) eqn:E3.
           ++ apply opair_eq_le.
           ++ apply opair_ltb_ge in E3. exact E3.
        -- destruct (pop_obsolete_split _ _ _ _ Ep) as (popped & P1 & _).
           destruct Hk1 as [Ho S]. split; [exact Ho|]. unfold tail_ids in *. cbn [k_closed k_open].
           rewrite P1, map_app, <- app_assoc in S. apply ss_suffix in S. exact S.
      * inversion H; subst. exact HI1.
  - eapply one_sim0; [exact HI|apply core_commit0; exact HR|exact H].
  - eapply one_sim0; [exact HI|apply core_user0; exact HR|exact H].
  - discriminate Hleg.
Qed.

(* ================================================================== Part C: the L2 system *)
Fixpoint wops_legal (s : spec) (l : list wop) : bool :=
  match l with
  | [] => true
  | w :: r => wop_legal s w && wops_legal (fst (spec_wop s w)) r
  end.
Definition spec_wops (s : spec) (l : list wop) : spec :=
  fold_left (fun s w => fst (spec_wop s w)) l s.

(* the write calls made so far, and Raft-legality of that history *)
Definition hist (z : sys2) : list wop := map fst (g_writes (z_ghost z)).
Definition hist_legal (z : sys2) : Prop := wops_legal spec0 (hist z) = true.

Lemma wops_legal_snoc l : forall s w,
  wops_legal s (l ++ [w]) = wops_legal s l && wop_legal (spec_wops s l) w.
Proof.
  induction l as [|a l IH]; intros s w; cbn [app wops_legal spec_wops fold_left].
  - rewrite andb_true_r. reflexivity.
  - rewrite IH. unfold spec_wops. rewrite andb_assoc. reflexivity.
Qed.

Lemma spec_wops_snoc l s w : spec_wops s (l ++ [w]) = fst (spec_wop (spec_wops s l) w).
Proof. unfold spec_wops. rewrite fold_left_app. reflexivity. Qed.

Definition LInv (z : sys2) : Prop := KInv (z_core z) (spec_wops spec0 (hist z)).

Lemma KInv_eqj k k' sp : core_eqj k k' -> KInv k sp -> KInv k' sp.
Proof.
  intros He (HR & [J1 J2] & Hk). pose proof He as (_ & Eo & _ & Ec & _ & Ers & Elog).
  destruct (core_eqj_ok _ _ He Hk) as (Hk' & Ht & _).
  split; [|split; [|exact Hk']].
  - destruct HR as [H1 H2 H3 H4]. constructor; rewrite ?Ers, ?Elog; assumption.
  - constructor.
    + intros e Hin. rewrite Ht. apply J1. rewrite <- Elog. exact Hin.
    + intros e c Hin Hc. rewrite Ec in Hc. apply J2; [rewrite <- Elog; exact Hin|exact Hc].
Qed.

Ltac dm H :=
  match type of H with
  | context [match ?x with _ => _ end] => destruct x eqn:?; try discriminate H
  end.
Ltac inv_step H := repeat dm H; inversion H; subst; clear H.

Lemma zwork_core z ok z' v : zwork z ok = Some (z', v) ->
  core_eqj (z_core z) (z_core z') /\ z_ghost z' = z_ghost z.
Proof.
  intros H. unfold zwork in H. inv_step H; cbn; (split; [first [apply core_eqj_refl|apply core_eqj_cache]|reflexivity]).
Qed.

Lemma linv_zstep z e z' v : (hist_legal z -> LInv z) -> zstep z e = Some (z', v) ->
  hist_legal z' -> LInv z'.
Proof.
  intros HP H Hl. destruct e as [o| |k nf|ok|]; cbn [zstep] in H.
  - unfold zcall in H. destruct (z_todo z) as [|x t]; [|discriminate]. destruct (z_dropped z); [discriminate|].
    destruct o as [w|cb|from to| | | | | |cfg'].
    + destruct (do_write (z_core z) w) as [[[k r] effs]|] eqn:Ew; [|discriminate].
      inversion H; subst z' v; clear H. unfold hist_legal, LInv, hist in *. zproj.
      rewrite map_app in *. cbn [map fst] in *. rewrite wops_legal_snoc in Hl. apply andb_true_iff in Hl as [Hl1 Hl2].
      rewrite spec_wops_snoc. eapply do_write_sim0; [apply HP; exact Hl1|exact Hl2|exact Ew].
    + destruct (do_flush (z_core z) cb) as [k effs] eqn:Ef.
      inversion H; subst z' v; clear H. unfold hist_legal, LInv, hist in *. zproj.
      specialize (HP Hl). destruct HP as (HR & [J1 J2] & Hk).
      destruct (do_flush_ok _ _ _ _ Hk Ef) as (Hk' & Ht & _).
      unfold do_flush in Ef. inversion Ef; subst k effs; clear Ef.
      split; [exact HR|]. split; [|exact Hk'].
      constructor; cbn [k_sm k_closed]; [intros e He; rewrite Ht; apply J1; exact He|exact J2].
    + destruct (do_read (z_core z) (z_disk z) from to) as [k items] eqn:Er.
      inversion H; subst z' v; clear H. unfold hist_legal, LInv, hist in *. zproj.
      eapply KInv_eqj; [|apply HP; exact Hl].
      pose proof (do_read_eqj (z_core z) (z_disk z) from to) as E. rewrite Er in E. exact E.
    + inversion H; subst z' v. apply HP. exact Hl.
    + inversion H; subst z' v. apply HP. exact Hl.
    + inversion H; subst z' v. apply HP. exact Hl.
    + destruct (z_queue z); [|discriminate]. destruct (worker_quiet z); [|discriminate].
      inversion H; subst z' v. apply HP. exact Hl.
    + inversion H; subst z' v; clear H. unfold hist_legal, LInv, hist in *. zproj.
      eapply KInv_eqj; [apply core_eqj_cache|apply HP; exact Hl].
    + discriminate.
  - unfold zeff in H. destruct (z_todo z) as [|[id|id data|r] t]; inversion H; subst z' v; clear H;
      unfold hist_legal, LInv, hist in *; zproj; apply HP; exact Hl.
  - unfold zrecv in H. inv_step H; unfold hist_legal, LInv, hist in *; zproj; apply HP; exact Hl.
  - destruct (zwork_core _ _ _ _ H) as [He Hg]. unfold hist_legal, LInv, hist in *. rewrite Hg in *.
    eapply KInv_eqj; [exact He|apply HP; exact Hl].
  - destruct (z_todo z); [|discriminate]. inversion H; subst z' v. apply HP. exact Hl.
Qed.

Lemma linv_init cfg : LInv (z0_of cfg).
Proof.
  unfold LInv, z0_of, sys2_of, hist. zproj. cbn [y_core map spec_wops fold_left].
  split; [|split].
  - destruct (R_init cfg) as [H1 H2 H3 H4 _ _ _]. constructor; assumption.
  - constructor; cbn [PurgeFacts.core0 k_sm sm_new m_log]; [intros e []|intros e c []].
  - destruct (inv_init cfg) as (gone & rmw & keep & Hc). apply (ci_core _ _ _ _ Hc).
Qed.

Theorem zreach_LInv cfg z : zreach cfg z -> hist_legal z -> LInv z.
Proof.
  intros (z0 & es & v & H0 & Hr). apply zinit_empty in H0. subst z0.
  assert (Hgen : forall es zs z v, (hist_legal zs -> LInv zs) -> zrun zs es = Some (z, v) -> hist_legal z -> LInv z).
  { clear. intros es. induction es as [|e es IH]; intros zs z v HP H; cbn [zrun] in H.
    - inversion H; subst. exact HP.
    - destruct (zstep zs e) as [[z1 v1]|] eqn:E; [|discriminate].
      destruct (zrun z1 es) as [[z2 v2]|] eqn:E2; [|discriminate]. inversion H; subst.
      eapply IH; [|exact E2]. intros Hl1. eapply linv_zstep; eassumption. }
  eapply Hgen; [|exact Hr]. intros _. apply linv_init.
Qed.

(* The statement with the legality hypothesis only,

     forall cfg z, zreach cfg z -> hist_legal z -> live_entries_have_files z,

   is false: between the in-memory part of an append that rotates the chunk and the
   creation of the new chunk file (effect XCreate still pending in z_todo) an entry can
   already point into the chunk that is about to be created
   (C08_only_dead_refuted). Added hypothesis: no API call is in progress (z_todo z = []). *)
Theorem C08_only_dead_partial : forall cfg z, zreach cfg z -> hist_legal z -> z_todo z = [] ->
  live_entries_have_files z.
Proof.
  intros cfg z Hr Hl Ht i ld Hin.
  destruct (zreach_LInv _ _ Hr Hl) as (_ & [J1 _] & _).
  destruct (zreach_Inv _ _ Hr) as (gone & rmw & keep & Hc).
  specialize (J1 (i, ld) Hin). cbn [snd] in J1.
  pose proof (ci_keep _ _ _ _ Hc) as Hk. rewrite Ht in Hk. cbn [todo_cr flat_map] in Hk. rewrite app_nil_r in Hk.
  intros Hn. apply disk_get_None in Hn. apply Hn.
  rewrite (ci_present _ _ _ _ Hc), Hk. rewrite !in_app_iff. tauto.
Qed.

Definition refute_cfg : config := mkConfig 10 1000 2 100000 false.
Definition refute_es : list zev := [ZCall (OW (OAppend [((1, 1), []); ((1, 2), [])]))].
Definition refute_z : sys2 :=
  match zrun (z0_of refute_cfg) refute_es with Some (z, _) => z | None => z0_of refute_cfg end.

Theorem C08_only_dead_refuted : exists cfg z,
  zreach cfg z /\ hist_legal z /\ ~ live_entries_have_files z.
Proof.
  exists refute_cfg, refute_z. split; [|split].
  - exists (z0_of refute_cfg), refute_es.
    assert (E : exists v, zrun (z0_of refute_cfg) refute_es = Some (refute_z, v)).
    { unfold refute_z. destruct (zrun (z0_of refute_cfg) refute_es) as [[z v]|] eqn:E; [exists v; reflexivity|].
      exfalso. vm_compute in E. discriminate. }
    destruct E as [v E]. exists v. split; [reflexivity|exact E].
  - vm_compute. reflexivity.
  - intros H.
    assert (Hin : exists ld, In (2, ld) (m_log (k_sm (z_core refute_z))) /\ ld_chunk ld = 50).
    { vm_compute. eexists. split; [right; left; reflexivity|reflexivity]. }
    destruct Hin as (ld & Hin & Hc). apply (H 2 ld Hin). rewrite Hc. vm_compute. reflexivity.
Qed.

Print Assumptions C08_only_dead_partial.
Print Assumptions C08_only_dead_refuted.
