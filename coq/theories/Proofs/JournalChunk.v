(* Chunk bookkeeping facts (ck_push, ck_last_segment, ends_from, try_close,
   append_and_apply) and the caller-side half [jinv] of the journal invariant of
   property C11, as a predicate on (core, ids of the logical directory, bytes of each
   logical file).  No worker, no disk in this file. *)
From Coq Require Import List NArith Lia Bool Arith Sorting.Sorted.
From Coq.Strings Require Import Byte.
From RaftLog Require Import Base.Bytes Model.Types Model.Codec Model.Cache Model.Core
  Model.Recover Model.Run.
From RaftLog Require Import Proofs.CodecFacts Proofs.JournalDisk.
Import ListNotations.
Local Open Scope N_scope.
Local Arguments N.add : simpl never.
Local Arguments N.sub : simpl never.
Local Arguments N.mul : simpl never.
Local Arguments N.eqb : simpl never.
Local Arguments N.ltb : simpl never.
Local Arguments N.leb : simpl never.
Local Arguments N.compare : simpl never.
Local Arguments N.of_nat : simpl never.
Local Arguments enc_record : simpl never.

Definition blen (b : bytes) : N := N.of_nat (length b).
Definition encs (rs : list record) : bytes := concat (map enc_record rs).

Lemma blen_app a b : blen (a ++ b) = blen a + blen b.
Proof. unfold blen. rewrite app_length. lia. Qed.
Lemma blen_nil : blen [] = 0.
Proof. reflexivity. Qed.
Lemma encs_app a b : encs (a ++ b) = encs a ++ encs b.
Proof. unfold encs. rewrite map_app, concat_app. reflexivity. Qed.
Lemma encs_one r : encs [r] = enc_record r.
Proof. unfold encs. cbn [map concat]. apply app_nil_r. Qed.
Lemma encs_cons r rs : encs (r :: rs) = enc_record r ++ encs rs.
Proof. reflexivity. Qed.
Lemma rec_size_blen r : rec_size r = blen (enc_record r).
Proof. reflexivity. Qed.
Lemma rec_size_pos r : 0 < rec_size r.
Proof. unfold rec_size. pose proof (enc_record_min_len r). lia. Qed.

(* ------------------------------------------------------------------ lists *)
Lemma last_cons {A} (l : list A) : forall x d, last (x :: l) d = last l x.
Proof.
  induction l as [|y l IH]; intros x d; [reflexivity|].
  change (last (x :: y :: l) d) with (last (y :: l) d). rewrite IH.
  symmetry. apply IH.
Qed.

Lemma last_rev {A} (l : list A) d : last l d = match rev l with [] => d | e :: _ => e end.
Proof.
  induction l as [|x l IH] using rev_ind; [reflexivity|].
  rewrite last_last, rev_app_distr. reflexivity.
Qed.

(* ------------------------------------------------------------------ chunks *)
Lemma ck_end_push c n : ck_end (ck_push c n) = ck_end c + n.
Proof. unfold ck_end, ck_push. simpl. apply last_last. Qed.

Lemma ck_id_push c n : ck_id (ck_push c n) = ck_id c.
Proof. reflexivity. Qed.

Lemma ck_last_segment_push c n : ck_last_segment (ck_push c n) = Ret (ck_end c, n).
Proof.
  unfold ck_last_segment, ck_push. simpl. rewrite rev_app_distr. simpl.
  unfold ck_end. rewrite last_rev. destruct (rev (ck_ends c)) as [|e r]; f_equal; f_equal; lia.
Qed.

Lemma ck_records_push c n : ck_records (ck_push c n) = ck_records c + 1.
Proof. unfold ck_records, ck_push. simpl. rewrite app_length. simpl. lia. Qed.

Fixpoint nsum (l : list N) : N := match l with [] => 0 | a :: r => a + nsum r end.

Lemma ends_from_last l : forall s, last (ends_from s l) s = s + nsum l.
Proof.
  induction l as [|a l IH]; intros s; cbn [ends_from nsum]; [simpl; lia|].
  rewrite last_cons, IH. lia.
Qed.

Lemma ends_from_app a : forall s b,
  ends_from s (a ++ b) = ends_from s a ++ ends_from (s + nsum a) b.
Proof.
  induction a as [|x a IH]; intros s b; simpl.
  - rewrite N.add_0_r. reflexivity.
  - rewrite IH. f_equal. f_equal. f_equal. lia.
Qed.

Lemma nsum_sizes rs : nsum (map rec_size rs) = blen (encs rs).
Proof.
  induction rs as [|r rs IH]; [reflexivity|].
  simpl. rewrite IH, encs_cons, blen_app. reflexivity.
Qed.

Lemma ends_from_end s rs : last (ends_from s (map rec_size rs)) s = s + blen (encs rs).
Proof. rewrite ends_from_last, nsum_sizes. reflexivity. Qed.

Lemma ends_from_snoc s rs r :
  ends_from s (map rec_size (rs ++ [r])) =
  ends_from s (map rec_size rs) ++ [s + blen (encs rs) + rec_size r].
Proof. rewrite map_app, ends_from_app, nsum_sizes. reflexivity. Qed.

(* ------------------------------------------------------------------ try_close / append_and_apply *)
Definition rotated (k1 : core) : core :=
  let off := ck_end (k_open k1) in
  let head := enc_record (RState (m_rs (k_sm k1))) in
  mkCore (k_cfg k1) (k_sm k1) (ck_push (mkChunk off []) (blen head)) []
         (closed_insert (mkClosed (k_open k1) (m_rs (k_sm k1)) false) (k_closed k1))
         (k_removed k1) (k_hit k1) (k_miss k1) (k_next_cb k1).

Definition rotate_effs (k1 : core) : list eff :=
  let off := ck_end (k_open k1) in
  [ECreate off (enc_record (RState (m_rs (k_sm k1))))] ++
  (match k_pending k1 with [] => [] | _ => [ESend (WWrite off (k_pending k1) None)] end) ++
  [ESend (WAppendFile off (r_last (m_rs (k_sm k1))))].

(* the chunk that try_close inspects always is the result of a push *)
Lemma try_close_cases k1 c n k' effs : k_open k1 = ck_push c n ->
  try_close k1 = Ret (k', effs) ->
  (is_full (k_cfg k1) (k_open k1) = false /\ k' = k1 /\ effs = []) \/
  (is_full (k_cfg k1) (k_open k1) = true /\ k' = rotated k1 /\ effs = rotate_effs k1).
Proof.
  intros Ho H. unfold try_close in H.
  destruct (is_full (k_cfg k1) (k_open k1)) eqn:F.
  - right. rewrite Ho, ck_last_segment_push in H. rewrite <- ck_end_push, <- Ho in H.
    inversion H; subst. split; [reflexivity|]. split; reflexivity.
  - left. inversion H; subst. auto.
Qed.

Lemma try_close_no_panic k1 c n : k_open k1 = ck_push c n -> try_close k1 <> Panic.
Proof.
  intros Ho. unfold try_close. destruct (is_full (k_cfg k1) (k_open k1)); [|discriminate].
  rewrite Ho, ck_last_segment_push. discriminate.
Qed.

Definition appended (k : core) (r : record) (sm1 : sm) : core :=
  mkCore (k_cfg k) sm1 (ck_push (k_open k) (rec_size r)) (k_pending k ++ enc_record r)
         (k_closed k) (k_removed k) (k_hit k) (k_miss k) (k_next_cb k).

Lemma sm_apply_ok s r c seg sm1 oe :
  rs_validate (m_rs s) r = None -> sm_apply s r c seg = (sm1, oe) ->
  oe = None /\ rs_apply (m_rs s) r = inl (m_rs sm1).
Proof.
  intros Hv H. unfold sm_apply in H.
  destruct (rs_apply (m_rs s) r) as [rs'|e] eqn:E.
  - destruct r; simpl in H; inversion H; subst; split; reflexivity.
  - unfold rs_apply in E. rewrite Hv in E. discriminate.
Qed.

Lemma append_and_apply_cases k r k' w effs :
  append_and_apply k r = Ret (k', w, effs) ->
  (k' = k /\ effs = [] /\ exists e, w = WErr e) \/
  (exists sm1,
     rs_validate (m_rs (k_sm k)) r = None /\
     sm_apply (k_sm k) r (ck_id (k_open k)) (ck_end (k_open k), rec_size r) = (sm1, None) /\
     w = WOk (ck_end (k_open k)) (rec_size r) /\
     try_close (appended k r sm1) = Ret (k', effs)).
Proof.
  unfold append_and_apply. intros H.
  destruct (index_limit r); [inversion H; subst; left; eauto|].
  destruct (rs_validate (m_rs (k_sm k)) r) as [e|] eqn:Hv; [inversion H; subst; left; eauto|].
  change (N.of_nat (length (enc_record r))) with (rec_size r) in H.
  rewrite ck_last_segment_push in H. rewrite ck_id_push in H.
  destruct (sm_apply (k_sm k) r (ck_id (k_open k)) (ck_end (k_open k), rec_size r))
    as [sm1 oe] eqn:Es.
  destruct (sm_apply_ok _ _ _ _ _ _ Hv Es) as [Eo _]. subst oe.
  right. exists sm1. split; [reflexivity|]. split; [reflexivity|].
  fold (appended k r sm1) in H.
  destruct (try_close (appended k r sm1)) as [[k2 ef]|] eqn:Et; [|discriminate].
  simpl in H. inversion H; subst. auto.
Qed.

Lemma append_and_apply_no_panic k r : append_and_apply k r <> Panic.
Proof.
  unfold append_and_apply.
  destruct (index_limit r); [discriminate|].
  destruct (rs_validate (m_rs (k_sm k)) r) as [e|] eqn:Hv; [discriminate|].
  change (N.of_nat (length (enc_record r))) with (rec_size r).
  rewrite ck_last_segment_push, ck_id_push.
  destruct (sm_apply (k_sm k) r (ck_id (k_open k)) (ck_end (k_open k), rec_size r))
    as [sm1 oe] eqn:Es.
  destruct (sm_apply_ok _ _ _ _ _ _ Hv Es) as [Eo _]. subst oe.
  fold (appended k r sm1).
  destruct (try_close (appended k r sm1)) as [[k2 ef]|] eqn:Et; [discriminate|].
  exfalso. eapply try_close_no_panic; [|exact Et]. reflexivity.
Qed.

(* ---- C11_rotation: a chunk that is full when a write returns has just been started ---- *)
Theorem C11_rotation : forall k r k' off len effs,
  append_and_apply k r = Ret (k', WOk off len, effs) ->
  is_full (k_cfg k') (k_open k') = true -> ck_records (k_open k') = 1%N.
Proof.
  intros k r k' off len effs H F.
  apply append_and_apply_cases in H as [(_ & _ & e & He)|(sm1 & _ & _ & _ & Ht)];
    [discriminate|].
  eapply try_close_cases in Ht as [(F' & E & _)|(_ & E & _)]; [| |reflexivity].
  - subst k'. rewrite F' in F. discriminate.
  - subst k'. reflexivity.
Qed.

(* ------------------------------------------------------------------ the caller-side invariant *)
Definition closed_ids (k : core) : list N := map (fun c => ck_id (cl_chunk c)) (k_closed k).
Definition chunk_ids (k : core) : list N := k_removed k ++ closed_ids k ++ [ck_id (k_open k)].
Definition live_chunks (k : core) : list chunk := map cl_chunk (k_closed k) ++ [k_open k].

Definition chunk_ok (fb : N -> bytes) (c : chunk) : Prop :=
  exists rs, Forall wf_record rs /\ fb (ck_id c) = encs rs /\
             ck_ends c = ends_from (ck_id c) (map rec_size rs) /\
             exists st tl, rs = RState st :: tl.

Fixpoint abut (fb : N -> bytes) (l : list N) : Prop :=
  match l with
  | a :: r => match r with [] => True | b :: _ => b = a + blen (fb a) end /\ abut fb r
  | [] => True
  end.

Definition entry_ok (idl : list N) (fb : N -> bytes) (o : N) (ld : logdata) : Prop :=
  wf_pair (ld_id ld) /\ ld_chunk ld <= o /\
  (In (ld_chunk ld) idl ->
   exists pre p post, wf_bytes p /\
     fb (ld_chunk ld) = pre ++ enc_record (RAppend (ld_id ld) p) ++ post /\
     ld_off ld = ld_chunk ld + blen pre /\ ld_len ld = rec_size (RAppend (ld_id ld) p)).

(* the file that follows a closed chunk starts with the snapshot of the state that
   was current when that chunk was closed *)
Fixpoint heads_ok (fb : N -> bytes) (cl : list closed) (o : N) : Prop :=
  match cl with
  | [] => True
  | c :: r =>
    (exists tl, fb (match r with [] => o | c' :: _ => ck_id (cl_chunk c') end)
                = enc_record (RState (cl_state c)) ++ tl) /\ heads_ok fb r o
  end.

Record jinv (k : core) (idl : list N) (fb : N -> bytes) : Prop := mkJinv {
  ji_ids : idl = chunk_ids k;
  ji_sorted : StronglySorted N.lt idl;
  ji_abut : abut fb idl;
  ji_chunks : Forall (chunk_ok fb) (live_chunks k);
  ji_heads : heads_ok fb (k_closed k) (ck_id (k_open k));
  ji_rs : wf_rstate (m_rs (k_sm k));
  ji_log : Forall (fun e => entry_ok idl fb (ck_id (k_open k)) (snd e)) (m_log (k_sm k)) }.

(* ---- abut ---- *)
Lemma abut_ext fb fb' l : (forall j, In j l -> fb' j = fb j) -> abut fb l -> abut fb' l.
Proof.
  induction l as [|a l IH]; intros He H; [exact I|].
  simpl in *. destruct H as [H1 H2]. split.
  - destruct l as [|b l']; [exact I|]. rewrite He by (left; reflexivity). assumption.
  - apply IH; [|assumption]. intros j Ij. apply He. right; assumption.
Qed.

Lemma abut_app_r fb l1 l2 : abut fb (l1 ++ l2) -> abut fb l2.
Proof.
  induction l1 as [|a l1 IH]; intros H; [assumption|].
  simpl in H. apply IH. apply H.
Qed.

Lemma abut_snoc fb pre o off : abut fb (pre ++ [o]) -> off = o + blen (fb o) ->
  abut fb ((pre ++ [o]) ++ [off]).
Proof.
  induction pre as [|a pre IH]; intros H Hoff.
  - simpl. auto.
  - simpl in H. destruct H as [H1 H2]. simpl. split.
    + destruct pre; simpl in *; assumption.
    + apply IH; assumption.
Qed.

Lemma abut_change_last fb fb' pre o : (forall j, In j pre -> fb' j = fb j) ->
  abut fb (pre ++ [o]) -> abut fb' (pre ++ [o]).
Proof.
  induction pre as [|a pre IH]; intros He H.
  - simpl. auto.
  - simpl in H. destruct H as [H1 H2]. simpl. split.
    + rewrite He by (left; reflexivity). assumption.
    + apply IH; [|assumption]. intros j Ij. apply He. right; assumption.
Qed.

(* what [abut] means: any two neighbours in the list abut *)
Lemma abut_spec fb l : abut fb l ->
  forall pre a b post, l = pre ++ a :: b :: post -> b = a + blen (fb a).
Proof.
  intros H pre a b post E. subst l. apply abut_app_r in H. simpl in H. apply H.
Qed.

Lemma abut_total fb l : forall a z, abut fb (a :: l) -> last (a :: l) a = z ->
  z + blen (fb z) - a = nsum (map (fun j => blen (fb j)) (a :: l)).
Proof.
  induction l as [|b l IH]; intros a z H Hz.
  - simpl in *. subst z. lia.
  - simpl in H. destruct H as [H1 H2].
    change (last (a :: b :: l) a) with (last (b :: l) a) in Hz.
    rewrite last_cons in Hz.
    assert (Hz' : last (b :: l) b = z) by (rewrite last_cons; assumption).
    specialize (IH b z (conj (proj1 H2) (proj2 H2)) Hz').
    change (nsum (map (fun j => blen (fb j)) (a :: b :: l)))
      with (blen (fb a) + nsum (map (fun j => blen (fb j)) (b :: l))).
    rewrite <- IH.
    assert (b <= z + blen (fb z)).
    { clear - H2 Hz'. revert b z H2 Hz'. induction l as [|c l IHl]; intros b z H2 Hz'.
      - simpl in Hz'. subst z. lia.
      - simpl in H2. destruct H2 as [E H3].
        change (last (b :: c :: l) b) with (last (c :: l) b) in Hz'. rewrite last_cons in Hz'.
        assert (Hz'' : last (c :: l) c = z) by (rewrite last_cons; assumption).
        specialize (IHl c z H3 Hz''). lia. }
    lia.
Qed.

(* ---- heads_ok ---- *)
Lemma heads_ok_ext fb fb' cl o :
  (forall j, In j (map (fun c => ck_id (cl_chunk c)) cl ++ [o]) -> exists t, fb' j = fb j ++ t) ->
  heads_ok fb cl o -> heads_ok fb' cl o.
Proof.
  induction cl as [|c r IH]; intros He H; [exact I|].
  cbn [heads_ok] in H |- *. destruct H as [(tl & H1) H2]. split.
  - destruct (He (match r with [] => o | c' :: _ => ck_id (cl_chunk c') end)) as [t Et].
    { destruct r; cbn [map app]; right; left; reflexivity. }
    exists (tl ++ t). rewrite Et, H1, app_assoc. reflexivity.
  - apply IH; [|assumption]. intros j Ij. apply He. cbn [map app]. right. assumption.
Qed.

Lemma heads_ok_suffix fb pre rest o : heads_ok fb (pre ++ rest) o -> heads_ok fb rest o.
Proof.
  induction pre as [|c pre IH]; intros H; [assumption|]. cbn [app heads_ok] in H. apply IH, H.
Qed.

Lemma heads_ok_snoc fb cl o cnew off :
  heads_ok fb cl o -> ck_id (cl_chunk cnew) = o ->
  (exists tl, fb off = enc_record (RState (cl_state cnew)) ++ tl) ->
  heads_ok fb (cl ++ [cnew]) off.
Proof.
  induction cl as [|c r IH]; intros H Eo Hn.
  - cbn [app heads_ok]. auto.
  - cbn [heads_ok] in H. destruct H as [H1 H2]. cbn [app heads_ok]. split.
    + destruct r as [|c' r']; cbn [app]; [rewrite Eo|]; assumption.
    + apply IH; assumption.
Qed.

(* ---- chunk_ok ---- *)
Lemma chunk_ok_ext fb fb' c : fb' (ck_id c) = fb (ck_id c) -> chunk_ok fb c -> chunk_ok fb' c.
Proof. intros E (rs & H1 & H2 & H3 & H4). exists rs. rewrite E. auto. Qed.

Lemma chunk_ok_end fb c : chunk_ok fb c -> ck_end c = ck_id c + blen (fb (ck_id c)).
Proof.
  intros (rs & H1 & H2 & H3 & H4). unfold ck_end. rewrite H3, H2. apply ends_from_end.
Qed.

Lemma chunk_ok_nonempty fb c : chunk_ok fb c -> 0 < blen (fb (ck_id c)).
Proof.
  intros (rs & H1 & H2 & H3 & st & tl & H4). subst rs. rewrite H2, encs_cons, blen_app.
  pose proof (rec_size_pos (RState st)). unfold rec_size in H. unfold blen. lia.
Qed.

Lemma chunk_ok_push fb fb' c r : chunk_ok fb c -> wf_record r ->
  fb' (ck_id c) = fb (ck_id c) ++ enc_record r -> chunk_ok fb' (ck_push c (rec_size r)).
Proof.
  intros Hc Hr E. pose proof (chunk_ok_end _ _ Hc) as He.
  destruct Hc as (rs & H1 & H2 & H3 & st & tl & H4).
  exists (rs ++ [r]). split; [|split; [|split]].
  - apply Forall_app. split; [assumption|]. constructor; [assumption|constructor].
  - rewrite ck_id_push, E, H2, encs_app, encs_one. reflexivity.
  - rewrite ck_id_push, ends_from_snoc. unfold ck_push. simpl. rewrite He, H2, H3. reflexivity.
  - exists st, (tl ++ [r]). subst rs. reflexivity.
Qed.

Lemma chunk_ok_fresh fb st off : wf_rstate st -> fb off = enc_record (RState st) ->
  chunk_ok fb (ck_push (mkChunk off []) (blen (enc_record (RState st)))).
Proof.
  intros Hw E. exists [RState st]. split; [|split; [|split]].
  - constructor; [exact Hw|constructor].
  - rewrite ck_id_push. simpl. rewrite E, encs_one. reflexivity.
  - reflexivity.
  - exists st, []. reflexivity.
Qed.

(* ---- structure of the id list ---- *)
Lemma closed_insert_last x l :
  Forall (fun c => ck_id (cl_chunk c) < ck_id (cl_chunk x)) l -> closed_insert x l = l ++ [x].
Proof.
  induction l as [|c l IH]; intros H; [reflexivity|].
  inversion H as [|? ? H1 H2]; subst. simpl.
  destruct (N.compare_spec (ck_id (cl_chunk x)) (ck_id (cl_chunk c))) as [E|L|G]; try lia.
  rewrite IH by assumption. reflexivity.
Qed.

Section JinvFacts.
Variables (k : core) (idl : list N) (fb : N -> bytes).
Hypothesis J : jinv k idl fb.

Lemma ji_closed_lt c : In c (k_closed k) -> ck_id (cl_chunk c) < ck_id (k_open k).
Proof.
  intros I. pose proof (ji_sorted _ _ _ J) as S. rewrite (ji_ids _ _ _ J) in S.
  unfold chunk_ids in S. apply ss_app_inv in S as (_ & S & _).
  apply ss_app_inv in S as (_ & _ & S). apply S; [|left; reflexivity].
  unfold closed_ids. apply (in_map (fun c => ck_id (cl_chunk c))). assumption.
Qed.

Lemma ji_removed_lt j : In j (k_removed k) -> j < ck_id (k_open k).
Proof.
  intros I. pose proof (ji_sorted _ _ _ J) as S. rewrite (ji_ids _ _ _ J) in S.
  unfold chunk_ids in S. apply ss_app_inv in S as (_ & _ & S). apply S; [assumption|].
  apply in_app_iff. right. left. reflexivity.
Qed.

Lemma ji_ids_le j : In j idl -> j <= ck_id (k_open k).
Proof.
  rewrite (ji_ids _ _ _ J). unfold chunk_ids. rewrite !in_app_iff. intros [I|[I|[I|[]]]].
  - apply ji_removed_lt in I. lia.
  - unfold closed_ids in I. apply in_map_iff in I as (c & E & I). subst j.
    apply ji_closed_lt in I. lia.
  - lia.
Qed.

Lemma ji_open_in : In (ck_id (k_open k)) idl.
Proof. rewrite (ji_ids _ _ _ J). unfold chunk_ids. rewrite !in_app_iff. right. right. left. reflexivity. Qed.

Lemma ji_open_ok : chunk_ok fb (k_open k).
Proof.
  pose proof (ji_chunks _ _ _ J) as H. unfold live_chunks in H.
  apply Forall_app in H as [_ H]. inversion H; assumption.
Qed.

Lemma ji_closed_ok c : In c (k_closed k) -> chunk_ok fb (cl_chunk c).
Proof.
  intros I. pose proof (ji_chunks _ _ _ J) as H. unfold live_chunks in H.
  apply Forall_app in H as [H _]. rewrite Forall_forall in H. apply H. apply in_map. assumption.
Qed.

Lemma ji_idl_split : idl = (k_removed k ++ closed_ids k) ++ [ck_id (k_open k)].
Proof. rewrite (ji_ids _ _ _ J). unfold chunk_ids. rewrite app_assoc. reflexivity. Qed.

Lemma ji_pre_lt j : In j (k_removed k ++ closed_ids k) -> j < ck_id (k_open k).
Proof.
  rewrite in_app_iff. intros [I|I]; [apply ji_removed_lt; assumption|].
  unfold closed_ids in I. apply in_map_iff in I as (c & E & I). subst j.
  apply ji_closed_lt. assumption.
Qed.

Lemma ji_open_end : ck_end (k_open k) = ck_id (k_open k) + blen (fb (ck_id (k_open k))).
Proof. apply chunk_ok_end, ji_open_ok. Qed.
End JinvFacts.

(* ---- state-machine bookkeeping ---- *)
Lemma In_lm_insert e i v m : In e (lm_insert i v m) -> e = (i, v) \/ In e m.
Proof.
  induction m as [|[i' v'] m IH]; simpl.
  - intros [H|[]]. left; symmetry; assumption.
  - destruct (N.compare i i'); simpl.
    + intros [H|H]; [left; symmetry; assumption|right; right; assumption].
    + intros [H|H]; [left; symmetry; assumption|right; assumption].
    + intros [H|H]; [right; left; assumption|].
      destruct (IH H) as [H1|H1]; [left; assumption|right; right; assumption].
Qed.

Lemma sm_apply_log s r c seg e :
  In e (m_log (fst (sm_apply s r c seg))) ->
  In e (m_log s) \/
  exists id p, r = RAppend id p /\ e = (lid_index id, mkLD id c (fst seg) (snd seg)).
Proof.
  unfold sm_apply.
  destruct r as [v|id p|id|o|id|st]; destruct (rs_apply (m_rs s) _); simpl; intros H;
    try (left; assumption).
  - apply In_lm_insert in H as [H|H]; [right; eauto|left; assumption].
  - apply In_lm_insert in H as [H|H]; [right; eauto|left; assumption].
  - left. unfold lm_keep_lt in H. apply filter_In in H. apply H.
  - left. unfold lm_keep_lt in H. apply filter_In in H. apply H.
  - left. unfold lm_keep_ge in H. apply filter_In in H. apply H.
  - left. unfold lm_keep_ge in H. apply filter_In in H. apply H.
Qed.

Lemma rs_apply_wf s r s' : wf_rstate s -> wf_record r -> rs_apply s r = inl s' -> wf_rstate s'.
Proof.
  unfold rs_apply. destruct (rs_validate s r); [discriminate|].
  intros Hs Hr H. inversion H; subst; clear H.
  destruct s as [v l c p u]. unfold wf_rstate in *. simpl in Hs.
  destruct Hs as (H1 & H2 & H3 & H4 & H5).
  destruct r as [v'|id pl|id|o|id|st]; simpl in *.
  - tauto.
  - tauto.
  - tauto.
  - destruct (opair_ltb o l); simpl; tauto.
  - destruct (opair_ltb p (Some id)); simpl;
      match goal with |- context [if ?b then _ else _] => destruct b end; simpl; tauto.
  - exact Hr.
Qed.

(* ------------------------------------------------------------------ preservation of jinv *)
(* A: an accepted record, before the rotation check *)
Lemma jinv_append k idl fb r sm1 fb' :
  jinv k idl fb -> wf_record r -> rs_validate (m_rs (k_sm k)) r = None ->
  sm_apply (k_sm k) r (ck_id (k_open k)) (ck_end (k_open k), rec_size r) = (sm1, None) ->
  fb' (ck_id (k_open k)) = fb (ck_id (k_open k)) ++ enc_record r ->
  (forall j, j <> ck_id (k_open k) -> fb' j = fb j) ->
  jinv (appended k r sm1) idl fb'.
Proof.
  intros J Hr Hv Hs Eo Eother.
  set (o := ck_id (k_open k)) in *.
  assert (Hpre : forall j, In j (k_removed k ++ closed_ids k) -> fb' j = fb j).
  { intros j I. apply Eother. pose proof (ji_pre_lt _ _ _ J j I). fold o in H. lia. }
  constructor.
  - rewrite (ji_ids _ _ _ J). reflexivity.
  - apply (ji_sorted _ _ _ J).
  - rewrite (ji_idl_split _ _ _ J). apply abut_change_last with (fb := fb); [exact Hpre|].
    rewrite <- (ji_idl_split _ _ _ J). apply (ji_abut _ _ _ J).
  - unfold live_chunks, appended. simpl. apply Forall_app. split.
    + rewrite Forall_forall. intros c Ic. apply in_map_iff in Ic as (cl & E & Icl). subst c.
      apply chunk_ok_ext with (fb := fb); [|apply (ji_closed_ok _ _ _ J); assumption].
      apply Eother. pose proof (ji_closed_lt _ _ _ J _ Icl). fold o in H. lia.
    + constructor; [|constructor].
      apply chunk_ok_push with (fb := fb); [apply (ji_open_ok _ _ _ J)|assumption|exact Eo].
  - simpl. apply heads_ok_ext with (fb := fb); [|apply (ji_heads _ _ _ J)].
    intros j _. destruct (N.eq_dec j o) as [E|E].
    + subst j. exists (enc_record r). exact Eo.
    + exists []. rewrite app_nil_r. apply Eother. assumption.
  - simpl. destruct (sm_apply_ok _ _ _ _ _ _ Hv Hs) as [_ E].
    eapply rs_apply_wf; [apply (ji_rs _ _ _ J)|exact Hr|exact E].
  - simpl. rewrite Forall_forall. intros e Ie.
    replace sm1 with (fst (sm_apply (k_sm k) r o (ck_end (k_open k), rec_size r))) in Ie
      by (rewrite Hs; reflexivity).
    apply sm_apply_log in Ie as [Ie|(id & p & Er & Ee)].
    + pose proof (ji_log _ _ _ J) as HL. rewrite Forall_forall in HL. specialize (HL e Ie).
      fold o in HL. destruct HL as (W & Hle & Hseg). split; [assumption|]. split; [assumption|].
      intros I. destruct (Hseg I) as (pre & p & post & Wp & Ef & Eoff & Elen).
      destruct (N.eq_dec (ld_chunk (snd e)) o) as [Ec|Ec].
      * exists pre, p, (post ++ enc_record r). split; [assumption|]. split; [|split; assumption].
        rewrite Ec in *. rewrite Eo, Ef, <- !app_assoc. reflexivity.
      * exists pre, p, post. rewrite Eother by assumption. auto.
    + subst e r. unfold entry_ok. cbn [snd fst ld_id ld_chunk ld_off ld_len]. simpl in Hr. destruct Hr as [Wid Wp].
      split; [assumption|]. split; [apply N.le_refl|]. intros _.
      exists (fb o), p, []. split; [assumption|]. split; [|split].
      * rewrite Eo, app_nil_r. reflexivity.
      * apply (ji_open_end _ _ _ J).
      * reflexivity.
Qed.

(* B: rotation *)
Lemma jinv_rotate k1 idl fb fb' :
  jinv k1 idl fb ->
  fb' (ck_end (k_open k1)) = enc_record (RState (m_rs (k_sm k1))) ->
  (forall j, j <> ck_end (k_open k1) -> fb' j = fb j) ->
  jinv (rotated k1) (idl ++ [ck_end (k_open k1)]) fb'.
Proof.
  intros J Eh Eother.
  set (o := ck_id (k_open k1)) in *. set (off := ck_end (k_open k1)) in *.
  assert (Hoff : off = o + blen (fb o)) by apply (ji_open_end _ _ _ J).
  assert (Hlt : o < off).
  { pose proof (chunk_ok_nonempty _ _ (ji_open_ok _ _ _ J)). fold o in H. lia. }
  assert (Hin : forall j, In j idl -> fb' j = fb j).
  { intros j I. apply Eother. pose proof (ji_ids_le _ _ _ J j I). fold o in H. lia. }
  assert (Hci : closed_insert (mkClosed (k_open k1) (m_rs (k_sm k1)) false) (k_closed k1) =
                k_closed k1 ++ [mkClosed (k_open k1) (m_rs (k_sm k1)) false]).
  { apply closed_insert_last. rewrite Forall_forall. intros c Ic. simpl.
    apply (ji_closed_lt _ _ _ J). assumption. }
  constructor.
  - rewrite (ji_ids _ _ _ J). unfold chunk_ids, closed_ids, rotated. simpl.
    rewrite Hci, map_app. simpl. rewrite <- !app_assoc. reflexivity.
  - apply ss_app; [apply (ji_sorted _ _ _ J)|repeat constructor|].
    intros a b Ia [Eb|[]]. subst b. pose proof (ji_ids_le _ _ _ J a Ia). fold o in H. lia.
  - rewrite (ji_idl_split _ _ _ J).
    apply abut_snoc.
    + rewrite <- (ji_idl_split _ _ _ J).
      apply abut_ext with (fb := fb); [exact Hin|apply (ji_abut _ _ _ J)].
    + rewrite Hin by apply (ji_open_in _ _ _ J). exact Hoff.
  - unfold live_chunks, rotated. simpl. rewrite Hci, map_app. simpl.
    apply Forall_app. split.
    + pose proof (ji_chunks _ _ _ J) as HC. unfold live_chunks in HC.
      rewrite Forall_forall in *. intros c Ic. apply chunk_ok_ext with (fb := fb); [|apply HC, Ic].
      apply Hin. rewrite (ji_ids _ _ _ J). unfold chunk_ids, closed_ids.
      apply in_app_iff. right. apply in_app_iff in Ic as [Ic|[Ic|[]]].
      * apply in_app_iff. left. apply in_map_iff in Ic as (cl & E & Icl). subst c.
        apply (in_map (fun c => ck_id (cl_chunk c))). assumption.
      * subst c. apply in_app_iff. right. left. reflexivity.
    + constructor; [|constructor]. fold off.
      apply chunk_ok_fresh; [apply (ji_rs _ _ _ J)|exact Eh].
  - unfold rotated. cbn [k_closed k_open]. rewrite Hci, ck_id_push. cbn [ck_id]. fold off.
    apply heads_ok_snoc with (o := o).
    + apply heads_ok_ext with (fb := fb); [|apply (ji_heads _ _ _ J)].
      intros j Ij. exists []. rewrite app_nil_r. apply Hin.
      rewrite (ji_ids _ _ _ J). unfold chunk_ids. apply in_app_iff. right. exact Ij.
    + reflexivity.
    + exists []. rewrite app_nil_r. exact Eh.
  - apply (ji_rs _ _ _ J).
  - simpl. fold off. pose proof (ji_log _ _ _ J) as HL. rewrite Forall_forall in *.
    intros e Ie. specialize (HL e Ie). fold o in HL. destruct HL as (W & Hle & Hseg).
    split; [assumption|]. split; [lia|]. intros I.
    apply in_app_iff in I as [I|[I|[]]]; [|lia].
    destruct (Hseg I) as (pre & p & post & Wp & Ef & Eoff & Elen).
    exists pre, p, post. rewrite Hin by assumption. auto.
Qed.

(* C: purge moves a prefix of the closed chunks to the removed list *)
Lemma pop_obsolete_spec upto cl : forall rm rest, pop_obsolete upto cl = (rm, rest) ->
  exists pre, cl = pre ++ rest /\ rm = map (fun c => ck_id (cl_chunk c)) pre.
Proof.
  induction cl as [|c cl IH]; intros rm rest H; simpl in H.
  - inversion H; subst. exists []. auto.
  - destruct (opair_ltb (Some upto) (r_last (cl_state c))).
    + inversion H; subst. exists []. auto.
    + destruct (pop_obsolete upto cl) as [rm' rest'] eqn:E. inversion H; subst.
      destruct (IH _ _ eq_refl) as (pre & E1 & E2). exists (c :: pre). subst. auto.
Qed.

Definition purged_core (k : core) (rm : list N) (rest : list closed) : core :=
  mkCore (k_cfg k) (k_sm k) (k_open k) (k_pending k) rest (k_removed k ++ rm)
         (k_hit k) (k_miss k) (k_next_cb k).

Lemma jinv_purge k idl fb upto rm rest :
  jinv k idl fb -> pop_obsolete upto (k_closed k) = (rm, rest) ->
  jinv (purged_core k rm rest) idl fb.
Proof.
  intros J H. apply pop_obsolete_spec in H as (pre & E1 & E2).
  constructor.
  - rewrite (ji_ids _ _ _ J). unfold chunk_ids, closed_ids, purged_core. simpl.
    rewrite E1, E2, map_app, <- !app_assoc. reflexivity.
  - apply (ji_sorted _ _ _ J).
  - apply (ji_abut _ _ _ J).
  - pose proof (ji_chunks _ _ _ J) as HC. unfold live_chunks, purged_core in *. simpl.
    rewrite E1, map_app, <- app_assoc in HC. apply Forall_app in HC. apply HC.
  - pose proof (ji_heads _ _ _ J) as HH. rewrite E1 in HH. apply heads_ok_suffix in HH. exact HH.
  - apply (ji_rs _ _ _ J).
  - apply (ji_log _ _ _ J).
Qed.

(* D: flush drops the removed files *)
Definition flushed_core (k : core) (cbn : N) : core :=
  mkCore (k_cfg k) (k_sm k) (k_open k) [] (k_closed k) [] (k_hit k) (k_miss k) cbn.

Lemma jinv_flush k idl fb fb' cbn :
  jinv k idl fb ->
  (forall j, In j (closed_ids k ++ [ck_id (k_open k)]) -> fb' j = fb j) ->
  jinv (flushed_core k cbn) (closed_ids k ++ [ck_id (k_open k)]) fb'.
Proof.
  intros J He.
  pose proof (ji_sorted _ _ _ J) as S. rewrite (ji_ids _ _ _ J) in S. unfold chunk_ids in S.
  constructor.
  - reflexivity.
  - apply ss_app_inv in S. apply S.
  - apply abut_ext with (fb := fb); [exact He|].
    pose proof (ji_abut _ _ _ J) as A. rewrite (ji_ids _ _ _ J) in A.
    apply abut_app_r in A. exact A.
  - pose proof (ji_chunks _ _ _ J) as HC. unfold live_chunks, flushed_core in *. simpl.
    rewrite Forall_forall in *. intros c Ic. apply chunk_ok_ext with (fb := fb); [|apply HC, Ic].
    apply He. apply in_app_iff in Ic as [Ic|[Ic|[]]]; apply in_app_iff.
    + left. apply in_map_iff in Ic as (cl & E & Icl). subst c.
      apply (in_map (fun c => ck_id (cl_chunk c))). assumption.
    + right. left. subst c. reflexivity.
  - simpl. apply heads_ok_ext with (fb := fb); [|apply (ji_heads _ _ _ J)].
    intros j Ij. exists []. rewrite app_nil_r. apply He. exact Ij.
  - apply (ji_rs _ _ _ J).
  - simpl. pose proof (ji_log _ _ _ J) as HL. rewrite Forall_forall in *.
    intros e Ie. specialize (HL e Ie). destruct HL as (W & Hle & Hseg).
    split; [assumption|]. split; [assumption|]. intros I.
    assert (I' : In (ld_chunk (snd e)) idl).
    { rewrite (ji_ids _ _ _ J). unfold chunk_ids. apply in_app_iff. right. assumption. }
    destruct (Hseg I') as (pre & p & post & Wp & Ef & Eoff & Elen).
    exists pre, p, post. rewrite He by assumption. auto.
Qed.

(* E: the invariant only looks at the journal-relevant part of the core *)
Lemma jinv_core_eqj k k' idl fb : jinv k idl fb -> core_eqj k k' -> jinv k' idl fb.
Proof.
  intros J (E1 & E2 & E3 & E4 & E5 & E6 & E7).
  constructor.
  - rewrite (ji_ids _ _ _ J). unfold chunk_ids, closed_ids. rewrite E2, E4, E5. reflexivity.
  - apply (ji_sorted _ _ _ J).
  - apply (ji_abut _ _ _ J).
  - unfold live_chunks. rewrite E2, E4. apply (ji_chunks _ _ _ J).
  - rewrite E2, E4. apply (ji_heads _ _ _ J).
  - rewrite E6. apply (ji_rs _ _ _ J).
  - rewrite E7, E2. apply (ji_log _ _ _ J).
Qed.

Lemma jinv_ext k idl fb fb' : jinv k idl fb -> (forall j, fb' j = fb j) -> jinv k idl fb'.
Proof.
  intros J He. constructor.
  - apply (ji_ids _ _ _ J).
  - apply (ji_sorted _ _ _ J).
  - apply abut_ext with (fb := fb); [intros; apply He|apply (ji_abut _ _ _ J)].
  - pose proof (ji_chunks _ _ _ J) as HC. rewrite Forall_forall in *. intros c Ic.
    apply chunk_ok_ext with (fb := fb); [apply He|apply HC, Ic].
  - apply heads_ok_ext with (fb := fb); [|apply (ji_heads _ _ _ J)].
    intros j _. exists []. rewrite app_nil_r. apply He.
  - apply (ji_rs _ _ _ J).
  - pose proof (ji_log _ _ _ J) as HL. rewrite Forall_forall in *.
    intros e Ie. specialize (HL e Ie). destruct HL as (W & Hle & Hseg).
    split; [assumption|]. split; [assumption|]. intros I.
    destruct (Hseg I) as (pre & p & post & Wp & Ef & Eoff & Elen).
    exists pre, p, post. rewrite He. auto.
Qed.

Print Assumptions C11_rotation.
