(* C02, part 1 (state-machine level): replaying a suffix of the journal.

   [Sim lo sp s t]: [t] is the state machine obtained by replaying the journal files
   with id >= lo, [s] is the live state machine, [sp] the reference log. Both carry
   the same RaftLogState; the index map of [t] is that of [s] restricted to the
   entries stored in chunks >= lo; every such entry hits in the cache of [t].
   The relation is preserved when the same accepted record is applied to both
   ([sim_*] lemmas, mirroring the [*_accept] lemmas of Refine.v).

   [replay_files]: what [open_loop] does to the state machine, on a list of
   (chunk id, records).  [Fam]: every suffix of the file list replays without error
   to a state related by [Sim].  [Chain]: the head snapshot of a file is the state
   reached at the end of the file before it. *)
From Coq Require Import List NArith Bool Lia Sorted.
From RaftLog Require Import Base.Bytes Base.Crc32 Model.Types Model.Codec Model.Cache Model.Core
  Model.Recover Model.Run Spec.Spec Spec.Hist.
From RaftLog Require Import Proofs.OrderFacts Proofs.SmFacts Proofs.Refine.
Import ListNotations.
Local Open Scope N_scope.
Local Arguments N.add : simpl never.
Local Arguments N.sub : simpl never.
Local Arguments N.leb : simpl never.
Local Arguments N.ltb : simpl never.
Local Arguments N.eqb : simpl never.

(* ------------------------------------------------------------------ lists *)
Lemma filter_comm {A} (f g : A -> bool) l : filter f (filter g l) = filter g (filter f l).
Proof.
  induction l as [|a l IH]; [reflexivity|]. cbn [filter].
  destruct (g a) eqn:Eg; destruct (f a) eqn:Ef; cbn [filter]; rewrite ?Eg, ?Ef, IH; reflexivity.
Qed.

Lemma in_map_fst_filter {A B} (f : A * B -> bool) (l : list (A * B)) x :
  In x (map fst (filter f l)) -> In x (map fst l).
Proof.
  intros H. apply in_map_iff in H. destruct H as [e [E He]]. apply filter_In in He.
  apply in_map_iff. exists e. split; [exact E|apply He].
Qed.

(* ------------------------------------------------------------------ the relation *)
Definition in_chunks (lo : N) (e : N * logdata) : bool := N.leb lo (ld_chunk (snd e)).

Record Sim (lo : N) (sp : spec) (s t : sm) : Prop := mkSim {
  S_rs : m_rs t = m_rs s;
  S_log : m_log t = filter (in_chunks lo) (m_log s);
  S_hit : forall e, In e (sp_entries sp) -> In (lid_index (fst e)) (map fst (m_log t)) ->
          ent_get (fst e) (ch_entries (m_cache t)) = Some (snd e);
  S_csorted : StronglySorted clt (ch_entries (m_cache t));
  S_cle : forall e, In e (ch_entries (m_cache t)) -> opair_cmp (Some (fst e)) (sp_last sp) <> Gt }.

(* only the RaftLogState and the index map of the live state machine matter *)
Lemma Sim_ext : forall lo sp s s' t, m_rs s' = m_rs s -> m_log s' = m_log s ->
  Sim lo sp s t -> Sim lo sp s' t.
Proof.
  intros lo sp s s' t H1 H2 [A B C D E]. constructor; try assumption.
  - rewrite H1. exact A.
  - rewrite H2. exact B.
Qed.

(* a change of the scalar state only; the cache of [t] may change its boundary *)
Lemma Sim_same : forall lo sp sp' s s' t t', Sim lo sp s t ->
  sp_entries sp' = sp_entries sp -> sp_purged sp' = sp_purged sp ->
  m_log s' = m_log s -> m_log t' = m_log t ->
  ch_entries (m_cache t') = ch_entries (m_cache t) ->
  m_rs t' = m_rs s' -> Sim lo sp' s' t'.
Proof.
  intros lo sp sp' s s' t t' [A B C D E] He Hp Hl Hlt Hc Hrs.
  assert (HL : sp_last sp' = sp_last sp) by (rewrite !sp_last_olast, He, Hp; reflexivity).
  constructor; rewrite ?He, ?Hl, ?Hlt, ?Hc, ?HL; assumption.
Qed.

(* when every live entry is stored in a chunk >= lo, the replayed state refines the
   reference log *)
Lemma Sim_R : forall lo sp s t, R s sp -> Sim lo sp s t ->
  (forall e, In e (m_log s) -> lo <= ld_chunk (snd e)) -> R t sp.
Proof.
  intros lo sp s t HR [A B C D E] Hall.
  assert (HL : m_log t = m_log s).
  { rewrite B. apply filter_all_true. intros e He. unfold in_chunks. apply N.leb_le. apply Hall. exact He. }
  constructor.
  - rewrite A. apply (R_rs _ _ HR).
  - rewrite HL. apply (R_log _ _ HR).
  - apply (R_sorted _ _ HR).
  - apply (R_purged _ _ HR).
  - intros e He. apply C; [exact He|]. rewrite HL.
    assert (Hi : In (g_ent e) (map g_ent (sp_entries sp))) by (apply in_map; exact He).
    rewrite <- (R_log _ _ HR) in Hi. apply in_map_iff in Hi. destruct Hi as [x [Ex Hx]].
    apply in_map_iff. exists x. split; [|exact Hx].
    unfold f_log, g_ent in Ex. inversion Ex. reflexivity.
  - exact D.
  - exact E.
Qed.

(* ------------------------------------------------------------------ facts used by truncate and purge *)
Lemma trunc_facts : forall s sp o, R s sp ->
  (o = sp_purged sp \/ exists id p, o = Some id /\ In (id, p) (sp_entries sp)) ->
  opair_cmp o (sp_last sp) <> Gt /\
  sp_last (mkSpec (sp_vote sp)
             (filter (fun e => N.ltb (lid_index (fst e)) (next_index o)) (sp_entries sp))
             (sp_committed sp) (sp_purged sp) (sp_user sp)) = o /\
  (forall e, In e (filter (fun e => N.ltb (lid_index (fst e)) (next_index o)) (sp_entries sp)) ->
     opair_cmp (Some (fst e)) o <> Gt).
Proof.
  intros s sp o HR Ho.
  set (f := fun e : logid * payload => N.ltb (lid_index (fst e)) (next_index o)).
  destruct Ho as [Ho|[id [p [Ho Hin]]]].
  - subst o. split; [apply (purged_le_last s sp HR)|].
    assert (Hnil : filter f (sp_entries sp) = []).
    { apply filter_all_false. intros x Hx. destruct (R_purged _ _ HR x Hx) as [_ Hi].
      unfold f. apply N.ltb_ge. exact Hi. }
    split.
    + rewrite sp_last_olast. cbn [sp_entries sp_purged]. rewrite Hnil. reflexivity.
    + rewrite Hnil. intros e [].
  - subst o. split; [|split].
    + destruct (entry_le_last s sp (id, p) HR Hin) as [l [Hl [H1 _]]]. rewrite Hl.
      cbn [opair_cmp fst] in *. exact H1.
    + rewrite sp_last_olast. cbn [sp_entries sp_purged]. unfold f. cbn [next_index].
      apply (trunc_last _ _ id p (R_sorted _ _ HR) Hin).
    + intros e He. apply filter_In in He. destruct He as [He1 He2]. unfold f in He2.
      cbn [next_index] in He2. apply N.ltb_lt in He2. cbn [opair_cmp].
      apply (sorted_mono_le _ e (id, p) (R_sorted _ _ HR) He1 Hin). cbn [fst]. lia.
Qed.

Lemma purge_facts : forall s sp u, R s sp ->
  ((exists p, In (u, p) (sp_entries sp)) \/
   (opair_cmp (sp_last sp) (Some u) = Lt /\ forall l, sp_last sp = Some l -> lid_index l < lid_index u)) ->
  opair_cmp (sp_purged sp) (Some u) = Lt /\
  olast (filter (fun e => N.ltb (lid_index u) (lid_index (fst e))) (sp_entries sp)) (Some u) =
    (if opair_ltb (sp_last sp) (Some u) then Some u else sp_last sp) /\
  (forall e, In e (filter (fun e => N.ltb (lid_index u) (lid_index (fst e))) (sp_entries sp)) ->
     pair_cmp u (fst e) = Lt) /\
  opair_cmp (sp_last sp) (if opair_ltb (sp_last sp) (Some u) then Some u else sp_last sp) <> Gt.
Proof.
  intros s sp u HR Ho.
  set (f := fun e : logid * payload => N.ltb (lid_index u) (lid_index (fst e))).
  match goal with |- context [if ?c then ?a else ?b0] => set (nl := if c then a else b0) end.
  destruct Ho as [[p Hin]|[Hlt Hidx]].
  - destruct (entry_le_last s sp (u, p) HR Hin) as [l [Hl [H1 _]]]. cbn [fst] in H1.
    assert (Hnl : nl = sp_last sp).
    { unfold nl. rewrite Hl.
      assert (E : opair_ltb (Some l) (Some u) = false) by (apply opair_ltb_ge; exact H1).
      rewrite E. reflexivity. }
    split; [apply (R_purged _ _ HR (u, p) Hin)|]. split; [|split].
    + rewrite Hnl, sp_last_olast. apply (purge_last _ _ u p (R_sorted _ _ HR) Hin).
    + intros e He. apply filter_In in He. destruct He as [He1 He2]. unfold f in He2.
      apply N.ltb_lt in He2.
      apply (sorted_mono _ (u, p) e (R_sorted _ _ HR) Hin He1). cbn [fst]. exact He2.
    + match goal with |- context [if ?c then _ else _] => destruct c eqn:EE end;
      [apply opair_lt_le; apply opair_ltb_lt; exact EE|apply opair_eq_le].
  - assert (Hnl : nl = Some u).
    { unfold nl. assert (E : opair_ltb (sp_last sp) (Some u) = true) by (apply opair_ltb_lt; exact Hlt).
      rewrite E. reflexivity. }
    assert (Hnil : filter f (sp_entries sp) = []).
    { apply filter_all_false. intros x Hx.
      destruct (entry_le_last s sp x HR Hx) as [l [Hl [_ H2]]]. specialize (Hidx l Hl).
      unfold f. apply N.ltb_ge. lia. }
    split; [|split; [|split]].
    + destruct (purged_le_last s sp HR) as [Q1 _]. eapply opair_le_lt_trans; eassumption.
    + rewrite Hnil, Hnl. reflexivity.
    + rewrite Hnil. intros e [].
    + match goal with |- context [if ?c then _ else _] => destruct c eqn:EE end;
      [apply opair_lt_le; apply opair_ltb_lt; exact EE|apply opair_eq_le].
Qed.

(* ------------------------------------------------------------------ one accepted record on both sides *)
Lemma sim_append : forall lo s t sp id p n b c seg,
  R s sp -> Sim lo sp s t -> Budget (m_cache t) (n + 1) (b + psize p) ->
  opair_cmp (sp_last sp) (Some id) = Lt ->
  (forall l, sp_last sp = Some l -> lid_index id = lid_index l + 1) ->
  rs_validate (m_rs s) (RAppend id p) = None ->
  lo <= c ->
  Sim lo (mkSpec (sp_vote sp) (sp_entries sp ++ [(id, p)]) (sp_committed sp) (sp_purged sp) (sp_user sp))
      (fst (sm_apply s (RAppend id p) c seg)) (fst (sm_apply t (RAppend id p) c seg)) /\
  Budget (m_cache (fst (sm_apply t (RAppend id p) c seg))) n b.
Proof.
  intros lo s t sp id p n b c seg HR HS HB Hlt Hidx HV Hlo.
  assert (HVt : rs_validate (m_rs t) (RAppend id p) = None) by (rewrite (S_rs _ _ _ _ HS); exact HV).
  rewrite (sm_apply_append s id p c seg HV), (sm_apply_append t id p c seg HVt).
  assert (F1 : forall e, In e (sp_entries sp) -> klt e (id, p)).
  { intros e He. destruct (entry_le_last s sp e HR He) as [l [Hl [H1 H2]]].
    rewrite Hl in Hlt. cbn [opair_cmp] in Hlt. specialize (Hidx l Hl).
    split; cbn [fst]; [eapply pair_cmp_le_lt_trans; eassumption|lia]. }
  assert (F2 : forall e, In e (m_log s) -> fst e < lid_index id).
  { intros e He. destruct (log_key_in s sp e HR He) as [x [Hx1 [Hx2 _]]].
    destruct (F1 x Hx1) as [_ Hi]. cbn [fst] in Hi. lia. }
  assert (F2t : forall e, In e (m_log t) -> fst e < lid_index id).
  { intros e He. rewrite (S_log _ _ _ _ HS) in He. apply filter_In in He. apply F2. apply He. }
  assert (F3 : forall e, In e (ch_entries (m_cache t)) -> pair_cmp (fst e) id = Lt).
  { intros e He. pose proof (S_cle _ _ _ _ HS e He) as Hc.
    exact (opair_le_lt_trans _ _ _ Hc Hlt). }
  destruct HB as [HB1 HB2].
  rewrite (cache_insert_end (m_cache t) id p F3) by lia.
  rewrite (lm_insert_end _ _ _ F2), (lm_insert_end _ _ _ F2t).
  set (sp' := mkSpec (sp_vote sp) (sp_entries sp ++ [(id, p)]) (sp_committed sp) (sp_purged sp) (sp_user sp)).
  assert (HL : sp_last sp' = Some id).
  { rewrite sp_last_olast. unfold sp'. cbn [sp_entries]. rewrite olast_snoc. reflexivity. }
  split.
  - constructor; cbn [m_rs m_log m_cache cache_with ch_entries].
    + rewrite (S_rs _ _ _ _ HS). reflexivity.
    + rewrite filter_app, <- (S_log _ _ _ _ HS). cbn [filter]. unfold in_chunks.
      cbn [snd ld_chunk]. assert (E : N.leb lo c = true) by (apply N.leb_le; exact Hlo).
      rewrite E. reflexivity.
    + unfold sp'. cbn [sp_entries]. intros e He Hi. apply in_app_or in He.
      destruct He as [He|[He|[]]].
      * apply ent_get_app_l. apply (S_hit _ _ _ _ HS e He).
        rewrite map_app in Hi. apply in_app_or in Hi. destruct Hi as [Hi|[Hi|[]]]; [exact Hi|].
        cbn [fst] in Hi. destruct (F1 e He) as [_ Hx]. cbn [fst] in Hx. lia.
      * subst e. cbn [fst snd]. rewrite ent_get_app_r.
        -- cbn [ent_get]. rewrite pair_eqb_refl. reflexivity.
        -- intros e He. apply pair_cmp_lt_neq. apply F3. exact He.
    + apply SS_app_intro; [apply (S_csorted _ _ _ _ HS)|apply SS_single|].
      intros a x Ha [Hx|[]]. subst x. unfold clt. cbn [fst]. apply F3. exact Ha.
    + rewrite HL. intros e He. apply in_app_or in He. destruct He as [He|[He|[]]].
      * cbn [opair_cmp]. rewrite (F3 e He). discriminate.
      * subst e. cbn [fst opair_cmp]. rewrite pair_cmp_refl. discriminate.
  - cbn [m_cache]. unfold Budget, cache_with. cbn [ch_entries ch_size ch_max_items ch_capacity].
    rewrite app_length, Nat2N.inj_add. cbn [length]. change (N.of_nat 1) with 1. split; lia.
Qed.

Lemma sim_trunc : forall lo s t sp o n b c seg,
  R s sp -> Sim lo sp s t -> Budget (m_cache t) n b ->
  (o = sp_purged sp \/ exists id p, o = Some id /\ In (id, p) (sp_entries sp)) ->
  Sim lo (mkSpec (sp_vote sp) (filter (fun e => N.ltb (lid_index (fst e)) (next_index o)) (sp_entries sp))
                 (sp_committed sp) (sp_purged sp) (sp_user sp))
      (fst (sm_apply s (RTrunc o) c seg)) (fst (sm_apply t (RTrunc o) c seg)) /\
  Budget (m_cache (fst (sm_apply t (RTrunc o) c seg))) n b.
Proof.
  intros lo s t sp o n b c seg HR HS HB Ho. rewrite !sm_apply_trunc.
  destruct (trunc_facts s sp o HR Ho) as [T1 [T2 T3]].
  set (f := fun e : logid * payload => N.ltb (lid_index (fst e)) (next_index o)) in *.
  set (sp' := mkSpec (sp_vote sp) (filter f (sp_entries sp)) (sp_committed sp) (sp_purged sp) (sp_user sp)) in *.
  assert (Hlog : lm_keep_lt (next_index o) (m_log t) =
                 filter (in_chunks lo) (lm_keep_lt (next_index o) (m_log s))).
  { unfold lm_keep_lt. rewrite (S_log _ _ _ _ HS). apply filter_comm. }
  assert (Hin : forall e : logid * payload, In (lid_index (fst e)) (map fst (lm_keep_lt (next_index o) (m_log t))) ->
                          In (lid_index (fst e)) (map fst (m_log t))).
  { intros e. unfold lm_keep_lt. apply in_map_fst_filter. }
  destruct o as [key|].
  - pose proof (cache_truncate_after_entries (m_cache t) key (S_csorted _ _ _ _ HS)) as Hce.
    destruct (cache_truncate_after_meta (m_cache t) key) as [M1 [M2 M3]].
    split.
    + constructor; cbn [m_rs m_log m_cache].
      * rewrite (S_rs _ _ _ _ HS). reflexivity.
      * exact Hlog.
      * unfold sp'. cbn [sp_entries]. intros e He Hi. rewrite Hce.
        rewrite (ent_get_filter_key (fun k0 => negb (pair_ltb key k0))).
        -- apply (S_hit _ _ _ _ HS); [apply filter_In in He; apply He|apply Hin; exact Hi].
        -- apply negb_true_iff. apply pair_ltb_ge. apply (T3 e He).
      * rewrite Hce. apply SS_filter. apply (S_csorted _ _ _ _ HS).
      * rewrite T2, Hce. intros e He. apply filter_In in He. destruct He as [_ He].
        apply negb_true_iff in He. apply pair_ltb_ge in He. exact He.
    + cbn [m_cache]. eapply Budget_shrink; [exact HB| |exact M1|exact M2|exact M3].
      rewrite Hce. apply filter_length_le'.
  - assert (Hnil : filter f (sp_entries sp) = []).
    { apply filter_all_false. intros x _. unfold f. cbn [next_index]. apply N.ltb_ge. lia. }
    split.
    + constructor; cbn [m_rs m_log m_cache].
      * rewrite (S_rs _ _ _ _ HS). reflexivity.
      * exact Hlog.
      * unfold sp'. cbn [sp_entries]. rewrite Hnil. intros e [].
      * cbn. constructor.
      * cbn. intros e [].
    + cbn [m_cache]. eapply Budget_shrink; [exact HB|cbn; lia|cbn; lia|reflexivity|reflexivity].
Qed.

Lemma sim_purge : forall lo s t sp u n b c seg,
  R s sp -> Sim lo sp s t -> Budget (m_cache t) n b ->
  ((exists p, In (u, p) (sp_entries sp)) \/
   (opair_cmp (sp_last sp) (Some u) = Lt /\ forall l, sp_last sp = Some l -> lid_index l < lid_index u)) ->
  Sim lo (mkSpec (sp_vote sp) (filter (fun e => N.ltb (lid_index u) (lid_index (fst e))) (sp_entries sp))
                 (sp_committed sp)
                 (if opair_ltb (sp_purged sp) (Some u) then Some u else sp_purged sp) (sp_user sp))
      (fst (sm_apply s (RPurge u) c seg)) (fst (sm_apply t (RPurge u) c seg)) /\
  Budget (m_cache (fst (sm_apply t (RPurge u) c seg))) n b.
Proof.
  intros lo s t sp u n b c seg HR HS HB Ho. rewrite !sm_apply_purge.
  destruct (purge_facts s sp u HR Ho) as [P1 [P2 [P3 P4]]].
  set (f := fun e : logid * payload => N.ltb (lid_index u) (lid_index (fst e))) in *.
  set (nl := if opair_ltb (sp_last sp) (Some u) then Some u else sp_last sp) in *.
  assert (P1' : opair_ltb (sp_purged sp) (Some u) = true) by (apply opair_ltb_lt; exact P1).
  rewrite P1'.
  set (sp' := mkSpec (sp_vote sp) (filter f (sp_entries sp)) (sp_committed sp) (Some u) (sp_user sp)).
  assert (HL : sp_last sp' = nl).
  { rewrite sp_last_olast. unfold sp'. cbn [sp_entries sp_purged]. exact P2. }
  destruct (cache_purge_upto_split (m_cache t) u) as [es1 [C1 [C2 [C3 [C4 C5]]]]].
  split.
  - constructor; cbn [m_rs m_log m_cache].
    + rewrite (S_rs _ _ _ _ HS). reflexivity.
    + unfold lm_keep_ge. rewrite (S_log _ _ _ _ HS). apply filter_comm.
    + unfold sp'. cbn [sp_entries]. intros e He Hi.
      assert (Hin : In e (sp_entries sp)) by (apply filter_In in He; apply He).
      unfold lm_keep_ge in Hi. apply in_map_fst_filter in Hi.
      pose proof (S_hit _ _ _ _ HS e Hin Hi) as Hh. rewrite C1 in Hh.
      rewrite ent_get_app_r in Hh; [exact Hh|].
      intros x Hx. apply pair_cmp_lt_neq.
      eapply pair_cmp_le_lt_trans; [apply C2; exact Hx|apply P3; exact He].
    + pose proof (S_csorted _ _ _ _ HS) as Hs. rewrite C1 in Hs. apply SS_app_inv in Hs. apply Hs.
    + rewrite HL. intros e He. eapply opair_le_trans; [|exact P4].
      apply (S_cle _ _ _ _ HS). rewrite C1. apply in_or_app. right. exact He.
  - cbn [m_cache]. eapply Budget_shrink; [exact HB| |exact C3|exact C4|exact C5].
    rewrite C1 at 1. rewrite app_length. lia.
Qed.

(* ------------------------------------------------------------------ replay of one file *)
Definition rsum (rs : list record) : N := fold_right N.add 0 (map rec_size rs).

Lemma rsum_app a b : rsum (a ++ b) = rsum a + rsum b.
Proof.
  unfold rsum. induction a as [|r a IH]; cbn [app map fold_right]; [lia|]. rewrite IH. lia.
Qed.

Lemma rsum_cons r a : rsum (r :: a) = rec_size r + rsum a.
Proof. reflexivity. Qed.

Lemma replay_snoc : forall rs s id start r off,
  off = start + rsum rs ->
  replay s id start (rs ++ [r]) (ends_from start (map rec_size (rs ++ [r]))) =
  match replay s id start rs (ends_from start (map rec_size rs)) with
  | (s1, None) => sm_apply s1 r id (off, rec_size r)
  | (s1, Some e) => (s1, Some e)
  end.
Proof.
  induction rs as [|r0 rs IH]; intros s id start r off Hoff.
  - cbn [app map ends_from replay]. unfold rsum in Hoff. cbn [map fold_right] in Hoff.
    replace (start + rec_size r - start) with (rec_size r) by lia.
    replace off with start by lia.
    destruct (sm_apply s r id (start, rec_size r)) as [s1 [e|]]; reflexivity.
  - cbn [app map ends_from replay].
    destruct (sm_apply s r0 id (start, start + rec_size r0 - start)) as [s1 [e|]]; [reflexivity|].
    apply IH. rewrite rsum_cons in Hoff. lia.
Qed.

Lemma replay_one : forall s id start r,
  replay s id start [r] (ends_from start (map rec_size [r])) =
  match sm_apply s r id (start, rec_size r) with
  | (s1, None) => (s1, None)
  | (s1, Some e) => (s1, Some e)
  end.
Proof.
  intros s id start r. cbn [map ends_from replay].
  replace (start + rec_size r - start) with (rec_size r) by lia.
  destruct (sm_apply s r id (start, rec_size r)) as [s1 [e|]]; reflexivity.
Qed.

(* the RaftLogState along a replay *)
Fixpoint rs_run (st : rstate) (rs : list record) : option rstate :=
  match rs with
  | [] => Some st
  | r :: rs' => match rs_apply st r with inl st' => rs_run st' rs' | inr _ => None end
  end.

Lemma rs_run_app a : forall st b,
  rs_run st (a ++ b) = match rs_run st a with Some st' => rs_run st' b | None => None end.
Proof.
  induction a as [|r a IH]; intros st b; cbn [app rs_run]; [reflexivity|].
  destruct (rs_apply st r) as [st'|e]; [apply IH|reflexivity].
Qed.

Lemma sm_apply_rs : forall s r c seg,
  match rs_apply (m_rs s) r with
  | inl rs' => m_rs (fst (sm_apply s r c seg)) = rs' /\ snd (sm_apply s r c seg) = None
  | inr e => snd (sm_apply s r c seg) = Some e
  end.
Proof.
  intros s r c seg. unfold sm_apply.
  destruct (rs_apply (m_rs s) r) as [rs'|e]; destruct r; cbn; auto.
Qed.

Lemma replay_rs : forall rs ends s id start s1,
  length ends = length rs ->
  replay s id start rs ends = (s1, None) -> rs_run (m_rs s) rs = Some (m_rs s1).
Proof.
  induction rs as [|r rs IH]; intros ends s id start s1 Hl H.
  - destruct ends; cbn [replay] in H; inversion H; reflexivity.
  - destruct ends as [|e ends]; [discriminate Hl|]. cbn [replay] in H. cbn [rs_run].
    pose proof (sm_apply_rs s r id (start, e - start)) as Hr.
    destruct (sm_apply s r id (start, e - start)) as [s2 oe]. cbn [fst snd] in Hr.
    destruct (rs_apply (m_rs s) r) as [rs'|er].
    + destruct Hr as [Hr1 Hr2]. subst oe rs'. apply (IH ends s2 id e s1); [|exact H].
      cbn [length] in Hl. lia.
    + subst oe. discriminate H.
Qed.

Lemma ends_from_length : forall l start, length (ends_from start l) = length l.
Proof. induction l as [|a l IH]; intros start; cbn [ends_from length]; [reflexivity|]. rewrite IH. reflexivity. Qed.

(* ------------------------------------------------------------------ replay of a list of files *)
Definition jfile := (N * list record)%type.

(* the state handed to [replay] by [open_loop]: eviction boundary = last log id so far *)
Definition chunk_pre (t : sm) : sm :=
  mkSM (m_rs t) (m_log t) (cache_set_evictable (m_cache t) (r_last (m_rs t))).

Definition chunk_replay (t : sm) (g : jfile) : sm * option err :=
  replay (chunk_pre t) (fst g) (fst g) (snd g) (ends_from (fst g) (map rec_size (snd g))).

Fixpoint replay_files (t : sm) (G : list jfile) : sm * option err :=
  match G with
  | [] => (t, None)
  | g :: G' =>
    match chunk_replay t g with
    | (t1, None) => replay_files t1 G'
    | (t1, Some e) => (t1, Some e)
    end
  end.

Lemma replay_files_app : forall G1 t G2,
  replay_files t (G1 ++ G2) =
  match replay_files t G1 with
  | (t1, None) => replay_files t1 G2
  | (t1, Some e) => (t1, Some e)
  end.
Proof.
  induction G1 as [|g G1 IH]; intros t G2; cbn [app replay_files]; [reflexivity|].
  destruct (chunk_replay t g) as [t1 [e|]]; [reflexivity|apply IH].
Qed.

Lemma replay_files_snoc_inv : forall G t g t2,
  replay_files t (G ++ [g]) = (t2, None) ->
  exists t1, replay_files t G = (t1, None) /\ chunk_replay t1 g = (t2, None).
Proof.
  intros G t g t2 H. rewrite replay_files_app in H.
  destruct (replay_files t G) as [t1 [e|]]; [discriminate H|].
  exists t1. split; [reflexivity|]. cbn [replay_files] in H.
  destruct (chunk_replay t1 g) as [t3 [e|]]; [discriminate H|]. exact H.
Qed.

Lemma replay_files_snoc : forall G t g t1 t2,
  replay_files t G = (t1, None) -> chunk_replay t1 g = (t2, None) ->
  replay_files t (G ++ [g]) = (t2, None).
Proof.
  intros G t g t1 t2 H1 H2. rewrite replay_files_app, H1. cbn [replay_files]. rewrite H2. reflexivity.
Qed.

(* one more record at the end of the last file *)
Lemma replay_files_record : forall G t0 o rs r t,
  replay_files t0 (G ++ [(o, rs)]) = (t, None) ->
  snd (sm_apply t r o (o + rsum rs, rec_size r)) = None ->
  replay_files t0 (G ++ [(o, rs ++ [r])]) = (fst (sm_apply t r o (o + rsum rs, rec_size r)), None).
Proof.
  intros G t0 o rs r t H Hn. apply replay_files_snoc_inv in H. destruct H as [t1 [H1 H2]].
  eapply replay_files_snoc; [exact H1|].
  unfold chunk_replay in *. cbn [fst snd] in *.
  rewrite (replay_snoc rs (chunk_pre t1) o o r (o + rsum rs) eq_refl), H2.
  destruct (sm_apply t r o (o + rsum rs, rec_size r)) as [s1 oe]. cbn [snd] in Hn. subst oe. reflexivity.
Qed.

(* a new file holding the snapshot of the current state *)
Lemma chunk_replay_head : forall t off st,
  chunk_replay t (off, [RState st]) =
  (mkSM st (m_log t) (cache_set_evictable (m_cache t) (r_last (m_rs t))), None).
Proof.
  intros t off st. unfold chunk_replay. cbn [fst snd]. rewrite replay_one. reflexivity.
Qed.

(* ------------------------------------------------------------------ the family of suffix replays *)
Section Family.
Variable cfg' : config.

Definition SimAt (sp : spec) (s : sm) (n b : N) (G : list jfile) : Prop :=
  match G with
  | [] => True
  | g :: _ => exists t, replay_files (sm_new cfg') G = (t, None) /\ Sim (fst g) sp s t /\
                        Budget (m_cache t) n b
  end.

Fixpoint Fam (sp : spec) (s : sm) (n b : N) (G : list jfile) : Prop :=
  match G with
  | [] => True
  | g :: G' => SimAt sp s n b (g :: G') /\ Fam sp s n b G'
  end.

Lemma Fam_app_r : forall G1 G2 sp s n b, Fam sp s n b (G1 ++ G2) -> Fam sp s n b G2.
Proof.
  induction G1 as [|g G1 IH]; intros G2 sp s n b H; [exact H|].
  cbn [app Fam] in H. apply IH. apply H.
Qed.

Lemma Fam_head : forall g G sp s n b, Fam sp s n b (g :: G) -> SimAt sp s n b (g :: G).
Proof. intros g G sp s n b H. apply H. Qed.

Lemma Fam_map : forall (sp sp' : spec) (s s' : sm) (n b n' b' : N) G,
  (forall lo t, Sim lo sp s t -> Budget (m_cache t) n b ->
                Sim lo sp' s' t /\ Budget (m_cache t) n' b') ->
  Fam sp s n b G -> Fam sp' s' n' b' G.
Proof.
  intros sp sp' s s' n b n' b' G Hf. induction G as [|g G IH]; intros H; [exact I|].
  cbn [Fam] in *. destruct H as [[t [H1 [H2 H3]]] H4]. split; [|apply IH; exact H4].
  exists t. split; [exact H1|]. apply Hf; assumption.
Qed.

Lemma Fam_ext : forall sp s s' n b G, m_rs s' = m_rs s -> m_log s' = m_log s ->
  Fam sp s n b G -> Fam sp s' n b G.
Proof.
  intros sp s s' n b G H1 H2. apply Fam_map. intros lo t HS HB. split; [|exact HB].
  eapply Sim_ext; eassumption.
Qed.

Lemma Fam_mono : forall sp s n b n' b' G, n' <= n -> b' <= b ->
  Fam sp s n b G -> Fam sp s n' b' G.
Proof.
  intros sp s n b n' b' G Hn Hb. apply Fam_map. intros lo t HS HB. split; [exact HS|].
  eapply Budget_mono; eassumption.
Qed.

(* an accepted record appended to the last file *)
Lemma Fam_record : forall G0 o rs r sp sp' s n0 b0 n b,
  Fam sp s n0 b0 (G0 ++ [(o, rs)]) ->
  Forall (fun g => fst g <= o) G0 ->
  rs_validate (m_rs s) r = None ->
  (forall lo t, Sim lo sp s t -> Budget (m_cache t) n0 b0 -> lo <= o ->
     Sim lo sp' (fst (sm_apply s r o (o + rsum rs, rec_size r)))
                (fst (sm_apply t r o (o + rsum rs, rec_size r))) /\
     Budget (m_cache (fst (sm_apply t r o (o + rsum rs, rec_size r)))) n b) ->
  Fam sp' (fst (sm_apply s r o (o + rsum rs, rec_size r))) n b (G0 ++ [(o, rs ++ [r])]).
Proof.
  induction G0 as [|g G0 IH]; intros o rs r sp sp' s n0 b0 n b HF Hle HV Hstep.
  - cbn [app Fam SimAt] in *. destruct HF as [[t [H1 [H2 H3]]] _]. split; [|exact I].
    cbn [fst] in *.
    assert (Hn : snd (sm_apply t r o (o + rsum rs, rec_size r)) = None).
    { apply sm_apply_snd. rewrite (S_rs _ _ _ _ H2). exact HV. }
    exists (fst (sm_apply t r o (o + rsum rs, rec_size r))). split.
    + apply (replay_files_record [] (sm_new cfg') o rs r t H1 Hn).
    + apply Hstep; [exact H2|exact H3|lia].
  - inversion Hle as [|? ? Hg Hle']; subst.
    cbn [app Fam] in HF. destruct HF as [HA HF].
    cbn [app Fam]. split; [|eapply IH; eassumption].
    destruct HA as [t [H1 [H2 H3]]]. cbn [fst] in *.
    assert (Hn : snd (sm_apply t r o (o + rsum rs, rec_size r)) = None).
    { apply sm_apply_snd. rewrite (S_rs _ _ _ _ H2). exact HV. }
    exists (fst (sm_apply t r o (o + rsum rs, rec_size r))). split.
    + apply (replay_files_record (g :: G0) (sm_new cfg') o rs r t H1 Hn).
    + apply Hstep; [exact H2|exact H3|exact Hg].
Qed.

(* a rotation: a new last file holding the snapshot of the current state *)
Lemma Fam_rotate : forall G sp s n b off,
  Fam sp s n b G ->
  (forall e, In e (m_log s) -> ld_chunk (snd e) < off) ->
  n <= c_max_items cfg' -> b <= c_capacity cfg' ->
  Fam sp s n b (G ++ [(off, [RState (m_rs s)])]).
Proof.
  induction G as [|g G IH]; intros sp s n b off HF Hlt Hn Hb.
  - cbn [app Fam SimAt]. split; [|exact I].
    eexists. split.
    + cbn [replay_files]. rewrite chunk_replay_head. reflexivity.
    + cbn [fst]. split.
      * constructor; cbn [m_rs m_log m_cache sm_new cache_set_evictable ch_entries cache_new].
        -- reflexivity.
        -- symmetry. apply filter_all_false. intros e He. unfold in_chunks. apply N.leb_gt.
           apply Hlt. exact He.
        -- intros e _ [].
        -- constructor.
        -- intros e [].
      * unfold Budget. cbn. split; lia.
  - cbn [app Fam] in *. destruct HF as [HA HF]. split; [|apply IH; assumption].
    destruct HA as [t [H1 [H2 H3]]]. cbn [SimAt].
    eexists. split.
    + eapply (replay_files_snoc (g :: G)); [exact H1|]. rewrite chunk_replay_head. reflexivity.
    + cbn [fst]. split.
      * eapply Sim_same; [exact H2|reflexivity|reflexivity|reflexivity|reflexivity|reflexivity|].
        cbn [m_rs]. reflexivity.
      * destruct H3 as [B1 B2]. unfold Budget. cbn. split; assumption.
Qed.

End Family.

(* ------------------------------------------------------------------ the chain of head snapshots *)
Definition head_state (rs : list record) : rstate :=
  match rs with RState st :: _ => st | _ => rstate0 end.

Fixpoint Chain (cur : rstate) (G : list jfile) : Prop :=
  match G with
  | [] => True
  | g :: G' =>
    (exists st tl, snd g = RState st :: tl /\
       rs_run st tl = Some (match G' with [] => cur | g' :: _ => head_state (snd g') end)) /\
    Chain cur G'
  end.

Lemma Chain_app_r : forall G1 G2 cur, Chain cur (G1 ++ G2) -> Chain cur G2.
Proof.
  induction G1 as [|g G1 IH]; intros G2 cur H; [exact H|]. cbn [app Chain] in H. apply IH. apply H.
Qed.

Lemma Chain_record : forall G0 o rs r cur cur',
  Chain cur (G0 ++ [(o, rs)]) -> rs_apply cur r = inl cur' ->
  Chain cur' (G0 ++ [(o, rs ++ [r])]).
Proof.
  induction G0 as [|g G0 IH]; intros o rs r cur cur' H Ha.
  - cbn [app Chain snd] in *. destruct H as [[st [tl [E1 E2]]] _]. split; [|exact I].
    exists st, (tl ++ [r]). split; [rewrite E1; reflexivity|].
    rewrite rs_run_app, E2. cbn [rs_run]. rewrite Ha. reflexivity.
  - cbn [app Chain] in H. destruct H as [H1 H2]. cbn [app Chain]. split; [|eapply IH; eassumption].
    destruct H1 as [st [tl [E1 E2]]]. exists st, tl. split; [exact E1|].
    destruct G0 as [|g' G0'].
    + cbn [app] in *. cbn [Chain snd] in H2. cbn [snd] in *.
      destruct H2 as [[st2 [tl2 [E3 _]]] _]. rewrite E3 in *. cbn [app head_state] in *. exact E2.
    + cbn [app] in *. exact E2.
Qed.

Lemma Chain_rotate : forall G cur off, G <> [] -> Chain cur G -> Chain cur (G ++ [(off, [RState cur])]).
Proof.
  induction G as [|g G IH]; intros cur off Hne H; [congruence|].
  cbn [app Chain] in *. destruct H as [H1 H2]. destruct G as [|g' G'].
  - cbn [app Chain snd head_state]. split; [exact H1|]. split; [|exact I].
    exists cur, []. split; reflexivity.
  - split; [exact H1|]. apply IH; [discriminate|exact H2].
Qed.

Lemma Chain_cur : forall G0 o rs cur, Chain cur (G0 ++ [(o, rs)]) ->
  exists st tl, rs = RState st :: tl /\ rs_run st tl = Some cur.
Proof.
  intros G0 o rs cur H. apply Chain_app_r in H. cbn [Chain snd] in H. apply H.
Qed.

(* ------------------------------------------------------------------ entries of a file are bounded by the next head *)
(* an index-map entry stored in file [g] has a log id at most the last log id of the
   snapshot heading the file after [g] *)
Fixpoint GB (lg : logmap) (G : list jfile) : Prop :=
  match G with
  | [] => True
  | g :: G' =>
    match G' with
    | [] => True
    | g' :: _ => forall e, In e lg -> ld_chunk (snd e) = fst g ->
                 opair_cmp (Some (ld_id (snd e))) (r_last (head_state (snd g'))) <> Gt
    end /\ GB lg G'
  end.

Lemma GB_app_r : forall G1 G2 lg, GB lg (G1 ++ G2) -> GB lg G2.
Proof.
  induction G1 as [|g G1 IH]; intros G2 lg H; [exact H|]. cbn [app GB] in H. apply IH. apply H.
Qed.

Lemma GB_incl : forall G lg lg', (forall e, In e lg' -> In e lg) -> GB lg G -> GB lg' G.
Proof.
  induction G as [|g G IH]; intros lg lg' Hi H; [exact I|].
  cbn [GB] in *. destruct H as [H1 H2]. split; [|eapply IH; eassumption].
  destruct G as [|g' G']; [exact I|]. intros e He. apply H1. apply Hi. exact He.
Qed.

Lemma head_state_snoc : forall rs r, rs <> [] -> head_state (rs ++ [r]) = head_state rs.
Proof. intros [|x rs] r H; [congruence|reflexivity]. Qed.

Lemma GB_record : forall G0 o rs r lg lg',
  GB lg (G0 ++ [(o, rs)]) -> rs <> [] ->
  (forall e, In e lg' -> In e lg \/ ld_chunk (snd e) = o) ->
  Forall (fun g => fst g <> o) G0 ->
  GB lg' (G0 ++ [(o, rs ++ [r])]).
Proof.
  induction G0 as [|g G0 IH]; intros o rs r lg lg' H Hne Hlg Hno.
  - cbn [app GB]. split; exact I.
  - inversion Hno as [|? ? Hg Hno']; subst.
    cbn [app GB] in H. destruct H as [H1 H2]. cbn [app GB]. split; [|eapply IH; eassumption].
    destruct G0 as [|g' G0'].
    + cbn [app] in *. cbn [snd] in *. rewrite head_state_snoc by exact Hne.
      intros e He Hc. destruct (Hlg e He) as [He'|He']; [apply H1; assumption|congruence].
    + cbn [app] in *. intros e He Hc.
      destruct (Hlg e He) as [He'|He']; [apply H1; assumption|congruence].
Qed.

Lemma GB_rotate : forall G0 o rs lg off cur,
  GB lg (G0 ++ [(o, rs)]) ->
  (forall e, In e lg -> ld_chunk (snd e) = o ->
     opair_cmp (Some (ld_id (snd e))) (r_last cur) <> Gt) ->
  GB lg ((G0 ++ [(o, rs)]) ++ [(off, [RState cur])]).
Proof.
  induction G0 as [|g G0 IH]; intros o rs lg off cur H Hb.
  - cbn [app GB fst snd head_state]. split; [exact Hb|]. split; exact I.
  - cbn [app GB] in H. destruct H as [H1 H2]. cbn [app GB]. split; [|apply IH; assumption].
    destruct G0 as [|g' G0']; cbn [app] in *; exact H1.
Qed.

(* ------------------------------------------------------------------ state records never lower the last log id *)
(* the premise [heads_ok] of CacheSys.replay_cinv, restated here to avoid the import *)
Fixpoint keeps_last (rs : rstate) (recs : list record) : Prop :=
  match recs with
  | [] => True
  | r :: rest =>
    match r with RState st => opair_leb (r_last rs) (r_last st) = true | _ => True end /\
    match rs_apply rs r with inl rs' => keeps_last rs' rest | inr _ => True end
  end.

Definition keep_rec (cur : rstate) (r : record) : Prop :=
  match r with RState st => opair_leb (r_last cur) (r_last st) = true | _ => True end.

Lemma keeps_last_app : forall a st b,
  keeps_last st a -> (forall st', rs_run st a = Some st' -> keeps_last st' b) ->
  keeps_last st (a ++ b).
Proof.
  induction a as [|r a IH]; intros st b Ha Hb; cbn [app].
  - apply Hb. reflexivity.
  - cbn [keeps_last] in *. destruct Ha as [H1 H2]. split; [exact H1|].
    cbn [rs_run] in Hb. destruct (rs_apply st r) as [st1|e]; [|exact I].
    apply IH; assumption.
Qed.

Definition HK (G : list jfile) : Prop :=
  Forall (fun g => exists st tl, snd g = RState st :: tl /\ keeps_last st tl) G.

Lemma HK_app_r : forall G1 G2, HK (G1 ++ G2) -> HK G2.
Proof. intros G1 G2 H. apply Forall_app in H. apply H. Qed.

Lemma HK_record : forall G0 o rs r cur,
  HK (G0 ++ [(o, rs)]) -> Chain cur (G0 ++ [(o, rs)]) -> keep_rec cur r ->
  HK (G0 ++ [(o, rs ++ [r])]).
Proof.
  intros G0 o rs r cur H HC Hk. unfold HK in *. apply Forall_app in H. destruct H as [H0 Hl].
  apply Forall_app. split; [exact H0|]. constructor; [|constructor].
  inversion Hl as [|? ? (st & tl & E & Hkl) _]; subst. cbn [snd] in *.
  destruct (Chain_cur _ _ _ _ HC) as (st' & tl' & E' & Hrun). rewrite E in E'. inversion E'; subst st' tl'.
  exists st, (tl ++ [r]). split; [rewrite E; reflexivity|].
  apply keeps_last_app; [exact Hkl|]. intros x Hx. rewrite Hrun in Hx. inversion Hx; subst x.
  cbn [keeps_last]. split; [exact Hk|]. destruct (rs_apply cur r); exact I.
Qed.

Lemma HK_rotate : forall G off cur, HK G -> HK (G ++ [(off, [RState cur])]).
Proof.
  intros G off cur H. unfold HK. apply Forall_app. split; [exact H|]. constructor; [|constructor].
  exists cur, []. split; [reflexivity|exact I].
Qed.
