(* Crash images outside the gap class are chained (dir_chained), so crash -> reboot ->
   reopen -> crash can be iterated inside C05_recovers_outside_known_from. *)
From Coq Require Import List NArith Bool Lia Arith Sorting.Sorted.
From Coq Require Import ZifyBool ZifyN ZifyNat.
From Coq.Strings Require Import Byte.
From RaftLog Require Import Base.Bytes Model.Types Model.Codec Model.Cache Model.Core
  Model.Recover Model.Run Model.Sys Spec.Durable.
From RaftLog Require Import Proofs.CodecFacts Proofs.NoPanic Proofs.ScanFacts Proofs.RecoverFacts.
From RaftLog Require Proofs.CorruptFacts Proofs.PurgeFacts Proofs.JournalChunk Proofs.JournalFacts.
From RaftLog Require Import Proofs.CrashBase Proofs.CrashJournal Proofs.CrashSteps.
Import ListNotations.
Local Open Scope N_scope.
Local Arguments N.add : simpl never.
Local Arguments N.sub : simpl never.
Local Arguments N.mul : simpl never.
Local Arguments N.eqb : simpl never.
Local Arguments N.ltb : simpl never.
Local Arguments N.leb : simpl never.
Local Arguments N.compare : simpl never.
Local Arguments N.of_nat : simpl never.
Local Arguments enc_record : simpl never.

From RaftLog Require Import Proofs.CrashRecover.
From RaftLog Require Proofs.AckFacts Proofs.RestartShape Proofs.RestartSys Proofs.RestartCrash.

From RaftLog Require Proofs.AckFacts Proofs.RestartShape Proofs.RestartSys Proofs.RestartCrash.
From RaftLog Require Import Proofs.RestartCrashImg.
Module RC := RestartCrash.
Module RSy := RestartSys.

(* ------------------------------------------------------------------ chains *)
Lemma Chain_app_l : forall X C cur, RS.Chain cur (X ++ C) ->
  RS.Chain (match C with [] => cur | c :: _ => RS.head_state (snd c) end) X.
Proof.
  induction X as [|x X IH]; intros C cur H; [exact I|].
  cbn [app RS.Chain] in *. destruct H as [H1 H2]. split; [|apply IH; exact H2].
  destruct X as [|x' X']; [|exact H1]. cbn [app] in H1. exact H1.
Qed.

Lemma head_firstn j rs : firstn j rs <> [] -> RS.head_state (firstn j rs) = RS.head_state rs.
Proof. destruct j; [intros H; now elim H|]. destruct rs; [intros H; now elim H|reflexivity]. Qed.

Lemma chain_chainedL : forall Go gl cur j, RS.Chain cur (Go ++ [gl]) ->
  RC.chainedL (map snd Go ++ [firstn j (snd gl)]).
Proof.
  induction Go as [|g Go IH]; intros gl cur j H.
  - cbn [app map RC.chainedL RS.Chain] in *. destruct H as [(st & tl & E & _) _]. split; [|exact I].
    intros Hne. rewrite E in *. destruct j; [now elim Hne|]. cbn [firstn]. eexists _, _. split; [reflexivity|exact I].
  - cbn [app RS.Chain] in H. destruct H as [(st & tl & E & Hr) H2].
    cbn [map app RC.chainedL]. split; [|eapply IH; exact H2].
    intros _. exists st, tl. split; [exact E|].
    destruct Go as [|g' Go'].
    + cbn [map app] in *. intros Hne. rewrite Hr. f_equal. symmetry. now apply head_firstn.
    + cbn [map app] in *. intros _. exact Hr.
Qed.

Lemma recs_of_tail rs tl : Forall wf_record rs -> tail_shape tl -> RC.recs_of (encs rs ++ tl) = rs.
Proof.
  intros Hw Ht. destruct (scan_tail_shape rs tl Hw Ht) as [e E]. unfold RC.recs_of. rewrite E.
  cbn [fst]. apply sized_fst.
Qed.

(* ------------------------------------------------------------------ crash images are chained *)
Definition any_cfg : config := mkConfig 0 0 0 0 true.

Lemma crash_image_chained_gen z d' G : PurgeFacts.Inv z -> AD.full z -> JI z G -> crash_image z d' ->
  ~ gap_class d' -> RC.dir_chained d'.
Proof.
  intros Hinv Hfull J Hc Hng. destruct d' as [|f0 l0] eqn:Ed; [exact I|]. rewrite <- Ed in *.
  destruct (crash_open_gen any_cfg z d' G Hinv Hfull J Hc Hng eq_refl) as
    (Gd & Go & o & recs & j & older' & nf' & tl & y' & s1 & IF & EGd & Ed' & Hfm & Eid & Edat & Htl & _).
  { rewrite Ed. discriminate. }
  destruct IF as [J' (A & C & EG & _) _ _ _].
  pose proof (gi_ok _ _ _ _ (ji_gi _ _ J')) as Hok.
  pose proof (gi_chain _ _ _ _ (ji_gi _ _ J')) as Hch.
  rewrite EG, EGd in Hok, Hch. rewrite !Forall_app in Hok. destruct Hok as (_ & [Hoko Hokl] & _).
  apply RS.Chain_app_r in Hch. apply Chain_app_l in Hch.
  unfold RC.dir_chained. rewrite Ed', map_app. cbn [map].
  assert (E1 : map (fun f => RC.recs_of (f_data f)) older' = map snd Go).
  { clear - Hfm Hoko. induction Hfm as [|f g l1 l2 [_ E] _ IH]; [reflexivity|].
    inversion Hoko as [|? ? [Hw _] Hoko']; subst. cbn [map]. rewrite E, RC.recs_of_encs by exact Hw.
    f_equal. now apply IH. }
  rewrite E1, Edat.
  inversion Hokl as [|? ? [Hw _] _]; subst. cbn [snd] in Hw.
  rewrite recs_of_tail; [|apply Forall_firstn_; exact Hw|exact Htl].
  exact (chain_chainedL Go _ _ j Hch).
Qed.

Theorem crash_image_chained : forall cfg z d',
  zreach cfg z -> hist_wf z -> crash_image z d' -> ~ gap_class d' -> RC.dir_chained d'.
Proof.
  intros cfg z d' Hr Hw Hc Hng. destruct (L2_journal cfg z Hr Hw) as [G J].
  eapply crash_image_chained_gen; eauto.
  - eapply PurgeFacts.zreach_Inv; eauto.
  - eapply full_reach; eauto.
Qed.

Theorem crash_image_chained_from : forall cfg d z d',
  RC.dir_ok d -> RSy.zreach_from cfg d z -> hist_wf z -> crash_image z d' -> ~ gap_class d' ->
  RC.dir_chained d'.
Proof.
  intros cfg d z d' Hd Hr Hw Hc Hng. destruct (RC.full_JI_from cfg d z Hd Hr) as [Hfull HJ].
  destruct (HJ Hw) as [G J]. eapply crash_image_chained_gen; eauto.
  eapply RC.Inv_from; [apply Hd|exact Hr].
Qed.

(* ------------------------------------------------------------------ reboot and iterate *)
(* after a machine crash everything that is in the files is on the medium *)
Definition reboot (d : disk) : disk :=
  map (fun f => mkFile (f_id f) (f_data f) (N.of_nat (length (f_data f)))) d.

Lemma reboot_ok d : disk_sorted d -> RC.dir_chained d -> RC.dir_ok (reboot d).
Proof.
  intros Hs Hc.
  assert (Hall : Forall (fun f => f_synced f = N.of_nat (length (f_data f))) (reboot d)).
  { unfold reboot. rewrite Forall_map. clear. induction d; constructor; auto. }
  split; [split|split].
  - eapply sorted_of_ids; [|exact Hs]. unfold reboot. rewrite map_map. reflexivity.
  - eapply Forall_impl; [|exact Hall]. intros f E. unfold AckFacts.synced_le. rewrite E. lia.
  - unfold RSy.older_synced. now apply RestartShape.Forall_removelast.
  - unfold RC.dir_chained, reboot in *. rewrite map_map. exact Hc.
Qed.

Lemma crash_image_sorted z d' : AD.full z -> crash_image z d' -> disk_sorted d'.
Proof.
  intros Hf Hc. eapply sorted_of_ids; [apply crash_image_ids; eauto|]. apply AD.b_sorted, AD.f_b, Hf.
Qed.

Theorem crash_reboot_ok : forall cfg z d',
  zreach cfg z -> hist_wf z -> crash_image z d' -> ~ gap_class d' -> RC.dir_ok (reboot d').
Proof.
  intros cfg z d' Hr Hw Hc Hng. apply reboot_ok.
  - eapply crash_image_sorted; [eapply full_reach|]; eauto.
  - eapply crash_image_chained; eauto.
Qed.

Theorem crash_reboot_ok_from : forall cfg d z d',
  RC.dir_ok d -> RSy.zreach_from cfg d z -> hist_wf z -> crash_image z d' -> ~ gap_class d' ->
  RC.dir_ok (reboot d').
Proof.
  intros cfg d z d' Hd Hr Hw Hc Hng. apply reboot_ok.
  - eapply crash_image_sorted; [|eauto]. apply (RC.full_JI_from cfg d z Hd Hr).
  - eapply crash_image_chained_from; eauto.
Qed.

(* crash, reboot, reopen (any configuration), work, crash again: the directory still opens *)
Theorem C05_recovers_twice : forall cfg cfg' cfg'' z1 d1 z2 d2,
  zreach cfg z1 -> hist_wf z1 -> crash_image z1 d1 -> ~ gap_class d1 ->
  RSy.zreach_from cfg' (reboot d1) z2 -> hist_wf z2 -> crash_image z2 d2 -> ~ gap_class d2 ->
  c_truncate cfg'' = true ->
  exists y, open_dir cfg'' d2 = OpenOk y /\ sys_ok y /\
            (forall ops res fin, run_ops y ops = (res, fin) -> ~ In ResPanic res).
Proof.
  intros cfg cfg' cfg'' z1 d1 z2 d2 Hr1 Hw1 Hc1 Hg1 Hr2 Hw2 Hc2 Hg2 Ht.
  eapply (C05_recovers_outside_known_from cfg' cfg'' (reboot d1) z2 d2); eauto.
  eapply crash_reboot_ok; eauto.
Qed.

(* and any number of times: the hypothesis of C05_recovers_outside_known_from is re-established
   by every crash + reboot of an instance that was itself started on such a directory *)
Theorem C05_recovers_again : forall cfg cfg' cfg'' d z1 d1 z2 d2,
  RC.dir_ok d -> RSy.zreach_from cfg d z1 -> hist_wf z1 -> crash_image z1 d1 -> ~ gap_class d1 ->
  RSy.zreach_from cfg' (reboot d1) z2 -> hist_wf z2 -> crash_image z2 d2 -> ~ gap_class d2 ->
  c_truncate cfg'' = true ->
  exists y, open_dir cfg'' d2 = OpenOk y /\ sys_ok y /\
            (forall ops res fin, run_ops y ops = (res, fin) -> ~ In ResPanic res).
Proof.
  intros cfg cfg' cfg'' d z1 d1 z2 d2 Hd Hr1 Hw1 Hc1 Hg1 Hr2 Hw2 Hc2 Hg2 Ht.
  eapply (C05_recovers_outside_known_from cfg' cfg'' (reboot d1) z2 d2); eauto.
  eapply crash_reboot_ok_from; eauto.
Qed.

Print Assumptions crash_image_chained.
Print Assumptions crash_image_chained_from.
Print Assumptions crash_reboot_ok.
Print Assumptions crash_reboot_ok_from.
Print Assumptions C05_recovers_twice.
Print Assumptions C05_recovers_again.
