(* Property C07 across clean restarts, for arbitrary cache limits.

   Route.  The journal side of a run (disk, worker files, queue, index map, Raft state,
   chunk bookkeeping) does not depend on the payload-cache limits: [yeq] relates two
   systems that differ only in the cache, the hit/miss counters and the cache limits of
   the configuration, and it is preserved by every operation and by [open_dir]
   (section "erasure").  So the run under [cfg] is shadowed by a run under a
   configuration with a cache that holds the whole history, for which the restart
   machinery of RestartFacts.v / RestartCycles.v applies ([reopen], [reopen_FI]): the
   reopened store has the index map and the Raft state of the store before the restart,
   and its closed chunks bound the entries stored in them.  Transported back along
   [yeq], this gives [KInv] and [PL] of the store reopened under [cfg'].  The cache part
   of [I7] ([CIs], [EB]) is proved directly on the replay under [cfg']:
   - [CLI]: a resident payload of a log id known to the index map is the payload of the
     record the index map points to (so it is the reference log's payload, by [PL]);
   - [PR]: the replay of the newest file under [cfg'] next to the replay of the same
     records under the big cache: what the big cache holds is held by the small one too
     unless it is at or below the boundary installed for that file or was not inserted
     while that file was replayed.  The big cache holds every live entry ([R_hit]), and
     [restart_ok] says that no live entry of the newest chunk is at or below that
     boundary, so those entries are resident; every other chunk is closed and complete
     on disk ([ondisk_quiet]). *)
From Coq Require Import List NArith Bool Lia Arith Sorted.
From Coq.Strings Require Import Byte.
From RaftLog Require Import Base.Bytes Base.Crc32 Model.Types Model.Codec Model.Cache Model.Core
  Model.Recover Model.Run Spec.Spec Spec.Hist.
From RaftLog Require Proofs.CacheFacts Proofs.CacheSys Proofs.NoPanic.
From RaftLog Require Import Proofs.ScanFacts Proofs.RecoverFacts.
From RaftLog Require Import Proofs.CodecFacts Proofs.JournalDisk Proofs.JournalChunk Proofs.JournalFacts
  Proofs.PurgeFacts.
From RaftLog Require Import Proofs.OrderFacts Proofs.SmFacts Proofs.Refine Proofs.PurgeLive Proofs.ReadCache
  Proofs.ReadInv Proofs.ReadFacts.
From RaftLog Require Import Proofs.RestartSim Proofs.RestartInv Proofs.RestartFacts Proofs.RestartCycles
  Proofs.RestartCache Proofs.CacheRestart.
Import ListNotations.
Local Open Scope N_scope.
Local Arguments N.add : simpl never.
Local Arguments N.sub : simpl never.
Local Arguments N.mul : simpl never.
Local Arguments N.eqb : simpl never.
Local Arguments N.ltb : simpl never.
Local Arguments N.leb : simpl never.
Local Arguments N.compare : simpl never.
Local Arguments N.of_nat : simpl never.
Local Arguments enc_record : simpl never.

(* ================================================================== erasure of the cache *)
Definition seq (s1 s2 : sm) : Prop := m_rs s1 = m_rs s2 /\ m_log s1 = m_log s2.
Definition cfgq (c1 c2 : config) : Prop :=
  c_max_records c1 = c_max_records c2 /\ c_max_size c1 = c_max_size c2.

Record keq (k1 k2 : core) : Prop := mkKeq {
  ke_cfg : cfgq (k_cfg k1) (k_cfg k2);
  ke_sm : seq (k_sm k1) (k_sm k2);
  ke_open : k_open k1 = k_open k2;
  ke_pending : k_pending k1 = k_pending k2;
  ke_closed : k_closed k1 = k_closed k2;
  ke_removed : k_removed k1 = k_removed k2;
  ke_cb : k_next_cb k1 = k_next_cb k2 }.

Record yeq (y1 y2 : sys) : Prop := mkYeq {
  ye_core : keq (y_core y1) (y_core y2);
  ye_disk : y_disk y1 = y_disk y2;
  ye_queue : y_queue y1 = y_queue y2;
  ye_files : y_files y1 = y_files y2;
  ye_acks : y_acks y1 = y_acks y2 }.

Lemma sm_apply_seq : forall s1 s2 r c seg, seq s1 s2 ->
  seq (fst (sm_apply s1 r c seg)) (fst (sm_apply s2 r c seg)) /\
  snd (sm_apply s1 r c seg) = snd (sm_apply s2 r c seg).
Proof.
  intros s1 s2 r c seg [H1 H2]. unfold sm_apply. rewrite H1, H2.
  destruct r as [v|id p|id|o|u|st]; destruct (rs_apply (m_rs s2) _) as [rs'|e];
    cbn [fst snd m_rs m_log]; (split; [split|]; reflexivity).
Qed.

Lemma is_full_cfgq : forall c1 c2 ch, cfgq c1 c2 -> is_full c1 ch = is_full c2 ch.
Proof. intros c1 c2 ch [H1 H2]. unfold is_full. rewrite H1, H2. reflexivity. Qed.

(* related outcomes of a caller-side step *)
Definition oeq (o1 o2 : outcome (core * wres * list eff)) : Prop :=
  match o1, o2 with
  | Ret (k1, w1, e1), Ret (k2, w2, e2) => keq k1 k2 /\ w1 = w2 /\ e1 = e2
  | Panic, Panic => True
  | _, _ => False
  end.

Lemma try_close_keq : forall k1 k2, keq k1 k2 ->
  match try_close k1, try_close k2 with
  | Ret (k1', e1), Ret (k2', e2) => keq k1' k2' /\ e1 = e2
  | Panic, Panic => True
  | _, _ => False
  end.
Proof.
  intros k1 k2 [Hc [Hr Hl] Ho Hp Hcl Hrm Hcb]. unfold try_close.
  rewrite (is_full_cfgq _ _ (k_open k1) Hc), Ho, Hp, Hcl, Hr.
  destruct (is_full (k_cfg k2) (k_open k2)).
  - destruct (ck_last_segment (k_open k2)) as [[s l]|]; [|exact I].
    split; [|reflexivity]. constructor; cbn [k_cfg k_sm k_open k_pending k_closed k_removed k_next_cb];
      try assumption; try reflexivity. split; assumption.
  - split; [|reflexivity]. constructor; try assumption. split; assumption.
Qed.

Lemma aaa_keq : forall k1 k2 r, keq k1 k2 -> oeq (append_and_apply k1 r) (append_and_apply k2 r).
Proof.
  intros k1 k2 r HK. pose proof HK as [Hc [Hr Hl] Ho Hp Hcl Hrm Hcb].
  unfold append_and_apply. destruct (index_limit r).
  { cbn [oeq]. split; [exact HK|split; reflexivity]. }
  rewrite Hr. destruct (rs_validate (m_rs (k_sm k2)) r) as [e|].
  { cbn [oeq]. split; [exact HK|split; reflexivity]. }
  rewrite Ho. destruct (ck_last_segment (ck_push (k_open k2) _)) as [seg|]; [|exact I].
  destruct (sm_apply_seq (k_sm k1) (k_sm k2) r (ck_id (ck_push (k_open k2) (N.of_nat (length (enc_record r))))) seg
              (conj Hr Hl)) as [Hs He].
  destruct (sm_apply (k_sm k1) r _ seg) as [sa oa].
  destruct (sm_apply (k_sm k2) r _ seg) as [sb ob]. cbn [fst snd] in Hs, He. subst ob.
  rewrite Hp, Hcl, Hrm, Hcb.
  set (ka := mkCore (k_cfg k1) sa _ _ _ _ (k_hit k1) (k_miss k1) _).
  set (kb := mkCore (k_cfg k2) sb _ _ _ _ (k_hit k2) (k_miss k2) _).
  assert (Hab : keq ka kb) by (constructor; try reflexivity; assumption).
  destruct oa as [e|].
  { cbn [oeq]. split; [exact Hab|split; reflexivity]. }
  pose proof (try_close_keq ka kb Hab) as Ht.
  destruct (try_close ka) as [[ka' ea]|]; destruct (try_close kb) as [[kb' eb]|]; try contradiction; [|exact I].
  destruct Ht as [Ht1 Ht2]. subst eb. cbn [oeq]. split; [exact Ht1|split; reflexivity].
Qed.

Lemma do_append_keq : forall es k1 k2 acc effs, keq k1 k2 ->
  oeq (do_append k1 es acc effs) (do_append k2 es acc effs).
Proof.
  induction es as [|[id p] es IH]; intros k1 k2 acc effs HK; cbn [do_append].
  - cbn [oeq]. split; [exact HK|split; reflexivity].
  - pose proof (aaa_keq k1 k2 (RAppend id p) HK) as H. unfold oeq in H.
    destruct (append_and_apply k1 (RAppend id p)) as [[[ka wa] ea]|];
      destruct (append_and_apply k2 (RAppend id p)) as [[[kb wb] eb]|]; try contradiction; [|exact I].
    destruct H as (H1 & H2 & H3). subst wb eb.
    destruct wa as [off len|e].
    + apply IH. exact H1.
    + cbn [oeq]. split; [exact H1|split; reflexivity].
Qed.

Lemma do_write_keq : forall k1 k2 w, keq k1 k2 -> oeq (do_write k1 w) (do_write k2 w).
Proof.
  intros k1 k2 w HK. pose proof HK as [Hc [Hr Hl] Ho Hp Hcl Hrm Hcb].
  destruct w as [v|es|i|u|id|u|st]; cbn [do_write].
  - apply aaa_keq. exact HK.
  - unfold wal_last_segment. rewrite Ho.
    destruct (ck_last_segment (k_open k2)) as [[s l]|]; [|exact I]. apply do_append_keq. exact HK.
  - rewrite Hr. destruct (N.eqb i (next_index (r_purged (m_rs (k_sm k2))))); [apply aaa_keq; exact HK|].
    destruct (N.eqb i 0). { cbn [oeq]. split; [exact HK|split; reflexivity]. }
    unfold lm_get_id. rewrite Hl. destruct (lm_get (i - 1) (m_log (k_sm k2))) as [d|].
    + apply aaa_keq. exact HK.
    + cbn [oeq]. split; [exact HK|split; reflexivity].
  - rewrite Hr. destruct (N.ltb (lid_index u) (next_index (r_purged (m_rs (k_sm k2))))).
    + unfold wal_last_segment. rewrite Ho. destruct (ck_last_segment (k_open k2)) as [[s l]|]; [|exact I].
      cbn [oeq]. split; [exact HK|split; reflexivity].
    + pose proof (aaa_keq k1 k2 (RPurge u) HK) as H. unfold oeq in H.
      destruct (append_and_apply k1 (RPurge u)) as [[[ka wa] ea]|];
        destruct (append_and_apply k2 (RPurge u)) as [[[kb wb] eb]|]; try contradiction; [|exact I].
      destruct H as (H1 & H2 & H3). subst wb eb.
      destruct wa as [off len|e]; [|cbn [oeq]; split; [exact H1|split; reflexivity]].
      pose proof H1 as [Hc' [Hr' Hl'] Ho' Hp' Hcl' Hrm' Hcb'].
      rewrite Hcl'. destruct (pop_obsolete u (k_closed kb)) as [ids rest].
      cbn [oeq]. split; [|split; reflexivity].
      constructor; cbn [k_cfg k_sm k_open k_pending k_closed k_removed k_next_cb];
        try assumption; try reflexivity; [split; assumption|rewrite Hrm'; reflexivity].
  - apply aaa_keq. exact HK.
  - rewrite Hr. apply aaa_keq. exact HK.
  - apply aaa_keq. exact HK.
Qed.

Lemma do_flush_keq : forall k1 k2 cb, keq k1 k2 ->
  keq (fst (do_flush k1 cb)) (fst (do_flush k2 cb)) /\ snd (do_flush k1 cb) = snd (do_flush k2 cb).
Proof.
  intros k1 k2 cb [Hc [Hr Hl] Ho Hp Hcl Hrm Hcb]. unfold do_flush. cbn [fst snd].
  rewrite Ho, Hp, Hrm, Hcb. split; [|reflexivity].
  constructor; cbn [k_cfg k_sm k_open k_pending k_closed k_removed k_next_cb]; try assumption; try reflexivity.
  split; assumption.
Qed.

Lemma apply_eff_yeq : forall y1 y2 e, yeq y1 y2 -> yeq (apply_eff y1 e) (apply_eff y2 e).
Proof.
  intros y1 y2 e [Hk Hd Hq Hf Ha]. destruct e as [id head|r]; cbn [apply_eff];
    constructor; cbn [y_core y_disk y_queue y_files y_acks]; try assumption.
  - rewrite Hd. reflexivity.
  - rewrite Hq. reflexivity.
Qed.

Lemma apply_effs_yeq : forall es y1 y2, yeq y1 y2 -> yeq (apply_effs y1 es) (apply_effs y2 es).
Proof.
  unfold apply_effs. induction es as [|e es IH]; intros y1 y2 H; cbn [fold_left]; [exact H|].
  apply IH. apply apply_eff_yeq. exact H.
Qed.

Lemma with_core_yeq : forall y1 y2 k1 k2, yeq y1 y2 -> keq k1 k2 -> yeq (with_core y1 k1) (with_core y2 k2).
Proof.
  intros y1 y2 k1 k2 [Hk Hd Hq Hf Ha] HK. constructor; cbn [with_core y_core y_disk y_queue y_files y_acks];
    assumption.
Qed.

Lemma keq_cache_l : forall k1 k2 c, keq k1 k2 -> keq (core_with_cache k1 c) k2.
Proof.
  intros k1 k2 c [Hc [Hr Hl] Ho Hp Hcl Hrm Hcb]. constructor; try assumption. split; assumption.
Qed.
Lemma keq_cache_r : forall k1 k2 c, keq k1 k2 -> keq k1 (core_with_cache k2 c).
Proof.
  intros k1 k2 c [Hc [Hr Hl] Ho Hp Hcl Hrm Hcb]. constructor; try assumption. split; assumption.
Qed.

Lemma worker_step_yeq : forall y1 y2 r, yeq y1 y2 -> yeq (worker_step y1 r) (worker_step y2 r).
Proof.
  intros y1 y2 r [Hk Hd Hq Hf Ha]. destruct r as [upto data cb|off prev|rm]; cbn [worker_step].
  - rewrite Hf. destruct (rev (y_files y2)) as [|newest older]; [constructor; assumption|].
    constructor; cbn [y_core y_disk y_queue y_files y_acks]; try assumption; try reflexivity.
    + apply keq_cache_l, keq_cache_r. exact Hk.
    + rewrite Hd. reflexivity.
    + rewrite Ha. reflexivity.
  - constructor; cbn [y_core y_disk y_queue y_files y_acks]; try assumption. rewrite Hf. reflexivity.
  - constructor; cbn [y_core y_disk y_queue y_files y_acks]; try assumption. rewrite Hd. reflexivity.
Qed.

Lemma worker_idle_yeq : forall y1 y2, yeq y1 y2 -> yeq (worker_idle y1) (worker_idle y2).
Proof.
  intros y1 y2 H. pose proof H as [Hk Hd Hq Hf Ha]. unfold worker_idle. rewrite Hq.
  assert (H0 : yeq (mkSys (y_core y1) (y_disk y1) [] (y_files y1) (y_acks y1))
                   (mkSys (y_core y2) (y_disk y2) [] (y_files y2) (y_acks y2))).
  { constructor; cbn [y_core y_disk y_queue y_files y_acks]; try assumption. reflexivity. }
  revert H0. generalize (mkSys (y_core y1) (y_disk y1) [] (y_files y1) (y_acks y1)).
  generalize (mkSys (y_core y2) (y_disk y2) [] (y_files y2) (y_acks y2)).
  clear. generalize (y_queue y2) as q.
  induction q as [|r q IH]; intros a b Hab; cbn [fold_left]; [exact Hab|].
  apply IH. apply worker_step_yeq. exact Hab.
Qed.

(* a forced drain only touches the cache: the shadow run does nothing *)
Definition undrain (o : op) : op := match o with ODrain => OStat | _ => o end.

Definition not_restart (o : op) : bool := match o with ORestart _ => false | _ => true end.

Lemma run_op_yeq : forall y1 y2 o, yeq y1 y2 -> not_restart o = true ->
  match run_op y1 o, run_op y2 (undrain o) with
  | (Some a, _), (Some b, _) => yeq a b
  | (None, _), (None, _) => True
  | _, _ => False
  end.
Proof.
  intros y1 y2 o H Hn. pose proof H as [Hk Hd Hq Hf Ha].
  destruct o as [w|cb|from to| | | | | |cfg]; cbn [undrain run_op]; try exact H; try discriminate Hn.
  - pose proof (do_write_keq _ _ w Hk) as Hw. unfold oeq in Hw.
    destruct (do_write (y_core y1) w) as [[[ka wa] ea]|]; destruct (do_write (y_core y2) w) as [[[kb wb] eb]|];
      try contradiction; [|exact I].
    destruct Hw as (H1 & H2 & H3). subst eb. apply apply_effs_yeq. apply with_core_yeq; assumption.
  - destruct (do_flush_keq _ _ cb Hk) as [H1 H2].
    destruct (do_flush (y_core y1) cb) as [ka ea]. destruct (do_flush (y_core y2) cb) as [kb eb].
    cbn [fst snd] in H1, H2. subst eb. apply apply_effs_yeq. apply with_core_yeq; assumption.
  - unfold do_read.
    destruct (read_items (m_cache (k_sm (y_core y1))) _ _ _ _ _) as [[i1 h1] m1].
    destruct (read_items (m_cache (k_sm (y_core y2))) _ _ _ _ _) as [[i2 h2] m2].
    apply with_core_yeq; [exact H|]. destruct Hk as [Hc Hs Ho Hp Hcl Hrm Hcb]. constructor; assumption.
  - apply worker_idle_yeq. exact H.
  - constructor; cbn [with_core y_core y_disk y_queue y_files y_acks]; try assumption.
    apply keq_cache_l. exact Hk.
Qed.

Lemma run_ops_yeq : forall ops y1 y2 res y1', yeq y1 y2 -> forallb not_restart ops = true ->
  run_ops y1 ops = (res, Some y1') ->
  exists res' y2', run_ops y2 (map undrain ops) = (res', Some y2') /\ yeq y1' y2'.
Proof.
  induction ops as [|o ops IH]; intros y1 y2 res y1' H Hn Hrun.
  - cbn [run_ops] in Hrun. inversion Hrun; subst. exists [], y2. split; [reflexivity|exact H].
  - cbn [forallb] in Hn. apply andb_true_iff in Hn. destruct Hn as [Hn1 Hn2].
    cbn [map run_ops] in *. pose proof (run_op_yeq y1 y2 o H Hn1) as Hop.
    destruct (run_op y1 o) as [[a|] ra]; [|inversion Hrun].
    destruct (run_op y2 (undrain o)) as [[b|] rb]; [|contradiction].
    destruct (run_ops a ops) as [rs fin] eqn:Ea. inversion Hrun; subst.
    destruct (IH a b rs y1' Hop Hn2 Ea) as (res' & y2' & E2 & Hy). rewrite E2.
    eexists. eexists. split; [reflexivity|exact Hy].
Qed.

(* ------------------------------------------------------------------ recovery *)
Record aeq (a1 a2 : open_acc) : Prop := mkAeq {
  ae_sm : seq (oa_sm a1) (oa_sm a2);
  ae_closed : oa_closed a1 = oa_closed a2;
  ae_prev : oa_prev_end a1 = oa_prev_end a2;
  ae_last : oa_last a1 = oa_last a2;
  ae_disk : oa_disk a1 = oa_disk a2 }.

Lemma replay_seq : forall recs ends s1 s2 id start, seq s1 s2 ->
  seq (fst (replay s1 id start recs ends)) (fst (replay s2 id start recs ends)) /\
  snd (replay s1 id start recs ends) = snd (replay s2 id start recs ends).
Proof.
  induction recs as [|r recs IH]; intros ends s1 s2 id start HS; cbn [replay].
  - split; [exact HS|reflexivity].
  - destruct ends as [|e ends]; [split; [exact HS|reflexivity]|].
    destruct (sm_apply_seq s1 s2 r id (start, e - start) HS) as [H1 H2].
    destruct (sm_apply s1 r id (start, e - start)) as [sa oa].
    destruct (sm_apply s2 r id (start, e - start)) as [sb ob]. cbn [fst snd] in H1, H2. subst ob.
    destruct oa as [er|]; [split; [exact H1|reflexivity]|]. apply IH. exact H1.
Qed.

Lemma chunk_open_trunc : forall c1 c2 id data, c_truncate c1 = c_truncate c2 ->
  chunk_open c1 id data = chunk_open c2 id data.
Proof. intros c1 c2 id data H. unfold chunk_open. rewrite H. reflexivity. Qed.

Definition lres_eq (r1 r2 : open_acc + (err * disk)) : Prop :=
  match r1, r2 with
  | inl a, inl b => aeq a b
  | inr x, inr y => x = y
  | _, _ => False
  end.

Lemma open_loop_aeq : forall c1 c2 files a1 a2, c_truncate c1 = c_truncate c2 -> aeq a1 a2 ->
  lres_eq (open_loop c1 files a1) (open_loop c2 files a2).
Proof.
  intros c1 c2 files. induction files as [|f rest IH]; intros a1 a2 Ht HA.
  - cbn [open_loop lres_eq]. exact HA.
  - pose proof HA as [[Hr Hl] Hc Hp Hla Hd].
    cbn [open_loop]. cbv zeta. rewrite Hp, Hd, (chunk_open_trunc c1 c2 _ _ Ht).
    destruct (match oa_prev_end a2 with Some p => negb (N.eqb p (f_id f)) | None => false end);
      [reflexivity|].
    destruct (chunk_open c2 (f_id f) (f_data f)) as [oc|e]; [|reflexivity].
    set (d1 := if oc_truncated oc then _ else oa_disk a2).
    set (sa := mkSM (m_rs (oa_sm a1)) _ _). set (sb := mkSM (m_rs (oa_sm a2)) _ _).
    assert (HS : seq sa sb) by (split; assumption).
    assert (HB : lres_eq
              match replay sa (f_id f) (f_id f) (oc_records oc) (ck_ends (oc_chunk oc)) with
              | (s1, Some e) => inr (e, d1)
              | (s1, None) =>
                open_loop c1 rest
                  (mkOA s1 (closed_insert (mkClosed (oc_chunk oc) (m_rs s1) (oc_truncated oc)) (oa_closed a1))
                        (Some (ck_end (oc_chunk oc))) (r_last (m_rs s1)) d1)
              end
              match replay sb (f_id f) (f_id f) (oc_records oc) (ck_ends (oc_chunk oc)) with
              | (s1, Some e) => inr (e, d1)
              | (s1, None) =>
                open_loop c2 rest
                  (mkOA s1 (closed_insert (mkClosed (oc_chunk oc) (m_rs s1) (oc_truncated oc)) (oa_closed a2))
                        (Some (ck_end (oc_chunk oc))) (r_last (m_rs s1)) d1)
              end).
    { destruct (replay_seq (oc_records oc) (ck_ends (oc_chunk oc)) sa sb (f_id f) (f_id f) HS) as [H1 H2].
      destruct (replay sa _ _ _ _) as [ta oa]. destruct (replay sb _ _ _ _) as [tb ob].
      cbn [fst snd] in H1, H2. subst ob. destruct oa as [e|]; [reflexivity|].
      apply IH; [exact Ht|]. destruct H1 as [G1 G2].
      constructor; cbn [oa_sm oa_closed oa_prev_end oa_last oa_disk]; try reflexivity.
      - split; assumption.
      - rewrite G1, Hc. reflexivity.
      - rewrite G1. reflexivity. }
    destruct (ck_ends (oc_chunk oc)) as [|e0 ends0]; [destruct rest as [|f' rest']|]; try exact HB.
    cbn [lres_eq]. constructor; cbn [oa_sm oa_closed oa_prev_end oa_last oa_disk]; try assumption; try reflexivity.
Qed.

Lemma open_dir_yeq : forall c1 c2 d, cfgq c1 c2 -> c_truncate c1 = c_truncate c2 ->
  match open_dir c1 d, open_dir c2 d with
  | OpenOk a, OpenOk b => yeq a b
  | OpenErr e1 d1, OpenErr e2 d2 => e1 = e2 /\ d1 = d2
  | _, _ => False
  end.
Proof.
  intros c1 c2 d Hq Ht. unfold open_dir.
  assert (HA : aeq (mkOA (sm_new c1) [] None None d) (mkOA (sm_new c2) [] None None d)).
  { constructor; try reflexivity. split; reflexivity. }
  pose proof (open_loop_aeq c1 c2 d _ _ Ht HA) as HL. unfold lres_eq in HL.
  destruct (open_loop c1 d _) as [a|[e1 d1]]; destruct (open_loop c2 d _) as [b|[e2 d2]]; try contradiction.
  - destruct HL as [[Hr Hl] Hc Hp Hla Hd]. rewrite Hc.
    destruct (match split_last (oa_closed b) with
              | Some (init, lastc) => if cl_truncated lastc then None else Some (init, lastc)
              | None => None end) as [[init lastc]|].
    + constructor; cbn [y_core y_disk y_queue y_files y_acks]; try reflexivity; try assumption.
      constructor; cbn [k_cfg k_sm k_open k_pending k_closed k_removed k_next_cb]; try reflexivity; try assumption.
      split; assumption.
    + rewrite Hp, Hd. destruct (disk_get _ (oa_disk b)); [split; reflexivity|].
      rewrite Hr. constructor; cbn [y_core y_disk y_queue y_files y_acks]; try reflexivity.
      constructor; cbn [k_cfg k_sm k_open k_pending k_closed k_removed k_next_cb]; try reflexivity; try assumption.
      split; assumption.
  - inversion HL. split; reflexivity.
Qed.

Lemma replay_files_seq : forall G t1 t2, seq t1 t2 ->
  seq (fst (replay_files t1 G)) (fst (replay_files t2 G)) /\
  snd (replay_files t1 G) = snd (replay_files t2 G).
Proof.
  induction G as [|g G IH]; intros t1 t2 HS; cbn [replay_files]; [split; [exact HS|reflexivity]|].
  assert (HP : seq (chunk_pre t1) (chunk_pre t2)).
  { destruct HS as [H1 H2]. unfold chunk_pre. split; cbn [m_rs m_log]; assumption. }
  unfold chunk_replay.
  destruct (replay_seq (snd g) (ends_from (fst g) (map rec_size (snd g))) _ _ (fst g) (fst g) HP) as [H1 H2].
  destruct (replay (chunk_pre t1) _ _ _ _) as [ta oa]. destruct (replay (chunk_pre t2) _ _ _ _) as [tb ob].
  cbn [fst snd] in H1, H2. subst ob. destruct oa as [e|]; [split; [exact H1|reflexivity]|].
  apply IH. exact H1.
Qed.

(* ================================================================== the cache after a replay: payloads *)
(* every resident payload of a log id that the index map knows is the payload of the
   record the index map points to *)
Lemma lm_insert_strong : forall m k v e, StronglySorted N.lt (map fst m) ->
  In e (lm_insert k v m) -> e = (k, v) \/ (In e m /\ fst e <> k).
Proof.
  induction m as [|[k' v'] m IH]; intros k v e S H; cbn [lm_insert] in H.
  - destruct H as [H|[]]. left. symmetry. exact H.
  - cbn [map fst] in S. apply StronglySorted_inv in S. destruct S as [S F]. rewrite Forall_forall in F.
    destruct (N.compare_spec k k') as [E|E|E].
    + subst k'. destruct H as [H|H]; [left; symmetry; exact H|right].
      split; [right; exact H|]. specialize (F (fst e) (in_map fst _ _ H)). lia.
    + destruct H as [H|H]; [left; symmetry; exact H|right]. split; [exact H|].
      destruct H as [H|H]; [subst e; cbn [fst]; lia|]. specialize (F (fst e) (in_map fst _ _ H)). lia.
    + destruct H as [H|H]; [right; split; [left; exact H|subst e; cbn [fst]; lia]|].
      destruct (IH k v e S H) as [H1|[H1 H2]]; [left; exact H1|right; split; [right; exact H1|exact H2]].
Qed.

Lemma lm_insert_sorted : forall m k v, StronglySorted N.lt (map fst m) ->
  StronglySorted N.lt (map fst (lm_insert k v m)).
Proof.
  induction m as [|[k' v'] m IH]; intros k v S; cbn [lm_insert].
  - cbn. repeat constructor.
  - cbn [map fst] in S. pose proof S as S0. apply StronglySorted_inv in S. destruct S as [S F].
    destruct (N.compare_spec k k') as [E|E|E].
    + subst k'. exact S0.
    + cbn [map fst]. constructor; [exact S0|]. constructor; [exact E|].
      rewrite Forall_forall in *. intros x Hx. specialize (F x Hx). lia.
    + cbn [map fst]. constructor; [apply IH; exact S|].
      rewrite Forall_forall in *. intros x Hx. apply in_map_iff in Hx. destruct Hx as [e [Ex He]].
      apply JournalChunk.In_lm_insert in He. destruct He as [He|He].
      * subst e x. cbn [fst]. exact E.
      * subst x. apply F. apply in_map. exact He.
Qed.

Lemma ss_map_filter {A B} (R : A -> A -> Prop) (f : A * B -> bool) : forall m,
  StronglySorted R (map fst m) -> StronglySorted R (map fst (filter f m)).
Proof.
  induction m as [|x m IH]; intros S; cbn [filter map]; [constructor|].
  cbn [map] in S. apply StronglySorted_inv in S. destruct S as [S F].
  destruct (f x); [|apply IH; exact S]. cbn [map]. constructor; [apply IH; exact S|].
  rewrite Forall_forall in *. intros y Hy. apply F. apply in_map_iff in Hy. destruct Hy as [e [E He]].
  apply filter_In in He. subst y. apply in_map. apply He.
Qed.

Lemma sorted_keys_filter (f : logid * payload -> bool) es :
  CacheFacts.sorted_keys es -> CacheFacts.sorted_keys (filter f es).
Proof. unfold CacheFacts.sorted_keys. apply ss_map_filter. Qed.

Lemma cache_insert_sorted c k v : CacheFacts.sorted_keys (ch_entries c) ->
  CacheFacts.sorted_keys (ch_entries (cache_insert c k v)).
Proof.
  intros S. destruct (CacheFacts.cache_insert_entries c k v) as (pre & E & _).
  apply (CacheFacts.sorted_keys_suffix pre). rewrite <- E. apply CacheFacts.ent_insert_sorted. exact S.
Qed.

Lemma cache_insert_mem c k v e : CacheFacts.sorted_keys (ch_entries c) ->
  In e (ch_entries (cache_insert c k v)) -> e = (k, v) \/ (In e (ch_entries c) /\ fst e <> k).
Proof.
  intros S He. destruct (CacheFacts.cache_insert_entries c k v) as (pre & E & _).
  assert (Hi : In e (ent_insert k v (ch_entries c))) by (rewrite E; apply in_or_app; right; exact He).
  destruct (N.eq_dec (fst (fst e)) (fst k)) as [E1|E1]; [destruct (N.eq_dec (snd (fst e)) (snd k)) as [E2|E2]|].
  - left. destruct e as [[a b] w]. destruct k as [a' b']. cbn [fst snd] in E1, E2. subst a' b'.
    f_equal. apply (CacheFacts.sorted_keys_functional _ (a, b) w v (CacheFacts.ent_insert_sorted _ _ _ S) Hi).
    apply CacheFacts.ent_insert_in_new.
  - right. apply CacheFacts.ent_insert_in in Hi. destruct Hi as [Hi|Hi]; [subst e; cbn [fst] in E2; congruence|].
    split; [exact Hi|]. intros Ek. apply E2. rewrite Ek. reflexivity.
  - right. apply CacheFacts.ent_insert_in in Hi. destruct Hi as [Hi|Hi]; [subst e; cbn [fst] in E1; congruence|].
    split; [exact Hi|]. intros Ek. apply E1. rewrite Ek. reflexivity.
Qed.

Lemma sm_apply_sorted_cache s r c seg : CacheFacts.sorted_keys (ch_entries (m_cache s)) ->
  CacheFacts.sorted_keys (ch_entries (m_cache (fst (sm_apply s r c seg)))).
Proof.
  intros S. unfold sm_apply.
  destruct r as [v|id p|id|o|u|st]; destruct (rs_apply (m_rs s) _); cbn [fst m_cache]; try exact S.
  1,2: apply cache_insert_sorted; exact S.
  1,2: destruct o as [k|];
    [rewrite (CacheFacts.cache_truncate_after_entries _ _ S); apply sorted_keys_filter; exact S
    |rewrite CacheFacts.cache_clear_entries; apply CacheFacts.sorted_keys_nil].
  1,2: destruct (CacheFacts.cache_purge_upto_entries (m_cache s) u) as (pre & E & _);
    apply (CacheFacts.sorted_keys_suffix pre); rewrite <- E; exact S.
Qed.

Section CacheLog.
Variable fb : N -> bytes.

Record CLI (s : sm) : Prop := mkCLI {
  cl_pos : forall i ld p', In (i, ld) (m_log s) -> In (ld_id ld, p') (ch_entries (m_cache s)) ->
     wf_bytes p' /\ exists pre post,
       fb (ld_chunk ld) = pre ++ enc_record (RAppend (ld_id ld) p') ++ post /\
       ld_off ld = ld_chunk ld + blen pre;
  cl_key : forall i ld, In (i, ld) (m_log s) -> i = lid_index (ld_id ld);
  cl_sk : StronglySorted N.lt (map fst (m_log s));
  cl_sc : CacheFacts.sorted_keys (ch_entries (m_cache s)) }.

Lemma CLI_sub s s' : CLI s ->
  (forall e, In e (m_log s') -> In e (m_log s)) -> StronglySorted N.lt (map fst (m_log s')) ->
  incl (ch_entries (m_cache s')) (ch_entries (m_cache s)) ->
  CacheFacts.sorted_keys (ch_entries (m_cache s')) -> CLI s'.
Proof.
  intros [A B C D] Hl Hs Hc Hsc. constructor; try assumption.
  - intros i ld p' H1 H2. apply (A i ld p' (Hl _ H1) (Hc _ H2)).
  - intros i ld H1. apply (B i ld (Hl _ H1)).
Qed.

Lemma sm_apply_CLI s r c seg s1 : CLI s -> sm_apply s r c seg = (s1, None) ->
  (forall id p, r = RAppend id p -> wf_bytes p /\ exists pre post,
     fb c = pre ++ enc_record r ++ post /\ fst seg = c + blen pre) -> CLI s1.
Proof.
  intros HC Hs Hr. pose proof HC as [A B C D].
  pose proof (sm_apply_sorted_cache s r c seg D) as Hsc. rewrite Hs in Hsc. cbn [fst] in Hsc.
  unfold sm_apply in Hs.
  destruct r as [v|id p|id|o|u|st]; destruct (rs_apply (m_rs s) _) as [rs'|er]; inversion Hs; subst s1;
    clear Hs; cbn [m_cache m_log] in *.
  - constructor; assumption.
  - destruct (Hr id p eq_refl) as (Wp & pre & post & Ef & Eo). constructor; cbn [m_log m_cache].
    + intros i ld p' H1 H2. apply (lm_insert_strong _ _ _ _ C) in H1.
      apply (cache_insert_mem _ _ _ _ D) in H2. destruct H1 as [H1|[H1 H1n]].
      * inversion H1; subst i ld. cbn [ld_id ld_chunk ld_off] in *.
        destruct H2 as [H2|[_ H2]]; [|exfalso; apply H2; reflexivity].
        inversion H2; subst p'. split; [exact Wp|]. exists pre, post. split; assumption.
      * destruct H2 as [H2|[H2 _]]; [|apply (A i ld p' H1 H2)].
        exfalso. inversion H2 as [[E1 E2]]. apply H1n. cbn [fst]. rewrite (B i ld H1), E1. reflexivity.
    + intros i ld H1. apply JournalChunk.In_lm_insert in H1. destruct H1 as [H1|H1]; [|apply (B i ld H1)].
      inversion H1. reflexivity.
    + apply lm_insert_sorted. exact C.
    + exact Hsc.
  - constructor; assumption.
  - apply (CLI_sub s); [exact HC| |apply ss_map_filter; exact C| |exact Hsc]; cbn [m_log m_cache].
    + intros e He. unfold lm_keep_lt in He. apply filter_In in He. apply He.
    + destruct o as [k|]; [apply CacheFacts.cache_truncate_after_incl|].
      rewrite CacheFacts.cache_clear_entries. intros x [].
  - apply (CLI_sub s); [exact HC| |apply ss_map_filter; exact C| |exact Hsc]; cbn [m_log m_cache].
    + intros e He. unfold lm_keep_ge in He. apply filter_In in He. apply He.
    + apply CacheFacts.cache_purge_upto_incl.
  - constructor; assumption.
Qed.

Lemma replay_CLI id : forall rs pre s start s1,
  fb id = pre ++ encs rs -> start = id + blen pre -> Forall wf_record rs -> CLI s ->
  replay s id start rs (ends_from start (map rec_size rs)) = (s1, None) -> CLI s1.
Proof.
  induction rs as [|r rs IH]; intros pre s start s1 Hfb Hst Hwf HC H.
  - rewrite replay_nil in H. inversion H; subst. exact HC.
  - cbn [map ends_from replay] in H.
    replace (start + rec_size r - start) with (rec_size r) in H by lia.
    inversion Hwf as [|? ? Hw1 Hw2]; subst.
    destruct (sm_apply s r id (id + blen pre, rec_size r)) as [s2 [e|]] eqn:Ea; [discriminate H|].
    apply (IH (pre ++ enc_record r) s2 (id + blen pre + rec_size r) s1); try assumption.
    + rewrite Hfb, encs_cons, app_assoc. reflexivity.
    + rewrite blen_app, rec_size_blen. lia.
    + apply (sm_apply_CLI s r id (id + blen pre, rec_size r) s2 HC Ea).
      intros lid p Er. subst r. destruct Hw1 as [_ Wb]. split; [exact Wb|].
      exists pre, (encs rs). split; [rewrite Hfb, encs_cons; reflexivity|reflexivity].
Qed.

Lemma chunk_pre_CLI t : CLI t -> CLI (chunk_pre t).
Proof. intros [A B C D]. constructor; assumption. Qed.

Lemma replay_files_CLI : forall G t0 t,
  (forall g, In g G -> fb (fst g) = encs (snd g) /\ Forall wf_record (snd g)) ->
  CLI t0 -> replay_files t0 G = (t, None) -> CLI t.
Proof.
  induction G as [|g G IH]; intros t0 t HG HC H; cbn [replay_files] in H.
  - inversion H; subst. exact HC.
  - destruct (chunk_replay t0 g) as [t1 [e|]] eqn:Ec; [discriminate H|].
    apply (IH t1 t); [intros g' Hg'; apply HG; right; exact Hg'| |exact H].
    unfold chunk_replay in Ec. destruct (HG g (or_introl eq_refl)) as (A & B).
    apply (replay_CLI (fst g) (snd g) [] (chunk_pre t0) (fst g) t1); try assumption.
    + rewrite blen_nil. lia.
    + apply chunk_pre_CLI. exact HC.
Qed.

Lemma CLI_new cfg : CLI (sm_new cfg).
Proof.
  constructor; cbn [sm_new m_log m_cache cache_new ch_entries map].
  - intros i ld p' [].
  - intros i ld [].
  - constructor.
  - apply CacheFacts.sorted_keys_nil.
Qed.

End CacheLog.

(* ================================================================== the cache after a replay: residency *)
(* The replay of the newest file under the real limits ([s]) next to the replay of the
   same records under any other limits ([b]): whatever [b] holds is held by [s] too,
   unless it is at or below the boundary or was not inserted while this file was
   replayed ([I]: the log ids appended by this file so far). *)
Section Resident.
Variable o : N.
Variable bnd : option logid.

Record PRI (s b : sm) (I : list logid) : Prop := mkPRI {
  pr_res : forall e, In e (ch_entries (m_cache b)) ->
     In e (ch_entries (m_cache s)) \/ opair_leb (Some (fst e)) bnd = true \/ ~ In (fst e) I;
  pr_log : forall i ld, In (i, ld) (m_log s) -> ld_chunk ld = o -> In (ld_id ld) I;
  pr_ss : CacheFacts.sorted_keys (ch_entries (m_cache s));
  pr_sb : CacheFacts.sorted_keys (ch_entries (m_cache b));
  pr_ev : ch_evictable (m_cache s) = bnd }.

Definition PR (s b : sm) : Prop := exists I, PRI s b I.

Lemma sm_apply_PR s b r seg s1 b1 : PR s b ->
  sm_apply s r o seg = (s1, None) -> sm_apply b r o seg = (b1, None) -> PR s1 b1.
Proof.
  intros [I [A B C D E]] Hs Hb.
  exists (match r with RAppend id _ => id :: I | _ => I end).
  pose proof (sm_apply_sorted_cache s r o seg C) as C1. rewrite Hs in C1. cbn [fst] in C1.
  pose proof (sm_apply_sorted_cache b r o seg D) as D1. rewrite Hb in D1. cbn [fst] in D1.
  pose proof (sm_apply_evictable s r o seg) as E1. rewrite Hs in E1. cbn [fst] in E1. rewrite E in E1.
  assert (B1 : forall i ld, In (i, ld) (m_log s1) -> ld_chunk ld = o ->
                 In (ld_id ld) (match r with RAppend id _ => id :: I | _ => I end)).
  { intros i ld Hl Hc. pose proof (JournalChunk.sm_apply_log s r o seg (i, ld)) as H. rewrite Hs in H.
    cbn [fst] in H. destruct (H Hl) as [H0|(id & p & Er & Ee)].
    - specialize (B i ld H0 Hc). destruct r; try exact B. right. exact B.
    - subst r. inversion Ee. subst ld. cbn [ld_id]. left. reflexivity. }
  constructor; try assumption. clear B1.
  unfold sm_apply in Hs, Hb.
  destruct r as [v|id p|id|k|u|st]; destruct (rs_apply (m_rs s) _) as [rs'|er]; inversion Hs; subst s1;
    destruct (rs_apply (m_rs b) _) as [rb'|eb]; inversion Hb; subst b1; clear Hs Hb;
    cbn [m_cache] in *; try exact A.
  - (* append *)
    intros e He. apply (cache_insert_mem _ _ _ _ D) in He.
    destruct (CacheFacts.cache_insert_entries (m_cache s) id p) as (pre & Epre & Hpre).
    assert (Hsplit : In e (ent_insert id p (ch_entries (m_cache s))) ->
              In e (ch_entries (cache_insert (m_cache s) id p)) \/ opair_leb (Some (fst e)) bnd = true).
    { intros Hi. rewrite Epre in Hi. apply in_app_or in Hi. destruct Hi as [Hi|Hi]; [right|left; exact Hi].
      rewrite <- E. apply Hpre. exact Hi. }
    destruct He as [He|[He Hne]].
    + subst e. destruct (Hsplit (CacheFacts.ent_insert_in_new _ _ _)) as [H|H]; [left; exact H|right; left; exact H].
    + destruct (A e He) as [H|[H|H]].
      * destruct (Hsplit (CacheFacts.ent_insert_in_old _ _ _ _ H Hne)) as [H'|H']; [left; exact H'|right; left; exact H'].
      * right. left. exact H.
      * right. right. intros [Hi|Hi]; [apply Hne; symmetry; exact Hi|apply H; exact Hi].
  - (* truncate *)
    intros e He. destruct k as [k|].
    + rewrite (CacheFacts.cache_truncate_after_entries _ _ D) in He. apply filter_In in He.
      destruct He as [He Hk]. destruct (A e He) as [H|H]; [left|right; exact H].
      rewrite (CacheFacts.cache_truncate_after_entries _ _ C). apply filter_In. split; assumption.
    + rewrite CacheFacts.cache_clear_entries in He. destruct He.
  - (* purge *)
    intros e He. apply CacheFacts.cache_purge_upto_incl in He.
    destruct (A e He) as [H|H]; [|right; exact H].
    destruct (CacheFacts.cache_purge_upto_entries (m_cache s) u) as (pre & Epre & Hpre).
    rewrite Epre in H. apply in_app_or in H. destruct H as [H|H]; [right; left|left; exact H].
    rewrite <- E. apply (Hpre e H).
Qed.

Lemma replay_PR : forall rs ends s b start s1 b1, PR s b ->
  replay s o start rs ends = (s1, None) -> replay b o start rs ends = (b1, None) -> PR s1 b1.
Proof.
  induction rs as [|r rs IH]; intros ends s b start s1 b1 HP Hs Hb.
  - rewrite replay_nil in Hs, Hb. inversion Hs; inversion Hb; subst. exact HP.
  - destruct ends as [|e ends]; cbn [replay] in Hs, Hb.
    + inversion Hs; inversion Hb; subst. exact HP.
    + destruct (sm_apply s r o (start, e - start)) as [s2 [er|]] eqn:Ea; [discriminate Hs|].
      destruct (sm_apply b r o (start, e - start)) as [b2 [er|]] eqn:Eb; [discriminate Hb|].
      apply (IH ends s2 b2 e s1 b1); [|exact Hs|exact Hb].
      apply (sm_apply_PR s b r (start, e - start) s2 b2 HP Ea Eb).
Qed.

End Resident.

(* ================================================================== the known class at a restart *)
(* The eviction boundary that [open_dir] installs for the newest chunk file: none when
   that file is the oldest one in the directory, else the last log id of the snapshot
   that heads the file (the state when the previous chunk was closed). *)
Definition disk_bound (d : disk) (o : N) : option logid :=
  match d with
  | [] => None
  | f :: _ =>
    if N.eqb (f_id f) o then None
    else match disk_get o d with
         | Some fo => match dec_record (f_data fo) with
                      | DOk (RState st, _) => r_last st
                      | _ => None
                      end
         | None => None
         end
  end.
Definition restart_bound (y : sys) : option logid :=
  disk_bound (y_disk y) (ck_id (k_open (y_core y))).

(* every live entry stored in the open chunk is above that boundary *)
Definition restart_ok (y : sys) : bool :=
  forallb (fun e => negb (N.eqb (ld_chunk (snd e)) (ck_id (k_open (y_core y))))
                    || opair_ltb (restart_bound y) (Some (ld_id (snd e))))
          (m_log (k_sm (y_core y))).

Lemma open_dir_files cfg d y' : open_dir cfg d = OpenOk y' ->
  y_files y' = [mkWF (ck_id (k_open (y_core y'))) (prev_last_of (k_closed (y_core y')))].
Proof.
  rewrite open_dir_eq. unfold open_finish. destruct (open_loop cfg d (acc0 cfg d)) as [a|[e d']]; [|discriminate].
  destruct (reusable (oa_closed a)) as [[init lastc]|].
  - intros H. inversion H. reflexivity.
  - destruct (disk_get _ (oa_disk a)); [discriminate|]. intros H. inversion H.
    cbn [y_files y_core k_open k_closed]. rewrite ck_id_push. reflexivity.
Qed.

Lemma closed_files_last : forall G t0 t1, G <> [] -> replay_files t0 G = (t1, None) ->
  prev_last_of (closed_files t0 G) = r_last (m_rs t1).
Proof.
  induction G as [|g G IH]; intros t0 t1 Hne H; [congruence|].
  cbn [replay_files] in H. cbn [closed_files].
  destruct (chunk_replay t0 g) as [ta [e|]] eqn:Ec; [discriminate H|]. cbn [fst].
  destruct G as [|g' G'].
  - cbn [replay_files] in H. inversion H; subst. reflexivity.
  - assert (Hne' : g' :: G' <> []) by discriminate.
    specialize (IH ta t1 Hne' H). unfold prev_last_of in *.
    remember (closed_files ta (g' :: G')) as cl eqn:Ecl.
    destruct cl as [|c cl']; [cbn [closed_files] in Ecl; discriminate Ecl|].
    cbn [split_last]. cbn [split_last] in IH.
    destruct cl' as [|c' cl'']; [exact IH|].
    destruct (split_last (c' :: cl'')) as [[i z]|]; exact IH.
Qed.

Lemma Chain_init : forall G0 g cur, G0 <> [] -> Chain cur (G0 ++ [g]) -> Chain (head_state (snd g)) G0.
Proof.
  induction G0 as [|g0 G0 IH]; intros g cur Hne H; [congruence|].
  cbn [app Chain] in H. destruct H as [H1 H2]. cbn [Chain]. destruct G0 as [|g1 G1].
  - cbn [app] in H1. split; [exact H1|exact I].
  - split; [exact H1|]. apply (IH g cur); [discriminate|exact H2].
Qed.

(* ================================================================== the store reopened under any limits *)
Lemma reopen_cache cfg' cB d G0 o rs tB cur :
  dsorted d -> ids d = map fst (G0 ++ [(o, rs)]) ->
  Forall (file_ok (file_bytes d)) (G0 ++ [(o, rs)]) ->
  abut (file_bytes d) (map fst (G0 ++ [(o, rs)])) ->
  Chain cur (G0 ++ [(o, rs)]) ->
  replay_files (sm_new cB) (G0 ++ [(o, rs)]) = (tB, None) ->
  exists t,
    open_dir cfg' d =
      OpenOk (mkSys (mkCore cfg' t (chunk_of o rs) [] (closed_files (sm_new cfg') G0) [] 0 0 0)
                    d [] [mkWF o (disk_bound d o)] []) /\
    seq t tB /\ ch_evictable (m_cache t) = disk_bound d o /\
    CLI (file_bytes d) t /\ PR o (disk_bound d o) t tB.
Proof.
  intros Sd Gids Hfok Hab HC HrepB.
  set (G := G0 ++ [(o, rs)]) in *.
  assert (Hfb : forall g, In g G -> file_bytes d (fst g) = encs (snd g)).
  { intros g Hg. rewrite Forall_forall in Hfok. apply (Hfok g Hg). }
  assert (Hwf : forall g, In g G -> Forall wf_record (snd g)).
  { intros g Hg. rewrite Forall_forall in Hfok. apply (Hfok g Hg). }
  assert (Hjok : Forall jfile_ok G).
  { eapply Forall_impl; [|exact Hfok]. intros g (_ & H2 & st & tl & E).
    split; [exact H2|rewrite E; discriminate]. }
  assert (Hss : StronglySorted N.lt (map fst G)) by (unfold dsorted in Sd; rewrite Gids in Sd; exact Sd).
  assert (Hlt0 : forall g, In g G0 -> fst g < o).
  { intros g Hg. unfold G in Hss. rewrite map_app in Hss. apply ss_app_inv in Hss. destruct Hss as (_ & _ & S).
    apply (S (fst g) o); [apply in_map; exact Hg|left; reflexivity]. }
  (* the replay under the real limits *)
  assert (HS0 : seq (sm_new cfg') (sm_new cB)) by (split; reflexivity).
  destruct (replay_files_seq G _ _ HS0) as [Hq1 Hq2]. rewrite HrepB in Hq1, Hq2. cbn [fst snd] in Hq1, Hq2.
  destruct (replay_files (sm_new cfg') G) as [t oe] eqn:Hrep. cbn [fst snd] in Hq1, Hq2. subst oe.
  destruct (replay_files_snoc_inv _ _ _ _ Hrep) as (t1 & Hrep0 & Hrepl).
  destruct (replay_files_snoc_inv _ _ _ _ HrepB) as (tB1 & HrepB0 & HreplB).
  destruct (reopen_files cfg' d G0 o rs t Sd Gids Hfb Hjok Hab Hrep) as (pl & Hopen).
  pose proof (open_dir_files _ _ _ Hopen) as Hfiles.
  cbn [y_files y_core k_open k_closed chunk_of ck_id] in Hfiles. inversion Hfiles as [Epl]. clear Hfiles.
  set (bnd := r_last (m_rs t1)).
  assert (Hpl : prev_last_of (closed_files (sm_new cfg') G0) = bnd).
  { destruct G0 as [|g0 G0'] eqn:EG0.
    - cbn [replay_files] in Hrep0. inversion Hrep0 as [Et1]. unfold bnd. rewrite <- Et1. reflexivity.
    - apply closed_files_last; [discriminate|exact Hrep0]. }
  (* the boundary read off the directory *)
  assert (Hlast : In (o, rs) G) by (unfold G; apply in_or_app; right; left; reflexivity).
  assert (Hrs : exists st tl, rs = RState st :: tl).
  { rewrite Forall_forall in Hfok. destruct (Hfok _ Hlast) as (_ & _ & H). exact H. }
  destruct Hrs as (st & tl & Ers).
  assert (Hdb : disk_bound d o = bnd).
  { unfold disk_bound. destruct G0 as [|g0 G0'] eqn:EG0.
    - unfold G in Gids. cbn [app map fst] in Gids. destruct d as [|f [|f' d']]; cbn in Gids; try discriminate Gids.
      inversion Gids as [Ef]. cbn [f_id]. rewrite Ef, N.eqb_refl. cbn [replay_files] in Hrep0. inversion Hrep0 as [Et1]. unfold bnd. rewrite <- Et1. reflexivity.
    - unfold G in Gids. cbn [app map fst] in Gids. destruct d as [|f d']; [discriminate Gids|].
      cbn [ids map] in Gids. inversion Gids as [[Ef Erest]].
      assert (Hlt : fst g0 < o) by (apply Hlt0; left; reflexivity).
      destruct (N.eqb_spec (f_id f) o) as [E|_]; [lia|].
      pose proof (Hfb _ Hlast) as Hfo. cbn [fst snd] in Hfo. unfold file_bytes in Hfo.
      destruct (disk_get o (f :: d')) as [fo|].
      + rewrite Hfo, Ers, encs_cons.
        assert (Wst : wf_record (RState st)).
        { specialize (Hwf _ Hlast). cbn [snd] in Hwf. rewrite Ers in Hwf. inversion Hwf. assumption. }
        rewrite (dec_enc_record (RState st) (encs tl) Wst).
        assert (HC0 : Chain (head_state rs) (g0 :: G0')).
        { apply (Chain_init (g0 :: G0') (o, rs) cur); [discriminate|exact HC]. }
        destruct (replay_files_ok (g0 :: G0') (sm_new cfg') _ HC0) as (t' & Ht' & Hrs').
        rewrite Hrep0 in Ht'. inversion Ht'. subst t'. unfold bnd. rewrite Hrs' by discriminate.
        rewrite Ers. reflexivity.
      + exfalso. rewrite Ers, encs_cons in Hfo.
        pose proof (blen_enc_pos (RState st)) as Hp. apply (f_equal blen) in Hfo.
        rewrite blen_app, blen_nil in Hfo. lia. }
  exists t. rewrite Hdb. split.
  { rewrite Hopen, Epl, Hpl. reflexivity. }
  split; [exact Hq1|].
  (* the invariants of the two replays *)
  assert (HG0 : forall g, In g G0 -> file_bytes d (fst g) = encs (snd g) /\ Forall wf_record (snd g)).
  { intros g Hg. assert (Hg' : In g G) by (unfold G; apply in_or_app; left; exact Hg).
    split; [apply Hfb|apply Hwf]; exact Hg'. }
  pose proof (replay_files_CLI (file_bytes d) G0 _ t1 HG0 (CLI_new _ cfg') Hrep0) as HC1.
  pose proof (replay_files_CLI (file_bytes d) G0 _ tB1 HG0 (CLI_new _ cB) HrepB0) as HCB1.
  assert (HCt : CLI (file_bytes d) t).
  { apply (replay_files_CLI (file_bytes d) G (sm_new cfg') t); [|apply CLI_new|exact Hrep].
    intros g Hg. split; [apply Hfb|apply Hwf]; exact Hg. }
  assert (HP0 : PR o bnd (chunk_pre t1) (chunk_pre tB1)).
  { exists []. constructor.
    - intros e _. right. right. intros [].
    - intros i ld Hl Hc. exfalso. cbn [chunk_pre m_log] in Hl.
      destruct G0 as [|g0 G0'] eqn:EG0.
      + cbn [replay_files] in Hrep0. inversion Hrep0. subst t1. destruct Hl.
      + assert (Hlog : log_ok (ids d) (file_bytes d) (o - 1) (m_log t1)).
        { apply (replay_files_log_ok (ids d) (file_bytes d) (o - 1) (g0 :: G0') (sm_new cfg') t1 None);
            [|constructor|exact Hrep0].
          intros g Hg. destruct (HG0 g Hg) as [A B]. split; [exact A|]. split; [exact B|].
          specialize (Hlt0 g Hg). lia. }
        unfold log_ok in Hlog. rewrite Forall_forall in Hlog. destruct (Hlog _ Hl) as (_ & Hle & _).
        cbn [snd] in Hle. assert (Hlt : fst g0 < o) by (apply Hlt0; left; reflexivity). lia.
    - apply (cl_sc _ _ HC1).
    - apply (cl_sc _ _ HCB1).
    - reflexivity. }
  unfold chunk_replay in Hrepl, HreplB. cbn [fst snd] in Hrepl, HreplB.
  pose proof (replay_PR o bnd rs _ _ _ o t tB HP0 Hrepl HreplB) as HPt.
  split; [|split; [exact HCt|exact HPt]].
  destruct HPt as [I HPI]. apply (pr_ev _ _ _ _ _ HPI).
Qed.

(* ================================================================== the invariant of the reopened store *)
Lemma jw_core_ok y : journal_wf y -> core_ok (y_core y).
Proof.
  intros JW. pose proof (jw_inv _ JW) as J. split.
  - destruct (ji_open_ok _ _ _ J) as (rs & _ & _ & He & st & tl & Ers).
    unfold ck_end. rewrite He, ends_from_last, Ers. cbn [map nsum].
    pose proof (rec_size_pos (RState st)). lia.
  - pose proof (ji_sorted _ _ _ J) as S. rewrite (ji_ids _ _ _ J) in S. unfold chunk_ids in S.
    apply ss_app_inv in S. destruct S as (_ & S & _). exact S.
Qed.

Lemma sorted_keys_clt es : CacheFacts.sorted_keys es -> StronglySorted clt es.
Proof.
  unfold CacheFacts.sorted_keys. induction es as [|e es IH]; intros S; [constructor|].
  cbn [map] in S. apply StronglySorted_inv in S. destruct S as [S F]. constructor; [apply IH; exact S|].
  rewrite Forall_forall in *. intros x Hx. apply (F (fst x)). apply in_map. exact Hx.
Qed.

Lemma app_inv_len {A} : forall (a a' b b' : list A), length a = length a' -> a ++ b = a' ++ b' ->
  a = a' /\ b = b'.
Proof.
  induction a as [|x a IH]; intros [|x' a'] b b' HL H; cbn [length] in HL; try discriminate HL.
  - split; [reflexivity|exact H].
  - cbn [app] in H. inversion H; subst. destruct (IH a' b b') as [E1 E2]; [lia|assumption|].
    subst. split; reflexivity.
Qed.

Lemma restart_ok_spec y i ld : restart_ok y = true -> In (i, ld) (m_log (k_sm (y_core y))) ->
  ld_chunk ld = ck_id (k_open (y_core y)) -> opair_leb (Some (ld_id ld)) (restart_bound y) = false.
Proof.
  intros H Hl Hc. unfold restart_ok in H. rewrite forallb_forall in H. specialize (H _ Hl).
  cbn [snd] in H. rewrite Hc, N.eqb_refl in H. cbn [negb orb] in H.
  rewrite opair_ltb_negb_leb in H. apply negb_true_iff in H. exact H.
Qed.

Lemma I7_reopened y y' sp tB :
  I7 y sp -> y_queue y = [] -> k_pending (y_core y) = [] -> restart_ok y = true ->
  journal_wf y' -> CacheSys.sys_cinv y' ->
  y_queue y' = [] -> k_pending (y_core y') = [] -> y_disk y' = y_disk y ->
  ck_id (k_open (y_core y')) = ck_id (k_open (y_core y)) ->
  y_files y' = [mkWF (ck_id (k_open (y_core y))) (restart_bound y)] ->
  ch_evictable (m_cache (k_sm (y_core y'))) = restart_bound y ->
  m_rs (k_sm (y_core y')) = m_rs (k_sm (y_core y)) ->
  m_log (k_sm (y_core y')) = m_log (k_sm (y_core y)) ->
  live_ok (y_core y') -> closed_bound (y_core y') ->
  CLI (file_bytes (y_disk y)) (k_sm (y_core y')) ->
  PR (ck_id (k_open (y_core y))) (restart_bound y) (k_sm (y_core y')) tB ->
  (forall e, In e (sp_entries sp) -> ent_get (fst e) (ch_entries (m_cache tB)) = Some (snd e)) ->
  I7 y' sp.
Proof.
  intros HI Hq Hpend Hrok JW' Hcinv Hq' Hpend' Hd' Ho' Hf' Hev' Ers Elog Hlive Hcb HCL HPR Hhit.
  pose proof HI as [(HR & HJ & Hk) JW HPL HC HEB HML].
  set (o := ck_id (k_open (y_core y))) in *. set (bnd := restart_bound y) in *.
  assert (HR' : R0 (k_sm (y_core y')) sp).
  { apply (R0_same _ sp _ sp HR eq_refl eq_refl Elog). rewrite Ers. apply (R0_rs _ _ HR). }
  assert (HK' : KInv (y_core y') sp).
  { split; [exact HR'|]. split; [|apply jw_core_ok; exact JW'].
    constructor.
    - intros e He. exact (Hlive e He).
    - intros e c He Hc Ec. exact (Hcb c e Hc He Ec). }
  assert (Ely : logical y = y_disk y) by (apply C11_idle_disk_is_journal; assumption).
  assert (Ely' : logical y' = y_disk y) by (rewrite <- Hd'; apply C11_idle_disk_is_journal; assumption).
  assert (HPL' : PL y' sp).
  { intros i ld p Hl Hp Hin. rewrite Ely' in *. rewrite <- Ely in *. rewrite Elog in Hl.
    apply (HPL i ld p Hl Hp Hin). }
  assert (Hquiet : forall i ld p, In (i, ld) (m_log (k_sm (y_core y'))) -> In (ld_id ld, p) (sp_entries sp) ->
            ld_chunk ld <> o -> OnDisk y' ld).
  { intros i ld p Hl Hp Hne. apply (ondisk_quiet y' sp i ld p HK' JW' HPL' Hq' Hl Hp). rewrite Ho'. exact Hne. }
  assert (Habove : forall i ld, In (i, ld) (m_log (k_sm (y_core y'))) -> ld_chunk ld = o ->
            opair_leb (Some (ld_id ld)) bnd = false).
  { intros i ld Hl Hc. rewrite Elog in Hl. apply (restart_ok_spec y i ld Hrok Hl Hc). }
  assert (Hids : forall i ld, In (i, ld) (m_log (k_sm (y_core y'))) -> In (ld_chunk ld) (ids (logical y'))).
  { intros i ld Hl. rewrite (ji_ids _ _ _ (jw_inv _ JW')). unfold chunk_ids. apply in_or_app. right.
    exact (Hlive _ Hl). }
  constructor.
  - exact HK'.
  - exact JW'.
  - exact HPL'.
  - unfold CIs. constructor.
    + apply sorted_keys_clt. apply (cl_sc _ _ HCL).
    + intros [id p] He. destruct Hcinv as [_ Hle]. specialize (Hle id p He).
      rewrite Ers, (R0_rs _ _ HR) in Hle. cbn [spec_state r_last fst] in *.
      unfold opair_leb in Hle. intros E. rewrite E in Hle. discriminate Hle.
    + intros id p p' Hp Hp'.
      destruct (map_eq_in_l g_ent f_log _ _ (id, p) (eq_sym (R0_log _ _ HR')) Hp) as [[i ld] [Hl Ef]].
      unfold f_log, g_ent in Ef. cbn [fst snd] in Ef. inversion Ef as [[Ei Eid]]. 
      rewrite <- Eid in Hp, Hp'.
      destruct (cl_pos _ _ HCL i ld p' Hl Hp') as (Wp' & pre' & post' & Ef' & Eo').
      destruct (HPL' i ld p Hl Hp (Hids i ld Hl)) as ((Wid & Wp) & pre & post & Efp & Eop & _).
      rewrite Ely' in Efp. rewrite Efp in Ef'.
      assert (EL : length pre = length pre').
      { assert (blen pre = blen pre') by lia. unfold blen in H. lia. }
      destruct (app_inv_len pre pre' _ _ EL Ef') as [_ E2].
      assert (D1 : dec_record (enc_record (RAppend (ld_id ld) p) ++ post) = DOk (RAppend (ld_id ld) p, post)).
      { apply dec_enc_record. split; assumption. }
      assert (D2 : dec_record (enc_record (RAppend (ld_id ld) p') ++ post') = DOk (RAppend (ld_id ld) p', post')).
      { apply dec_enc_record. split; assumption. }
      rewrite E2 in D1. rewrite D1 in D2. inversion D2. reflexivity.
    + intros i ld p Hl Hp. destruct (N.eq_dec (ld_chunk ld) o) as [Ec|Ec]; [left|right; apply (Hquiet i ld p Hl Hp Ec)].
      destruct HPR as [I HPI].
      assert (Hb : In (ld_id ld, p) (ch_entries (m_cache tB))).
      { apply ent_get_some_in. apply (Hhit (ld_id ld, p) Hp). }
      destruct (pr_res _ _ _ _ _ HPI _ Hb) as [H|[H|H]].
      * exact H.
      * cbn [fst] in H. rewrite (Habove i ld Hl Ec) in H. discriminate H.
      * exfalso. apply H. cbn [fst]. apply (pr_log _ _ _ _ _ HPI i ld Hl Ec).
    + intros i ld p Hl Hp Hle. rewrite Hev' in Hle. apply (Hquiet i ld p Hl Hp).
      intros Ec. rewrite (Habove i ld Hl Ec) in Hle. discriminate Hle.
  - intros fid b i ld p Hb Hl Hp Hle. unfold fbounds in Hb. rewrite Hf', Hq' in Hb.
    cbn [map wf_fb wf_id wf_prev_last flat_map app] in Hb. destruct Hb as [Hb|[]]. inversion Hb; subst fid b.
    pose proof (log_chunk_le y' i ld JW' Hl) as H. rewrite Ho' in H. fold o in H.
    assert (Hne : ld_chunk ld <> o).
    { intros Ec. rewrite (Habove i ld Hl Ec) in Hle. discriminate Hle. }
    lia.
  - unfold fbounds. rewrite Hf', Hq'. cbn. repeat constructor.
Qed.

(* ================================================================== histories *)
Lemma spec_op_undrain s o : spec_op s (undrain o) = spec_op s o.
Proof. destruct o; reflexivity. Qed.

Lemma spec_ops_undrain : forall ops s, spec_ops s (map undrain ops) = spec_ops s ops.
Proof.
  induction ops as [|o ops IH]; intros s; [reflexivity|].
  unfold spec_ops in *. cbn [map fold_left]. rewrite spec_op_undrain. apply IH.
Qed.

Lemma ops_c07_facts : forall ops s, ops_c07 s ops = true ->
  forallb op_c15 ops = true /\ forallb not_restart ops = true /\ ops_plain s (map undrain ops) = true.
Proof.
  induction ops as [|o ops IH]; intros s H; [repeat split|].
  cbn [ops_c07] in H. apply andb_true_iff in H. destruct H as [H1 H2].
  destruct (IH _ H2) as (A & B & C). cbn [forallb map ops_plain]. rewrite A, B, spec_op_undrain, C.
  destruct o as [w|cb|from to| | | | | |c]; cbn [op_c07] in H1; try discriminate H1;
    cbn [op_c15 not_restart undrain op_plain andb]; try (repeat split; reflexivity).
  rewrite H1. destruct w; cbn [wop_legal] in H1; try discriminate H1; repeat split; reflexivity.
Qed.

Lemma op_wf_undrain ops : Forall op_wf ops -> Forall op_wf (map undrain ops).
Proof.
  intros H. apply Forall_forall. intros o Ho. apply in_map_iff in Ho. destruct Ho as [o' [E Ho']].
  rewrite Forall_forall in H. specialize (H o' Ho'). subst o. destruct o'; try exact H; exact I.
Qed.

(* the shadow configuration: same chunk limits, a cache that holds the whole history *)
Definition big_of (cfg : config) (ops : list op) : config :=
  mkConfig (N.of_nat (length (Hist.appended ops))) (appended_bytes ops)
           (c_max_records cfg) (c_max_size cfg) (c_truncate cfg).

Lemma big_of_big cfg ops : big_cache (big_of cfg ops) ops.
Proof. split; apply N.le_refl. Qed.

Lemma sys0_yeq cfg c2 : cfgq cfg c2 -> yeq (sys0 cfg) (sys0 c2).
Proof.
  intros Hq. constructor; try reflexivity. constructor; try reflexivity; [exact Hq|split; reflexivity].
Qed.

(* ================================================================== C07 across one clean restart *)
Theorem C07_restart_reads_total : forall cfg cfg' ops res y,
  ops_c07 spec0 ops = true -> Forall op_wf ops ->
  (match open_dir cfg [] with OpenOk y0 => run_ok_c07b y0 ops = true | _ => False end) ->
  run_case cfg ops = (res, Some y) ->
  y_queue y = [] -> k_pending (y_core y) = [] ->
  restart_ok y = true ->
  exists y', open_dir cfg' (y_disk y) = OpenOk y' /\ observes y' (spec_ops spec0 ops) /\
             I7 y' (spec_ops spec0 ops).
Proof.
  intros cfg cfg' ops res y Hc Hw Hok Hrun Hq Hpend Hrok.
  set (sp := spec_ops spec0 ops).
  destruct (ops_c07_facts ops spec0 Hc) as (Hc15 & Hnr & Hplain).
  (* the run itself *)
  assert (HI : I7 y sp).
  { unfold run_case in Hrun. rewrite open_dir_nil in Hrun, Hok.
    destruct (I7_run_ops ops (sys0 cfg) spec0 res (Some y) (I7_init cfg) Hc Hw Hok Hrun) as (y0 & E & HI0).
    inversion E; subst. exact HI0. }
  destruct (CI_run_case cfg ops res y Hc15 Hw Hrun) as [HJI _].
  destruct (JI_reopen cfg' y HJI Hq) as (y' & Hopen & HJI' & Hcinv').
  (* the shadow run under a cache that holds everything *)
  set (ops' := map undrain ops).
  set (cB := big_of cfg ops'). set (cB' := big_of cfg' ops').
  assert (Hrun0 : run_ops (sys0 cfg) ops = (res, Some y)).
  { unfold run_case in Hrun. rewrite open_dir_nil in Hrun. exact Hrun. }
  destruct (run_ops_yeq ops (sys0 cfg) (sys0 cB) res y (sys0_yeq cfg cB (conj eq_refl eq_refl)) Hnr Hrun0)
    as (resB & yB & HrunB & Hyy).
  assert (HrunB' : run_case cB ops' = (resB, Some yB)).
  { unfold run_case. rewrite open_dir_nil. exact HrunB. }
  pose proof (FI_of_run cB cB' ops' [] resB yB Hplain (op_wf_undrain ops Hw)) as F.
  rewrite app_nil_r in F. specialize (F (big_of_big cfg ops') (big_of_big cfg' ops') HrunB').
  assert (Esp : spec_ops spec0 ops' = sp) by (apply spec_ops_undrain). rewrite Esp in F.
  pose proof Hyy as [Hkk Hdd Hqq Hff Haa]. pose proof Hkk as [Kc [Kr Kl] Ko Kp Kcl Krm Kcb].
  assert (HqB : y_queue yB = []) by (rewrite <- Hqq; exact Hq).
  assert (HpendB : k_pending (y_core yB) = []) by (rewrite <- Kp; exact Hpend).
  destruct (reopen cB' yB _ _ _ F HqB HpendB) as (yB' & HoB & RO).
  pose proof (reopen_FI cB' cB' yB _ _ _ yB' F F HqB HpendB HoB) as FB'.
  (* the two reopened stores differ in the cache only *)
  pose proof (open_dir_yeq cfg' cB' (y_disk y) (conj eq_refl eq_refl) eq_refl) as Hoy.
  rewrite Hopen in Hoy. rewrite <- Hdd in HoB. rewrite HoB in Hoy.
  pose proof Hoy as [Hkk' Hdd' Hqq' Hff' Haa']. pose proof Hkk' as [Kc' [Kr' Kl'] Ko' Kp' Kcl' Krm' Kcb'].
  (* the shape of the directory and the replay *)
  pose proof (fi_jw _ _ _ _ _ F) as JWB.
  pose proof (C11_idle_disk_is_journal yB JWB HqB HpendB) as ElB.
  destruct (ro_shape _ _ _ _ _ _ RO) as (G0 & o & rs & pl & GJy & GC & _ & _ & Eo & _ & _ & _ & HrepB).
  destruct GJy as [Gids Gfiles]. rewrite ElB, <- Hdd in Gids, Gfiles.
  assert (Hab : abut (file_bytes (y_disk y)) (map fst (G0 ++ [(o, rs)]))).
  { pose proof (ji_abut _ _ _ (jw_inv _ JWB)) as A. rewrite ElB, <- Hdd in A. rewrite Gids. exact A. }
  assert (Sd : dsorted (y_disk y)) by (rewrite Hdd; apply (jw_sorted _ JWB)).
  destruct (reopen_cache cfg' cB' (y_disk y) G0 o rs (k_sm (y_core yB')) _ Sd (eq_sym Gids) Gfiles Hab GC HrepB)
    as (t & Hopen2 & Hseq & Hev & HCL & HPR).
  rewrite Hopen in Hopen2. inversion Hopen2 as [Ey']. clear Hopen2.
  assert (Eo' : o = ck_id (k_open (y_core y))) by (rewrite Eo, Ko; reflexivity).
  assert (Ebnd : disk_bound (y_disk y) o = restart_bound y) by (unfold restart_bound; rewrite Eo'; reflexivity).
  rewrite Ebnd in *. 
  exists y'. split; [exact Hopen|].
  assert (HI' : I7 y' sp).
  { apply (I7_reopened y y' sp (k_sm (y_core yB')) HI Hq Hpend Hrok (JI_jw _ HJI') Hcinv').
    - rewrite Ey'. reflexivity.
    - rewrite Ey'. reflexivity.
    - rewrite Ey'. reflexivity.
    - rewrite Ey'. cbn [y_core k_open chunk_of ck_id]. exact Eo'.
    - rewrite Ey'. cbn [y_files]. rewrite Eo'. reflexivity.
    - rewrite Ey'. cbn [y_core k_sm]. exact Hev.
    - rewrite Kr', (ro_rs _ _ _ _ _ _ RO), <- Kr. reflexivity.
    - rewrite Kl', (ro_log _ _ _ _ _ _ RO), <- Kl. reflexivity.
    - pose proof (fi_live _ _ _ _ _ FB') as HL. unfold live_ok, closed_ids in *.
      rewrite Kl', Kcl', Ko'. exact HL.
    - pose proof (fi_cb _ _ _ _ _ FB') as HB. unfold closed_bound in *. rewrite Kl', Kcl'. exact HB.
    - rewrite Ey'. cbn [y_core k_sm]. exact HCL.
    - rewrite Ey'. cbn [y_core k_sm]. rewrite <- Eo'. exact HPR.
    - apply (R_hit _ _ (fi_R _ _ _ _ _ FB')). }
  split; [apply I7_observes; exact HI'|exact HI'].
Qed.

(* ... and the reopened store continues: any further history without restart whose appends
   stay above the boundaries of the reopened store is observed as the reference log of
   the whole history *)
Theorem C07_restart_continue : forall cfg cfg' ops ops2 res y,
  ops_c07 spec0 ops = true -> Forall op_wf ops ->
  (match open_dir cfg [] with OpenOk y0 => run_ok_c07b y0 ops = true | _ => False end) ->
  run_case cfg ops = (res, Some y) ->
  y_queue y = [] -> k_pending (y_core y) = [] ->
  restart_ok y = true ->
  exists y', open_dir cfg' (y_disk y) = OpenOk y' /\
    forall res2 fin,
      ops_c07 (spec_ops spec0 ops) ops2 = true -> Forall op_wf ops2 -> run_ok_c07b y' ops2 = true ->
      run_ops y' ops2 = (res2, fin) ->
      exists y2, fin = Some y2 /\ observes y2 (spec_ops spec0 (ops ++ ops2)) /\
                 I7 y2 (spec_ops spec0 (ops ++ ops2)).
Proof.
  intros cfg cfg' ops ops2 res y Hc Hw Hok Hrun Hq Hpend Hrok.
  destruct (C07_restart_reads_total cfg cfg' ops res y Hc Hw Hok Hrun Hq Hpend Hrok) as (y' & Ho & _ & HI').
  exists y'. split; [exact Ho|]. intros res2 fin Hc2 Hw2 Hok2 Hrun2.
  destruct (I7_run_ops ops2 y' _ res2 fin HI' Hc2 Hw2 Hok2 Hrun2) as (y2 & E & HI2).
  exists y2. split; [exact E|].
  assert (Esp : spec_ops spec0 (ops ++ ops2) = spec_ops (spec_ops spec0 ops) ops2).
  { unfold spec_ops. apply fold_left_app. }
  rewrite Esp. split; [apply I7_observes; exact HI2|exact HI2].
Qed.

(* ================================================================== the side condition is needed *)
(* A Raft-legal history under a cache that never evicts (10 items): three entries at term 5
   fill the first chunk, the log is truncated to nothing and (1,0) is appended into the
   second chunk, whose head snapshot records last = (5,2).  Flushed, worker idle; the store
   reads (1,0) back.  [restart_ok] is false.  Reopened with a cache of zero items the live
   entry (1,0) is evicted while it sits in the chunk that is open again: reading it
   returns an error. *)
Definition rr_cfg : config := mkConfig 10 1000 4 100000 true.
Definition rr_cfg' : config := mkConfig 0 0 4 100000 true.
Definition rr_ops : list op :=
  [OW (OAppend [((5, 0), []); ((5, 1), []); ((5, 2), [])]); OW (OTruncate 0);
   OW (OAppend [((1, 0), [])]); OFlush true; OIdle].

Theorem C07_restart_refuted : exists cfg cfg' ops res y,
  ops_c07 spec0 ops = true /\ Forall op_wf ops /\
  run_case cfg ops = (res, Some y) /\ y_queue y = [] /\ k_pending (y_core y) = [] /\
  sp_entries (spec_ops spec0 ops) = [((1, 0), [])] /\
  snd (do_read (y_core y) (y_disk y) 0 1) = [RIOk (1, 0) []] /\
  restart_bound y = Some (5, 2) /\ restart_ok y = false /\
  exists y', open_dir cfg' (y_disk y) = OpenOk y' /\
    snd (do_read (y_core y') (y_disk y') 0 1) = [RIErr KNotFound] /\
    ~ observes y' (spec_ops spec0 ops).
Proof.
  exists rr_cfg, rr_cfg', rr_ops.
  destruct (run_case rr_cfg rr_ops) as [res fin] eqn:Er.
  assert (Hy : exists y0, fin = Some y0 /\ y_queue y0 = [] /\ k_pending (y_core y0) = [] /\
             snd (do_read (y_core y0) (y_disk y0) 0 1) = [RIOk (1, 0) []] /\
             restart_bound y0 = Some (5, 2) /\ restart_ok y0 = false /\
             exists y', open_dir rr_cfg' (y_disk y0) = OpenOk y' /\
               snd (do_read (y_core y') (y_disk y') 0 1) = [RIErr KNotFound]).
  { vm_compute in Er. inversion Er. eexists. split; [reflexivity|].
    split; [reflexivity|]. split; [reflexivity|]. split; [vm_compute; reflexivity|].
    split; [vm_compute; reflexivity|]. split; [vm_compute; reflexivity|].
    eexists. split; [vm_compute; reflexivity|]. vm_compute. reflexivity. }
  destruct Hy as (y0 & Ef & H1 & H2 & H3 & H4 & H5 & y' & H6 & H7). subst fin.
  exists res, y0. split; [vm_compute; reflexivity|]. split.
  { unfold rr_ops. repeat constructor; cbn; unfold wf_pair, wf_u64, wf_bytes; cbn; lia. }
  split; [reflexivity|]. split; [exact H1|]. split; [exact H2|]. split; [vm_compute; reflexivity|].
  split; [exact H3|]. split; [exact H4|]. split; [exact H5|].
  exists y'. split; [exact H6|]. split; [exact H7|].
  intros (_ & Hread & _). specialize (Hread 0 1). unfold read_ok in Hread. rewrite H7 in Hread.
  vm_compute in Hread. discriminate Hread.
Qed.

(* ================================================================== the hypotheses are satisfiable *)
(* a zero-size cache, chunks of three records: rotations, eviction, truncation with
   re-append above the boundaries, drain, purge, and a final append that lives in the
   newest chunk; reopened with a zero-size cache every live entry is read back *)
Example C07_restart_hyps_inhabited :
  let cfg := mkConfig 0 0 3 100000 true in
  let cfg' := mkConfig 0 0 5 100000 false in
  let ops := [OW (OAppend [((1, 0), [x01]); ((1, 1), []); ((1, 2), [])]); OFlush true; OIdle;
              OW (OTruncate 2); OW (OAppend [((2, 2), []); ((2, 3), [])]); ODrain; ORead 0 10;
              OW (OPurge (1, 0)); OFlush false; OIdle;
              OW (OAppend [((3, 4), [x02])]); OFlush true; OIdle] in
  ops_c07 spec0 ops = true /\ Forall op_wf ops /\
  (match open_dir cfg [] with OpenOk y0 => run_ok_c07b y0 ops = true | _ => False end) /\
  exists res y, run_case cfg ops = (res, Some y) /\ y_queue y = [] /\ k_pending (y_core y) = [] /\
    restart_ok y = true /\
    exists y', open_dir cfg' (y_disk y) = OpenOk y' /\
      snd (do_read (y_core y') (y_disk y') 0 10) =
        [RIOk (1, 1) []; RIOk (2, 2) []; RIOk (2, 3) []; RIOk (3, 4) [x02]].
Proof.
  cbv zeta. split; [vm_compute; reflexivity|]. split.
  { repeat constructor; cbn; unfold wf_pair, wf_u64, wf_bytes; cbn; lia. }
  split; [vm_compute; reflexivity|].
  eexists. eexists. split; [vm_compute; reflexivity|]. split; [reflexivity|]. split; [reflexivity|].
  split; [vm_compute; reflexivity|]. eexists. split; [vm_compute; reflexivity|]. vm_compute. reflexivity.
Qed.

Print Assumptions C07_restart_reads_total.
Print Assumptions C07_restart_continue.
Print Assumptions C07_restart_refuted.
Print Assumptions C07_restart_hyps_inhabited.
