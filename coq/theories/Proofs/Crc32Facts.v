(* Facts about CRC-32: a single altered byte always changes the checksum. *)
From Coq Require Import List NArith Lia Bool.
From Coq.Strings Require Import Byte.
From RaftLog Require Import Base.Crc32.
Import ListNotations.
Local Open Scope N_scope.

(* ---------- finite facts, by computation ---------- *)
Definition idx := map N.of_nat (seq 0 256).
Lemma idx_spec x : x < 256 -> In x idx.
Proof. intros H. unfold idx. apply in_map_iff. exists (N.to_nat x). split; [lia|]. apply in_seq. lia. Qed.

Lemma tbl_linear x y : x < 256 -> y < 256 -> tbl (N.lxor x y) = N.lxor (tbl x) (tbl y).
Proof.
  intros Hx Hy.
  assert (H: forallb (fun a => forallb (fun b => N.eqb (tbl (N.lxor a b)) (N.lxor (tbl a) (tbl b))) idx) idx = true) by (vm_compute; reflexivity).
  rewrite forallb_forall in H. specialize (H x (idx_spec x Hx)).
  rewrite forallb_forall in H. specialize (H y (idx_spec y Hy)).
  now apply N.eqb_eq.
Qed.
Lemma tbl_top x : x < 256 -> N.shiftr (tbl x) 24 = 0 -> x = 0.
Proof.
  intros Hx.
  assert (H: forallb (fun a => orb (negb (N.eqb (N.shiftr (tbl a) 24) 0)) (N.eqb a 0)) idx = true) by (vm_compute; reflexivity).
  rewrite forallb_forall in H. specialize (H x (idx_spec x Hx)).
  intros E. rewrite E in H. cbn in H. now apply N.eqb_eq.
Qed.
Lemma tbl_bound x : x < 256 -> tbl x < 2^32.
Proof.
  intros Hx.
  assert (H: forallb (fun a => N.ltb (tbl a) (2^32)) idx = true) by (vm_compute; reflexivity).
  rewrite forallb_forall in H. specialize (H x (idx_spec x Hx)). now apply N.ltb_lt.
Qed.
Lemma tbl_0 : tbl 0 = 0. Proof. reflexivity. Qed.

(* ---------- bit lemmas ---------- *)
Lemma land_lxor_l a b c : N.land (N.lxor a b) c = N.lxor (N.land a c) (N.land b c).
Proof. apply N.bits_inj; intro n. rewrite !N.land_spec, !N.lxor_spec, !N.land_spec.
  destruct (N.testbit a n), (N.testbit b n), (N.testbit c n); reflexivity. Qed.
Lemma land_ff_lt a : N.land a 0xFF < 256.
Proof. change 0xFF with (N.ones 8). rewrite N.land_ones. apply N.mod_lt. discriminate. Qed.
Lemma lxor_lt a b n : a < 2^n -> b < 2^n -> N.lxor a b < 2^n.
Proof.
  intros Ha Hb.
  destruct (N.eq_dec (N.lxor a b) 0) as [E|NE]; [rewrite E; apply N.neq_0_lt_0, N.pow_nonzero; discriminate|].
  apply N.log2_lt_pow2; [lia|].
  eapply N.le_lt_trans; [apply N.log2_lxor|].
  destruct (N.eq_dec a 0) as [->|Na]; destruct (N.eq_dec b 0) as [->|Nb]; cbn [N.log2 N.max].
  - rewrite N.lxor_0_l in NE. congruence.
  - rewrite N.max_r by apply N.le_0_l. apply N.log2_lt_pow2; lia.
  - rewrite N.max_l by apply N.le_0_l. apply N.log2_lt_pow2; lia.
  - apply N.max_lub_lt; apply N.log2_lt_pow2; lia.
Qed.
Lemma shiftr_small a n : a < 2^n -> N.shiftr a n = 0.
Proof. intros H. rewrite N.shiftr_div_pow2. apply N.div_small; exact H. Qed.

(* zero-input step on the difference *)
Definition Z (d:N) : N := N.lxor (tbl (N.land d 0xFF)) (N.shiftr d 8).

Lemma upd_diff c d b : N.lxor (upd c b) (upd (N.lxor c d) b) = Z d.
Proof.
  unfold upd, Z.
  set (x := N.land (N.lxor c (to_N b)) 255).
  assert (Hx: x < 256) by apply land_ff_lt.
  replace (N.land (N.lxor (N.lxor c d) (to_N b)) 255) with (N.lxor x (N.land d 255)).
  2:{ unfold x. rewrite <- land_lxor_l. f_equal.
      rewrite !N.lxor_assoc. f_equal. apply N.lxor_comm. }
  rewrite tbl_linear by (auto using land_ff_lt).
  rewrite N.shiftr_lxor.
  (* (tx ^ s) ^ ((tx ^ td) ^ (s ^ sd)) = td ^ sd *)
  apply N.bits_inj; intro n. rewrite !N.lxor_spec.
  destruct (N.testbit (tbl x) n), (N.testbit (N.shiftr c 8) n), (N.testbit (tbl (N.land d 255)) n), (N.testbit (N.shiftr d 8) n); reflexivity.
Qed.

Lemma Z_bound d : d < 2^32 -> Z d < 2^32.
Proof.
  intros H. unfold Z. apply lxor_lt; [apply tbl_bound, land_ff_lt|].
  rewrite N.shiftr_div_pow2. apply N.div_lt_upper_bound; [discriminate|].
  eapply N.lt_le_trans; [exact H|]. vm_compute. discriminate.
Qed.

Lemma Z_inj0 d : d < 2^32 -> Z d = 0 -> d = 0.
Proof.
  intros Hd HZ. unfold Z in HZ.
  assert (Hx := land_ff_lt d).
  assert (Htop: N.shiftr (tbl (N.land d 255)) 24 = 0).
  { assert (E: N.shiftr (N.lxor (tbl (N.land d 255)) (N.shiftr d 8)) 24 = 0) by (rewrite HZ; reflexivity).
    rewrite N.shiftr_lxor, N.shiftr_shiftr in E. change (8+24) with 32 in E.
    rewrite (shiftr_small d 32 Hd), N.lxor_0_r in E. exact E. }
  apply tbl_top in Htop; [|exact Hx].
  rewrite Htop, tbl_0, N.lxor_0_l in HZ.
  (* d land 255 = 0 and d >> 8 = 0 *)
  apply N.bits_inj; intro n. rewrite N.bits_0.
  destruct (N.lt_ge_cases n 8) as [L|G].
  - assert (T: N.testbit (N.land d 255) n = false) by (rewrite Htop; apply N.bits_0).
    rewrite N.land_spec in T. change 255 with (N.ones 8) in T.
    rewrite N.ones_spec_low in T by exact L. now rewrite andb_true_r in T.
  - assert (T: N.testbit (N.shiftr d 8) (n - 8) = false) by (rewrite HZ; apply N.bits_0).
    rewrite N.shiftr_spec in T by apply N.le_0_l. now replace (n - 8 + 8) with n in T by lia.
Qed.


Lemma lxor_cancel c d : N.lxor c (N.lxor c d) = d.
Proof. now rewrite <- N.lxor_assoc, N.lxor_nilpotent, N.lxor_0_l. Qed.

Definition iterZ (bs:list byte) (d:N) : N := fold_left (fun x (_:byte) => Z x) bs d.

Lemma run_diff bs : forall c d, N.lxor (crc_run c bs) (crc_run (N.lxor c d) bs) = iterZ bs d.
Proof.
  induction bs as [|b bs IH]; intros c d; cbn [crc_run iterZ fold_left].
  - apply lxor_cancel.
  - assert (E: upd (N.lxor c d) b = N.lxor (upd c b) (Z d)).
    { rewrite <- (upd_diff c d b). now rewrite lxor_cancel. }
    rewrite E. apply (IH (upd c b) (Z d)).
Qed.

Lemma iterZ_nonzero bs : forall d, d < 2^32 -> d <> 0 -> iterZ bs d <> 0.
Proof.
  induction bs as [|b bs IH]; intros d Hd Nd; cbn [iterZ fold_left]; [exact Nd|].
  apply IH; [apply Z_bound; exact Hd|]. intro E. apply Nd. now apply Z_inj0.
Qed.

Lemma to_N_lt b : Byte.to_N b < 256.
Proof. pose proof (Byte.to_N_bounded b). lia. Qed.

Lemma land_ff_id x : x < 256 -> N.land x 0xFF = x.
Proof. intros H. change 0xFF with (N.ones 8). rewrite N.land_ones. apply N.mod_small. exact H. Qed.

Lemma upd_byte_diff c b b' : N.lxor (upd c b) (upd c b') = tbl (N.lxor (to_N b) (to_N b')).
Proof.
  unfold upd.
  set (x := N.land (N.lxor c (to_N b)) 255). set (y := N.land (N.lxor c (to_N b')) 255).
  assert (Hx: x < 256) by apply land_ff_lt. assert (Hy: y < 256) by apply land_ff_lt.
  assert (E: N.lxor x y = N.lxor (to_N b) (to_N b')).
  { unfold x, y. rewrite <- land_lxor_l.
    replace (N.lxor (N.lxor c (to_N b)) (N.lxor c (to_N b'))) with (N.lxor (to_N b) (to_N b')).
    - apply land_ff_id. apply (lxor_lt _ _ 8); apply to_N_lt.
    - apply N.bits_inj; intro n. rewrite !N.lxor_spec.
      destruct (N.testbit c n), (N.testbit (to_N b) n), (N.testbit (to_N b') n); reflexivity. }
  rewrite <- E, tbl_linear by assumption.
  apply N.bits_inj; intro n. rewrite !N.lxor_spec.
  destruct (N.testbit (tbl x) n), (N.testbit (tbl y) n), (N.testbit (N.shiftr c 8) n); reflexivity.
Qed.

Lemma tbl_nonzero x : x < 256 -> x <> 0 -> tbl x <> 0.
Proof. intros Hx Nx E. apply Nx. apply tbl_top; [exact Hx|]. now rewrite E. Qed.

Lemma to_N_inj b b' : to_N b = to_N b' -> b = b'.
Proof. intros E. pose proof (Byte.of_to_N b) as H1. pose proof (Byte.of_to_N b') as H2. rewrite E in H1. congruence. Qed.

Theorem crc32_single_byte pre suf b b' :
  b <> b' -> crc32 (pre ++ b :: suf) <> crc32 (pre ++ b' :: suf).
Proof.
  intros Nb E. unfold crc32 in E.
  assert (E': crc_run 0xFFFFFFFF (pre ++ b :: suf) = crc_run 0xFFFFFFFF (pre ++ b' :: suf)).
  { apply (f_equal (fun v => N.lxor v 0xFFFFFFFF)) in E. now rewrite !N.lxor_assoc, !N.lxor_nilpotent, !N.lxor_0_r in E. }
  unfold crc_run in E'. rewrite !fold_left_app in E'. cbn [fold_left] in E'.
  set (c := fold_left upd pre 4294967295) in E'.
  set (d := N.lxor (upd c b) (upd c b')).
  assert (Hd: upd c b' = N.lxor (upd c b) d) by (unfold d; now rewrite lxor_cancel).
  rewrite Hd in E'. fold (crc_run (upd c b) suf) in E'. fold (crc_run (N.lxor (upd c b) d) suf) in E'.
  pose proof (run_diff suf (upd c b) d) as R. rewrite <- E', N.lxor_nilpotent in R.
  symmetry in R. revert R. apply iterZ_nonzero.
  - unfold d. rewrite upd_byte_diff. apply tbl_bound. apply (lxor_lt _ _ 8); apply to_N_lt.
  - unfold d. rewrite upd_byte_diff. apply tbl_nonzero.
    + apply (lxor_lt _ _ 8); apply to_N_lt.
    + intro X. apply Nb. apply to_N_inj. now apply N.lxor_eq.
Qed.

