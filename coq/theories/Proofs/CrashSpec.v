(* C03, part C.1 (no system here): journal files against the reference log.
   [sw_of r]: the per-record write of the specification that journal record [r] stands
   for; [rec_ok sp r]: what makes the model and the specification agree on [r] in
   reference state [sp]; [files_ok sp G]: every record of the journal [G] was accepted
   in turn and every file starts with the snapshot of the state at that point.  Then
   replaying any such journal (and any record-prefix of it) from the empty state
   machine yields exactly the reference state after those records. *)
From Coq Require Import List NArith Bool Lia Arith Sorting.Sorted.
From Coq.Strings Require Import Byte.
From RaftLog Require Import Base.Bytes Model.Types Model.Codec Model.Cache Model.Core
  Model.Recover Model.Run Spec.Spec Spec.Hist.
From RaftLog Require Import Proofs.CodecFacts Proofs.JournalChunk Proofs.SmFacts Proofs.Refine.
From RaftLog Require Proofs.PurgeLive Proofs.RestartSim.
Import ListNotations.
Local Open Scope N_scope.
Local Arguments N.add : simpl never.
Local Arguments N.sub : simpl never.
Local Arguments N.mul : simpl never.
Local Arguments N.eqb : simpl never.
Local Arguments N.ltb : simpl never.
Local Arguments N.leb : simpl never.
Local Arguments N.compare : simpl never.
Local Arguments N.of_nat : simpl never.
Local Arguments enc_record : simpl never.

Module PL := PurgeLive.
Module RS := RestartSim.

Notation jfile := (N * list record)%type (only parsing).

(* ------------------------------------------------------------------ records as specification writes *)
Definition sw_of (r : record) : swrite :=
  match r with
  | RVote v => SVote v
  | RAppend id p => SEntry id p
  | RCommit id => SCommit id
  | RTrunc o => STruncate (next_index o)
  | RPurge id => SPurge id
  | RState st => SUser (r_user st)
  end.

Definition rec_ok (sp : spec) (r : record) : Prop :=
  match r with
  | RTrunc o => o = sp_purged sp \/ exists id p, o = Some id /\ In (id, p) (sp_entries sp)
  | RPurge u =>
    N.ltb (lid_index u) (next_index (sp_purged sp)) = false /\
    ((exists p, In (u, p) (sp_entries sp)) \/
     (opair_cmp (sp_last sp) (Some u) = Lt /\ forall l, sp_last sp = Some l -> lid_index l < lid_index u))
  | RState st => st = rs_set_user (spec_state sp) (r_user st)
  | _ => True
  end.

Lemma rec_sim s sp r : PL.R0 s sp -> rec_ok sp r -> PL.step_sim0 s sp r (sw_of r).
Proof.
  intros HR Hok. destruct r as [v|id p|id|o|u|st]; cbn [sw_of].
  - now apply PL.core_vote0.
  - now apply PL.core_entry0.
  - now apply PL.core_commit0.
  - simpl in Hok. unfold PL.step_sim0. cbn [spec_step].
    assert (Hc : N.eqb (next_index o) (next_index (sp_purged sp)) ||
                 (negb (N.eqb (next_index o) 0) && sp_has_index sp (next_index o - 1)) = true).
    { destruct Hok as [->|(id & p & -> & Hin)].
      - now rewrite N.eqb_refl.
      - apply orb_true_iff. right. cbn [next_index]. apply andb_true_iff. split.
        + apply negb_true_iff. apply N.eqb_neq. lia.
        + unfold sp_has_index. apply existsb_exists. exists (id, p). split; [exact Hin|].
          cbn [fst]. apply N.eqb_eq. lia. }
    rewrite Hc. split; [reflexivity|]. split; [reflexivity|]. intros c seg.
    now apply PL.trunc_accept0.
  - simpl in Hok. destruct Hok as [Hl Hok]. unfold PL.step_sim0. cbn [spec_step]. rewrite Hl.
    destruct (N.eqb (lid_index u) U64MAX) eqn:E.
    + left. exact E.
    + split; [exact E|]. split; [reflexivity|]. intros c seg. now apply PL.purge_accept0.
  - simpl in Hok. rewrite Hok. cbn [r_user rs_set_user]. rewrite <- (PL.R0_rs _ _ HR).
    apply PL.core_user0. exact HR.
Qed.

(* ------------------------------------------------------------------ sequences of records *)
Fixpoint recs_ok (sp : spec) (rs : list record) : Prop :=
  match rs with
  | [] => True
  | r :: rest => rec_ok sp r /\ exists sp', spec_step sp (sw_of r) = Some sp' /\ recs_ok sp' rest
  end.

Definition run_recs (sp : spec) (rs : list record) : spec :=
  fold_left (fun s r => spec_apply s (sw_of r)) rs sp.

Lemma run_recs_app sp a b : run_recs sp (a ++ b) = run_recs (run_recs sp a) b.
Proof. unfold run_recs. apply fold_left_app. Qed.

Lemma recs_ok_app sp a b : recs_ok sp (a ++ b) <-> recs_ok sp a /\ recs_ok (run_recs sp a) b.
Proof.
  revert sp. induction a as [|r a IH]; intros sp; simpl; [tauto|].
  split.
  - intros (H1 & sp' & E & H2). apply IH in H2. destruct H2 as [H2 H3].
    unfold spec_apply at 1. rewrite E. split; [|exact H3]. split; [exact H1|]. eauto.
  - intros ((H1 & sp' & E & H2) & H3). split; [exact H1|]. exists sp'. split; [exact E|].
    apply IH. split; [exact H2|]. unfold spec_apply in H3 at 1. now rewrite E in H3.
Qed.

Lemma recs_ok_firstn sp rs j : recs_ok sp rs -> recs_ok sp (firstn j rs).
Proof.
  intros H. rewrite <- (firstn_skipn j rs) in H. apply recs_ok_app in H. tauto.
Qed.

(* replaying accepted records *)
Lemma replay_spec : forall rs ends s sp id start,
  length ends = length rs -> PL.R0 s sp -> recs_ok sp rs ->
  exists s1, replay s id start rs ends = (s1, None) /\ PL.R0 s1 (run_recs sp rs).
Proof.
  induction rs as [|r rs IH]; intros ends s sp id start Hl HR Hok.
  - destruct ends; [|discriminate]. exists s. split; [reflexivity|exact HR].
  - destruct ends as [|e ends]; [discriminate|]. simpl in Hok.
    destruct Hok as (Hr & sp' & E & Hrest).
    pose proof (rec_sim s sp r HR Hr) as HS. unfold PL.step_sim0 in HS. rewrite E in HS.
    destruct HS as (_ & Hv & HR').
    cbn [replay]. specialize (HR' id (start, e - start)).
    destruct (sm_apply s r id (start, e - start)) as [s2 oe] eqn:Ea.
    destruct (sm_apply_ok _ _ _ _ _ _ Hv Ea) as [-> _]. cbn [fst] in HR'.
    destruct (IH ends s2 sp' id e) as (s1 & H1 & H2); [simpl in Hl; lia|exact HR'|exact Hrest|].
    exists s1. split; [exact H1|].
    change (run_recs sp (r :: rs)) with (run_recs (spec_apply sp (sw_of r)) rs).
    unfold spec_apply. now rewrite E.
Qed.

(* ------------------------------------------------------------------ files *)
Fixpoint files_ok (sp : spec) (G : list jfile) : Prop :=
  match G with
  | [] => True
  | g :: G' => exists tl, snd g = RState (spec_state sp) :: tl /\ recs_ok sp tl /\
                          files_ok (run_recs sp tl) G'
  end.

(* the journalled records: everything but the head snapshots *)
Definition jrecs (G : list jfile) : list record := flat_map (fun g => tl (snd g)) G.

Lemma jrecs_app A B : jrecs (A ++ B) = jrecs A ++ jrecs B.
Proof. unfold jrecs. apply flat_map_app. Qed.

Lemma R0_cache s sp c : PL.R0 s sp -> PL.R0 (mkSM (m_rs s) (m_log s) c) sp.
Proof. intros [H1 H2 H3 H4]. constructor; assumption. Qed.

Lemma chunk_replay_spec t sp id tl :
  PL.R0 t sp -> recs_ok sp tl ->
  exists t1, RS.chunk_replay t (id, RState (spec_state sp) :: tl) = (t1, None) /\
             PL.R0 t1 (run_recs sp tl).
Proof.
  intros HR Hok. unfold RS.chunk_replay. cbn [fst snd map ends_from replay].
  assert (Ea : sm_apply (RS.chunk_pre t) (RState (spec_state sp)) id
                 (id, id + rec_size (RState (spec_state sp)) - id) =
               (mkSM (spec_state sp) (m_log t)
                     (cache_set_evictable (m_cache t) (r_last (m_rs t))), None)) by reflexivity.
  rewrite Ea.
  apply replay_spec; [now rewrite RS.ends_from_length, map_length| |exact Hok].
  eapply PL.R0_same; [exact HR|reflexivity|reflexivity|reflexivity|reflexivity].
Qed.

Lemma replay_files_spec : forall G t sp, PL.R0 t sp -> files_ok sp G ->
  exists t1, RS.replay_files t G = (t1, None) /\ PL.R0 t1 (run_recs sp (jrecs G)).
Proof.
  induction G as [|[id rs] G IH]; intros t sp HR Hok.
  - exists t. split; [reflexivity|exact HR].
  - simpl in Hok. destruct Hok as (tl & E & Hr & HG). subst rs.
    destruct (chunk_replay_spec t sp id tl HR Hr) as (t1 & E1 & HR1).
    cbn [RS.replay_files]. rewrite E1.
    destruct (IH t1 _ HR1 HG) as (t2 & E2 & HR2). exists t2. split; [exact E2|].
    unfold jrecs. cbn [flat_map snd List.tl]. fold (jrecs G). now rewrite run_recs_app.
Qed.

Lemma files_ok_app sp A B : files_ok sp (A ++ B) <-> files_ok sp A /\ files_ok (run_recs sp (jrecs A)) B.
Proof.
  revert sp. induction A as [|[id rs] A IH]; intros sp; simpl; [tauto|].
  split.
  - intros (tl & E & Hr & H). apply IH in H. destruct H as [H1 H2]. split; [eauto|].
    unfold jrecs. cbn [flat_map snd]. fold (jrecs A). rewrite E. cbn [List.tl].
    now rewrite run_recs_app.
  - intros ((tl & E & Hr & H1) & H2). exists tl. split; [exact E|]. split; [exact Hr|].
    apply IH. split; [exact H1|]. unfold jrecs in H2. cbn [flat_map snd] in H2. fold (jrecs A) in H2.
    rewrite E in H2. cbn [List.tl] in H2. now rewrite run_recs_app in H2.
Qed.

(* cutting the last file after j >= 1 records keeps the journal valid *)
Lemma files_ok_cut sp Go o recs j : files_ok sp (Go ++ [(o, recs)]) -> (1 <= j)%nat ->
  files_ok sp (Go ++ [(o, firstn j recs)]).
Proof.
  intros H Hj. apply files_ok_app in H. destruct H as [H1 H2]. apply files_ok_app. split; [exact H1|].
  simpl in *. destruct H2 as (tl & E & Hr & _). subst recs. destruct j as [|j]; [lia|].
  exists (firstn j tl). split; [reflexivity|]. split; [now apply recs_ok_firstn|exact I].
Qed.

(* ------------------------------------------------------------------ the states after each record *)
Fixpoint rtrace (sp : spec) (rs : list record) : list spec :=
  match rs with
  | [] => []
  | r :: rest => let sp' := spec_apply sp (sw_of r) in sp' :: rtrace sp' rest
  end.

Lemma rtrace_length sp rs : length (rtrace sp rs) = length rs.
Proof. revert sp. induction rs as [|r rs IH]; intros sp; simpl; [reflexivity|]. now rewrite IH. Qed.

Lemma rtrace_app sp a b : rtrace sp (a ++ b) = rtrace sp a ++ rtrace (run_recs sp a) b.
Proof.
  revert sp. induction a as [|r a IH]; intros sp; simpl; [reflexivity|]. now rewrite IH.
Qed.

Lemma rtrace_nth sp a b : nth_error (sp :: rtrace sp (a ++ b)) (length a) = Some (run_recs sp a).
Proof.
  revert sp. induction a as [|r a IH]; intros sp; [reflexivity|].
  cbn [length nth_error app rtrace]. apply IH.
Qed.
