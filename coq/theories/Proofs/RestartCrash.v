(* Crash recoverability (C05) for a store instance started on a non-empty directory.
   Part 1: what open_dir accepts is a journal: every file of the resulting directory
   is a whole number of well-formed records ([open_dir_whole]); under the hypothesis
   that the files of [d] are headed by State snapshots that chain ([dir_chained], NOT
   checked by open_dir) the resulting state satisfies the journal invariant JI of
   CrashSteps.v. Part 2: the invariant and C05 for every state reachable from it. *)
From Coq Require Import List NArith Bool Lia Arith Sorting.Sorted.
From Coq Require Import ZifyBool ZifyN ZifyNat.
From Coq.Strings Require Import Byte.
From RaftLog Require Import Base.Bytes Model.Types Model.Codec Model.Cache Model.Core
  Model.Recover Model.Run Model.Sys Spec.Durable.
From RaftLog Require Import Proofs.CodecFacts Proofs.NoPanic Proofs.ScanFacts Proofs.RecoverFacts
  Proofs.AckFacts Proofs.RestartShape Proofs.RestartSys.
From RaftLog Require Proofs.AckDurable Proofs.JournalDisk Proofs.JournalChunk Proofs.PurgeFacts
  Proofs.RestartSim Proofs.RestartFacts Proofs.CrashBase Proofs.CrashJournal Proofs.CrashSteps
  Proofs.CrashRecover.
Import ListNotations.
Local Open Scope N_scope.
Arguments N.add : simpl never.
Arguments N.sub : simpl never.
Arguments N.mul : simpl never.
Arguments N.eqb : simpl never.
Arguments N.ltb : simpl never.
Arguments N.leb : simpl never.
Arguments N.min : simpl never.
Arguments N.compare : simpl never.
Arguments N.of_nat : simpl never.
Arguments N.to_nat : simpl never.
Local Arguments enc_record : simpl never.

Module JC := JournalChunk.
Module RS := RestartSim.
Module RF := RestartFacts.
Module CB := CrashBase.
Module CJ := CrashJournal.
Module CS := CrashSteps.
Module CR := CrashRecover.

Notation jfile := (N * list record)%type (only parsing).

(* ------------------------------------------------------------------ records of a file *)
Definition recs_of (data : bytes) : list record := map fst (fst (fst (scan_file data))).

Lemma chunk_open_recs cfg id data oc :
  chunk_open cfg id data = inl oc ->
  oc_chunk oc = chunk_of id (recs_of data) /\ oc_records oc = recs_of data /\
  Forall wf_record (recs_of data) /\
  ((oc_truncated oc = false /\ oc_data oc = data /\ data = encs (recs_of data)) \/
   (oc_truncated oc = true /\ oc_data oc = encs (recs_of data))).
Proof.
  intros H. unfold recs_of. destruct (scan_file data) as [[recs rest] e] eqn:Es.
  destruct (scan_file_sound _ _ _ _ Es) as (E1 & E2 & E3).
  pose proof (scan_file_end _ _ _ _ Es) as Hend.
  apply sized_of_sound in E3. cbn [fst]. remember (map fst recs) as rs eqn:Ers. clear Ers.
  subst data recs. rewrite (chunk_open_of_scan _ _ _ _ _ Es) in H.
  destruct e.
  - subst rest. inversion H; subst oc. cbn [oc_chunk oc_truncated oc_data oc_records].
    repeat split; try assumption. left. rewrite app_nil_r. auto.
  - destruct (c_truncate cfg); [|discriminate]. inversion H; subst oc.
    cbn [oc_chunk oc_truncated oc_data oc_records]. repeat split; try assumption. right. auto.
  - destruct (all_zero rest && c_truncate cfg); [|discriminate]. inversion H; subst oc.
    cbn [oc_chunk oc_truncated oc_data oc_records]. repeat split; try assumption. right. auto.
  - discriminate.
Qed.

Lemma recs_of_encs rs : Forall wf_record rs -> recs_of (encs rs) = rs.
Proof. intros H. unfold recs_of. rewrite (scan_encs rs H). cbn [fst]. apply sized_fst. Qed.

(* ------------------------------------------------------------------ heads that chain *)
(* every file that has a complete record starts with a State snapshot, and the snapshot
   heading the next file is the state reached by running the records of this file *)
Fixpoint chainedL (L : list (list record)) : Prop :=
  match L with
  | [] => True
  | rs :: L' =>
    (rs <> [] -> exists st tl, rs = RState st :: tl /\
       match L' with rs' :: _ => rs' <> [] -> RS.rs_run st tl = Some (RS.head_state rs') | [] => True end)
    /\ chainedL L'
  end.

Definition dir_chained (d : disk) : Prop := chainedL (map (fun f => recs_of (f_data f)) d).

(* ------------------------------------------------------------------ index entries *)
Definition ent_ok (F : N -> bytes) (idl : list N) (ld : logdata) : Prop :=
  wf_pair (ld_id ld) /\ In (ld_chunk ld) idl /\
  exists pre p post, wf_bytes p /\
    F (ld_chunk ld) = pre ++ enc_record (RAppend (ld_id ld) p) ++ post /\
    ld_off ld = ld_chunk ld + JC.blen pre /\ ld_len ld = rec_size (RAppend (ld_id ld) p).

Lemma replay_log F idl id : In id idl -> forall rs done ends s start s1,
  F id = encs (done ++ rs) -> Forall wf_record rs ->
  ends = ends_from start (map rec_size rs) -> start = id + JC.blen (encs done) ->
  replay s id start rs ends = (s1, None) ->
  Forall (fun e => ent_ok F idl (snd e)) (m_log s) -> Forall (fun e => ent_ok F idl (snd e)) (m_log s1).
Proof.
  intros Hid. induction rs as [|r rs IH]; intros done ends s start s1 HF Hwf He Hst Hrep Hl.
  - subst ends. cbn [map ends_from replay] in Hrep. inversion Hrep; subst. exact Hl.
  - subst ends. cbn [map ends_from replay] in Hrep.
    pose proof (JC.sm_apply_log s r id (start, start + rec_size r - start)) as Hlog.
    destruct (sm_apply s r id (start, start + rec_size r - start)) as [s2 oe] eqn:Ea.
    destruct oe as [er|]; [discriminate|]. cbn [fst] in Hlog.
    apply Forall_cons_iff in Hwf. destruct Hwf as [Hr Hwf'].
    eapply (IH (done ++ [r])) in Hrep; [exact Hrep| | |reflexivity| |].
    + rewrite <- app_assoc. exact HF.
    + exact Hwf'.
    + rewrite encs_app. unfold JC.blen. rewrite app_length.
      change (encs [r]) with (enc_record r ++ []). rewrite app_nil_r.
      pose proof (JC.rec_size_blen r) as Hb. unfold JC.blen in Hb. unfold JC.blen in Hst. lia.
    + rewrite Forall_forall in *. intros e He. destruct (Hlog e He) as [Ho|(lid & p & -> & ->)].
      * now apply Hl.
      * cbn [snd]. destruct Hr as [Hr1 Hr2]. split; [exact Hr1|]. split; [exact Hid|].
        exists (encs done), p, (encs rs). cbn [ld_id ld_chunk ld_off ld_len fst snd].
        split; [exact Hr2|]. split; [|split; [exact Hst|lia]].
        rewrite HF, encs_app, encs_cons. reflexivity.
Qed.

Lemma rs_run_wf : forall rs st st', wf_rstate st -> Forall wf_record rs ->
  RS.rs_run st rs = Some st' -> wf_rstate st'.
Proof.
  induction rs as [|r rs IH]; intros st st' Hs Hw H; cbn [RS.rs_run] in H.
  - inversion H; subst. exact Hs.
  - inversion Hw; subst. destruct (rs_apply st r) as [st1|e] eqn:E; [|discriminate].
    eapply IH; [|eassumption|exact H]. eapply JC.rs_apply_wf; eauto.
Qed.

Lemma Chain_snoc_file : forall G cur st tl cur' off,
  (G = [] \/ st = cur) -> RS.Chain cur G -> RS.rs_run st tl = Some cur' ->
  RS.Chain cur' (G ++ [(off, RState st :: tl)]).
Proof.
  induction G as [|g G IH]; intros cur st tl cur' off Hc H Hr.
  - cbn [app RS.Chain snd]. split; [|exact I]. exists st, tl. auto.
  - destruct Hc as [Hc|Hc]; [discriminate|]. subst st.
    cbn [app RS.Chain] in *. destruct H as [H1 H2]. destruct G as [|g' G'].
    + cbn [app RS.Chain snd RS.head_state]. split; [exact H1|]. split; [|exact I]. exists cur, tl. auto.
    + split; [exact H1|]. eapply IH; [right; reflexivity|exact H2|exact Hr].
Qed.

(* ------------------------------------------------------------------ the loop, as a journal *)
(* a journal file and the closed chunk built from it *)
Definition cm (g : jfile) (c : closed) : Prop :=
  cl_chunk c = chunk_of (fst g) (snd g) /\ Forall wf_record (snd g) /\
  exists st tl, snd g = RState st :: tl /\ RS.rs_run st tl = Some (cl_state c).

Definition log_ok (G : list jfile) (s : sm) : Prop :=
  forall F, (forall g, In g G -> F (fst g) = encs (snd g)) ->
            Forall (fun e => ent_ok F (map fst G) (snd e)) (m_log s).

Lemma ent_ok_mono F idl idl' ld : incl idl idl' -> ent_ok F idl ld -> ent_ok F idl' ld.
Proof. intros Hi (H1 & H2 & H3). split; [exact H1|]. split; [now apply Hi|exact H3]. Qed.

Lemma open_loop_journal cfg : forall files a P G a',
  open_loop cfg files a = inl a' ->
  oa_disk a = P ++ files ->
  disk_sorted (P ++ files) ->
  Forall2 RF.file_match P G ->
  Forall2 cm G (oa_closed a) ->
  RS.Chain (m_rs (oa_sm a)) G ->
  log_ok G (oa_sm a) ->
  wf_rstate (m_rs (oa_sm a)) ->
  chainedL (map (fun f => recs_of (f_data f)) files) ->
  (G <> [] -> forall f rest, files = f :: rest -> recs_of (f_data f) <> [] ->
     RS.head_state (recs_of (f_data f)) = m_rs (oa_sm a)) ->
  exists G', Forall2 RF.file_match (oa_disk a') G' /\ Forall2 cm G' (oa_closed a') /\
    RS.Chain (m_rs (oa_sm a')) G' /\ log_ok G' (oa_sm a') /\ wf_rstate (m_rs (oa_sm a')).
Proof.
  induction files as [|f rest IH]; intros a P G a' H Hd Hs Hfm Hcm Hch Hlog Hwf HcL Hhead.
  - cbn [open_loop] in H. inversion H; subst a'. rewrite app_nil_r in Hd. rewrite Hd. exists G. auto.
  - rewrite open_loop_eq in H.
    destruct (gap_at a (f_id f)) eqn:Egap; [discriminate|].
    destruct (chunk_open cfg (f_id f) (f_data f)) as [oc|e] eqn:Eoc; [|discriminate].
    cbv zeta in H.
    destruct (chunk_open_recs _ _ _ _ Eoc) as (Ech & Erec & Hwr & Hcase).
    set (rs := recs_of (f_data f)) in *.
    set (p' := if oc_truncated oc then mkFile (f_id f) (oc_data oc) (N.of_nat (length (oc_data oc))) else f).
    assert (Hid : f_id p' = f_id f) by (unfold p'; destruct (oc_truncated oc); reflexivity).
    assert (Hdat : f_data p' = encs rs).
    { unfold p'. destruct Hcase as [(-> & E1 & E2)|(-> & E1)]; [now symmetry|exact E1]. }
    assert (Hd1 : trunc_disk (f_id f) oc (oa_disk a) = P ++ p' :: rest).
    { unfold trunc_disk, p'. rewrite Hd. destruct (oc_truncated oc); [|reflexivity].
      apply AD.disk_put_mid; [reflexivity|exact Hs]. }
    assert (Hs1 : disk_sorted (P ++ p' :: rest)).
    { rewrite <- Hd1. unfold trunc_disk. rewrite Hd. destruct (oc_truncated oc); [|exact Hs].
      apply disk_put_sorted. exact Hs. }
    rewrite Hd1 in H.
    destruct (ck_ends (oc_chunk oc)) as [|e0 el] eqn:Eends; [destruct rest as [|g rest']|].
    + (* the newest file has no complete record: removed *)
      inversion H; subst a'. cbn [oa_disk oa_closed oa_sm].
      rewrite <- Hid, disk_remove_last by exact Hs1. exists G. auto.
    + exfalso. rewrite Ech in Eends. apply chunk_of_ends_nil in Eends. fold rs in Eends.
      destruct (replay (sm_pre a) (f_id f) (f_id f) (oc_records oc) []) as [s1 [er|]]; [discriminate|].
      apply AD.sorted_app_inv in Hs1. destruct Hs1 as (_ & Hs1 & _).
      inversion Hs1 as [|? ? _ Hf]; subst. inversion Hf as [|? ? Hlt _]; subst. unfold file_lt in Hlt.
      clear - H Hlt Ech Hid Eends.
      rewrite open_loop_eq in H. unfold gap_at in H. cbn [oa_prev_end] in H.
      rewrite Ech, Eends, ck_end_chunk_of in H. change (encs []) with (@nil byte) in H.
      cbn [length] in H. destruct (N.eqb_spec (f_id f + N.of_nat 0) (f_id g)) as [E|E]; [lia|].
      cbn [negb] in H. discriminate.
    + assert (Hrs : rs <> []).
      { intros E. rewrite Ech in Eends. fold rs in Eends. rewrite E in Eends. discriminate. }
      assert (H' : match replay (sm_pre a) (f_id f) (f_id f) (oc_records oc) (e0 :: el) with
                   | (s1, Some er) => inr (er, P ++ p' :: rest)
                   | (s1, None) =>
                     open_loop cfg rest
                       (mkOA s1 (closed_insert (mkClosed (oc_chunk oc) (m_rs s1) (oc_truncated oc)) (oa_closed a))
                             (Some (ck_end (oc_chunk oc))) (r_last (m_rs s1)) (P ++ p' :: rest))
                   end = inl a') by (destruct rest; exact H).
      clear H.
      destruct (replay (sm_pre a) (f_id f) (f_id f) (oc_records oc) (e0 :: el)) as [s1 [er|]] eqn:Erep;
        [discriminate|].
      rewrite <- Eends, Erec, Ech in Erep. fold rs in Erep. cbn [ck_ends chunk_of] in Erep.
      (* the head and the run *)
      cbn [map chainedL] in HcL. fold rs in HcL. destruct HcL as [HcL1 HcL2].
      destruct (HcL1 Hrs) as (st & tl & Ers & Hnext).
      assert (Hrun : RS.rs_run (m_rs (oa_sm a)) rs = Some (m_rs s1)).
      { eapply (RS.replay_rs rs _ (sm_pre a) (f_id f) (f_id f) s1); [|exact Erep].
        now rewrite RS.ends_from_length, map_length. }
      assert (Hrun' : RS.rs_run st tl = Some (m_rs s1)) by (rewrite Ers in Hrun; exact Hrun).
      set (cl := mkClosed (oc_chunk oc) (m_rs s1) (oc_truncated oc)) in *.
      assert (HidsPG : map f_id P = map fst G).
      { clear - Hfm. induction Hfm as [|x y l l' [E _] _ IH]; cbn [map]; [reflexivity|]. now rewrite E, IH. }
      assert (Hins : closed_insert cl (oa_closed a) = oa_closed a ++ [cl]).
      { apply closed_insert_last.
        assert (Hall : Forall (fun g : jfile => fst g < f_id f) G).
        { apply (proj1 (Forall_map fst (fun i => i < f_id f) G)). rewrite <- HidsPG.
          apply (proj2 (Forall_map f_id (fun i => i < f_id f) P)).
          apply AD.sorted_app_inv in Hs. destruct Hs as (_ & _ & Hlt).
          rewrite Forall_forall. intros x Hx. apply Hlt; [exact Hx|now left]. }
        unfold cl. cbn [cl_chunk]. rewrite (chunk_open_id _ _ _ _ Eoc).
        clear - Hall Hcm. induction Hcm as [|g c G0 cl0 [Hc _] _ IH]; [constructor|].
        inversion Hall; subst. constructor; [rewrite Hc; cbn [chunk_of ck_id]; assumption|now apply IH]. }
      rewrite Hins in H'.
      eapply (IH _ (P ++ [p']) (G ++ [(f_id f, rs)])) in H'; cbn [oa_disk oa_closed oa_sm].
      * exact H'.
      * rewrite <- app_assoc. reflexivity.
      * rewrite <- app_assoc. exact Hs1.
      * apply Forall2_app; [exact Hfm|]. constructor; [|constructor]. split; [exact Hid|exact Hdat].
      * apply Forall2_app; [exact Hcm|]. constructor; [|constructor].
        unfold cm, cl. cbn [cl_chunk cl_state fst snd]. split; [exact Ech|]. split; [exact Hwr|].
        exists st, tl. auto.
      * rewrite Ers. eapply Chain_snoc_file; [|exact Hch|exact Hrun'].
        destruct G as [|g0 G0]; [now left|right].
        specialize (Hhead ltac:(discriminate) f rest eq_refl Hrs). fold rs in Hhead.
        rewrite Ers in Hhead. exact Hhead.
      * (* index entries *)
        intros F HF. rewrite map_app. cbn [map fst].
        assert (HF0 : forall g, In g G -> F (fst g) = encs (snd g)).
        { intros g Hg. apply HF. apply in_or_app. now left. }
        assert (HFid : F (f_id f) = encs ([] ++ rs)).
        { apply (HF (f_id f, rs)). apply in_or_app. right. now left. }
        eapply (replay_log F _ (f_id f)); [| exact HFid | exact Hwr | reflexivity | | exact Erep |].
        -- apply in_or_app. right. now left.
        -- unfold JC.blen. cbn. lia.
        -- cbn [sm_pre m_log]. specialize (Hlog F HF0). eapply Forall_impl; [|exact Hlog].
           intros e He. eapply ent_ok_mono; [|exact He]. apply incl_appl, incl_refl.
      * eapply rs_run_wf; [exact Hwf|exact Hwr|exact Hrun].
      * exact HcL2.
      * intros _ g rest' E Hg. subst rest. cbn [map] in Hnext.
        specialize (Hnext Hg). rewrite Hnext in Hrun'. now inversion Hrun'.
Qed.

(* ------------------------------------------------------------------ (a) whole records, unconditionally *)
Definition whole_file (p : file) : Prop :=
  exists rs, f_data p = encs rs /\ Forall wf_record rs /\ rs <> [].

Lemma open_loop_whole cfg : forall files a P a',
  open_loop cfg files a = inl a' ->
  oa_disk a = P ++ files -> disk_sorted (P ++ files) -> Forall whole_file P ->
  wf_rstate (m_rs (oa_sm a)) ->
  Forall whole_file (oa_disk a') /\ wf_rstate (m_rs (oa_sm a')).
Proof.
  induction files as [|f rest IH]; intros a P a' H Hd Hs HP Hwf.
  - cbn [open_loop] in H. inversion H; subst a'. rewrite app_nil_r in Hd. now rewrite Hd.
  - rewrite open_loop_eq in H.
    destruct (gap_at a (f_id f)) eqn:Egap; [discriminate|].
    destruct (chunk_open cfg (f_id f) (f_data f)) as [oc|e] eqn:Eoc; [|discriminate].
    cbv zeta in H.
    destruct (chunk_open_recs _ _ _ _ Eoc) as (Ech & Erec & Hwr & Hcase).
    set (rs := recs_of (f_data f)) in *.
    set (p' := if oc_truncated oc then mkFile (f_id f) (oc_data oc) (N.of_nat (length (oc_data oc))) else f).
    assert (Hid : f_id p' = f_id f) by (unfold p'; destruct (oc_truncated oc); reflexivity).
    assert (Hdat : f_data p' = encs rs).
    { unfold p'. destruct Hcase as [(-> & E1 & E2)|(-> & E1)]; [now symmetry|exact E1]. }
    assert (Hd1 : trunc_disk (f_id f) oc (oa_disk a) = P ++ p' :: rest).
    { unfold trunc_disk, p'. rewrite Hd. destruct (oc_truncated oc); [|reflexivity].
      apply AD.disk_put_mid; [reflexivity|exact Hs]. }
    assert (Hs1 : disk_sorted (P ++ p' :: rest)).
    { rewrite <- Hd1. unfold trunc_disk. rewrite Hd. destruct (oc_truncated oc); [|exact Hs].
      apply disk_put_sorted. exact Hs. }
    rewrite Hd1 in H.
    destruct (ck_ends (oc_chunk oc)) as [|e0 el] eqn:Eends; [destruct rest as [|g rest']|].
    + inversion H; subst a'. cbn [oa_disk oa_sm]. rewrite <- Hid, disk_remove_last by exact Hs1. auto.
    + destruct (replay (sm_pre a) (f_id f) (f_id f) (oc_records oc) []) as [s1 [er|]]; [discriminate|].
      exfalso. rewrite Ech in Eends. apply chunk_of_ends_nil in Eends. fold rs in Eends.
      apply AD.sorted_app_inv in Hs1. destruct Hs1 as (_ & Hs1 & _).
      inversion Hs1 as [|? ? _ Hf]; subst. inversion Hf as [|? ? Hlt _]; subst. unfold file_lt in Hlt.
      clear - H Hlt Ech Hid Eends.
      rewrite open_loop_eq in H. unfold gap_at in H. cbn [oa_prev_end] in H.
      rewrite Ech, Eends, ck_end_chunk_of in H. change (encs []) with (@nil byte) in H.
      cbn [length] in H. destruct (N.eqb_spec (f_id f + N.of_nat 0) (f_id g)) as [E|E]; [lia|].
      cbn [negb] in H. discriminate.
    + assert (Hrs : rs <> []).
      { intros E. rewrite Ech in Eends. fold rs in Eends. rewrite E in Eends. discriminate. }
      assert (H' : match replay (sm_pre a) (f_id f) (f_id f) (oc_records oc) (e0 :: el) with
                   | (s1, Some er) => inr (er, P ++ p' :: rest)
                   | (s1, None) =>
                     open_loop cfg rest
                       (mkOA s1 (closed_insert (mkClosed (oc_chunk oc) (m_rs s1) (oc_truncated oc)) (oa_closed a))
                             (Some (ck_end (oc_chunk oc))) (r_last (m_rs s1)) (P ++ p' :: rest))
                   end = inl a') by (destruct rest; exact H).
      clear H.
      destruct (replay (sm_pre a) (f_id f) (f_id f) (oc_records oc) (e0 :: el)) as [s1 [er|]] eqn:Erep;
        [discriminate|].
      rewrite <- Eends, Erec, Ech in Erep. fold rs in Erep. cbn [ck_ends chunk_of] in Erep.
      assert (Hrun : RS.rs_run (m_rs (oa_sm a)) rs = Some (m_rs s1)).
      { eapply (RS.replay_rs rs _ (sm_pre a) (f_id f) (f_id f) s1); [|exact Erep].
        now rewrite RS.ends_from_length, map_length. }
      eapply (IH _ (P ++ [p'])) in H'; cbn [oa_disk oa_sm]; [exact H'| | | |].
      * rewrite <- app_assoc. reflexivity.
      * rewrite <- app_assoc. exact Hs1.
      * rewrite Forall_app. split; [exact HP|]. constructor; [|constructor]. exists rs. auto.
      * eapply rs_run_wf; [exact Hwf|exact Hwr|exact Hrun].
Qed.

(* every file of the directory that open_dir leaves is a whole number of well-formed
   (hence decodable: dec_enc_record) records, at least one; no hypothesis besides sortedness *)
Theorem open_dir_whole : forall cfg d y,
  disk_sorted d -> open_dir cfg d = OpenOk y ->
  Forall (fun p => exists rs, f_data p = encs rs /\ Forall wf_record rs /\ rs <> []) (y_disk y).
Proof.
  intros cfg d y Hs H. rewrite open_dir_eq in H.
  destruct (open_loop cfg d (acc0 cfg d)) as [a|[e d']] eqn:El; [|discriminate].
  assert (Hw0 : wf_rstate (m_rs (oa_sm (acc0 cfg d)))) by (cbn; unfold wf_rstate; cbn; tauto).
  apply (open_loop_whole cfg d (acc0 cfg d) [] a El eq_refl Hs (Forall_nil _)) in Hw0.
  destruct Hw0 as [El' Hwf]. unfold open_finish in H. destruct (reusable (oa_closed a)) as [[init lastc]|].
  - inversion H; subst. exact El'.
  - destruct (disk_get _ (oa_disk a)); [discriminate|]. inversion H; subst. cbn [y_disk].
    apply disk_put_Forall; [|exact El']. eexists [_]. cbn [f_data]. split; [symmetry; apply JC.encs_one|].
    split; [|discriminate]. constructor; [|constructor]. exact Hwf.
Qed.

(* ------------------------------------------------------------------ the journal of the opened state *)
Record opened_journal (y : sys) (G0 : list jfile) (o : N) (rs : list record) : Prop := {
  oj_files : Forall2 RF.file_match (y_disk y) (G0 ++ [(o, rs)]);
  oj_closed : Forall2 cm G0 (k_closed (y_core y));
  oj_open : k_open (y_core y) = chunk_of o rs;
  oj_last : Forall wf_record rs /\ exists st tl, rs = RState st :: tl;
  oj_chain : RS.Chain (m_rs (k_sm (y_core y))) (G0 ++ [(o, rs)]);
  oj_log : log_ok (G0 ++ [(o, rs)]) (k_sm (y_core y));
  oj_wf : wf_rstate (m_rs (k_sm (y_core y))) }.

Lemma log_ok_snoc G g s : log_ok G s -> log_ok (G ++ [g]) s.
Proof.
  intros H F HF. rewrite map_app.
  assert (HF0 : forall g0, In g0 G -> F (fst g0) = encs (snd g0)).
  { intros g0 Hg. apply HF. apply in_or_app. now left. }
  specialize (H F HF0). eapply Forall_impl; [|exact H].
  intros e He. eapply ent_ok_mono; [|exact He]. apply incl_appl, incl_refl.
Qed.

Theorem open_dir_journal : forall cfg d y,
  disk_sorted d -> dir_chained d -> open_dir cfg d = OpenOk y ->
  exists G0 o rs, opened_journal y G0 o rs.
Proof.
  intros cfg d y Hs Hch H.
  destruct (opened_of _ _ _ H Hs) as (old & fc & O).
  rewrite open_dir_eq in H.
  destruct (open_loop cfg d (acc0 cfg d)) as [a|[e d']] eqn:El; [|discriminate].
  assert (Hw0 : wf_rstate (m_rs (oa_sm (acc0 cfg d)))) by (cbn; unfold wf_rstate; cbn; tauto).
  assert (Hl0 : log_ok [] (oa_sm (acc0 cfg d))) by (intros F _; cbn; constructor).
  assert (Hh0 : @nil jfile <> [] -> forall f rest, d = f :: rest -> recs_of (f_data f) <> [] ->
                RS.head_state (recs_of (f_data f)) = m_rs (oa_sm (acc0 cfg d))) by (intros E; now elim E).
  destruct (open_loop_journal cfg d (acc0 cfg d) [] [] a El eq_refl Hs (Forall2_nil _) (Forall2_nil _) I
              Hl0 Hw0 Hch Hh0) as (G' & Hfm & Hcm & Hchain & Hlog & Hwf).
  clear Hw0 Hl0 Hh0 El.
  unfold open_finish in H.
  destruct (reusable (oa_closed a)) as [[init lastc]|] eqn:Er.
  - apply reusable_some in Er. destruct Er as [Ecl Etr]. inversion H; subst y; clear H.
    rewrite Ecl in Hcm. apply Forall2_app_inv_r in Hcm.
    destruct Hcm as (G0 & l2 & Hc1 & Hc2 & EG). inversion Hc2 as [|[o rs] ? ? ? Hgl Hnil]; subst.
    inversion Hnil; subst. destruct Hgl as (Hck & Hwr & Hhd). cbn [fst snd] in *.
    exists G0, o, rs. destruct Hhd as (st & tl & Ers & _).
    constructor; cbn [y_disk y_core k_closed k_open k_sm]; eauto.
  - set (id := match oa_prev_end a with Some p => p | None => 0 end) in *.
    destruct (disk_get id (oa_disk a)) eqn:Eg; [discriminate|].
    inversion H; subst y; clear H.
    set (st := m_rs (oa_sm a)) in *. set (nf := mkFile id (enc_record (RState st)) 0) in *.
    pose proof (o_disk _ _ _ _ O) as Ed. pose proof (o_sorted _ _ _ _ O) as Hsd.
    pose proof (o_id _ _ _ _ O) as Eid. cbn [y_disk y_core k_open] in Ed, Hsd, Eid.
    rewrite ck_id_push in Eid. cbn [ck_id] in Eid.
    assert (Eold : oa_disk a = old).
    { rewrite <- (AD.disk_remove_absent id (oa_disk a)).
      - change id with (f_id nf). rewrite <- disk_remove_put, Ed. cbn [f_id nf]. rewrite <- Eid.
        apply disk_remove_last. rewrite <- Ed. exact Hsd.
      - apply CB.disk_get_none_ids in Eg. rewrite Forall_forall. intros g Hg E. apply Eg.
        rewrite <- E. now apply in_map. }
    assert (Hput : disk_put nf (oa_disk a) = oa_disk a ++ [nf]).
    { apply AD.disk_put_end. rewrite Eold. rewrite Ed in Hsd.
      apply AD.sorted_app_inv in Hsd. destruct Hsd as (_ & _ & Hlt).
      unfold AD.ids_lt. rewrite Forall_forall. intros g Hg. cbn [f_id nf]. rewrite <- Eid.
      apply Hlt; [exact Hg|now left]. }
    exists G', id, [RState st].
    constructor; cbn [y_disk y_core k_closed k_open k_sm].
    + rewrite Hput. apply Forall2_app; [exact Hfm|]. constructor; [|constructor].
      split; [reflexivity|]. cbn [snd f_data nf]. symmetry. apply JC.encs_one.
    + exact Hcm.
    + unfold chunk_of. cbn [map ends_from]. rewrite ck_push_fresh.
      rewrite (JC.rec_size_blen (RState st)). reflexivity.
    + split; [constructor; [exact Hwf|constructor]|]. exists st, []. reflexivity.
    + destruct G' as [|g0 G0'].
      * cbn [app RS.Chain snd]. split; [|exact I]. exists st, []. auto.
      * apply RS.Chain_rotate; [discriminate|exact Hchain].
    + apply log_ok_snoc. exact Hlog.
    + exact Hwf.
Qed.

(* ------------------------------------------------------------------ (b) the journal invariant at the start *)
Lemma fm_ids D G : Forall2 RF.file_match D G -> map f_id D = map fst G.
Proof. induction 1 as [|f g D G [E _] _ IH]; cbn [map]; [reflexivity|]. now rewrite E, IH. Qed.

Lemma fm_bytes D G : Forall2 RF.file_match D G -> forall id, CB.data_of D id = CB.gbytes G id.
Proof.
  induction 1 as [|f g D G [E1 E2] _ IH]; intros id; [reflexivity|].
  unfold CB.data_of, CB.gbytes in *. cbn [disk_get CB.glook]. rewrite E1.
  destruct (N.eqb id (fst g)); [exact E2|apply IH].
Qed.

Lemma fm_Abut D G : Forall2 RF.file_match D G -> contig D -> RF.Abut G.
Proof.
  induction 1 as [|f g D G [E1 E2] H IH]; intros Hc; [exact I|].
  cbn [AD.contig RF.Abut] in *. destruct Hc as [Hc1 Hc2]. split; [|now apply IH].
  destruct H as [|f' g' D' G' [E1' _] _]; [exact I|].
  unfold AD.fend in Hc1. unfold RF.glen. rewrite <- E2, <- E1, <- E1'. symmetry. exact Hc1.
Qed.

Lemma abut_of_Abut fb G : (forall g, In g G -> fb (fst g) = encs (snd g)) -> RF.Abut G ->
  JC.abut fb (map fst G).
Proof.
  induction G as [|g G IH]; intros HF H; [exact I|].
  cbn [map JC.abut RF.Abut] in *. destruct H as [H1 H2]. split.
  - destruct G as [|g' G']; [exact I|]. cbn [map]. rewrite H1. unfold RF.glen, JC.blen.
    rewrite (HF g) by now left. reflexivity.
  - apply IH; [|exact H2]. intros g0 Hg. apply HF. now right.
Qed.

Lemma cm_ids G0 cl : Forall2 cm G0 cl -> map fst G0 = map (fun c => ck_id (cl_chunk c)) cl.
Proof.
  induction 1 as [|g c G cl [E _] _ IH]; cbn [map]; [reflexivity|]. rewrite E, IH. reflexivity.
Qed.

Lemma heads_from_chain fb : forall G0 cl gl cur,
  Forall2 cm G0 cl -> RS.Chain cur (G0 ++ [gl]) ->
  (forall g, In g (G0 ++ [gl]) -> fb (fst g) = encs (snd g)) ->
  (exists st tl, snd gl = RState st :: tl) ->
  JC.heads_ok fb cl (fst gl).
Proof.
  intros G0 cl gl cur H. revert cur. induction H as [|g c G0 cl Hc H IH]; intros cur Hch HF Hgl; [exact I|].
  cbn [app RS.Chain] in Hch. destruct Hch as [(st & tl & E1 & E2) Hch2].
  destruct Hc as (Hck & _ & st' & tl' & E1' & E2'). rewrite E1 in E1'. inversion E1'; subst st' tl'.
  rewrite E2 in E2'. inversion E2' as [Ecl].
  cbn [JC.heads_ok]. split.
  - destruct H as [|g' c' G0' cl' Hc' H'].
    + cbn [app] in *. destruct Hgl as (s0 & t0 & Egl). rewrite <- Ecl, Egl. cbn [RS.head_state].
      exists (encs t0). rewrite (HF gl) by (right; now left). rewrite Egl. apply encs_cons.
    + cbn [app] in *. destruct Hc' as (Hck' & _ & s0 & t0 & Eg' & _).
      rewrite <- Ecl, Eg'. cbn [RS.head_state]. exists (encs t0). rewrite Hck'. cbn [chunk_of ck_id].
      rewrite (HF g') by (right; now left). rewrite Eg'. apply encs_cons.
  - eapply IH; [exact Hch2| |exact Hgl]. intros g0 Hg. apply HF. now right.
Qed.

Lemma JI_from S y old fc G0 o rs :
  opened S y old fc -> opened_journal y G0 o rs -> CS.JI (sys2_of y) (G0 ++ [(o, rs)]).
Proof.
  intros O [Hfm Hcm Hop [Hwr (st0 & tl0 & Ers)] Hchain Hlog Hwf].
  set (G := G0 ++ [(o, rs)]) in *.
  pose proof (fm_ids _ _ Hfm) as Hids. pose proof (fm_bytes _ _ Hfm) as Hbytes.
  pose proof (sorted_ids _ (o_sorted _ _ _ _ O)) as Hsd. rewrite Hids in Hsd.
  assert (Hcont : contig (y_disk y)) by (rewrite (o_disk _ _ _ _ O); apply (o_contig _ _ _ _ O)).
  pose proof (fm_Abut _ _ Hfm Hcont) as Hab.
  assert (HF : forall g, In g G -> CB.gbytes G (fst g) = encs (snd g)).
  { intros [i r] Hg. unfold CB.gbytes. cbn [fst snd]. now rewrite (CR.glook_sorted G i r Hsd Hg). }
  assert (Hoid : ck_id (k_open (y_core y)) = o) by (rewrite Hop; reflexivity).
  assert (Hcids : JC.chunk_ids (y_core y) = map fst G).
  { unfold JC.chunk_ids, JC.closed_ids. rewrite (o_removed _ _ _ _ O), Hoid.
    unfold G. rewrite map_app, (cm_ids _ _ Hcm). reflexivity. }
  assert (Hgok : Forall CJ.gfile_ok G).
  { unfold G. rewrite Forall_app. split.
    - clear - Hcm. induction Hcm as [|g c G cl (_ & Hw & s & t & E & _) _ IH]; constructor; [|exact IH].
      split; [exact Hw|eauto].
    - constructor; [|constructor]. split; [exact Hwr|]. cbn [snd]. eauto. }
  destruct (o_files _ _ _ _ O) as [pl Hfl].
  assert (Hfc : f_id fc = o) by (rewrite (o_id _ _ _ _ O); exact Hoid).
  constructor.
  - (* GI *)
    constructor; unfold sys2_of; cbn [z_core z_todo z_ghost g_created].
    + constructor.
      * reflexivity.
      * rewrite Hcids. exact Hsd.
      * rewrite Hcids. apply abut_of_Abut; assumption.
      * unfold JC.live_chunks. rewrite Forall_app. split.
        -- rewrite Forall_map.
           assert (Hgen : forall fb G1 cl1, Forall2 cm G1 cl1 ->
                     (forall g, In g G1 -> fb (fst g) = encs (snd g)) ->
                     Forall (fun x => JC.chunk_ok fb (cl_chunk x)) cl1).
           { clear. intros fb G1 cl1 H.
             induction H as [|g c G1 cl (Hck & Hw & s & t & E & _) _ IH]; intros HF1; constructor.
             - exists (snd g). rewrite Hck. cbn [chunk_of ck_id ck_ends].
               split; [exact Hw|]. split; [apply HF1; now left|]. split; [reflexivity|eauto].
             - apply IH. intros g0 Hg0. apply HF1. now right. }
           apply (Hgen _ G0); [exact Hcm|]. intros g Hg. apply HF. apply in_or_app. now left.
        -- constructor; [|constructor]. exists rs. rewrite Hop. cbn [chunk_of ck_id ck_ends].
           split; [exact Hwr|]. split; [|split; [reflexivity|eauto]].
           apply (HF (o, rs)). apply in_or_app. right. now left.
      * rewrite Hoid. apply (heads_from_chain _ G0 _ (o, rs) _ Hcm Hchain HF). cbn [snd]. eauto.
      * exact Hwf.
      * rewrite Hoid, Hcids. specialize (Hlog (CB.gbytes G) HF).
        eapply Forall_impl; [|exact Hlog]. intros e (H1 & H2 & H3). split; [exact H1|].
        split; [|intros _; exact H3].
        unfold G in H2, Hsd. rewrite map_app in H2, Hsd. cbn [map fst] in H2, Hsd.
        eapply CB.ss_last_max; eauto.
    + cbn [AD.creates CB.creates flat_map]. unfold CB.creates, AD.creates. cbn [flat_map].
      rewrite app_nil_r. symmetry. exact Hids.
    + exact Hsd.
    + exact Hgok.
    + exact Hab.
    + exact Hchain.
    + rewrite Hoid. exists G0, rs. reflexivity.
    + intros x [].
  - exact I.
  - unfold sys2_of. cbn [z_disk z_todo]. intros id _. cbn [CB.theads]. rewrite app_nil_r, Hbytes.
    apply CB.bprefix_refl.
  - intros _. unfold AD.stream, AD.stream_batch, CB.cur0, newest, sys2_of.
    cbn [z_w w_batch w_files z_queue z_todo z_core z_disk]. rewrite (o_queue _ _ _ _ O), Hfl.
    cbn [rev app map wf_id]. constructor.
    + cbn [CB.fcur]. now rewrite Hoid.
    + intros id _. cbn [CB.pw]. rewrite (o_pending _ _ _ _ O).
      destruct (N.eqb (ck_id (k_open (y_core y))) id); rewrite ?app_nil_r; apply Hbytes.
    + exact I.
    + cbn [CB.seen_of]. constructor; [|constructor]. rewrite Hoid, Hfc. lia.
Qed.

(* ------------------------------------------------------------------ (c) the invariant in every reachable state *)
Definition dir_ok (d : disk) : Prop := dir_wf d /\ older_synced d /\ dir_chained d.

Lemma full_JI_from cfg d z : dir_ok d -> zreach_from cfg d z ->
  AD.full z /\ (CS.hist_wf z -> exists G, CS.JI z G).
Proof.
  intros (Hwf & Hold & Hch). revert z.
  apply (zreach_from_ind (fun z => AD.full z /\ (CS.hist_wf z -> exists G, CS.JI z G))).
  - intros y Ho. destruct (opened_of_synced _ _ _ Ho Hwf Hold) as (old & fc & O & Hf).
    split; [eapply full_from; eauto|]. intros _.
    destruct (open_dir_journal cfg d y (proj1 Hwf) Hch Ho) as (G0 & o & rs & OJ).
    eexists. eapply JI_from; eauto.
  - intros z e z' v [F IH] Hst. split; [eapply AD.full_step; eauto|].
    intros Hw. destruct (CS.hist_wf_step _ _ _ _ Hst Hw) as [Hw0 Hwe].
    destruct (IH Hw0) as (G & J). exists (CS.gstep z e G). eapply CS.JI_step; eauto.
Qed.

Theorem L2_journal_from : forall cfg d z,
  dir_ok d -> zreach_from cfg d z -> CS.hist_wf z -> exists G, CS.JI z G.
Proof. intros cfg d z Hd Hr Hw. now apply (full_JI_from cfg d z Hd Hr). Qed.

Lemma Inv_from cfg d z : disk_sorted d -> zreach_from cfg d z -> PurgeFacts.Inv z.
Proof.
  intros Hs. revert z. apply (zreach_from_ind PurgeFacts.Inv).
  - intros y Ho. destruct (opened_of _ _ _ Ho Hs) as (old & fc & O). eapply inv_from; eauto.
  - intros; eapply PurgeFacts.inv_zstep; eauto.
Qed.

Print Assumptions open_dir_whole.
Print Assumptions open_dir_journal.
Print Assumptions JI_from.
Print Assumptions L2_journal_from.
