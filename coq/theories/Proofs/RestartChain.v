(* Chaining the L2 contracts across incarnations of the store.

   RestartSys.v proves the contracts (C04, C08, C14) for an instance opened on ANY
   directory [d] with [dir_wf d] and [older_synced d].  This file discharges those
   hypotheses for the directory a previous instance leaves behind:
   - [idle_good_dir]: worker alive and idle, tracking exactly one file (the newest);
   - [reboot_good_dir]: any crash image after a reboot (everything on disk is durable);
   and chains the contracts over any number of incarnations ([chain], [chain_contracts]). *)
From Coq Require Import List NArith Bool Lia Arith Sorting.Sorted.
From Coq Require Import ZifyBool ZifyN ZifyNat.
From Coq.Strings Require Import Byte.
From RaftLog Require Import Base.Bytes Model.Types Model.Codec Model.Cache Model.Core
  Model.Recover Model.Run Model.Sys Spec.Spec Spec.Hist Spec.Durable.
From RaftLog Require Import Proofs.CodecFacts Proofs.NoPanic Proofs.ScanFacts Proofs.RecoverFacts
  Proofs.AckFacts Proofs.RestartShape Proofs.RestartSys.
From RaftLog Require Proofs.AckDurable Proofs.JournalDisk Proofs.JournalChunk Proofs.PurgeFacts
  Proofs.PurgeDurable Proofs.PurgeLive Proofs.CrashSteps Proofs.CrashRecover Proofs.DropReopen.
Import ListNotations.
Local Open Scope N_scope.
Local Arguments N.add : simpl never.
Local Arguments N.sub : simpl never.
Local Arguments N.mul : simpl never.
Local Arguments N.eqb : simpl never.
Local Arguments N.ltb : simpl never.
Local Arguments N.leb : simpl never.
Local Arguments N.compare : simpl never.
Local Arguments N.of_nat : simpl never.
Local Arguments enc_record : simpl never.

Module AD := AckDurable.

(* ================================================================== the combined invariant, from any good directory *)
Lemma full_from_reach cfg d z : dir_wf d -> older_synced d -> zreach_from cfg d z -> AD.full z.
Proof.
  intros Hwf Hold. revert z. apply (zreach_from_ind AD.full).
  - intros y Ho. destruct (opened_of_synced _ _ _ Ho Hwf Hold) as (old & fc & O & Hf).
    eapply full_from; eauto.
  - intros; eapply AD.full_step; eauto.
Qed.

Lemma dir_wf_nil : dir_wf [] /\ older_synced [].
Proof. split; [split; constructor|constructor]. Qed.

(* what the five contracts are *)
Definition contracts (z : sys2) : Prop :=
  acked_durable z /\ removed_after_durable z /\ files_contiguous z /\ acks_in_order z /\
  Forall (fun f => (f_synced f <= N.of_nat (length (f_data f)))%N) (z_disk z).

Theorem contracts_from : forall cfg d z,
  dir_wf d -> older_synced d -> zreach_from cfg d z -> contracts z.
Proof.
  intros cfg d z Hwf Hold Hr. pose proof Hwf as [Hs Hle]. repeat split.
  - apply (C04_ack_after_sync_from cfg d z Hwf Hold Hr).
  - apply (C08_removed_after_durable_from cfg d z Hwf Hold Hr).
  - apply (C08_oldest_first_from cfg d z Hs Hr).
  - apply (C04_once_in_order_from cfg d z Hr).
  - apply (C04_synced_le_written_from cfg d z); [exact Hle|exact Hr].
Qed.

(* ================================================================== the directory an idle instance leaves *)
(* worker alive, nothing queued or in progress, exactly one file tracked *)
Definition clean_end (z : sys2) : Prop :=
  w_alive (z_w z) = true /\ worker_idle2 z /\ length (w_files (z_w z)) = 1%nat.

Lemma idle_good_dir z : AD.full z -> Forall synced_le (z_disk z) -> clean_end z ->
  dir_wf (z_disk z) /\ older_synced (z_disk z) /\ disk_sorted (z_disk z).
Proof.
  intros F Hle (Hal & Hi & H1).
  pose proof (AD.b_sorted _ (AD.f_b _ F)) as Hs.
  split; [split; assumption|]. split; [|exact Hs].
  destruct (AD.f_a _ F Hal) as [_ (old & tin & fc & fut & fl & st & C)].
  pose proof (AD.c_files _ _ _ _ _ _ _ C) as Ef.
  assert (Etin : tin = []).
  { apply (f_equal (@length N)) in Ef. rewrite !map_length, app_length, H1 in Ef. cbn [length] in Ef.
    destruct tin; [reflexivity|cbn [length] in Ef; lia]. }
  assert (Efut : fut = []).
  { pose proof (AD.c_run _ _ _ _ _ _ _ C) as Hr. rewrite (DropReopen.idle_stream _ Hi) in Hr.
    cbn [AD.wrun] in Hr. inversion Hr as [Est]. pose proof (AD.c_fut _ _ _ _ _ _ _ C) as Hf.
    rewrite <- Est in Hf. cbn [AD.s_fut] in Hf. destruct fut; [reflexivity|discriminate Hf]. }
  unfold older_synced. rewrite (AD.c_disk _ _ _ _ _ _ _ C), Etin, Efut. cbn [app].
  rewrite removelast_last. exact (AD.c_old _ _ _ _ _ _ _ C).
Qed.

Theorem idle_leaves_good_dir_from : forall cfg d z,
  dir_wf d -> older_synced d -> zreach_from cfg d z -> clean_end z ->
  dir_wf (z_disk z) /\ older_synced (z_disk z) /\ disk_sorted (z_disk z).
Proof.
  intros cfg d z Hwf Hold Hr Hc. apply idle_good_dir; [|apply (proj2 (proj2 (proj2 (proj2 (contracts_from cfg d z Hwf Hold Hr)))))|exact Hc].
  apply (full_from_reach cfg d z Hwf Hold Hr).
Qed.

(* from the empty directory; no fault-freeness, no drop needed *)
Theorem idle_leaves_good_dir : forall cfg z,
  zreach cfg z -> clean_end z ->
  dir_wf (z_disk z) /\ older_synced (z_disk z) /\ disk_sorted (z_disk z).
Proof.
  intros cfg z Hr. apply (idle_leaves_good_dir_from cfg [] z (proj1 dir_wf_nil) (proj2 dir_wf_nil)).
  apply zreach_from_nil. exact Hr.
Qed.

(* ------------------------------------------------------------------ fault-free runs keep the worker alive *)
Lemma ff_alive_from cfg d z : zreach_from_ff cfg d z -> w_alive (z_w z) = true.
Proof.
  intros H. cut (PurgeFacts.ffinv z); [intros Hf; apply Hf|].
  revert z H. apply (zreach_from_ff_ind PurgeFacts.ffinv).
  - intros y _. repeat split.
  - intros z e z' v He Hf Hs. eapply PurgeFacts.ff_zstep; eauto.
Qed.

(* the statement asked for, with the one extra hypothesis this proof uses (the worker
   tracks one file: true after every flush that is not followed by a rotation; see
   [ff_idle_two_files] for why fault-freeness and idleness alone do not give it) and
   without [z_dropped], which is not used *)
Theorem drop_leaves_good_dir : forall cfg z1,
  zreach_ff cfg z1 -> worker_idle2 z1 -> length (w_files (z_w z1)) = 1%nat ->
  dir_wf (z_disk z1) /\ older_synced (z_disk z1) /\ disk_sorted (z_disk z1).
Proof.
  intros cfg z1 Hff Hi H1. apply (idle_leaves_good_dir cfg z1 (DropReopen.ff_reach _ _ Hff)).
  split; [apply (DropReopen.ff_alive _ _ Hff)|split; assumption].
Qed.

Theorem C14_next_instance_contracts : forall cfg cfg' z1 z2,
  zreach_ff cfg z1 -> worker_idle2 z1 -> length (w_files (z_w z1)) = 1%nat ->
  zreach_from cfg' (z_disk z1) z2 ->
  acked_durable z2 /\ removed_after_durable z2 /\ files_contiguous z2 /\ acks_in_order z2 /\
  Forall (fun f => (f_synced f <= N.of_nat (length (f_data f)))%N) (z_disk z2).
Proof.
  intros cfg cfg' z1 z2 Hff Hi H1 Hr.
  destruct (drop_leaves_good_dir cfg z1 Hff Hi H1) as (Hwf & Hold & _).
  apply (contracts_from cfg' (z_disk z1) z2 Hwf Hold Hr).
Qed.

(* the next instance does start (DropReopen.C14_reopen_after_drop), and every state it
   reaches satisfies the contracts *)
Theorem C14_next_instance_starts : forall cfg cfg' z1,
  zreach_ff cfg z1 -> CrashSteps.hist_wf z1 -> PurgeLive.hist_legal z1 ->
  z_dropped z1 = true -> worker_idle2 z1 -> c_truncate cfg' = true ->
  exists z0, zinit cfg' (z_disk z1) = Some z0 /\ zreach_from cfg' (z_disk z1) z0 /\
    (length (w_files (z_w z1)) = 1%nat ->
     forall z2, zreach_from cfg' (z_disk z1) z2 -> contracts z2).
Proof.
  intros cfg cfg' z1 Hff Hw Hl Hd Hi Ht.
  destruct (DropReopen.C14_reopen_after_drop cfg cfg' z1 Hff Hw Hl Hd Hi Ht) as (y' & k & sp & Ho & _).
  exists (sys2_of y'). assert (Hz : zinit cfg' (z_disk z1) = Some (sys2_of y')) by (unfold zinit; rewrite Ho; reflexivity).
  split; [exact Hz|]. split.
  - exists (sys2_of y'), [], []. split; [exact Hz|reflexivity].
  - intros H1 z2 Hr. apply (C14_next_instance_contracts cfg cfg' z1 z2 Hff Hi H1 Hr).
Qed.

(* ================================================================== any number of incarnations *)
(* [chain d l zl]: the incarnations [l] (configuration, events) are run one after the
   other, the first on directory [d], each next one on the directory the previous one
   left; every incarnation but the last ends in a [clean_end] state; [zl] is the state
   the last one reaches *)
Fixpoint chain (d : disk) (l : list (config * list zev)) (zl : sys2) : Prop :=
  match l with
  | [] => False
  | (cfg, es) :: r =>
    exists z0 z vis, zinit cfg d = Some z0 /\ zrun z0 es = Some (z, vis) /\
      match r with
      | [] => zl = z
      | _ :: _ => clean_end z /\ chain (z_disk z) r zl
      end
  end.

Theorem chain_contracts : forall l d zl,
  dir_wf d -> older_synced d -> chain d l zl ->
  contracts zl /\
  (clean_end zl -> dir_wf (z_disk zl) /\ older_synced (z_disk zl) /\ disk_sorted (z_disk zl)).
Proof.
  induction l as [|[cfg es] r IH]; intros d zl Hwf Hold H; [destruct H|].
  cbn [chain] in H. destruct H as (z0 & z & vis & Hi & Hr & Hrest).
  assert (Hreach : zreach_from cfg d z) by (exists z0, es, vis; split; assumption).
  destruct r as [|p r'].
  - subst zl. split; [apply (contracts_from cfg d z Hwf Hold Hreach)|].
    intros Hc. apply (idle_leaves_good_dir_from cfg d z Hwf Hold Hreach Hc).
  - destruct Hrest as [Hc Hch].
    destruct (idle_leaves_good_dir_from cfg d z Hwf Hold Hreach Hc) as (Hwf' & Hold' & _).
    apply (IH (z_disk z) zl Hwf' Hold' Hch).
Qed.

(* started in the empty directory *)
Corollary C14_incarnations_contracts : forall l zl, chain [] l zl -> contracts zl.
Proof. intros l zl H. apply (chain_contracts l [] zl (proj1 dir_wf_nil) (proj2 dir_wf_nil) H). Qed.

(* an incarnation that is fault-free up to an idle state tracking one file ends cleanly *)
Lemma ff_clean_end cfg d z : zreach_from_ff cfg d z -> worker_idle2 z ->
  length (w_files (z_w z)) = 1%nat -> clean_end z.
Proof. intros Hff Hi H1. split; [apply (ff_alive_from _ _ _ Hff)|split; assumption]. Qed.

(* ================================================================== after a machine crash *)
(* after a reboot everything that is on disk is durable *)
Definition reboot (d : disk) : disk :=
  map (fun f => mkFile (f_id f) (f_data f) (N.of_nat (length (f_data f)))) d.

Lemma sorted_same_ids : forall d d', map f_id d = map f_id d' -> disk_sorted d -> disk_sorted d'.
Proof.
  unfold disk_sorted. induction d as [|f r IH]; intros [|f' r'] E S; cbn [map] in E; try discriminate E.
  - constructor.
  - injection E as E1 E2. apply StronglySorted_inv in S. destruct S as [S F].
    constructor; [apply IH; assumption|].
    assert (F1 : Forall (N.lt (f_id f)) (map f_id r)) by (rewrite Forall_map; exact F).
    rewrite E2, Forall_map in F1. unfold file_lt. rewrite <- E1. exact F1.
Qed.

Lemma Forall_removelast {A} (P : A -> Prop) : forall l, Forall P l -> Forall P (removelast l).
Proof.
  induction l as [|a l IH]; intros H; [constructor|]. cbn [removelast].
  inversion H; subst. destruct l; [constructor|]. constructor; [assumption|apply IH; assumption].
Qed.

Lemma reboot_ids d : map f_id (reboot d) = map f_id d.
Proof. unfold reboot. rewrite map_map. reflexivity. Qed.

Lemma image_ids z d' : crash_image z d' -> map f_id d' = map f_id (z_disk z).
Proof.
  unfold crash_image. intros H. induction H as [|f f' l l' [E _] _ IH]; [reflexivity|].
  cbn [map]. rewrite E, IH. reflexivity.
Qed.

Lemma reboot_full d : Forall (fun f => f_synced f = N.of_nat (length (f_data f))) (reboot d).
Proof. unfold reboot. rewrite Forall_map. apply Forall_forall. intros f _. reflexivity. Qed.

(* any directory with the file names of a sorted one is good after a reboot; in particular
   every crash image of a reachable state (no fault-freeness, any point of the run) *)
Lemma reboot_good d0 d' : disk_sorted d0 -> map f_id d' = map f_id d0 ->
  dir_wf (reboot d') /\ older_synced (reboot d') /\ disk_sorted (reboot d').
Proof.
  intros S E.
  assert (S' : disk_sorted (reboot d')).
  { apply (sorted_same_ids d0); [rewrite reboot_ids; symmetry; exact E|exact S]. }
  split; [split; [exact S'|]|split; [|exact S']].
  - eapply Forall_impl; [|apply reboot_full]. intros f H. unfold synced_le. rewrite H. apply N.le_refl.
  - apply Forall_removelast, reboot_full.
Qed.

Theorem reboot_good_dir : forall cfg z1 d',
  zreach cfg z1 -> crash_image z1 d' ->
  dir_wf (reboot d') /\ older_synced (reboot d') /\ disk_sorted (reboot d').
Proof.
  intros cfg z1 d' Hr Hi. apply (reboot_good (z_disk z1)); [|apply image_ids; exact Hi].
  apply AD.b_sorted, AD.f_b. apply (CrashSteps.full_reach cfg z1 Hr).
Qed.

(* ... so whenever the next instance opens on the rebooted directory (C05_recovers_outside_known
   says when it does on [d']; [open_dir_reboot] below: opening ignores the synced marks),
   everything it reaches satisfies the contracts *)
Theorem C05_next_instance_contracts : forall cfg cfg' z1 d' z2,
  zreach cfg z1 -> crash_image z1 d' -> zreach_from cfg' (reboot d') z2 -> contracts z2.
Proof.
  intros cfg cfg' z1 d' z2 Hr Hi H2. destruct (reboot_good_dir cfg z1 d' Hr Hi) as (Hwf & Hold & _).
  apply (contracts_from cfg' (reboot d') z2 Hwf Hold H2).
Qed.

(* the same from any good directory: crash images of later incarnations *)
Theorem reboot_good_dir_from : forall cfg d z1 d',
  dir_wf d -> older_synced d -> zreach_from cfg d z1 -> crash_image z1 d' ->
  dir_wf (reboot d') /\ older_synced (reboot d') /\ disk_sorted (reboot d').
Proof.
  intros cfg d z1 d' Hwf Hold Hr Hi. apply (reboot_good (z_disk z1)); [|apply image_ids; exact Hi].
  apply AD.b_sorted, AD.f_b. apply (full_from_reach cfg d z1 Hwf Hold Hr).
Qed.

(* ------------------------------------------------------------------ opening ignores the synced marks *)
Definition feq (f g : file) : Prop := f_id f = f_id g /\ f_data f = f_data g.
Definition deq (d1 d2 : disk) : Prop := Forall2 feq d1 d2.

Lemma deq_put f g d1 d2 : feq f g -> deq d1 d2 -> deq (disk_put f d1) (disk_put g d2).
Proof.
  intros [Ei Ed] H. induction H as [|a b l1 l2 [Ai Ad] Hl IH]; cbn [disk_put].
  - constructor; [split; assumption|constructor].
  - rewrite <- Ei, <- Ai. destruct (N.compare (f_id f) (f_id a)).
    + constructor; [split; assumption|exact Hl].
    + constructor; [split; assumption|]. constructor; [split; assumption|exact Hl].
    + constructor; [split; assumption|exact IH].
Qed.

Lemma deq_remove id d1 d2 : deq d1 d2 -> deq (disk_remove id d1) (disk_remove id d2).
Proof.
  intros H. unfold disk_remove. induction H as [|a b l1 l2 [Ai Ad] Hl IH]; cbn [filter]; [constructor|].
  rewrite <- Ai. destruct (negb (N.eqb id (f_id a))); [constructor; [split; assumption|exact IH]|exact IH].
Qed.

Lemma deq_get id d1 d2 : deq d1 d2 ->
  match disk_get id d1, disk_get id d2 with
  | Some f, Some g => feq f g
  | None, None => True
  | _, _ => False
  end.
Proof.
  intros H. induction H as [|a b l1 l2 [Ai Ad] Hl IH]; cbn [disk_get]; [exact I|].
  rewrite <- Ai. destruct (N.eqb id (f_id a)); [split; assumption|exact IH].
Qed.

Record aeqd (a1 a2 : open_acc) : Prop := mkAeqd {
  ad_sm : oa_sm a1 = oa_sm a2;
  ad_closed : oa_closed a1 = oa_closed a2;
  ad_prev : oa_prev_end a1 = oa_prev_end a2;
  ad_last : oa_last a1 = oa_last a2;
  ad_disk : deq (oa_disk a1) (oa_disk a2) }.

Definition lres_eqd (r1 r2 : open_acc + (err * disk)) : Prop :=
  match r1, r2 with
  | inl a, inl b => aeqd a b
  | inr (e1, d1), inr (e2, d2) => e1 = e2 /\ deq d1 d2
  | _, _ => False
  end.

Lemma open_loop_deq cfg : forall fs1 fs2 a1 a2, deq fs1 fs2 -> aeqd a1 a2 ->
  lres_eqd (open_loop cfg fs1 a1) (open_loop cfg fs2 a2).
Proof.
  intros fs1 fs2 a1 a2 H. revert a1 a2. induction H as [|f g r1 r2 [Ei Ed] Hr IH]; intros a1 a2 HA.
  - cbn [open_loop lres_eqd]. exact HA.
  - pose proof HA as [Hs Hc Hp Hla Hd].
    cbn [open_loop]. cbv zeta. rewrite <- Ei, <- Ed, Hp, Hs, Hc, Hla.
    destruct (match oa_prev_end a2 with Some p => negb (N.eqb p (f_id f)) | None => false end);
      [split; [reflexivity|exact Hd]|].
    destruct (chunk_open cfg (f_id f) (f_data f)) as [oc|e]; [|split; [reflexivity|exact Hd]].
    set (d1 := if oc_truncated oc then _ else oa_disk a1).
    set (d2 := if oc_truncated oc then _ else oa_disk a2).
    assert (Hd12 : deq d1 d2).
    { unfold d1, d2. destruct (oc_truncated oc); [|exact Hd]. apply deq_put; [split; reflexivity|exact Hd]. }
    set (sa := mkSM _ _ _).
    assert (HB : lres_eqd
              match replay sa (f_id f) (f_id f) (oc_records oc) (ck_ends (oc_chunk oc)) with
              | (s1, Some e) => inr (e, d1)
              | (s1, None) =>
                open_loop cfg r1
                  (mkOA s1 (closed_insert (mkClosed (oc_chunk oc) (m_rs s1) (oc_truncated oc)) (oa_closed a2))
                        (Some (ck_end (oc_chunk oc))) (r_last (m_rs s1)) d1)
              end
              match replay sa (f_id f) (f_id f) (oc_records oc) (ck_ends (oc_chunk oc)) with
              | (s1, Some e) => inr (e, d2)
              | (s1, None) =>
                open_loop cfg r2
                  (mkOA s1 (closed_insert (mkClosed (oc_chunk oc) (m_rs s1) (oc_truncated oc)) (oa_closed a2))
                        (Some (ck_end (oc_chunk oc))) (r_last (m_rs s1)) d2)
              end).
    { destruct (replay sa _ _ _ _) as [ta [e|]]; [split; [reflexivity|exact Hd12]|].
      apply IH. constructor; cbn [oa_sm oa_closed oa_prev_end oa_last oa_disk]; try reflexivity. exact Hd12. }
    destruct (ck_ends (oc_chunk oc)) as [|e0 ends0].
    + destruct r1 as [|f' r1']; destruct r2 as [|g' r2']; try (inversion Hr; fail); try exact HB.
      cbn [lres_eqd]. constructor; cbn [oa_sm oa_closed oa_prev_end oa_last oa_disk]; try assumption; try reflexivity.
      apply deq_remove. exact Hd12.
    + exact HB.
Qed.

(* the two results have the same core, worker files, queue and acknowledgements; the
   directories differ in the synced marks only; a failed open fails the same way *)
Theorem open_dir_deq : forall cfg d1 d2, deq d1 d2 ->
  match open_dir cfg d1, open_dir cfg d2 with
  | OpenOk y1, OpenOk y2 =>
    y_core y1 = y_core y2 /\ y_queue y1 = y_queue y2 /\ y_files y1 = y_files y2 /\
    y_acks y1 = y_acks y2 /\ deq (y_disk y1) (y_disk y2)
  | OpenErr e1 r1, OpenErr e2 r2 => e1 = e2 /\ deq r1 r2
  | _, _ => False
  end.
Proof.
  intros cfg d1 d2 H. unfold open_dir.
  assert (HA : aeqd (mkOA (sm_new cfg) [] None None d1) (mkOA (sm_new cfg) [] None None d2)).
  { constructor; try reflexivity. exact H. }
  pose proof (open_loop_deq cfg d1 d2 _ _ H HA) as HL. unfold lres_eqd in HL.
  destruct (open_loop cfg d1 _) as [a|[e1 r1]]; destruct (open_loop cfg d2 _) as [b|[e2 r2]]; try contradiction.
  - destruct HL as [Hs Hc Hp Hla Hd]. rewrite Hc, Hs, Hp.
    destruct (match split_last (oa_closed b) with
              | Some (init, lastc) => if cl_truncated lastc then None else Some (init, lastc)
              | None => None end) as [[init lastc]|].
    + cbn [y_core y_queue y_files y_acks y_disk]. repeat split. exact Hd.
    + pose proof (deq_get (match oa_prev_end b with Some p => p | None => 0 end) _ _ Hd) as Hg.
      destruct (disk_get _ (oa_disk a)); destruct (disk_get _ (oa_disk b)); try contradiction.
      * split; [reflexivity|exact Hd].
      * cbn [y_core y_queue y_files y_acks y_disk]. repeat split. apply deq_put; [split; reflexivity|exact Hd].
  - exact HL.
Qed.

Lemma deq_reboot d : deq (reboot d) d.
Proof. unfold deq, reboot. induction d as [|f d IH]; cbn [map]; constructor; [split; reflexivity|exact IH]. Qed.

Corollary open_dir_reboot : forall cfg d,
  match open_dir cfg (reboot d), open_dir cfg d with
  | OpenOk y1, OpenOk y2 =>
    y_core y1 = y_core y2 /\ y_queue y1 = y_queue y2 /\ y_files y1 = y_files y2 /\
    y_acks y1 = y_acks y2 /\ deq (y_disk y1) (y_disk y2)
  | OpenErr e1 r1, OpenErr e2 r2 => e1 = e2 /\ deq r1 r2
  | _, _ => False
  end.
Proof. intros cfg d. apply open_dir_deq, deq_reboot. Qed.

Theorem C05_reboot_next_instance : forall cfg cfg' z1 d',
  zreach cfg z1 -> CrashSteps.hist_wf z1 -> crash_image z1 d' ->
  ~ CrashRecover.gap_class d' -> c_truncate cfg' = true ->
  exists z0, zinit cfg' (reboot d') = Some z0 /\
    forall z2, zreach_from cfg' (reboot d') z2 -> contracts z2.
Proof.
  intros cfg cfg' z1 d' Hr Hw Hi Hg Ht.
  destruct (CrashRecover.C05_recovers_outside_known cfg cfg' z1 d' Hr Hw Hi Hg Ht) as (y' & Ho & _).
  pose proof (open_dir_reboot cfg' d') as H. rewrite Ho in H.
  destruct (open_dir cfg' (reboot d')) as [y1|e r] eqn:E1; [|contradiction].
  exists (sys2_of y1). split; [unfold zinit; rewrite E1; reflexivity|].
  intros z2 H2. apply (C05_next_instance_contracts cfg cfg' z1 d' z2 Hr Hi H2).
Qed.

(* ================================================================== non-vacuity *)
(* a deterministic fault-free schedule: after each API call the pending effects are
   performed and the worker runs until it is idle *)
Definition step_ev (z : sys2) : option zev :=
  match z_todo z with
  | _ :: _ => Some ZEff
  | [] =>
    match w_batch (z_w z) with
    | Some _ => Some (ZWork true)
    | None => match z_queue z with _ :: _ => Some (ZRecv 0 false) | [] => None end
    end
  end.
Fixpoint settle (fuel : nat) (z : sys2) : list zev * sys2 :=
  match fuel with
  | O => ([], z)
  | S n =>
    match step_ev z with
    | None => ([], z)
    | Some e =>
      match zstep z e with
      | Some (z', _) => let '(es, zf) := settle n z' in (e :: es, zf)
      | None => ([], z)
      end
    end
  end.
Fixpoint sched (fuel : nat) (z : sys2) (calls : list zev) : list zev :=
  match calls with
  | [] => []
  | c :: r =>
    match zstep z c with
    | None => [c]
    | Some (z', _) => let '(es, zf) := settle fuel z' in c :: es ++ sched fuel zf r
    end
  end.

(* fault-freeness, idleness and the drop alone do not make the worker track one file: a
   rotation not followed by a flush leaves two (the older one is synced all the same,
   but the invariant [AckDurable.cinv] does not record that) *)
Definition w2_cfg : config := mkConfig 10 1000 2 1000 true.
Definition w2_events : list zev :=
  sched 100 (zstart w2_cfg) [ZCall (OW (OAppend [((1, 0), [])])); ZDrop].

Example ff_idle_two_files : exists z,
  zreach_ff w2_cfg z /\ z_dropped z = true /\ worker_idle2 z /\
  map wf_id (w_files (z_w z)) = [0; 50] /\ older_synced (z_disk z).
Proof.
  destruct (zrun (zstart w2_cfg) w2_events) as [[z vis]|] eqn:E; [|vm_compute in E; discriminate E].
  exists z. split.
  { exists (zstart w2_cfg), w2_events, vis. split; [reflexivity|]. split; [vm_compute; reflexivity|exact E]. }
  vm_compute in E. inversion E; subst z vis; clear E.
  split; [reflexivity|]. split; [repeat split|]. split; [reflexivity|].
  vm_compute. repeat constructor.
Qed.

(* two incarnations.  Instance 1 (two records per chunk): two appends, each filling a chunk
   (two rotations), flush, drop; the worker drains.  Instance 2 on its directory (three
   records per chunk, zero-size cache): append, flush with callback (acknowledged), purge
   of (1,0) (fills the chunk: rotation; the oldest chunk becomes obsolete), flush: the
   file 0 is unlinked. *)
Definition d2_cfg1 : config := mkConfig 10 1000 2 1000 true.
Definition d2_cfg2 : config := mkConfig 0 0 3 1000 true.
Definition d2_events1 : list zev :=
  sched 100 (zstart d2_cfg1)
    [ZCall (OW (OAppend [((1, 0), [])])); ZCall (OW (OAppend [((1, 1), [])])); ZCall (OFlush false); ZDrop].
Definition d2_dir : disk :=
  match zrun (zstart d2_cfg1) d2_events1 with Some (z, _) => z_disk z | None => [] end.
Definition d2_events2 : list zev :=
  match zinit d2_cfg2 d2_dir with
  | Some z0 => sched 100 z0 [ZCall (OW (OAppend [((1, 2), [])])); ZCall (OFlush true);
                             ZCall (OW (OPurge (1, 0))); ZCall (OFlush false)]
  | None => []
  end.

Lemma d2_chain : exists zl,
  chain [] [(d2_cfg1, d2_events1); (d2_cfg2, d2_events2)] zl /\
  map f_id d2_dir = [0; 50; 116] /\
  map f_id (z_disk zl) = [50; 116; 210] /\ disk_get 0 (z_disk zl) = None /\
  z_acks zl = [(0, true)] /\
  g_flushed (z_ghost zl) = [(Some 0, 182, 1%nat); (None, 260, 2%nat)] /\
  g_removals (z_ghost zl) = [([0], 260)] /\
  g_created (z_ghost zl) = [0; 50; 116; 210].
Proof.
  eexists. split.
  { cbn [chain]. eexists. eexists. eexists. split; [reflexivity|]. split; [vm_compute; reflexivity|].
    split; [repeat split; vm_compute; reflexivity|].
    eexists. eexists. eexists. split; [vm_compute; reflexivity|]. split; [vm_compute; reflexivity|].
    reflexivity. }
  repeat split; vm_compute; reflexivity.
Qed.

Example two_incarnations : exists zl,
  chain [] [(d2_cfg1, d2_events1); (d2_cfg2, d2_events2)] zl /\
  forallb ev_fault_free (d2_events1 ++ d2_events2) = true /\ last d2_events1 ZEff = ZDrop /\
  (* the contracts of the second instance, instantiated *)
  acked_durable zl /\ removed_after_durable zl /\ files_contiguous zl /\ acks_in_order zl /\
  Forall (fun f => (f_synced f <= N.of_nat (length (f_data f)))%N) (z_disk zl) /\
  In (0, true) (z_acks zl) /\ durable_upto (z_disk zl) 182 /\
  disk_get 0 (z_disk zl) = None /\ durable_upto (z_disk zl) 260.
Proof.
  destruct d2_chain as (zl & Hc & _ & Hids & H0 & Ha & Hf & Hrm & _).
  exists zl. split; [exact Hc|]. split; [vm_compute; reflexivity|]. split; [vm_compute; reflexivity|].
  destruct (C14_incarnations_contracts _ _ Hc) as (K1 & K2 & K3 & K4 & K5).
  split; [exact K1|]. split; [exact K2|]. split; [exact K3|]. split; [exact K4|]. split; [exact K5|].
  assert (Hack : In (0, true) (z_acks zl)) by (rewrite Ha; left; reflexivity).
  split; [exact Hack|]. split.
  - apply (K1 0 182 1%nat); [rewrite Hf; left; reflexivity|exact Hack].
  - split; [exact H0|]. apply (K2 [0] 260 0); [rewrite Hrm; left; reflexivity|left; reflexivity|exact H0].
Qed.

Print Assumptions idle_leaves_good_dir_from.
Print Assumptions drop_leaves_good_dir.
Print Assumptions C14_next_instance_contracts.
Print Assumptions C14_next_instance_starts.
Print Assumptions chain_contracts.
Print Assumptions C14_incarnations_contracts.
Print Assumptions reboot_good_dir.
Print Assumptions C05_next_instance_contracts.
Print Assumptions open_dir_deq.
Print Assumptions C05_reboot_next_instance.
Print Assumptions ff_idle_two_files.
Print Assumptions two_incarnations.
