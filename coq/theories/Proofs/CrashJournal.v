(* C03/C05, part A (caller side): the L2 journal invariant and what one write call,
   one flush call do to it.  The ghost journal [G] lists every chunk file ever created
   (or about to be created by the call in progress) with its records. *)
From Coq Require Import List NArith Bool Lia Arith Sorting.Sorted.
From Coq Require Import ZifyBool ZifyN ZifyNat.
From Coq.Strings Require Import Byte.
From RaftLog Require Import Base.Bytes Model.Types Model.Codec Model.Cache Model.Core
  Model.Recover Model.Run Model.Sys Spec.Durable.
From RaftLog Require Import Proofs.CodecFacts Proofs.NoPanic Proofs.JournalDisk Proofs.JournalChunk
  Proofs.JournalFacts.
From RaftLog Require Proofs.SmFacts.
From RaftLog Require Import Proofs.CrashBase.
Import ListNotations.
Local Open Scope N_scope.
Local Arguments N.add : simpl never.
Local Arguments N.sub : simpl never.
Local Arguments N.mul : simpl never.
Local Arguments N.eqb : simpl never.
Local Arguments N.ltb : simpl never.
Local Arguments N.leb : simpl never.
Local Arguments N.compare : simpl never.
Local Arguments N.of_nat : simpl never.
Local Arguments enc_record : simpl never.

(* ------------------------------------------------------------------ the invariant, caller side *)
Definition gfile_ok (g : jfile) : Prop :=
  Forall wf_record (snd g) /\ exists st tl, snd g = RState st :: tl.

Record GI (k : core) (cr : list N) (t : list xeff) (G : list jfile) : Prop := mkGI {
  gi_jinv : jinv k (chunk_ids k) (gbytes G);
  gi_ids : map fst G = cr ++ creates t;
  gi_sorted : StronglySorted N.lt (map fst G);
  gi_ok : Forall gfile_ok G;
  gi_abut : RF.Abut G;
  gi_chain : RS.Chain (m_rs (k_sm k)) G;
  gi_last : exists G0 rs, G = G0 ++ [(ck_id (k_open k), rs)];
  gi_hd : incl (hd_ids t) (map fst G) }.

(* every present (or about to be created) file, with the heads still to be written by
   the caller, holds a prefix of its journal file *)
Definition HW (d : disk) (t : list xeff) (G : list jfile) : Prop :=
  forall id, In id (map f_id d ++ creates t) ->
             bprefix (data_of d id ++ theads t id) (gbytes G id).

Definition dle (k : core) (d : disk) : Prop := Forall (fun f => f_id f <= ck_id (k_open k)) d.

(* exact byte accounting while the worker is alive: [c0] is the worker's newest file,
   [S] everything still to be carried out, in order *)
Record EI (k : core) (d : disk) (c0 : N) (S : list xeff) (G : list jfile) : Prop := mkEI {
  ei_fcur : fcur c0 S = ck_id (k_open k);
  ei_E : forall id, In id (map f_id d ++ creates S) ->
         data_of d id ++ pw c0 S id ++ (if N.eqb (ck_id (k_open k)) id then k_pending k else [])
         = gbytes G id;
  ei_hf : hf [c0] S;
  ei_bnd : Forall (fun c => c <= ck_id (k_open k)) (seen_of [c0] S) }.

(* ------------------------------------------------------------------ Abut *)
Lemma Abut_last_indep G0 o x y : RF.Abut (G0 ++ [(o, x)]) -> RF.Abut (G0 ++ [(o, y)]).
Proof.
  induction G0 as [|g G0 IH]; intros H; simpl in *; [auto|].
  destruct H as [H1 H2]. split; [|now apply IH].
  destruct G0 as [|g' G0']; simpl in *; exact H1.
Qed.

Lemma Abut_snoc G0 g h : RF.Abut (G0 ++ [g]) -> fst h = fst g + RF.glen g -> RF.Abut ((G0 ++ [g]) ++ [h]).
Proof.
  induction G0 as [|a G0 IH]; intros H E; simpl in *; [auto|].
  destruct H as [H1 H2]. split; [|now apply IH].
  destruct G0 as [|g' G0']; simpl in *; exact H1.
Qed.

Lemma gbytes_last G0 o rs : StronglySorted N.lt (map fst (G0 ++ [(o, rs)])) ->
  gbytes (G0 ++ [(o, rs)]) o = encs rs.
Proof. intros H. unfold gbytes. now rewrite glook_last. Qed.

Lemma gbytes_last_other G0 o rs rs' id : id <> o ->
  gbytes (G0 ++ [(o, rs')]) id = gbytes (G0 ++ [(o, rs)]) id.
Proof. intros H. unfold gbytes. now rewrite (glook_last_other G0 o rs rs' id H). Qed.

Lemma gbytes_snoc_new (G : list jfile) off rs : ~ In off (map fst G) ->
  gbytes (G ++ [(off, rs)]) off = encs rs.
Proof. intros H. unfold gbytes. pose proof (glook_snoc_new G (off, rs) H) as E. simpl in E. now rewrite E. Qed.

Lemma gbytes_snoc_other (G : list jfile) off rs id : id <> off ->
  gbytes (G ++ [(off, rs)]) id = gbytes G id.
Proof. intros H. unfold gbytes. pose proof (glook_snoc_other G (off, rs) id H) as E. now rewrite E. Qed.

Lemma map_fst_last (G0 : list jfile) o x y : map fst (G0 ++ [(o, x)]) = map fst (G0 ++ [(o, y)]).
Proof. rewrite !map_app. reflexivity. Qed.

(* ------------------------------------------------------------------ one accepted record *)
Lemma GI_record k cr t G0 rs r sm1 :
  let o := ck_id (k_open k) in
  GI k cr t (G0 ++ [(o, rs)]) -> wf_record r ->
  rs_validate (m_rs (k_sm k)) r = None ->
  sm_apply (k_sm k) r o (ck_end (k_open k), rec_size r) = (sm1, None) ->
  GI (appended k r sm1) cr t (G0 ++ [(o, rs ++ [r])]).
Proof.
  intros o [J Hi Hs Hok Hab Hch _ Hhd] Hr Hv Hsm.
  assert (Hs' : StronglySorted N.lt (map fst (G0 ++ [(o, rs ++ [r])]))).
  { now rewrite (map_fst_last G0 o _ rs). }
  constructor.
  - change (chunk_ids (appended k r sm1)) with (chunk_ids k).
    apply (jinv_append k (chunk_ids k) (gbytes (G0 ++ [(o, rs)]))); try assumption.
    + fold o. rewrite !gbytes_last by assumption. rewrite encs_app, encs_one. reflexivity.
    + intros j Hj. now apply gbytes_last_other.
  - now rewrite (map_fst_last G0 o _ rs).
  - exact Hs'.
  - apply Forall_app in Hok. destruct Hok as [Ho1 Ho2]. apply Forall_app. split; [exact Ho1|].
    inversion Ho2 as [|g l [Hw (st & tl & E)] _]; subst. simpl in *. constructor; [|constructor].
    split; simpl.
    + apply Forall_app. split; [exact Hw|]. now repeat constructor.
    + exists st, (tl ++ [r]). now rewrite E.
  - eapply Abut_last_indep; eauto.
  - simpl. apply (RS.Chain_record G0 o rs r (m_rs (k_sm k))); [exact Hch|].
    apply (sm_apply_ok _ _ _ _ _ _ Hv Hsm).
  - exists G0, (rs ++ [r]). reflexivity.
  - now rewrite (map_fst_last G0 o _ rs).
Qed.

Lemma HW_record d t G0 o rs r : StronglySorted N.lt (map fst (G0 ++ [(o, rs)])) ->
  HW d t (G0 ++ [(o, rs)]) -> HW d t (G0 ++ [(o, rs ++ [r])]).
Proof.
  intros Hs H id Hin. specialize (H id Hin). destruct (N.eq_dec id o) as [->|Hne].
  - rewrite gbytes_last in * by (try assumption; now rewrite (map_fst_last G0 o _ rs)).
    rewrite encs_app. now apply bprefix_app_l.
  - now rewrite (gbytes_last_other G0 o rs).
Qed.

Lemma EI_record k d c0 S G0 rs r sm1 :
  let o := ck_id (k_open k) in
  StronglySorted N.lt (map fst (G0 ++ [(o, rs)])) ->
  EI k d c0 S (G0 ++ [(o, rs)]) -> EI (appended k r sm1) d c0 S (G0 ++ [(o, rs ++ [r])]).
Proof.
  intros o Hs [Hf HE Hh Hb]. constructor.
  - exact Hf.
  - intros id Hin. specialize (HE id Hin).
    change (ck_id (k_open (appended k r sm1))) with o.
    change (k_pending (appended k r sm1)) with (k_pending k ++ enc_record r).
    fold o in HE.
    destruct (N.eqb_spec o id) as [E|Hne].
    + subst id. rewrite gbytes_last in * by (try assumption; now rewrite (map_fst_last G0 o _ rs)).
      rewrite encs_app, encs_one, <- HE, <- !app_assoc. reflexivity.
    + rewrite (gbytes_last_other G0 o rs) by congruence. exact HE.
  - exact Hh.
  - exact Hb.
Qed.

(* ------------------------------------------------------------------ rotation *)
Definition rot_x (k1 : core) : list xeff := flat_map expand_eff (rotate_effs k1).

Lemma rot_x_eq k1 :
  let off := ck_end (k_open k1) in
  rot_x k1 = [XCreate off; XWriteHead off (enc_record (RState (m_rs (k_sm k1))))] ++
             map XSend (match k_pending k1 with [] => [] | _ => [WWrite off (k_pending k1) None] end) ++
             [XSend (WAppendFile off (r_last (m_rs (k_sm k1))))].
Proof. unfold rot_x, rotate_effs. simpl. destruct (k_pending k1); reflexivity. Qed.

Lemma GI_rotate k1 cr t G :
  let off := ck_end (k_open k1) in
  GI k1 cr t G ->
  GI (rotated k1) cr (t ++ rot_x k1) (G ++ [(off, [RState (m_rs (k_sm k1))])]) /\
  ck_id (k_open k1) < off /\ ~ In off (map fst G).
Proof.
  intros off [J Hi Hs Hok Hab Hch (G0 & rs & EG) Hhd].
  set (o := ck_id (k_open k1)) in *. set (st := m_rs (k_sm k1)).
  assert (Hoff : off = o + blen (gbytes G o)) by apply (ji_open_end _ _ _ J).
  assert (Hlt : o < off).
  { pose proof (chunk_ok_nonempty _ _ (ji_open_ok _ _ _ J)). fold o in H. lia. }
  assert (Hmax : forall x, In x (map fst G) -> x <= o).
  { intros x Hx. rewrite EG, map_app in Hx, Hs. simpl in Hx, Hs. eapply ss_last_max; eauto. }
  assert (Hnin : ~ In off (map fst G)).
  { intros Hx. apply Hmax in Hx. lia. }
  assert (Hcr : creates (rot_x k1) = [off]).
  { rewrite rot_x_eq. fold off. unfold creates, AD.creates. rewrite !flat_map_app. simpl.
    destruct (k_pending k1); reflexivity. }
  assert (Hhi : hd_ids (rot_x k1) = [off]).
  { rewrite rot_x_eq. fold off. rewrite !hd_ids_app, hd_ids_sends. reflexivity. }
  split; [|split; assumption].
  constructor.
  - pose proof (jinv_rotate k1 (chunk_ids k1) (gbytes G)
                  (gbytes (G ++ [(off, [RState st])])) J) as JR.
    fold off in JR.
    assert (JR' : jinv (rotated k1) (chunk_ids k1 ++ [off]) (gbytes (G ++ [(off, [RState st])]))).
    { apply JR.
      - rewrite gbytes_snoc_new by exact Hnin. apply encs_one.
      - intros j Hj. now apply gbytes_snoc_other. }
    rewrite <- (ji_ids _ _ _ JR'). exact JR'.
  - rewrite map_app, Hi, creates_app, Hcr, <- app_assoc. reflexivity.
  - rewrite map_app. simpl. apply ss_app; [exact Hs|repeat constructor|].
    intros a b Ha [<-|[]]. apply Hmax in Ha. lia.
  - apply Forall_app. split; [exact Hok|]. constructor; [|constructor]. split; simpl.
    + constructor; [apply (ji_rs _ _ _ J)|constructor].
    + exists st, []. reflexivity.
  - rewrite EG in Hab |- *. apply Abut_snoc; [exact Hab|]. simpl. unfold RF.glen. simpl.
    rewrite Hoff, EG, gbytes_last by (rewrite <- EG; exact Hs). reflexivity.
  - simpl. apply RS.Chain_rotate; [rewrite EG; destruct G0; discriminate|exact Hch].
  - exists G, [RState st]. reflexivity.
  - rewrite hd_ids_app, Hhi, map_app. simpl. intros x Hx. apply in_app_or in Hx.
    apply in_or_app. destruct Hx as [Hx|Hx]; [left; now apply Hhd|right; exact Hx].
Qed.

Lemma HW_rotate k1 cr t G d :
  let off := ck_end (k_open k1) in
  GI k1 cr t G -> dle k1 d -> HW d t G ->
  HW d (t ++ rot_x k1) (G ++ [(off, [RState (m_rs (k_sm k1))])]).
Proof.
  intros off GIk Hd H.
  destruct (GI_rotate k1 cr t G GIk) as (_ & Hlt & Hnin). fold off in Hlt, Hnin.
  assert (Hcr : creates (rot_x k1) = [off]).
  { rewrite rot_x_eq. fold off. unfold creates, AD.creates. rewrite !flat_map_app. simpl.
    destruct (k_pending k1); reflexivity. }
  assert (Hth : forall id, theads (rot_x k1) id =
                 if N.eqb off id then enc_record (RState (m_rs (k_sm k1))) else []).
  { intros id. rewrite rot_x_eq. fold off. simpl. destruct (k_pending k1); simpl; now rewrite app_nil_r. }
  intros id Hin. rewrite creates_app, Hcr, app_assoc in Hin. apply in_app_or in Hin.
  rewrite theads_app, Hth. destruct (N.eqb_spec off id) as [<-|Hne].
  - assert (Hnd : ~ In off (map f_id d)).
    { intros Hx. apply in_map_iff in Hx. destruct Hx as (f & Ef & Hf).
      unfold dle in Hd. rewrite Forall_forall in Hd. specialize (Hd f Hf). lia. }
    rewrite (data_of_absent _ _ Hnd).
    rewrite theads_notin.
    + simpl. rewrite gbytes_snoc_new by exact Hnin. rewrite encs_one.
      apply bprefix_refl.
    + intros Hx. apply Hnin. apply (gi_hd _ _ _ _ GIk). exact Hx.
  - rewrite app_nil_r. destruct Hin as [Hin|[E|[]]]; [|congruence].
    rewrite gbytes_snoc_other by congruence. now apply H.
Qed.

Lemma EI_rotate k1 cr t G d c0 S :
  let off := ck_end (k_open k1) in
  GI k1 cr t G -> dle k1 d -> EI k1 d c0 S G ->
  EI (rotated k1) d c0 (S ++ rot_x k1) (G ++ [(off, [RState (m_rs (k_sm k1))])]).
Proof.
  intros off GIk Hd [Hf HE Hh Hb].
  destruct (GI_rotate k1 cr t G GIk) as (_ & Hlt & Hnin). fold off in Hlt, Hnin.
  set (o := ck_id (k_open k1)) in *. set (st := m_rs (k_sm k1)).
  assert (Hns : ~ In off (seen_of [c0] S)).
  { intros Hx. rewrite Forall_forall in Hb. specialize (Hb _ Hx). lia. }
  assert (Hcr : creates (rot_x k1) = [off]).
  { rewrite rot_x_eq. fold off. unfold creates, AD.creates. rewrite !flat_map_app. simpl.
    destruct (k_pending k1); reflexivity. }
  assert (Hpw : forall id, pw o (rot_x k1) id =
            (if N.eqb off id then enc_record (RState st) else []) ++
            (if N.eqb o id then k_pending k1 else [])).
  { intros id. rewrite rot_x_eq. fold off. simpl. destruct (k_pending k1) as [|b p]; simpl.
    - destruct (N.eqb o id); reflexivity.
    - now rewrite app_nil_r. }
  assert (Hfc : fcur o (rot_x k1) = off).
  { rewrite rot_x_eq. fold off. simpl. rewrite fcur_app. destruct (k_pending k1); reflexivity. }
  assert (Hso : seen_of (seen_of [c0] S) (rot_x k1) = off :: off :: seen_of [c0] S).
  { rewrite rot_x_eq. fold off. simpl. rewrite seen_of_app. destruct (k_pending k1); reflexivity. }
  constructor.
  - rewrite fcur_app, Hf. fold o. rewrite Hfc. reflexivity.
  - intros id Hin. rewrite creates_app, Hcr, app_assoc in Hin. apply in_app_or in Hin.
    rewrite pw_app, Hf. fold o. rewrite Hpw.
    change (ck_id (k_open (rotated k1))) with off. change (k_pending (rotated k1)) with (@nil byte).
    destruct (N.eqb_spec off id) as [<-|Hne].
    + assert (Hnd : ~ In off (map f_id d)).
      { intros Hx. apply in_map_iff in Hx. destruct Hx as (f & Ef & Hfd).
        unfold dle in Hd. rewrite Forall_forall in Hd. specialize (Hd f Hfd). fold o in Hd. lia. }
      rewrite (data_of_absent _ _ Hnd), (pw_no_target S c0 [c0] off (or_introl eq_refl) Hns).
      destruct (N.eqb_spec o off); [lia|]. simpl. rewrite !app_nil_r.
      rewrite gbytes_snoc_new by exact Hnin. now rewrite encs_one.
    + destruct Hin as [Hin|[E|[]]]; [|congruence].
      specialize (HE id Hin). fold o in HE. simpl. rewrite app_nil_r.
      rewrite gbytes_snoc_other by congruence. rewrite <- HE. reflexivity.
  - apply hf_app. split; [exact Hh|]. rewrite rot_x_eq. fold off. simpl. split; [exact Hns|].
    rewrite hf_app. split; [destruct (k_pending k1); exact I|exact I].
  - rewrite seen_of_app, Hso. change (ck_id (k_open (rotated k1))) with off.
    repeat constructor; try lia. eapply Forall_impl; [|exact Hb]. simpl. intros; lia.
Qed.

Lemma dle_mono k k' d : ck_id (k_open k) <= ck_id (k_open k') -> dle k d -> dle k' d.
Proof. intros H. unfold dle. apply Forall_impl. intros; lia. Qed.

Ltac split4 := split; [try assumption|split; [try assumption|split; [try assumption|try assumption]]].

(* ------------------------------------------------------------------ the journal as a function of the calls *)
(* a record is journalled iff it passes the index guard and the validation *)
Definition accepted (k : core) (r : record) : bool :=
  negb (index_limit r) &&
  match rs_validate (m_rs (k_sm k)) r with None => true | Some _ => false end.

Definition glast_app (G : list jfile) (r : record) : list jfile :=
  match rev G with
  | [] => []
  | (o, rs) :: Gr => rev Gr ++ [(o, rs ++ [r])]
  end.

Lemma glast_app_snoc G0 o rs r : glast_app (G0 ++ [(o, rs)]) r = G0 ++ [(o, rs ++ [r])].
Proof. unfold glast_app. rewrite rev_unit, rev_involutive. reflexivity. Qed.

(* the journal after record r has gone through append_and_apply in core k *)
Definition gnext (k : core) (r : record) (G : list jfile) : list jfile :=
  if accepted k r then
    let sm1 := fst (sm_apply (k_sm k) r (ck_id (k_open k)) (ck_end (k_open k), rec_size r)) in
    let k1 := appended k r sm1 in
    let G1 := glast_app G r in
    if is_full (k_cfg k1) (k_open k1) then G1 ++ [(ck_end (k_open k1), [RState (m_rs sm1)])] else G1
  else G.

Lemma aaa_res k r k' w effs : append_and_apply k r = Ret (k', w, effs) ->
  (accepted k r = false /\ k' = k /\ effs = [] /\ exists e, w = WErr e) \/
  (accepted k r = true /\ exists sm1,
     rs_validate (m_rs (k_sm k)) r = None /\ index_limit r = false /\
     sm_apply (k_sm k) r (ck_id (k_open k)) (ck_end (k_open k), rec_size r) = (sm1, None) /\
     w = WOk (ck_end (k_open k)) (rec_size r) /\
     try_close (appended k r sm1) = Ret (k', effs)).
Proof.
  intros H. unfold accepted.
  destruct (index_limit r) eqn:Eil.
  { left. unfold append_and_apply in H. rewrite Eil in H. inversion H; subst. simpl. eauto 6. }
  destruct (rs_validate (m_rs (k_sm k)) r) as [e|] eqn:Hv.
  { left. unfold append_and_apply in H. rewrite Eil, Hv in H. inversion H; subst. simpl. eauto 6. }
  right. split; [reflexivity|].
  pose proof (SmFacts.aaa_ok k r Eil Hv) as (k2 & off & len & ef & c & seg & Ha & _).
  rewrite H in Ha. inversion Ha; subst k2 w ef. clear Ha.
  apply append_and_apply_cases in H. destruct H as [(_ & _ & e & He)|(sm1 & _ & Hsm & Ew & Htc)].
  - discriminate.
  - exists sm1. auto.
Qed.

Lemma gnext_refused k r G : accepted k r = false -> gnext k r G = G.
Proof. intros H. unfold gnext. now rewrite H. Qed.

(* ------------------------------------------------------------------ one record through append_and_apply *)
Definition estep (k k' : core) (d : disk) (G G' : list jfile) (X : list xeff) : Prop :=
  forall c0 S, EI k d c0 S G -> EI k' d c0 (S ++ X) G'.

Definition wres_step (k k' : core) (cr : list N) (t : list xeff) (d : disk) (G : list jfile)
  (X : list xeff) (G' : list jfile) : Prop :=
  GI k' cr (t ++ X) G' /\ HW d (t ++ X) G' /\ dle k' d /\ estep k k' d G G' X.

Lemma estep_trans k k1 k2 d G G1 G2 X1 X2 :
  estep k k1 d G G1 X1 -> estep k1 k2 d G1 G2 X2 -> estep k k2 d G G2 (X1 ++ X2).
Proof. intros H1 H2 c0 S HE. rewrite app_assoc. apply H2, H1, HE. Qed.

Lemma estep_refl k d G : estep k k d G G [].
Proof. intros c0 S HE. now rewrite app_nil_r. Qed.

Lemma wres_noop k cr t d G : GI k cr t G -> HW d t G -> dle k d -> wres_step k k cr t d G [] G.
Proof.
  intros. unfold wres_step. rewrite app_nil_r. split4. apply estep_refl.
Qed.

Lemma aa_step k cr t G d r k' w effs :
  GI k cr t G -> HW d t G -> dle k d -> wf_record r ->
  append_and_apply k r = Ret (k', w, effs) ->
  wres_step k k' cr t d G (flat_map expand_eff effs) (gnext k r G).
Proof.
  intros Gk Hw Hd Hr H.
  apply aaa_res in H. destruct H as [(Ea & -> & -> & _)|(Ea & sm1 & Hv & Eil & Hsm & _ & Htc)].
  - rewrite (gnext_refused _ _ _ Ea). now apply wres_noop.
  - destruct (gi_last _ _ _ _ Gk) as (G0 & rs & EG). subst G.
    set (o := ck_id (k_open k)) in *.
    pose proof (gi_sorted _ _ _ _ Gk) as Hs.
    pose proof (GI_record k cr t G0 rs r sm1 Gk Hr Hv Hsm) as G1.
    pose proof (HW_record d t G0 o rs r Hs Hw) as W1.
    assert (D1 : dle (appended k r sm1) d) by exact Hd.
    unfold gnext. rewrite Ea. fold o. rewrite Hsm. cbn [fst]. rewrite glast_app_snoc.
    eapply try_close_cases in Htc; [|reflexivity].
    destruct Htc as [(Ef & -> & ->)|(Ef & -> & ->)]; rewrite Ef.
    + unfold wres_step. simpl. rewrite app_nil_r. split4.
      intros c0 S HE. rewrite app_nil_r. now apply EI_record.
    + fold (rot_x (appended k r sm1)).
      destruct (GI_rotate _ cr t _ G1) as (G2 & Hlt & _).
      split; [exact G2|]. split; [eapply HW_rotate; eauto|]. split.
      * eapply dle_mono; [|exact D1]. change (ck_id (k_open (rotated (appended k r sm1))))
          with (ck_end (k_open (appended k r sm1))). lia.
      * intros c0 S HE. eapply EI_rotate; eauto. now apply EI_record.
Qed.

(* ------------------------------------------------------------------ a write call *)
(* the records that a write call tries to journal, in order (it stops at the first one
   that is refused) *)
Definition wrecs (k : core) (w : wop) : list record :=
  match w with
  | OVote v => [RVote v]
  | OAppend es => map (fun e => RAppend (fst e) (snd e)) es
  | OTruncate i =>
    let purged := r_purged (m_rs (k_sm k)) in
    if N.eqb i (next_index purged) then [RTrunc purged]
    else if N.eqb i 0 then []
    else match lm_get_id k (i - 1) with None => [] | Some id => [RTrunc (Some id)] end
  | OPurge upto =>
    if N.ltb (lid_index upto) (next_index (r_purged (m_rs (k_sm k)))) then [] else [RPurge upto]
  | OCommit id => [RCommit id]
  | OUser u => [RState (rs_set_user (m_rs (k_sm k)) u)]
  | OUpdateState st => [RState st]
  end.

Fixpoint gfold (k : core) (rs : list record) (G : list jfile) : list jfile :=
  match rs with
  | [] => G
  | r :: rest =>
    match append_and_apply k r with
    | Ret (k1, WOk _ _, _) => gfold k1 rest (gnext k r G)
    | _ => G
    end
  end.

Lemma gfold_one k r G : gfold k [r] G = gnext k r G.
Proof.
  simpl. destruct (append_and_apply k r) as [[[k1 w1] ef]|] eqn:E.
  - apply aaa_res in E. destruct E as [(Ea & _ & _ & e & ->)|(_ & sm1 & _ & _ & _ & -> & _)].
    + now rewrite gnext_refused.
    + reflexivity.
  - exfalso. eapply append_and_apply_no_panic; eauto.
Qed.

Lemma do_append_step es : forall k cr t G d acc effs0 k' w effs,
  Forall (fun e => wf_pair (fst e) /\ wf_bytes (snd e)) es ->
  GI k cr t G -> HW d t G -> dle k d ->
  do_append k es acc effs0 = Ret (k', w, effs) ->
  exists effs1, effs = effs0 ++ effs1 /\
    wres_step k k' cr t d G (flat_map expand_eff effs1)
              (gfold k (map (fun e => RAppend (fst e) (snd e)) es) G).
Proof.
  induction es as [|[id p] es IH]; intros k cr t G d acc effs0 k' w effs Hwf Gk Hw Hd H; simpl in H.
  - inversion H; subst. exists []. rewrite app_nil_r. split; [reflexivity|]. now apply wres_noop.
  - inversion Hwf as [|? ? Hw1 Hw2]; subst.
    destruct (append_and_apply k (RAppend id p)) as [[[k1 w1] ef]|] eqn:Ea; [|discriminate].
    destruct (aa_step k cr t G d (RAppend id p) k1 w1 ef Gk Hw Hd Hw1 Ea) as (Gk1 & W1 & D1 & E1).
    cbn [map fst snd gfold]. rewrite Ea.
    destruct w1 as [off len|e].
    + destruct (IH _ _ _ _ _ _ _ _ _ _ Hw2 Gk1 W1 D1 H) as (effs2 & E2 & (Gk2 & W2 & D2 & E2')).
      exists (ef ++ effs2). split; [rewrite E2, app_assoc; reflexivity|].
      unfold wres_step. rewrite flat_map_app, app_assoc. split4.
      eapply estep_trans; eauto.
    + inversion H; subst. exists ef. split; [reflexivity|].
      apply aaa_res in Ea. destruct Ea as [(Eacc & _)|(_ & sm1 & _ & _ & _ & Ew & _)]; [|discriminate].
      rewrite (gnext_refused _ _ _ Eacc) in *. unfold wres_step. split4.
Qed.

Lemma GI_purged k cr t G upto rm rest :
  GI k cr t G -> pop_obsolete upto (k_closed k) = (rm, rest) -> GI (purged_core k rm rest) cr t G.
Proof.
  intros [J Hi Hs Hok Hab Hch Hl Hhd] Hp.
  pose proof (jinv_purge k (chunk_ids k) (gbytes G) upto rm rest J Hp) as JP.
  constructor; try assumption. rewrite <- (ji_ids _ _ _ JP). exact JP.
Qed.

Lemma EI_core k k' d c0 S G : k_open k' = k_open k -> k_pending k' = k_pending k ->
  EI k d c0 S G -> EI k' d c0 S G.
Proof. intros Ho Hp [H1 H2 H3 H4]. constructor; rewrite ?Ho, ?Hp; assumption. Qed.

Lemma write_step k cr d G w k' res effs :
  GI k cr [] G -> HW d [] G -> dle k d -> wop_wf w ->
  do_write k w = Ret (k', res, effs) ->
  wres_step k k' cr [] d G (flat_map expand_eff effs) (gfold k (wrecs k w) G).
Proof.
  intros Gk Hw Hd Hwf H.
  pose proof (gi_jinv _ _ _ _ Gk) as J.
  pose proof (ji_rs _ _ _ J) as (Wv & Wl & Wc & Wp & Wu).
  assert (AA : forall r k1 w1 ef, wf_record r -> append_and_apply k r = Ret (k1, w1, ef) ->
               wres_step k k1 cr [] d G (flat_map expand_eff ef) (gfold k [r] G)).
  { intros r k1 w1 ef Hr Ha. rewrite gfold_one. exact (aa_step k cr [] G d r k1 w1 ef Gk Hw Hd Hr Ha). }
  destruct w as [v|es|i|upto|id|u|st]; simpl in H, Hwf; cbn [wrecs].
  - eapply AA; [|exact H]. exact Hwf.
  - destruct (wal_last_segment k) as [w0|]; [|discriminate].
    destruct (do_append_step es k cr [] G d _ _ _ _ _ Hwf Gk Hw Hd H) as (effs1 & E & Hstep).
    simpl in E. subst effs1. exact Hstep.
  - destruct (N.eqb i (next_index (r_purged (m_rs (k_sm k))))).
    { eapply AA; [|exact H]. exact Wp. }
    destruct (N.eqb i 0).
    { inversion H; subst. now apply wres_noop. }
    unfold lm_get_id in *.
    destruct (lm_get (i - 1) (m_log (k_sm k))) as [ld|] eqn:El.
    + apply lm_get_In in El. pose proof (ji_log _ _ _ J) as HL. rewrite Forall_forall in HL.
      destruct (HL _ El) as (Wd & _). simpl in Wd. eapply AA; [|exact H]. exact Wd.
    + inversion H; subst. now apply wres_noop.
  - destruct (N.ltb (lid_index upto) (next_index (r_purged (m_rs (k_sm k))))).
    { destruct (wal_last_segment k) as [w0|]; [|discriminate].
      inversion H; subst. now apply wres_noop. }
    destruct (append_and_apply k (RPurge upto)) as [[[k1 w1] ef]|] eqn:Ea; [|discriminate].
    destruct (AA (RPurge upto) _ _ _ Hwf Ea) as (Gk1 & W1 & D1 & E1).
    destruct w1 as [off len|e].
    + destruct (pop_obsolete upto (k_closed k1)) as [rm rest] eqn:Ep.
      inversion H; subst k' res effs. clear H.
      split; [exact (GI_purged _ _ _ _ _ _ _ Gk1 Ep)|]. split; [exact W1|].
      split; [exact D1|]. intros c0 S HE. eapply EI_core; [| |apply E1, HE]; reflexivity.
    + inversion H; subst. unfold wres_step. split4.
  - eapply AA; [|exact H]. exact Hwf.
  - eapply AA; [|exact H]. simpl. unfold wf_rstate. simpl. tauto.
  - eapply AA; [|exact H]. exact Hwf.
Qed.

(* ------------------------------------------------------------------ a flush call *)
Definition flush_x (k : core) (cb : bool) : list xeff :=
  flat_map expand_eff (snd (do_flush k cb)).

Lemma flush_x_eq k cb :
  flush_x k cb =
  map XSend (WWrite (ck_end (k_open k)) (k_pending k) (if cb then Some (k_next_cb k) else None) ::
             match k_removed k with [] => [] | ids => [WRemove ids] end).
Proof. unfold flush_x, do_flush. simpl. destruct (k_removed k); reflexivity. Qed.

Lemma flush_step k cr d G cb :
  GI k cr [] G -> HW d [] G -> dle k d ->
  wres_step k (fst (do_flush k cb)) cr [] d G (flush_x k cb) G.
Proof.
  intros [J Hi Hs Hok Hab Hch Hl Hhd] Hw Hd.
  assert (Hcr : creates (flush_x k cb) = []) by (rewrite flush_x_eq; apply creates_sends).
  assert (Hhi : hd_ids (flush_x k cb) = []) by (rewrite flush_x_eq; apply hd_ids_sends).
  assert (Hth : forall id, theads (flush_x k cb) id = []).
  { intros id. apply theads_notin. now rewrite Hhi. }
  split; [|split; [|split]].
  - simpl. constructor; try assumption.
    + apply (jinv_flush k (chunk_ids k) (gbytes G) (gbytes G) _ J). reflexivity.
    + now rewrite Hcr.
    + now rewrite Hhi.
  - intros id Hin. cbn [app] in Hin |- *. rewrite Hcr in Hin. rewrite Hth. apply Hw. exact Hin.
  - exact Hd.
  - intros c0 S [Hf HE Hh Hb].
    assert (Hfc : forall c, fcur c (flush_x k cb) = c).
    { intros c. rewrite flush_x_eq. simpl. destruct (k_removed k); reflexivity. }
    assert (Hso : forall s, seen_of s (flush_x k cb) = s).
    { intros s. rewrite flush_x_eq. simpl. destruct (k_removed k); reflexivity. }
    constructor; simpl.
    + now rewrite fcur_app, Hfc.
    + intros id Hin. rewrite creates_app, Hcr, app_nil_r in Hin. specialize (HE id Hin).
      assert (Hpwf : forall c, pw c (flush_x k cb) id = if N.eqb c id then k_pending k else []).
      { intros c. rewrite flush_x_eq. simpl. destruct (k_removed k); simpl; now rewrite app_nil_r. }
      rewrite pw_app, Hf, <- HE, Hpwf. f_equal. rewrite <- app_assoc. f_equal.
      destruct (N.eqb (ck_id (k_open k)) id); now rewrite app_nil_r.
    + apply hf_app. split; [exact Hh|]. rewrite flush_x_eq. simpl. destruct (k_removed k); exact I.
    + now rewrite seen_of_app, Hso.
Qed.

Lemma GI_eqj k k' cr t G : core_eqj k k' -> GI k cr t G -> GI k' cr t G.
Proof.
  intros Hc [J Hi Hs Hok Hab Hch Hl Hhd].
  pose proof Hc as (E1 & E2 & E3 & E4 & E5 & E6 & E7).
  constructor; try assumption.
  - replace (chunk_ids k') with (chunk_ids k).
    + eapply jinv_core_eqj; eauto.
    + unfold chunk_ids, closed_ids. now rewrite E2, E4, E5.
  - now rewrite E6.
  - now rewrite E2.
Qed.
