(* C05 (part B): recovery of crash images of the L2 system.
   - the shape of every file of a crash image (complete records of its journal file,
     then nothing, a torn record, or zeros from a record boundary): no partially
     written record becomes visible;
   - [gap_class]: an older file whose complete records do not reach the name of the
     next file (finding F3);
   - C05_recovers_outside_known, C05_refuted_gap. *)
From Coq Require Import List NArith Bool Lia Arith Sorting.Sorted.
From Coq Require Import ZifyBool ZifyN ZifyNat.
From Coq.Strings Require Import Byte.
From RaftLog Require Import Base.Bytes Model.Types Model.Codec Model.Cache Model.Core
  Model.Recover Model.Run Model.Sys Spec.Durable.
From RaftLog Require Import Proofs.CodecFacts Proofs.NoPanic Proofs.ScanFacts Proofs.RecoverFacts.
From RaftLog Require Proofs.CorruptFacts Proofs.PurgeFacts Proofs.JournalChunk Proofs.JournalFacts.
From RaftLog Require Import Proofs.CrashBase Proofs.CrashJournal Proofs.CrashSteps.
Import ListNotations.
Local Open Scope N_scope.
Local Arguments N.add : simpl never.
Local Arguments N.sub : simpl never.
Local Arguments N.mul : simpl never.
Local Arguments N.eqb : simpl never.
Local Arguments N.ltb : simpl never.
Local Arguments N.leb : simpl never.
Local Arguments N.compare : simpl never.
Local Arguments N.of_nat : simpl never.
Local Arguments enc_record : simpl never.

Lemma jencs_eq rs : JournalChunk.encs rs = encs rs.
Proof. reflexivity. Qed.

(* ------------------------------------------------------------------ records and lengths *)
Lemma encs_firstn_skipn j rs : encs rs = encs (firstn j rs) ++ encs (skipn j rs).
Proof. rewrite <- encs_app, firstn_skipn. reflexivity. Qed.

Lemma encs_firstn_full j rs :
  length (encs (firstn j rs)) = length (encs rs) -> firstn j rs = rs.
Proof.
  intros H. rewrite (encs_firstn_skipn j rs), app_length in H.
  destruct (skipn j rs) as [|r l] eqn:E.
  - rewrite <- (firstn_skipn j rs) at 2. rewrite E. now rewrite app_nil_r.
  - pose proof (CorruptFacts.encs_length_pos (r :: l) ltac:(discriminate)). lia.
Qed.

Lemma encs_firstn_le j rs : (length (encs (firstn j rs)) <= length (encs rs))%nat.
Proof. rewrite (encs_firstn_skipn j rs), app_length. lia. Qed.

(* scanning complete records followed by a tail of one of the three shapes *)
Lemma scan_tail_shape rs tl : Forall wf_record rs -> tail_shape tl ->
  exists e, scan_file (encs rs ++ tl) = (sized rs, tl, e).
Proof.
  intros Hrs Ht. destruct Ht as [|r q Hr Hq Hne|k Hk].
  - exists SEnd. rewrite app_nil_r. now apply scan_encs.
  - exists SEof. eapply scan_torn; eauto.
  - destruct (Nat.ltb_spec k 28).
    + exists SEof. apply scan_zero_tail_short; auto.
    + exists SInvalid. apply scan_zero_tail_long; auto.
Qed.

(* the length of the complete records at the start of a file *)
Definition vlen (data : bytes) : nat := length data - length (snd (fst (scan_file data))).

Lemma vlen_shape rs tl : Forall wf_record rs -> tail_shape tl ->
  vlen (encs rs ++ tl) = length (encs rs).
Proof.
  intros Hrs Ht. destruct (scan_tail_shape rs tl Hrs Ht) as [e E].
  unfold vlen. rewrite E. simpl. rewrite app_length. lia.
Qed.

(* ------------------------------------------------------------------ whole records *)
Lemma whole_records_wf bs : whole_records bs -> exists rs, Forall wf_record rs /\ bs = encs rs.
Proof.
  intros (rs & E & H). exists rs. split; [|exact E].
  eapply Forall_impl; [|exact H]. simpl. intros r Hr. apply dec_record_canonical in Hr. tauto.
Qed.

(* ------------------------------------------------------------------ the shape of an image file *)
Definition image_of (data data' : bytes) (syn : N) : Prop :=
  exists n k : nat, syn <= N.of_nat n /\ (n + k <= length data)%nat /\
    data' = firstn n data ++ zeros k /\ (k = 0%nat \/ whole_records (firstn n data)).

Lemma file_image_of f f' : file_image f f' ->
  f_id f' = f_id f /\ image_of (f_data f) (f_data f') (f_synced f).
Proof. intros [H1 H2]. split; [exact H1|exact H2]. Qed.

Lemma torn_not_zero_ok r q : wf_record r -> pprefix q (enc_record r) -> q <> [] -> tail_shape q.
Proof. intros. eapply TS_torn; eauto. Qed.

Lemma image_shape recs data data' syn :
  Forall wf_record recs -> bprefix data (encs recs) -> image_of data data' syn ->
  exists j tl, data' = encs (firstn j recs) ++ tl /\ tail_shape tl /\
    Forall wf_record (firstn j recs) /\
    (length data' <= length data)%nat /\
    (* the part kept intact covers the synced prefix *)
    (forall m, (m <= N.to_nat syn)%nat -> (m <= length data)%nat ->
               firstn m data' = firstn m data).
Proof.
  intros Hw Hp (n & k & Hs & Hl & E & Hk).
  assert (Hn : (n <= length data)%nat) by lia.
  assert (Efn : firstn n data = firstn n (encs recs)).
  { destruct Hp as [t ->]. rewrite firstn_app. replace (n - length data)%nat with 0%nat by lia.
    simpl. now rewrite app_nil_r. }
  assert (Hle : (n <= length (encs recs))%nat).
  { apply bprefix_length in Hp. lia. }
  destruct (cut_tail_shape recs n Hw Hle) as (j & q & Eq & Hwj & Hq).
  assert (Hlen : (length data' <= length data)%nat).
  { rewrite E, app_length, firstn_length, zeros_length. lia. }
  assert (Hkeep : forall m, (m <= N.to_nat syn)%nat -> (m <= length data)%nat ->
                            firstn m data' = firstn m data).
  { intros m Hm Hm2. rewrite E, firstn_app, firstn_firstn, firstn_length.
    replace (Nat.min m n) with m by lia.
    replace (m - Nat.min n (length data))%nat with 0%nat by lia. simpl. now rewrite app_nil_r. }
  destruct k as [|k].
  - exists j, q. simpl in E. rewrite app_nil_r in E. rewrite <- Efn in Eq. rewrite <- E in Eq.
    repeat (split; [assumption|]). assumption.
  - destruct Hk as [Hk|Hk]; [discriminate|].
    assert (Eq0 : q = []).
    { destruct Hq as [|r q Hr Hpq Hne|z Hz]; [reflexivity| |].
      - rewrite Efn, Eq in Hk.
        destruct (scan_tail_shape (firstn j recs) q Hwj (TS_torn r q Hr Hpq Hne)) as [e Es].
        apply whole_records_wf in Hk. destruct Hk as (rs' & Hw' & E').
        rewrite E', (scan_encs rs' Hw') in Es. inversion Es; subst. congruence.
      - rewrite Efn, Eq in Hk.
        destruct (scan_tail_shape (firstn j recs) (zeros z) Hwj (TS_zero z Hz)) as [e Es].
        apply whole_records_wf in Hk. destruct Hk as (rs' & Hw' & E').
        rewrite E', (scan_encs rs' Hw') in Es. inversion Es; subst.
        destruct z; [lia|discriminate]. }
    subst q. rewrite app_nil_r in Eq.
    exists j, (zeros (S k)). split; [rewrite E, Efn, Eq; reflexivity|]. split; [constructor; lia|].
    repeat (split; [assumption|]). assumption.
Qed.

(* ------------------------------------------------------------------ replay never fails on journal files *)
Lemma replay_ok : forall rs ends s id start st',
  length ends = length rs -> RS.rs_run (m_rs s) rs = Some st' ->
  exists s1, replay s id start rs ends = (s1, None) /\ m_rs s1 = st'.
Proof.
  induction rs as [|r rs IH]; intros ends s id start st' Hl Hr.
  - destruct ends; [|discriminate]. simpl in Hr. inversion Hr; subst. exists s. auto.
  - destruct ends as [|e ends]; [discriminate|]. simpl in Hr. cbn [replay].
    pose proof (RS.sm_apply_rs s r id (start, e - start)) as Ha.
    destruct (rs_apply (m_rs s) r) as [st1|er]; [|discriminate].
    destruct (sm_apply s r id (start, e - start)) as [s2 oe]. simpl in Ha. destruct Ha as [Ha1 Ha2].
    subst oe. apply IH; [simpl in Hl; lia|]. now rewrite Ha1.
Qed.

Definition runs (g : jfile) : Prop :=
  exists st tl st', snd g = RState st :: tl /\ RS.rs_run st tl = Some st'.

Lemma Chain_runs : forall G cur, RS.Chain cur G -> Forall runs G.
Proof.
  induction G as [|g G IH]; intros cur H; [constructor|].
  cbn [RS.Chain] in H. destruct H as [(st & tl & E1 & E2) H2]. constructor; [|eapply IH; eauto].
  exists st, tl. eexists. eauto.
Qed.

Lemma rs_run_head s st tl : RS.rs_run s (RState st :: tl) = RS.rs_run st tl.
Proof. reflexivity. Qed.

Lemma rs_run_firstn st tl st' j : RS.rs_run st tl = Some st' ->
  exists st'', RS.rs_run st (firstn j tl) = Some st''.
Proof.
  intros H. rewrite <- (firstn_skipn j tl), RS.rs_run_app in H.
  destruct (RS.rs_run st (firstn j tl)) as [s|]; [eauto|discriminate].
Qed.

(* any prefix (in records) of a journal file replays without error, from any state *)
Lemma chunk_replay_prefix g j t : runs g ->
  exists t1, RS.chunk_replay t (fst g, firstn j (snd g)) = (t1, None).
Proof.
  intros (st & tl & st' & E & Hr). unfold RS.chunk_replay. cbn [fst snd].
  destruct j as [|j].
  - simpl. eexists. reflexivity.
  - rewrite E. cbn [firstn]. destruct (rs_run_firstn st tl st' j Hr) as [st'' Hr'].
    destruct (replay_ok (RState st :: firstn j tl)
                (ends_from (fst g) (map rec_size (RState st :: firstn j tl)))
                (RS.chunk_pre t) (fst g) (fst g) st'') as (s1 & Hs & _).
    + now rewrite RS.ends_from_length, map_length.
    + rewrite rs_run_head. exact Hr'.
    + eauto.
Qed.

Lemma chunk_replay_full g t : runs g -> exists t1, RS.chunk_replay t g = (t1, None).
Proof.
  intros H. destruct (chunk_replay_prefix g (length (snd g)) t H) as [t1 E].
  rewrite firstn_all in E. destruct g. eauto.
Qed.

Lemma replay_files_ok : forall G t, Forall runs G -> exists t1, RS.replay_files t G = (t1, None).
Proof.
  induction G as [|g G IH]; intros t H; [simpl; eauto|].
  inversion H as [|? ? Hg HG]; subst. cbn [RS.replay_files].
  destruct (chunk_replay_full g t Hg) as [t1 E]. rewrite E. apply IH, HG.
Qed.

(* ------------------------------------------------------------------ sub-runs of the journal *)
Lemma Abut_app (A B : list jfile) : RF.Abut (A ++ B) -> RF.Abut A /\ RF.Abut B.
Proof.
  induction A as [|a A IH]; intros H; simpl in *; [auto|].
  destruct H as [H1 H2]. destruct (IH H2) as [HA HB]. split; [|exact HB]. split; [|exact HA].
  destruct A as [|a' A']; simpl in *; [exact I|exact H1].
Qed.

Lemma map_split3 {A B} (f : A -> B) l a b c : map f l = a ++ b ++ c ->
  exists la lb lc, l = la ++ lb ++ lc /\ map f la = a /\ map f lb = b /\ map f lc = c.
Proof.
  intros H. apply map_eq_app in H. destruct H as (la & l2 & -> & Ha & H).
  apply map_eq_app in H. destruct H as (lb & lc & -> & Hb & Hc). exists la, lb, lc. auto.
Qed.

Lemma glook_sorted G id rs : StronglySorted N.lt (map fst G) -> In (id, rs) G -> glook id G = Some rs.
Proof.
  intros Hs Hin. destruct (in_split _ _ Hin) as (A & B & ->).
  rewrite map_app in Hs. simpl in Hs. apply ss_nodup_app in Hs. destruct Hs as [Hs _].
  rewrite glook_app, (glook_notin _ _ Hs). simpl. now rewrite N.eqb_refl.
Qed.

Lemma Forall2_compose {A B C} (P : A -> B -> Prop) (Q : A -> C -> Prop) (R : B -> C -> Prop) :
  (forall a b c, P a b -> Q a c -> R b c) ->
  forall la lb lc, Forall2 P la lb -> Forall2 Q la lc -> Forall2 R lb lc.
Proof.
  intros H la. induction la as [|a la IH]; intros lb lc H1 H2; inversion H1; inversion H2; subst.
  - constructor.
  - constructor; eauto.
Qed.

Lemma Forall2_map_eq {A B C} (f : A -> C) (g : B -> C) la lb :
  map f la = map g lb -> Forall2 (fun a b => f a = g b) la lb.
Proof.
  revert lb. induction la as [|a la IH]; intros [|b lb] H; try discriminate; constructor.
  - now inversion H.
  - apply IH. now inversion H.
Qed.

Lemma Forall2_and {A B} (P Q : A -> B -> Prop) la lb :
  Forall2 P la lb -> (forall a b, In a la -> In b lb -> P a b -> Q a b) -> Forall2 (fun a b => P a b /\ Q a b) la lb.
Proof.
  induction 1 as [|a b la lb Hab H IH]; intros HQ; constructor.
  - split; [exact Hab|]. apply HQ; simpl; auto.
  - apply IH. intros; apply HQ; simpl; auto.
Qed.

(* ------------------------------------------------------------------ image files against the journal *)
Definition img_rel (f' : file) (g : jfile) : Prop :=
  f_id f' = fst g /\
  exists j tl, f_data f' = encs (firstn j (snd g)) ++ tl /\ tail_shape tl /\
               Forall wf_record (firstn j (snd g)) /\
               (length (f_data f') <= length (encs (snd g)))%nat.

Record image_facts (z : sys2) (d' : disk) (G Gd : list jfile) : Prop := {
  if_ji : JI z G;
  if_sub : exists A C, G = A ++ Gd ++ C /\ map fst C = creates (z_todo z);
  if_ids : map fst Gd = map f_id (z_disk z);
  if_pre : Forall2 (fun f g => f_id f = fst g /\ bprefix (f_data f) (encs (snd g))) (z_disk z) Gd;
  if_img : Forall2 img_rel d' Gd }.

Lemma image_analysis cfg z d' G : zreach cfg z -> JI z G -> crash_image z d' ->
  exists Gd, image_facts z d' G Gd.
Proof.
  intros Hr J Hc.
  destruct (PurgeFacts.zreach_Inv cfg z Hr) as (gone & rmw & keep & Hci).
  pose proof (PurgeFacts.ci_created _ _ _ _ Hci) as Hcr. unfold JournalDisk.ids in Hcr.
  pose proof (gi_ids _ _ _ _ (ji_gi _ _ J)) as Hi. rewrite Hcr, <- !app_assoc in Hi.
  apply map_split3 in Hi. destruct Hi as (A & Gd & C & EG & _ & Hd & HC).
  pose proof (gi_sorted _ _ _ _ (ji_gi _ _ J)) as Hs.
  pose proof (gi_ok _ _ _ _ (ji_gi _ _ J)) as Hok.
  assert (Hsd : disk_sorted (z_disk z)) by (apply AD.b_sorted, AD.f_b; eapply full_reach; eauto).
  assert (Hpre : Forall2 (fun f g => f_id f = fst g /\ bprefix (f_data f) (encs (snd g))) (z_disk z) Gd).
  { apply Forall2_and; [apply Forall2_map_eq; now symmetry|].
    intros f g Hf Hg Eid. pose proof (ji_hw _ _ J (f_id f)) as H.
    rewrite (data_of_in _ _ Hsd Hf) in H.
    assert (Hg' : In (fst g, snd g) G).
    { rewrite EG. apply in_or_app. right. apply in_or_app. left. now destruct g. }
    unfold gbytes in H. rewrite Eid, (glook_sorted G _ _ Hs Hg') in H.
    eapply bprefix_trans; [apply bprefix_app|]. apply H. apply in_or_app. left.
    rewrite <- Eid. now apply in_map. }
  cut (Forall2 img_rel d' Gd).
  { intros Himg. exists Gd. constructor; [exact J|eauto|exact Hd|exact Hpre|exact Himg]. }
  assert (Hokd : Forall gfile_ok Gd).
  { rewrite EG, !Forall_app in Hok. tauto. }
  assert (Hpre' : Forall2 (fun f g => (f_id f = fst g /\ bprefix (f_data f) (encs (snd g))) /\ gfile_ok g)
                          (z_disk z) Gd).
  { apply Forall2_and; [exact Hpre|]. intros f g _ Hg _. rewrite Forall_forall in Hokd. now apply Hokd. }
  eapply Forall2_compose; [|exact Hc|exact Hpre'].
  intros f f' g Hi [[Eid Hp] [Hwf _]]. apply file_image_of in Hi. destruct Hi as [Ei Him].
  split; [congruence|].
  destruct (image_shape (snd g) (f_data f) (f_data f') (f_synced f) Hwf Hp Him)
    as (j & tl & E & Ht & Hwj & Hl & _).
  exists j, tl. repeat (split; [assumption|]). apply bprefix_length in Hp. lia.
Qed.

(* ------------------------------------------------------------------ the known failure class (finding F3) *)
(* an older file (not the newest) whose complete records do not reach the name of the
   next file: it was cut short (or zero-filled) by the crash, or its tail had not been
   written yet when the next chunk file was created *)
Definition gap_class (d' : disk) : Prop :=
  exists pre f g post, d' = pre ++ f :: g :: post /\
                       f_id f + N.of_nat (vlen (f_data f)) <> f_id g.

Lemma gap_class_tail f l : ~ gap_class (f :: l) -> ~ gap_class l.
Proof.
  intros H (pre & a & b & post & E & Hne). apply H. exists (f :: pre), a, b, post.
  split; [simpl; now rewrite E|exact Hne].
Qed.

Lemma Forall2_length {A B} (R : A -> B -> Prop) la lb : Forall2 R la lb -> length la = length lb.
Proof. induction 1; simpl; congruence. Qed.

Lemma Forall2_last_inv {A B} (R : A -> B -> Prop) la a lb b :
  Forall2 R (la ++ [a]) (lb ++ [b]) -> Forall2 R la lb /\ R a b.
Proof.
  intros H. apply Forall2_app_inv_l in H. destruct H as (l1 & l2 & H1 & H2 & E).
  inversion H2 as [|? y ? l2' Hab H3]; subst. inversion H3; subst.
  apply app_inj_tail in E. destruct E as [-> ->]. auto.
Qed.

Lemma older_complete : forall older' Go nf' gl,
  Forall2 img_rel (older' ++ [nf']) (Go ++ [gl]) -> RF.Abut (Go ++ [gl]) ->
  ~ gap_class (older' ++ [nf']) -> Forall2 RF.file_match older' Go.
Proof.
  induction older' as [|f' rest IH]; intros Go nf' gl HF Hab Hng.
  - apply Forall2_length in HF. rewrite !app_length in HF. simpl in HF.
    destruct Go; [constructor|simpl in HF; lia].
  - destruct Go as [|g Gr].
    { apply Forall2_length in HF. rewrite !app_length in HF. simpl in HF. lia. }
    simpl in HF. inversion HF as [|? ? ? ? Hfg HF']; subst. simpl in Hab. destruct Hab as [Hab1 Hab2].
    constructor; [|eapply IH; eauto; eapply gap_class_tail; eauto].
    destruct (rest ++ [nf']) as [|n' l'] eqn:El; [destruct rest; discriminate|].
    destruct (Gr ++ [gl]) as [|gn lg] eqn:Eg; [destruct Gr; discriminate|].
    inversion HF' as [|? ? ? ? Hn _]; subst.
    destruct Hfg as (Eid & j & tl & Ed & Ht & Hwj & Hl). destruct Hn as (Eidn & _).
    assert (Hv : f_id f' + N.of_nat (vlen (f_data f')) = f_id n').
    { destruct (N.eq_dec (f_id f' + N.of_nat (vlen (f_data f'))) (f_id n')) as [E|E]; [exact E|].
      exfalso. apply Hng. exists [], f', n', l'. split; [simpl; now rewrite El|exact E]. }
    rewrite Ed, (vlen_shape _ _ Hwj Ht), Eid, Eidn, Hab1 in Hv. unfold RF.glen in Hv.
    assert (Hlen : length (encs (firstn j (snd g))) = length (encs (snd g))) by lia.
    apply encs_firstn_full in Hlen. rewrite Hlen in Ed.
    assert (tl = []).
    { rewrite Ed, app_length in Hl. destruct tl; [reflexivity|simpl in Hl; lia]. }
    subst tl. rewrite app_nil_r in Ed. split; assumption.
Qed.

Lemma open_older_prev cfg : forall l a a', open_older cfg l a = inl a' ->
  (l <> [] \/ oa_prev_end a <> None) -> oa_prev_end a' <> None.
Proof.
  induction l as [|f l IH]; intros a a' H Hd; simpl in H.
  - inversion H; subst. destruct Hd as [Hd|Hd]; [congruence|exact Hd].
  - destruct (open_step cfg f a) as [a1|e] eqn:E; [|discriminate].
    apply (IH a1 a' H). right. unfold open_step in E.
    destruct (gap_at a (f_id f)); [discriminate|].
    destruct (chunk_open cfg (f_id f) (f_data f)) as [oc|er]; [|discriminate].
    cbv zeta in E. destruct (replay _ _ _ _ _) as [s1 [er|]]; [discriminate|].
    inversion E; subst. discriminate.
Qed.

Lemma ss_sub (a b c : list N) : StronglySorted N.lt (a ++ b ++ c) -> StronglySorted N.lt b.
Proof.
  intros H. apply JournalDisk.ss_app_inv in H. destruct H as (_ & H & _).
  apply JournalDisk.ss_app_inv in H. tauto.
Qed.

Lemma crash_open cfg cfg' z d' G : zreach cfg z -> JI z G -> crash_image z d' ->
  ~ gap_class d' -> c_truncate cfg' = true -> d' <> [] ->
  exists Gd Go o recs j older' nf' tl y' s1,
    image_facts z d' G Gd /\ Gd = Go ++ [(o, recs)] /\
    d' = older' ++ [nf'] /\ Forall2 RF.file_match older' Go /\ f_id nf' = o /\
    f_data nf' = encs (firstn j recs) ++ tl /\ tail_shape tl /\
    open_dir cfg' d' = OpenOk y' /\
    RS.replay_files (sm_new cfg') (Go ++ [(o, firstn j recs)]) = (s1, None) /\
    m_rs (k_sm (y_core y')) = m_rs s1 /\ m_log (k_sm (y_core y')) = m_log s1.
Proof.
  intros Hr J0 Hc Hng Ht Hne.
  destruct (image_analysis cfg z d' G Hr J0 Hc) as (Gd & IF).
  pose proof IF as [J (A & C & EG & _) Hids Hpre Himg].
  destruct (exists_last Hne) as (older' & nf' & Ed). subst d'.
  assert (HGd : Gd <> []).
  { intros ->. apply Forall2_length in Himg. rewrite app_length in Himg. simpl in Himg. lia. }
  destruct (exists_last HGd) as (Go & [o recs] & EGd). subst Gd.
  pose proof (gi_sorted _ _ _ _ (ji_gi _ _ J)) as Hs.
  pose proof (gi_ok _ _ _ _ (ji_gi _ _ J)) as Hok.
  pose proof (gi_abut _ _ _ _ (ji_gi _ _ J)) as Hab.
  pose proof (Chain_runs _ _ (gi_chain _ _ _ _ (ji_gi _ _ J))) as Hrun.
  rewrite EG in Hs, Hok, Hab, Hrun. rewrite !map_app in Hs.
  rewrite !Forall_app in Hok, Hrun.
  destruct Hok as (_ & [Hoko Hokl] & _). destruct Hrun as (_ & [Hruno Hrunl] & _).
  apply Abut_app in Hab. destruct Hab as [_ Hab]. apply Abut_app in Hab. destruct Hab as [Hab _].
  assert (Hsd : StronglySorted N.lt (map fst (Go ++ [(o, recs)]))).
  { rewrite map_app. eapply ss_sub. exact Hs. }
  pose proof (older_complete _ _ _ _ Himg Hab Hng) as Hfm.
  destruct (Forall2_last_inv _ _ _ _ _ Himg) as [_ (Eid & j & tl & Edat & Htl & Hwj & Hl)].
  simpl in Eid, Edat, Hwj, Hl.
  destruct (replay_files_ok Go (sm_new cfg') Hruno) as [t Hrep].
  assert (Hjok : Forall RF.jfile_ok Go).
  { eapply Forall_impl; [|exact Hoko]. intros g [Hg1 (st & tl0 & E)]. split; [exact Hg1|].
    rewrite E. discriminate. }
  destruct (RF.open_older_replay cfg' older' Go (o, recs) (acc0 cfg' (older' ++ [nf'])) t Hfm
              Hjok Hab Hsd eq_refl eq_refl (Forall_nil _) Hrep)
    as (a' & Ho & Hsm & Hlast & Hdisk & Hclosed & Hgap).
  pose proof (Forall_inv Hrunl) as Hrl.
  destruct (chunk_replay_prefix (o, recs) j t Hrl) as [s1 Hs1]. simpl in Hs1.
  assert (Hidlt : Forall (fun g => f_id g < o) older').
  { assert (Hm : map f_id older' = map fst Go).
    { clear - Hfm. induction Hfm as [|f g l1 l2 [E _] _ IH]; simpl; [reflexivity|]. now rewrite E, IH. }
    rewrite map_app in Hsd. simpl in Hsd. apply JournalDisk.ss_app_inv in Hsd.
    destruct Hsd as (_ & _ & Hlt). rewrite Forall_forall. intros g Hg.
    apply Hlt; [|now left]. rewrite <- Hm. now apply in_map. }
  assert (Hgap' : oa_prev_end a' = Some o \/ older' = []).
  { destruct (list_eq_dec N.eq_dec (map f_id older') []) as [E0|E0].
    - right. destruct older'; [reflexivity|discriminate].
    - left. assert (Hne' : older' <> []) by (intros ->; apply E0; reflexivity).
      pose proof (open_older_prev cfg' _ _ _ Ho (or_introl Hne')) as Hp.
      unfold gap_at in Hgap. cbn [fst] in Hgap. destruct (oa_prev_end a') as [p|]; [|congruence].
      destruct (N.eqb_spec p o) as [E1|E1]; [now rewrite E1|discriminate]. }
  destruct nf' as [nid ndata nsyn]. simpl in Eid, Edat. subst nid ndata.
  assert (Hrep1 : replay (sm_pre a') o o (firstn j recs)
                         (ends_from o (map rec_size (firstn j recs))) = (s1, None)).
  { rewrite (RF.sm_pre_chunk_pre a') by (rewrite Hlast, Hsm; reflexivity). rewrite Hsm. exact Hs1. }
  destruct (C10_longest_prefix_open cfg' older' o nsyn (firstn j recs) tl a' Ho Hidlt Hgap' Hwj Htl s1
              (or_introl Ht) Hrep1) as (y' & Hopen & Hrs & Hlog & _).
  exists (Go ++ [(o, recs)]), Go, o, recs, j, older', (mkFile o (encs (firstn j recs) ++ tl) nsyn), tl, y', s1.
  split; [exact IF|]. split; [reflexivity|]. split; [reflexivity|]. split; [exact Hfm|].
  split; [reflexivity|]. split; [reflexivity|]. split; [exact Htl|]. split; [exact Hopen|].
  split; [|split; assumption].
  eapply RS.replay_files_snoc; [exact Hrep|exact Hs1].
Qed.

(* ------------------------------------------------------------------ C05 *)
Lemma crash_image_ids z d' : crash_image z d' -> map f_id d' = map f_id (z_disk z).
Proof.
  unfold crash_image. induction 1 as [|f f' l l' [E _] _ IH]; simpl; [reflexivity|]. now rewrite E, IH.
Qed.

Lemma sorted_of_ids d d' : map f_id d' = map f_id d -> disk_sorted d -> disk_sorted d'.
Proof.
  revert d'. induction d as [|f d IH]; intros [|f' d'] E H; try discriminate; [constructor|].
  inversion E as [[E1 E2]]. inversion H as [|? ? Hs Hf]; subst. constructor; [now apply IH|].
  rewrite Forall_forall in *. intros g' Hg'. apply (in_map f_id) in Hg'. rewrite E2 in Hg'.
  apply in_map_iff in Hg'. destruct Hg' as (g & Eg & Hg). specialize (Hf g Hg).
  unfold file_lt in *. lia.
Qed.

(* C05, outside the known class: after a crash at ANY moment (any reachable state of
   the two threads, any crash image of it), if no older file lost its tail (gap_class,
   finding F3) and truncation of incomplete records is enabled in the configuration
   used for reopening, the directory opens without manual repair; the recovered store
   is well formed and no later operation on it panics.  ([open_dir] itself cannot
   panic: its result type [open_res] has only OpenOk and OpenErr.) *)
Theorem C05_recovers_outside_known : forall cfg cfg' z d',
  zreach cfg z -> hist_wf z -> crash_image z d' ->
  ~ gap_class d' -> c_truncate cfg' = true ->
  exists y', open_dir cfg' d' = OpenOk y' /\ sys_ok y' /\
             (forall ops res fin, run_ops y' ops = (res, fin) -> ~ In ResPanic res).
Proof.
  intros cfg cfg' z d' Hr Hw Hc Hng Ht.
  assert (Hsd : disk_sorted d').
  { eapply sorted_of_ids; [apply crash_image_ids; eauto|].
    apply AD.b_sorted, AD.f_b. eapply full_reach; eauto. }
  assert (Hex : exists y', open_dir cfg' d' = OpenOk y').
  { destruct d' as [|f0 l0] eqn:Ed.
    - eexists. reflexivity.
    - rewrite <- Ed in *.
      destruct (L2_journal cfg z Hr Hw) as [G J].
      destruct (crash_open cfg cfg' z d' G Hr J Hc Hng Ht) as
        (Gd & Go & o & recs & j & older' & nf' & tl & y' & s1 & _ & _ & _ & _ & _ & _ & _ & Ho & _).
      + rewrite Ed. discriminate.
      + eauto. }
  destruct Hex as [y' Ho]. exists y'. split; [exact Ho|].
  pose proof (open_dir_ok cfg' d' y' Hsd Ho) as Hok. split; [exact Hok|].
  intros ops res fin Hrun. apply (run_ops_ok ops y' res fin Hok Hrun).
Qed.

(* with truncation disabled the newest file must be intact *)

(* a process crash keeps every completed write *)
Lemma process_crash_is_image cfg z : zreach cfg z -> crash_image z (process_crash_image z).
Proof.
  intros Hr. pose proof (AF.C04_synced_le_written cfg z Hr) as Hs.
  unfold crash_image, process_crash_image. induction Hs as [|f l Hf _ IH]; simpl; constructor; [|exact IH].
  split; [reflexivity|]. exists (length (f_data f)), 0%nat. simpl.
  split; [exact Hf|]. split; [lia|]. split; [|now left].
  now rewrite firstn_all, app_nil_r.
Qed.

(* ---- C05 is false in the known class: a rotation creates the new file and writes its
   head on the caller thread before the old chunk's tail has reached the worker ---- *)
Definition gap_cfg : config := mkConfig 10 1000 2 1000 true.
Definition gap_events : list zev := [ZCall (OW (OVote (1, 2))); ZEff; ZEff].

Theorem C05_refuted_gap :
  exists z d', zreach gap_cfg z /\ hist_wf z /\ crash_image z d' /\ gap_class d' /\
               exists dd, open_dir gap_cfg d' = OpenErr EGap dd.
Proof.
  destruct (zrun (AF.zstart gap_cfg) gap_events) as [[z vis]|] eqn:E; [|vm_compute in E; discriminate].
  assert (Hr : zreach gap_cfg z).
  { exists (AF.zstart gap_cfg), gap_events, vis. split; [apply AF.zinit_eq|exact E]. }
  exists z, (process_crash_image z). split; [exact Hr|].
  split; [|split; [now apply (process_crash_is_image gap_cfg)|]].
  - vm_compute in E. inversion E; subst; clear E. unfold hist_wf. simpl.
    repeat constructor; vm_compute; reflexivity.
  - vm_compute in E. inversion E; subst; clear E. split.
    + eexists [], _, _, []. split; [vm_compute; reflexivity|]. vm_compute. discriminate.
    + eexists. vm_compute. reflexivity.
Qed.

Print Assumptions C05_recovers_outside_known.
Print Assumptions C05_refuted_gap.
