(* C03, part C.2: the journal of the L2 system against the reference log.
   [ref_states ws]: the reference-log states after each journalled per-record write of
   the write calls [ws]; invariant [SP]: the journal G is valid against the reference
   log ([files_ok]), its records are exactly the accepted per-record writes of the
   ghost history, and every flush recorded in the ghost history lies behind all
   records journalled before it. *)
From Coq Require Import List NArith Bool Lia Arith Sorting.Sorted.
From Coq Require Import ZifyBool ZifyN ZifyNat.
From Coq.Strings Require Import Byte.
From RaftLog Require Import Base.Bytes Model.Types Model.Codec Model.Cache Model.Core
  Model.Recover Model.Run Model.Sys Spec.Spec Spec.Hist Spec.Durable.
From RaftLog Require Import Proofs.CodecFacts Proofs.NoPanic Proofs.JournalDisk Proofs.JournalChunk
  Proofs.JournalFacts Proofs.OrderFacts Proofs.SmFacts Proofs.Refine.
From RaftLog Require Import Proofs.CrashBase Proofs.CrashJournal Proofs.CrashSteps Proofs.CrashSpec.
Import ListNotations.
Local Open Scope N_scope.
Local Arguments N.add : simpl never.
Local Arguments N.sub : simpl never.
Local Arguments N.mul : simpl never.
Local Arguments N.eqb : simpl never.
Local Arguments N.ltb : simpl never.
Local Arguments N.leb : simpl never.
Local Arguments N.compare : simpl never.
Local Arguments N.of_nat : simpl never.
Local Arguments enc_record : simpl never.

(* ------------------------------------------------------------------ reference states of a history *)
(* a purge of an already purged prefix is accepted but journals nothing *)
Definition noop_sw (s : spec) (w : swrite) : bool :=
  match w with
  | SPurge u => N.ltb (lid_index u) (next_index (sp_purged s))
  | _ => false
  end.

(* the states after each accepted write of a call; the call stops at the first refusal *)
Fixpoint strace (s : spec) (l : list swrite) : list spec :=
  match l with
  | [] => []
  | w :: r =>
    match spec_step s w with
    | Some s' => (if noop_sw s w then [] else [s']) ++ strace s' r
    | None => []
    end
  end.

Definition wop_sws (w : wop) : list swrite :=
  match w with
  | OVote v => [SVote v]
  | OAppend es => map (fun e => SEntry (fst e) (snd e)) es
  | OTruncate i => [STruncate i]
  | OPurge u => [SPurge u]
  | OCommit id => [SCommit id]
  | OUser u => [SUser u]
  | OUpdateState _ => []
  end.

Definition wtrace (s : spec) (w : wop) : list spec := strace s (wop_sws w).

Fixpoint htrace (s : spec) (ws : list wop) : list spec :=
  match ws with
  | [] => []
  | w :: r => wtrace s w ++ htrace (fst (spec_wop s w)) r
  end.

(* one reference state per journalled record, the initial state first *)
Definition ref_states (ws : list wop) : list spec := spec0 :: htrace spec0 ws.

Lemma htrace_app s a b : htrace s (a ++ b) = htrace s a ++ htrace (PL.spec_wops s a) b.
Proof.
  revert s. induction a as [|w a IH]; intros s; simpl; [reflexivity|].
  rewrite IH, <- app_assoc. reflexivity.
Qed.

(* ------------------------------------------------------------------ the invariant at the level of the core *)
Record SC (k : core) (sp : spec) (G : list jfile) : Prop := mkSC {
  sc_files : files_ok spec0 G;
  sc_cur : run_recs spec0 (jrecs G) = sp;
  sc_r0 : PL.R0 (k_sm k) sp;
  sc_last : exists G0 rs, G = G0 ++ [(ck_id (k_open k), rs)] }.

Lemma jrecs_last (G0 : list jfile) o rs : jrecs (G0 ++ [(o, rs)]) = jrecs G0 ++ tl rs.
Proof. rewrite jrecs_app. unfold jrecs at 2. cbn [flat_map snd]. now rewrite app_nil_r. Qed.

Lemma tl_snoc {A} (l : list A) x : l <> [] -> tl (l ++ [x]) = tl l ++ [x].
Proof. destruct l; [congruence|reflexivity]. Qed.

Lemma try_close_sm k1 c n k' effs : k_open k1 = ck_push c n -> try_close k1 = Ret (k', effs) ->
  k_sm k' = k_sm k1.
Proof.
  intros Ho H. eapply try_close_cases in H; [|exact Ho]. destruct H as [(_ & -> & _)|(_ & -> & _)]; reflexivity.
Qed.

(* one record through append_and_apply *)
Lemma sc_rec k sp G r k' w effs :
  SC k sp G -> rec_ok sp r -> append_and_apply k r = Ret (k', w, effs) ->
  match spec_step sp (sw_of r) with
  | Some sp' => (exists off len, w = WOk off len) /\ SC k' sp' (gnext k r G) /\
                jrecs (gnext k r G) = jrecs G ++ [r]
  | None => (exists e, w = WErr e) /\ k' = k /\ gnext k r G = G
  end.
Proof.
  intros [Hf Hc HR (G0 & rs & EG)] Hok H.
  pose proof (rec_sim _ _ _ HR Hok) as HS. unfold PL.step_sim0 in HS.
  apply aaa_res in H.
  destruct (spec_step sp (sw_of r)) as [sp'|] eqn:Es.
  - destruct HS as (Eil & Hv & HR').
    destruct H as [(Ea & _)|(Ea & sm1 & _ & _ & Hsm & -> & Htc)].
    { unfold accepted in Ea. rewrite Eil, Hv in Ea. discriminate. }
    split; [eauto|].
    specialize (HR' (ck_id (k_open k)) (ck_end (k_open k), rec_size r)). rewrite Hsm in HR'. cbn [fst] in HR'.
    subst G. set (o := ck_id (k_open k)) in *.
    apply files_ok_app in Hf. destruct Hf as [Hf0 Hfl]. simpl in Hfl.
    destruct Hfl as (tl0 & Ers & Hrl & _). subst rs.
    rewrite jrecs_last in Hc. cbn [List.tl] in Hc. rewrite run_recs_app in Hc.
    assert (Hf1 : files_ok spec0 (G0 ++ [(o, (RState (spec_state (run_recs spec0 (jrecs G0))) :: tl0) ++ [r])])).
    { apply files_ok_app. split; [exact Hf0|]. simpl. exists (tl0 ++ [r]). split; [reflexivity|].
      split; [|exact I]. apply recs_ok_app. split; [exact Hrl|]. rewrite Hc. simpl.
      split; [exact Hok|]. eauto. }
    assert (Hj1 : jrecs (G0 ++ [(o, (RState (spec_state (run_recs spec0 (jrecs G0))) :: tl0) ++ [r])]) =
                  jrecs (G0 ++ [(o, RState (spec_state (run_recs spec0 (jrecs G0))) :: tl0)]) ++ [r]).
    { rewrite !jrecs_last. cbn [List.tl app]. now rewrite app_assoc. }
    assert (Hc1 : run_recs spec0 (jrecs (G0 ++ [(o, RState (spec_state (run_recs spec0 (jrecs G0))) :: tl0)]) ++ [r]) = sp').
    { rewrite run_recs_app, jrecs_last. cbn [List.tl].
      rewrite run_recs_app, Hc. simpl. unfold spec_apply. now rewrite Es. }
    assert (Hsm' : k_sm k' = sm1).
    { rewrite (try_close_sm (appended k r sm1) (k_open k) (rec_size r) k' effs eq_refl Htc). reflexivity. }
    unfold gnext. rewrite Ea. fold o. rewrite Hsm. cbn [fst]. rewrite glast_app_snoc.
    eapply try_close_cases in Htc; [|reflexivity].
    destruct Htc as [(Ef & -> & _)|(Ef & -> & _)]; rewrite Ef.
    + split; [|exact Hj1]. constructor.
      * exact Hf1.
      * now rewrite Hj1.
      * exact HR'.
      * eexists _, _. reflexivity.
    + split.
      * constructor.
        -- apply files_ok_app. split; [exact Hf1|]. cbn [files_ok snd]. exists []. rewrite Hj1, Hc1.
           split; [|split; exact I]. now rewrite (PL.R0_rs _ _ HR').
        -- rewrite jrecs_last. cbn [List.tl]. now rewrite app_nil_r, Hj1.
        -- exact HR'.
        -- eexists _, _. reflexivity.
      * rewrite jrecs_last. cbn [List.tl]. now rewrite app_nil_r.
  - destruct H as [(Ea & -> & -> & e & ->)|(Ea & sm1 & Hv & Eil & _)].
    + split; [eauto|]. split; [reflexivity|]. now apply gnext_refused.
    + exfalso. destruct HS as [HS|(e & HS)]; congruence.
Qed.

Lemma SC_core k k' sp G : k_sm k' = k_sm k -> k_open k' = k_open k -> SC k sp G -> SC k' sp G.
Proof. intros E1 E2 [H1 H2 H3 H4]. constructor; rewrite ?E1, ?E2; assumption. Qed.

Definition wnew (sp : spec) (G G' : list jfile) (tr : list spec) : Prop :=
  exists new, jrecs G' = jrecs G ++ new /\ rtrace sp new = tr.

Lemma sc_one k sp G r sw k' w effs :
  SC k sp G -> rec_ok sp r -> sw_of r = sw -> noop_sw sp sw = false ->
  append_and_apply k r = Ret (k', w, effs) ->
  SC k' (fst (spec_one sp sw)) (gnext k r G) /\ wnew sp G (gnext k r G) (strace sp [sw]).
Proof.
  intros HS Hok Esw Hno H. pose proof (sc_rec k sp G r k' w effs HS Hok H) as HR.
  rewrite Esw in HR. unfold spec_one. cbn [strace]. rewrite Hno.
  destruct (spec_step sp sw) as [sp'|] eqn:Es; cbn [fst].
  - destruct HR as (_ & HS' & Hj). split; [exact HS'|]. exists [r]. split; [exact Hj|].
    cbn [rtrace]. unfold spec_apply. rewrite Esw, Es. reflexivity.
  - destruct HR as (_ & -> & ->). split; [exact HS|]. exists []. split; [now rewrite app_nil_r|reflexivity].
Qed.

Lemma sc_append es : forall k sp G acc effs0 k' w effs,
  SC k sp G -> do_append k es acc effs0 = Ret (k', w, effs) ->
  let G' := gfold k (map (fun e => RAppend (fst e) (snd e)) es) G in
  SC k' (fst (spec_append sp es)) G' /\
  wnew sp G G' (strace sp (map (fun e => SEntry (fst e) (snd e)) es)).
Proof.
  induction es as [|[id p] es IH]; intros k sp G acc effs0 k' w effs HS H; simpl in H.
  - inversion H; subst. simpl. split; [exact HS|]. exists []. split; [now rewrite app_nil_r|reflexivity].
  - destruct (append_and_apply k (RAppend id p)) as [[[k1 w1] ef]|] eqn:Ea; [|discriminate].
    pose proof (sc_rec k sp G (RAppend id p) k1 w1 ef HS I Ea) as HR. cbn [sw_of] in HR.
    cbn [map fst snd gfold spec_append strace noop_sw]. rewrite Ea.
    destruct (spec_step sp (SEntry id p)) as [sp1|] eqn:Es.
    + destruct HR as ((off & len & ->) & HS1 & Hj1).
      destruct (IH _ _ _ _ _ _ _ _ HS1 H) as (HS2 & new2 & Hj2 & Ht2).
      split; [exact HS2|]. exists (RAppend id p :: new2). split.
      * rewrite Hj2, Hj1, <- app_assoc. reflexivity.
      * cbn [rtrace sw_of]. unfold spec_apply. rewrite Es. cbn [app]. now rewrite Ht2.
    + destruct HR as ((e & ->) & -> & _). inversion H; subst.
      split; [exact HS|]. exists []. split; [now rewrite app_nil_r|reflexivity].
Qed.

Lemma sc_refused k sp G sw : spec_step sp sw = None -> SC k sp G ->
  SC k (fst (spec_one sp sw)) G /\ wnew sp G G (strace sp [sw]).
Proof.
  intros E HS. unfold spec_one. cbn [strace]. rewrite E. cbn [fst]. split; [exact HS|].
  exists []. split; [now rewrite app_nil_r|reflexivity].
Qed.

Lemma sc_write k sp G w k' res effs :
  SC k sp G -> wop_legal sp w = true -> do_write k w = Ret (k', res, effs) ->
  SC k' (fst (spec_wop sp w)) (gfold k (wrecs k w) G) /\
  wnew sp G (gfold k (wrecs k w) G) (wtrace sp w).
Proof.
  intros HS Hleg H. pose proof (sc_r0 _ _ _ HS) as HR.
  assert (HP : r_purged (m_rs (k_sm k)) = sp_purged sp) by (rewrite (PL.R0_rs _ _ HR); reflexivity).
  destruct w as [v|es|i|u|id|u|st].
  - change (SC k' (fst (spec_one sp (SVote v))) (gfold k [RVote v] G) /\
            wnew sp G (gfold k [RVote v] G) (strace sp [SVote v])).
    rewrite gfold_one. eapply sc_one; eauto; reflexivity.
  - cbn [do_write] in H. destruct (wal_last_segment k) as [w0|]; [|discriminate].
    exact (sc_append es _ _ _ _ _ _ _ _ HS H).
  - change (SC k' (fst (spec_one sp (STruncate i))) (gfold k (wrecs k (OTruncate i)) G) /\
            wnew sp G (gfold k (wrecs k (OTruncate i)) G) (strace sp [STruncate i])).
    cbn [do_write wrecs] in *. rewrite HP in *.
    destruct (N.eqb i (next_index (sp_purged sp))) eqn:E1.
    + rewrite gfold_one. apply N.eqb_eq in E1.
      eapply sc_one; [exact HS|left; reflexivity|cbn [sw_of]; now rewrite E1|reflexivity|exact H].
    + destruct (N.eqb i 0) eqn:E2.
      * inversion H; subst. cbn [gfold]. apply sc_refused; [|exact HS].
        cbn [spec_step]. now rewrite E1, E2.
      * pose proof (lm_get_rel (m_log (k_sm k)) (sp_entries sp) (i - 1) (PL.R0_log _ _ HR)) as HG.
        unfold lm_get_id in *. destruct (lm_get (i - 1) (m_log (k_sm k))) as [d|].
        -- destruct HG as [p [Hin Hidx]]. rewrite gfold_one.
           assert (Hi : i = next_index (Some (ld_id d))).
           { cbn [next_index]. apply N.eqb_neq in E2. lia. }
           eapply sc_one; [exact HS|right; eauto|cbn [sw_of]; now rewrite Hi|reflexivity|exact H].
        -- inversion H; subst. cbn [gfold]. apply sc_refused; [|exact HS].
           cbn [spec_step]. rewrite E1, E2. unfold sp_has_index. now rewrite HG.
  - change (SC k' (fst (spec_one sp (SPurge u))) (gfold k (wrecs k (OPurge u)) G) /\
            wnew sp G (gfold k (wrecs k (OPurge u)) G) (strace sp [SPurge u])).
    cbn [wop_legal] in Hleg. cbn [do_write wrecs] in *. rewrite HP in *.
    destruct (N.ltb (lid_index u) (next_index (sp_purged sp))) eqn:E1.
    + destruct (wal_last_segment k); [|discriminate]. inversion H; subst. cbn [gfold].
      unfold spec_one. cbn [strace spec_step noop_sw]. rewrite E1. cbn [fst app].
      split; [exact HS|]. exists []. split; [now rewrite app_nil_r|reflexivity].
    + rewrite gfold_one.
      destruct (append_and_apply k (RPurge u)) as [[[k1 w1] ef]|] eqn:Ea; [|discriminate].
      assert (Hok : rec_ok sp (RPurge u)).
      { cbn [rec_ok]. split; [exact E1|].
        unfold purge_legal in Hleg. rewrite E1 in Hleg. cbn [orb] in Hleg.
        apply orb_true_iff in Hleg. destruct Hleg as [Hl|Hl].
        - left. apply existsb_exists in Hl. destruct Hl as [[id p] [Hin He]].
          cbn [fst] in He. apply pair_eqb_eq in He. subst id. exists p. exact Hin.
        - right. apply andb_true_iff in Hl. destruct Hl as [H1 H2].
          split; [apply opair_ltb_lt; exact H1|]. intros l Hl. rewrite Hl in H2.
          apply N.ltb_lt. exact H2. }
      assert (Hno : noop_sw sp (SPurge u) = false) by exact E1.
      pose proof (sc_one k sp G (RPurge u) (SPurge u) k1 w1 ef HS Hok eq_refl Hno Ea) as [HS1 Hn1].
      split; [|exact Hn1].
      destruct w1 as [off len|e].
      * destruct (pop_obsolete u (k_closed k1)) as [ids rest]. inversion H; subst.
        eapply SC_core; [| |exact HS1]; reflexivity.
      * inversion H; subst. exact HS1.
  - change (SC k' (fst (spec_one sp (SCommit id))) (gfold k [RCommit id] G) /\
            wnew sp G (gfold k [RCommit id] G) (strace sp [SCommit id])).
    rewrite gfold_one. eapply sc_one; eauto; reflexivity.
  - change (SC k' (fst (spec_one sp (SUser u))) (gfold k [RState (rs_set_user (m_rs (k_sm k)) u)] G) /\
            wnew sp G (gfold k [RState (rs_set_user (m_rs (k_sm k)) u)] G) (strace sp [SUser u])).
    rewrite gfold_one. eapply sc_one; eauto; try reflexivity.
    cbn [rec_ok r_user rs_set_user]. now rewrite (PL.R0_rs _ _ HR).
  - discriminate.
Qed.

(* ------------------------------------------------------------------ end offsets of the journalled records *)
Definition fends (g : jfile) : list N := tl (ends_from (fst g) (map rec_size (snd g))).
Definition rec_ends (G : list jfile) : list N := flat_map fends G.
(* number of journalled records that end at or below offset U *)
Definition nb (G : list jfile) (U : N) : nat := length (filter (fun e => N.leb e U) (rec_ends G)).

Lemma rec_ends_app A B : rec_ends (A ++ B) = rec_ends A ++ rec_ends B.
Proof. unfold rec_ends. apply flat_map_app. Qed.

Lemma ends_from_len l s : length (ends_from s l) = length l.
Proof. revert s. induction l; intros s; simpl; auto. Qed.

Lemma fends_length g : length (fends g) = length (tl (snd g)).
Proof.
  unfold fends. destruct g as [id [|r rs]]; simpl; [reflexivity|]. now rewrite ends_from_len, map_length.
Qed.

Lemma rec_ends_length G : length (rec_ends G) = length (jrecs G).
Proof.
  induction G as [|g G IH]; [reflexivity|]. unfold rec_ends, jrecs in *. simpl.
  now rewrite !app_length, IH, fends_length.
Qed.

Lemma nb_app_ge G more U : (nb G U <= length (filter (fun e => N.leb e U) (rec_ends G ++ more)))%nat.
Proof. unfold nb. rewrite filter_app, app_length. lia. Qed.

Definition glast_ne (G : list jfile) : Prop := exists G0 o rs, G = G0 ++ [(o, rs)] /\ rs <> [].

Lemma fends_snoc o rs r : rs <> [] -> exists e, fends (o, rs ++ [r]) = fends (o, rs) ++ [e].
Proof.
  intros Hne. unfold fends. cbn [fst snd]. rewrite map_app, ends_from_app. simpl.
  eexists. apply tl_snoc. destruct rs; [congruence|discriminate].
Qed.

Lemma rec_ends_snoc (G : list jfile) g : rec_ends (G ++ [g]) = rec_ends G ++ fends g.
Proof. rewrite rec_ends_app. unfold rec_ends at 2. cbn [flat_map]. now rewrite app_nil_r. Qed.

Lemma fends_one o r : fends (o, [r]) = [].
Proof. reflexivity. Qed.

Lemma rec_ends_gnext k r G : glast_ne G ->
  glast_ne (gnext k r G) /\ exists more, rec_ends (gnext k r G) = rec_ends G ++ more.
Proof.
  intros (G0 & o & rs & -> & Hne). unfold gnext. destruct (accepted k r).
  - rewrite glast_app_snoc. destruct (fends_snoc o rs r Hne) as [e Ee].
    cbv zeta. destruct (is_full _ _).
    + split; [eexists _, _, _; split; [reflexivity|discriminate]|].
      exists [e]. rewrite !rec_ends_snoc, Ee, fends_one, app_nil_r, app_assoc. reflexivity.
    + split; [exists G0, o, (rs ++ [r]); split; [reflexivity|destruct rs; discriminate]|].
      exists [e]. rewrite !rec_ends_snoc, Ee, app_assoc. reflexivity.
  - split; [exists G0, o, rs; auto|]. exists []. now rewrite app_nil_r.
Qed.

Lemma rec_ends_gfold rs : forall k G, glast_ne G ->
  exists more, rec_ends (gfold k rs G) = rec_ends G ++ more.
Proof.
  induction rs as [|r rs IH]; intros k G HG; simpl.
  - exists []. now rewrite app_nil_r.
  - destruct (append_and_apply k r) as [[[k1 [off len|e]] ef]|]; try (exists []; now rewrite app_nil_r).
    destruct (rec_ends_gnext k r G HG) as [HG1 [m1 E1]].
    destruct (IH k1 _ HG1) as [m2 E2]. exists (m1 ++ m2). now rewrite E2, E1, app_assoc.
Qed.

Lemma files_ok_glast G sp : files_ok sp G -> (exists G0 o rs, G = G0 ++ [(o, rs)]) -> glast_ne G.
Proof.
  intros Hf (G0 & o & rs & ->). apply files_ok_app in Hf. destruct Hf as [_ Hf]. simpl in Hf.
  destruct Hf as (tl0 & E & _). exists G0, o, rs. split; [reflexivity|]. rewrite E. discriminate.
Qed.

(* every record ends at or before the end of the open chunk *)
Lemma ends_from_le l : forall s e, In e (ends_from s l) -> e <= s + nsum l.
Proof.
  induction l as [|a l IH]; intros s e H; simpl in *; [destruct H|].
  destruct H as [<-|H]; [lia|]. apply IH in H. lia.
Qed.

Lemma Abut_ends_le : forall G g gl G0, G = G0 ++ [gl] -> RF.Abut G -> In g G ->
  fst g + RF.glen g <= fst gl + RF.glen gl.
Proof.
  induction G as [|a G IH]; intros g gl G0 E Hab Hin; [destruct Hin|].
  destruct G0 as [|a0 G0'].
  - simpl in E. inversion E; subst. destruct Hin as [<-|[]]. lia.
  - simpl in E. inversion E; subst a0 G. simpl in Hab. destruct Hab as [Hab1 Hab2].
    destruct Hin as [<-|Hin].
    + destruct (G0' ++ [gl]) as [|b l] eqn:El; [destruct G0'; discriminate|].
      assert (Hb : fst b + RF.glen b <= fst gl + RF.glen gl).
      { eapply (IH b gl G0'); [symmetry; exact El|exact Hab2|now left]. }
      lia.
    + eapply IH; eauto.
Qed.

Lemma all_ends_le k cr t G : GI k cr t G -> Forall (fun e => e <= ck_end (k_open k)) (rec_ends G).
Proof.
  intros Gi. destruct (gi_last _ _ _ _ Gi) as (G0 & rs & EG).
  pose proof (ji_open_end _ _ _ (gi_jinv _ _ _ _ Gi)) as He.
  rewrite EG, gbytes_last in He by (rewrite <- EG; apply (gi_sorted _ _ _ _ Gi)).
  rewrite Forall_forall. intros e Hin. unfold rec_ends in Hin. apply in_flat_map in Hin.
  destruct Hin as (g & Hg & He'). unfold fends in He'.
  assert (He2 : In e (ends_from (fst g) (map rec_size (snd g)))).
  { destruct (ends_from (fst g) (map rec_size (snd g))); [destruct He'|now right]. }
  apply ends_from_le in He2. rewrite nsum_sizes in He2.
  pose proof (Abut_ends_le G g (ck_id (k_open k), rs) G0 EG (gi_abut _ _ _ _ Gi) Hg) as Hle.
  unfold RF.glen in Hle. simpl in Hle. rewrite He. unfold blen in *.
  change (ScanFacts.encs (snd g)) with (encs (snd g)) in Hle.
  change (ScanFacts.encs rs) with (encs rs) in Hle. lia.
Qed.

(* ------------------------------------------------------------------ the invariant of the system *)
Record SP (z : sys2) (G : list jfile) : Prop := mkSP {
  sp_sc : SC (z_core z) (PL.spec_wops spec0 (PL.hist z)) G;
  sp_tr : rtrace spec0 (jrecs G) = htrace spec0 (PL.hist z);
  sp_fl : forall cb U n, In (cb, U, n) (g_flushed (z_ghost z)) ->
          (n <= length (PL.hist z))%nat /\
          (length (htrace spec0 (firstn n (PL.hist z))) <= nb G U)%nat }.

Lemma R0_eq s s' sp : m_rs s' = m_rs s -> m_log s' = m_log s -> PL.R0 s sp -> PL.R0 s' sp.
Proof. intros E1 E2 [H1 H2 H3 H4]. constructor; rewrite ?E1, ?E2; assumption. Qed.

Lemma SC_eqj k k' sp G : core_eqj k k' -> SC k sp G -> SC k' sp G.
Proof.
  intros (_ & E2 & _ & _ & _ & E6 & E7) [H1 H2 H3 H4]. constructor; try assumption.
  - eapply R0_eq; eauto.
  - now rewrite E2.
Qed.

Lemma SP_frame z z' G : core_eqj (z_core z) (z_core z') ->
  g_writes (z_ghost z') = g_writes (z_ghost z) -> g_flushed (z_ghost z') = g_flushed (z_ghost z) ->
  SP z G -> SP z' G.
Proof.
  intros Hc Hw Hf [H1 H2 H3].
  assert (Hh : PL.hist z' = PL.hist z) by (unfold PL.hist; now rewrite Hw).
  constructor; rewrite ?Hh; try assumption.
  - eapply SC_eqj; eauto.
  - intros cb U n Hin. rewrite Hf in Hin. exact (H3 cb U n Hin).
Qed.

Lemma filter_all_len (l : list N) U : Forall (fun e => e <= U) l ->
  length (filter (fun e => N.leb e U) l) = length l.
Proof.
  induction 1 as [|e l He _ IH]; simpl; [reflexivity|].
  destruct (N.leb_spec e U); [simpl; now rewrite IH|lia].
Qed.

Lemma hist_snoc z w r g' :
  g_writes g' = g_writes (z_ghost z) ++ [(w, r)] ->
  map fst (g_writes g') = PL.hist z ++ [w].
Proof. intros ->. unfold PL.hist. now rewrite map_app. Qed.

Lemma SP_step z e z' v G :
  AD.full z -> JI z G -> (PL.hist_legal z -> SP z G) -> zstep z e = Some (z', v) ->
  PL.hist_legal z' -> SP z' (gstep z e G).
Proof.
  intros F J IH H Hl'. destruct e as [o| |k nf|ok|]; simpl in H.
  - unfold zcall in H.
    destruct (z_todo z) eqn:Et; [|discriminate]. destruct (z_dropped z); [discriminate|].
    destruct o as [w|cb|from to| | | | | |cfg']; cbn [gstep].
    + destruct (do_write (z_core z) w) as [[[k r] effs]|] eqn:E; [|discriminate].
      inversion H; subst; clear H.
      assert (Hh : PL.hist (set_ghost (set_todo (set_core z k) (flat_map expand_eff effs))
                     {| g_writes := g_writes (z_ghost z) ++ [(w, r)]; g_flushed := g_flushed (z_ghost z);
                        g_removals := g_removals (z_ghost z); g_created := g_created (z_ghost z) |})
                   = PL.hist z ++ [w]).
      { unfold PL.hist. simpl. now rewrite map_app. }
      unfold PL.hist_legal in Hl'. rewrite Hh, PL.wops_legal_snoc in Hl'.
      apply andb_true_iff in Hl'. destruct Hl' as [Hl Hlw].
      destruct (IH Hl) as [Hsc Htr Hfl].
      destruct (sc_write _ _ _ _ _ _ _ Hsc Hlw E) as [Hsc' (new & Hj & Hn)].
      constructor; rewrite ?Hh.
      * rewrite PL.spec_wops_snoc. exact Hsc'.
      * rewrite Hj, rtrace_app, Htr, (sc_cur _ _ _ Hsc), Hn, htrace_app. simpl. now rewrite app_nil_r.
      * simpl. intros cb U n Hin. destruct (Hfl cb U n Hin) as [Hn1 Hn2]. split.
        { rewrite app_length. lia. }
        rewrite firstn_app. replace (n - length (PL.hist z))%nat with 0%nat by lia.
        simpl. rewrite app_nil_r.
        destruct (rec_ends_gfold (wrecs (z_core z) w) (z_core z) G) as [more Em].
        { eapply files_ok_glast; [apply (sc_files _ _ _ Hsc)|].
          destruct (sc_last _ _ _ Hsc) as (G0 & rs0 & E0). eauto. }
        pose proof (nb_app_ge G more U) as Hge. unfold nb at 1. rewrite Em. lia.
    + unfold do_flush in H. inversion H; subst; clear H.
      match goal with |- SP ?zz _ => set (z' := zz) in * end.
      assert (Hh : PL.hist z' = PL.hist z) by reflexivity.
      assert (Hl : PL.hist_legal z) by exact Hl'.
      destruct (IH Hl) as [Hsc Htr Hfl].
      assert (Hlen : length (g_writes (z_ghost z)) = length (PL.hist z))
        by (unfold PL.hist; now rewrite map_length).
      constructor; rewrite ?Hh.
      * eapply SC_core; [| |exact Hsc]; reflexivity.
      * exact Htr.
      * intros cb0 U n Hin. unfold z' in Hin. cbn [z_ghost set_ghost g_flushed] in Hin.
        apply in_app_or in Hin. destruct Hin as [Hin|[Hin|[]]].
        { exact (Hfl cb0 U n Hin). }
        inversion Hin; subst cb0 U n. rewrite Hlen. split; [lia|].
        rewrite firstn_all, <- Htr, rtrace_length, <- rec_ends_length. unfold nb.
        rewrite filter_all_len; [lia|]. apply (all_ends_le _ _ _ _ (ji_gi _ _ J)).
    + destruct (do_read (z_core z) (z_disk z) from to) as [k items] eqn:Er. inversion H; subst; clear H.
      pose proof (JournalFacts.do_read_core (z_core z) (z_disk z) from to) as Hc. rewrite Er in Hc. simpl in Hc.
      apply (SP_frame z); [exact Hc|reflexivity|reflexivity|]. apply IH. exact Hl'.
    + inversion H; subst. apply IH, Hl'.
    + inversion H; subst. apply IH, Hl'.
    + inversion H; subst. apply IH, Hl'.
    + destruct (z_queue z); [|discriminate]. destruct (worker_quiet z); [|discriminate].
      inversion H; subst. apply IH, Hl'.
    + inversion H; subst; clear H.
      apply (SP_frame z); [apply core_eqj_cache|reflexivity|reflexivity|]. apply IH. exact Hl'.
    + discriminate.
  - cbn [gstep]. unfold zeff in H. destruct (z_todo z) as [|[id|id h|r] t] eqn:Et; [discriminate| | |];
      inversion H; subst; clear H;
      (apply (SP_frame z); [apply core_eqj_refl|reflexivity|reflexivity|]; apply IH; exact Hl').
  - cbn [gstep]. destruct (AD.zrecv_frame _ _ _ _ _ H) as (_ & Hg & Hc & _).
    apply (SP_frame z); [rewrite Hc; apply core_eqj_refl|now rewrite Hg|now rewrite Hg|].
    apply IH. unfold PL.hist_legal, PL.hist in *. now rewrite <- Hg.
  - cbn [gstep]. destruct (zwork_wk _ _ _ _ H) as (_ & Hg & Hc & _).
    apply (SP_frame z); [exact Hc|now rewrite Hg|now rewrite Hg|].
    apply IH. unfold PL.hist_legal, PL.hist in *. now rewrite <- Hg.
  - cbn [gstep]. destruct (z_todo z) eqn:Et; [|discriminate]. inversion H; subst; clear H.
    apply (SP_frame z); [apply core_eqj_refl|reflexivity|reflexivity|]. apply IH. exact Hl'.
Qed.

Lemma SP_init cfg : SP (AF.zstart cfg) G_init.
Proof.
  constructor.
  - constructor.
    + simpl. exists []. split; [reflexivity|]. split; exact I.
    + reflexivity.
    + constructor; simpl; try reflexivity; [constructor|intros e []].
    + exists [], [RState rstate0]. reflexivity.
  - reflexivity.
  - intros cb U n [].
Qed.

Theorem L2_spec : forall cfg z, zreach cfg z -> hist_wf z -> PL.hist_legal z ->
  exists G, JI z G /\ SP z G.
Proof.
  intros cfg z Hr Hw Hl.
  destruct (L2_journal_ind (fun z G => PL.hist_legal z -> SP z G) cfg) with (z := z)
    as (G & J & HP); try assumption.
  - intros _. apply SP_init.
  - intros z0 e z1 v G F J _ IH Hs Hl1. eapply SP_step; eauto.
  - exists G. split; [exact J|]. apply HP, Hl.
Qed.

Print Assumptions L2_spec.
