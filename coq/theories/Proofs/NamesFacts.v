(* Facts about the chunk file name codec (Model/Names.v), part of property C11:
   round trip, injectivity, fixed length, numeric order = lexicographic order of names,
   and the parser only returns u64 values. *)
From Coq Require Import List NArith Lia Bool Arith.
From Coq.Strings Require Import Byte.
From RaftLog Require Import Base.Bytes Model.Types Model.Names.
From RaftLog Require Import Proofs.CodecFacts.
Import ListNotations.
Local Open Scope N_scope.

Local Arguments N.add : simpl never.
Local Arguments N.sub : simpl never.
Local Arguments N.mul : simpl never.
Local Arguments N.div : simpl never.
Local Arguments N.modulo : simpl never.
Local Arguments N.pow : simpl never.
Local Arguments N.eqb : simpl never.
Local Arguments N.ltb : simpl never.
Local Arguments N.leb : simpl never.
Local Arguments N.compare : simpl never.
Local Arguments digits : simpl never.

(* ------------------------------------------------------------------ *)
(* Digit bytes                                                         *)
(* ------------------------------------------------------------------ *)
Lemma b2n_digit_byte d : d < 10 -> b2n (digit_byte d) = 48 + d.
Proof.
  intros Hd. unfold digit_byte. rewrite b2n_n2b. apply N.mod_small. lia.
Qed.

Lemma is_digit_digit_byte d : d < 10 -> is_digit (digit_byte d) = true.
Proof.
  intros Hd. unfold is_digit. rewrite (b2n_digit_byte d Hd).
  apply andb_true_intro. split; apply N.leb_le; lia.
Qed.

Lemma is_digit_underscore : is_digit x5f = false.
Proof. reflexivity. Qed.

Lemma pow10_pos k : 10 ^ k <> 0.
Proof. apply N.pow_nonzero. discriminate. Qed.

Lemma mod10_lt x : x mod 10 < 10.
Proof. apply N.mod_lt. discriminate. Qed.

(* ------------------------------------------------------------------ *)
(* digits                                                              *)
(* ------------------------------------------------------------------ *)
Lemma digits_S k n :
  digits (S k) n = digit_byte ((n / 10 ^ N.of_nat k) mod 10) :: digits k n.
Proof. reflexivity. Qed.

Lemma digits_length k n : length (digits k n) = k.
Proof.
  induction k as [|k IH].
  - reflexivity.
  - rewrite digits_S. cbn [length]. now rewrite IH.
Qed.

Lemma digits_all_digit k n : Forall (fun b => is_digit b = true) (digits k n).
Proof.
  induction k as [|k IH].
  - constructor.
  - rewrite digits_S. constructor.
    + apply is_digit_digit_byte, mod10_lt.
    + exact IH.
Qed.

Definition dstep (acc : N) (d : byte) : N := acc * 10 + (b2n d - 48).

Lemma mod_pow10_S k n :
  n mod 10 ^ N.of_nat (S k) =
  n mod 10 ^ N.of_nat k + 10 ^ N.of_nat k * ((n / 10 ^ N.of_nat k) mod 10).
Proof.
  rewrite Nat2N.inj_succ, N.pow_succ_r'.
  rewrite (N.mul_comm 10).
  apply N.mod_mul_r.
  - apply pow10_pos.
  - discriminate.
Qed.

Lemma digits_value k : forall n acc,
  fold_left dstep (digits k n) acc = acc * 10 ^ N.of_nat k + n mod 10 ^ N.of_nat k.
Proof.
  induction k as [|k IH]; intros n acc.
  - change (digits 0 n) with (@nil byte). cbn [fold_left].
    change (N.of_nat 0) with 0. rewrite N.pow_0_r, N.mod_1_r. lia.
  - rewrite digits_S. cbn [fold_left]. rewrite IH.
    rewrite mod_pow10_S.
    unfold dstep. rewrite b2n_digit_byte by apply mod10_lt.
    rewrite Nat2N.inj_succ, N.pow_succ_r'.
    set (q := 10 ^ N.of_nat k). set (h := (n / q) mod 10). set (l := n mod q).
    replace (48 + h - 48) with h by lia. ring.
Qed.

Lemma U64MAX_lt_pow : U64MAX < 10 ^ 20.
Proof. vm_compute. reflexivity. Qed.

Lemma digits20_value n :
  n <= U64MAX -> fold_left dstep (digits 20 n) 0 = n.
Proof.
  intros Hn. rewrite digits_value. change (N.of_nat 20) with 20.
  rewrite N.mod_small.
  - lia.
  - pose proof U64MAX_lt_pow. lia.
Qed.

(* ------------------------------------------------------------------ *)
(* grouped                                                             *)
(* ------------------------------------------------------------------ *)
Definition sep (len i : nat) : bytes :=
  if Nat.ltb 0 i && Nat.eqb ((len - i) mod 3) 0 then [x5f] else [].

Lemma grouped_aux_cons len i d r :
  grouped_aux len i (d :: r) = sep len i ++ d :: grouped_aux len (S i) r.
Proof. reflexivity. Qed.

Lemma sep_cases len i : sep len i = [x5f] \/ sep len i = [].
Proof.
  unfold sep. destruct (Nat.ltb 0 i && Nat.eqb ((len - i) mod 3) 0); auto.
Qed.

Lemma filter_grouped_aux len ds : forall i,
  Forall (fun b => is_digit b = true) ds ->
  filter is_digit (grouped_aux len i ds) = ds.
Proof.
  induction ds as [|d r IH]; intros i Hall.
  - reflexivity.
  - inversion Hall as [|d' r' Hd Hr]; subst.
    rewrite grouped_aux_cons.
    destruct (sep_cases len i) as [E|E]; rewrite E.
    + cbn [app filter]. rewrite is_digit_underscore, Hd. f_equal. now apply IH.
    + cbn [app filter]. rewrite Hd. f_equal. now apply IH.
Qed.

Lemma filter_grouped ds :
  Forall (fun b => is_digit b = true) ds -> filter is_digit (grouped ds) = ds.
Proof. intros H. unfold grouped. now apply filter_grouped_aux. Qed.

Lemma list20 (A : Type) (l : list A) :
  length l = 20%nat ->
  exists d0 d1 d2 d3 d4 d5 d6 d7 d8 d9 d10 d11 d12 d13 d14 d15 d16 d17 d18 d19,
    l = [d0; d1; d2; d3; d4; d5; d6; d7; d8; d9;
         d10; d11; d12; d13; d14; d15; d16; d17; d18; d19].
Proof.
  intros H.
  do 20 (destruct l as [|? l]; [discriminate H|]).
  destruct l as [|? l]; [|discriminate H].
  repeat eexists.
Qed.

Lemma grouped_length20 ds : length ds = 20%nat -> length (grouped ds) = 26%nat.
Proof.
  intros H. destruct (list20 _ ds H) as
    (d0 & d1 & d2 & d3 & d4 & d5 & d6 & d7 & d8 & d9 & d10 & d11 & d12 & d13 &
     d14 & d15 & d16 & d17 & d18 & d19 & E).
  subst ds. reflexivity.
Qed.

(* ------------------------------------------------------------------ *)
(* strip_prefix / strip_suffix                                         *)
(* ------------------------------------------------------------------ *)
Lemma bytes_eqb_refl a : bytes_eqb a a = true.
Proof.
  unfold bytes_eqb. rewrite Nat.eqb_refl. cbn [andb].
  induction a as [|x a IH].
  - reflexivity.
  - cbn [combine forallb fst snd]. rewrite N.eqb_refl. exact IH.
Qed.

Lemma strip_prefix_app p s : strip_prefix p (p ++ s) = Some s.
Proof.
  unfold strip_prefix.
  rewrite firstn_app, Nat.sub_diag, firstn_all. cbn [firstn]. rewrite app_nil_r.
  rewrite bytes_eqb_refl.
  rewrite skipn_app, Nat.sub_diag, skipn_all. reflexivity.
Qed.

Lemma strip_suffix_app p s : strip_suffix p (s ++ p) = Some s.
Proof.
  unfold strip_suffix. rewrite app_length.
  replace (length s + length p - length p)%nat with (length s) by lia.
  replace (Nat.leb (length p) (length s + length p)) with true
    by (symmetry; apply Nat.leb_le; lia).
  rewrite skipn_app, Nat.sub_diag, skipn_all. cbn [skipn app].
  rewrite bytes_eqb_refl. cbn [andb].
  rewrite firstn_app, Nat.sub_diag, firstn_all. cbn [firstn]. now rewrite app_nil_r.
Qed.

(* ------------------------------------------------------------------ *)
(* Round trip, injectivity, length, range                              *)
(* ------------------------------------------------------------------ *)
Lemma parse_dec_digits20 n : n <= U64MAX -> parse_dec (digits 20 n) = Some n.
Proof.
  intros Hn. unfold parse_dec.
  destruct (digits 20 n) as [|d r] eqn:E.
  - pose proof (digits_length 20 n) as HL. rewrite E in HL. discriminate HL.
  - rewrite <- E. change (fun acc d0 => acc * 10 + (b2n d0 - 48)) with dstep.
    rewrite (digits20_value n Hn).
    replace (N.leb n U64MAX) with true by (symmetry; apply N.leb_le; exact Hn).
    reflexivity.
Qed.

Theorem C11_name_roundtrip : forall n,
  (n <= U64MAX)%N -> parse_chunk_file_name (chunk_file_name n) = Some n.
Proof.
  intros n Hn. unfold parse_chunk_file_name, chunk_file_name.
  rewrite app_assoc, strip_suffix_app.
  rewrite strip_prefix_app.
  rewrite (grouped_length20 _ (digits_length 20 n)).
  change (Nat.eqb 26 26) with true. cbv iota.
  rewrite (filter_grouped _ (digits_all_digit 20 n)).
  apply parse_dec_digits20, Hn.
Qed.

Theorem C11_name_injective : forall n m,
  (n <= U64MAX)%N -> (m <= U64MAX)%N -> chunk_file_name n = chunk_file_name m -> n = m.
Proof.
  intros n m Hn Hm E.
  pose proof (C11_name_roundtrip n Hn) as Rn.
  pose proof (C11_name_roundtrip m Hm) as Rm.
  rewrite E in Rn. rewrite Rn in Rm. now inversion Rm.
Qed.

Theorem C11_name_length : forall n, length (chunk_file_name n) = 32%nat.
Proof.
  intros n. unfold chunk_file_name. rewrite !app_length.
  rewrite (grouped_length20 _ (digits_length 20 n)). reflexivity.
Qed.

Lemma parse_dec_range ds n : parse_dec ds = Some n -> n <= U64MAX.
Proof.
  unfold parse_dec. destruct ds as [|d r].
  - discriminate.
  - destruct (N.leb (fold_left (fun acc d0 => acc * 10 + (b2n d0 - 48)) (d :: r) 0) U64MAX) eqn:E.
    + intros H. inversion H; subst. apply N.leb_le. exact E.
    + discriminate.
Qed.

Theorem C11_parse_range : forall s n,
  parse_chunk_file_name s = Some n -> (n <= U64MAX)%N.
Proof.
  intros s n. unfold parse_chunk_file_name.
  destruct (strip_suffix suffix_wal s) as [s1|] eqn:E1; [|discriminate].
  destruct (strip_prefix prefix_r s1) as [s2|] eqn:E2; [|discriminate].
  destruct (Nat.eqb (length s2) 26) eqn:E3; [|discriminate].
  apply parse_dec_range.
Qed.

(* ------------------------------------------------------------------ *)
(* Order                                                               *)
(* ------------------------------------------------------------------ *)
Lemma bytes_ltb_cons x y a b :
  bytes_ltb (x :: a) (y :: b) =
  if N.ltb (b2n x) (b2n y) then true
  else if N.eqb (b2n x) (b2n y) then bytes_ltb a b else false.
Proof. reflexivity. Qed.

Lemma bytes_ltb_same_head x a b : bytes_ltb (x :: a) (x :: b) = bytes_ltb a b.
Proof. rewrite bytes_ltb_cons, N.ltb_irrefl, N.eqb_refl. reflexivity. Qed.

Lemma bytes_ltb_app_l p a b : bytes_ltb (p ++ a) (p ++ b) = bytes_ltb a b.
Proof.
  induction p as [|x p IH].
  - reflexivity.
  - cbn [app]. rewrite bytes_ltb_same_head. exact IH.
Qed.

Lemma bytes_ltb_app_r s : forall a b,
  length a = length b -> bytes_ltb a b = true -> bytes_ltb (a ++ s) (b ++ s) = true.
Proof.
  induction a as [|x a IH]; intros b HL H.
  - destruct b as [|y b]; [discriminate H|discriminate HL].
  - destruct b as [|y b]; [discriminate HL|].
    cbn [app]. rewrite bytes_ltb_cons in *.
    destruct (N.ltb (b2n x) (b2n y)); [reflexivity|].
    destruct (N.eqb (b2n x) (b2n y)); [|discriminate H].
    apply IH; [now inversion HL|exact H].
Qed.

Lemma grouped_aux_ltb len : forall a b i,
  length a = length b -> bytes_ltb a b = true ->
  bytes_ltb (grouped_aux len i a) (grouped_aux len i b) = true.
Proof.
  induction a as [|x a IH]; intros b i HL H.
  - destruct b as [|y b]; [discriminate H|discriminate HL].
  - destruct b as [|y b]; [discriminate HL|].
    rewrite !grouped_aux_cons, bytes_ltb_app_l.
    rewrite bytes_ltb_cons in *.
    destruct (N.ltb (b2n x) (b2n y)); [reflexivity|].
    destruct (N.eqb (b2n x) (b2n y)); [|discriminate H].
    apply IH; [now inversion HL|exact H].
Qed.

Lemma grouped_aux_length_eq len : forall (a b : bytes) i,
  length a = length b ->
  length (grouped_aux len i a) = length (grouped_aux len i b).
Proof.
  induction a as [|x a IH]; intros b i HL.
  - destruct b; [reflexivity|discriminate HL].
  - destruct b as [|y b]; [discriminate HL|].
    rewrite !grouped_aux_cons, !app_length. cbn [length].
    rewrite (IH b (S i)) by now inversion HL. reflexivity.
Qed.

(* most significant digit first: numeric order = lexicographic order of digit strings *)
Lemma digits_ltb k : forall n m,
  n mod 10 ^ N.of_nat k < m mod 10 ^ N.of_nat k ->
  bytes_ltb (digits k n) (digits k m) = true.
Proof.
  induction k as [|k IH]; intros n m H.
  - change (N.of_nat 0) with 0 in H. rewrite N.pow_0_r, !N.mod_1_r in H. lia.
  - rewrite !digits_S, bytes_ltb_cons.
    rewrite !mod_pow10_S in H.
    rewrite !b2n_digit_byte by apply mod10_lt.
    pose proof (pow10_pos (N.of_nat k)) as Hq.
    pose proof (N.mod_lt n _ Hq) as Hln.
    pose proof (N.mod_lt m _ Hq) as Hlm.
    specialize (IH n m).
    set (q := 10 ^ N.of_nat k) in *.
    set (hn := (n / q) mod 10) in *. set (hm := (m / q) mod 10) in *.
    set (ln := n mod q) in *. set (lm := m mod q) in *.
    destruct (N.ltb (48 + hn) (48 + hm)) eqn:E1; [reflexivity|].
    apply N.ltb_ge in E1.
    assert (Hh : hm <= hn) by lia.
    destruct (N.eq_dec hn hm) as [Eh|Nh].
    + rewrite Eh, N.eqb_refl. apply IH. rewrite Eh in H. lia.
    + exfalso. assert (Hlt : hm + 1 <= hn) by lia.
      pose proof (N.mul_le_mono_l _ _ q Hlt) as Hmul. lia.
Qed.

Theorem C11_name_order : forall n m,
  (n <= U64MAX)%N -> (m <= U64MAX)%N -> (n < m)%N ->
  bytes_ltb (chunk_file_name n) (chunk_file_name m) = true.
Proof.
  intros n m Hn Hm Hlt. unfold chunk_file_name.
  rewrite bytes_ltb_app_l.
  pose proof U64MAX_lt_pow as HU.
  assert (HL : length (digits 20 n) = length (digits 20 m))
    by now rewrite !digits_length.
  apply bytes_ltb_app_r.
  - unfold grouped. rewrite <- HL. now apply grouped_aux_length_eq.
  - unfold grouped. rewrite <- HL. apply grouped_aux_ltb; [exact HL|].
    apply digits_ltb. change (N.of_nat 20) with 20.
    rewrite !N.mod_small by lia. exact Hlt.
Qed.

Print Assumptions C11_name_roundtrip.
Print Assumptions C11_name_injective.
Print Assumptions C11_name_length.
Print Assumptions C11_name_order.
Print Assumptions C11_parse_range.
