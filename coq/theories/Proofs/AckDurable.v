(* C04 (part 2): a callback reports success only after everything journalled before
   its flush call has been written and synced: C04_ack_after_sync. *)
From Coq Require Import List NArith Bool Lia Arith Sorting.Sorted.
From Coq Require Import ZifyBool ZifyN ZifyNat.
From Coq.Strings Require Import Byte.
From RaftLog Require Import Base.Bytes Model.Types Model.Codec Model.Cache Model.Core
  Model.Recover Model.Run Model.Sys Spec.Durable.
From RaftLog Require Import Proofs.CodecFacts Proofs.NoPanic Proofs.AckFacts.
Import ListNotations.
Local Open Scope N_scope.
Arguments N.add : simpl never.
Arguments N.sub : simpl never.
Arguments N.mul : simpl never.
Arguments N.eqb : simpl never.
Arguments N.ltb : simpl never.
Arguments N.leb : simpl never.
Arguments N.min : simpl never.
Arguments N.compare : simpl never.
Arguments N.of_nat : simpl never.
Arguments N.to_nat : simpl never.

Notation blen b := (N.of_nat (length b)).

(* ------------------------------------------------------------------ disk lemmas *)
Definition ids_lt (d : disk) (x : N) : Prop := Forall (fun f => f_id f < x) d.

Lemma sorted_app_inv (a b : disk) : disk_sorted (a ++ b) ->
  disk_sorted a /\ disk_sorted b /\ forall f g, In f a -> In g b -> f_id f < f_id g.
Proof. unfold disk_sorted. intros H. apply ss_app in H. exact H. Qed.

Lemma disk_put_end f d : ids_lt d (f_id f) -> disk_put f d = d ++ [f].
Proof.
  induction d as [|g r IH]; intros H; simpl; [reflexivity|].
  inversion H; subst. destruct (N.compare_spec (f_id f) (f_id g)); try lia.
  f_equal. now apply IH.
Qed.

Lemma disk_get_none_lt id d : Forall (fun f => id < f_id f) d -> disk_get id d = None.
Proof.
  induction d as [|g r IH]; intros H; simpl; [reflexivity|]. inversion H; subst.
  destruct (N.eqb_spec id (f_id g)); [lia|]. now apply IH.
Qed.

Lemma disk_get_mid a f b : disk_sorted (a ++ f :: b) -> disk_get (f_id f) (a ++ f :: b) = Some f.
Proof.
  induction a as [|g a IH]; intros H; simpl.
  - now rewrite N.eqb_refl.
  - inversion H; subst. rewrite Forall_app in H3. destruct H3 as [_ H3]. inversion H3; subst.
    unfold file_lt in H4. destruct (N.eqb_spec (f_id f) (f_id g)); [lia|]. now apply IH.
Qed.

Lemma disk_put_mid a f f' b : f_id f' = f_id f -> disk_sorted (a ++ f :: b) ->
  disk_put f' (a ++ f :: b) = a ++ f' :: b.
Proof.
  intros Hid. induction a as [|g a IH]; intros H; simpl.
  - rewrite Hid. now rewrite N.compare_refl.
  - inversion H; subst. rewrite Forall_app in H3. destruct H3 as [_ H3]. inversion H3; subst.
    unfold file_lt in H4. rewrite Hid. destruct (N.compare_spec (f_id f) (f_id g)); try lia.
    f_equal. now apply IH.
Qed.

Lemma disk_append_mid a f b data : disk_sorted (a ++ f :: b) ->
  disk_append (f_id f) data (a ++ f :: b) = a ++ mkFile (f_id f) (f_data f ++ data) (f_synced f) :: b.
Proof.
  intros H. unfold disk_append. rewrite disk_get_mid by exact H. now apply disk_put_mid.
Qed.

Lemma disk_sync_mid a f b : disk_sorted (a ++ f :: b) ->
  disk_sync (f_id f) (a ++ f :: b) = a ++ mkFile (f_id f) (f_data f) (blen (f_data f)) :: b.
Proof.
  intros H. unfold disk_sync. rewrite disk_get_mid by exact H. now apply disk_put_mid.
Qed.

Lemma disk_remove_absent id d : Forall (fun f => f_id f <> id) d -> disk_remove id d = d.
Proof.
  induction d as [|g r IH]; intros H; simpl; [reflexivity|]. inversion H; subst.
  destruct (N.eqb_spec id (f_id g)); [congruence|]. simpl. f_equal. now apply IH.
Qed.

(* removing an id that is not above any present id removes the first file or nothing *)
Lemma disk_remove_first id d : disk_sorted d -> Forall (fun f => id <= f_id f) d ->
  disk_remove id d = d \/ exists f r, d = f :: r /\ f_id f = id /\ disk_remove id d = r.
Proof.
  intros Hs Hle. destruct d as [|f r]; [now left|].
  inversion Hs; subst. inversion Hle; subst.
  destruct (N.eqb_spec id (f_id f)) as [E|E].
  - right. exists f, r. split; [reflexivity|]. split; [now symmetry|].
    simpl. rewrite E, N.eqb_refl. simpl. apply disk_remove_absent.
    eapply Forall_impl; [|exact H2]. unfold file_lt. simpl. intros; lia.
  - left. apply disk_remove_absent. constructor; [congruence|].
    eapply Forall_impl; [|exact H2]. unfold file_lt. simpl. intros; lia.
Qed.

Lemma disk_wop_ids (P : N -> Prop) d id :
  Forall (fun f => P (f_id f)) d ->
  forall d', (exists data, d' = disk_append id data d) \/ d' = disk_sync id d \/ d' = disk_remove id d ->
  Forall (fun f => P (f_id f)) d'.
Proof.
  intros Hd d' [[data ->]|[->| ->]].
  - unfold disk_append. destruct (disk_get id d) as [f|] eqn:E; [|exact Hd].
    destruct (disk_get_In _ _ _ E) as [Hin Hid]. apply disk_put_Forall; [|exact Hd].
    simpl. rewrite <- Hid. rewrite Forall_forall in Hd. now apply Hd.
  - unfold disk_sync. destruct (disk_get id d) as [f|] eqn:E; [|exact Hd].
    destruct (disk_get_In _ _ _ E) as [Hin Hid]. apply disk_put_Forall; [|exact Hd].
    simpl. rewrite <- Hid. rewrite Forall_forall in Hd. now apply Hd.
  - unfold disk_remove. rewrite Forall_forall in *. intros f Hf. apply filter_In in Hf. now apply Hd.
Qed.

(* ------------------------------------------------------------------ durable_upto *)
Lemma durable_tail f d U : durable_upto (f :: d) U -> durable_upto d U.
Proof. simpl. tauto. Qed.

(* only ids and synced lengths matter; synced may grow *)
Lemma durable_mono d d' U :
  Forall2 (fun f f' => f_id f' = f_id f /\ f_synced f <= f_synced f') d d' ->
  durable_upto d U -> durable_upto d' U.
Proof.
  induction 1 as [|f f' r r' [Hid Hsy] Hr IH]; [auto|].
  simpl. intros [H1 H2]. split; [|now apply IH].
  intros Hlt. rewrite Hid in *. specialize (H1 Hlt).
  destruct Hr as [|g g' r0 r0' [Hg _] _]; [lia|]. rewrite Hg. lia.
Qed.

Lemma Forall2_refl_mid {A} (R : A -> A -> Prop) a x y b :
  (forall z, R z z) -> R x y -> Forall2 R (a ++ x :: b) (a ++ y :: b).
Proof.
  intros Hr Hxy. apply Forall2_app; [|constructor; [exact Hxy|]].
  - induction a; constructor; auto.
  - induction b; constructor; auto.
Qed.

Lemma durable_append id data d U : disk_sorted d -> durable_upto d U -> durable_upto (disk_append id data d) U.
Proof.
  intros Hs H. unfold disk_append. destruct (disk_get id d) as [f|] eqn:E; [|exact H].
  destruct (disk_get_In _ _ _ E) as [Hin Hid]. destruct (in_split _ _ Hin) as (a & b & ->).
  rewrite disk_put_mid with (f := f) by (simpl; auto).
  eapply durable_mono; [|exact H]. apply Forall2_refl_mid.
  - intros z0. split; [reflexivity|lia].
  - simpl. split; [now symmetry|lia].
Qed.

Lemma durable_sync id d U : disk_sorted d -> Forall synced_le d ->
  durable_upto d U -> durable_upto (disk_sync id d) U.
Proof.
  intros Hs Hle H. unfold disk_sync. destruct (disk_get id d) as [f|] eqn:E; [|exact H].
  destruct (disk_get_In _ _ _ E) as [Hin Hid]. destruct (in_split _ _ Hin) as (a & b & ->).
  rewrite disk_put_mid with (f := f) by (simpl; auto).
  eapply durable_mono; [|exact H]. apply Forall2_refl_mid.
  - intros z0. split; [reflexivity|lia].
  - simpl. split; [now symmetry|]. rewrite Forall_forall in Hle. apply (Hle f Hin).
Qed.

Lemma durable_snoc d g U : U <= f_id g -> durable_upto d U -> durable_upto (d ++ [g]) U.
Proof.
  intros Hg. induction d as [|f r IH]; simpl.
  - intros _. split; [lia|exact I].
  - intros [H1 H2]. split; [|now apply IH].
    intros Hlt. specialize (H1 Hlt). destruct r as [|h r']; simpl; lia.
Qed.

Lemma durable_remove_first id d U : disk_sorted d -> Forall (fun f => id <= f_id f) d ->
  durable_upto d U -> durable_upto (disk_remove id d) U.
Proof.
  intros Hs Hle H. destruct (disk_remove_first id d Hs Hle) as [->|(f & r & -> & _ & ->)]; [exact H|].
  eapply durable_tail; eauto.
Qed.

(* ------------------------------------------------------------------ frames *)
Definition core_same (k k' : core) : Prop :=
  k_open k' = k_open k /\ k_pending k' = k_pending k /\ k_closed k' = k_closed k /\
  k_removed k' = k_removed k /\ k_next_cb k' = k_next_cb k.

Lemma core_same_refl k : core_same k k.
Proof. repeat split. Qed.

Definition disk_wop (d d' : disk) : Prop :=
  d' = d \/ exists id, (exists data, d' = disk_append id data d) \/ d' = disk_sync id d \/ d' = disk_remove id d.

Lemma zwork_frame z ok z' v : zwork z ok = Some (z', v) ->
  z_todo z' = z_todo z /\ z_ghost z' = z_ghost z /\ z_queue z' = z_queue z /\
  core_same (z_core z) (z_core z') /\ disk_wop (z_disk z) (z_disk z') /\ z_dropped z' = z_dropped z.
Proof.
  unfold zwork. intros H. inv_step H; simpl; repeat split; try (left; reflexivity);
    right; eexists; eauto.
Qed.

Lemma zrecv_frame z k nf z' v : zrecv z k nf = Some (z', v) ->
  z_todo z' = z_todo z /\ z_ghost z' = z_ghost z /\ z_core z' = z_core z /\ z_disk z' = z_disk z /\
  z_acks z' = z_acks z.
Proof. unfold zrecv. intros H. inv_step H; simpl; repeat split. Qed.

Lemma alive_back z e z' v : zstep z e = Some (z', v) -> w_alive (z_w z') = true -> w_alive (z_w z) = true.
Proof.
  intros H. destruct e as [o| |k nf|ok|]; simpl in H.
  - unfold zcall in H. inv_step H; simpl; auto.
  - unfold zeff in H. inv_step H; simpl; auto.
  - unfold zrecv in H. inv_step H; simpl; auto.
  - unfold zwork in H. inv_step H; simpl; auto.
  - inv_step H; simpl; auto.
Qed.

(* ------------------------------------------------------------------ the caller-side invariant *)
Definition creates (t : list xeff) : list N :=
  flat_map (fun x => match x with XCreate id => [id] | _ => [] end) t.
Definition ecreates (effs : list eff) : list N := creates (flat_map expand_eff effs).
Definition flushed_us (z : sys2) : list N := map (fun p => snd (fst p)) (g_flushed (z_ghost z)).
Definition cb_below (b : N) (p : option N * N * nat) : Prop :=
  match fst (fst p) with Some c => c < b | None => True end.

Record binv (z : sys2) : Prop := {
  b_sorted : disk_sorted (z_disk z);
  b_synced : Forall synced_le (z_disk z);
  b_creates : StronglySorted N.lt (creates (z_todo z));
  b_dlt : forall f c, In f (z_disk z) -> In c (creates (z_todo z)) -> f_id f < c;
  b_dle : Forall (fun f => f_id f <= ck_id (k_open (z_core z))) (z_disk z);
  b_cle : Forall (fun c => c <= ck_id (k_open (z_core z))) (creates (z_todo z));
  b_open : ck_id (k_open (z_core z)) < ck_end (k_open (z_core z));
  b_us : Forall (fun U => U <= ck_end (k_open (z_core z))) (flushed_us z);
  b_usc : forall U c, In U (flushed_us z) -> In c (creates (z_todo z)) -> U <= c;
  b_fcb : Forall (cb_below (k_next_cb (z_core z))) (g_flushed (z_ghost z)) }.

Lemma blen_pos (l : bytes) : l <> [] -> 0 < blen l.
Proof. destruct l; [congruence|]. simpl. lia. Qed.

Lemma ck_end_empty id : ck_end (mkChunk id []) = id.
Proof. reflexivity. Qed.

Lemma ecreates_app a b : ecreates (a ++ b) = ecreates a ++ ecreates b.
Proof. unfold ecreates, creates. now rewrite !flat_map_app. Qed.

Lemma aa_res_open k k' effs : aa_res k k' effs -> ck_id (k_open k) < ck_end (k_open k) ->
  ck_id (k_open k') < ck_end (k_open k') /\ ck_id (k_open k) <= ck_id (k_open k') /\
  ck_end (k_open k) <= ck_end (k_open k') /\
  StronglySorted N.lt (ecreates effs) /\
  Forall (fun c => ck_end (k_open k) <= c /\ c <= ck_id (k_open k')) (ecreates effs).
Proof.
  intros H Ho. destruct H as [|k' data Hd Hop _ _ _ _|k' data head prev st Hd Hh Hop _ _ _ _].
  - repeat split; try lia; constructor.
  - rewrite Hop, ck_end_push, ck_id_push. repeat split; try lia; constructor.
  - rewrite Hop, ck_end_push, ck_id_push, ck_end_empty. cbn [ck_id].
    pose proof (blen_pos _ Hd). pose proof (blen_pos _ Hh).
    repeat split; try lia.
    + unfold ecreates; simpl. repeat constructor.
    + unfold ecreates; simpl. repeat constructor; lia.
Qed.

Lemma aa_chain_open k k' effs : aa_chain k k' effs -> ck_id (k_open k) < ck_end (k_open k) ->
  ck_id (k_open k') < ck_end (k_open k') /\ ck_id (k_open k) <= ck_id (k_open k') /\
  ck_end (k_open k) <= ck_end (k_open k') /\
  StronglySorted N.lt (ecreates effs) /\
  Forall (fun c => ck_end (k_open k) <= c /\ c <= ck_id (k_open k')) (ecreates effs).
Proof.
  induction 1 as [k|k k1 k2 e1 e2 H1 H2 IH]; intros Ho.
  - repeat split; try lia; constructor.
  - destruct (aa_res_open _ _ _ H1 Ho) as (Ho1 & Hi1 & He1 & Hs1 & Hf1).
    destruct (IH Ho1) as (Ho2 & Hi2 & He2 & Hs2 & Hf2).
    rewrite ecreates_app. repeat split; try lia.
    + apply ss_app. split; [exact Hs1|]. split; [exact Hs2|].
      intros x y Hx Hy. rewrite Forall_forall in Hf1, Hf2.
      specialize (Hf1 x Hx). specialize (Hf2 y Hy). lia.
    + rewrite Forall_app. split.
      * eapply Forall_impl; [|exact Hf1]. simpl. intros; lia.
      * eapply Forall_impl; [|exact Hf2]. simpl. intros; lia.
Qed.

Lemma binv_init cfg : binv (zstart cfg).
Proof.
  constructor; simpl.
  - repeat constructor.
  - repeat constructor. unfold synced_le; simpl. lia.
  - constructor.
  - intros f c _ [].
  - repeat constructor. simpl. lia.
  - constructor.
  - rewrite ck_end_push, ck_end_empty. pose proof (enc_record_min_len (RState (m_rs (sm_new cfg)))).
    unfold head0. lia.
  - constructor.
  - intros U c [].
  - constructor.
Qed.

Lemma disk_wop_sorted d d' : disk_wop d d' -> disk_sorted d -> disk_sorted d'.
Proof.
  intros [->|(id & [[data ->]|[->| ->]])] H; auto using disk_append_sorted, disk_sync_sorted, disk_remove_sorted.
Qed.

Lemma disk_wop_is_op d d' : disk_wop d d' -> disk_op d d'.
Proof. intros [->|(id & [[data ->]|[->| ->]])]; constructor. Qed.

Lemma disk_wop_ids' (P : N -> Prop) d d' : disk_wop d d' ->
  Forall (fun f => P (f_id f)) d -> Forall (fun f => P (f_id f)) d'.
Proof.
  intros [->|(id & H)] Hd; [exact Hd|]. eapply disk_wop_ids; eauto.
Qed.

Lemma disk_wop_in d d' f' : disk_wop d d' -> In f' d' -> exists f, In f d /\ f_id f = f_id f'.
Proof.
  intros Hop Hin.
  assert (H : Forall (fun f => exists g, In g d /\ f_id g = f_id f) d').
  { apply (disk_wop_ids' (fun i => exists g, In g d /\ f_id g = i) d d' Hop).
    rewrite Forall_forall. intros g Hg. exists g. auto. }
  rewrite Forall_forall in H. now apply H.
Qed.

Lemma binv_step z e z' v : binv z -> zstep z e = Some (z', v) -> binv z'.
Proof.
  intros B H. destruct e as [o| |k nf|ok|]; simpl in H.
  - (* ZCall *)
    unfold zcall in H.
    destruct (z_todo z) eqn:Et; [|discriminate]. destruct (z_dropped z); [discriminate|].
    destruct o as [w|cb|from to| | | | | |cfg'].
    + destruct (do_write (z_core z) w) as [[[k r] effs]|] eqn:E; [|discriminate].
      inversion H; subst; clear H. apply do_write_inv in E. destruct E as (k1 & Hc & Hp).
      destruct Hp as (Hpo & _ & Hpn & _).
      pose proof (aa_chain_nocb _ _ _ Hc) as [Hn _].
      destruct (aa_chain_open _ _ _ Hc (b_open _ B)) as (Ho1 & Hi1 & He1 & Hs1 & Hf1).
      fold (ecreates effs) in *.
      destruct B. constructor; simpl; try assumption; rewrite ?Hpo; fold (ecreates effs).
      * intros f c Hf Hcx. rewrite Forall_forall in Hf1, b_dle0.
        specialize (Hf1 c Hcx). specialize (b_dle0 f Hf). lia.
      * eapply Forall_impl; [|exact b_dle0]. simpl. intros; lia.
      * eapply Forall_impl; [|exact Hf1]. simpl. intros; lia.
      * assumption.
      * eapply Forall_impl; [|exact b_us0]. simpl. intros; lia.
      * intros U c HU Hcx. rewrite Forall_forall in Hf1, b_us0.
        specialize (Hf1 c Hcx). specialize (b_us0 U HU). lia.
      * rewrite Hpn, Hn. assumption.
    + unfold do_flush in H. inversion H; subst; clear H.
      destruct B. constructor; simpl; try assumption.
      * destruct (k_removed (z_core z)); simpl; constructor.
      * intros f c _ Hcx. destruct (k_removed (z_core z)); simpl in Hcx; destruct Hcx.
      * destruct (k_removed (z_core z)); simpl; constructor.
      * unfold flushed_us; simpl. rewrite map_app, Forall_app. split; [exact b_us0|].
        repeat constructor. simpl. lia.
      * intros U c _ Hcx. destruct (k_removed (z_core z)); simpl in Hcx; destruct Hcx.
      * rewrite Forall_app. split.
        { eapply Forall_impl; [|exact b_fcb0]. intros [[[c|] U] n]; unfold cb_below; simpl; auto.
          destruct cb; lia. }
        { repeat constructor. unfold cb_below; simpl. destruct cb; [lia|exact I]. }
    + pose proof (do_read_fields (z_core z) (z_disk z) from to) as Hf.
      destruct (do_read (z_core z) (z_disk z) from to) as [k items]. inversion H; subst; clear H.
      simpl in Hf. destruct Hf as (Ho & _ & _ & _ & Hn).
      destruct B. constructor; simpl; rewrite ?Ho, ?Hn, ?Et; rewrite ?Et in *; assumption.
    + inversion H; subst. exact B.
    + inversion H; subst. exact B.
    + inversion H; subst. exact B.
    + inv_step H; exact B.
    + inversion H; subst; clear H. destruct B. constructor; simpl; rewrite ?Et in *; assumption.
    + discriminate.
  - (* ZEff *)
    unfold zeff in H. destruct (z_todo z) as [|[id|id data|r] t] eqn:Et; [discriminate| | |];
      inversion H; subst; clear H; destruct B; rewrite Et in *; simpl in *.
    + assert (Hlt : ids_lt (z_disk z) id).
      { unfold ids_lt. rewrite Forall_forall. intros f Hf. apply (b_dlt0 f id Hf). now left. }
      apply StronglySorted_inv in b_creates0. destruct b_creates0 as [Hcs Hcf].
      inversion b_cle0; subst.
      constructor; simpl; try assumption.
      * now apply disk_put_sorted.
      * apply disk_put_Forall; [unfold synced_le; simpl; lia|assumption].
      * intros f c Hf Hcx. rewrite disk_put_end in Hf by exact Hlt.
        apply in_app_or in Hf. destruct Hf as [Hf|[<-|[]]].
        { apply b_dlt0; auto. }
        { simpl. rewrite Forall_forall in Hcf. now apply Hcf. }
      * apply disk_put_Forall; [simpl; assumption|assumption].
      * intros U c HU Hcx. apply b_usc0; auto.
    + constructor; simpl; try assumption.
      * now apply disk_append_sorted.
      * eapply synced_le_step; [|eassumption]. constructor.
      * intros f c Hf Hcx.
        destruct (disk_wop_in (z_disk z) (disk_append id data (z_disk z)) f) as (g & Hg & Hgi); [right; exists id; left; eexists; reflexivity|exact Hf|].
        rewrite <- Hgi. now apply b_dlt0.
      * apply (disk_wop_ids' (fun i => i <= ck_id (k_open (z_core z))) (z_disk z)); [|assumption].
        right; exists id; left; eexists; reflexivity.
    + constructor; simpl; assumption.
  - (* ZRecv *)
    destruct (zrecv_frame _ _ _ _ _ H) as (Ht & Hg & Hc & Hd & _).
    destruct B. constructor; unfold flushed_us in *; rewrite ?Ht, ?Hg, ?Hc, ?Hd; assumption.
  - (* ZWork *)
    destruct (zwork_frame _ _ _ _ H) as (Ht & Hg & _ & (Ho & _ & _ & _ & Hn) & Hd & _).
    destruct B. constructor; unfold flushed_us in *; rewrite ?Ht, ?Hg, ?Ho, ?Hn; try assumption.
    + eapply disk_wop_sorted; eauto.
    + eapply synced_le_step; [apply disk_wop_is_op|]; eauto.
    + intros f c Hf Hcx. destruct (disk_wop_in _ _ f Hd Hf) as (g & Hgin & Hgi). rewrite <- Hgi. auto.
    + apply (disk_wop_ids' (fun i => i <= ck_id (k_open (z_core z))) _ _ Hd). assumption.
  - destruct (z_todo z) eqn:Et; [|discriminate]. inversion H; subst; clear H.
    destruct B. constructor; simpl; rewrite ?Et in *; assumption.
Qed.

(* ------------------------------------------------------------------ the request stream *)
Definition rem_of_req (r : wreq) : list N := match r with WRemove ids => ids | _ => [] end.
Definition rem_of_xeff (x : xeff) : list N := match x with XSend r => rem_of_req r | _ => [] end.
Definition nf_list (b : batch) : list wreq := match b_nf b with Some r => [r] | None => [] end.

(* requests received by the worker and not yet carried out *)
Definition stream_batch (w : worker) : list wreq :=
  match w_batch w with
  | None => []
  | Some b =>
    match b_pos b with
    | BWrite i => map req_of_ww (skipn i (b_writes b)) ++ nf_list b
    | BSyncOld | BSetEvict | BSyncNew | BCallbacks _ | BPostponed | BNonFlush => nf_list b
    | BUnlink _ | BDone => []
    end
  end.

Definition unl (w : worker) : list N :=
  match w_batch w with
  | Some b => match b_pos b with BUnlink ids => ids | _ => [] end
  | None => []
  end.

Definition core_ids (k : core) : list N := k_removed k ++ cids (k_closed k) ++ [ck_id (k_open k)].

(* all chunk ids from the oldest removal still to be carried out up to the open chunk *)
Definition remW (z : sys2) : list N :=
  w_postponed (z_w z) ++ unl (z_w z) ++ flat_map rem_of_req (stream_batch (z_w z)) ++
  flat_map rem_of_req (z_queue z).
Definition remL (z : sys2) : list N :=
  remW z ++ flat_map rem_of_xeff (z_todo z) ++ core_ids (z_core z).

Definition in_cb_phase (w : worker) : Prop :=
  match w_batch w with
  | Some b => match b_pos b with BCallbacks _ | BPostponed => True | _ => False end
  | None => False
  end.

Record linv (z : sys2) : Prop := {
  l_sorted : StronglySorted N.lt (remL z);
  l_disk : forall f, In f (z_disk z) -> In (f_id f) (remL z);
  l_cr : incl (creates (z_todo z)) (core_ids (z_core z));
  l_post : w_sync_failed (z_w z) = false -> w_postponed (z_w z) = [] \/ in_cb_phase (z_w z);
  l_unl : unl (z_w z) <> [] -> w_sync_failed (z_w z) = false }.

Lemma closed_insert_last c l :
  Forall (fun x => x < ck_id (cl_chunk c)) (cids l) -> closed_insert c l = l ++ [c].
Proof.
  induction l as [|c' r IH]; intros H; simpl; [reflexivity|].
  inversion H; subst. destruct (N.compare_spec (ck_id (cl_chunk c)) (ck_id (cl_chunk c'))); try lia.
  f_equal. now apply IH.
Qed.

Lemma ss_snoc_max l m : StronglySorted N.lt (l ++ [m]) -> Forall (fun x => x < m) l.
Proof.
  intros H. apply ss_app in H. destruct H as (_ & _ & H). rewrite Forall_forall. intros x Hx.
  apply H; [exact Hx|now left].
Qed.

Lemma ss_extend l m c : StronglySorted N.lt (l ++ [m]) -> StronglySorted N.lt c ->
  Forall (fun x => m < x) c -> StronglySorted N.lt ((l ++ [m]) ++ c).
Proof.
  intros Hl Hc Hm. apply ss_app. split; [exact Hl|]. split; [exact Hc|].
  intros x y Hx Hy. rewrite Forall_forall in Hm. specialize (Hm y Hy).
  apply in_app_or in Hx. destruct Hx as [Hx|[<-|[]]]; [|exact Hm].
  pose proof (ss_snoc_max _ _ Hl) as Hmax. rewrite Forall_forall in Hmax. specialize (Hmax x Hx). lia.
Qed.

(* the ids known to the caller: only new chunk ids are added, at the end *)
Lemma aa_res_ids k k' effs pre : aa_res k k' effs ->
  StronglySorted N.lt (pre ++ core_ids k) ->
  core_ids k' = core_ids k ++ ecreates effs.
Proof.
  intros H Hs. destruct H as [|k' data Hd Hop _ Hcl Hrm _|k' data head prev st Hd Hh Hop _ Hcl Hrm _];
    unfold core_ids.
  - now rewrite app_nil_r.
  - rewrite Hop, Hcl, Hrm, ck_id_push. unfold ecreates; simpl. now rewrite app_nil_r.
  - rewrite Hop, Hrm, Hcl, ck_id_push. cbn [ck_id]. unfold ecreates; simpl.
    rewrite closed_insert_last.
    + unfold cids. rewrite map_app. simpl. rewrite <- !app_assoc. reflexivity.
    + simpl. unfold core_ids in Hs. rewrite !app_assoc in Hs. apply ss_snoc_max in Hs.
      rewrite !Forall_app in Hs. tauto.
Qed.

Lemma aa_chain_ids k k' effs : aa_chain k k' effs -> forall pre,
  ck_id (k_open k) < ck_end (k_open k) ->
  StronglySorted N.lt (pre ++ core_ids k) ->
  core_ids k' = core_ids k ++ ecreates effs /\ StronglySorted N.lt (pre ++ core_ids k').
Proof.
  induction 1 as [k|k k1 k2 e1 e2 H1 H2 IH]; intros pre Ho Hs.
  - unfold ecreates; simpl. rewrite app_nil_r. auto.
  - pose proof (aa_res_ids _ _ _ pre H1 Hs) as E1.
    destruct (aa_res_open _ _ _ H1 Ho) as (Ho1 & _ & _ & Hs1 & Hf1).
    assert (Hs' : StronglySorted N.lt (pre ++ core_ids k1)).
    { rewrite E1. unfold core_ids at 1. rewrite !app_assoc. apply ss_extend.
      - rewrite <- !app_assoc. exact Hs.
      - exact Hs1.
      - eapply Forall_impl; [|exact Hf1]. simpl. intros; lia. }
    destruct (IH pre Ho1 Hs') as [E2 Hs2]. split; [|exact Hs2].
    rewrite E2, E1, ecreates_app, app_assoc. reflexivity.
Qed.

Lemma post_purge_ids k1 k' : post_purge k1 k' -> core_ids k' = core_ids k1.
Proof.
  intros (Ho & _ & _ & ids & Hr & Hc). unfold core_ids. rewrite Ho, Hr, Hc, <- !app_assoc. reflexivity.
Qed.

Lemma linv_init cfg : linv (zstart cfg).
Proof.
  constructor; simpl.
  - unfold remL; simpl. repeat constructor.
  - intros f [<-|[]]. now left.
  - intros x [].
  - auto.
  - intros H. now elim H.
Qed.

Lemma remove_head_L id L' (d : disk) :
  (forall f, In f d -> In (f_id f) (id :: L')) ->
  forall f, In f (disk_remove id d) -> In (f_id f) L'.
Proof.
  intros H f Hf. unfold disk_remove in Hf. apply filter_In in Hf. destruct Hf as [Hin Hne].
  destruct (H f Hin) as [E|Hl]; [|exact Hl]. subst id. rewrite N.eqb_refl in Hne. discriminate.
Qed.

Lemma disk_wop_same_ids_in (L : list N) d d' :
  disk_wop d d' -> (forall f, In f d -> In (f_id f) L) -> forall f, In f d' -> In (f_id f) L.
Proof.
  intros Hop H f Hf. destruct (disk_wop_in _ _ _ Hop Hf) as (g & Hg & <-). auto.
Qed.

Lemma aa_chain_norem k k' effs : aa_chain k k' effs ->
  flat_map rem_of_xeff (flat_map expand_eff effs) = [].
Proof.
  induction 1 as [k|k k1 k2 e1 e2 H1 H2 IH]; [reflexivity|].
  rewrite !flat_map_app, IH, app_nil_r. destruct H1; reflexivity.
Qed.

Lemma core_same_ids k k' : core_same k k' -> core_ids k' = core_ids k.
Proof. intros (Ho & _ & Hc & Hr & _). unfold core_ids. now rewrite Ho, Hc, Hr. Qed.

Lemma disk_put_In f g d : In f (disk_put g d) -> f = g \/ In f d.
Proof.
  induction d as [|h r IH]; simpl.
  - intros [<-|[]]. now left.
  - destruct (N.compare (f_id g) (f_id h)); simpl.
    + intros [<-|H]; [now left|right]. now right.
    + intros [<-|H]; [now left|right]. exact H.
    + intros [<-|H]; [right; now left|]. destruct (IH H) as [->|H']; [now left|right; now right].
Qed.

Lemma rem_of_ww ws : flat_map rem_of_req (map req_of_ww ws) = [].
Proof. induction ws as [|w ws IH]; simpl; [reflexivity|exact IH]. Qed.

Lemma ss_tail {A} (R : A -> A -> Prop) x l : StronglySorted R (x :: l) -> StronglySorted R l.
Proof. intros H. now inversion H. Qed.

Ltac lunf := unfold remL, remW, unl, stream_batch, in_cb_phase, nf_list in *.
Ltac lfin H := simpl in H; simpl; repeat rewrite <- app_assoc in H; repeat rewrite <- app_assoc;
  simpl in H; simpl; repeat rewrite app_nil_r in H; repeat rewrite app_nil_r; try exact H.

Ltac lw :=
  constructor; lunf; simpl;
  repeat match goal with E : w_batch _ = _ |- _ => rewrite ?E; clear E end;
  repeat match goal with E : b_pos _ = _ |- _ => rewrite ?E; clear E end;
  repeat match goal with E : w_postponed _ = _ |- _ => rewrite ?E end;
  simpl; try assumption; auto;
  try (intros Hx; now elim Hx);
  try (intros Hx; congruence);
  try match goal with Hpo : w_sync_failed _ = false -> _ |- _ =>
        intros Hf; try discriminate; destruct (Hpo Hf) as [|[]]; now auto end.

Lemma linv_step z e z' v :
  binv z -> linv z -> zstep z e = Some (z', v) -> w_alive (z_w z') = true -> linv z'.
Proof.
  intros B L H Hal. destruct e as [o| |k nf|ok|]; simpl in H.
  - (* ZCall *)
    unfold zcall in H.
    destruct (z_todo z) eqn:Et; [|discriminate]. destruct (z_dropped z); [discriminate|].
    destruct o as [w|cb|from to| | | | | |cfg'].
    + destruct (do_write (z_core z) w) as [[[k r] effs]|] eqn:E; [|discriminate].
      inversion H; subst; clear H. apply do_write_inv in E. destruct E as (k1 & Hc & Hp).
      destruct L as [Hs Hd Hcr Hpo Hu]. unfold remL in Hs, Hd. rewrite Et in Hs, Hd. simpl in Hs, Hd.
      destruct (aa_chain_ids _ _ _ Hc (remW z) (b_open _ B) Hs) as [E1 Hs1].
      pose proof (post_purge_ids _ _ Hp) as E2.
      assert (Ew : remW (set_ghost (set_todo (set_core z k) (flat_map expand_eff effs))
                  {| g_writes := g_writes (z_ghost z) ++ [(w, r)]; g_flushed := g_flushed (z_ghost z);
                     g_removals := g_removals (z_ghost z); g_created := g_created (z_ghost z) |}) = remW z)
        by reflexivity.
      constructor; simpl; try assumption.
      * unfold remL. rewrite Ew. simpl. rewrite (aa_chain_norem _ _ _ Hc). simpl. now rewrite E2.
      * intros f Hf. unfold remL. rewrite Ew. simpl. rewrite (aa_chain_norem _ _ _ Hc). simpl.
        rewrite E2, E1. specialize (Hd f Hf). rewrite app_assoc. apply in_or_app. now left.
      * rewrite E2, E1. fold (ecreates effs). intros x Hx. apply in_or_app. now right.
    + unfold do_flush in H. inversion H; subst; clear H.
      destruct L as [Hs Hd Hcr Hpo Hu]. unfold remL in Hs, Hd. rewrite Et in Hs, Hd. simpl in Hs, Hd.
      unfold core_ids in Hs, Hd.
      constructor; simpl; try assumption.
      * unfold remL, core_ids; simpl.
        destruct (k_removed (z_core z)); simpl; rewrite ?app_nil_r; exact Hs.
      * intros f Hf. specialize (Hd f Hf). unfold remL, core_ids; simpl.
        destruct (k_removed (z_core z)); simpl; rewrite ?app_nil_r; exact Hd.
      * destruct (k_removed (z_core z)); simpl; intros x [].
    + pose proof (do_read_fields (z_core z) (z_disk z) from to) as Hf.
      destruct (do_read (z_core z) (z_disk z) from to) as [k items]. inversion H; subst; clear H.
      simpl in Hf. pose proof (core_same_ids (z_core z) k Hf) as Ei.
      destruct L as [Hs Hd Hcr Hpo Hu].
      constructor; simpl; try assumption; unfold remL in *; simpl; rewrite ?Ei; assumption.
    + inversion H; subst. exact L.
    + inversion H; subst. exact L.
    + inversion H; subst. exact L.
    + inv_step H; exact L.
    + inversion H; subst; clear H. destruct L as [Hs Hd Hcr Hpo Hu].
      constructor; simpl; assumption.
    + discriminate.
  - (* ZEff *)
    unfold zeff in H. destruct (z_todo z) as [|[id|id data|r] t] eqn:Et; [discriminate| | |];
      inversion H; subst; clear H; destruct L as [Hs Hd Hcr Hpo Hu];
      unfold remL in Hs, Hd; rewrite Et in *; simpl in Hs, Hd, Hcr.
    + constructor; simpl; try assumption.
      * intros f Hf. apply disk_put_In in Hf. destruct Hf as [->|Hf]; [|now apply Hd].
        simpl. unfold remL; simpl. apply in_or_app. right. apply in_or_app. right.
        apply Hcr. now left.
      * intros x Hx. apply Hcr. now right.
    + constructor; simpl; try assumption.
      eapply disk_wop_same_ids_in; [|exact Hd]. right. exists id. left. eexists. reflexivity.
    + constructor; simpl; try assumption.
      * unfold remL, remW; simpl. rewrite flat_map_app. simpl. rewrite app_nil_r.
        unfold remW in Hs. rewrite <- !app_assoc in *. exact Hs.
      * intros f Hf. specialize (Hd f Hf). unfold remL, remW; simpl. rewrite flat_map_app. simpl.
        rewrite app_nil_r. unfold remW in Hd. rewrite <- !app_assoc in *. exact Hd.
  - (* ZRecv *)
    unfold zrecv in H.
    destruct (w_alive (z_w z)); [|discriminate].
    destruct (w_batch (z_w z)) eqn:Eb; [discriminate|].
    destruct (z_queue z) as [|r q] eqn:Eq; [discriminate|].
    destruct L as [Hs Hd Hcr Hpo Hu]. lunf. rewrite Eb, Eq in *. simpl in Hs, Hd.
    assert (Hpo' : w_sync_failed (z_w z) = false -> w_postponed (z_w z) = []).
    { intros Hf. destruct (Hpo Hf) as [|[]]; assumption. }
    destruct r as [upto data cb|off p|ids].
    + destruct (take_writes k q) as [[ws rest]|] eqn:Et; [|discriminate].
      apply take_writes_spec in Et. subst q. rewrite flat_map_app, rem_of_ww in Hs, Hd. simpl in Hs, Hd.
      destruct nf.
      * destruct rest as [|[u2 d2 c2|off p|ids] rest'']; try discriminate;
          inversion H; subst; clear H; constructor; lunf; simpl; try assumption;
          rewrite ?flat_map_app, ?rem_of_ww; simpl; auto; try (intros Hx; now elim Hx).
        { lfin Hs. }
        { intros f Hf. specialize (Hd f Hf). lfin Hd. }
      * inversion H; subst; clear H; constructor; lunf; simpl; try assumption;
          rewrite ?flat_map_app, ?rem_of_ww; simpl; rewrite ?app_nil_r; auto; try (intros Hx; now elim Hx).
    + destruct (Nat.eqb k 0 && negb nf); [|discriminate]. inversion H; subst; clear H.
      constructor; lunf; simpl; try assumption; auto; try (intros Hx; now elim Hx).
    + destruct (Nat.eqb k 0 && negb nf); [|discriminate]. inversion H; subst; clear H.
      constructor; lunf; simpl; try assumption; auto; try (intros Hx; now elim Hx).
      * rewrite app_nil_r. exact Hs.
      * intros f Hf. rewrite app_nil_r. now apply Hd.
  - (* ZWork *)
    pose proof (zwork_frame _ _ _ _ H) as (Ht & Hg & Hq & Hcs & Hdw & _).
    pose proof (core_same_ids _ _ Hcs) as Ei.
    unfold zwork in H.
    destruct (w_alive (z_w z)); [|discriminate].
    destruct (w_batch (z_w z)) as [b|] eqn:Eb; [|discriminate].
    destruct L as [Hs Hd Hcr Hpo Hu]. lunf. rewrite Eb in *.
    destruct (b_pos b) eqn:Ep.
    + (* BWrite *)
      destruct (nth_error (b_writes b) i) as [ww|] eqn:En.
      * rewrite (skipn_nth_cons _ _ _ En) in Hs, Hd. simpl in Hs, Hd.
        destruct (ww_data ww) eqn:Ed.
        { inversion H; subst; clear H. lw. }
        destruct (newest (z_w z)); [|discriminate]. destruct ok; inversion H; subst; clear H.
        { lw. eapply disk_wop_same_ids_in; [|exact Hd]. right. eexists. left. eexists. reflexivity. }
        { simpl in Hal. discriminate. }
      * rewrite (skipn_nth_none _ _ En) in Hs, Hd. simpl in Hs, Hd.
        inversion H; subst; clear H. lw.
    + (* BSyncOld *)
      destruct (w_files (z_w z)) as [|f [|g rest]]; try destruct ok; inversion H; subst; clear H; lw.
      eapply disk_wop_same_ids_in; [|exact Hd]. right. eexists. right. left. reflexivity.
    + destruct (w_files (z_w z)) as [|f rest]; [discriminate|]. inversion H; subst; clear H. lw.
    + destruct (w_files (z_w z)) as [|f rest]; [discriminate|].
      destruct ok; inversion H; subst; clear H; lw.
      eapply disk_wop_same_ids_in; [|exact Hd]. right. eexists. right. left. reflexivity.
    + (* BCallbacks *)
      destruct (nth_error (b_writes b) i) as [ww|] eqn:En.
      * destruct (ww_cb ww) as [c|] eqn:Ec; inversion H; subst; clear H; lw.
      * inversion H; subst; clear H. lw.
    + (* BPostponed *)
      destruct (w_sync_failed (z_w z)) eqn:Esf.
      { inversion H; subst; clear H. lw. }
      destruct (w_postponed (z_w z)) as [|id rest] eqn:Epp.
      { inversion H; subst; clear H. lw. }
      destruct ok; inversion H; subst; clear H.
      { simpl in Hs, Hd. lw.
        - eapply ss_tail; eauto.
        - eapply remove_head_L; eauto. }
      { simpl in Hal. discriminate. }
    + (* BNonFlush *)
      destruct (b_nf b) as [[u d c|off p|ids]|] eqn:Enf; try discriminate.
      * inversion H; subst; clear H. lw.
      * destruct (w_sync_failed (z_w z)) eqn:Esf; inversion H; subst; clear H; lw.
        { lfin Hs. }
        { intros f Hf. specialize (Hd f Hf). lfin Hd. }
        { lfin Hs. }
        { intros f Hf. specialize (Hd f Hf). lfin Hd. }
      * inversion H; subst; clear H. lw.
    + (* BUnlink *)
      destruct ids as [|id rest].
      { inversion H; subst; clear H. lw. }
      destruct ok; inversion H; subst; clear H.
      { assert (Hsf : w_sync_failed (z_w z) = false) by (apply Hu; discriminate).
        assert (Hp0 : w_postponed (z_w z) = []) by (destruct (Hpo Hsf) as [|[]]; auto).
        rewrite Hp0 in *. simpl in Hs, Hd. lw.
        - eapply ss_tail; eauto.
        - eapply remove_head_L; eauto. }
      { simpl in Hal. discriminate. }
    + inversion H; subst; clear H. lw.
  - destruct (z_todo z) eqn:Et; [|discriminate]. inversion H; subst; clear H.
    destruct L as [Hs Hd Hcr Hpo Hu]. constructor; unfold remL, remW in *; simpl; rewrite ?Et in *; assumption.
Qed.

(* ------------------------------------------------------------------ callbacks in flight are recorded flushes *)
Definition cbu_of_req (r : wreq) : list (N * N) :=
  match r with WWrite u _ (Some c) => [(c, u)] | _ => [] end.
Definition cbu_of_ww (w : wwrite) : list (N * N) :=
  match ww_cb w with Some c => [(c, ww_upto w)] | None => [] end.
Definition cbu_of_xeff (x : xeff) : list (N * N) := match x with XSend r => cbu_of_req r | _ => [] end.
Definition batch_writes (w : worker) : list wwrite :=
  match w_batch w with Some b => b_writes b | None => [] end.
Definition inflight (z : sys2) : list (N * N) :=
  flat_map cbu_of_ww (batch_writes (z_w z)) ++ flat_map cbu_of_req (z_queue z) ++
  flat_map cbu_of_xeff (z_todo z).

Definition finv (z : sys2) : Prop :=
  forall c u, In (c, u) (inflight z) -> exists n, In (Some c, u, n) (g_flushed (z_ghost z)).

Lemma aa_chain_nocbu k k' effs : aa_chain k k' effs ->
  flat_map cbu_of_xeff (flat_map expand_eff effs) = [].
Proof.
  induction 1 as [k|k k1 k2 e1 e2 H1 H2 IH]; [reflexivity|].
  rewrite !flat_map_app, IH, app_nil_r. destruct H1; reflexivity.
Qed.

Lemma cbu_of_req_ww ws : flat_map cbu_of_req (map req_of_ww ws) = flat_map cbu_of_ww ws.
Proof. induction ws as [|w ws IH]; simpl; [reflexivity|]. now rewrite IH. Qed.

Lemma zwork_batch z ok z' v : zwork z ok = Some (z', v) ->
  batch_writes (z_w z') = [] \/ batch_writes (z_w z') = batch_writes (z_w z).
Proof.
  unfold zwork, batch_writes. intros H. inv_step H; simpl; auto.
Qed.

Lemma finv_step z e z' v : finv z -> zstep z e = Some (z', v) -> finv z'.
Proof.
  unfold finv. intros F H. destruct e as [o| |k nf|ok|]; simpl in H.
  - unfold zcall in H.
    destruct (z_todo z) eqn:Et; [|discriminate]. destruct (z_dropped z); [discriminate|].
    unfold inflight in F. rewrite Et in F. simpl in F. rewrite app_nil_r in F.
    destruct o as [w|cb|from to| | | | | |cfg'].
    + destruct (do_write (z_core z) w) as [[[k r] effs]|] eqn:E; [|discriminate].
      inversion H; subst; clear H. apply do_write_inv in E. destruct E as (k1 & Hc & Hp).
      unfold inflight; simpl. rewrite (aa_chain_nocbu _ _ _ Hc), app_nil_r. exact F.
    + unfold do_flush in H. inversion H; subst; clear H. unfold inflight; simpl.
      intros c u Hin. rewrite !in_app_iff in Hin.
      assert (Hold : forall n, (exists m, In (Some c, u, m) (g_flushed (z_ghost z))) ->
                exists m, In (Some c, u, m) (g_flushed (z_ghost z) ++ [n])).
      { intros n0 (m & Hm). exists m. apply in_or_app. now left. }
      destruct Hin as [Hin|[Hin|Hin]].
      * apply Hold, F. apply in_or_app. now left.
      * apply Hold, F. apply in_or_app. now right.
      * assert (Hin' : cb = true /\ (k_next_cb (z_core z), ck_end (k_open (z_core z))) = (c, u)).
        { destruct cb; simpl in Hin; destruct (k_removed (z_core z)); simpl in Hin;
            rewrite ?in_app_iff in Hin; simpl in Hin; intuition (try discriminate). }
        destruct Hin' as [-> Hin']. injection Hin' as <- <-.
        eexists. apply in_or_app. right. left. reflexivity.
    + destruct (do_read (z_core z) (z_disk z) from to) as [k items]. inversion H; subst; clear H.
      unfold inflight; simpl. rewrite Et. simpl. rewrite app_nil_r. exact F.
    + inversion H; subst. unfold inflight. rewrite Et. simpl. rewrite app_nil_r. exact F.
    + inversion H; subst. unfold inflight. rewrite Et. simpl. rewrite app_nil_r. exact F.
    + inversion H; subst. unfold inflight. rewrite Et. simpl. rewrite app_nil_r. exact F.
    + destruct (z_queue z) eqn:Eq; [|discriminate]. destruct (worker_quiet z); [|discriminate].
      inversion H; subst. unfold inflight. rewrite Et, Eq. simpl in *. rewrite app_nil_r in *. exact F.
    + inversion H; subst. unfold inflight; simpl. rewrite Et. simpl. rewrite app_nil_r. exact F.
    + discriminate.
  - unfold zeff in H. destruct (z_todo z) as [|[id|id data|r] t] eqn:Et; [discriminate| | |];
      inversion H; subst; clear H; unfold inflight in *; rewrite Et in F; simpl in *; try exact F.
    intros c u Hin. apply F. rewrite flat_map_app in Hin. simpl in Hin. rewrite app_nil_r in Hin.
    rewrite !in_app_iff in *. tauto.
  - unfold zrecv in H.
    destruct (w_alive (z_w z)); [|discriminate].
    destruct (w_batch (z_w z)) eqn:Eb; [discriminate|].
    destruct (z_queue z) as [|r q] eqn:Eq; [discriminate|].
    unfold inflight, batch_writes in F. rewrite Eb, Eq in F. simpl in F.
    destruct r as [upto data cb|off p|ids].
    + destruct (take_writes k q) as [[ws rest]|] eqn:Et; [|discriminate].
      apply take_writes_spec in Et. subst q. rewrite flat_map_app, cbu_of_req_ww in F.
      assert (G : forall rest', (forall c u, In (c, u) (flat_map cbu_of_req rest') -> In (c, u) (flat_map cbu_of_req rest)) ->
        forall c u, In (c, u) (flat_map cbu_of_ww (mkWW upto data cb :: ws) ++ flat_map cbu_of_req rest' ++
                               flat_map cbu_of_xeff (z_todo z)) ->
        exists n, In (Some c, u, n) (g_flushed (z_ghost z))).
      { intros rest' Hr c u Hin. apply F. simpl in Hin. unfold cbu_of_ww at 1 in Hin. simpl in Hin.
        rewrite !in_app_iff in *. destruct cb; simpl in Hin |- *; intuition. }
      destruct nf.
      * destruct rest as [|[u2 d2 c2|off p|ids] rest'']; try discriminate;
          inversion H; subst; clear H; unfold inflight, batch_writes; simpl; apply G; simpl; auto.
      * inversion H; subst; clear H; unfold inflight, batch_writes; simpl; apply G; auto.
    + destruct (Nat.eqb k 0 && negb nf); [|discriminate]. inversion H; subst; clear H.
      unfold inflight, batch_writes; simpl. exact F.
    + destruct (Nat.eqb k 0 && negb nf); [|discriminate]. inversion H; subst; clear H.
      unfold inflight, batch_writes; simpl. exact F.
  - destruct (zwork_frame _ _ _ _ H) as (Ht & Hg & Hq & _).
    unfold inflight in *. rewrite Ht, Hg, Hq.
    destruct (zwork_batch _ _ _ _ H) as [E|E]; rewrite E.
    + intros c u Hin. apply F. simpl in Hin. apply in_or_app. now right.
    + exact F.
  - destruct (z_todo z) eqn:Et; [|discriminate]. inversion H; subst; clear H.
    unfold inflight in *; simpl. rewrite Et in F. exact F.
Qed.

(* ------------------------------------------------------------------ the walk over the request stream *)
(* worker-side view: the newest tracked file, the global offset of its end, the files
   created by the caller that the worker does not track yet (id, end), and whether the
   last request carried out was a write *)
Record wst := mkWst { s_cur : N; s_end : N; s_fut : list (N * N); s_aw : bool }.

Fixpoint upd_last (id n : N) (fv : list (N * N)) : option (list (N * N)) :=
  match fv with
  | [] => None
  | (i, x) :: r =>
    match r with
    | [] => if N.eqb i id then Some [(i, x + n)] else None
    | _ :: _ => match upd_last id n r with Some r' => Some ((i, x) :: r') | None => None end
    end
  end.

Definition wstep1 (s : wst) (x : xeff) : option wst :=
  match x with
  | XCreate id => Some (mkWst (s_cur s) (s_end s) (s_fut s ++ [(id, id)]) (s_aw s))
  | XWriteHead id h =>
    match upd_last id (blen h) (s_fut s) with
    | Some fv => Some (mkWst (s_cur s) (s_end s) fv (s_aw s))
    | None => None
    end
  | XSend (WWrite upto data cb) =>
    if N.eqb (s_end s + blen data) upto then Some (mkWst (s_cur s) upto (s_fut s) true) else None
  | XSend (WAppendFile off p) =>
    match s_fut s with
    | (i, x) :: fv =>
      if N.eqb i off && N.eqb (s_end s) off && N.ltb off x then Some (mkWst off x fv false) else None
    | [] => None
    end
  | XSend (WRemove ids) =>
    if s_aw s && forallb (fun i => N.ltb i (s_cur s)) ids then Some s else None
  end.

Fixpoint wrun (s : wst) (l : list xeff) : option wst :=
  match l with
  | [] => Some s
  | x :: r => match wstep1 s x with Some s1 => wrun s1 r | None => None end
  end.

Lemma wrun_app s a b : wrun s (a ++ b) = match wrun s a with Some s1 => wrun s1 b | None => None end.
Proof.
  revert s. induction a as [|x a IH]; intros s; simpl; [reflexivity|].
  destruct (wstep1 s x); [apply IH|reflexivity].
Qed.

Lemma upd_last_spec id n fv fv2 : upd_last id n fv = Some fv2 ->
  exists fv' x, fv = fv' ++ [(id, x)] /\ fv2 = fv' ++ [(id, x + n)].
Proof.
  revert fv2. induction fv as [|[i x] r IH]; intros fv2 H; simpl in H; [discriminate|].
  destruct r as [|p r'].
  - destruct (N.eqb_spec i id); [|discriminate]. subst. inversion H; subst. exists [], x. auto.
  - destruct (upd_last id n (p :: r')) as [r2|] eqn:E; [|discriminate]. inversion H; subst.
    destruct (IH r2 eq_refl) as (fv' & x0 & E1 & E2). rewrite E1, E2. exists ((i, x) :: fv'), x0. auto.
Qed.

Lemma upd_last_snoc id n fv' x : upd_last id n (fv' ++ [(id, x)]) = Some (fv' ++ [(id, x + n)]).
Proof.
  induction fv' as [|[i y] r IH]; simpl.
  - now rewrite N.eqb_refl.
  - rewrite IH. destruct (r ++ [(id, x)]) eqn:E; [|reflexivity]. now destruct r.
Qed.

Definition addfut (s : wst) (p : N * N) : wst := mkWst (s_cur s) (s_end s) (s_fut s ++ [p]) (s_aw s).
Definition setfut (s : wst) (fv : list (N * N)) : wst := mkWst (s_cur s) (s_end s) fv (s_aw s).

Definition is_send (x : xeff) : Prop := match x with XSend _ => True | _ => False end.

Lemma map_send_is_send l : Forall is_send (map XSend l).
Proof. induction l; constructor; simpl; auto. Qed.

Lemma wstep1_addfut s x s1 p : is_send x -> wstep1 s x = Some s1 -> wstep1 (addfut s p) x = Some (addfut s1 p).
Proof.
  destruct x as [id|id h|[upto data cb|off pl|ids]]; simpl; try tauto; intros _ H.
  - destruct (N.eqb (s_end s + blen data) upto); [|discriminate]. inversion H; subst. reflexivity.
  - destruct (s_fut s) as [|[i x] fv]; [discriminate|]. simpl.
    destruct (N.eqb i off && N.eqb (s_end s) off && N.ltb off x); [|discriminate].
    inversion H; subst. reflexivity.
  - destruct (s_aw s && forallb (fun i => N.ltb i (s_cur s)) ids); [|discriminate].
    inversion H; subst. reflexivity.
Qed.

(* a create by the caller commutes with the requests queued before it *)
Lemma wrun_create_commute W : Forall is_send W -> forall s id T st,
  wrun s (W ++ XCreate id :: T) = Some st -> wrun (addfut s (id, id)) (W ++ T) = Some st.
Proof.
  induction 1 as [|x W Hx HW IH]; intros s id T st H; simpl in *.
  - exact H.
  - destruct (wstep1 s x) as [s1|] eqn:E; [|discriminate].
    rewrite (wstep1_addfut _ _ _ (id, id) Hx E). now apply IH.
Qed.

Lemma wrun_no_head W : Forall is_send W -> forall s id h T,
  s_fut s = [] -> wrun s (W ++ XWriteHead id h :: T) = None.
Proof.
  induction 1 as [|x W Hx HW IH]; intros s id h T Hf; simpl.
  - now rewrite Hf.
  - destruct (wstep1 s x) as [s1|] eqn:E; [|reflexivity]. apply IH.
    destruct x as [i|i hh|[upto data cb|off pl|ids]]; simpl in *; try tauto.
    + destruct (N.eqb (s_end s + blen data) upto); [|discriminate]. inversion E; subst. exact Hf.
    + rewrite Hf in E. discriminate.
    + destruct (s_aw s && forallb (fun i => N.ltb i (s_cur s)) ids); [|discriminate]. inversion E; subst. exact Hf.
Qed.

Lemma wrun_head_commute W : Forall is_send W -> forall s id h T st,
  wrun s (W ++ XWriteHead id h :: T) = Some st ->
  exists fv' x, s_fut s = fv' ++ [(id, x)] /\
                wrun (setfut s (fv' ++ [(id, x + blen h)])) (W ++ T) = Some st.
Proof.
  induction 1 as [|x W Hx HW IH]; intros s id h T st H; simpl in H.
  - destruct (upd_last id (blen h) (s_fut s)) as [fv2|] eqn:E; [|discriminate].
    destruct (upd_last_spec _ _ _ _ E) as (fv' & x & E1 & E2). exists fv', x. split; [exact E1|].
    simpl. unfold setfut. now rewrite <- E2.
  - destruct (wstep1 s x) as [s1|] eqn:E; [|discriminate].
    destruct x as [i|i hh|[upto data cb|off pl|ids]]; simpl in Hx; try tauto; simpl in E.
    + destruct (N.eqb (s_end s + blen data) upto) eqn:Eu; [|discriminate]. inversion E; subst; clear E.
      destruct (IH _ _ _ _ _ H) as (fv' & x & E1 & E2). simpl in E1. exists fv', x. split; [exact E1|].
      simpl. rewrite Eu. exact E2.
    + destruct (s_fut s) as [|[i x] fv] eqn:Ef; [discriminate|].
      destruct (N.eqb i off && N.eqb (s_end s) off && N.ltb off x) eqn:Eu; [|discriminate].
      inversion E; subst; clear E.
      destruct (IH _ _ _ _ _ H) as (fv' & x0 & E1 & E2). simpl in E1. subst fv.
      exists ((i, x) :: fv'), x0. split; [reflexivity|]. simpl. rewrite Eu. exact E2.
    + destruct (s_aw s && forallb (fun i => N.ltb i (s_cur s)) ids) eqn:Eu; [|discriminate].
      inversion E; subst; clear E.
      destruct (IH _ _ _ _ _ H) as (fv' & x & E1 & E2). exists fv', x. split; [exact E1|].
      simpl. rewrite Eu. exact E2.
Qed.

Lemma upd_last_head id n i x r fv2 : upd_last id n ((i, x) :: r) = Some fv2 ->
  exists x' r', fv2 = (i, x') :: r'.
Proof.
  simpl. destruct r as [|p r'].
  - destruct (N.eqb i id); [|discriminate]. intros H; inversion H; subst. eauto.
  - destruct (upd_last id n (p :: r')); [|discriminate]. intros H; inversion H; subst. eauto.
Qed.

(* the first file not yet tracked starts where the newest tracked file will end *)
Lemma wrun_first_fut l : forall s s', wrun s l = Some s' -> s_fut s' = [] ->
  forall i x r, s_fut s = (i, x) :: r -> s_end s <= i.
Proof.
  induction l as [|y l IH]; intros s s' H Hf i x r Hs; simpl in H.
  - inversion H; subst. rewrite Hs in Hf. discriminate.
  - destruct (wstep1 s y) as [s1|] eqn:E; [|discriminate].
    destruct y as [id|id h|[upto data cb|off pl|ids]]; simpl in E.
    + inversion E; subst; clear E. eapply (IH _ _ H Hf i x (r ++ [(id, id)])). simpl. now rewrite Hs.
    + destruct (upd_last id (blen h) (s_fut s)) as [fv2|] eqn:Eu; [|discriminate].
      inversion E; subst; clear E. rewrite Hs in Eu.
      destruct (upd_last_head _ _ _ _ _ _ Eu) as (x' & r' & ->).
      eapply (IH _ _ H Hf i x' r'). reflexivity.
    + destruct (N.eqb_spec (s_end s + blen data) upto); [|discriminate]. inversion E; subst; clear E.
      specialize (IH _ _ H Hf i x r Hs). simpl in IH. lia.
    + rewrite Hs in E.
      destruct (N.eqb_spec i off); simpl in E; [|discriminate].
      destruct (N.eqb_spec (s_end s) off); simpl in E; [|discriminate]. lia.
    + destruct (s_aw s && forallb (fun i => N.ltb i (s_cur s)) ids); [|discriminate].
      inversion E; subst; clear E. eapply IH; eauto.
Qed.

(* ------------------------------------------------------------------ the worker-side invariant *)
Definition fend (f : file) : N := f_id f + blen (f_data f).
Definition fview (f : file) : N * N := (f_id f, fend f).
Definition full_synced (f : file) : Prop := f_synced f = blen (f_data f).

Fixpoint contig (l : list file) : Prop :=
  match l with
  | f :: r => match r with g :: _ => fend f = f_id g | [] => True end /\ contig r
  | [] => True
  end.

Lemma contig_replace a f f' b : contig (a ++ f :: b) -> f_id f' = f_id f ->
  (b <> [] -> fend f' = fend f) -> contig (a ++ f' :: b).
Proof.
  intros H Hid Hend. induction a as [|g a IH]; simpl in *.
  - destruct H as [H1 H2]. split; [|exact H2]. destruct b as [|h b]; [exact I|].
    rewrite Hend by discriminate. exact H1.
  - destruct H as [H1 H2]. split; [|now apply IH].
    destruct a as [|h a]; simpl in *; [now rewrite Hid|exact H1].
Qed.

Lemma contig_snoc l f g : contig (l ++ [f]) -> fend f = f_id g -> contig ((l ++ [f]) ++ [g]).
Proof.
  intros H He. induction l as [|h l IH]; simpl in *.
  - auto.
  - destruct H as [H1 H2]. split; [|now apply IH].
    destruct l as [|h' l]; simpl in *; exact H1.
Qed.

Definition written (w : worker) : list wwrite :=
  match w_batch w with
  | Some b =>
    match b_pos b with
    | BWrite i => firstn i (b_writes b)
    | BSyncOld | BSetEvict | BSyncNew | BCallbacks _ => b_writes b
    | _ => []
    end
  | None => []
  end.

Definition claimed (w : worker) (fl : bool) : Prop :=
  match w_batch w with
  | None => fl = true
  | Some b =>
    match b_pos b with
    | BCallbacks _ | BPostponed | BUnlink _ => True
    | BNonFlush | BDone => fl = true
    | _ => False
    end
  end.

Definition single_phase (w : worker) : Prop :=
  match w_batch w with
  | Some b => match b_pos b with BSetEvict | BSyncNew => True | _ => False end
  | None => False
  end.

Definition stream (z : sys2) : list xeff :=
  map XSend (stream_batch (z_w z) ++ z_queue z) ++ z_todo z.

Record cwit (z : sys2) (old tin : list file) (fc : file) (fut : list file) (fl : bool) (st : wst) : Prop := {
  c_disk : z_disk z = old ++ tin ++ fc :: fut;
  c_files : map f_id (tin ++ [fc]) = map wf_id (w_files (z_w z));
  c_old : Forall full_synced old;
  c_contig : contig (old ++ tin ++ [fc]);
  c_run : wrun (mkWst (f_id fc) (fend fc) (map fview fut) fl) (stream z) = Some st;
  c_cur : s_cur st = ck_id (k_open (z_core z));
  c_end : s_end st + blen (k_pending (z_core z)) = ck_end (k_open (z_core z));
  c_fut : s_fut st = [];
  c_single : claimed (z_w z) fl -> w_sync_failed (z_w z) = false -> tin = [];
  c_written : Forall (fun ww => ww_upto ww <= fend fc) (written (z_w z));
  c_ok : forall b i, w_batch (z_w z) = Some b -> b_pos b = BCallbacks i -> b_ok b = true ->
         w_sync_failed (z_w z) = false /\ full_synced fc;
  c_rem : Forall (fun i => i < f_id fc) (w_postponed (z_w z) ++ unl (z_w z));
  c_sp : single_phase (z_w z) -> tin = [] }.

Definition cinv (z : sys2) : Prop := exists old tin fc fut fl st, cwit z old tin fc fut fl st.

Lemma cinv_init cfg : cinv (zstart cfg).
Proof.
  exists [], [], (mkFile 0 (head0 cfg) 0), [], true,
    (mkWst 0 (0 + blen (head0 cfg)) [] true).
  constructor; simpl; auto.
  - constructor.
  - intros b i Hb. discriminate.
  - constructor.
Qed.

Definition final (st : wst) (k : core) : Prop :=
  s_cur st = ck_id (k_open k) /\ s_end st + blen (k_pending k) = ck_end (k_open k) /\ s_fut st = [].

Lemma aa_res_walk k k' effs st : aa_res k k' effs -> final st k ->
  exists st', wrun st (flat_map expand_eff effs) = Some st' /\ final st' k'.
Proof.
  intros H (Hc & He & Hf).
  destruct H as [|k' data Hd Hop Hpe _ _ _|k' data head prev stt Hd Hh Hop Hpe _ _ _].
  - exists st. split; [reflexivity|]. repeat split; assumption.
  - exists st. split; [reflexivity|]. unfold final. rewrite Hop, Hpe, ck_end_push, ck_id_push, app_length.
    repeat split; try assumption. lia.
  - destruct st as [cur e fut aw]. simpl in Hc, He, Hf. subst fut.
    remember (ck_end (k_open k) + blen data) as off eqn:Eoff.
    pose proof (blen_pos _ Hh) as Hhp.
    assert (E1 : N.eqb (e + blen (k_pending k ++ data)) off = true).
    { apply N.eqb_eq. rewrite app_length. lia. }
    assert (E2 : N.ltb off (off + blen head) = true) by (apply N.ltb_lt; lia).
    eexists. split.
    + simpl. rewrite N.eqb_refl. simpl. rewrite E1. simpl. rewrite !N.eqb_refl, E2. simpl. reflexivity.
    + unfold final; simpl. rewrite Hop, Hpe, ck_end_push, ck_id_push, ck_end_empty. simpl.
      repeat split. lia.
Qed.

Lemma aa_chain_walk k k' effs : aa_chain k k' effs -> forall st, final st k ->
  exists st', wrun st (flat_map expand_eff effs) = Some st' /\ final st' k'.
Proof.
  induction 1 as [k|k k1 k2 e1 e2 H1 H2 IH]; intros st Hf.
  - exists st. split; [reflexivity|exact Hf].
  - destruct (aa_res_walk _ _ _ _ H1 Hf) as (st1 & Hr1 & Hf1).
    destruct (IH _ Hf1) as (st2 & Hr2 & Hf2). exists st2. split; [|exact Hf2].
    rewrite flat_map_app, wrun_app, Hr1. exact Hr2.
Qed.

Lemma core_ids_removed_lt k pre : StronglySorted N.lt (pre ++ core_ids k) ->
  Forall (fun i => i < ck_id (k_open k)) (k_removed k).
Proof.
  unfold core_ids. intros H. rewrite !app_assoc in H. apply ss_snoc_max in H.
  rewrite !Forall_app in H. tauto.
Qed.

Lemma forallb_ltb ids c : Forall (fun i => i < c) ids -> forallb (fun i => N.ltb i c) ids = true.
Proof.
  induction 1 as [|i r Hi Hr IH]; simpl; [reflexivity|]. rewrite IH.
  apply N.ltb_lt in Hi. now rewrite Hi.
Qed.

Lemma cinv_call z o z' v :
  binv z -> linv z -> cinv z -> zcall z o = Some (z', v) -> cinv z'.
Proof.
  intros B L (old & tin & fc & fut & fl & st & C) H.
  unfold zcall in H.
  destruct (z_todo z) eqn:Et; [|discriminate]. destruct (z_dropped z); [discriminate|].
  assert (Es : stream z = map XSend (stream_batch (z_w z) ++ z_queue z)).
  { unfold stream. now rewrite Et, app_nil_r. }
  destruct o as [w|cb|from to| | | | | |cfg'].
  - destruct (do_write (z_core z) w) as [[[k r] effs]|] eqn:E; [|discriminate].
    inversion H; subst; clear H. apply do_write_inv in E. destruct E as (k1 & Hc & Hp).
    destruct C.
    destruct (aa_chain_walk _ _ _ Hc st) as (st' & Hr & Hf1 & Hf2 & Hf3); [repeat split; assumption|].
    destruct Hp as (Hpo & Hpp & _).
    exists old, tin, fc, fut, fl, st'. constructor; simpl; try assumption.
    + unfold stream; simpl. fold (stream_batch (z_w z)). rewrite <- Es, wrun_app, c_run0. exact Hr.
    + now rewrite Hpo.
    + now rewrite Hpo, Hpp.
  - unfold do_flush in H. inversion H; subst; clear H.
    destruct C.
    pose proof (l_sorted _ L) as Hs. unfold remL in Hs. rewrite Et in Hs. simpl in Hs.
    pose proof (core_ids_removed_lt _ _ Hs) as Hrm.
    assert (E1 : N.eqb (s_end st + blen (k_pending (z_core z))) (ck_end (k_open (z_core z))) = true)
      by (now apply N.eqb_eq).
    exists old, tin, fc, fut, fl, (mkWst (s_cur st) (ck_end (k_open (z_core z))) (s_fut st) true).
    constructor; simpl; try assumption.
    + unfold stream; simpl. rewrite <- Es, wrun_app, c_run0.
      destruct (k_removed (z_core z)) as [|i ids] eqn:Er; simpl; rewrite E1; [reflexivity|].
      inversion Hrm as [|i0 ids0 Hi Hids]; subst. simpl. rewrite c_cur0.
      apply N.ltb_lt in Hi. rewrite Hi, (forallb_ltb _ _ Hids). reflexivity.
    + lia.
  - pose proof (do_read_fields (z_core z) (z_disk z) from to) as Hf.
    destruct (do_read (z_core z) (z_disk z) from to) as [k items]. inversion H; subst; clear H.
    simpl in Hf. destruct Hf as (Ho & Hpe & _).
    destruct C. exists old, tin, fc, fut, fl, st. constructor; simpl; rewrite ?Ho, ?Hpe; assumption.
  - inversion H; subst. exists old, tin, fc, fut, fl, st. exact C.
  - inversion H; subst. exists old, tin, fc, fut, fl, st. exact C.
  - inversion H; subst. exists old, tin, fc, fut, fl, st. exact C.
  - inv_step H. exists old, tin, fc, fut, fl, st. exact C.
  - inversion H; subst; clear H. destruct C. exists old, tin, fc, fut, fl, st. constructor; simpl; assumption.
  - discriminate.
Qed.

Lemma cinv_eff z z' v : binv z -> cinv z -> zeff z = Some (z', v) -> cinv z'.
Proof.
  intros B (old & tin & fc & fut & fl & st & C) H.
  unfold zeff in H. destruct (z_todo z) as [|[id|id h|r] t] eqn:Et; [discriminate| | |];
    inversion H; subst; clear H; destruct C.
  - (* XCreate *)
    assert (Hlt : ids_lt (z_disk z) id).
    { unfold ids_lt. rewrite Forall_forall. intros f Hf. apply (b_dlt _ B f id Hf). rewrite Et. now left. }
    exists old, tin, fc, (fut ++ [mkFile id [] 0]), fl, st. constructor; simpl; try assumption.
    + rewrite disk_put_end by exact Hlt. rewrite c_disk0, <- !app_assoc. reflexivity.
    + unfold stream in *; simpl. rewrite Et in c_run0.
      apply wrun_create_commute in c_run0; [|apply map_send_is_send].
      rewrite map_app. simpl. unfold fview at 2, fend. simpl. change (N.of_nat 0) with 0. rewrite N.add_0_r.
      exact c_run0.
  - (* XWriteHead *)
    unfold stream in c_run0. rewrite Et in c_run0.
    apply wrun_head_commute in c_run0; [|apply map_send_is_send].
    destruct c_run0 as (fv' & x & Efv & Hrun). simpl in Efv.
    apply map_eq_app in Efv. destruct Efv as (l1 & l2 & Efut & El1 & El2).
    apply map_eq_cons in El2. destruct El2 as (g & tl & -> & Hg & Htl).
    apply map_eq_nil in Htl. subst tl.
    unfold fview in Hg. injection Hg as Hgid Hgend.
    assert (Ed : z_disk z = (old ++ tin ++ fc :: l1) ++ g :: []).
    { rewrite c_disk0, Efut, <- !app_assoc. reflexivity. }
    pose proof (b_sorted _ B) as Hsd. rewrite Ed in Hsd.
    exists old, tin, fc, (l1 ++ [mkFile (f_id g) (f_data g ++ h) (f_synced g)]), fl, st.
    constructor; simpl; try assumption.
    + rewrite Ed, <- Hgid, disk_append_mid by exact Hsd. rewrite <- !app_assoc. reflexivity.
    + unfold stream; simpl. unfold setfut in Hrun. simpl in Hrun.
      assert (Ev : fview (mkFile (f_id g) (f_data g ++ h) (f_synced g)) = (id, x + blen h)).
      { unfold fview, fend in *; simpl. rewrite app_length. f_equal; lia. }
      rewrite map_app, El1. cbn [map]. rewrite Ev. exact Hrun.
  - (* XSend *)
    exists old, tin, fc, fut, fl, st. constructor; simpl; try assumption.
    unfold stream in *; simpl. rewrite Et in c_run0.
    rewrite app_assoc, map_app, <- app_assoc. exact c_run0.
Qed.

Ltac cunf := unfold claimed, written, single_phase, unl, stream, stream_batch, nf_list in *.

Lemma cinv_recv z k nf z' v : cinv z -> zrecv z k nf = Some (z', v) -> cinv z'.
Proof.
  intros (old & tin & fc & fut & fl & st & C) H.
  unfold zrecv in H.
  destruct (w_alive (z_w z)); [|discriminate].
  destruct (w_batch (z_w z)) eqn:Eb; [discriminate|].
  destruct (z_queue z) as [|r q] eqn:Eq; [discriminate|].
  destruct C. cunf. rewrite Eb, Eq in *. simpl in c_run0.
  exists old, tin, fc, fut, fl, st.
  destruct r as [upto data cb|off p|ids].
  - destruct (take_writes k q) as [[ws rest]|] eqn:Et; [|discriminate].
    apply take_writes_spec in Et. subst q.
    destruct nf.
    + destruct rest as [|[u2 d2 c2|off p|ids] rest'']; try discriminate;
        inversion H; subst; clear H; constructor; cunf; simpl; try assumption; try tauto;
        try (intros b i Hb Hp; inversion Hb; subst; discriminate).
      * rewrite <- !app_assoc. simpl. exact c_run0.
      * rewrite <- !app_assoc. simpl. exact c_run0.
    + inversion H; subst; clear H; constructor; cunf; simpl; try assumption; try tauto;
        try (intros b i Hb Hp; inversion Hb; subst; discriminate).
      rewrite app_nil_r. exact c_run0.
  - destruct (Nat.eqb k 0 && negb nf); [|discriminate]. inversion H; subst; clear H.
    constructor; cunf; simpl; try assumption; try tauto;
      try (intros b i Hb Hp; inversion Hb; subst; discriminate).
  - destruct (Nat.eqb k 0 && negb nf); [|discriminate]. inversion H; subst; clear H.
    constructor; cunf; simpl; try assumption; try tauto;
      try (intros b i Hb Hp; inversion Hb; subst; discriminate).
Qed.

(* ------------------------------------------------------------------ helpers for the worker steps *)
Lemma newest_id w tin fc f :
  map f_id (tin ++ [fc]) = map wf_id (w_files w) -> newest w = Some f -> wf_id f = f_id fc.
Proof.
  unfold newest. intros Hm Hn. apply (f_equal (@rev N)) in Hm.
  rewrite <- !map_rev, rev_unit in Hm. destruct (rev (w_files w)) as [|g r]; [discriminate|].
  inversion Hn; subst. simpl in Hm. now inversion Hm.
Qed.

Lemma firstn_S_nth {A} (l : list A) i x : nth_error l i = Some x -> firstn (S i) l = firstn i l ++ [x].
Proof.
  revert i. induction l as [|a l IH]; intros [|i] H; simpl in *; try discriminate.
  - now inversion H.
  - f_equal. now apply IH.
Qed.

Lemma firstn_nth_none {A} (l : list A) i : nth_error l i = None -> firstn i l = l.
Proof. intros H. apply firstn_all2. now apply nth_error_None. Qed.

Lemma files_short tin fc (l : list wfile) :
  map f_id (tin ++ [fc]) = map wf_id l -> (length l <= 1)%nat -> tin = [].
Proof.
  intros Hm Hl. apply (f_equal (@length N)) in Hm. rewrite !map_length, app_length in Hm. simpl in Hm.
  destruct tin; [reflexivity|]. simpl in Hm. lia.
Qed.

Lemma head_of_L z id L' : linv z -> remL z = id :: L' -> Forall (fun f => id <= f_id f) (z_disk z).
Proof.
  intros L E. pose proof (l_sorted _ L) as Hs. pose proof (l_disk _ L) as Hd. rewrite E in Hs, Hd.
  apply StronglySorted_inv in Hs. destruct Hs as [_ Hf]. rewrite Forall_forall in *.
  intros f Hin. destruct (Hd f Hin) as [<-|Hl]; [lia|]. specialize (Hf _ Hl). lia.
Qed.

Lemma remove_old id old fc fut :
  disk_sorted (old ++ fc :: fut) -> id < f_id fc ->
  Forall (fun f => id <= f_id f) (old ++ fc :: fut) ->
  Forall full_synced old -> contig (old ++ [fc]) ->
  exists old', disk_remove id (old ++ fc :: fut) = old' ++ fc :: fut /\
               Forall full_synced old' /\ contig (old' ++ [fc]).
Proof.
  intros Hs Hlt Hle Ho Hc.
  destruct (disk_remove_first id _ Hs Hle) as [E|(f & r & E1 & E2 & E3)].
  - exists old. auto.
  - destruct old as [|g old'].
    + simpl in E1. injection E1 as Eg Er. subst f. lia.
    + simpl in E1. injection E1 as Eg Er. exists old'. split; [rewrite Er; exact E3|].
      inversion Ho; subst. split; [assumption|]. simpl in Hc. tauto.
Qed.

Lemma forallb_ltb_inv ids c : forallb (fun i => N.ltb i c) ids = true -> Forall (fun i => i < c) ids.
Proof.
  induction ids as [|i r IH]; simpl; intros H; constructor.
  - apply andb_true_iff in H. destruct H as [H _]. now apply N.ltb_lt.
  - apply IH. apply andb_true_iff in H. tauto.
Qed.

Ltac cok :=
  try (let bb := fresh "bb" in let ii := fresh "ii" in
       let Hb := fresh "Hb" in let Hp := fresh "Hp" in let Hk := fresh "Hk" in
       intros bb ii Hb Hp Hk; injection Hb as Hb; subst bb; simpl in Hp, Hk; try discriminate).

Ltac cfin :=
  constructor; cunf; simpl;
  try match goal with E : w_files _ = _ |- _ => rewrite ?E end;
  try match goal with E : w_batch _ = _ |- _ => rewrite ?E end;
  try match goal with E : b_pos _ = _ |- _ => rewrite ?E end;
  try match goal with E : w_postponed _ = _ |- _ => rewrite ?E end;
  simpl; try assumption; try tauto; try (intros; congruence); try solve [constructor]; cok.

Lemma cinv_work z ok z' v :
  binv z -> linv z -> cinv z -> zwork z ok = Some (z', v) -> w_alive (z_w z') = true -> cinv z'.
Proof.
  intros B L (old & tin & fc & fut & fl & st & C) H Hal.
  pose proof (b_sorted _ B) as Hsd.
  unfold zwork in H.
  destruct (w_alive (z_w z)); [|discriminate].
  destruct (w_batch (z_w z)) as [b|] eqn:Eb; [|discriminate].
  destruct C. rewrite c_disk0 in Hsd.
  destruct (b_pos b) eqn:Ep; cunf; rewrite Eb, Ep in *.
  - (* BWrite *)
    destruct (nth_error (b_writes b) i) as [ww|] eqn:En.
    + rewrite (skipn_nth_cons _ _ _ En) in c_run0. simpl in c_run0.
      destruct (N.eqb_spec (fend fc + blen (ww_data ww)) (ww_upto ww)) as [Hup|]; [|discriminate].
      destruct (ww_data ww) as [|b0 data] eqn:Ed.
      * inversion H; subst; clear H. exists old, tin, fc, fut, true, st.
        simpl in Hup. change (N.of_nat 0) with 0 in Hup. rewrite N.add_0_r in Hup.
        cfin.
        all: try (rewrite Hup; exact c_run0).
        match goal with |- Forall ?P _ => change (Forall P (firstn (S i) (b_writes b))) end.
        rewrite (firstn_S_nth _ _ _ En), Forall_app. split; [assumption|]. repeat constructor. lia.
      * destruct (newest (z_w z)) as [f|] eqn:Enw; [|discriminate].
        destruct ok; inversion H; subst; clear H; [|simpl in Hal; discriminate].
        rewrite (newest_id _ _ _ _ c_files0 Enw).
        assert (Ed2 : old ++ tin ++ fc :: fut = (old ++ tin) ++ fc :: fut) by now rewrite <- app_assoc.
        rewrite Ed2 in Hsd.
        set (fc' := mkFile (f_id fc) (f_data fc ++ b0 :: data) (f_synced fc)).
        assert (Hfe : fend fc' = ww_upto ww).
        { unfold fend, fc' in *; cbn [f_id f_data]. rewrite app_length. lia. }
        exists old, tin, fc', fut, true, st.
        cfin.
        { rewrite c_disk0, Ed2, disk_append_mid by exact Hsd. now rewrite <- app_assoc. }
        { rewrite !map_app in *. exact c_files0. }
        { rewrite app_assoc. rewrite app_assoc in c_contig0.
          eapply contig_replace; [exact c_contig0|reflexivity|]. intros Hx. now elim Hx. }
        { match goal with |- Forall ?P _ => change (Forall P (firstn (S i) (b_writes b))) end.
          rewrite (firstn_S_nth _ _ _ En), Forall_app. split.
          - eapply Forall_impl; [|exact c_written0]. simpl. intros a Ha. unfold fend in *. simpl in *. lia.
          - repeat constructor. lia. }
    + rewrite (skipn_nth_none _ _ En) in c_run0. simpl in c_run0.
      inversion H; subst; clear H. exists old, tin, fc, fut, fl, st.
      cfin.
      rewrite (firstn_nth_none _ _ En) in c_written0. exact c_written0.
  - (* BSyncOld *)
    destruct (w_files (z_w z)) as [|f [|g rest]] eqn:Ef.
    + inversion H; subst; clear H. exists old, tin, fc, fut, fl, st.
      cfin.
      intros _. eapply files_short; [exact c_files0|]. simpl. lia.
    + inversion H; subst; clear H. exists old, tin, fc, fut, fl, st.
      cfin.
      intros _. eapply files_short; [exact c_files0|]. simpl. lia.
    + destruct ok; inversion H; subst; clear H.
      * destruct tin as [|tf tin'].
        { apply (f_equal (@length N)) in c_files0. simpl in c_files0. discriminate. }
        simpl in c_files0. injection c_files0 as Hid Hrest.
        simpl in Hsd, c_contig0.
        set (tf' := mkFile (f_id tf) (f_data tf) (blen (f_data tf))).
        exists (old ++ [tf']), tin', fc, fut, fl, st.
        cfin.
        { rewrite c_disk0, <- Hid. simpl. rewrite disk_sync_mid by exact Hsd. now rewrite <- app_assoc. }
        { rewrite Forall_app. split; [assumption|]. repeat constructor. }
        { rewrite <- app_assoc. simpl. eapply contig_replace; [exact c_contig0|reflexivity|reflexivity]. }
      * exists old, tin, fc, fut, fl, st.
        cfin.
  - (* BSetEvict *)
    destruct (w_files (z_w z)) as [|f rest] eqn:Ef; [discriminate|]. inversion H; subst; clear H.
    exists old, tin, fc, fut, fl, st.
    cfin.
  - (* BSyncNew *)
    destruct (w_files (z_w z)) as [|f rest] eqn:Ef; [discriminate|].
    assert (Ht : tin = []) by (apply c_sp0; exact I). subst tin.
    simpl in c_files0. injection c_files0 as Hid Hrest.
    destruct ok; inversion H; subst; clear H.
    + simpl in Hsd, c_contig0.
      set (fc' := mkFile (f_id fc) (f_data fc) (blen (f_data fc))).
      exists old, [], fc', fut, fl, st.
      cfin.
      * rewrite c_disk0, <- Hid. simpl. now rewrite disk_sync_mid by exact Hsd.
      * eapply contig_replace; [exact c_contig0|reflexivity|]. intros Hx. now elim Hx.
      * split; reflexivity.
    + exists old, [], fc, fut, fl, st.
      cfin.
  - (* BCallbacks *)
    destruct (nth_error (b_writes b) i) as [ww|] eqn:En.
    + destruct (ww_cb ww) as [c|] eqn:Ec; inversion H; subst; clear H;
        exists old, tin, fc, fut, fl, st;
        cfin;
        eapply c_ok0; eauto.
    + inversion H; subst; clear H. exists old, tin, fc, fut, fl, st.
      cfin.
  - (* BPostponed *)
    destruct (w_sync_failed (z_w z)) eqn:Esf.
    { inversion H; subst; clear H. exists old, tin, fc, fut, fl, st.
      cfin. }
    destruct (w_postponed (z_w z)) as [|id rest] eqn:Epp.
    { inversion H; subst; clear H. exists old, tin, fc, fut, fl, st.
      cfin. }
    destruct ok; inversion H; subst; clear H; [|simpl in Hal; discriminate].
    assert (Ht : tin = []) by (apply c_single0; auto). subst tin. simpl in *.
    assert (Hle : Forall (fun f => id <= f_id f) (old ++ fc :: fut)).
    { rewrite <- c_disk0. eapply head_of_L; [exact L|]. unfold remL, remW. rewrite Epp. reflexivity. }
    inversion c_rem0 as [|i0 r0 Hid Hrem]; subst.
    destruct (remove_old id old fc fut Hsd Hid Hle c_old0 c_contig0) as (old' & Er & Ho' & Hc').
    exists old', [], fc, fut, fl, st.
    cfin.
  - (* BNonFlush *)
    destruct (b_nf b) as [[u d c|off p|ids]|] eqn:Enf; try discriminate.
    + (* WAppendFile *)
      inversion H; subst; clear H. simpl in c_run0.
      destruct fut as [|g fut']; simpl in c_run0; [discriminate|].
      destruct (N.eqb_spec (f_id g) off) as [Hgo|]; simpl in c_run0; [|discriminate].
      destruct (N.eqb_spec (fend fc) off) as [Hfo|]; simpl in c_run0; [|discriminate].
      destruct (N.ltb_spec off (fend g)) as [Hlt|]; simpl in c_run0; [|discriminate].
      exists old, (tin ++ [fc]), g, fut', false, st.
      cfin.
      * rewrite c_disk0, <- app_assoc. reflexivity.
      * rewrite map_app, c_files0, map_app. simpl. now rewrite Hgo.
      * rewrite !app_assoc. apply contig_snoc; [rewrite <- app_assoc; exact c_contig0|]. lia.
      * eapply Forall_impl; [|exact c_rem0]. simpl. intros a Ha. unfold fend in *. lia.
    + (* WRemove *)
      simpl in c_run0. destruct fl; simpl in c_run0; [|discriminate].
      destruct (forallb (fun i => N.ltb i (f_id fc)) ids) eqn:Efa; [|discriminate].
      apply forallb_ltb_inv in Efa.
      destruct (w_sync_failed (z_w z)) eqn:Esf; inversion H; subst; clear H;
        exists old, tin, fc, fut, true, st;
        cfin.
      * rewrite app_nil_r in *. rewrite Forall_app. split; assumption.
      * rewrite app_nil_r in c_rem0. rewrite Forall_app. split; assumption.
    + inversion H; subst; clear H. exists old, tin, fc, fut, fl, st.
      cfin.
  - (* BUnlink *)
    destruct ids as [|id rest].
    { inversion H; subst; clear H. exists old, tin, fc, fut, fl, st.
      cfin. }
    destruct ok; inversion H; subst; clear H; [|simpl in Hal; discriminate].
    assert (Hsf : w_sync_failed (z_w z) = false).
    { apply (l_unl _ L). unfold unl. rewrite Eb, Ep. discriminate. }
    assert (Hp0 : w_postponed (z_w z) = []).
    { destruct (l_post _ L Hsf) as [Hx|Hx]; [exact Hx|]. unfold in_cb_phase in Hx. rewrite Eb, Ep in Hx. destruct Hx. }
    assert (Ht : tin = []) by (apply c_single0; auto). subst tin. simpl in *.
    assert (Hle : Forall (fun f => id <= f_id f) (old ++ fc :: fut)).
    { rewrite <- c_disk0. eapply head_of_L; [exact L|]. unfold remL, remW, unl. rewrite Hp0, Eb, Ep. reflexivity. }
    rewrite Hp0 in c_rem0. simpl in c_rem0.
    inversion c_rem0 as [|i0 r0 Hid Hrem]; subst.
    destruct (remove_old id old fc fut Hsd Hid Hle c_old0 c_contig0) as (old' & Er & Ho' & Hc').
    exists old', [], fc, fut, fl, st.
    cfin.
  - (* BDone *)
    inversion H; subst; clear H. exists old, tin, fc, fut, fl, st.
    cfin.
Qed.

(* ------------------------------------------------------------------ durability at callback time *)
Lemma durable_above d U : Forall (fun g => U <= f_id g) d -> durable_upto d U.
Proof.
  induction 1 as [|g r Hg Hr IH]; simpl; [exact I|]. split; [lia|exact IH].
Qed.

Lemma durable_shape old fc fut U :
  Forall full_synced old -> contig (old ++ [fc]) -> full_synced fc -> U <= fend fc ->
  Forall (fun g => fend fc <= f_id g) fut -> durable_upto (old ++ fc :: fut) U.
Proof.
  intros Ho Hc Hfc HU Hfut. induction old as [|f old IH]; simpl.
  - split.
    + intros _. unfold full_synced, fend in *. rewrite Hfc. destruct fut; lia.
    + apply durable_above. eapply Forall_impl; [|exact Hfut]. simpl. intros; lia.
  - inversion Ho; subst. simpl in Hc. destruct Hc as [Hc1 Hc2]. split; [|now apply IH].
    intros _. unfold full_synced, fend in *.
    destruct old as [|g old']; simpl in *; lia.
Qed.

Lemma callback_durable z b i ww :
  binv z -> cinv z -> w_batch (z_w z) = Some b -> b_pos b = BCallbacks i -> b_ok b = true ->
  nth_error (b_writes b) i = Some ww -> durable_upto (z_disk z) (ww_upto ww).
Proof.
  intros B (old & tin & fc & fut & fl & st & C) Eb Ep Hok En. destruct C.
  destruct (c_ok0 b i Eb Ep Hok) as [Hsf Hfs].
  assert (Ht : tin = []).
  { apply c_single0; [|exact Hsf]. unfold claimed. now rewrite Eb, Ep. }
  subst tin. simpl in *.
  unfold written in c_written0. rewrite Eb, Ep in c_written0.
  rewrite Forall_forall in c_written0. pose proof (c_written0 _ (nth_error_In _ _ En)) as HU.
  rewrite c_disk0. apply durable_shape; try assumption.
  pose proof (b_sorted _ B) as Hsd. rewrite c_disk0 in Hsd.
  apply sorted_app_inv in Hsd. destruct Hsd as (_ & Hsd & _).
  inversion Hsd as [|x l Hs2 Hf2]; subst.
  destruct fut as [|g fut']; [constructor|].
  assert (Hg : fend fc <= f_id g).
  { apply (wrun_first_fut _ _ _ c_run0 c_fut0 (f_id g) (fend g) (map fview fut')). reflexivity. }
  constructor; [exact Hg|].
  inversion Hs2 as [|x l Hs3 Hf3]; subst.
  eapply Forall_impl; [|exact Hf3]. unfold file_lt. simpl. intros; lia.
Qed.

(* ------------------------------------------------------------------ a callback id names one flush *)
Definition ufun (z : sys2) : Prop :=
  forall c U n U' n', In (Some c, U, n) (g_flushed (z_ghost z)) ->
                      In (Some c, U', n') (g_flushed (z_ghost z)) -> U = U'.

Lemma zstep_flushed z e z' v : zstep z e = Some (z', v) ->
  g_flushed (z_ghost z') = g_flushed (z_ghost z) \/
  exists cb n, g_flushed (z_ghost z') =
    g_flushed (z_ghost z) ++ [(if cb : bool then Some (k_next_cb (z_core z)) else None,
                               ck_end (k_open (z_core z)), n)].
Proof.
  intros H. destruct e as [o| |k nf|ok|]; simpl in H.
  - unfold zcall in H.
    destruct (z_todo z) eqn:Et; [|discriminate]. destruct (z_dropped z); [discriminate|].
    destruct o as [w|cb|from to| | | | | |cfg'].
    + destruct (do_write (z_core z) w) as [[[k r] effs]|]; [|discriminate]. inversion H; subst. now left.
    + destruct (do_flush (z_core z) cb) as [k effs]. inversion H; subst. right. exists cb. eexists. reflexivity.
    + destruct (do_read (z_core z) (z_disk z) from to) as [k items]. inversion H; subst. now left.
    + inversion H; subst. now left.
    + inversion H; subst. now left.
    + inversion H; subst. now left.
    + inv_step H. now left.
    + inversion H; subst. now left.
    + discriminate.
  - unfold zeff in H. inv_step H; simpl; now left.
  - destruct (zrecv_frame _ _ _ _ _ H) as (_ & Hg & _). left. now rewrite Hg.
  - destruct (zwork_frame _ _ _ _ H) as (_ & Hg & _). left. now rewrite Hg.
  - inv_step H. now left.
Qed.

Lemma ufun_step z e z' v : binv z -> ufun z -> zstep z e = Some (z', v) -> ufun z'.
Proof.
  intros B U H. unfold ufun in *. destruct (zstep_flushed _ _ _ _ H) as [E|(cb & n0 & E)]; rewrite E.
  - exact U.
  - pose proof (b_fcb _ B) as Hf. rewrite Forall_forall in Hf.
    intros c U1 n U2 n' H1 H2. apply in_app_or in H1. apply in_app_or in H2.
    destruct H1 as [H1|[H1|[]]]; destruct H2 as [H2|[H2|[]]].
    + eapply U; eauto.
    + destruct cb; [|discriminate]. injection H2 as Hc _ _. subst c.
      specialize (Hf _ H1). unfold cb_below in Hf. simpl in Hf. lia.
    + destruct cb; [|discriminate]. injection H1 as Hc _ _. subst c.
      specialize (Hf _ H2). unfold cb_below in Hf. simpl in Hf. lia.
    + congruence.
Qed.

(* ------------------------------------------------------------------ disk steps of the worker, with removal order *)
Lemma zwork_disk z ok z' v : linv z -> zwork z ok = Some (z', v) ->
  z_disk z' = z_disk z \/
  (exists id data, z_disk z' = disk_append id data (z_disk z)) \/
  (exists id, z_disk z' = disk_sync id (z_disk z)) \/
  (exists id, z_disk z' = disk_remove id (z_disk z) /\ Forall (fun f => id <= f_id f) (z_disk z)).
Proof.
  intros L H. unfold zwork in H.
  destruct (w_alive (z_w z)); [|discriminate].
  destruct (w_batch (z_w z)) as [b|] eqn:Eb; [|discriminate].
  destruct (b_pos b) eqn:Ep.
  - inv_step H; simpl; auto. right; left. eauto.
  - inv_step H; simpl; auto. right; right; left. eauto.
  - inv_step H; simpl; auto.
  - inv_step H; simpl; auto. right; right; left. eauto.
  - inv_step H; simpl; auto.
  - destruct (w_sync_failed (z_w z)) eqn:Esf; [inversion H; subst; simpl; auto|].
    destruct (w_postponed (z_w z)) as [|id rest] eqn:Epp; [inversion H; subst; simpl; auto|].
    destruct ok; inversion H; subst; simpl; auto.
    right; right; right. exists id. split; [reflexivity|].
    eapply head_of_L; [exact L|]. unfold remL, remW. rewrite Epp. reflexivity.
  - inv_step H; simpl; auto.
  - destruct ids as [|id rest]; [inversion H; subst; simpl; auto|].
    destruct ok; inversion H; subst; simpl; auto.
    right; right; right. exists id. split; [reflexivity|].
    assert (Hsf : w_sync_failed (z_w z) = false).
    { apply (l_unl _ L). unfold unl. rewrite Eb, Ep. discriminate. }
    assert (Hp0 : w_postponed (z_w z) = []).
    { destruct (l_post _ L Hsf) as [Hx|Hx]; [exact Hx|]. unfold in_cb_phase in Hx. rewrite Eb, Ep in Hx. destruct Hx. }
    eapply head_of_L; [exact L|]. unfold remL, remW, unl. rewrite Hp0, Eb, Ep. reflexivity.
  - inv_step H; simpl; auto.
Qed.

Lemma zwork_acks z ok z' v : zwork z ok = Some (z', v) ->
  z_acks z' = z_acks z \/
  exists b i ww c, w_batch (z_w z) = Some b /\ b_pos b = BCallbacks i /\
                   nth_error (b_writes b) i = Some ww /\ ww_cb ww = Some c /\
                   z_acks z' = z_acks z ++ [(c, b_ok b)] /\ z_disk z' = z_disk z.
Proof.
  intros H. unfold zwork in H.
  destruct (w_alive (z_w z)); [|discriminate].
  destruct (w_batch (z_w z)) as [b|] eqn:Eb; [|discriminate].
  destruct (b_pos b) eqn:Ep; try (inv_step H; simpl; auto; fail).
  destruct (nth_error (b_writes b) i) as [ww|] eqn:En; [|inversion H; subst; simpl; auto].
  destruct (ww_cb ww) as [c|] eqn:Ec; inversion H; subst; simpl; auto.
  right. exists b, i, ww, c. auto 10.
Qed.

(* ------------------------------------------------------------------ the combined invariant *)
Record full (z : sys2) : Prop := {
  f_b : binv z;
  f_p : pend_ok z;
  f_f : finv z;
  f_u : ufun z;
  f_k : acked_durable z;
  f_a : w_alive (z_w z) = true -> linv z /\ cinv z }.

Lemma zcall_frame z o z' v : zcall z o = Some (z', v) -> z_disk z' = z_disk z /\ z_acks z' = z_acks z.
Proof. unfold zcall. intros H. inv_step H; simpl; auto. Qed.

Lemma zwork_alive z ok z' v : zwork z ok = Some (z', v) -> w_alive (z_w z) = true.
Proof. unfold zwork. intros H. destruct (w_alive (z_w z)); [reflexivity|discriminate]. Qed.

Lemma acks_below z c ok : pend_ok z -> In (c, ok) (z_acks z) -> c < k_next_cb (z_core z).
Proof.
  intros [_ Hf] Hin. rewrite Forall_forall in Hf. apply Hf. unfold pend.
  apply in_or_app. left. apply in_map_iff. exists (c, ok). auto.
Qed.

Lemma kstep z e z' v : full z -> zstep z e = Some (z', v) -> acked_durable z'.
Proof.
  intros [B P F U K A] H. unfold acked_durable in *.
  pose proof (zstep_flushed _ _ _ _ H) as Hfl.
  destruct e as [o| |k nf|ok|]; simpl in H.
  - (* ZCall *)
    destruct (zcall_frame _ _ _ _ H) as [Ed Ea]. rewrite Ed, Ea.
    intros c U0 n Hin Hack. destruct Hfl as [E|(cb & n0 & E)]; rewrite E in Hin.
    + eapply K; eauto.
    + apply in_app_or in Hin. destruct Hin as [Hin|[Hin|[]]]; [eapply K; eauto|].
      destruct cb; [|discriminate]. injection Hin as Hc _ _. subst c.
      pose proof (acks_below _ _ _ P Hack). lia.
  - (* ZEff *)
    assert (Hg : g_flushed (z_ghost z') = g_flushed (z_ghost z)).
    { destruct Hfl as [E|(cb & n0 & E)]; [exact E|]. unfold zeff in H. inv_step H; simpl in *.
      - exfalso. apply (f_equal (@length _)) in E. rewrite app_length in E. simpl in E. lia.
      - exfalso. apply (f_equal (@length _)) in E. rewrite app_length in E. simpl in E. lia.
      - exfalso. apply (f_equal (@length _)) in E. rewrite app_length in E. simpl in E. lia. }
    rewrite Hg. unfold zeff in H.
    destruct (z_todo z) as [|[id|id h|r] t] eqn:Et; [discriminate| | |]; inversion H; subst; clear H; simpl.
    + intros c U0 n Hin Hack.
      assert (Hlt : ids_lt (z_disk z) id).
      { unfold ids_lt. rewrite Forall_forall. intros f Hf. apply (b_dlt _ B f id Hf). rewrite Et. now left. }
      rewrite disk_put_end by exact Hlt. apply durable_snoc; [|eapply K; eauto].
      simpl. apply (b_usc _ B U0 id).
      * unfold flushed_us. apply in_map_iff. exists (Some c, U0, n). auto.
      * rewrite Et. now left.
    + intros c U0 n Hin Hack. apply durable_append; [apply (b_sorted _ B)|eapply K; eauto].
    + exact K.
  - (* ZRecv *)
    destruct (zrecv_frame _ _ _ _ _ H) as (_ & Hg & _ & Hd & Ha). rewrite Hg, Hd, Ha. exact K.
  - (* ZWork *)
    destruct (zwork_frame _ _ _ _ H) as (_ & Hg & _). rewrite Hg.
    destruct (A (zwork_alive _ _ _ _ H)) as [L C].
    destruct (zwork_acks _ _ _ _ H) as [Ea|(b & i & ww & c0 & Eb & Ep & En & Ec & Ea & Ed)].
    + rewrite Ea. intros c U0 n Hin Hack. specialize (K c U0 n Hin Hack).
      destruct (zwork_disk _ _ _ _ L H) as [E|[(id & data & E)|[(id & E)|(id & E & Hle)]]]; rewrite E.
      * exact K.
      * apply durable_append; [apply (b_sorted _ B)|exact K].
      * apply durable_sync; [apply (b_sorted _ B)|apply (b_synced _ B)|exact K].
      * apply durable_remove_first; [apply (b_sorted _ B)|exact Hle|exact K].
    + rewrite Ea, Ed. intros c U0 n Hin Hack. apply in_app_or in Hack.
      destruct Hack as [Hack|[Hack|[]]]; [eapply K; eauto|].
      injection Hack as Hc Hok. subst c0.
      assert (Hfl2 : In (c, ww_upto ww) (inflight z)).
      { unfold inflight, batch_writes. rewrite Eb. apply in_or_app. left.
        apply in_flat_map. exists ww. split; [eapply nth_error_In; eauto|].
        unfold cbu_of_ww. rewrite Ec. now left. }
      destruct (F _ _ Hfl2) as (n' & Hn').
      rewrite (U _ _ _ _ _ Hin Hn').
      eapply callback_durable; eauto.
  - destruct (z_todo z) eqn:Et; [|discriminate]. inversion H; subst; clear H. simpl. exact K.
Qed.

Lemma full_init cfg : full (zstart cfg).
Proof.
  constructor.
  - apply binv_init.
  - apply pend_ok_init.
  - intros c u [].
  - intros c U n U' n' [].
  - intros c U n [].
  - intros _. split; [apply linv_init|apply cinv_init].
Qed.

Lemma full_step z e z' v : full z -> zstep z e = Some (z', v) -> full z'.
Proof.
  intros Fz H. pose proof (kstep _ _ _ _ Fz H) as K'. destruct Fz as [B P F U K A].
  constructor.
  - eapply binv_step; eauto.
  - eapply pend_ok_step; eauto.
  - eapply finv_step; eauto.
  - eapply ufun_step; eauto.
  - exact K'.
  - intros Hal. destruct (A (alive_back _ _ _ _ H Hal)) as [L C].
    split; [eapply linv_step; eauto|].
    destruct e as [o| |k nf|ok|]; simpl in H.
    + eapply cinv_call; eauto.
    + eapply cinv_eff; eauto.
    + eapply cinv_recv; eauto.
    + eapply cinv_work; eauto.
    + destruct (z_todo z) eqn:Et; [|discriminate]. inversion H; subst; clear H.
      destruct C as (old & tin & fc & fut & fl & st & C). exists old, tin, fc, fut, fl, st.
      destruct C. constructor; unfold stream in *; simpl; rewrite ?Et in *; assumption.
Qed.

Theorem C04_ack_after_sync : forall cfg z, zreach cfg z -> acked_durable z.
Proof.
  intros cfg z H. apply f_k. revert z H. apply (zreach_ind full).
  - apply full_init.
  - intros; eapply full_step; eauto.
Qed.

(* the written part: a present file holds every byte that its synced prefix covers *)
Corollary C04_ack_written : forall cfg z, zreach cfg z ->
  acked_durable z /\ Forall (fun f => (f_synced f <= N.of_nat (length (f_data f)))%N) (z_disk z).
Proof. intros cfg z H. split; [eapply C04_ack_after_sync|eapply C04_synced_le_written]; eauto. Qed.

Print Assumptions C04_ack_after_sync.

(* the theorem is not vacuous: a successful acknowledgement is reachable *)
Definition demo_cfg : config := mkConfig 10 1000 10 1000 false.
Definition demo_events : list zev :=
  [ZCall (OW (OVote (1, 2))); ZCall (OFlush true); ZEff; ZRecv 0 false;
   ZWork true; ZWork true; ZWork true; ZWork true; ZWork true; ZWork true].

Example ack_reachable :
  exists z, zreach demo_cfg z /\ In (0, true) (z_acks z) /\
            exists U n, In (Some 0, U, n) (g_flushed (z_ghost z)) /\ 0 < U.
Proof.
  destruct (zrun (zstart demo_cfg) demo_events) as [[z vis]|] eqn:E; [|vm_compute in E; discriminate].
  exists z. split.
  - exists (zstart demo_cfg), demo_events, vis. split; [apply zinit_eq|exact E].
  - vm_compute in E. inversion E; subst; clear E. split; [now left|].
    eexists _, _. split; [now left|]. reflexivity.
Qed.
