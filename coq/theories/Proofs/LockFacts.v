(* C13: mutual exclusion of directory owners, on Model/Lock.v. *)
From Coq Require Import List Arith Bool Lia.
From RaftLog Require Import Model.Lock.
Import ListNotations.

(* the invariant: a contender is owner exactly when it holds the lock *)
Definition linv (s : lstate) : Prop :=
  (forall c, l_cs s c = COwner <-> l_holder s = Some c) /\
  (forall c h, In (c, h) (l_touches s) -> h = true).

Lemma upd_same f c v : upd f c v c = v.
Proof. unfold upd. now rewrite Nat.eqb_refl. Qed.
Lemma upd_other f c v x : x <> c -> upd f c v x = f x.
Proof. intros H. unfold upd. destruct (Nat.eqb x c) eqn:E; [apply Nat.eqb_eq in E; contradiction|reflexivity]. Qed.

Lemma linv_init : linv l_init.
Proof. split; cbn; [intros c; split; discriminate|intros c h []]. Qed.

Lemma linv_step s e s' : linv s -> lstep s e = Some s' -> linv s'.
Proof.
  intros [Hown Ht] Hs. destruct e as [c|c|c|c]; cbn in Hs.
  - destruct (l_cs s c) eqn:Ec; try discriminate. inversion Hs; subst; clear Hs. split; cbn; [|exact Ht].
    intros x. destruct (Nat.eq_dec x c) as [->|Nx].
    + rewrite upd_same. split; [discriminate|]. intros Hh. apply Hown in Hh. congruence.
    + rewrite upd_other by exact Nx. apply Hown.
  - destruct (l_cs s c) eqn:Ec; try discriminate.
    destruct (l_holder s) as [h|] eqn:Eh; inversion Hs; subst; clear Hs; split; cbn; try exact Ht.
    + intros x. destruct (Nat.eq_dec x c) as [->|Nx].
      * rewrite upd_same. split; [discriminate|]. intros Hh.
        assert (l_cs s c = COwner) by (apply Hown; congruence). congruence.
      * rewrite upd_other by exact Nx. split.
        -- intros Ho. apply Hown in Ho. congruence.
        -- intros Hh. apply Hown. congruence.
    + intros x. destruct (Nat.eq_dec x c) as [->|Nx].
      * rewrite upd_same. split; reflexivity.
      * rewrite upd_other by exact Nx. split.
        -- intros Ho. apply Hown in Ho. congruence.
        -- intros Hh. inversion Hh; subst. contradiction.
  - destruct (l_cs s c) eqn:Ec; try discriminate. inversion Hs; subst; clear Hs. split; cbn; [exact Hown|].
    intros x h Hin. apply in_app_or in Hin as [Hin|[Hin|[]]]; [eapply Ht; exact Hin|].
    inversion Hin; subst. unfold holder_is. apply Hown in Ec. rewrite Ec. apply Nat.eqb_refl.
  - destruct (l_cs s c) eqn:Ec; try discriminate. inversion Hs; subst; clear Hs. split; cbn; [|exact Ht].
    intros x. destruct (Nat.eq_dec x c) as [->|Nx].
    + rewrite upd_same. split; discriminate.
    + rewrite upd_other by exact Nx. split; [|discriminate].
      intros Ho. apply Hown in Ho. apply Hown in Ec. congruence.
Qed.

Lemma linv_run es : forall s s', linv s -> lrun s es = Some s' -> linv s'.
Proof.
  induction es as [|e r IH]; intros s s' Hi Hr; cbn in Hr.
  - inversion Hr; subst; exact Hi.
  - destruct (lstep s e) as [s1|] eqn:E; [|discriminate]. eapply IH; [eapply linv_step; eauto|exact Hr].
Qed.

(* at most one owner, in every interleaving of any number of contenders *)
Theorem C13_mutex : forall es s a b,
  lrun l_init es = Some s -> l_cs s a = COwner -> l_cs s b = COwner -> a = b.
Proof.
  intros es s a b Hr Ha Hb. destruct (linv_run es _ _ linv_init Hr) as [Hown _].
  apply Hown in Ha. apply Hown in Hb. congruence.
Qed.

(* every access to a chunk file is made by the contender that holds the lock at that moment *)
Theorem C13_touch_only_owner : forall es s c h,
  lrun l_init es = Some s -> In (c, h) (l_touches s) -> h = true.
Proof. intros es s c h Hr. destruct (linv_run es _ _ linv_init Hr) as [_ Ht]. apply Ht. Qed.

(* a refused attempt: while someone else owns the directory, TryLock leaves the contender
   idle, and it cannot touch a chunk file (no LTouch step is enabled for it) *)
Theorem C13_refused_is_inert : forall es s c o s',
  lrun l_init es = Some s -> l_cs s o = COwner -> l_cs s c = CLockFileOpen ->
  lstep s (LTryLock c) = Some s' ->
  l_cs s' c = CIdle /\ l_holder s' = Some o /\ l_touches s' = l_touches s /\ lstep s' (LTouch c) = None.
Proof.
  intros es s c o s' Hr Ho Hc Hs. destruct (linv_run es _ _ linv_init Hr) as [Hown _].
  apply Hown in Ho. cbn in Hs. rewrite Hc, Ho in Hs. inversion Hs; subst; clear Hs. cbn.
  rewrite upd_same. split; [reflexivity|]. split; [reflexivity|]. split; [reflexivity|]. reflexivity.
Qed.

(* once the owner has dropped, the next attempt succeeds *)
Theorem C13_reacquire : forall es s o s1 c s2,
  lrun l_init es = Some s -> l_cs s o = COwner -> lstep s (LDrop o) = Some s1 ->
  l_cs s1 c = CLockFileOpen -> lstep s1 (LTryLock c) = Some s2 -> l_cs s2 c = COwner.
Proof.
  intros es s o s1 c s2 Hr Ho Hd Hc Ht. cbn in Hd. rewrite Ho in Hd. inversion Hd; subst; clear Hd.
  cbn in Ht. cbn in Hc. rewrite Hc in Ht. inversion Ht; subst; clear Ht. cbn. apply upd_same.
Qed.

(* non-vacuity: two contenders race; one wins, the other is refused, then gets in after the drop *)
Example C13_race :
  exists s, lrun l_init [LOpenLockFile 0; LOpenLockFile 1; LTryLock 1; LTryLock 0; LTouch 1; LDrop 1;
                          LOpenLockFile 0; LTryLock 0; LTouch 0] = Some s /\ l_cs s 0 = COwner /\ l_cs s 1 = CIdle.
Proof. eexists. repeat split. Qed.
