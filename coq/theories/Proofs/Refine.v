(* C01: the sequential core refines the reference log. *)
From Coq Require Import List NArith Bool Lia Sorted.
From RaftLog Require Import Base.Bytes Base.Crc32 Model.Types Model.Codec Model.Cache Model.Core
  Model.Recover Model.Run Spec.Spec Spec.Hist.
From RaftLog Require Import Proofs.OrderFacts Proofs.SmFacts.
Import ListNotations.
Local Open Scope N_scope.

(* ------------------------------------------------------------------ last id of an entry list *)
Definition olast (l : list (logid * payload)) (d : option logid) : option logid :=
  match rev l with (id, _) :: _ => Some id | [] => d end.

Lemma sp_last_olast : forall s, sp_last s = olast (sp_entries s) (sp_purged s).
Proof. reflexivity. Qed.

Lemma olast_nil : forall d, olast [] d = d.
Proof. reflexivity. Qed.

Lemma olast_snoc : forall l x d, olast (l ++ [x]) d = Some (fst x).
Proof. intros l [id p] d. unfold olast. rewrite rev_app_distr. reflexivity. Qed.

Lemma olast_app : forall l1 l2 d d', l2 <> [] -> olast (l1 ++ l2) d = olast l2 d'.
Proof.
  intros l1 l2 d d' H. destruct (exists_last H) as [l2' [x E]]. subst l2.
  rewrite app_assoc, !olast_snoc. reflexivity.
Qed.

(* ------------------------------------------------------------------ sorted entry lists *)
Definition klt (a b : logid * payload) : Prop :=
  pair_cmp (fst a) (fst b) = Lt /\ lid_index (fst a) < lid_index (fst b).

Lemma last_max : forall es d e, StronglySorted klt es -> In e es ->
  exists x, In x es /\ olast es d = Some (fst x) /\ (e = x \/ klt e x).
Proof.
  intros es d e S He.
  assert (Hne : es <> []) by (intros E; subst; destruct He).
  destruct (exists_last Hne) as [l [x E]]. subst es.
  exists x. split; [apply in_or_app; right; left; reflexivity|].
  split; [apply olast_snoc|].
  apply in_app_or in He. destruct He as [He|[He|[]]].
  - right. apply SS_app_inv in S. destruct S as [_ [_ S3]]. apply S3; [exact He|left; reflexivity].
  - left. symmetry. exact He.
Qed.

Lemma sorted_mono : forall es a b, StronglySorted klt es -> In a es -> In b es ->
  lid_index (fst a) < lid_index (fst b) -> pair_cmp (fst a) (fst b) = Lt.
Proof.
  intros es a b S Ha Hb Hlt. apply in_split in Ha. destruct Ha as [l1 [l2 E]]. subst es.
  destruct (SS_split_rel _ _ _ _ S) as [S1 S2].
  apply in_app_or in Hb. destruct Hb as [Hb|[Hb|Hb]].
  - destruct (S1 b Hb) as [_ Hi]. lia.
  - subst b. lia.
  - destruct (S2 b Hb) as [Hc _]. exact Hc.
Qed.

Lemma sorted_mono_le : forall es a b, StronglySorted klt es -> In a es -> In b es ->
  lid_index (fst a) <= lid_index (fst b) -> pair_cmp (fst a) (fst b) <> Gt.
Proof.
  intros es a b S Ha Hb Hle. apply in_split in Ha. destruct Ha as [l1 [l2 E]]. subst es.
  destruct (SS_split_rel _ _ _ _ S) as [S1 S2].
  apply in_app_or in Hb. destruct Hb as [Hb|[Hb|Hb]].
  - destruct (S1 b Hb) as [_ Hi]. lia.
  - subst b. rewrite pair_cmp_refl. discriminate.
  - destruct (S2 b Hb) as [Hc _]. rewrite Hc. discriminate.
Qed.

(* truncating just after an entry of the log leaves that entry last *)
Lemma trunc_last : forall es d id p, StronglySorted klt es -> In (id, p) es ->
  olast (filter (fun e => N.ltb (lid_index (fst e)) (lid_index id + 1)) es) d = Some id.
Proof.
  intros es d id p S Hin.
  set (f := fun e : logid * payload => N.ltb (lid_index (fst e)) (lid_index id + 1)).
  assert (Hf : In (id, p) (filter f es)).
  { apply filter_In. split; [exact Hin|]. unfold f. cbn [fst]. apply N.ltb_lt. lia. }
  destruct (last_max (filter f es) d (id, p) (SS_filter _ f es S) Hf) as [x [Hx [Hl Hc]]].
  rewrite Hl. destruct Hc as [Hc|Hc].
  - subst x. reflexivity.
  - exfalso. destruct Hc as [_ Hc]. cbn [fst] in Hc.
    apply filter_In in Hx. destruct Hx as [_ Hx]. unfold f in Hx. apply N.ltb_lt in Hx. lia.
Qed.

(* purging up to an entry of the log does not change the last id *)
Lemma purge_last : forall es d u p, StronglySorted klt es -> In (u, p) es ->
  olast (filter (fun e => N.ltb (lid_index u) (lid_index (fst e))) es) (Some u) = olast es d.
Proof.
  intros es d u p S Hin. apply in_split in Hin. destruct Hin as [l1 [l2 E]]. subst es.
  destruct (SS_split_rel _ _ _ _ S) as [S1 S2].
  rewrite filter_app. cbn [filter fst]. rewrite N.ltb_irrefl.
  rewrite (filter_all_false _ l1).
  2:{ intros x Hx. destruct (S1 x Hx) as [_ Hi]. cbn [fst] in Hi. apply N.ltb_ge. lia. }
  rewrite (filter_all_true _ l2).
  2:{ intros x Hx. destruct (S2 x Hx) as [_ Hi]. cbn [fst] in Hi. apply N.ltb_lt. exact Hi. }
  cbn [app]. destruct l2 as [|y l2].
  - rewrite olast_nil. change (l1 ++ [(u, p)]) with (l1 ++ [(u, p)]). rewrite olast_snoc. reflexivity.
  - change (l1 ++ (u, p) :: y :: l2) with (l1 ++ [(u, p)] ++ (y :: l2)).
    rewrite app_assoc. symmetry. apply olast_app. discriminate.
Qed.

(* ------------------------------------------------------------------ the abstraction relation *)
Definition f_log (e : N * logdata) : N * logid := (fst e, ld_id (snd e)).
Definition g_ent (e : logid * payload) : N * logid := (lid_index (fst e), fst e).

Record R (s : sm) (sp : spec) : Prop := mkR {
  R_rs : m_rs s = spec_state sp;
  R_log : map f_log (m_log s) = map g_ent (sp_entries sp);
  R_sorted : StronglySorted klt (sp_entries sp);
  R_purged : forall e, In e (sp_entries sp) ->
      opair_cmp (sp_purged sp) (Some (fst e)) = Lt /\ next_index (sp_purged sp) <= lid_index (fst e);
  R_hit : forall e, In e (sp_entries sp) -> ent_get (fst e) (ch_entries (m_cache s)) = Some (snd e);
  R_csorted : StronglySorted clt (ch_entries (m_cache s));
  R_cle : forall e, In e (ch_entries (m_cache s)) -> opair_cmp (Some (fst e)) (sp_last sp) <> Gt }.

(* no-eviction budget: [n] more entries and [b] more payload bytes fit *)
Definition Budget (c : cache) (n b : N) : Prop :=
  N.of_nat (length (ch_entries c)) + n <= ch_max_items c /\ ch_size c + b <= ch_capacity c.

Lemma Budget_mono : forall c n b n' b', Budget c n b -> n' <= n -> b' <= b -> Budget c n' b'.
Proof. intros c n b n' b' [H1 H2] Hn Hb. split; lia. Qed.

Lemma Budget_shrink : forall c c' n b, Budget c n b ->
  (length (ch_entries c') <= length (ch_entries c))%nat -> ch_size c' <= ch_size c ->
  ch_max_items c' = ch_max_items c -> ch_capacity c' = ch_capacity c -> Budget c' n b.
Proof. intros c c' n b [H1 H2] Hl Hs Hm Hc. unfold Budget. rewrite Hm, Hc. split; lia. Qed.

Lemma purged_le_last : forall s sp, R s sp ->
  opair_cmp (sp_purged sp) (sp_last sp) <> Gt /\ next_index (sp_purged sp) <= next_index (sp_last sp).
Proof.
  intros s sp HR. rewrite sp_last_olast. destruct (sp_entries sp) as [|e es] eqn:E.
  - rewrite olast_nil. split; [apply opair_eq_le|lia].
  - destruct (last_max (e :: es) (sp_purged sp) e) as [x [Hx [Hl _]]].
    + rewrite <- E. apply (R_sorted _ _ HR).
    + left. reflexivity.
    + rewrite Hl. rewrite <- E in Hx. destruct (R_purged _ _ HR x Hx) as [H1 H2].
      split; [rewrite H1; discriminate|]. cbn [next_index]. lia.
Qed.

(* every entry is at most the last id, in both orders *)
Lemma entry_le_last : forall s sp e, R s sp -> In e (sp_entries sp) ->
  exists l, sp_last sp = Some l /\ pair_cmp (fst e) l <> Gt /\ lid_index (fst e) <= lid_index l.
Proof.
  intros s sp e HR He.
  destruct (last_max _ (sp_purged sp) e (R_sorted _ _ HR) He) as [x [Hx [Hl Hc]]].
  exists (fst x). split; [exact Hl|]. destruct Hc as [Hc|[Hc1 Hc2]].
  - subst x. split; [rewrite pair_cmp_refl; discriminate|lia].
  - split; [rewrite Hc1; discriminate|lia].
Qed.

Lemma log_key_in : forall s sp e, R s sp -> In e (m_log s) ->
  exists b, In b (sp_entries sp) /\ fst e = lid_index (fst b) /\ ld_id (snd e) = fst b.
Proof.
  intros s sp e HR He.
  destruct (map_eq_in_l f_log g_ent _ _ e (R_log _ _ HR) He) as [b [Hb1 Hb2]].
  exists b. split; [exact Hb1|]. unfold f_log, g_ent in Hb2. inversion Hb2. split; reflexivity.
Qed.

Lemma lm_get_rel : forall m es i, map f_log m = map g_ent es ->
  match lm_get i m with
  | Some d => exists p, In (ld_id d, p) es /\ lid_index (ld_id d) = i
  | None => existsb (fun e => N.eqb (lid_index (fst e)) i) es = false
  end.
Proof.
  intros m. induction m as [|[k d] m IH]; intros [|[id p] es] i H; cbn [map] in H; try discriminate.
  - reflexivity.
  - injection H as H1 H2 H3. cbn [fst snd] in H1, H2. subst k. cbn [lm_get]. destruct (N.eqb i (lid_index id)) eqn:E.
    + apply N.eqb_eq in E. exists p. rewrite H2. split; [left; reflexivity|]. symmetry. exact E.
    + specialize (IH es i H3). destruct (lm_get i m) as [d'|].
      * destruct IH as [p' [Hp1 Hp2]]. exists p'. split; [right; exact Hp1|exact Hp2].
      * cbn [existsb fst]. rewrite N.eqb_sym, E. exact IH.
Qed.

(* a change of the scalar state only *)
Lemma R_same : forall s sp s' sp', R s sp ->
  sp_entries sp' = sp_entries sp -> sp_purged sp' = sp_purged sp ->
  m_log s' = m_log s -> m_cache s' = m_cache s -> m_rs s' = spec_state sp' -> R s' sp'.
Proof.
  intros s sp s' sp' HR He Hp Hl Hc Hrs.
  assert (HL : sp_last sp' = sp_last sp) by (rewrite !sp_last_olast, He, Hp; reflexivity).
  destruct HR as [H1 H2 H3 H4 H5 H6 H7].
  constructor; rewrite ?He, ?Hp, ?Hl, ?Hc, ?HL; assumption.
Qed.

(* ------------------------------------------------------------------ one record against one spec write *)
Definition step_sim (s : sm) (sp : spec) (r : record) (w : swrite) (n b : N) : Prop :=
  match spec_step sp w with
  | Some sp' =>
    index_limit r = false /\ rs_validate (m_rs s) r = None /\
    forall c seg, R (fst (sm_apply s r c seg)) sp' /\ Budget (m_cache (fst (sm_apply s r c seg))) n b
  | None => index_limit r = true \/ exists e, rs_validate (m_rs s) r = Some e
  end.

Lemma core_vote : forall s sp v n b, R s sp -> Budget (m_cache s) n b ->
  step_sim s sp (RVote v) (SVote v) n b.
Proof.
  intros s sp v n b HR HB. unfold step_sim. cbn [spec_step index_limit].
  assert (HV : r_vote (m_rs s) = sp_vote sp) by (rewrite (R_rs _ _ HR); reflexivity).
  unfold rs_validate. rewrite HV.
  destruct (ovote_accepts (sp_vote sp) v) eqn:E.
  - split; [reflexivity|]. split; [reflexivity|]. intros c seg.
    rewrite sm_apply_vote by (unfold rs_validate; rewrite HV, E; reflexivity).
    cbn [m_cache]. split; [|exact HB].
    eapply R_same; [exact HR|reflexivity|reflexivity|reflexivity|reflexivity|].
    cbn [m_rs]. rewrite (R_rs _ _ HR). reflexivity.
  - right. eexists. reflexivity.
Qed.

Lemma core_commit : forall s sp id n b, R s sp -> Budget (m_cache s) n b ->
  step_sim s sp (RCommit id) (SCommit id) n b.
Proof.
  intros s sp id n b HR HB. unfold step_sim. cbn [spec_step index_limit].
  assert (HV : r_committed (m_rs s) = sp_committed sp) by (rewrite (R_rs _ _ HR); reflexivity).
  unfold rs_validate. rewrite HV. rewrite (opair_leb_negb_ltb (sp_committed sp) (Some id)).
  destruct (opair_ltb (Some id) (sp_committed sp)) eqn:E; cbn [negb].
  - right. eexists. reflexivity.
  - split; [reflexivity|]. split; [reflexivity|]. intros c seg.
    rewrite sm_apply_commit by (unfold rs_validate; rewrite HV, E; reflexivity).
    cbn [m_cache]. split; [|exact HB].
    eapply R_same; [exact HR|reflexivity|reflexivity|reflexivity|reflexivity|].
    cbn [m_rs]. rewrite (R_rs _ _ HR). reflexivity.
Qed.

Lemma core_user : forall s sp u n b, R s sp -> Budget (m_cache s) n b ->
  step_sim s sp (RState (rs_set_user (m_rs s) u)) (SUser u) n b.
Proof.
  intros s sp u n b HR HB. unfold step_sim. cbn [spec_step index_limit].
  split; [reflexivity|]. split; [reflexivity|]. intros c seg.
  rewrite sm_apply_state. cbn [m_cache]. split; [|exact HB].
  eapply R_same; [exact HR|reflexivity|reflexivity|reflexivity|reflexivity|].
  cbn [m_rs]. rewrite (R_rs _ _ HR). reflexivity.
Qed.

Lemma entry_validate : forall rs id p,
  rs_validate rs (RAppend id p) = None <->
  (opair_ltb (r_last rs) (Some id) &&
   match r_last rs with Some l => N.eqb (lid_index id) (lid_index l + 1) | None => true end) = true.
Proof.
  intros rs id p. unfold rs_validate. rewrite (opair_ltb_negb_leb (r_last rs) (Some id)).
  destruct (opair_leb (Some id) (r_last rs)); cbn [negb andb].
  - split; discriminate.
  - destruct (r_last rs) as [l|]; [|split; reflexivity].
    rewrite (N.eqb_sym (lid_index id)).
    destruct (N.eqb (lid_index l + 1) (lid_index id)); split; congruence.
Qed.

Lemma entry_accept : forall s sp id p n b,
  R s sp -> Budget (m_cache s) (n + 1) (b + psize p) ->
  opair_cmp (sp_last sp) (Some id) = Lt ->
  (forall l, sp_last sp = Some l -> lid_index id = lid_index l + 1) ->
  rs_validate (m_rs s) (RAppend id p) = None ->
  forall c seg,
    R (fst (sm_apply s (RAppend id p) c seg))
      (mkSpec (sp_vote sp) (sp_entries sp ++ [(id, p)]) (sp_committed sp) (sp_purged sp) (sp_user sp)) /\
    Budget (m_cache (fst (sm_apply s (RAppend id p) c seg))) n b.
Proof.
  intros s sp id p n b HR HB Hlt Hidx HV c seg.
  rewrite (sm_apply_append s id p c seg HV).
  assert (F1 : forall e, In e (sp_entries sp) -> klt e (id, p)).
  { intros e He. destruct (entry_le_last s sp e HR He) as [l [Hl [H1 H2]]].
    rewrite Hl in Hlt. cbn [opair_cmp] in Hlt. specialize (Hidx l Hl).
    split; cbn [fst]; [eapply pair_cmp_le_lt_trans; eassumption|lia]. }
  assert (F2 : forall e, In e (m_log s) -> fst e < lid_index id).
  { intros e He. destruct (log_key_in s sp e HR He) as [x [Hx1 [Hx2 _]]].
    destruct (F1 x Hx1) as [_ Hi]. cbn [fst] in Hi. lia. }
  assert (F3 : forall e, In e (ch_entries (m_cache s)) -> pair_cmp (fst e) id = Lt).
  { intros e He. pose proof (R_cle _ _ HR e He) as Hc.
    exact (opair_le_lt_trans _ _ _ Hc Hlt). }
  destruct HB as [HB1 HB2].
  rewrite (cache_insert_end (m_cache s) id p F3) by lia.
  set (sp' := mkSpec (sp_vote sp) (sp_entries sp ++ [(id, p)]) (sp_committed sp) (sp_purged sp) (sp_user sp)).
  assert (HL : sp_last sp' = Some id).
  { rewrite sp_last_olast. unfold sp'. cbn [sp_entries]. rewrite olast_snoc. reflexivity. }
  split.
  - constructor.
    + cbn [m_rs]. unfold spec_state. rewrite HL. rewrite (R_rs _ _ HR). reflexivity.
    + cbn [m_log]. unfold sp'. cbn [sp_entries]. rewrite (lm_insert_end _ _ _ F2).
      rewrite !map_app, (R_log _ _ HR). reflexivity.
    + unfold sp'. cbn [sp_entries]. apply SS_app_intro; [apply (R_sorted _ _ HR)|apply SS_single|].
      intros a x Ha [Hx|[]]. subst x. apply F1. exact Ha.
    + unfold sp'. cbn [sp_entries sp_purged]. intros e He. apply in_app_or in He.
      destruct He as [He|[He|[]]]; [apply (R_purged _ _ HR e He)|].
      subst e. cbn [fst]. destruct (purged_le_last s sp HR) as [P1 P2]. split.
      * eapply opair_le_lt_trans; eassumption.
      * destruct (sp_last sp) as [l|] eqn:EL.
        -- rewrite (Hidx l eq_refl). cbn [next_index] in P2. exact P2.
        -- apply opair_le_None in P1. rewrite P1. cbn [next_index]. lia.
    + unfold sp'. cbn [sp_entries m_cache cache_with ch_entries]. intros e He. apply in_app_or in He.
      destruct He as [He|[He|[]]].
      * apply ent_get_app_l. apply (R_hit _ _ HR e He).
      * subst e. cbn [fst snd]. rewrite ent_get_app_r.
        -- cbn [ent_get]. rewrite pair_eqb_refl. reflexivity.
        -- intros e He. apply pair_cmp_lt_neq. apply F3. exact He.
    + cbn [m_cache cache_with ch_entries]. apply SS_app_intro; [apply (R_csorted _ _ HR)|apply SS_single|].
      intros a x Ha [Hx|[]]. subst x. unfold clt. cbn [fst]. apply F3. exact Ha.
    + rewrite HL. cbn [m_cache cache_with ch_entries]. intros e He. apply in_app_or in He.
      destruct He as [He|[He|[]]].
      * cbn [opair_cmp]. rewrite (F3 e He). discriminate.
      * subst e. cbn [fst opair_cmp]. rewrite pair_cmp_refl. discriminate.
  - cbn [m_cache]. unfold Budget, cache_with. cbn [ch_entries ch_size ch_max_items ch_capacity].
    rewrite app_length, Nat2N.inj_add. cbn [length]. change (N.of_nat 1) with 1. split; lia.
Qed.

Lemma core_entry : forall s sp id p n b, R s sp -> Budget (m_cache s) (n + 1) (b + psize p) ->
  step_sim s sp (RAppend id p) (SEntry id p) n b.
Proof.
  intros s sp id p n b HR HB. unfold step_sim. cbn [spec_step index_limit].
  pose proof (entry_validate (m_rs s) id p) as HV.
  assert (HL : r_last (m_rs s) = sp_last sp) by (rewrite (R_rs _ _ HR); reflexivity).
  rewrite HL in HV.
  destruct (opair_ltb (sp_last sp) (Some id) &&
            match sp_last sp with Some l => N.eqb (lid_index id) (lid_index l + 1) | None => true end) eqn:E1.
  - destruct (N.eqb (lid_index id) U64MAX) eqn:E3; cbn [andb negb].
    + left. reflexivity.
    + split; [reflexivity|]. split; [apply HV; reflexivity|]. intros c seg.
      apply andb_true_iff in E1. destruct E1 as [E1 E2].
      apply entry_accept; [exact HR|exact HB| | |apply HV; reflexivity].
      * apply opair_ltb_lt. exact E1.
      * intros l Hl. rewrite Hl in E2. apply N.eqb_eq in E2. exact E2.
  - cbn [andb]. right. destruct (rs_validate (m_rs s) (RAppend id p)) as [e|] eqn:V.
    + exists e. reflexivity.
    + exfalso. destruct HV as [HV _]. specialize (HV eq_refl). discriminate.
Qed.

Lemma trunc_accept : forall s sp o n b,
  R s sp -> Budget (m_cache s) n b ->
  (o = sp_purged sp \/ exists id p, o = Some id /\ In (id, p) (sp_entries sp)) ->
  forall c seg,
    R (fst (sm_apply s (RTrunc o) c seg))
      (mkSpec (sp_vote sp) (filter (fun e => N.ltb (lid_index (fst e)) (next_index o)) (sp_entries sp))
              (sp_committed sp) (sp_purged sp) (sp_user sp)) /\
    Budget (m_cache (fst (sm_apply s (RTrunc o) c seg))) n b.
Proof.
  intros s sp o n b HR HB Ho c seg. rewrite sm_apply_trunc.
  set (f := fun e : logid * payload => N.ltb (lid_index (fst e)) (next_index o)).
  set (sp' := mkSpec (sp_vote sp) (filter f (sp_entries sp)) (sp_committed sp) (sp_purged sp) (sp_user sp)).
  assert (T : opair_cmp o (sp_last sp) <> Gt /\ sp_last sp' = o /\
              (forall e, In e (filter f (sp_entries sp)) -> opair_cmp (Some (fst e)) o <> Gt)).
  { destruct Ho as [Ho|[id [p [Ho Hin]]]].
    - subst o. split; [apply (purged_le_last s sp HR)|].
      assert (Hnil : filter f (sp_entries sp) = []).
      { apply filter_all_false. intros x Hx. destruct (R_purged _ _ HR x Hx) as [_ Hi].
        unfold f. apply N.ltb_ge. exact Hi. }
      split.
      + rewrite sp_last_olast. unfold sp'. cbn [sp_entries sp_purged]. rewrite Hnil. reflexivity.
      + rewrite Hnil. intros e [].
    - subst o. split; [|split].
      + destruct (entry_le_last s sp (id, p) HR Hin) as [l [Hl [H1 _]]]. rewrite Hl.
        cbn [opair_cmp fst] in *. exact H1.
      + rewrite sp_last_olast. unfold sp'. cbn [sp_entries sp_purged]. unfold f. cbn [next_index].
        apply (trunc_last _ _ id p (R_sorted _ _ HR) Hin).
      + intros e He. apply filter_In in He. destruct He as [He1 He2]. unfold f in He2.
        cbn [next_index] in He2. apply N.ltb_lt in He2. cbn [opair_cmp].
        apply (sorted_mono_le _ e (id, p) (R_sorted _ _ HR) He1 Hin). cbn [fst]. lia. }
  destruct T as [T1 [T2 T3]].
  assert (Hrs : (if opair_ltb o (r_last (m_rs s)) then rs_set_last (m_rs s) o else m_rs s) = spec_state sp').
  { rewrite (R_rs _ _ HR). cbn [spec_state r_last].
    destruct (opair_ltb o (sp_last sp)) eqn:E.
    - unfold spec_state. rewrite T2. reflexivity.
    - apply opair_ltb_ge in E. pose proof (opair_le_antisym _ _ T1 E) as Heq.
      unfold spec_state. rewrite T2. rewrite Heq. reflexivity. }
  assert (Hlog : map f_log (lm_keep_lt (next_index o) (m_log s)) = map g_ent (filter f (sp_entries sp))).
  { exact (map_filter_rel (fun q : N * logid => N.ltb (fst q) (next_index o)) f_log g_ent _ _ (R_log _ _ HR)). }
  assert (Hpg : forall e, In e (filter f (sp_entries sp)) ->
      opair_cmp (sp_purged sp) (Some (fst e)) = Lt /\ next_index (sp_purged sp) <= lid_index (fst e)).
  { intros e He. apply filter_In in He. apply (R_purged _ _ HR e). apply He. }
  destruct o as [key|].
  - pose proof (cache_truncate_after_entries (m_cache s) key (R_csorted _ _ HR)) as Hce.
    destruct (cache_truncate_after_meta (m_cache s) key) as [M1 [M2 M3]].
    split.
    + constructor; cbn [m_rs m_log m_cache].
      * exact Hrs.
      * exact Hlog.
      * apply SS_filter. apply (R_sorted _ _ HR).
      * exact Hpg.
      * unfold sp'. cbn [sp_entries]. intros e He. rewrite Hce.
        rewrite (ent_get_filter_key (fun k0 => negb (pair_ltb key k0))).
        -- apply (R_hit _ _ HR). apply filter_In in He. apply He.
        -- apply negb_true_iff. apply pair_ltb_ge. apply (T3 e He).
      * rewrite Hce. apply SS_filter. apply (R_csorted _ _ HR).
      * rewrite T2, Hce. intros e He. apply filter_In in He. destruct He as [_ He].
        apply negb_true_iff in He. apply pair_ltb_ge in He. exact He.
    + cbn [m_cache]. eapply Budget_shrink; [exact HB| |exact M1|exact M2|exact M3].
      rewrite Hce. apply filter_length_le'.
  - assert (Hnil : filter f (sp_entries sp) = []).
    { apply filter_all_false. intros x _. unfold f. cbn [next_index]. apply N.ltb_ge. lia. }
    split.
    + constructor; cbn [m_rs m_log m_cache].
      * exact Hrs.
      * exact Hlog.
      * apply SS_filter. apply (R_sorted _ _ HR).
      * exact Hpg.
      * unfold sp'. cbn [sp_entries]. rewrite Hnil. intros e [].
      * cbn. constructor.
      * cbn. intros e [].
    + cbn [m_cache]. eapply Budget_shrink; [exact HB|cbn; lia|cbn; lia|reflexivity|reflexivity].
Qed.

Lemma purge_accept : forall s sp u n b,
  R s sp -> Budget (m_cache s) n b ->
  ((exists p, In (u, p) (sp_entries sp)) \/
   (opair_cmp (sp_last sp) (Some u) = Lt /\ forall l, sp_last sp = Some l -> lid_index l < lid_index u)) ->
  forall c seg,
    R (fst (sm_apply s (RPurge u) c seg))
      (mkSpec (sp_vote sp) (filter (fun e => N.ltb (lid_index u) (lid_index (fst e))) (sp_entries sp))
              (sp_committed sp)
              (if opair_ltb (sp_purged sp) (Some u) then Some u else sp_purged sp) (sp_user sp)) /\
    Budget (m_cache (fst (sm_apply s (RPurge u) c seg))) n b.
Proof.
  intros s sp u n b HR HB Ho c seg. rewrite sm_apply_purge.
  set (f := fun e : logid * payload => N.ltb (lid_index u) (lid_index (fst e))).
  set (nl := if opair_ltb (sp_last sp) (Some u) then Some u else sp_last sp).
  assert (P : opair_cmp (sp_purged sp) (Some u) = Lt /\
              olast (filter f (sp_entries sp)) (Some u) = nl /\
              (forall e, In e (filter f (sp_entries sp)) -> pair_cmp u (fst e) = Lt) /\
              opair_cmp (sp_last sp) nl <> Gt).
  { destruct Ho as [[p Hin]|[Hlt Hidx]].
    - destruct (entry_le_last s sp (u, p) HR Hin) as [l [Hl [H1 _]]]. cbn [fst] in H1.
      assert (Hnl : nl = sp_last sp).
      { unfold nl. rewrite Hl.
        assert (E : opair_ltb (Some l) (Some u) = false) by (apply opair_ltb_ge; exact H1).
        rewrite E. reflexivity. }
      split; [apply (R_purged _ _ HR (u, p) Hin)|]. split; [|split].
      + rewrite Hnl, sp_last_olast. apply (purge_last _ _ u p (R_sorted _ _ HR) Hin).
      + intros e He. apply filter_In in He. destruct He as [He1 He2]. unfold f in He2.
        apply N.ltb_lt in He2.
        apply (sorted_mono _ (u, p) e (R_sorted _ _ HR) Hin He1). cbn [fst]. exact He2.
      + rewrite Hnl. apply opair_eq_le.
    - assert (Hnl : nl = Some u).
      { unfold nl. assert (E : opair_ltb (sp_last sp) (Some u) = true) by (apply opair_ltb_lt; exact Hlt).
        rewrite E. reflexivity. }
      assert (Hnil : filter f (sp_entries sp) = []).
      { apply filter_all_false. intros x Hx.
        destruct (entry_le_last s sp x HR Hx) as [l [Hl [_ H2]]]. specialize (Hidx l Hl).
        unfold f. apply N.ltb_ge. lia. }
      split; [|split; [|split]].
      + destruct (purged_le_last s sp HR) as [Q1 _]. eapply opair_le_lt_trans; eassumption.
      + rewrite Hnil, Hnl. reflexivity.
      + rewrite Hnil. intros e [].
      + rewrite Hnl, Hlt. discriminate. }
  destruct P as [P1 [P2 [P3 P4]]].
  assert (P1' : opair_ltb (sp_purged sp) (Some u) = true) by (apply opair_ltb_lt; exact P1).
  rewrite P1'.
  set (sp' := mkSpec (sp_vote sp) (filter f (sp_entries sp)) (sp_committed sp) (Some u) (sp_user sp)).
  assert (HL : sp_last sp' = nl).
  { rewrite sp_last_olast. unfold sp'. cbn [sp_entries sp_purged]. exact P2. }
  destruct (cache_purge_upto_split (m_cache s) u) as [es1 [C1 [C2 [C3 [C4 C5]]]]].
  split.
  - constructor; cbn [m_rs m_log m_cache].
    + rewrite (R_rs _ _ HR). unfold spec_state. cbn [r_purged]. rewrite P1'. cbv zeta.
      cbn [rs_set_purged rs_set_last r_last r_vote r_committed r_user r_purged].
      rewrite HL. unfold nl.
      destruct (opair_ltb (sp_last sp) (Some u)); reflexivity.
    + unfold lm_keep_ge.
      rewrite (filter_ext (fun e : N * logdata => N.leb (next_index (Some u)) (fst e))
                          (fun e : N * logdata => N.ltb (lid_index u) (fst e))).
      * exact (map_filter_rel (fun q : N * logid => N.ltb (lid_index u) (fst q)) f_log g_ent _ _ (R_log _ _ HR)).
      * intros a. cbn [next_index]. destruct (N.ltb (lid_index u) (fst a)) eqn:E.
        -- apply N.leb_le. apply N.ltb_lt in E. lia.
        -- apply N.leb_gt. apply N.ltb_ge in E. lia.
    + apply SS_filter. apply (R_sorted _ _ HR).
    + unfold sp'. cbn [sp_entries sp_purged]. intros e He. split.
      * cbn [opair_cmp]. apply P3. exact He.
      * apply filter_In in He. destruct He as [_ He]. unfold f in He. apply N.ltb_lt in He.
        cbn [next_index]. lia.
    + unfold sp'. cbn [sp_entries]. intros e He.
      assert (Hin : In e (sp_entries sp)) by (apply filter_In in He; apply He).
      pose proof (R_hit _ _ HR e Hin) as Hh. rewrite C1 in Hh. rewrite ent_get_app_r in Hh; [exact Hh|].
      intros x Hx. apply pair_cmp_lt_neq. eapply pair_cmp_le_lt_trans; [apply C2; exact Hx|apply P3; exact He].
    + pose proof (R_csorted _ _ HR) as Hs. rewrite C1 in Hs. apply SS_app_inv in Hs. apply Hs.
    + rewrite HL. intros e He. eapply opair_le_trans; [|exact P4].
      apply (R_cle _ _ HR). rewrite C1. apply in_or_app. right. exact He.
  - cbn [m_cache]. eapply Budget_shrink; [exact HB| |exact C3|exact C4|exact C5].
    rewrite C1 at 1. rewrite app_length. lia.
Qed.

(* ------------------------------------------------------------------ the invariant of a run *)
Definition Inv (k : core) (sp : spec) (n b : N) : Prop :=
  R (k_sm k) sp /\ Budget (m_cache (k_sm k)) n b /\ ck_ends (k_open k) <> [].

Lemma Inv_mono : forall k sp n b n' b', Inv k sp n b -> n' <= n -> b' <= b -> Inv k sp n' b'.
Proof.
  intros k sp n b n' b' [HR [HB HO]] Hn Hb. split; [exact HR|]. split; [|exact HO].
  eapply Budget_mono; eassumption.
Qed.

Lemma Inv_ext : forall k k' sp n b, k_sm k' = k_sm k -> k_open k' = k_open k ->
  Inv k sp n b -> Inv k' sp n b.
Proof. intros k k' sp n b H1 H2 HI. unfold Inv. rewrite H1, H2. exact HI. Qed.

Lemma Inv_evictable : forall k sp n b x, Inv k sp n b ->
  Inv (core_with_cache k (cache_set_evictable (m_cache (k_sm k)) x)) sp n b.
Proof.
  intros k sp n b x [HR [HB HO]]. split; [|split; [exact HB|exact HO]].
  destruct HR as [H1 H2 H3 H4 H5 H6 H7]. constructor; cbn; assumption.
Qed.

Definition res_agrees (r : wres) (ok : bool) : Prop :=
  match r with WOk _ _ => ok = true | WErr _ => ok = false end.

Lemma one_sim : forall k sp n b n' b' r w,
  Inv k sp n b -> n' <= n -> b' <= b ->
  step_sim (k_sm k) sp r w n' b' ->
  exists k' res effs, append_and_apply k r = Ret (k', res, effs) /\
    Inv k' (fst (spec_one sp w)) n' b' /\ res_agrees res (snd (spec_one sp w)).
Proof.
  intros k sp n b n' b' r w HI Hn Hb HS. unfold step_sim in HS. unfold spec_one.
  destruct (spec_step sp w) as [sp'|]; cbn [fst snd].
  - destruct HS as [HL [HV Hsim]].
    destruct (aaa_ok k r HL HV) as (k' & off & len & effs & c & seg & Ha & Hsm & Hop).
    exists k', (WOk off len), effs. split; [exact Ha|]. split; [|reflexivity].
    destruct (Hsim c seg) as [HR' HB']. unfold Inv. rewrite Hsm. split; [exact HR'|]. split; assumption.
  - destruct (index_limit r) eqn:HL.
    + exists k, (WErr EIndexLimit), []. split; [apply aaa_limit; exact HL|]. split; [|reflexivity].
      eapply Inv_mono; eassumption.
    + destruct HS as [HS|[e HS]]; [discriminate|].
      exists k, (WErr e), []. split; [apply aaa_invalid; assumption|]. split; [|reflexivity].
      eapply Inv_mono; eassumption.
Qed.

Definition bytes_of (es : list (logid * payload)) : N :=
  fold_right (fun e acc => psize (snd e) + acc) 0 es.

Lemma bytes_of_app : forall a b, bytes_of (a ++ b) = bytes_of a + bytes_of b.
Proof.
  intros a b. induction a as [|x a IH]; cbn [app bytes_of fold_right]; [reflexivity|].
  fold (bytes_of (a ++ b)). fold (bytes_of a). rewrite IH. lia.
Qed.

Lemma do_append_sim : forall es k sp acc effs0 n b,
  Inv k sp (n + N.of_nat (length es)) (b + bytes_of es) -> wres_ok acc ->
  exists k' r effs, do_append k es acc effs0 = Ret (k', r, effs) /\
    Inv k' (fst (spec_append sp es)) n b /\ res_agrees r (snd (spec_append sp es)).
Proof.
  intros es. induction es as [|[id p] es IH]; intros k sp acc effs0 n b HI Hacc.
  - exists k, acc, effs0. split; [reflexivity|]. cbn [spec_append fst snd]. split.
    + eapply Inv_mono; [exact HI|lia|lia].
    + destruct acc; [reflexivity|destruct Hacc].
  - assert (HI' : Inv k sp ((n + N.of_nat (length es)) + 1) ((b + bytes_of es) + psize p)).
    { eapply Inv_mono; [exact HI| |].
      - cbn [length]. rewrite Nat2N.inj_succ. lia.
      - cbn [bytes_of fold_right snd]. fold (bytes_of es). lia. }
    destruct HI' as [HR [HB HO]].
    pose proof (core_entry _ _ id p _ _ HR HB) as HS.
    destruct (one_sim k sp _ _ (n + N.of_nat (length es)) (b + bytes_of es) _ _
                (conj HR (conj HB HO)) ltac:(lia) ltac:(lia) HS)
      as (k1 & res & ef & Ha & HI1 & Hag).
    cbn [do_append spec_append]. rewrite Ha. unfold spec_one in HI1, Hag.
    destruct (spec_step sp (SEntry id p)) as [sp1|]; cbn [fst snd] in HI1, Hag.
    + destruct res as [off len|e]; [|discriminate Hag].
      destruct (IH k1 sp1 (WOk off len) (effs0 ++ ef) n b HI1 I) as (k2 & r2 & ef2 & Hd & HI2 & Hag2).
      exists k2, r2, ef2. split; [exact Hd|]. split; assumption.
    + destruct res as [off len|e]; [discriminate Hag|].
      exists k1, (WErr e), (effs0 ++ ef). split; [reflexivity|]. cbn [fst snd]. split; [|reflexivity].
      eapply Inv_mono; [exact HI1|lia|lia].
Qed.

Lemma do_write_sim : forall k sp w n b,
  Inv k sp (n + N.of_nat (length (op_entries (OW w)))) (b + bytes_of (op_entries (OW w))) ->
  wop_legal sp w = true ->
  exists k' r effs, do_write k w = Ret (k', r, effs) /\
    Inv k' (fst (spec_wop sp w)) n b /\ res_agrees r (snd (spec_wop sp w)).
Proof.
  intros k sp w n b HI Hleg.
  assert (HI0 : Inv k sp n b) by (eapply Inv_mono; [exact HI|lia|lia]).
  destruct w as [v|es|i|u|id|u|st]; cbn [do_write spec_wop].
  - destruct HI0 as [HR [HB HO]].
    apply (one_sim k sp n b n b _ _ (conj HR (conj HB HO)) (N.le_refl _) (N.le_refl _)).
    apply core_vote; assumption.
  - destruct HI as [HR [HB HO]]. destruct (wal_last_segment_ok k HO) as [s0 [l0 Hw]]. rewrite Hw.
    apply do_append_sim; [|exact I]. split; [exact HR|]. split; [exact HB|exact HO].
  - destruct HI0 as [HR [HB HO]].
    assert (HP : r_purged (m_rs (k_sm k)) = sp_purged sp) by (rewrite (R_rs _ _ HR); reflexivity).
    rewrite HP.
    destruct (N.eqb i (next_index (sp_purged sp))) eqn:E1.
    + apply N.eqb_eq in E1. subst i.
      apply (one_sim k sp n b n b _ _ (conj HR (conj HB HO)) (N.le_refl _) (N.le_refl _)).
      unfold step_sim. cbn [spec_step]. rewrite N.eqb_refl. cbn [orb].
      split; [reflexivity|]. split; [reflexivity|]. intros c seg.
      apply trunc_accept; [exact HR|exact HB|]. left. reflexivity.
    + destruct (N.eqb i 0) eqn:E2.
      * exists k, (WErr EIndexNotFound), []. split; [reflexivity|].
        unfold spec_one. cbn [spec_step]. rewrite E1, E2. cbn [orb negb andb fst snd].
        split; [|reflexivity]. split; [exact HR|]. split; assumption.
      * pose proof (lm_get_rel (m_log (k_sm k)) (sp_entries sp) (i - 1) (R_log _ _ HR)) as HG.
        unfold lm_get_id. destruct (lm_get (i - 1) (m_log (k_sm k))) as [d|].
        -- destruct HG as [p [Hin Hidx]].
           apply (one_sim k sp n b n b _ _ (conj HR (conj HB HO)) (N.le_refl _) (N.le_refl _)).
           unfold step_sim. cbn [spec_step]. rewrite E1, E2. cbn [orb negb andb].
           assert (Hh : sp_has_index sp (i - 1) = true).
           { unfold sp_has_index. apply existsb_exists. exists (ld_id d, p).
             split; [exact Hin|]. cbn [fst]. apply N.eqb_eq. exact Hidx. }
           rewrite Hh. split; [reflexivity|]. split; [reflexivity|]. intros c seg.
           assert (Hi : i = next_index (Some (ld_id d))).
           { cbn [next_index]. apply N.eqb_neq in E2. lia. }
           rewrite Hi. apply trunc_accept; [exact HR|exact HB|].
           right. exists (ld_id d), p. split; [reflexivity|exact Hin].
        -- exists k, (WErr EIndexNotFound), []. split; [reflexivity|].
           unfold spec_one. cbn [spec_step]. rewrite E1, E2. cbn [orb negb andb].
           unfold sp_has_index. rewrite HG. cbn [fst snd].
           split; [|reflexivity]. split; [exact HR|]. split; assumption.
  - cbn [wop_legal] in Hleg. destruct HI0 as [HR [HB HO]].
    assert (HP : r_purged (m_rs (k_sm k)) = sp_purged sp) by (rewrite (R_rs _ _ HR); reflexivity).
    rewrite HP.
    destruct (N.ltb (lid_index u) (next_index (sp_purged sp))) eqn:E1.
    + destruct (wal_last_segment_ok k HO) as [s0 [l0 Hw]]. rewrite Hw.
      exists k, (WOk s0 l0), []. split; [reflexivity|].
      unfold spec_one. cbn [spec_step]. rewrite E1. cbn [fst snd].
      split; [|reflexivity]. split; [exact HR|]. split; assumption.
    + assert (HS : step_sim (k_sm k) sp (RPurge u) (SPurge u) n b).
      { unfold step_sim. cbn [spec_step index_limit]. rewrite E1.
        destruct (N.eqb (lid_index u) U64MAX) eqn:E2.
        - left. reflexivity.
        - split; [reflexivity|]. split; [reflexivity|]. intros c seg.
          apply purge_accept; [exact HR|exact HB|].
          unfold purge_legal in Hleg. rewrite E1 in Hleg. cbn [orb] in Hleg.
          apply orb_true_iff in Hleg. destruct Hleg as [Hl|Hl].
          + left. apply existsb_exists in Hl. destruct Hl as [[id p] [Hin He]].
            cbn [fst] in He. apply pair_eqb_eq in He. subst id. exists p. exact Hin.
          + right. apply andb_true_iff in Hl. destruct Hl as [H1 H2].
            split; [apply opair_ltb_lt; exact H1|]. intros l Hl. rewrite Hl in H2.
            apply N.ltb_lt. exact H2. }
      destruct (one_sim k sp n b n b _ _ (conj HR (conj HB HO)) (N.le_refl _) (N.le_refl _) HS)
        as (k1 & res & ef & Ha & HI1 & Hag).
      rewrite Ha. destruct res as [off len|e].
      * destruct (pop_obsolete u (k_closed k1)) as [ids rest].
        eexists. eexists. eexists. split; [reflexivity|]. split; [|exact Hag].
        eapply Inv_ext; [| |exact HI1]; reflexivity.
      * exists k1, (WErr e), ef. split; [reflexivity|]. split; assumption.
  - destruct HI0 as [HR [HB HO]].
    apply (one_sim k sp n b n b _ _ (conj HR (conj HB HO)) (N.le_refl _) (N.le_refl _)).
    apply core_commit; assumption.
  - destruct HI0 as [HR [HB HO]].
    apply (one_sim k sp n b n b _ _ (conj HR (conj HB HO)) (N.le_refl _) (N.le_refl _)).
    apply core_user; assumption.
  - discriminate Hleg.
Qed.

(* ------------------------------------------------------------------ one caller operation *)
Lemma run_op_sim : forall y sp o n b,
  Inv (y_core y) sp (n + N.of_nat (length (op_entries o))) (b + bytes_of (op_entries o)) ->
  op_plain sp o = true ->
  exists y' r, run_op y o = (Some y', r) /\ Inv (y_core y') (spec_op sp o) n b /\
    (forall w, o = OW w -> exists wr, r = ResW wr /\ res_agrees wr (snd (spec_wop sp w))).
Proof.
  intros y sp o n b HI Hp.
  assert (HI0 : Inv (y_core y) sp n b) by (eapply Inv_mono; [exact HI|lia|lia]).
  destruct o as [w|cb|from to| | | | | |cfg]; cbn [op_plain] in Hp; try discriminate Hp;
    cbn [run_op spec_op].
  - destruct (do_write_sim _ _ _ _ _ HI Hp) as (k' & r & effs & Hd & HI' & Hag).
    rewrite Hd. eexists. eexists. split; [reflexivity|]. split.
    + rewrite apply_effs_core. exact HI'.
    + intros w0 Hw. inversion Hw. subst w0. exists r. split; [reflexivity|exact Hag].
  - cbn [do_flush]. eexists. eexists. split; [reflexivity|]. split; [|intros w Hw; discriminate Hw].
    rewrite apply_effs_core. cbn [with_core y_core].
    eapply Inv_ext; [| |exact HI0]; reflexivity.
  - pose proof (do_read_core (y_core y) (y_disk y) from to) as [H1 H2].
    destruct (do_read (y_core y) (y_disk y) from to) as [k items]. cbn [fst] in H1, H2.
    eexists. eexists. split; [reflexivity|]. split; [|intros w Hw; discriminate Hw].
    cbn [with_core y_core]. eapply Inv_ext; [exact H1|exact H2|exact HI0].
  - eexists. eexists. split; [reflexivity|]. split; [exact HI0|intros w Hw; discriminate Hw].
  - eexists. eexists. split; [reflexivity|]. split; [exact HI0|intros w Hw; discriminate Hw].
  - eexists. eexists. split; [reflexivity|]. split; [exact HI0|intros w Hw; discriminate Hw].
  - eexists. eexists. split; [reflexivity|]. split; [|intros w Hw; discriminate Hw].
    apply (worker_idle_core (fun k => Inv k sp n b)); [|exact HI0].
    intros k x Hk. apply Inv_evictable. exact Hk.
Qed.

Lemma appended_cons : forall o r, appended (o :: r) = op_entries o ++ appended r.
Proof. reflexivity. Qed.

Lemma appended_bytes_of : forall ops, appended_bytes ops = bytes_of (appended ops).
Proof. reflexivity. Qed.

Lemma run_ops_sim : forall ops y sp res fin n b,
  Inv (y_core y) sp (n + N.of_nat (length (appended ops))) (b + appended_bytes ops) ->
  ops_plain sp ops = true -> run_ops y ops = (res, fin) ->
  exists y', fin = Some y' /\ Inv (y_core y') (spec_ops sp ops) n b.
Proof.
  intros ops. induction ops as [|o r IH]; intros y sp res fin n b HI Hp Hrun.
  - cbn [run_ops] in Hrun. inversion Hrun. subst. exists y. split; [reflexivity|].
    cbn [spec_ops fold_left]. eapply Inv_mono; [exact HI|lia|lia].
  - cbn [ops_plain] in Hp. apply andb_true_iff in Hp. destruct Hp as [Hp1 Hp2].
    assert (HI1 : Inv (y_core y) sp
              ((n + N.of_nat (length (appended r))) + N.of_nat (length (op_entries o)))
              ((b + appended_bytes r) + bytes_of (op_entries o))).
    { eapply Inv_mono; [exact HI| |].
      - rewrite appended_cons, app_length, Nat2N.inj_add. lia.
      - rewrite !appended_bytes_of, appended_cons, bytes_of_app. lia. }
    destruct (run_op_sim y sp o _ _ HI1 Hp1) as (y' & r0 & Hop & HI' & _).
    cbn [run_ops] in Hrun. rewrite Hop in Hrun.
    destruct (run_ops y' r) as [rs fin'] eqn:Er. inversion Hrun. subst.
    cbn [spec_ops fold_left]. apply (IH y' (spec_op sp o) rs fin n b HI' Hp2 Er).
Qed.

Lemma ops_plain_app : forall a sp b, ops_plain sp (a ++ b) = true ->
  ops_plain sp a = true /\ ops_plain (spec_ops sp a) b = true.
Proof.
  intros a. induction a as [|o a IH]; intros sp b H; cbn [app ops_plain spec_ops fold_left] in *.
  - split; [reflexivity|exact H].
  - apply andb_true_iff in H. destruct H as [H1 H2]. destruct (IH _ _ H2) as [H3 H4].
    split; [rewrite H1, H3; reflexivity|exact H4].
Qed.

(* ------------------------------------------------------------------ the fresh store *)
Lemma R_init : forall cfg, R (sm_new cfg) spec0.
Proof.
  intros cfg. constructor; cbn.
  - reflexivity.
  - reflexivity.
  - constructor.
  - intros e [].
  - intros e [].
  - constructor.
  - intros e [].
Qed.

Lemma Inv_init : forall cfg ops y, big_cache cfg ops -> open_dir cfg [] = OpenOk y ->
  Inv (y_core y) spec0 (0 + N.of_nat (length (appended ops))) (0 + appended_bytes ops).
Proof.
  intros cfg ops y [B1 B2] Ho. rewrite open_dir_nil in Ho. inversion Ho. subst y. cbn [y_core].
  split; [apply R_init|]. split.
  - cbn [k_sm sm_new m_cache]. unfold Budget, cache_new. cbn [ch_entries ch_size ch_max_items ch_capacity length].
    split; lia.
  - cbn [k_open]. apply ck_push_ends_nonempty.
Qed.

(* ------------------------------------------------------------------ what the caller observes *)
Lemma read_items_hits : forall ch cl d m es h ms,
  map f_log m = map g_ent es ->
  (forall e, In e es -> ent_get (fst e) (ch_entries ch) = Some (snd e)) ->
  fst (fst (read_items ch cl d m h ms)) = map (fun e => RIOk (fst e) (snd e)) es.
Proof.
  intros ch cl d m. induction m as [|[k ld] m IH]; intros [|[id p] es] h ms Hm Hh;
    cbn [map] in Hm; try discriminate Hm.
  - reflexivity.
  - injection Hm as H1 H2 H3. cbn [fst snd] in H1, H2.
    cbn [read_items]. rewrite H2.
    pose proof (Hh (id, p) (or_introl eq_refl)) as Hg. cbn [fst snd] in Hg. rewrite Hg.
    assert (Hh' : forall e, In e es -> ent_get (fst e) (ch_entries ch) = Some (snd e)).
    { intros e He. apply Hh. right. exact He. }
    specialize (IH es (h + 1) ms H3 Hh').
    destruct (read_items ch cl d m (h + 1) ms) as [[items h'] ms'].
    cbn [fst snd] in IH. cbn [fst snd map]. rewrite IH. reflexivity.
Qed.

Lemma Inv_observes : forall y sp n b, Inv (y_core y) sp n b -> observes y sp.
Proof.
  intros y sp n b [HR _]. unfold observes. split; [apply (R_rs _ _ HR)|]. split.
  - intros from to. unfold read_ok. rewrite do_read_items. apply read_items_hits.
    + unfold lm_range, spec_read.
      rewrite (filter_ext (fun e : N * logdata => N.leb from (fst e) && N.ltb (fst e) (N.max to from))
                          (fun e : N * logdata => N.leb from (fst e) && N.ltb (fst e) to)).
      * exact (map_filter_rel (fun q : N * logid => N.leb from (fst q) && N.ltb (fst q) to)
                 f_log g_ent _ _ (R_log _ _ HR)).
      * intros a. destruct (N.leb from (fst a)) eqn:E1; cbn [andb]; [|reflexivity].
        apply N.leb_le in E1. destruct (N.ltb (fst a) to) eqn:E2.
        -- apply N.ltb_lt. apply N.ltb_lt in E2. lia.
        -- apply N.ltb_ge. apply N.ltb_ge in E2. lia.
    + intros e He. unfold spec_read in He. apply filter_In in He. apply (R_hit _ _ HR). apply He.
  - unfold read_ok. rewrite do_dump_iter_items. apply read_items_hits.
    + apply (R_log _ _ HR).
    + apply (R_hit _ _ HR).
Qed.

(* ------------------------------------------------------------------ C01 *)
Theorem C01_refines_spec : forall cfg ops res fin,
  ops_plain spec0 ops = true ->
  big_cache cfg ops ->
  run_case cfg ops = (res, fin) ->
  exists y, fin = Some y /\ observes y (spec_ops spec0 ops).
Proof.
  intros cfg ops res fin Hp Hb Hrun. unfold run_case in Hrun.
  destruct (open_dir cfg []) as [y0|e d] eqn:Ho.
  - pose proof (Inv_init cfg ops y0 Hb Ho) as HI.
    destruct (run_ops_sim ops y0 spec0 res fin 0 0 HI Hp Hrun) as [y [Hf HI']].
    exists y. split; [exact Hf|]. eapply Inv_observes. exact HI'.
  - rewrite open_dir_nil in Ho. discriminate Ho.
Qed.

Theorem C01_results_agree : forall cfg ops0 w res0 y0,
  ops_plain spec0 (ops0 ++ [OW w]) = true ->
  big_cache cfg (ops0 ++ [OW w]) ->
  run_case cfg ops0 = (res0, Some y0) ->
  match run_op y0 (OW w) with
  | (_, ResW (WOk _ _)) => snd (spec_wop (spec_ops spec0 ops0) w) = true
  | (_, ResW (WErr _)) => snd (spec_wop (spec_ops spec0 ops0) w) = false
  | _ => False
  end.
Proof.
  intros cfg ops0 w res0 y0 Hp [B1 B2] Hrun. unfold run_case in Hrun.
  destruct (ops_plain_app _ _ _ Hp) as [Hp1 Hp2].
  cbn [ops_plain] in Hp2. rewrite andb_true_r in Hp2.
  assert (Happ : appended (ops0 ++ [OW w]) = appended ops0 ++ op_entries (OW w)).
  { unfold appended. rewrite flat_map_app. cbn [flat_map]. rewrite app_nil_r. reflexivity. }
  destruct (open_dir cfg []) as [y1|e d] eqn:Ho; [|discriminate Hrun].
  rewrite open_dir_nil in Ho. inversion Ho. subst y1. clear Ho.
  set (nw := N.of_nat (length (op_entries (OW w)))).
  set (bw := bytes_of (op_entries (OW w))).
  match type of Hrun with run_ops ?Y _ = _ =>
    assert (HI : Inv (y_core Y) spec0 (nw + N.of_nat (length (appended ops0))) (bw + appended_bytes ops0))
  end.
  { cbn [y_core]. split; [apply R_init|]. split.
    - cbn [k_sm sm_new m_cache]. unfold Budget, cache_new.
      cbn [ch_entries ch_size ch_max_items ch_capacity length].
      rewrite Happ, app_length, Nat2N.inj_add in B1.
      rewrite appended_bytes_of, Happ, bytes_of_app in B2.
      rewrite appended_bytes_of. unfold nw, bw. split; lia.
    - cbn [k_open]. apply ck_push_ends_nonempty. }
  destruct (run_ops_sim ops0 _ spec0 res0 (Some y0) nw bw HI Hp1 Hrun) as [y [Hf HI']].
  inversion Hf. subst y.
  assert (HI2 : Inv (y_core y0) (spec_ops spec0 ops0)
                    (0 + N.of_nat (length (op_entries (OW w)))) (0 + bytes_of (op_entries (OW w)))).
  { eapply Inv_mono; [exact HI'|unfold nw; lia|unfold bw; lia]. }
  destruct (run_op_sim y0 _ (OW w) 0 0 HI2 Hp2) as (y' & r & Hop & _ & Hag).
  rewrite Hop. destruct (Hag w eq_refl) as [wr [Hr Hwr]]. subst r.
  destruct wr; exact Hwr.
Qed.

Corollary C01_chunking_invisible : forall cfg cfg' ops res res' y y',
  ops_plain spec0 ops = true -> big_cache cfg ops -> big_cache cfg' ops ->
  run_case cfg ops = (res, Some y) -> run_case cfg' ops = (res', Some y') ->
  m_rs (k_sm (y_core y)) = m_rs (k_sm (y_core y')) /\
  forall from to, snd (do_read (y_core y) (y_disk y) from to) = snd (do_read (y_core y') (y_disk y') from to).
Proof.
  intros cfg cfg' ops res res' y y' Hp Hb Hb' Hr Hr'.
  destruct (C01_refines_spec cfg ops res (Some y) Hp Hb Hr) as [y1 [E1 [O1 [O2 _]]]].
  destruct (C01_refines_spec cfg' ops res' (Some y') Hp Hb' Hr') as [y2 [E2 [O1' [O2' _]]]].
  inversion E1. inversion E2. subst y1 y2. split.
  - rewrite O1, O1'. reflexivity.
  - intros from to. rewrite (O2 from to), (O2' from to). reflexivity.
Qed.

(* the hypotheses are satisfiable on a history that rotates chunks, purges and truncates *)
Example C01_hyps_inhabited :
  let cfg := mkConfig 10 100 2 64 true in
  let ops := [OW (OVote (1, 1)); OW (OAppend [((1, 0), []); ((1, 1), []); ((1, 2), [])]);
              OFlush true; OIdle; OW (OPurge (1, 0)); OW (OTruncate 2); OW (OAppend [((0, 2), [])]);
              ORead 0 10] in
  ops_plain spec0 ops = true /\ big_cache cfg ops /\ exists res y, run_case cfg ops = (res, Some y) /\ map fst (sp_entries (spec_ops spec0 ops)) = [(1, 1)].
Proof.
  cbv zeta. split; [vm_compute; reflexivity|]. split.
  - split; vm_compute; intros H; discriminate H.
  - eexists. eexists. split; vm_compute; reflexivity.
Qed.

Print Assumptions C01_refines_spec.
Print Assumptions C01_results_agree.
Print Assumptions C01_chunking_invisible.
Print Assumptions C06_refused_record_no_trace.
Print Assumptions C06_refused_write_no_trace.
Print Assumptions C06_refused_append_prefix.
