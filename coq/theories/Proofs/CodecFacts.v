(* Facts about the record codec (Model/Codec.v):
   round trip, canonicity, proper prefixes decode to Eof, sizes.

   Part 1: big-endian integers.
   Part 2: the generic combinator contract [Good wf enc dec].
   Part 3: instantiation for every parser of Model/Codec.v.
   Part 4: the checksummed record. *)
From Coq Require Import List NArith Lia Bool Arith.
From Coq.Strings Require Import Byte.
From RaftLog Require Import Base.Bytes Base.Crc32 Model.Types Model.Codec.
From RaftLog Require Proofs.Crc32Facts.
Import ListNotations.

(* ------------------------------------------------------------------ *)
(* Well-formedness of values (what the fixed-width encodings can hold) *)
(* ------------------------------------------------------------------ *)
Definition wf_u64 (n : N) : Prop := (n < 2^64)%N.
Definition wf_pair (a : N * N) : Prop := wf_u64 (fst a) /\ wf_u64 (snd a).
Definition wf_bytes (p : bytes) : Prop := (N.of_nat (length p) < 2^32)%N.
Definition wf_opt {A} (wf : A -> Prop) (o : option A) : Prop :=
  match o with Some a => wf a | None => True end.
Definition wf_rstate (s : rstate) : Prop :=
  wf_opt wf_pair (r_vote s) /\ wf_opt wf_pair (r_last s) /\
  wf_opt wf_pair (r_committed s) /\ wf_opt wf_pair (r_purged s) /\
  wf_opt wf_bytes (r_user s).
Definition wf_record (r : record) : Prop :=
  match r with
  | RVote v => wf_pair v
  | RAppend id p => wf_pair id /\ wf_bytes p
  | RCommit id => wf_pair id
  | RTrunc o => wf_opt wf_pair o
  | RPurge id => wf_pair id
  | RState s => wf_rstate s
  end.
Definition pprefix (q full : bytes) : Prop := exists r, r <> [] /\ full = q ++ r.

(* ================================================================== *)
(* Part 1: bytes and big-endian integers                               *)
(* ================================================================== *)
Section BigEndian.
Local Open Scope N_scope.

Lemma b2n_lt b : b2n b < 256.
Proof. unfold b2n. pose proof (Byte.to_N_bounded b) as H. lia. Qed.

Lemma n2b_b2n b : n2b (b2n b) = b.
Proof.
  unfold n2b. rewrite N.mod_small by apply b2n_lt.
  unfold b2n. rewrite Byte.of_to_N. reflexivity.
Qed.

Lemma b2n_n2b n : b2n (n2b n) = n mod 256.
Proof.
  unfold n2b, b2n. destruct (Byte.of_N (n mod 256)) as [b|] eqn:E.
  - now apply Byte.to_of_N.
  - apply Byte.of_N_None_iff in E.
    pose proof (N.mod_lt n 256) as H. lia.
Qed.

Lemma n2b_add_mul x y : n2b (x + y * 256) = n2b x.
Proof. unfold n2b. rewrite N.mod_add by discriminate. reflexivity. Qed.

Lemma be_enc_length k n : length (be_enc k n) = k.
Proof. induction k as [|k IH]; cbn [be_enc length]; [reflexivity|now rewrite IH]. Qed.

Lemma pow256_pos k : 0 < 256 ^ k.
Proof. apply N.neq_0_lt_0, N.pow_nonzero. discriminate. Qed.

Lemma pow256_S k : 256 ^ N.of_nat (S k) = 256 * 256 ^ N.of_nat k.
Proof. rewrite Nat2N.inj_succ, N.pow_succ_r'. reflexivity. Qed.

Lemma be_dec_acc_spec bs : forall acc,
  be_dec_acc acc bs = acc * 256 ^ N.of_nat (length bs) + be_dec bs.
Proof.
  unfold be_dec. induction bs as [|b r IH]; intros acc.
  - cbn [be_dec_acc length N.of_nat]. rewrite N.pow_0_r. lia.
  - cbn [be_dec_acc length]. rewrite (IH (acc * 256 + b2n b)), (IH (0 * 256 + b2n b)).
    rewrite pow256_S. lia.
Qed.

Lemma be_dec_cons b r : be_dec (b :: r) = b2n b * 256 ^ N.of_nat (length r) + be_dec r.
Proof.
  unfold be_dec at 1. cbn [be_dec_acc]. rewrite be_dec_acc_spec. lia.
Qed.

Lemma be_dec_nil : be_dec [] = 0.
Proof. reflexivity. Qed.

Lemma be_dec_lt bs : be_dec bs < 256 ^ N.of_nat (length bs).
Proof.
  induction bs as [|b r IH].
  - rewrite be_dec_nil. cbn [length N.of_nat]. rewrite N.pow_0_r. lia.
  - rewrite be_dec_cons. cbn [length]. rewrite pow256_S.
    pose proof (b2n_lt b) as Hb. nia.
Qed.

Lemma be_dec_enc k n : be_dec (be_enc k n) = n mod 256 ^ N.of_nat k.
Proof.
  induction k as [|k IH].
  - cbn [be_enc N.of_nat]. rewrite N.pow_0_r, N.mod_1_r. reflexivity.
  - cbn [be_enc]. rewrite be_dec_cons, be_enc_length, IH, b2n_n2b.
    rewrite pow256_S, (N.mul_comm 256).
    rewrite N.mod_mul_r; [lia| |discriminate].
    apply N.pow_nonzero. discriminate.
Qed.

Lemma be_enc_add_mul k : forall m a n, (k <= m)%nat ->
  be_enc k (n + a * 256 ^ N.of_nat m) = be_enc k n.
Proof.
  induction k as [|k IH]; intros m a n Hk; cbn [be_enc]; [reflexivity|].
  f_equal.
  - replace (256 ^ N.of_nat m)
      with (256 ^ N.of_nat (m - S k) * 256 * 256 ^ N.of_nat k).
    + rewrite !N.mul_assoc, N.div_add by (apply N.pow_nonzero; discriminate).
      apply n2b_add_mul.
    + replace (N.of_nat m) with (N.of_nat (m - S k) + 1 + N.of_nat k) by lia.
      rewrite !N.pow_add_r, N.pow_1_r. reflexivity.
  - apply IH. lia.
Qed.

Lemma be_enc_dec bs : be_enc (length bs) (be_dec bs) = bs.
Proof.
  induction bs as [|b r IH]; [reflexivity|].
  cbn [length be_enc]. rewrite be_dec_cons. f_equal.
  - rewrite N.div_add_l by (apply N.pow_nonzero; discriminate).
    rewrite N.div_small by apply be_dec_lt.
    rewrite N.add_0_r. apply n2b_b2n.
  - rewrite N.add_comm, be_enc_add_mul by lia. exact IH.
Qed.

Lemma be_enc_mod k n : be_enc k (n mod 256 ^ N.of_nat k) = be_enc k n.
Proof.
  rewrite (N.div_mod n (256 ^ N.of_nat k)) at 2 by (apply N.pow_nonzero; discriminate).
  rewrite N.add_comm, N.mul_comm, be_enc_add_mul by lia. reflexivity.
Qed.

End BigEndian.

(* ================================================================== *)
(* Part 2: the combinator contract                                     *)
(* ================================================================== *)

(* A codec is Good when: round trip with any tail; canonical; proper
   prefixes of an encoding give Eof. *)
Record Good {A} (wf : A -> Prop) (e : A -> bytes) (p : parser A) : Prop := {
  g_rt  : forall a t, wf a -> p (e a ++ t) = DOk (a, t);
  g_can : forall bs a t, p bs = DOk (a, t) -> wf a /\ bs = e a ++ t;
  g_eof : forall a q, wf a -> pprefix q (e a) -> p q = DEof }.

Lemma pprefix_app_cases (q x y : bytes) :
  pprefix q (x ++ y) -> pprefix q x \/ (exists q', q = x ++ q' /\ pprefix q' y).
Proof.
  revert q. induction x as [|a x IH]; intros q [r [Hr E]].
  - right. exists q. split; [reflexivity|]. exists r; auto.
  - destruct q as [|c q].
    + left. exists (a :: x). split; [discriminate|reflexivity].
    + cbn [app] in E. inversion E; subst.
      destruct (IH q) as [[r' [Hr' E']]|[q' [E1 P]]].
      * exists r; auto.
      * left. exists r'. split; [assumption|]. cbn [app]. now rewrite E'.
      * right. exists q'. split; [|assumption]. cbn [app]. now rewrite E1.
Qed.

Lemma pprefix_length q full : pprefix q full -> (length q < length full)%nat.
Proof.
  intros [r [Hr E]]. subst. rewrite app_length.
  destruct r as [|b r]; [congruence|]. cbn [length]. lia.
Qed.

Lemma Good_ext {A} (wf wf' : A -> Prop) (e e' : A -> bytes) (p p' : parser A) :
  Good wf e p ->
  (forall a, wf' a <-> wf a) ->
  (forall a, wf a -> e' a = e a) ->
  (forall bs, p' bs = p bs) ->
  Good wf' e' p'.
Proof.
  intros G Hwf He Hp. split.
  - intros a t Ha. apply Hwf in Ha. rewrite Hp, (He a Ha). now apply (g_rt _ _ _ G).
  - intros bs a t H. rewrite Hp in H. apply (g_can _ _ _ G) in H as [Ha E].
    split; [now apply Hwf|]. now rewrite (He a Ha).
  - intros a q Ha Hq. apply Hwf in Ha. rewrite Hp. rewrite (He a Ha) in Hq.
    now apply (g_eof _ _ _ G a).
Qed.

Lemma Good_fail {A} (wf : A -> Prop) (e : A -> bytes) :
  (forall a, ~ wf a) -> Good wf e pfail.
Proof.
  intros H. split.
  - intros a t Ha. destruct (H a Ha).
  - intros bs a t E. unfold pfail in E. discriminate E.
  - intros a q Ha. destruct (H a Ha).
Qed.

(* ---- primitive: a fixed number of raw bytes ---- *)
Lemma take_n_rt n : forall x t, length x = n -> take_n n (x ++ t) = DOk (x, t).
Proof.
  induction n as [|n IH]; intros [|b x] t H; cbn [length] in H; try discriminate H.
  - reflexivity.
  - cbn [app take_n]. rewrite IH by lia. reflexivity.
Qed.

Lemma take_n_can n : forall bs x t, take_n n bs = DOk (x, t) -> length x = n /\ bs = x ++ t.
Proof.
  induction n as [|n IH]; intros bs x t H; cbn [take_n] in H.
  - inversion H; subst; auto.
  - destruct bs as [|b r]; [discriminate|].
    destruct (take_n n r) as [[x' r']| |] eqn:E; try discriminate.
    inversion H; subst. apply IH in E as [E1 E2]. subst. cbn [length app]. auto.
Qed.

Lemma take_n_eof n : forall x q, length x = n -> pprefix q x -> take_n n q = DEof.
Proof.
  induction n as [|n IH]; intros x q H [r [Hr E]].
  - destruct x; [|discriminate]. destruct q; destruct r; cbn [app] in E; congruence.
  - destruct x as [|b x]; [discriminate|]. destruct q as [|c q]; cbn [take_n]; [reflexivity|].
    cbn [app] in E. injection E as E1 E2. subst.
    rewrite (IH (q ++ r) q); [reflexivity| cbn [length] in H; lia | exists r; auto].
Qed.

Lemma take_n_short n : forall bs, (length bs < n)%nat -> take_n n bs = DEof.
Proof.
  induction n as [|n IH]; intros bs H; [lia|].
  destruct bs as [|b r]; [reflexivity|]. cbn [take_n]. cbn [length] in H.
  rewrite IH by lia. reflexivity.
Qed.

Lemma take_n_never_invalid n : forall bs, take_n n bs <> DInvalid.
Proof.
  induction n as [|n IH]; intros bs; cbn [take_n]; [discriminate|].
  destruct bs as [|b bs]; [discriminate|].
  specialize (IH bs). destruct (take_n n bs) as [[? ?]| |]; congruence.
Qed.

Lemma Good_raw n : Good (fun x => length x = n) (fun x => x) (take_n n).
Proof.
  split.
  - intros; now apply take_n_rt.
  - intros; now apply take_n_can.
  - intros; eapply take_n_eof; eauto.
Qed.

(* ---- map through a bijection between the well-formed values ---- *)
Lemma Good_pmap {A B} (wfa : A -> Prop) ea pa (wfb : B -> Prop) (eb : B -> bytes)
      (f : A -> B) (g : B -> A) :
  Good wfa ea pa ->
  (forall b, wfb b -> wfa (g b) /\ f (g b) = b /\ eb b = ea (g b)) ->
  (forall a, wfa a -> wfb (f a) /\ g (f a) = a) ->
  Good wfb eb (pmap f pa).
Proof.
  intros G H1 H2. split.
  - intros b t Hb. destruct (H1 b Hb) as (Ha & Hf & He). unfold pmap, pbind.
    rewrite He, (g_rt _ _ _ G) by assumption. unfold pret. now rewrite Hf.
  - intros bs b t H. unfold pmap, pbind in H.
    destruct (pa bs) as [[a r]| |] eqn:E; try discriminate.
    unfold pret in H. inversion H; subst.
    apply (g_can _ _ _ G) in E as [Ha E]. destruct (H2 a Ha) as [Hb Hg].
    split; [assumption|]. destruct (H1 _ Hb) as (_ & _ & He). now rewrite He, Hg.
  - intros b q Hb Hq. destruct (H1 b Hb) as (Ha & _ & He). rewrite He in Hq.
    unfold pmap, pbind. now rewrite (g_eof _ _ _ G _ _ Ha Hq).
Qed.

(* ---- validity-checked map (kept from the prototype) ---- *)
Lemma Good_pmapo {A B} (wfa : A -> Prop) ea pa (wfb : B -> Prop) (f : A -> option B) (g : B -> A) :
  Good wfa ea pa ->
  (forall b, wfb b -> wfa (g b) /\ f (g b) = Some b) ->
  (forall a b, wfa a -> f a = Some b -> wfb b /\ g b = a) ->
  Good wfb (fun b => ea (g b)) (pmapo pa f).
Proof.
  intros G H1 H2. split.
  - intros b t Hb. destruct (H1 b Hb) as [Ha Hf]. unfold pmapo, pbind.
    rewrite (g_rt _ _ _ G) by assumption. rewrite Hf. reflexivity.
  - intros bs b t H. unfold pmapo, pbind in H.
    destruct (pa bs) as [[a r]| |] eqn:E; try discriminate.
    apply (g_can _ _ _ G) in E as [Ha Ebs].
    destruct (f a) as [b'|] eqn:Ef; [|discriminate].
    inversion H; subst. destruct (H2 a b Ha Ef) as [Hb Hg]. subst. auto.
  - intros b q Hb Hq. destruct (H1 b Hb) as [Ha _]. unfold pmapo, pbind.
    rewrite (g_eof _ _ _ G _ _ Ha Hq). reflexivity.
Qed.

(* ---- pairs ---- *)
Lemma Good_pair {A B} (wfa : A -> Prop) ea pa (wfb : B -> Prop) eb pb :
  Good wfa ea pa -> Good wfb eb pb ->
  Good (fun ab => wfa (fst ab) /\ wfb (snd ab))
       (fun ab => ea (fst ab) ++ eb (snd ab)) (ppair pa pb).
Proof.
  intros GA GB. split.
  - intros [a b] t [Ha Hb]. cbn [fst snd] in *. unfold ppair, pbind. rewrite <- app_assoc.
    rewrite (g_rt _ _ _ GA) by assumption. rewrite (g_rt _ _ _ GB) by assumption. reflexivity.
  - intros bs [a b] t H. unfold ppair, pbind in H.
    destruct (pa bs) as [[a' r]| |] eqn:E1; try discriminate.
    destruct (pb r) as [[b' r']| |] eqn:E2; try discriminate.
    unfold pret in H. inversion H; subst.
    apply (g_can _ _ _ GA) in E1 as [Ha E1]. apply (g_can _ _ _ GB) in E2 as [Hb E2]. subst.
    cbn [fst snd]. rewrite app_assoc. auto.
  - intros [a b] q [Ha Hb] Hq. cbn [fst snd] in *. unfold ppair, pbind.
    destruct (pprefix_app_cases _ _ _ Hq) as [P|[q' [E P]]].
    + now rewrite (g_eof _ _ _ GA _ _ Ha P).
    + subst q. rewrite (g_rt _ _ _ GA) by assumption. now rewrite (g_eof _ _ _ GB _ _ Hb P).
Qed.

(* ---- dependent sequencing: a decoded value selects the next parser ---- *)
Lemma Good_bind {A B} (wfa : A -> Prop) ea pa (wfb : B -> Prop) (tag : B -> A)
      (eb : B -> bytes) (f : A -> parser B) :
  Good wfa ea pa ->
  (forall b, wfb b -> wfa (tag b)) ->
  (forall a, wfa a -> Good (fun b => wfb b /\ tag b = a) eb (f a)) ->
  Good wfb (fun b => ea (tag b) ++ eb b) (pbind pa f).
Proof.
  intros G Ht GF. split.
  - intros b t Hb. unfold pbind. rewrite <- app_assoc, (g_rt _ _ _ G) by auto.
    apply (g_rt _ _ _ (GF _ (Ht b Hb))). auto.
  - intros bs b t H. unfold pbind in H.
    destruct (pa bs) as [[a r]| |] eqn:E; try discriminate.
    apply (g_can _ _ _ G) in E as [Ha E].
    apply (g_can _ _ _ (GF a Ha)) in H as [[Hb Hta] H]. subst.
    rewrite <- app_assoc. auto.
  - intros b q Hb Hq. unfold pbind.
    destruct (pprefix_app_cases _ _ _ Hq) as [P|[q' [E P]]].
    + now rewrite (g_eof _ _ _ G _ _ (Ht b Hb) P).
    + subst q. rewrite (g_rt _ _ _ G) by auto.
      apply (g_eof _ _ _ (GF _ (Ht b Hb)) b); auto.
Qed.

(* ---- Option<T> ---- *)
Lemma Good_opt {A} (wfa : A -> Prop) ea pa :
  Good wfa ea pa -> Good (wf_opt wfa) (enc_opt ea) (p_opt pa).
Proof.
  intros G. split.
  - intros [a|] t H; cbn [enc_opt wf_opt] in *; unfold p_opt, pbind; cbn [app take_n]; [|reflexivity].
    rewrite (g_rt _ _ _ G) by assumption. reflexivity.
  - intros bs o t H. unfold p_opt, pbind in H.
    destruct bs as [|b bs]; cbn [take_n] in H; [discriminate|].
    destruct b; try discriminate H.
    + unfold pret in H. inversion H; subst. cbn [wf_opt enc_opt app]. auto.
    + destruct (pa bs) as [[a r]| |] eqn:E; try discriminate.
      unfold pret in H. inversion H; subst.
      apply (g_can _ _ _ G) in E as [Ha E]. subst. cbn [wf_opt enc_opt app]. auto.
  - intros [a|] q H [r [Hr E]]; cbn [enc_opt wf_opt] in *.
    + destruct q as [|c q]; [reflexivity|]. cbn [app] in E. inversion E; subst.
      unfold p_opt, pbind. cbn [take_n].
      rewrite (g_eof _ _ _ G a q); auto. exists r; auto.
    + destruct q as [|c q]; [reflexivity|]. cbn [app] in E. inversion E.
      destruct q; destruct r; cbn [app] in *; congruence.
Qed.

(* ================================================================== *)
(* Part 3: the parsers of Model/Codec.v                                *)
(* ================================================================== *)

(* ---- fixed-width integers ---- *)
Lemma Good_be k : Good (fun n => (n < 256 ^ N.of_nat k)%N) (be_enc k) (p_be k).
Proof.
  unfold p_be.
  apply (Good_pmap (fun x => length x = k) (fun x => x) (take_n k) _ _ be_dec (be_enc k)).
  - apply Good_raw.
  - intros n Hn. split; [apply be_enc_length|]. split; [|reflexivity].
    rewrite be_dec_enc. now apply N.mod_small.
  - intros x Hx. split.
    + rewrite <- Hx. apply be_dec_lt.
    + rewrite <- Hx. apply be_enc_dec.
Qed.

Lemma pow256_1 : (256 ^ N.of_nat 1 = 256)%N. Proof. reflexivity. Qed.
Lemma pow256_4 : (256 ^ N.of_nat 4 = 2 ^ 32)%N. Proof. reflexivity. Qed.
Lemma pow256_8 : (256 ^ N.of_nat 8 = 2 ^ 64)%N. Proof. reflexivity. Qed.

Lemma Good_u8 : Good (fun n => (n < 256)%N) enc_u8 p_u8.
Proof.
  apply (Good_ext _ _ _ _ _ _ (Good_be 1)); [|reflexivity|reflexivity].
  intros a. rewrite pow256_1. reflexivity.
Qed.

Lemma Good_u32 : Good (fun n => (n < 2 ^ 32)%N) enc_u32 p_u32.
Proof.
  apply (Good_ext _ _ _ _ _ _ (Good_be 4)); [|reflexivity|reflexivity].
  intros a. rewrite pow256_4. reflexivity.
Qed.

Lemma Good_u64 : Good wf_u64 enc_u64 p_u64.
Proof.
  apply (Good_ext _ _ _ _ _ _ (Good_be 8)); [|reflexivity|reflexivity].
  intros a. unfold wf_u64. rewrite pow256_8. reflexivity.
Qed.

Lemma enc_u32_length n : length (enc_u32 n) = 4.
Proof. apply be_enc_length. Qed.
Lemma enc_u64_length n : length (enc_u64 n) = 8.
Proof. apply be_enc_length. Qed.

(* ---- (u64, u64) ---- *)
Lemma Good_p_pair : Good wf_pair enc_pair p_pair.
Proof. exact (Good_pair _ _ _ _ _ _ Good_u64 Good_u64). Qed.

(* ---- Vec<u8> ---- *)
Lemma take_N_eq n bs : take_N n bs = take_n (N.to_nat n) bs.
Proof.
  unfold take_N. destruct (N.ltb_spec (N.of_nat (length bs)) n) as [H|H]; [|reflexivity].
  symmetry. apply take_n_short. lia.
Qed.

Lemma Good_take_N n : (n < 2 ^ 32)%N ->
  Good (fun p => wf_bytes p /\ N.of_nat (length p) = n) (fun x => x) (take_N n).
Proof.
  intros Hn.
  apply (Good_ext _ _ _ _ _ _ (Good_raw (N.to_nat n))).
  - intros p. unfold wf_bytes. split.
    + intros [_ H]. lia.
    + intros H. rewrite H, N2Nat.id. auto.
  - reflexivity.
  - apply take_N_eq.
Qed.

Lemma Good_p_bytes : Good wf_bytes enc_bytes p_bytes.
Proof.
  exact (Good_bind _ _ _ wf_bytes (fun p => N.of_nat (length p)) (fun x => x) take_N
           Good_u32 (fun p H => H) Good_take_N).
Qed.

(* ---- RaftLogState ---- *)
Definition rs_tuple : Type :=
  (option vote * (option logid * (option logid * (option logid * option payload))))%type.
Definition rs_of_tuple (x : rs_tuple) : rstate :=
  mkRState (fst x) (fst (snd x)) (fst (snd (snd x))) (fst (snd (snd (snd x))))
           (snd (snd (snd (snd x)))).
Definition rs_to_tuple (s : rstate) : rs_tuple :=
  (r_vote s, (r_last s, (r_committed s, (r_purged s, r_user s)))).
Definition enc_rs_fields (s : rstate) : bytes :=
  enc_opt enc_pair (r_vote s) ++
  enc_opt enc_pair (r_last s) ++
  enc_opt enc_pair (r_committed s) ++
  enc_opt enc_pair (r_purged s) ++
  enc_opt enc_bytes (r_user s).
Definition p_rs_tuple : parser rs_tuple :=
  ppair (p_opt p_pair) (ppair (p_opt p_pair) (ppair (p_opt p_pair)
    (ppair (p_opt p_pair) (p_opt p_bytes)))).
Definition p_rs_fields : parser rstate :=
  pbind (p_opt p_pair) (fun v =>
  pbind (p_opt p_pair) (fun l =>
  pbind (p_opt p_pair) (fun c =>
  pbind (p_opt p_pair) (fun p =>
  pbind (p_opt p_bytes) (fun u =>
  pret (mkRState v l c p u)))))).

Lemma Good_rs_tuple :
  Good (fun x : rs_tuple =>
          wf_opt wf_pair (fst x) /\ wf_opt wf_pair (fst (snd x)) /\
          wf_opt wf_pair (fst (snd (snd x))) /\ wf_opt wf_pair (fst (snd (snd (snd x)))) /\
          wf_opt wf_bytes (snd (snd (snd (snd x)))))
       (fun x : rs_tuple =>
          enc_opt enc_pair (fst x) ++ enc_opt enc_pair (fst (snd x)) ++
          enc_opt enc_pair (fst (snd (snd x))) ++ enc_opt enc_pair (fst (snd (snd (snd x)))) ++
          enc_opt enc_bytes (snd (snd (snd (snd x)))))
       p_rs_tuple.
Proof.
  pose proof (Good_opt _ _ _ Good_p_pair) as GP.
  pose proof (Good_opt _ _ _ Good_p_bytes) as GB.
  exact (Good_pair _ _ _ _ _ _ GP (Good_pair _ _ _ _ _ _ GP (Good_pair _ _ _ _ _ _ GP
          (Good_pair _ _ _ _ _ _ GP GB)))).
Qed.

Lemma p_rs_fields_eq bs : p_rs_fields bs = pmap rs_of_tuple p_rs_tuple bs.
Proof.
  unfold p_rs_fields, p_rs_tuple, pmap, ppair, pbind, pret.
  destruct (p_opt p_pair bs) as [[v r1]| |]; [|reflexivity|reflexivity].
  destruct (p_opt p_pair r1) as [[l r2]| |]; [|reflexivity|reflexivity].
  destruct (p_opt p_pair r2) as [[c r3]| |]; [|reflexivity|reflexivity].
  destruct (p_opt p_pair r3) as [[p r4]| |]; [|reflexivity|reflexivity].
  destruct (p_opt p_bytes r4) as [[u r5]| |]; reflexivity.
Qed.

Lemma Good_rs_fields : Good wf_rstate enc_rs_fields p_rs_fields.
Proof.
  apply (Good_ext wf_rstate wf_rstate enc_rs_fields enc_rs_fields
           (pmap rs_of_tuple p_rs_tuple) p_rs_fields);
    [|reflexivity|reflexivity|apply p_rs_fields_eq].
  apply (Good_pmap _ _ _ wf_rstate enc_rs_fields rs_of_tuple rs_to_tuple Good_rs_tuple).
  - intros [v l c p u] H. split; [exact H|]. split; reflexivity.
  - intros [v [l [c [p u]]]] H. split; [exact H|reflexivity].
Qed.

Lemma Good_p_rstate : Good wf_rstate enc_rstate p_rstate.
Proof.
  assert (G : Good wf_rstate (fun s => enc_u8 ((fun _ : rstate => 1%N) s) ++ enc_rs_fields s) p_rstate).
  { unfold p_rstate.
    apply (Good_bind _ _ _ wf_rstate (fun _ => 1%N) enc_rs_fields _ Good_u8).
    - intros _ _. reflexivity.
    - intros ver _. destruct (N.eqb_spec ver 1) as [E|NE].
      + subst ver.
        apply (Good_ext _ _ _ _ _ _ Good_rs_fields); try reflexivity.
        intros s. split; [intros [H _]; exact H|intros H; auto].
      + apply Good_fail. intros s [_ E]. congruence. }
  apply (Good_ext _ _ _ _ _ _ G); reflexivity.
Qed.

(* ---- record payload, by tag ---- *)
Lemma p_payload_unknown tag : (6 <= tag)%N -> p_payload tag = pfail.
Proof.
  intros H. destruct tag as [|p]; [lia|].
  destruct p as [p|p|]; [| |lia];
    (destruct p as [p|p|]; [| |first [reflexivity|lia]]);
    (destruct p as [p|p|]; first [reflexivity|lia]).
Qed.

Definition vote_of (r : record) : N * N :=
  match r with RVote v => v | _ => (0%N, 0%N) end.
Definition commit_of (r : record) : N * N :=
  match r with RCommit v => v | _ => (0%N, 0%N) end.
Definition purge_of (r : record) : N * N :=
  match r with RPurge v => v | _ => (0%N, 0%N) end.
Definition trunc_of (r : record) : option (N * N) :=
  match r with RTrunc o => o | _ => None end.
Definition state_of (r : record) : rstate :=
  match r with RState s => s | _ => rstate0 end.
Definition append_of (r : record) : (N * N) * bytes :=
  match r with RAppend id p => (id, p) | _ => ((0%N, 0%N), []) end.

Lemma Good_payload_0 :
  Good (fun r => wf_record r /\ rec_tag r = 0%N) enc_payload (p_payload 0).
Proof.
  change (p_payload 0) with (pmap RVote p_pair).
  apply (Good_pmap _ _ _ _ _ RVote vote_of Good_p_pair).
  - intros r [H E]. destruct r; try discriminate E. cbn in *. auto.
  - intros v H. cbn. auto.
Qed.

Lemma Good_payload_2 :
  Good (fun r => wf_record r /\ rec_tag r = 2%N) enc_payload (p_payload 2).
Proof.
  change (p_payload 2) with (pmap RCommit p_pair).
  apply (Good_pmap _ _ _ _ _ RCommit commit_of Good_p_pair).
  - intros r [H E]. destruct r; try discriminate E. cbn in *. auto.
  - intros v H. cbn. auto.
Qed.

Lemma Good_payload_4 :
  Good (fun r => wf_record r /\ rec_tag r = 4%N) enc_payload (p_payload 4).
Proof.
  change (p_payload 4) with (pmap RPurge p_pair).
  apply (Good_pmap _ _ _ _ _ RPurge purge_of Good_p_pair).
  - intros r [H E]. destruct r; try discriminate E. cbn in *. auto.
  - intros v H. cbn. auto.
Qed.

Lemma Good_payload_3 :
  Good (fun r => wf_record r /\ rec_tag r = 3%N) enc_payload (p_payload 3).
Proof.
  change (p_payload 3) with (pmap RTrunc (p_opt p_pair)).
  apply (Good_pmap _ _ _ _ _ RTrunc trunc_of (Good_opt _ _ _ Good_p_pair)).
  - intros r [H E]. destruct r; try discriminate E. cbn in *. auto.
  - intros v H. cbn. auto.
Qed.

Lemma Good_payload_5 :
  Good (fun r => wf_record r /\ rec_tag r = 5%N) enc_payload (p_payload 5).
Proof.
  change (p_payload 5) with (pmap RState p_rstate).
  apply (Good_pmap _ _ _ _ _ RState state_of Good_p_rstate).
  - intros r [H E]. destruct r; try discriminate E. cbn in *. auto.
  - intros v H. cbn. auto.
Qed.

Lemma p_payload_1_eq bs :
  p_payload 1 bs = pmap (fun x => RAppend (fst x) (snd x)) (ppair p_pair p_bytes) bs.
Proof.
  change (p_payload 1) with
    (pbind p_pair (fun id => pbind p_bytes (fun p => pret (RAppend id p)))).
  unfold pmap, ppair, pbind, pret.
  destruct (p_pair bs) as [[id r1]| |]; [|reflexivity|reflexivity].
  destruct (p_bytes r1) as [[p r2]| |]; reflexivity.
Qed.

Lemma Good_payload_1 :
  Good (fun r => wf_record r /\ rec_tag r = 1%N) enc_payload (p_payload 1).
Proof.
  eapply Good_ext; [| | |apply p_payload_1_eq].
  - apply (Good_pmap _ _ _ (fun r => wf_record r /\ rec_tag r = 1%N) enc_payload
             (fun x => RAppend (fst x) (snd x)) append_of
             (Good_pair _ _ _ _ _ _ Good_p_pair Good_p_bytes)).
    + intros r [H E]. destruct r; try discriminate E. cbn in *. auto.
    + intros [id p] H. cbn in *. auto.
  - reflexivity.
  - reflexivity.
Qed.

Lemma Good_p_payload tag : (tag < 2 ^ 32)%N ->
  Good (fun r => wf_record r /\ rec_tag r = tag) enc_payload (p_payload tag).
Proof.
  intros _.
  assert (C : (tag = 0 \/ tag = 1 \/ tag = 2 \/ tag = 3 \/ tag = 4 \/ tag = 5 \/ 6 <= tag)%N) by lia.
  destruct C as [E|[E|[E|[E|[E|[E|E]]]]]]; try subst tag.
  - apply Good_payload_0.
  - apply Good_payload_1.
  - apply Good_payload_2.
  - apply Good_payload_3.
  - apply Good_payload_4.
  - apply Good_payload_5.
  - rewrite (p_payload_unknown tag E). apply Good_fail.
    intros r [_ Ht]. destruct r; cbn [rec_tag] in Ht; lia.
Qed.

Lemma rec_tag_lt r : (rec_tag r < 2 ^ 32)%N.
Proof. destruct r; reflexivity. Qed.

Lemma Good_p_body : Good wf_record enc_body p_body.
Proof.
  exact (Good_bind _ _ _ wf_record rec_tag enc_payload p_payload
           Good_u32 (fun r _ => rec_tag_lt r) Good_p_payload).
Qed.

(* ================================================================== *)
(* Part 4: the checksummed record                                      *)
(* ================================================================== *)

Lemma upd_lt c b : (c < 2 ^ 32 -> upd c b < 2 ^ 32)%N.
Proof.
  intros H. unfold upd. apply Crc32Facts.lxor_lt.
  - apply Crc32Facts.tbl_bound, Crc32Facts.land_ff_lt.
  - rewrite N.shiftr_div_pow2. eapply N.le_lt_trans; [|exact H].
    apply N.div_le_upper_bound; [discriminate|].
    rewrite <- (N.mul_1_l c) at 1. apply N.mul_le_mono_r. discriminate.
Qed.

Lemma crc_run_lt bs : forall c, (c < 2 ^ 32 -> crc_run c bs < 2 ^ 32)%N.
Proof.
  unfold crc_run. induction bs as [|b r IH]; intros c H; cbn [fold_left]; [exact H|].
  apply IH, upd_lt, H.
Qed.

Lemma crc32_lt bs : (crc32 bs < 2 ^ 32)%N.
Proof.
  unfold crc32. apply Crc32Facts.lxor_lt; [apply crc_run_lt|]; reflexivity.
Qed.

Lemma crc32_wf_u64 bs : wf_u64 (crc32 bs).
Proof.
  unfold wf_u64. eapply N.lt_trans; [apply crc32_lt|reflexivity].
Qed.

Lemma firstn_consumed (x y : bytes) : firstn (length (x ++ y) - length y) (x ++ y) = x.
Proof.
  rewrite app_length, Nat.add_sub, firstn_app, Nat.sub_diag, firstn_all.
  cbn [firstn]. apply app_nil_r.
Qed.

Lemma enc_record_eq r : enc_record r = enc_body r ++ enc_u64 (crc32 (enc_body r)).
Proof. reflexivity. Qed.

Lemma dec_record_eq bs :
  dec_record bs =
  match p_body bs with
  | DOk (r, rest) =>
    match p_u64 rest with
    | DOk (c, rest') =>
      if N.eqb c (crc32 (firstn (length bs - length rest) bs)) then DOk (r, rest') else DInvalid
    | DEof => DEof
    | DInvalid => DInvalid
    end
  | DEof => DEof
  | DInvalid => DInvalid
  end.
Proof. reflexivity. Qed.

Theorem dec_enc_record : forall r t,
  wf_record r -> dec_record (enc_record r ++ t) = DOk (r, t).
Proof.
  intros r t Hr. rewrite dec_record_eq, enc_record_eq, <- app_assoc.
  rewrite (g_rt _ _ _ Good_p_body) by assumption.
  rewrite firstn_consumed.
  rewrite (g_rt _ _ _ Good_u64) by apply crc32_wf_u64.
  rewrite N.eqb_refl. reflexivity.
Qed.

Theorem dec_record_canonical : forall bs r t,
  dec_record bs = DOk (r, t) -> wf_record r /\ bs = enc_record r ++ t.
Proof.
  intros bs r t H. rewrite dec_record_eq in H.
  destruct (p_body bs) as [[r0 rest]| |] eqn:E1; try discriminate H.
  destruct (p_u64 rest) as [[c rest']| |] eqn:E2; try discriminate H.
  apply (g_can _ _ _ Good_p_body) in E1 as [Hwf E1].
  apply (g_can _ _ _ Good_u64) in E2 as [Hc E2].
  subst bs. rewrite firstn_consumed in H.
  destruct (N.eqb_spec c (crc32 (enc_body r0))) as [Ec|Ec]; [|discriminate H].
  inversion H; subst. split; [assumption|].
  rewrite enc_record_eq, <- app_assoc. reflexivity.
Qed.

Theorem dec_record_prefix_eof : forall r q,
  wf_record r -> pprefix q (enc_record r) -> dec_record q = DEof.
Proof.
  intros r q Hr Hq. rewrite enc_record_eq in Hq. rewrite dec_record_eq.
  destruct (pprefix_app_cases _ _ _ Hq) as [P|[q' [E P]]].
  - rewrite (g_eof _ _ _ Good_p_body _ _ Hr P). reflexivity.
  - subst q. rewrite (g_rt _ _ _ Good_p_body) by assumption.
    rewrite (g_eof _ _ _ Good_u64 _ _ (crc32_wf_u64 _) P). reflexivity.
Qed.

Theorem dec_record_consumed : forall bs r t,
  dec_record bs = DOk (r, t) -> N.of_nat (length bs - length t) = rec_size r.
Proof.
  intros bs r t H. apply dec_record_canonical in H as [_ E]. subst bs.
  rewrite app_length, Nat.add_sub. reflexivity.
Qed.

Theorem enc_body_len : forall r, length (enc_record r) = length (enc_body r) + 8.
Proof.
  intros r. rewrite enc_record_eq, app_length, enc_u64_length. reflexivity.
Qed.

Theorem enc_record_min_len : forall r, 12 <= length (enc_record r).
Proof.
  intros r. rewrite enc_body_len. unfold enc_body.
  rewrite app_length, enc_u32_length. lia.
Qed.

(* decoding never reads past the record: the tail is returned untouched, and
   the consumed count is at least the 12 framing bytes *)
Corollary dec_record_consumed_min : forall bs r t,
  dec_record bs = DOk (r, t) -> 12 <= length bs - length t.
Proof.
  intros bs r t H. apply dec_record_canonical in H as [_ E]. subst bs.
  rewrite app_length, Nat.add_sub. apply enc_record_min_len.
Qed.

Print Assumptions dec_enc_record.
Print Assumptions dec_record_canonical.
Print Assumptions dec_record_prefix_eof.
