(* C03, part D.2: what is known about chunk files that have been removed.
   - [FI]: every chunk file that was created and is gone was named in a RemoveChunks
     request recorded in the ghost history, and the directory is never empty;
   - [RI]: for every RemoveChunks request (ids, U) recorded in the ghost history and
     every c in ids, the journal holds, behind file c, a file whose head snapshot is
     complete below U, and the purged id reached by the journalled records that end at
     or below U is at least the last log id of that snapshot (the purge record that
     made chunk c obsolete lies below U). *)
From Coq Require Import List NArith Bool Lia Arith Sorting.Sorted.
From Coq Require Import ZifyBool ZifyN ZifyNat.
From Coq.Strings Require Import Byte.
From RaftLog Require Import Base.Bytes Model.Types Model.Codec Model.Cache Model.Core
  Model.Recover Model.Run Model.Sys Spec.Spec Spec.Hist Spec.Durable.
From RaftLog Require Import Proofs.CodecFacts Proofs.NoPanic Proofs.ScanFacts Proofs.RecoverFacts
  Proofs.JournalDisk Proofs.JournalChunk Proofs.JournalFacts
  Proofs.OrderFacts Proofs.SmFacts Proofs.Refine.
From RaftLog Require Proofs.PurgeFacts Proofs.PurgeDurable.
From RaftLog Require Import Proofs.CrashBase Proofs.CrashJournal Proofs.CrashSteps Proofs.CrashRecover
  Proofs.CrashSpec Proofs.CrashPrefix Proofs.CrashFacts Proofs.CrashSuffix.
Import ListNotations.
Local Open Scope N_scope.
Local Arguments N.add : simpl never.
Local Arguments N.sub : simpl never.
Local Arguments N.mul : simpl never.
Local Arguments N.eqb : simpl never.
Local Arguments N.ltb : simpl never.
Local Arguments N.leb : simpl never.
Local Arguments N.compare : simpl never.
Local Arguments N.of_nat : simpl never.
Local Arguments enc_record : simpl never.

Module PF := PurgeFacts.
Module JD := JournalDisk.
Module JC := JournalChunk.

(* ================================================================== files that are gone were requested *)
Definition InRem (z : sys2) (id : N) : Prop :=
  exists l U, In (l, U) (g_removals (z_ghost z)) /\ In id l.

Record FI (z : sys2) : Prop := mkFI {
  fi_gone : forall id, In id (g_created (z_ghost z)) -> In id (JD.ids (z_disk z)) \/ InRem z id;
  fi_w : w_alive (z_w z) = true -> forall id, In id (PF.w_rm (z_w z)) -> InRem z id;
  fi_q : forall id, In id (PF.queue_rm (z_queue z) ++ PF.todo_rm (z_todo z)) -> InRem z id;
  fi_ne : exists id, In id (JD.ids (z_disk z)) /\
                     (In id (k_removed (z_core z)) \/ In id (PF.tail_ids (z_core z))) }.

Lemma InRem_mono z z' id :
  (forall x, In x (g_removals (z_ghost z)) -> In x (g_removals (z_ghost z'))) -> InRem z id -> InRem z' id.
Proof. intros H (l & U & H1 & H2). exists l, U. split; [apply H, H1|exact H2]. Qed.

Lemma InRem_eq z z' id : g_removals (z_ghost z') = g_removals (z_ghost z) -> InRem z id -> InRem z' id.
Proof. intros E. apply InRem_mono. intros x Hx. now rewrite E. Qed.

Lemma FI_frame z z' : FI z ->
  JD.ids (z_disk z') = JD.ids (z_disk z) -> g_created (z_ghost z') = g_created (z_ghost z) ->
  g_removals (z_ghost z') = g_removals (z_ghost z) ->
  (w_alive (z_w z') = true -> w_alive (z_w z) = true /\ PF.w_rm (z_w z') = PF.w_rm (z_w z)) ->
  z_queue z' = z_queue z -> z_todo z' = z_todo z ->
  k_removed (z_core z') = k_removed (z_core z) -> PF.tail_ids (z_core z') = PF.tail_ids (z_core z) ->
  FI z'.
Proof.
  intros [F1 F2 F3 F4] Hd Hc Hr Hw Hq Ht Hk Hti.
  constructor; rewrite ?Hd, ?Hc, ?Hq, ?Ht, ?Hk, ?Hti.
  - intros id Hid. destruct (F1 id Hid) as [H|H]; [now left|right; eapply InRem_eq; eauto].
  - intros Ha id Hid. destruct (Hw Ha) as [Ha' E]. rewrite E in Hid. eapply InRem_eq; eauto.
  - intros id Hid. eapply InRem_eq; eauto.
  - exact F4.
Qed.

Lemma FI_call z o z' v : PF.Inv z -> FI z -> zcall z o = Some (z', v) -> FI z'.
Proof.
  intros (gone & rmw & keep & Hc) HF H. pose proof Hc as [C A P K Cr S F R].
  pose proof HF as [F1 F2 F3 F4]. unfold zcall in H.
  destruct (z_todo z) as [|x t] eqn:Et; [|discriminate]. destruct (z_dropped z) eqn:Ed; [discriminate|].
  cbn [PF.todo_rm PF.todo_cr flat_map app] in P, K, F3. rewrite app_nil_r in K, F3. subst keep.
  destruct o as [w|cb|from to| | | | | |cfg'].
  - destruct (do_write (z_core z) w) as [[[k r] effs]|] eqn:Ew; [|discriminate].
    inversion H; subst z' v; clear H.
    apply PF.do_write_ok in Ew as (ids0 & keep' & R1 & T1 & T2 & M & C' & S'); [|exact C].
    constructor; PF.zproj; fold (PF.X effs).
    + exact F1.
    + exact F2.
    + rewrite M, app_nil_r. exact F3.
    + destruct F4 as (id & Hid & [Hk|Hk]).
      * exists id. split; [exact Hid|]. left. rewrite R1. apply in_or_app. now left.
      * exists id. split; [exact Hid|]. rewrite T1 in Hk. apply in_app_or in Hk. destruct Hk as [Hk|Hk].
        -- left. rewrite R1. apply in_or_app. now right.
        -- right. rewrite T2. apply in_or_app. now left.
  - destruct (do_flush (z_core z) cb) as [k effs] eqn:Ef.
    inversion H; subst z' v; clear H.
    apply PF.do_flush_ok in Ef as (C' & T & R0 & Mc & Mr); [|exact C].
    match goal with |- FI ?zz => set (z' := zz) end.
    assert (Hmono : forall x, In x (g_removals (z_ghost z)) -> In x (g_removals (z_ghost z'))).
    { intros x Hx. unfold z'. PF.zproj. destruct (k_removed (z_core z)); [exact Hx|apply in_or_app; now left]. }
    assert (Hnew : forall id, In id (k_removed (z_core z)) -> InRem z' id).
    { intros id Hid. exists (k_removed (z_core z)), (ck_end (k_open (z_core z))).
      split; [|exact Hid]. unfold z'. PF.zproj. destruct (k_removed (z_core z)); [destruct Hid|].
      apply in_or_app. right. now left. }
    constructor.
    + intros id Hid. destruct (F1 id Hid) as [H|H]; [now left|right].
      eapply InRem_mono; [exact Hmono|exact H].
    + intros Ha id Hid. eapply InRem_mono; [exact Hmono|exact (F2 Ha id Hid)].
    + unfold z' at 1 2. PF.zproj. fold (PF.X effs). rewrite Mr.
      intros id Hid. apply in_app_or in Hid. destruct Hid as [Hid|Hid].
      * eapply InRem_mono; [exact Hmono|exact (F3 id Hid)].
      * now apply Hnew.
    + unfold z'. PF.zproj.
      exists (ck_id (k_open (z_core z))). split.
      * rewrite P. rewrite !in_app_iff. right. right. right. unfold PF.tail_ids.
        rewrite in_app_iff. right. now left.
      * right. rewrite T. unfold PF.tail_ids. rewrite in_app_iff. right. now left.
  - destruct (do_read (z_core z) (z_disk z) from to) as [k items] eqn:Er.
    inversion H; subst z' v; clear H.
    pose proof (PF.do_read_eqj (z_core z) (z_disk z) from to) as E. rewrite Er in E. cbn [fst] in E.
    destruct (PF.core_eqj_ok _ _ E C) as (_ & T' & R').
    eapply FI_frame; [exact HF|reflexivity..| | | | |]; PF.zproj; auto.
  - inversion H; subst z' v. exact HF.
  - inversion H; subst z' v. exact HF.
  - inversion H; subst z' v. exact HF.
  - destruct (z_queue z); [|discriminate]. destruct (worker_quiet z); [|discriminate].
    inversion H; subst z' v. exact HF.
  - inversion H; subst z' v; clear H.
    pose proof (JD.core_eqj_cache (z_core z) (cache_drain (m_cache (k_sm (z_core z))))) as E.
    destruct (PF.core_eqj_ok _ _ E C) as (_ & T' & R').
    eapply FI_frame; [exact HF|reflexivity..| | | | |]; PF.zproj; auto.
  - discriminate.
Qed.

Lemma ids_in_put i f d : In i (JD.ids (disk_put f d)) <-> i = f_id f \/ In i (JD.ids d).
Proof. unfold JD.ids. apply CrashBase.ids_put. Qed.

Lemma FI_eff z z' v : PF.Inv z -> FI z -> zeff z = Some (z', v) -> FI z'.
Proof.
  intros (gone & rmw & keep & Hc) HF H. pose proof Hc as [C A P K Cr S F R].
  pose proof HF as [F1 F2 F3 F4]. unfold zeff in H.
  destruct (z_todo z) as [|x t] eqn:Et; [discriminate|].
  destruct x as [id|id data|r]; inversion H; subst z' v; clear H.
  - constructor; PF.zproj.
    + intros i Hi. apply in_app_or in Hi. destruct Hi as [Hi|[<-|[]]].
      * destruct (F1 i Hi) as [H|H]; [left; apply ids_in_put; now right|right; exact H].
      * left. apply ids_in_put. now left.
    + exact F2.
    + exact F3.
    + destruct F4 as (i & Hi & Hk). exists i. split; [apply ids_in_put; now right|exact Hk].
  - constructor; PF.zproj.
    + intros i Hi. destruct (F1 i Hi) as [H|H]; [left|right; exact H].
      unfold JD.ids in *. now apply CrashBase.ids_append.
    + exact F2.
    + exact F3.
    + destruct F4 as (i & Hi & Hk). exists i. split; [|exact Hk].
      unfold JD.ids in *. now apply CrashBase.ids_append.
  - constructor; PF.zproj.
    + exact F1.
    + exact F2.
    + intros i Hi. apply F3. rewrite PF.queue_rm_app in Hi.
      unfold PF.queue_rm at 2 in Hi. cbn [flat_map] in Hi. rewrite app_nil_r in Hi.
      cbn [PF.todo_rm flat_map PF.xrm_of]. fold (PF.todo_rm t).
      rewrite !in_app_iff in *. tauto.
    + exact F4.
Qed.

Lemma zrecv_rm z k nf z' v : zrecv z k nf = Some (z', v) ->
  w_alive (z_w z) = true /\
  (forall id, In id (PF.w_rm (z_w z')) -> In id (PF.w_rm (z_w z)) \/ In id (PF.queue_rm (z_queue z))) /\
  (forall id, In id (PF.queue_rm (z_queue z')) -> In id (PF.queue_rm (z_queue z))).
Proof.
  intros H. unfold zrecv in H.
  destruct (z_w z) as [wf al ba sf pp] eqn:Ew. PF.zproj.
  destruct al; [|discriminate]. destruct ba as [b|]; [discriminate|].
  destruct (z_queue z) as [|r q] eqn:Eq; [discriminate|].
  split; [reflexivity|].
  assert (Hfin : forall onf q' ws pos, PF.queue_rm (r :: q) = (match onf with Some r' => PF.rm_of r' | None => [] end) ++ PF.queue_rm q' ->
            (forall rem, pos <> BUnlink rem) -> pos <> BDone ->
            (forall id, In id (PF.w_rm (mkWorker wf true (Some (mkBatch ws onf pos true)) sf pp)) ->
                        In id (PF.w_rm (mkWorker wf true None sf pp)) \/ In id (PF.queue_rm (r :: q))) /\
            (forall id, In id (PF.queue_rm q') -> In id (PF.queue_rm (r :: q)))).
  { intros onf q' ws pos Hq Hp1 Hp2.
    assert (Eb : PF.batch_rm (mkBatch ws onf pos true) = match onf with Some r' => PF.rm_of r' | None => [] end).
    { unfold PF.batch_rm. PF.zproj. destruct pos; try reflexivity; [exfalso; eapply Hp1; reflexivity|congruence]. }
    unfold PF.w_rm. PF.zproj. rewrite Eb, Hq. split; intros id Hid; rewrite ?in_app_iff in *; tauto. }
  destruct r as [u data cb|off prev|rids].
  - destruct (take_writes k q) as [[ws rest]|] eqn:Et; [|discriminate].
    apply PF.take_writes_rm in Et.
    destruct nf.
    + destruct rest as [|r2 rest2]; [discriminate|].
      destruct r2 as [u2 d2 c2|off2 prev2|rids2]; [discriminate| |];
        inversion H; subst z' v; clear H; unfold w_set_batch; PF.zproj;
        apply Hfin; try discriminate;
        unfold PF.queue_rm in *; cbn [flat_map PF.rm_of app] in *; exact Et.
    + assert (H' : Some (set_w (set_queue z rest)
                (w_set_batch (mkWorker wf true None sf pp) (Some (mkBatch (mkWW u data cb :: ws) None (BWrite 0) true))), @nil vis)
                = Some (z', v)) by (destruct rest as [|[] ?]; exact H).
      inversion H'; subst z' v; clear H H'. unfold w_set_batch; PF.zproj.
      apply Hfin; try discriminate.
      unfold PF.queue_rm in *; cbn [flat_map PF.rm_of app] in *; exact Et.
  - destruct (Nat.eqb k 0 && negb nf); [|discriminate].
    inversion H; subst z' v; clear H. unfold w_set_batch; PF.zproj.
    apply Hfin; try discriminate; reflexivity.
  - destruct (Nat.eqb k 0 && negb nf); [|discriminate].
    inversion H; subst z' v; clear H. unfold w_set_batch; PF.zproj.
    apply Hfin; try discriminate; reflexivity.
Qed.

Lemma FI_recv z k nf z' v : FI z -> zrecv z k nf = Some (z', v) -> FI z'.
Proof.
  intros [F1 F2 F3 F4] H.
  destruct (AD.zrecv_frame _ _ _ _ _ H) as (Ht & Hg & Hc & Hd & _).
  destruct (zrecv_rm _ _ _ _ _ H) as (Ha & Hw & Hq).
  assert (HR : forall id, InRem z id -> InRem z' id) by (intros id; apply InRem_eq; now rewrite Hg).
  constructor; rewrite ?Ht, ?Hg, ?Hc, ?Hd.
  - intros id Hid. destruct (F1 id Hid); [now left|right; now apply HR].
  - intros _ id Hid. apply HR. destruct (Hw id Hid) as [Hi|Hi]; [now apply F2|].
    apply F3. apply in_or_app. now left.
  - intros id Hid. apply HR, F3. apply in_app_or in Hid. apply in_or_app.
    destruct Hid as [Hid|Hid]; [left; now apply Hq|now right].
  - exact F4.
Qed.

Lemma FI_work z ok z' v : PF.Inv z -> FI z -> zwork z ok = Some (z', v) -> FI z'.
Proof.
  intros (gone & rmw & keep & Hc) HF H. pose proof Hc as [C A P K Cr S F R].
  pose proof HF as [F1 F2 F3 F4].
  pose proof (PF.cinv_dsorted _ _ _ _ Hc) as Sd.
  destruct (PF.zwork_cases _ _ _ _ H Sd F) as (Ht & Hq & Hg & _ & He & F' & Ha & Hk).
  destruct (PF.core_eqj_ok _ _ He C) as (C' & T' & R').
  destruct Hk as [(Hi & Hr)|(id & Hr & Hd & Ha' & _ & _)].
  - eapply FI_frame; [exact HF|exact Hi|now rewrite Hg|now rewrite Hg| |exact Hq|exact Ht|exact R'|exact T'].
    intros Ha2. split; [exact Ha|now apply Hr].
  - assert (HR : forall i, InRem z i -> InRem z' i) by (intros i; apply InRem_eq; now rewrite Hg).
    specialize (A Ha). rewrite Hr in A. subst rmw.
    constructor; rewrite ?Ht, ?Hq, ?Hg, ?R', ?T'.
    + intros i Hi. destruct (F1 i Hi) as [Hin|Hin]; [|right; now apply HR].
      destruct (N.eq_dec i id) as [->|Hne].
      * right. apply HR, (F2 Ha). rewrite Hr. now left.
      * left. rewrite Hd. unfold JD.ids in *. apply CrashBase.ids_remove. tauto.
    + intros _ i Hi. apply HR, (F2 Ha). rewrite Hr. now right.
    + intros i Hi. now apply HR, F3.
    + destruct F4 as (i & Hi & Hki). exists i. split; [|exact Hki].
      rewrite Hd. unfold JD.ids in *. apply CrashBase.ids_remove. split; [|exact Hi].
      apply PF.ss_suffix in S. rewrite P in S.
      cbn [app] in S. apply JD.ss_inv in S. destruct S as [_ S]. rewrite Forall_forall in S.
      assert (Hlt : id < i); [|lia]. apply S.
      rewrite <- K in Hki. rewrite !in_app_iff in *. tauto.
Qed.

Lemma FI_step z e z' v : PF.Inv z -> FI z -> zstep z e = Some (z', v) -> FI z'.
Proof.
  intros HI HF H. destruct e as [o| |k nf|ok|]; cbn [zstep] in H.
  - eapply FI_call; eauto.
  - eapply FI_eff; eauto.
  - eapply FI_recv; eauto.
  - eapply FI_work; eauto.
  - destruct (z_todo z) eqn:Et; [|discriminate]. inversion H; subst z' v; clear H.
    eapply FI_frame; [exact HF|reflexivity..| | | | |]; PF.zproj; auto.
Qed.

Lemma FI_init cfg : FI (AF.zstart cfg).
Proof.
  constructor; cbn.
  - intros id [<-|[]]. left. now left.
  - intros _ id [].
  - intros id [].
  - exists 0. split; [now left|]. right. now left.
Qed.

Theorem zreach_FI cfg z : zreach cfg z -> PF.Inv z /\ FI z.
Proof.
  revert z. apply (AF.zreach_ind (fun z => PF.Inv z /\ FI z)).
  - split; [exact (PF.inv_init cfg)|apply FI_init].
  - intros z e z' v [HI HF] H. split; [eapply PF.inv_zstep; eauto|eapply FI_step; eauto].
Qed.

(* a chunk file that was created and is gone was named in a recorded RemoveChunks request;
   the directory is never empty *)
Theorem gone_requested cfg z id : zreach cfg z -> In id (g_created (z_ghost z)) ->
  ~ In id (map f_id (z_disk z)) -> InRem z id.
Proof.
  intros Hr Hc Hn. destruct (zreach_FI cfg z Hr) as [_ HF].
  destruct (fi_gone _ HF id Hc) as [H|H]; [contradiction|exact H].
Qed.

Theorem disk_nonempty cfg z : zreach cfg z -> z_disk z <> [].
Proof.
  intros Hr E. destruct (zreach_FI cfg z Hr) as [_ HF].
  destruct (fi_ne _ HF) as (id & Hid & _). rewrite E in Hid. destruct Hid.
Qed.

(* ================================================================== the journal only grows at its end *)
Definition jext (G G' : list jfile) : Prop :=
  exists G0 o rs more new, rs <> [] /\ G = G0 ++ [(o, rs)] /\ G' = G0 ++ (o, rs ++ more) :: new.

Definition glast (k : core) (G : list jfile) : Prop :=
  exists G0 rs, rs <> [] /\ G = G0 ++ [(ck_id (k_open k), rs)].

Lemma jext_refl k G : glast k G -> jext G G.
Proof.
  intros (G0 & rs & Hne & ->). exists G0, (ck_id (k_open k)), rs, [], []. now rewrite app_nil_r.
Qed.

Lemma gnext_cases k r G k' w effs : glast k G -> append_and_apply k r = Ret (k', w, effs) ->
  (gnext k r G = G /\ k' = k /\ exists e, w = WErr e) \/
  (exists G0 rs sm1 off len, rs <> [] /\ G = G0 ++ [(ck_id (k_open k), rs)] /\ w = WOk off len /\
     sm_apply (k_sm k) r (ck_id (k_open k)) (ck_end (k_open k), rec_size r) = (sm1, None) /\
     ((k' = appended k r sm1 /\ gnext k r G = G0 ++ [(ck_id (k_open k), rs ++ [r])]) \/
      (k' = rotated (appended k r sm1) /\
       gnext k r G = G0 ++ [(ck_id (k_open k), rs ++ [r]);
                            (ck_end (k_open (appended k r sm1)), [RState (m_rs sm1)])]))).
Proof.
  intros (G0 & rs & Hne & ->) H. apply aaa_res in H.
  destruct H as [(Ea & -> & -> & e & ->)|(Ea & sm1 & Hv & Eil & Hsm & -> & Htc)].
  - left. rewrite gnext_refused by exact Ea. eauto.
  - right. exists G0, rs, sm1, (ck_end (k_open k)), (rec_size r).
    split; [exact Hne|]. split; [reflexivity|]. split; [reflexivity|]. split; [exact Hsm|].
    unfold gnext. rewrite Ea, Hsm. cbn [fst]. rewrite glast_app_snoc.
    eapply try_close_cases in Htc; [|reflexivity].
    destruct Htc as [(Ef & -> & ->)|(Ef & -> & ->)]; rewrite Ef.
    + left. split; reflexivity.
    + right. split; [reflexivity|]. now rewrite <- app_assoc.
Qed.

Lemma gnext_ext k r G k' w effs : glast k G -> append_and_apply k r = Ret (k', w, effs) ->
  jext G (gnext k r G) /\ glast k' (gnext k r G) /\ k_removed k' = k_removed k.
Proof.
  intros HG H. destruct (gnext_cases _ _ _ _ _ _ HG H) as
    [(-> & -> & _)|(G0 & rs & sm1 & off & len & Hne & -> & _ & _ & [(-> & ->)|(-> & ->)])].
  - split; [eapply jext_refl; eauto|]. split; [exact HG|reflexivity].
  - split; [|split; [|reflexivity]].
    + exists G0, (ck_id (k_open k)), rs, [r], []. auto.
    + exists G0, (rs ++ [r]). split; [destruct rs; discriminate|reflexivity].
  - split; [|split; [|reflexivity]].
    + exists G0, (ck_id (k_open k)), rs, [r], [(ck_end (k_open (appended k r sm1)), [RState (m_rs sm1)])]. auto.
    + exists (G0 ++ [(ck_id (k_open k), rs ++ [r])]), [RState (m_rs sm1)].
      split; [discriminate|]. rewrite <- app_assoc. reflexivity.
Qed.

(* a property preserved by every extension is preserved by a write call *)
Lemma gfold_ext (Phi : list jfile -> Prop) :
  (forall G G', jext G G' -> Phi G -> Phi G') ->
  forall rs k G, glast k G -> Phi G -> Phi (gfold k rs G).
Proof.
  intros HP rs. induction rs as [|r rs IH]; intros k G HG H; cbn [gfold]; [exact H|].
  destruct (append_and_apply k r) as [[[k1 [off len|e]] ef]|] eqn:Ea; try exact H.
  destruct (gnext_ext _ _ _ _ _ _ HG Ea) as (Hx & HG1 & _).
  apply IH; [exact HG1|]. eapply HP; eauto.
Qed.

Lemma tl_app_ne {A} (a b : list A) : a <> [] -> tl (a ++ b) = tl a ++ b.
Proof. destruct a; [congruence|reflexivity]. Qed.

Lemma jext_jrecs G G' : jext G G' -> exists m, jrecs G' = jrecs G ++ m.
Proof.
  intros (G0 & o & rs & more & new & Hne & -> & ->).
  exists (more ++ jrecs new). rewrite jrecs_last.
  change (G0 ++ (o, rs ++ more) :: new) with (G0 ++ [(o, rs ++ more)] ++ new).
  rewrite app_assoc, jrecs_app, jrecs_last, tl_app_ne by exact Hne. now rewrite <- !app_assoc.
Qed.

Lemma fends_app o rs more : rs <> [] -> exists m, fends (o, rs ++ more) = fends (o, rs) ++ m.
Proof.
  intros Hne. unfold fends. cbn [fst snd]. rewrite map_app, JC.ends_from_app.
  eexists. apply tl_app_ne. destruct rs; [congruence|discriminate].
Qed.

Lemma jext_rec_ends G G' : jext G G' -> exists m, rec_ends G' = rec_ends G ++ m.
Proof.
  intros (G0 & o & rs & more & new & Hne & -> & ->).
  destruct (fends_app o rs more Hne) as [m Em].
  exists (m ++ rec_ends new). rewrite rec_ends_snoc.
  change (G0 ++ (o, rs ++ more) :: new) with (G0 ++ [(o, rs ++ more)] ++ new).
  rewrite app_assoc, rec_ends_app, rec_ends_snoc, Em. now rewrite <- !app_assoc.
Qed.

(* a decomposition around two adjacent files survives extensions *)
Lemma split_ext G G' Ga (c : N) (rsc : list record) (x : N) h tl0 Gb : jext G G' ->
  G = Ga ++ (c, rsc) :: (x, h :: tl0) :: Gb ->
  exists tl' Gb', G' = Ga ++ (c, rsc) :: (x, h :: tl') :: Gb'.
Proof.
  intros (G0 & o & rs & more & new & Hne & EG & ->) E. rewrite EG in E. clear EG.
  destruct (@exists_last _ ((x, h :: tl0) :: Gb)) as (L & lastf & EL); [discriminate|].
  rewrite EL in E.
  assert (E' : G0 ++ [(o, rs)] = (Ga ++ (c, rsc) :: L) ++ [lastf]) by (rewrite E, <- app_assoc; reflexivity).
  apply app_inj_tail in E'. destruct E' as [-> <-].
  destruct L as [|l0 L'].
  - cbn [app] in EL. inversion EL; subst. exists (tl0 ++ more), new. rewrite <- app_assoc. reflexivity.
  - cbn [app] in EL. inversion EL; subst. exists tl0, (L' ++ (o, rs ++ more) :: new).
    rewrite <- app_assoc. reflexivity.
Qed.

(* ================================================================== closed chunks and the file that follows *)
Definition ple (a b : option logid) : Prop := opair_cmp a b <> Gt.

Definition succ_head (G : list jfile) (c : N) (st : rstate) : Prop :=
  exists Ga rsc x tl0 Gb, G = Ga ++ (c, rsc) :: (x, RState st :: tl0) :: Gb.

Lemma succ_head_ext G G' c st : jext G G' -> succ_head G c st -> succ_head G' c st.
Proof.
  intros Hx (Ga & rsc & x & tl0 & Gb & E).
  destruct (split_ext _ _ _ _ _ _ _ _ _ Hx E) as (tl' & Gb' & E'). exists Ga, rsc, x, tl', Gb'. exact E'.
Qed.

Definition QC (k : core) (G : list jfile) : Prop :=
  forall c, In c (k_closed k) -> succ_head G (PF.cid c) (cl_state c).

Definition QG (k : core) (G : list jfile) : Prop := glast k G /\ QC k G.

Lemma In_closed_insert c cl l : In c (closed_insert cl l) -> c = cl \/ In c l.
Proof.
  induction l as [|c' l IH]; simpl; [intros [H|[]]; now left|].
  destruct (N.compare (ck_id (cl_chunk cl)) (ck_id (cl_chunk c'))); simpl.
  - intros [H|H]; [now left|right; now right].
  - intros [H|H]; [now left|now right].
  - intros [H|H]; [right; now left|]. destruct (IH H); [now left|right; now right].
Qed.

Lemma QG_aaa k G r k' w effs : QG k G -> append_and_apply k r = Ret (k', w, effs) ->
  QG k' (gnext k r G) /\ k_removed k' = k_removed k.
Proof.
  intros [HG HQ] H. destruct (gnext_ext _ _ _ _ _ _ HG H) as (Hx & HG' & Hrm).
  split; [|exact Hrm]. split; [exact HG'|].
  destruct (gnext_cases _ _ _ _ _ _ HG H) as
    [(E & -> & _)|(G0 & rs & sm1 & off & len & Hne & EG & _ & _ & [(-> & E)|(-> & E)])].
  - rewrite E. exact HQ.
  - intros c Hc. eapply succ_head_ext; [exact Hx|]. apply HQ. exact Hc.
  - intros c Hc. cbn [rotated k_closed appended] in Hc. apply In_closed_insert in Hc.
    destruct Hc as [->|Hc].
    + rewrite E. exists G0, (rs ++ [r]), (ck_end (k_open (appended k r sm1))), [], []. reflexivity.
    + eapply succ_head_ext; [exact Hx|]. apply HQ. exact Hc.
Qed.

Lemma QG_append es : forall k G acc effs0 k' w effs, QG k G ->
  do_append k es acc effs0 = Ret (k', w, effs) ->
  QG k' (gfold k (map (fun e => RAppend (fst e) (snd e)) es) G) /\ k_removed k' = k_removed k.
Proof.
  induction es as [|[id p] es IH]; intros k G acc effs0 k' w effs HQ H; simpl in H.
  - inversion H; subst. split; [exact HQ|reflexivity].
  - destruct (append_and_apply k (RAppend id p)) as [[[k1 w1] ef]|] eqn:Ea; [|discriminate].
    destruct (QG_aaa _ _ _ _ _ _ HQ Ea) as [HQ1 Hr1].
    cbn [map fst snd gfold]. rewrite Ea. destruct w1 as [off len|e].
    + destruct (IH _ _ _ _ _ _ _ HQ1 H) as [HQ2 Hr2]. split; [exact HQ2|congruence].
    + inversion H; subst.
      destruct (gnext_cases _ _ _ _ _ _ (proj1 HQ) Ea) as [(E & -> & _)|(G0 & rs & sm1 & off & len & _ & _ & Hw & _)];
        [|discriminate].
      split; [exact HQ|reflexivity].
Qed.

Lemma purge_purged s id c seg : ple (Some id) (r_purged (m_rs (fst (sm_apply s (RPurge id) c seg)))).
Proof.
  rewrite sm_apply_purge. cbn [m_rs]. cbv zeta.
  set (s1 := if opair_ltb (r_purged (m_rs s)) (Some id) then rs_set_purged (m_rs s) (Some id) else m_rs s).
  assert (H : ple (Some id) (r_purged s1)).
  { unfold s1. destruct (opair_ltb (r_purged (m_rs s)) (Some id)) eqn:E.
    - cbn [rs_set_purged r_purged]. apply opair_eq_le.
    - apply opair_ltb_ge. exact E. }
  destruct (opair_ltb (r_last s1) (Some id)); cbn [rs_set_last r_purged]; exact H.
Qed.

Lemma QG_write k G w k' res effs : QG k G -> do_write k w = Ret (k', res, effs) ->
  let G' := gfold k (wrecs k w) G in
  QG k' G' /\
  (forall c, In c (k_removed k') ->
     In c (k_removed k) \/ exists st, succ_head G' c st /\ ple (r_last st) (r_purged (m_rs (k_sm k')))).
Proof.
  intros HQ H G'. subst G'.
  assert (AA : forall r k1 w1 ef, append_and_apply k r = Ret (k1, w1, ef) ->
               QG k1 (gfold k [r] G) /\
               (forall c, In c (k_removed k1) -> In c (k_removed k) \/
                  exists st, succ_head (gfold k [r] G) c st /\ ple (r_last st) (r_purged (m_rs (k_sm k1))))).
  { intros r k1 w1 ef Ha. rewrite gfold_one. destruct (QG_aaa _ _ _ _ _ _ HQ Ha) as [H1 H2].
    split; [exact H1|]. intros c Hc. left. now rewrite <- H2. }
  assert (NO : QG k (gfold k [] G) /\
               (forall c, In c (k_removed k) -> In c (k_removed k) \/
                  exists st, succ_head (gfold k [] G) c st /\ ple (r_last st) (r_purged (m_rs (k_sm k))))).
  { split; [exact HQ|]. intros c Hc. now left. }
  destruct w as [v|es|i|upto|id|u|st]; simpl in H; cbn [wrecs].
  - eapply AA; eauto.
  - destruct (wal_last_segment k) as [w0|]; [|discriminate].
    destruct (QG_append _ _ _ _ _ _ _ _ HQ H) as [H1 H2]. split; [exact H1|].
    intros c Hc. left. now rewrite <- H2.
  - destruct (N.eqb i (next_index (r_purged (m_rs (k_sm k))))); [eapply AA; eauto|].
    destruct (N.eqb i 0); [inversion H; subst; exact NO|].
    unfold lm_get_id in *. destruct (lm_get (i - 1) (m_log (k_sm k))) as [ld|].
    + eapply AA; eauto.
    + inversion H; subst. exact NO.
  - destruct (N.ltb (lid_index upto) (next_index (r_purged (m_rs (k_sm k))))).
    { destruct (wal_last_segment k) as [w0|]; [|discriminate]. inversion H; subst. exact NO. }
    destruct (append_and_apply k (RPurge upto)) as [[[k1 w1] ef]|] eqn:Ea; [|discriminate].
    destruct (AA _ _ _ _ Ea) as [HQ1 Hr1]. rewrite gfold_one in *.
    destruct w1 as [off len|e]; [|inversion H; subst; split; assumption].
    destruct (pop_obsolete upto (k_closed k1)) as [ids rest] eqn:Ep. inversion H; subst k' res effs. clear H.
    destruct (PF.pop_obsolete_split _ _ _ _ Ep) as (popped & E1 & E2 & E3 & _).
    destruct HQ1 as [HG1 HC1]. split.
    + split; [exact HG1|]. intros c Hc. cbn [k_closed] in Hc. apply HC1. rewrite E1.
      apply in_or_app. now right.
    + cbn [k_removed k_sm]. intros c Hc. apply in_app_or in Hc. destruct Hc as [Hc|Hc]; [now apply Hr1|].
      right. rewrite E2 in Hc. apply in_map_iff in Hc. destruct Hc as (cl & <- & Hcl).
      exists (cl_state cl). split; [apply HC1; rewrite E1; apply in_or_app; now left|].
      rewrite Forall_forall in E3. specialize (E3 cl Hcl). apply opair_leb_le in E3.
      eapply opair_le_trans; [exact E3|].
      destruct (gnext_cases _ _ _ _ _ _ (proj1 HQ) Ea) as
        [(_ & _ & e & He)|(G0 & rs & sm1 & off' & len' & _ & _ & _ & Hsm & [(-> & _)|(-> & _)])];
        [discriminate| |];
        cbn [rotated appended k_sm];
        pose proof (purge_purged (k_sm k) upto (ck_id (k_open k)) (ck_end (k_open k), rec_size (RPurge upto))) as Hp;
        rewrite Hsm in Hp; exact Hp.
  - eapply AA; eauto.
  - eapply AA; eauto.
  - eapply AA; eauto.
Qed.

(* ================================================================== the invariant on removal requests *)
Definition rem_fact (G : list jfile) (c U : N) : Prop :=
  exists Ga rsc x st tl0 Gb n,
    G = Ga ++ (c, rsc) :: (x, RState st :: tl0) :: Gb /\
    x + rec_size (RState st) <= U /\ (n <= nb G U)%nat /\
    ple (r_last st) (sp_purged (run_recs spec0 (firstn n (jrecs G)))).

Lemma nb_le_jrecs G U : (nb G U <= length (jrecs G))%nat.
Proof. unfold nb. rewrite <- rec_ends_length. apply filter_len_le. Qed.

Lemma rem_fact_ext G G' c U : jext G G' -> rem_fact G c U -> rem_fact G' c U.
Proof.
  intros Hx (Ga & rsc & x & st & tl0 & Gb & n & E & Hh & Hn & Hp).
  destruct (split_ext _ _ _ _ _ _ _ _ _ Hx E) as (tl' & Gb' & E').
  destruct (jext_jrecs _ _ Hx) as [m Em]. destruct (jext_rec_ends _ _ Hx) as [m' Em'].
  exists Ga, rsc, x, st, tl', Gb', n. split; [exact E'|]. split; [exact Hh|]. split.
  - unfold nb in *. rewrite Em', filter_app, app_length. lia.
  - pose proof (nb_le_jrecs G U) as Hl. rewrite Em, firstn_app.
    replace (n - length (jrecs G))%nat with 0%nat by lia. cbn [firstn]. rewrite app_nil_r. exact Hp.
Qed.

Record RI (z : sys2) (G : list jfile) : Prop := mkRI {
  ri_closed : QC (z_core z) G;
  ri_removed : forall c, In c (k_removed (z_core z)) ->
     exists st, succ_head G c st /\ ple (r_last st) (r_purged (m_rs (k_sm (z_core z))));
  ri_us : forall l U, In (l, U) (g_removals (z_ghost z)) -> In U (AD.flushed_us z);
  ri_rem : forall l U c, In (l, U) (g_removals (z_ghost z)) -> In c l -> rem_fact G c U }.

Lemma SC_glast k sp G : SC k sp G -> glast k G.
Proof.
  intros [Hf _ _ (G0 & rs & ->)]. apply files_ok_app in Hf. destruct Hf as [_ Hf]. simpl in Hf.
  destruct Hf as (tl0 & E & _). exists G0, rs. split; [rewrite E; discriminate|reflexivity].
Qed.

Lemma head_end_le k cr t G x r tl0 : GI k cr t G -> In (x, r :: tl0) G ->
  x + rec_size r <= ck_end (k_open k).
Proof.
  intros Gi Hg. destruct (gi_last _ _ _ _ Gi) as (G0 & rs & EG).
  pose proof (ji_open_end _ _ _ (gi_jinv _ _ _ _ Gi)) as He.
  rewrite EG, gbytes_last in He by (rewrite <- EG; apply (gi_sorted _ _ _ _ Gi)).
  pose proof (Abut_ends_le G (x, r :: tl0) (ck_id (k_open k), rs) G0 EG (gi_abut _ _ _ _ Gi) Hg) as Hle.
  unfold RF.glen in Hle. cbn [fst snd] in Hle. rewrite He. unfold blen in *.
  change (ScanFacts.encs (r :: tl0)) with (encs (r :: tl0)) in Hle.
  change (ScanFacts.encs rs) with (encs rs) in Hle.
  rewrite encs_cons, app_length in Hle. unfold rec_size. lia.
Qed.

Lemma RI_frame z z' G : core_eqj (z_core z) (z_core z') ->
  g_removals (z_ghost z') = g_removals (z_ghost z) -> g_flushed (z_ghost z') = g_flushed (z_ghost z) ->
  RI z G -> RI z' G.
Proof.
  intros (_ & _ & _ & Ec & Er & Ers & _) Hr Hf [R1 R2 R3 R4].
  constructor; unfold QC, AD.flushed_us in *; rewrite ?Ec, ?Er, ?Ers, ?Hr, ?Hf; assumption.
Qed.

Lemma spec_wop_purged sp w : ple (sp_purged sp) (sp_purged (fst (spec_wop sp w))).
Proof.
  assert (One : forall sw, ple (sp_purged sp) (sp_purged (fst (spec_one sp sw)))).
  { intros sw. unfold spec_one. destruct (spec_step sp sw) as [sp'|] eqn:E; cbn [fst].
    - eapply spec_step_purged; eauto.
    - apply opair_eq_le. }
  destruct w as [v|es|i|u|id|u|st]; cbn [spec_wop]; try apply One.
  - revert sp One. induction es as [|[id p] es IH]; intros sp _; cbn [spec_append fst]; [apply opair_eq_le|].
    destruct (spec_step sp (SEntry id p)) as [sp'|] eqn:E; [|apply opair_eq_le].
    eapply opair_le_trans; [eapply spec_step_purged; eauto|]. apply IH. intros sw.
    unfold spec_one. destruct (spec_step sp' sw) as [sp''|] eqn:E'; cbn [fst];
      [eapply spec_step_purged; eauto|apply opair_eq_le].
  - apply opair_eq_le.
Qed.

Lemma RI_step z e z' v G :
  AD.full z -> JI z G -> SP z G -> SP z' (gstep z e G) -> RI z G ->
  zstep z e = Some (z', v) -> RI z' (gstep z e G).
Proof.
  intros F J HS HS' HR H. destruct e as [o| |k nf|ok|]; simpl in H.
  - unfold zcall in H.
    destruct (z_todo z) eqn:Et; [|discriminate]. destruct (z_dropped z); [discriminate|].
    destruct o as [w|cb|from to| | | | | |cfg']; cbn [gstep].
    + (* write *)
      destruct (do_write (z_core z) w) as [[[k r] effs]|] eqn:E; [|discriminate].
      inversion H; subst z' v; clear H. cbn [gstep] in HS'.
      destruct HR as [R1 R2 R3 R4].
      pose proof (sp_sc _ _ HS) as Hsc. pose proof (sp_sc _ _ HS') as Hsc'.
      pose proof (SC_glast _ _ _ Hsc) as HG.
      destruct (QG_write _ _ _ _ _ _ (conj HG R1) E) as [[HG' HQ'] Hrm]. cbv zeta in Hrm.
      assert (Hh : PL.hist (set_ghost (set_todo (set_core z k) (flat_map expand_eff effs))
                     {| g_writes := g_writes (z_ghost z) ++ [(w, r)]; g_flushed := g_flushed (z_ghost z);
                        g_removals := g_removals (z_ghost z); g_created := g_created (z_ghost z) |})
                   = PL.hist z ++ [w]).
      { unfold PL.hist. simpl. now rewrite map_app. }
      rewrite Hh, PL.spec_wops_snoc in Hsc'. PF.zproj.
      assert (Hmono : ple (r_purged (m_rs (k_sm (z_core z)))) (r_purged (m_rs (k_sm k)))).
      { rewrite (PL.R0_rs _ _ (sc_r0 _ _ _ Hsc)), (PL.R0_rs _ _ (sc_r0 _ _ _ Hsc')).
        cbn [spec_state r_purged]. apply spec_wop_purged. }
      constructor; PF.zproj.
      * exact HQ'.
      * intros c Hc. destruct (Hrm c Hc) as [Hold|Hnew]; [|exact Hnew].
        destruct (R2 c Hold) as (st & Hsh & Hp). exists st. split.
        -- revert Hsh. apply (gfold_ext (fun G => succ_head G c st)); [|exact HG].
           intros G1 G2 Hx. now apply succ_head_ext.
        -- eapply opair_le_trans; [exact Hp|exact Hmono].
      * exact R3.
      * intros l U c Hl Hc. specialize (R4 l U c Hl Hc). revert R4.
        apply (gfold_ext (fun G => rem_fact G c U)); [|exact HG].
        intros G1 G2 Hx. now apply rem_fact_ext.
    + (* flush *)
      unfold do_flush in H. inversion H; subst z' v; clear H.
      destruct HR as [R1 R2 R3 R4].
      pose proof (sp_sc _ _ HS) as Hsc.
      match goal with |- RI ?zz _ => set (z' := zz) end.
      assert (Hfl : forall U, In U (AD.flushed_us z) -> In U (AD.flushed_us z')).
      { intros U HU. unfold AD.flushed_us, z'. PF.zproj. rewrite map_app. apply in_or_app. now left. }
      assert (Hnew : In (ck_end (k_open (z_core z))) (AD.flushed_us z')).
      { unfold AD.flushed_us, z'. PF.zproj. rewrite map_app. apply in_or_app. right. now left. }
      assert (Hcase : forall l U, In (l, U) (g_removals (z_ghost z')) ->
                In (l, U) (g_removals (z_ghost z)) \/
                (l = k_removed (z_core z) /\ U = ck_end (k_open (z_core z)))).
      { intros l U. unfold z'. PF.zproj. destruct (k_removed (z_core z)); [now left|].
        intros Hin. apply in_app_or in Hin. destruct Hin as [Hin|[Hin|[]]]; [now left|].
        inversion Hin; subst. now right. }
      constructor.
      * exact R1.
      * unfold z'. PF.zproj. intros c [].
      * intros l U Hl. destruct (Hcase l U Hl) as [Hold|[-> ->]]; [apply Hfl; eapply R3; eauto|exact Hnew].
      * intros l U c Hl Hc. destruct (Hcase l U Hl) as [Hold|[-> ->]]; [eapply R4; eauto|].
        destruct (R2 c Hc) as (st & (Ga & rsc & x & tl0 & Gb & EG) & Hp).
        exists Ga, rsc, x, st, tl0, Gb, (length (jrecs G)).
        split; [exact EG|]. split; [|split].
        -- eapply head_end_le; [apply (ji_gi _ _ J)|]. rewrite EG. apply in_or_app. right. right. now left.
        -- unfold nb. rewrite filter_all_len; [rewrite rec_ends_length; lia|].
           apply (all_ends_le _ _ _ _ (ji_gi _ _ J)).
        -- rewrite firstn_all, (sc_cur _ _ _ Hsc).
           rewrite (PL.R0_rs _ _ (sc_r0 _ _ _ Hsc)) in Hp. exact Hp.
    + destruct (do_read (z_core z) (z_disk z) from to) as [k items] eqn:Er. inversion H; subst; clear H.
      pose proof (JournalFacts.do_read_core (z_core z) (z_disk z) from to) as Hc. rewrite Er in Hc. simpl in Hc.
      apply (RI_frame z); [exact Hc|reflexivity|reflexivity|exact HR].
    + inversion H; subst. exact HR.
    + inversion H; subst. exact HR.
    + inversion H; subst. exact HR.
    + destruct (z_queue z); [|discriminate]. destruct (worker_quiet z); [|discriminate].
      inversion H; subst. exact HR.
    + inversion H; subst; clear H.
      apply (RI_frame z); [apply core_eqj_cache|reflexivity|reflexivity|exact HR].
    + discriminate.
  - cbn [gstep]. unfold zeff in H. destruct (z_todo z) as [|[id|id h|r] t] eqn:Et; [discriminate| | |];
      inversion H; subst; clear H;
      (apply (RI_frame z); [apply core_eqj_refl|reflexivity|reflexivity|exact HR]).
  - cbn [gstep]. destruct (AD.zrecv_frame _ _ _ _ _ H) as (_ & Hg & Hc & _).
    apply (RI_frame z); [rewrite Hc; apply core_eqj_refl|now rewrite Hg|now rewrite Hg|exact HR].
  - cbn [gstep]. destruct (zwork_wk _ _ _ _ H) as (_ & Hg & Hc & _).
    apply (RI_frame z); [exact Hc|now rewrite Hg|now rewrite Hg|exact HR].
  - cbn [gstep]. destruct (z_todo z) eqn:Et; [|discriminate]. inversion H; subst; clear H.
    apply (RI_frame z); [apply core_eqj_refl|reflexivity|reflexivity|exact HR].
Qed.

Lemma RI_init cfg : RI (AF.zstart cfg) G_init.
Proof. constructor; cbn; [intros c []|intros c []|intros l U []|intros l U c []]. Qed.

Lemma hist_step z e z' v : zstep z e = Some (z', v) ->
  PL.hist z' = PL.hist z \/ exists w, PL.hist z' = PL.hist z ++ [w].
Proof.
  intros H. destruct e as [o| |k nf|ok|]; simpl in H.
  - unfold zcall in H.
    destruct (z_todo z) eqn:Et; [|discriminate]. destruct (z_dropped z); [discriminate|].
    destruct o as [w|cb|from to| | | | | |cfg'].
    + destruct (do_write (z_core z) w) as [[[k r] effs]|] eqn:E; [|discriminate].
      inversion H; subst; clear H. right. exists w. unfold PL.hist. simpl. now rewrite map_app.
    + unfold do_flush in H. inversion H; subst; clear H. now left.
    + destruct (do_read (z_core z) (z_disk z) from to) as [k items]. inversion H; subst; clear H. now left.
    + inversion H; subst. now left.
    + inversion H; subst. now left.
    + inversion H; subst. now left.
    + destruct (z_queue z); [|discriminate]. destruct (worker_quiet z); [|discriminate].
      inversion H; subst. now left.
    + inversion H; subst. now left.
    + discriminate.
  - unfold zeff in H. destruct (z_todo z) as [|[id|id h|r] t]; [discriminate| | |];
      inversion H; subst; now left.
  - destruct (AD.zrecv_frame _ _ _ _ _ H) as (_ & Hg & _). left. unfold PL.hist. now rewrite Hg.
  - destruct (AD.zwork_frame _ _ _ _ H) as (_ & Hg & _). left. unfold PL.hist. now rewrite Hg.
  - destruct (z_todo z); [|discriminate]. inversion H; subst. now left.
Qed.

Lemma hist_legal_back z e z' v : zstep z e = Some (z', v) -> PL.hist_legal z' -> PL.hist_legal z.
Proof.
  intros H Hl. unfold PL.hist_legal in *. destruct (hist_step _ _ _ _ H) as [E|[w E]]; rewrite E in Hl.
  - exact Hl.
  - rewrite PL.wops_legal_snoc in Hl. apply andb_true_iff in Hl. apply Hl.
Qed.

(* the journal, its relation to the reference log and the facts about removal requests,
   in every reachable state *)
Theorem L2_removed : forall cfg z, zreach cfg z -> hist_wf z -> PL.hist_legal z ->
  exists G, JI z G /\ SP z G /\ RI z G.
Proof.
  intros cfg z Hr Hw Hl.
  destruct (L2_journal_ind (fun z G => PL.hist_legal z -> SP z G /\ RI z G) cfg) with (z := z)
    as (G & J & HP); try assumption.
  - intros _. split; [apply SP_init|apply RI_init].
  - intros z0 e z1 v G F J _ IH Hs Hl1.
    pose proof (hist_legal_back _ _ _ _ Hs Hl1) as Hl0. destruct (IH Hl0) as [HS HR].
    assert (HS' : SP z1 (gstep z0 e G)) by (eapply SP_step; eauto).
    split; [exact HS'|]. eapply RI_step; eauto.
  - exists G. split; [exact J|]. apply HP, Hl.
Qed.

Print Assumptions L2_removed.
