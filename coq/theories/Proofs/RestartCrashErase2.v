(* Mark-independent iteration of crash recovery: crash images outside the gap class are
   sorted and chained whatever the synced marks of the start directory, so
   C05_recovers_outside_known_from_any_marks applies again to the instance opened on them. *)
From Coq Require Import List NArith Bool Lia Arith Sorting.Sorted.
From Coq Require Import ZifyBool ZifyN ZifyNat.
From Coq.Strings Require Import Byte.
From RaftLog Require Import Base.Bytes Model.Types Model.Codec Model.Cache Model.Core
  Model.Recover Model.Run Model.Sys Spec.Durable.
From RaftLog Require Import Proofs.CodecFacts Proofs.NoPanic Proofs.ScanFacts Proofs.RecoverFacts.
From RaftLog Require Proofs.CorruptFacts Proofs.PurgeFacts Proofs.JournalChunk Proofs.JournalFacts.
From RaftLog Require Import Proofs.CrashBase Proofs.CrashJournal Proofs.CrashSteps.
Import ListNotations.
Local Open Scope N_scope.
Local Arguments N.add : simpl never.
Local Arguments N.sub : simpl never.
Local Arguments N.mul : simpl never.
Local Arguments N.eqb : simpl never.
Local Arguments N.ltb : simpl never.
Local Arguments N.leb : simpl never.
Local Arguments N.compare : simpl never.
Local Arguments N.of_nat : simpl never.
Local Arguments enc_record : simpl never.

From RaftLog Require Import Proofs.CrashRecover.
From RaftLog Require Proofs.AckFacts Proofs.RestartShape Proofs.RestartSys Proofs.RestartCrash.

From RaftLog Require Import Proofs.CrashRecover.
From RaftLog Require Proofs.AckFacts Proofs.RestartShape Proofs.RestartSys Proofs.RestartCrash Proofs.RestartChain.
From RaftLog Require Import Proofs.RestartCrashIter Proofs.RestartCrashErase.

(* the facts about a state reachable from a sorted, chained directory with any marks *)
Lemma state_any cfg d z : disk_sorted d -> RC.dir_chained d -> RSy.zreach_from cfg d z -> hist_wf z ->
  PurgeFacts.Inv z /\ disk_sorted (z_disk z) /\ exists G, JI z G.
Proof.
  intros Hs Hch Hr Hw.
  assert (Hinv : PurgeFacts.Inv z) by (eapply RC.Inv_from; eauto).
  split; [exact Hinv|]. split.
  { destruct Hinv as (gone & rmw & keep & Hci). apply sorted_of_sorted_ids.
    exact (PurgeFacts.cinv_dsorted _ _ _ _ Hci). }
  destruct Hr as (z0 & es & vis & H0 & Hrun).
  destruct (zinit_sim _ _ _ H0) as (d0 & H0' & Hd0).
  destruct (zrun_sim es _ _ _ _ Hd0 Hrun) as (d2 & Hrun' & Hd2).
  assert (Hok : RC.dir_ok (RCh.reboot d)).
  { assert (Hall : Forall (fun f => f_synced f = N.of_nat (length (f_data f))) (RCh.reboot d))
      by apply RCh.reboot_full.
    split; [split|split].
    - eapply RCh.sorted_same_ids; [|exact Hs]. symmetry. apply RCh.reboot_ids.
    - eapply Forall_impl; [|exact Hall]. intros f E. unfold AckFacts.synced_le. rewrite E. lia.
    - unfold RSy.older_synced. now apply RCh.Forall_removelast.
    - unfold RC.dir_chained, RCh.reboot in *. rewrite map_map. exact Hch. }
  assert (Hr' : RSy.zreach_from cfg (RCh.reboot d) (with_disk z d2)) by (eexists _, es, vis; eauto).
  destruct (RC.L2_journal_from cfg _ _ Hok Hr' (hist_wf_with_disk z d2 Hw)) as [G J].
  exists G. eapply JI_deq; eauto.
Qed.

Lemma crash_image_chained_s z d' G : PurgeFacts.Inv z -> disk_sorted (z_disk z) -> JI z G ->
  crash_image z d' -> ~ gap_class d' -> RC.dir_chained d'.
Proof.
  intros Hinv Hfull J Hc Hng. destruct d' as [|f0 l0] eqn:Ed; [exact I|]. rewrite <- Ed in *.
  destruct (crash_open_s any_cfg z d' G Hinv Hfull J Hc Hng eq_refl) as
    (Gd & Go & o & recs & j & older' & nf' & tl & y' & s1 & IF & EGd & Ed' & Hfm & Eid & Edat & Htl & _).
  { rewrite Ed. discriminate. }
  destruct IF as [J' (A & C & EG & _) _ _ _].
  pose proof (gi_ok _ _ _ _ (ji_gi _ _ J')) as Hok.
  pose proof (gi_chain _ _ _ _ (ji_gi _ _ J')) as Hch.
  rewrite EG, EGd in Hok, Hch. rewrite !Forall_app in Hok. destruct Hok as (_ & [Hoko Hokl] & _).
  apply RS.Chain_app_r in Hch. apply Chain_app_l in Hch.
  unfold RC.dir_chained. rewrite Ed', map_app. cbn [map].
  assert (E1 : map (fun f => RC.recs_of (f_data f)) older' = map snd Go).
  { clear - Hfm Hoko. induction Hfm as [|f g l1 l2 [_ E] _ IH]; [reflexivity|].
    inversion Hoko as [|? ? [Hw _] Hoko']; subst. cbn [map]. rewrite E, RC.recs_of_encs by exact Hw.
    f_equal. now apply IH. }
  rewrite E1, Edat.
  inversion Hokl as [|? ? [Hw _] _]; subst. cbn [snd] in Hw.
  rewrite recs_of_tail; [|apply Forall_firstn_; exact Hw|exact Htl].
  exact (chain_chainedL Go _ _ j Hch).
Qed.

(* every crash image outside the gap class is again a sorted, chained directory, whatever
   the synced marks of the start directory were *)
Theorem crash_image_chained_any : forall cfg d z d',
  disk_sorted d -> RC.dir_chained d -> RSy.zreach_from cfg d z -> hist_wf z -> crash_image z d' ->
  ~ gap_class d' -> disk_sorted d' /\ RC.dir_chained d'.
Proof.
  intros cfg d z d' Hs Hch Hr Hw Hc Hng.
  destruct (state_any cfg d z Hs Hch Hr Hw) as (Hinv & Hsz & G & J). split.
  - eapply sorted_of_ids; [apply crash_image_ids; eauto|exact Hsz].
  - eapply crash_image_chained_s; eauto.
Qed.

(* crash -> reopen -> crash -> ... without any reboot step *)
Theorem C05_recovers_again_any : forall cfg cfg' cfg'' d z1 d1 z2 d2,
  disk_sorted d -> RC.dir_chained d -> RSy.zreach_from cfg d z1 -> hist_wf z1 -> crash_image z1 d1 ->
  ~ gap_class d1 -> RSy.zreach_from cfg' d1 z2 -> hist_wf z2 -> crash_image z2 d2 -> ~ gap_class d2 ->
  c_truncate cfg'' = true ->
  exists y, open_dir cfg'' d2 = OpenOk y /\ sys_ok y /\
            (forall ops res fin, run_ops y ops = (res, fin) -> ~ In ResPanic res).
Proof.
  intros cfg cfg' cfg'' d z1 d1 z2 d2 Hs Hch Hr1 Hw1 Hc1 Hg1 Hr2 Hw2 Hc2 Hg2 Ht.
  destruct (crash_image_chained_any cfg d z1 d1 Hs Hch Hr1 Hw1 Hc1 Hg1) as [Hs1 Hch1].
  eapply (C05_recovers_outside_known_from_any_marks cfg' cfg'' d1 z2 d2); eauto.
Qed.

Print Assumptions crash_image_chained_any.
Print Assumptions C05_recovers_again_any.
