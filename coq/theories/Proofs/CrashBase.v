(* C03/C05, part 0: definitions and small facts used by the L2 journal invariant.
   - the ghost journal [G] (list of chunk id, records) and its bytes [gbytes];
   - the logical content [logical2 z id] of a file in an L2 state: what is on disk plus
     what the pending micro-effects, the worker's batch remainder, the queue and
     [k_pending] will append to it;
   - disk lookup facts. *)
From Coq Require Import List NArith Bool Lia Arith Sorting.Sorted.
From Coq Require Import ZifyBool ZifyN ZifyNat.
From Coq.Strings Require Import Byte.
From RaftLog Require Import Base.Bytes Model.Types Model.Codec Model.Cache Model.Core
  Model.Recover Model.Run Model.Sys Spec.Durable.
From RaftLog Require Import Proofs.CodecFacts Proofs.NoPanic Proofs.JournalDisk Proofs.JournalChunk.
From RaftLog Require Proofs.AckFacts Proofs.AckDurable Proofs.RestartSim Proofs.RestartFacts.
Import ListNotations.
Local Open Scope N_scope.
Local Arguments N.add : simpl never.
Local Arguments N.sub : simpl never.
Local Arguments N.mul : simpl never.
Local Arguments N.eqb : simpl never.
Local Arguments N.ltb : simpl never.
Local Arguments N.leb : simpl never.
Local Arguments N.compare : simpl never.
Local Arguments N.of_nat : simpl never.
Local Arguments enc_record : simpl never.

Module RS := RestartSim.
Module RF := RestartFacts.
Module AD := AckDurable.
Module AF := AckFacts.

Notation jfile := (N * list record)%type (only parsing).

(* ------------------------------------------------------------------ prefixes *)
Definition bprefix (a b : bytes) : Prop := exists t, b = a ++ t.

Lemma bprefix_refl a : bprefix a a.
Proof. exists []. now rewrite app_nil_r. Qed.
Lemma bprefix_app a t : bprefix a (a ++ t).
Proof. exists t. reflexivity. Qed.
Lemma bprefix_trans a b c : bprefix a b -> bprefix b c -> bprefix a c.
Proof. intros [t ->] [u ->]. exists (t ++ u). now rewrite app_assoc. Qed.
Lemma bprefix_nil a : bprefix [] a.
Proof. exists a. reflexivity. Qed.
Lemma bprefix_app_l a b c : bprefix a b -> bprefix a (b ++ c).
Proof. intros [t ->]. exists (t ++ c). now rewrite app_assoc. Qed.
Lemma bprefix_length a b : bprefix a b -> (length a <= length b)%nat.
Proof. intros [t ->]. rewrite app_length. lia. Qed.
Lemma bprefix_firstn a b : bprefix a b -> a = firstn (length a) b.
Proof.
  intros [t ->]. rewrite firstn_app, Nat.sub_diag, firstn_all. simpl. now rewrite app_nil_r.
Qed.

(* ------------------------------------------------------------------ the ghost journal *)
Fixpoint glook (id : N) (G : list jfile) : option (list record) :=
  match G with
  | [] => None
  | g :: r => if N.eqb id (fst g) then Some (snd g) else glook id r
  end.

Definition gbytes (G : list jfile) (id : N) : bytes :=
  match glook id G with Some rs => encs rs | None => [] end.

Lemma glook_notin id G : ~ In id (map fst G) -> glook id G = None.
Proof.
  induction G as [|g G IH]; intros H; simpl; [reflexivity|].
  destruct (N.eqb_spec id (fst g)) as [E|E].
  - exfalso. apply H. left. now symmetry.
  - apply IH. intros Hin. apply H. now right.
Qed.

Lemma glook_app id A B :
  glook id (A ++ B) = match glook id A with Some x => Some x | None => glook id B end.
Proof.
  induction A as [|g A IH]; simpl; [reflexivity|].
  destruct (N.eqb id (fst g)); [reflexivity|exact IH].
Qed.

Lemma glook_In id G rs : glook id G = Some rs -> In (id, rs) G.
Proof.
  induction G as [|[i x] G IH]; simpl; [discriminate|].
  destruct (N.eqb_spec id i) as [E|E]; intros H.
  - inversion H; subst. now left.
  - right. now apply IH.
Qed.

Lemma glook_some_in id G rs : glook id G = Some rs -> In id (map fst G).
Proof. intros H. apply glook_In in H. apply (in_map fst) in H. exact H. Qed.

Lemma ss_nodup_app (A B : list N) x : StronglySorted N.lt (A ++ x :: B) -> ~ In x A /\ ~ In x B.
Proof.
  intros H. apply ss_app_inv in H. destruct H as (_ & H2 & H3). split.
  - intros Hin. specialize (H3 x x Hin (or_introl eq_refl)). lia.
  - apply ss_inv in H2. destruct H2 as [_ H2]. intros Hin. rewrite Forall_forall in H2.
    specialize (H2 _ Hin). lia.
Qed.

(* the last file of a sorted journal *)
Lemma glook_last G0 o rs : StronglySorted N.lt (map fst (G0 ++ [(o, rs)])) ->
  glook o (G0 ++ [(o, rs)]) = Some rs.
Proof.
  intros H. rewrite map_app in H. simpl in H. apply ss_nodup_app in H. destruct H as [H _].
  rewrite glook_app, (glook_notin _ _ H). simpl. now rewrite N.eqb_refl.
Qed.

Lemma glook_last_other G0 o rs rs' id : id <> o ->
  glook id (G0 ++ [(o, rs')]) = glook id (G0 ++ [(o, rs)]).
Proof.
  intros Hne. rewrite !glook_app. destruct (glook id G0); [reflexivity|].
  simpl. destruct (N.eqb_spec id o); [congruence|reflexivity].
Qed.

Lemma glook_snoc_other G g id : id <> fst g -> glook id (G ++ [g]) = glook id G.
Proof.
  intros Hne. rewrite glook_app. destruct (glook id G); [reflexivity|].
  simpl. destruct (N.eqb_spec id (fst g)); [congruence|reflexivity].
Qed.

Lemma glook_snoc_new G g : ~ In (fst g) (map fst G) -> glook (fst g) (G ++ [g]) = Some (snd g).
Proof.
  intros H. rewrite glook_app, (glook_notin _ _ H). simpl. now rewrite N.eqb_refl.
Qed.

(* every id of a sorted list ending in o is at most o *)
Lemma ss_last_max (l : list N) o x : StronglySorted N.lt (l ++ [o]) -> In x (l ++ [o]) -> x <= o.
Proof.
  intros H Hin. apply ss_app_inv in H. destruct H as (_ & _ & H).
  apply in_app_or in Hin. destruct Hin as [Hin|[<-|[]]]; [|lia].
  specialize (H x o Hin (or_introl eq_refl)). lia.
Qed.

(* ------------------------------------------------------------------ disk lookups *)
Definition data_of (d : disk) (id : N) : bytes :=
  match disk_get id d with Some f => f_data f | None => [] end.

Lemma disk_get_put i f d :
  disk_get i (disk_put f d) = if N.eqb i (f_id f) then Some f else disk_get i d.
Proof.
  induction d as [|g r IH]; simpl.
  - destruct (N.eqb i (f_id f)); reflexivity.
  - destruct (N.compare_spec (f_id f) (f_id g)) as [E|E|E]; simpl.
    + rewrite <- E. destruct (N.eqb i (f_id f)); reflexivity.
    + destruct (N.eqb i (f_id f)); reflexivity.
    + rewrite IH. destruct (N.eqb_spec i (f_id g)) as [E1|E1]; [|reflexivity].
      destruct (N.eqb_spec i (f_id f)); [lia|reflexivity].
Qed.

Lemma disk_get_remove_other i id d : i <> id -> disk_get i (disk_remove id d) = disk_get i d.
Proof.
  intros Hne. unfold disk_remove. induction d as [|g r IH]; simpl; [reflexivity|].
  destruct (N.eqb_spec id (f_id g)) as [E|E]; simpl.
  - destruct (N.eqb_spec i (f_id g)); [congruence|exact IH].
  - rewrite IH. reflexivity.
Qed.

Lemma disk_get_ids i d : disk_get i d <> None <-> In i (map f_id d).
Proof.
  induction d as [|g r IH]; simpl; [split; [congruence|tauto]|].
  destruct (N.eqb_spec i (f_id g)) as [E|E].
  - split; [intros _; left; now symmetry|discriminate].
  - rewrite IH. split; [tauto|]. intros [H|H]; [congruence|exact H].
Qed.

Lemma disk_get_none_ids i d : disk_get i d = None <-> ~ In i (map f_id d).
Proof.
  rewrite <- disk_get_ids. destruct (disk_get i d); split; try congruence; try tauto.
  intros H. exfalso. apply H. discriminate.
Qed.

Lemma disk_get_id i d f : disk_get i d = Some f -> f_id f = i.
Proof.
  induction d as [|g r IH]; simpl; [discriminate|].
  destruct (N.eqb_spec i (f_id g)) as [E|E]; intros H; [inversion H; subst; auto|auto].
Qed.

Lemma ids_put i f d : In i (map f_id (disk_put f d)) <-> i = f_id f \/ In i (map f_id d).
Proof.
  rewrite <- !disk_get_ids, disk_get_put.
  destruct (N.eqb_spec i (f_id f)) as [E|E]; split; intros H; auto; try discriminate.
  destruct H as [H|H]; [congruence|exact H].
Qed.

Lemma ids_append i id data d : In i (map f_id (disk_append id data d)) <-> In i (map f_id d).
Proof.
  unfold disk_append. destruct (disk_get id d) as [f|] eqn:E; [|reflexivity].
  rewrite ids_put. simpl. split; [|tauto]. intros [->|H]; [|exact H].
  apply disk_get_ids. congruence.
Qed.

Lemma ids_sync i id d : In i (map f_id (disk_sync id d)) <-> In i (map f_id d).
Proof.
  unfold disk_sync. destruct (disk_get id d) as [f|] eqn:E; [|reflexivity].
  rewrite ids_put. simpl. split; [|tauto]. intros [->|H]; [|exact H].
  apply disk_get_ids. congruence.
Qed.

Lemma ids_remove i id d : In i (map f_id (disk_remove id d)) <-> i <> id /\ In i (map f_id d).
Proof.
  unfold disk_remove. rewrite !in_map_iff. split.
  - intros (f & <- & Hf). apply filter_In in Hf. destruct Hf as [Hin Hne]. split.
    + intros E. rewrite E, N.eqb_refl in Hne. discriminate.
    + exists f. auto.
  - intros (Hne & f & <- & Hf). exists f. split; [reflexivity|]. apply filter_In. split; [exact Hf|].
    destruct (N.eqb_spec id (f_id f)); [congruence|reflexivity].
Qed.

Lemma data_of_append_same id data d : In id (map f_id d) ->
  data_of (disk_append id data d) id = data_of d id ++ data.
Proof.
  intros Hin. unfold data_of, disk_append. apply disk_get_ids in Hin.
  destruct (disk_get id d) as [f|] eqn:E; [|congruence].
  rewrite disk_get_put. simpl. now rewrite N.eqb_refl.
Qed.

Lemma data_of_append_other id data d i : i <> id ->
  data_of (disk_append id data d) i = data_of d i.
Proof.
  intros Hne. unfold data_of, disk_append. destruct (disk_get id d) as [f|] eqn:E; [|reflexivity].
  rewrite disk_get_put. simpl. destruct (N.eqb_spec i id); [congruence|reflexivity].
Qed.

Lemma data_of_append_absent id data d : ~ In id (map f_id d) -> disk_append id data d = d.
Proof.
  intros H. apply disk_get_none_ids in H. unfold disk_append. now rewrite H.
Qed.

Lemma data_of_sync id d i : data_of (disk_sync id d) i = data_of d i.
Proof.
  unfold data_of, disk_sync. destruct (disk_get id d) as [f|] eqn:E; [|reflexivity].
  rewrite disk_get_put. simpl. destruct (N.eqb_spec i id) as [->|]; [now rewrite E|reflexivity].
Qed.

Lemma data_of_remove_other id d i : i <> id -> data_of (disk_remove id d) i = data_of d i.
Proof. intros H. unfold data_of. now rewrite disk_get_remove_other. Qed.

Lemma data_of_create id d i : ~ In id (map f_id d) ->
  data_of (disk_put (mkFile id [] 0) d) i = data_of d i.
Proof.
  intros H. unfold data_of. rewrite disk_get_put. simpl.
  destruct (N.eqb_spec i id) as [->|]; [|reflexivity].
  apply disk_get_none_ids in H. now rewrite H.
Qed.

Lemma data_of_absent d i : ~ In i (map f_id d) -> data_of d i = [].
Proof. intros H. apply disk_get_none_ids in H. unfold data_of. now rewrite H. Qed.

Lemma data_of_in d f : disk_sorted d -> In f d -> data_of d (f_id f) = f_data f.
Proof.
  intros Hs Hin. destruct (in_split _ _ Hin) as (a & b & ->).
  unfold data_of. now rewrite AD.disk_get_mid.
Qed.

(* ------------------------------------------------------------------ pending bytes *)
Definition creates := AD.creates.

(* bytes that the stream of pending effects appends to file [id], when the worker's
   newest tracked file is [cur] *)
Fixpoint pw (cur : N) (l : list xeff) (id : N) : bytes :=
  match l with
  | [] => []
  | XCreate _ :: r => pw cur r id
  | XWriteHead i h :: r => (if N.eqb i id then h else []) ++ pw cur r id
  | XSend (WWrite _ data _) :: r => (if N.eqb cur id then data else []) ++ pw cur r id
  | XSend (WAppendFile off _) :: r => pw off r id
  | XSend (WRemove _) :: r => pw cur r id
  end.

(* the file tracked as newest after the stream *)
Fixpoint fcur (cur : N) (l : list xeff) : N :=
  match l with
  | [] => cur
  | XSend (WAppendFile off _) :: r => fcur off r
  | _ :: r => fcur cur r
  end.

Lemma pw_app c a b id : pw c (a ++ b) id = pw c a id ++ pw (fcur c a) b id.
Proof.
  revert c. induction a as [|x a IH]; intros c; simpl; [reflexivity|].
  destruct x as [i|i h|[u dta cb|off p|ids]]; simpl; rewrite ?IH, ?app_assoc; reflexivity.
Qed.

Lemma fcur_app c a b : fcur c (a ++ b) = fcur (fcur c a) b.
Proof.
  revert c. induction a as [|x a IH]; intros c; simpl; [reflexivity|].
  destruct x as [i|i h|[u dta cb|off p|ids]]; simpl; apply IH.
Qed.

Definition cur0 (z : sys2) : N := match newest (z_w z) with Some f => wf_id f | None => 0 end.

Definition pend (z : sys2) (id : N) : bytes :=
  pw (cur0 z) (AD.stream z) id ++
  (if N.eqb (fcur (cur0 z) (AD.stream z)) id then k_pending (z_core z) else []).

(* the logical content of file [id] in state [z] *)
Definition logical2 (z : sys2) (id : N) : bytes := data_of (z_disk z) id ++ pend z id.

(* ids that are, were, or will be the worker's newest file, and ids whose head record
   is still to be written by the caller; a head is written to a file that is none of
   these *)
Fixpoint hf (seen : list N) (l : list xeff) : Prop :=
  match l with
  | [] => True
  | XWriteHead id _ :: r => ~ In id seen /\ hf (id :: seen) r
  | XSend (WAppendFile off _) :: r => hf (off :: seen) r
  | _ :: r => hf seen r
  end.

Fixpoint seen_of (seen : list N) (l : list xeff) : list N :=
  match l with
  | [] => seen
  | XWriteHead id _ :: r => seen_of (id :: seen) r
  | XSend (WAppendFile off _) :: r => seen_of (off :: seen) r
  | _ :: r => seen_of seen r
  end.

Lemma hf_anti l : forall s s', hf s l -> incl s' s -> hf s' l.
Proof.
  induction l as [|x l IH]; intros s s' H Hi; simpl in *; [exact I|].
  destruct x as [i|i h|[u dta cb|off p|ids]]; simpl in *; try (eapply IH; eauto; fail).
  - destruct H as [H1 H2]. split; [intros Hx; apply H1, Hi, Hx|].
    eapply IH; [exact H2|]. intros y [->|Hy]; [now left|right; now apply Hi].
  - eapply IH; [exact H|]. intros y [->|Hy]; [now left|right; now apply Hi].
Qed.

Lemma hf_app l1 : forall s l2, hf s (l1 ++ l2) <-> hf s l1 /\ hf (seen_of s l1) l2.
Proof.
  induction l1 as [|x l1 IH]; intros s l2; simpl; [tauto|].
  destruct x as [i|i h|[u dta cb|off p|ids]]; simpl; rewrite ?IH; tauto.
Qed.

Lemma seen_of_app l1 : forall s l2, seen_of s (l1 ++ l2) = seen_of (seen_of s l1) l2.
Proof.
  induction l1 as [|x l1 IH]; intros s l2; simpl; [reflexivity|].
  destruct x as [i|i h|[u dta cb|off p|ids]]; simpl; apply IH.
Qed.

Lemma seen_of_incl l : forall s, incl s (seen_of s l).
Proof.
  induction l as [|x l IH]; intros s; simpl; [apply incl_refl|].
  destruct x as [i|i h|[u dta cb|off p|ids]]; simpl; try apply IH.
  - eapply incl_tran; [|apply IH]. apply incl_tl, incl_refl.
  - eapply incl_tran; [|apply IH]. apply incl_tl, incl_refl.
Qed.

Lemma seen_of_mono l : forall s s', incl s s' -> incl (seen_of s l) (seen_of s' l).
Proof.
  induction l as [|x l IH]; intros s s' H; simpl; [exact H|].
  destruct x as [i|i h|[u dta cb|off p|ids]]; simpl; try (apply IH; exact H).
  - apply IH. intros y [->|Hy]; [now left|right; now apply H].
  - apply IH. intros y [->|Hy]; [now left|right; now apply H].
Qed.

Lemma hf_remove_mid a : forall s x b, hf s (a ++ x :: b) -> hf s (a ++ b).
Proof.
  induction a as [|y a IH]; intros s x b H; simpl in *.
  - destruct x as [i|i h|[u dta cb|off p|ids]]; simpl in H; try exact H.
    + destruct H as [_ H]. eapply hf_anti; [exact H|]. apply incl_tl, incl_refl.
    + eapply hf_anti; [exact H|]. apply incl_tl, incl_refl.
  - destruct y as [i|i h|[u dta cb|off p|ids]]; simpl in *; try (eapply IH; eauto; fail).
    destruct H as [H1 H2]. split; [exact H1|]. eapply IH; eauto.
Qed.

Lemma fcur_seen l : forall c s, In c s -> In (fcur c l) (seen_of s l).
Proof.
  induction l as [|x l IH]; intros c s H; simpl; [exact H|].
  destruct x as [i|i h|[u dta cb|off p|ids]]; simpl; try (apply IH; exact H).
  - apply IH. now right.
  - apply IH. now left.
Qed.

(* the head of a file is the first thing appended to it *)
Lemma hf_head_notin a : forall s id h b, hf s (a ++ XWriteHead id h :: b) -> ~ In id (seen_of s a).
Proof.
  intros s id h b H. apply hf_app in H. destruct H as [_ H]. simpl in H. apply H.
Qed.

Lemma pw_no_target l : forall c s id, In c s -> ~ In id (seen_of s l) -> pw c l id = [].
Proof.
  induction l as [|x l IH]; intros c s id Hc Hn; simpl; [reflexivity|].
  destruct x as [i|i h|[u dta cb|off p|ids]]; simpl in *.
  - eapply IH; eauto.
  - destruct (N.eqb_spec i id) as [->|E].
    + exfalso. apply Hn. apply (seen_of_incl l (id :: s)). now left.
    + simpl. apply (IH c (i :: s)); [now right|exact Hn].
  - destruct (N.eqb_spec c id) as [->|E].
    + exfalso. apply Hn. apply (seen_of_incl l s). exact Hc.
    + simpl. eapply IH; eauto.
  - apply (IH off (off :: s)); [now left|exact Hn].
  - eapply IH; eauto.
Qed.

Lemma pw_head a : forall c s id h b, In c s -> hf s (a ++ XWriteHead id h :: b) ->
  pw c (a ++ XWriteHead id h :: b) id = h ++ pw c (a ++ b) id.
Proof.
  intros c s id h b Hc H. pose proof (hf_head_notin _ _ _ _ _ H) as Hn.
  rewrite !pw_app. rewrite (pw_no_target a c s id Hc Hn). simpl. now rewrite N.eqb_refl.
Qed.

Lemma pw_head_other a : forall c id h b i, i <> id ->
  pw c (a ++ XWriteHead id h :: b) i = pw c (a ++ b) i.
Proof.
  intros c id h b i Hne. rewrite !pw_app. simpl.
  destruct (N.eqb_spec id i); [congruence|reflexivity].
Qed.

Lemma fcur_drop a x b c : (forall off p, x <> XSend (WAppendFile off p)) ->
  fcur c (a ++ x :: b) = fcur c (a ++ b).
Proof.
  intros Hx. rewrite !fcur_app. destruct x as [i|i h|[u dta cb|off p|ids]]; simpl; try reflexivity.
  exfalso. eapply Hx. reflexivity.
Qed.

Lemma pw_create a c id b i : pw c (a ++ XCreate id :: b) i = pw c (a ++ b) i.
Proof. rewrite !pw_app. reflexivity. Qed.

(* heads still to be written *)
Fixpoint theads (t : list xeff) (id : N) : bytes :=
  match t with
  | XWriteHead i h :: r => (if N.eqb i id then h else []) ++ theads r id
  | _ :: r => theads r id
  | [] => []
  end.

Fixpoint hd_ids (t : list xeff) : list N :=
  match t with
  | XWriteHead i _ :: r => i :: hd_ids r
  | _ :: r => hd_ids r
  | [] => []
  end.

Lemma theads_app a b id : theads (a ++ b) id = theads a id ++ theads b id.
Proof.
  induction a as [|x a IH]; simpl; [reflexivity|].
  destruct x as [i|i h|r]; simpl; rewrite ?IH, ?app_assoc; reflexivity.
Qed.

Lemma theads_notin t id : ~ In id (hd_ids t) -> theads t id = [].
Proof.
  induction t as [|x t IH]; intros H; simpl; [reflexivity|].
  destruct x as [i|i h|r]; simpl in *; try (apply IH; exact H).
  destruct (N.eqb_spec i id) as [->|E]; [exfalso; apply H; now left|].
  simpl. apply IH. intros Hin. apply H. now right.
Qed.

Lemma hf_hd_ids l : forall s id, hf s l -> In id s -> ~ In id (hd_ids l).
Proof.
  induction l as [|x l IH]; intros s id H Hin; simpl; [tauto|].
  destruct x as [i|i h|[u dta cb|off p|ids]]; simpl in *; try (eapply IH; eauto; fail).
  - destruct H as [H1 H2]. intros [->|Hx]; [tauto|]. revert Hx. eapply IH; [exact H2|now right].
  - eapply IH; [exact H|now right].
Qed.

Lemma hd_ids_app a b : hd_ids (a ++ b) = hd_ids a ++ hd_ids b.
Proof.
  induction a as [|x a IH]; simpl; [reflexivity|]. destruct x as [i|i h|r]; simpl; now rewrite ?IH.
Qed.

Lemma hd_ids_sends q : hd_ids (map XSend q) = [].
Proof. induction q; simpl; auto. Qed.

Lemma creates_app a b : creates (a ++ b) = creates a ++ creates b.
Proof. unfold creates, AD.creates. now rewrite flat_map_app. Qed.

Lemma creates_sends q : creates (map XSend q) = [].
Proof. induction q; simpl; auto. Qed.

(* the shape of the effect list of a call: every create is followed by the write of
   the head record of the same file *)
Fixpoint paired (t : list xeff) : Prop :=
  match t with
  | [] => True
  | XCreate id :: r =>
    match r with
    | XWriteHead id' _ :: r' => id = id' /\ paired r'
    | _ => False
    end
  | XWriteHead _ _ :: _ => False
  | XSend _ :: r => paired r
  end.

Lemma paired_app_aux n : forall a b, (length a <= n)%nat -> paired a -> paired b -> paired (a ++ b).
Proof.
  induction n as [|n IH]; intros a b Hl Ha Hb.
  - destruct a; [exact Hb|simpl in Hl; lia].
  - destruct a as [|x a]; [exact Hb|].
    destruct x as [i|i h|r]; simpl in *.
    + destruct a as [|[i'|i' h'|r'] a']; try tauto. simpl. destruct Ha as [-> Ha]. split; [reflexivity|].
      apply IH; [simpl in Hl; lia|exact Ha|exact Hb].
    + tauto.
    + apply IH; [lia|exact Ha|exact Hb].
Qed.

Lemma paired_app a b : paired a -> paired b -> paired (a ++ b).
Proof. apply (paired_app_aux (length a)). lia. Qed.

Lemma paired_expand effs : paired (flat_map expand_eff effs).
Proof.
  induction effs as [|e effs IH]; simpl; [exact I|].
  destruct e as [id h|r]; simpl; auto.
Qed.

Lemma paired_hd_ids_aux n : forall t, (length t <= n)%nat -> paired t -> hd_ids t = creates t.
Proof.
  induction n as [|n IH]; intros t Hl H.
  - destruct t; [reflexivity|simpl in Hl; lia].
  - destruct t as [|x t]; [reflexivity|].
    destruct x as [i|i h|r]; simpl in *.
    + destruct t as [|[i'|i' h'|r'] t']; try tauto. destruct H as [-> H]. simpl.
      unfold creates, AD.creates. simpl. f_equal. apply IH; [simpl in Hl; lia|exact H].
    + tauto.
    + apply IH; [lia|exact H].
Qed.

Lemma paired_hd_ids t : paired t -> hd_ids t = creates t.
Proof. apply (paired_hd_ids_aux (length t)). lia. Qed.
