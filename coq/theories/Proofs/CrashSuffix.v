(* C03, part D.1 (no system here): replaying a SUFFIX of the journal.
   When older chunk files have been removed, recovery replays only the files that are
   left, starting from the empty state machine.  Every file starts with the snapshot of
   the Raft state, so the Raft state of the suffix replay equals that of the full
   replay; the index map of the suffix replay is the index map of the full replay
   restricted to the entries stored in the replayed files ([Rel]).  If, at the end, the
   purged id is at least the last log id recorded in the snapshot heading the first
   replayed file, no entry of the full replay lives in a skipped file and the two index
   maps are equal ([suffix_replay]). *)
From Coq Require Import List NArith Bool Lia Arith Sorting.Sorted.
From Coq.Strings Require Import Byte.
From RaftLog Require Import Base.Bytes Model.Types Model.Codec Model.Cache Model.Core
  Model.Recover Model.Run Spec.Spec Spec.Hist.
From RaftLog Require Import Proofs.CodecFacts Proofs.JournalChunk Proofs.OrderFacts Proofs.SmFacts
  Proofs.Refine.
From RaftLog Require Import Proofs.CrashSpec.
Import ListNotations.
Local Open Scope N_scope.
Local Arguments N.add : simpl never.
Local Arguments N.sub : simpl never.
Local Arguments N.mul : simpl never.
Local Arguments N.eqb : simpl never.
Local Arguments N.ltb : simpl never.
Local Arguments N.leb : simpl never.
Local Arguments N.compare : simpl never.
Local Arguments N.of_nat : simpl never.
Local Arguments enc_record : simpl never.

(* ------------------------------------------------------------------ the purged id never decreases *)
Lemma spec_step_purged sp w sp' : spec_step sp w = Some sp' ->
  opair_cmp (sp_purged sp) (sp_purged sp') <> Gt.
Proof.
  intros H. destruct w as [v|id p|i|u|id|u]; cbn [spec_step] in H.
  - destruct (ovote_accepts (sp_vote sp) v); inversion H; subst; apply opair_eq_le.
  - match type of H with (if ?c then _ else _) = _ => destruct c end; inversion H; subst; apply opair_eq_le.
  - match type of H with (if ?c then _ else _) = _ => destruct c end; inversion H; subst; apply opair_eq_le.
  - destruct (N.ltb (lid_index u) (next_index (sp_purged sp))).
    { inversion H; subst. apply opair_eq_le. }
    destruct (N.eqb (lid_index u) U64MAX); [discriminate|]. inversion H; subst. cbn [sp_purged].
    destruct (opair_ltb (sp_purged sp) (Some u)) eqn:E.
    + apply opair_lt_le. apply opair_ltb_lt. exact E.
    + apply opair_eq_le.
  - destruct (opair_leb (sp_committed sp) (Some id)); inversion H; subst; apply opair_eq_le.
  - inversion H; subst. apply opair_eq_le.
Qed.

Lemma spec_apply_purged sp w : opair_cmp (sp_purged sp) (sp_purged (spec_apply sp w)) <> Gt.
Proof.
  unfold spec_apply. destruct (spec_step sp w) as [sp'|] eqn:E.
  - eapply spec_step_purged; eauto.
  - apply opair_eq_le.
Qed.

Lemma run_recs_purged rs : forall sp, opair_cmp (sp_purged sp) (sp_purged (run_recs sp rs)) <> Gt.
Proof.
  induction rs as [|r rs IH]; intros sp; [apply opair_eq_le|].
  change (run_recs sp (r :: rs)) with (run_recs (spec_apply sp (sw_of r)) rs).
  eapply opair_le_trans; [apply spec_apply_purged|apply IH].
Qed.

(* ------------------------------------------------------------------ the relation *)
Record Rel (lo : N) (s t : sm) : Prop := mkRel {
  rel_rs : m_rs t = m_rs s;
  rel_log : m_log t = filter (RS.in_chunks lo) (m_log s) }.

(* an accepted append has the largest index *)
Lemma append_key_max s sp id p sp' : PL.R0 s sp -> spec_step sp (SEntry id p) = Some sp' ->
  forall e, In e (m_log s) -> fst e < lid_index id.
Proof.
  intros HR E e He. cbn [spec_step] in E.
  match type of E with (if ?c then _ else _) = _ => destruct c eqn:C end; [|discriminate].
  apply andb_true_iff in C. destruct C as [C _]. apply andb_true_iff in C. destruct C as [_ C2].
  destruct (PL.log_key_in0 s sp e HR He) as (b & Hb & Hk & _).
  destruct (PL.entry_le_last0 s sp b HR Hb) as (l & Hl & _ & Hi).
  rewrite Hl in C2. apply N.eqb_eq in C2. rewrite Hk, C2. lia.
Qed.

Lemma rel_step lo s t sp r sp' c seg :
  PL.R0 s sp -> rec_ok sp r -> spec_step sp (sw_of r) = Some sp' -> Rel lo s t -> lo <= c ->
  Rel lo (fst (sm_apply s r c seg)) (fst (sm_apply t r c seg)) /\
  snd (sm_apply t r c seg) = None.
Proof.
  intros HR Hok E [Hrs Hlog] Hlo.
  pose proof (rec_sim s sp r HR Hok) as HS. unfold PL.step_sim0 in HS. rewrite E in HS.
  destruct HS as (_ & Hv & _).
  assert (Hvt : rs_validate (m_rs t) r = None) by (rewrite Hrs; exact Hv).
  split; [|now apply sm_apply_snd].
  destruct r as [v|id p|id|o|u|st].
  - rewrite (sm_apply_vote s v c seg Hv), (sm_apply_vote t v c seg Hvt).
    constructor; cbn [m_rs m_log]; [now rewrite Hrs|exact Hlog].
  - rewrite (sm_apply_append s id p c seg Hv), (sm_apply_append t id p c seg Hvt).
    cbn [sw_of] in E.
    pose proof (append_key_max s sp id p sp' HR E) as F2.
    assert (F2t : forall e, In e (m_log t) -> fst e < lid_index id).
    { intros e He. rewrite Hlog in He. apply filter_In in He. apply F2, He. }
    rewrite (lm_insert_end _ _ _ F2), (lm_insert_end _ _ _ F2t).
    constructor; cbn [m_rs m_log]; [now rewrite Hrs|].
    rewrite filter_app, <- Hlog. cbn [filter].
    assert (El : RS.in_chunks lo (lid_index id, mkLD id c (fst seg) (snd seg)) = true).
    { unfold RS.in_chunks. cbn [snd ld_chunk]. apply N.leb_le; exact Hlo. }
    now rewrite El.
  - rewrite (sm_apply_commit s id c seg Hv), (sm_apply_commit t id c seg Hvt).
    constructor; cbn [m_rs m_log]; [now rewrite Hrs|exact Hlog].
  - rewrite !sm_apply_trunc. constructor; cbn [m_rs m_log]; [now rewrite Hrs|].
    unfold lm_keep_lt. rewrite Hlog. apply RS.filter_comm.
  - rewrite !sm_apply_purge. constructor; cbn [m_rs m_log]; [now rewrite Hrs|].
    unfold lm_keep_ge. rewrite Hlog. apply RS.filter_comm.
  - rewrite !sm_apply_state. constructor; cbn [m_rs m_log]; [reflexivity|exact Hlog].
Qed.

(* ------------------------------------------------------------------ records, one file, files *)
Lemma replay_rel lo : forall rs ends s t sp id start,
  lo <= id -> length ends = length rs -> PL.R0 s sp -> recs_ok sp rs -> Rel lo s t ->
  exists s1 t1, replay s id start rs ends = (s1, None) /\ replay t id start rs ends = (t1, None) /\
                PL.R0 s1 (run_recs sp rs) /\ Rel lo s1 t1.
Proof.
  induction rs as [|r rs IH]; intros ends s t sp id start Hlo Hl HR Hok HRel.
  - destruct ends; [|discriminate]. exists s, t.
    split; [reflexivity|]. split; [reflexivity|]. split; [exact HR|exact HRel].
  - destruct ends as [|e ends]; [discriminate|]. simpl in Hok.
    destruct Hok as (Hr & sp' & E & Hrest).
    pose proof (rec_sim s sp r HR Hr) as HS. unfold PL.step_sim0 in HS. rewrite E in HS.
    destruct HS as (_ & Hv & HR').
    destruct (rel_step lo s t sp r sp' id (start, e - start) HR Hr E HRel Hlo) as [HRel' Hnt].
    cbn [replay]. specialize (HR' id (start, e - start)).
    destruct (sm_apply s r id (start, e - start)) as [s2 oe] eqn:Ea.
    destruct (sm_apply_ok _ _ _ _ _ _ Hv Ea) as [-> _].
    destruct (sm_apply t r id (start, e - start)) as [t2 oet] eqn:Eat.
    cbn [fst snd] in *. subst oet.
    destruct (IH ends s2 t2 sp' id e Hlo) as (s1 & t1 & H1 & H2 & H3 & H4);
      [simpl in Hl; lia|exact HR'|exact Hrest|exact HRel'|].
    exists s1, t1. split; [exact H1|]. split; [exact H2|]. split; [|exact H4].
    change (run_recs sp (r :: rs)) with (run_recs (spec_apply sp (sw_of r)) rs).
    unfold spec_apply. now rewrite E.
Qed.

(* a file starts with the snapshot: only the index maps need to be related before it *)
Lemma chunk_rel lo s t sp id tl :
  lo <= id -> PL.R0 s sp -> recs_ok sp tl -> m_log t = filter (RS.in_chunks lo) (m_log s) ->
  exists s1 t1, RS.chunk_replay s (id, RState (spec_state sp) :: tl) = (s1, None) /\
                RS.chunk_replay t (id, RState (spec_state sp) :: tl) = (t1, None) /\
                PL.R0 s1 (run_recs sp tl) /\ Rel lo s1 t1.
Proof.
  intros Hlo HR Hok Hlog. unfold RS.chunk_replay. cbn [fst snd map ends_from replay].
  assert (Ea : forall u, sm_apply (RS.chunk_pre u) (RState (spec_state sp)) id
                 (id, id + rec_size (RState (spec_state sp)) - id) =
               (mkSM (spec_state sp) (m_log u)
                     (cache_set_evictable (m_cache u) (r_last (m_rs u))), None)) by reflexivity.
  rewrite !Ea.
  apply replay_rel; [exact Hlo|now rewrite RS.ends_from_length, map_length| |exact Hok|].
  - eapply PL.R0_same; [exact HR|reflexivity|reflexivity|reflexivity|reflexivity].
  - constructor; [reflexivity|exact Hlog].
Qed.

Lemma chunk_pre_log t : m_log (RS.chunk_pre t) = m_log t.
Proof. reflexivity. Qed.

Lemma files_rel lo : forall G s t sp,
  (forall x, In x (map fst G) -> lo <= x) -> PL.R0 s sp -> files_ok sp G -> Rel lo s t ->
  exists s1 t1, RS.replay_files s G = (s1, None) /\ RS.replay_files t G = (t1, None) /\
                PL.R0 s1 (run_recs sp (jrecs G)) /\ Rel lo s1 t1.
Proof.
  induction G as [|[id rs] G IH]; intros s t sp Hlo HR Hok HRel.
  - exists s, t. split; [reflexivity|]. split; [reflexivity|]. split; [exact HR|exact HRel].
  - simpl in Hok. destruct Hok as (tl & E & Hr & HG). subst rs.
    destruct (chunk_rel lo s t sp id tl (Hlo id (or_introl eq_refl)) HR Hr (rel_log _ _ _ HRel))
      as (s1 & t1 & E1 & E2 & HR1 & HRel1).
    cbn [RS.replay_files]. rewrite E1, E2.
    destruct (IH s1 t1 _ (fun x Hx => Hlo x (or_intror Hx)) HR1 HG HRel1) as (s2 & t2 & E3 & E4 & HR2 & HRel2).
    exists s2, t2. split; [exact E3|]. split; [exact E4|]. split; [|exact HRel2].
    unfold jrecs. cbn [flat_map snd List.tl]. fold (jrecs G). now rewrite run_recs_app.
Qed.

(* ------------------------------------------------------------------ where index-map entries are stored *)
Lemma replay_chunks : forall rs ends s id start s1 oe,
  replay s id start rs ends = (s1, oe) ->
  forall e, In e (m_log s1) -> In e (m_log s) \/ ld_chunk (snd e) = id.
Proof.
  induction rs as [|r rs IH]; intros ends s id start s1 oe H e He.
  - cbn [replay] in H. inversion H; subst. now left.
  - destruct ends as [|e0 ends]; [cbn [replay] in H; inversion H; subst; now left|].
    cbn [replay] in H.
    destruct (sm_apply s r id (start, e0 - start)) as [s2 [er|]] eqn:Ea.
    + inversion H; subst. pose proof (sm_apply_log s r id (start, e0 - start) e) as Hl.
      rewrite Ea in Hl. destruct (Hl He) as [Hi|(i & p & _ & ->)]; [now left|now right].
    + destruct (IH _ _ _ _ _ _ H e He) as [Hi|Hi]; [|now right].
      pose proof (sm_apply_log s r id (start, e0 - start) e) as Hl.
      rewrite Ea in Hl. destruct (Hl Hi) as [Hj|(i & p & _ & ->)]; [now left|now right].
Qed.

Lemma replay_files_chunks : forall G t t1 oe, RS.replay_files t G = (t1, oe) ->
  forall e, In e (m_log t1) -> In e (m_log t) \/ In (ld_chunk (snd e)) (map fst G).
Proof.
  induction G as [|g G IH]; intros t t1 oe H e He.
  - cbn [RS.replay_files] in H. inversion H; subst. now left.
  - cbn [RS.replay_files] in H. destruct (RS.chunk_replay t g) as [t2 [er|]] eqn:Ec.
    + inversion H; subst. unfold RS.chunk_replay in Ec.
      destruct (replay_chunks _ _ _ _ _ _ _ Ec e He) as [Hi|Hi]; [now left|right; now left].
    + destruct (IH _ _ _ H e He) as [Hi|Hi]; [|right; now right].
      unfold RS.chunk_replay in Ec.
      destruct (replay_chunks _ _ _ _ _ _ _ Ec e Hi) as [Hj|Hj]; [now left|right; now left].
Qed.

Lemma R0_new cfg : PL.R0 (sm_new cfg) spec0.
Proof. constructor; simpl; try reflexivity; [constructor|intros e []]. Qed.

Lemma filter_none {A} (p : A -> bool) l : (forall e, In e l -> p e = false) -> filter p l = [].
Proof.
  induction l as [|a l IH]; intros H; [reflexivity|]. cbn [filter].
  rewrite (H a (or_introl eq_refl)). apply IH. intros e He. apply H. now right.
Qed.

Lemma filter_all {A} (p : A -> bool) l : (forall e, In e l -> p e = true) -> filter p l = l.
Proof.
  induction l as [|a l IH]; intros H; [reflexivity|]. cbn [filter].
  rewrite (H a (or_introl eq_refl)). f_equal. apply IH. intros e He. apply H. now right.
Qed.

(* ------------------------------------------------------------------ the suffix replay *)
(* [A]: the files that have been removed; [(lo, rs0) :: P1]: the files replayed.  If the
   purged id at the end is at least the last log id at the end of [A], the replay of
   the suffix from the empty state machine yields the reference state of the whole
   journal. *)
Theorem suffix_replay cfg' A lo rs0 P1 s1 :
  files_ok spec0 (A ++ (lo, rs0) :: P1) ->
  (forall a, In a (map fst A) -> a < lo) ->
  (forall x, In x (map fst P1) -> lo <= x) ->
  RS.replay_files (sm_new cfg') ((lo, rs0) :: P1) = (s1, None) ->
  opair_cmp (sp_last (run_recs spec0 (jrecs A)))
            (sp_purged (run_recs spec0 (jrecs (A ++ (lo, rs0) :: P1)))) <> Gt ->
  PL.R0 s1 (run_recs spec0 (jrecs (A ++ (lo, rs0) :: P1))).
Proof.
  intros Hf HA HP Hrep Hpg.
  apply files_ok_app in Hf. destruct Hf as [HfA HfP].
  rewrite jrecs_app, run_recs_app in *.
  set (spA := run_recs spec0 (jrecs A)) in *.
  destruct (replay_files_spec A (sm_new cfg') spec0 (R0_new cfg') HfA) as (tA & EA & HRA).
  fold spA in HRA.
  assert (HchA : forall e, In e (m_log tA) -> ld_chunk (snd e) < lo).
  { intros e He. destruct (replay_files_chunks _ _ _ _ EA e He) as [[]|Hi]. now apply HA. }
  cbn [files_ok snd] in HfP. destruct HfP as (tl & E0 & Hr0 & HfP1). subst rs0.
  (* the first file, then the others *)
  assert (Hlog0 : m_log (sm_new cfg') = filter (RS.in_chunks lo) (m_log tA)).
  { cbn [sm_new m_log]. symmetry. apply filter_none. intros e He. unfold RS.in_chunks.
    apply N.leb_gt. now apply HchA. }
  destruct (chunk_rel lo tA (sm_new cfg') spA lo tl (N.le_refl _) HRA Hr0 Hlog0)
    as (s2 & t2 & E1 & E2 & HR2 & HRel2).
  destruct (files_rel lo P1 s2 t2 _ HP HR2 HfP1 HRel2) as (s3 & t3 & E3 & E4 & HR3 & HRel3).
  cbn [RS.replay_files] in Hrep. rewrite E2, E4 in Hrep. inversion Hrep; subst t3. clear Hrep.
  assert (Ej : jrecs ((lo, RState (spec_state spA) :: tl) :: P1) = tl ++ jrecs P1) by reflexivity.
  rewrite Ej, run_recs_app in *.
  set (sp := run_recs (run_recs spA tl) (jrecs P1)) in *.
  (* every entry of the full replay is stored in a replayed file *)
  assert (Hall : forall e, In e (m_log s3) -> RS.in_chunks lo e = true).
  { intros e He. unfold RS.in_chunks. apply N.leb_le.
    destruct (replay_files_chunks _ _ _ _ E3 e He) as [Hi|Hi]; [|now apply HP].
    unfold RS.chunk_replay in E1.
    destruct (replay_chunks _ _ _ _ _ _ _ E1 e Hi) as [Hj|Hj]; [|cbn [fst] in Hj; lia].
    exfalso. rewrite chunk_pre_log in Hj.
    pose proof (PL.R0_entry_le_last tA spA e HRA Hj) as H1.
    rewrite (PL.R0_rs _ _ HRA) in H1. cbn [spec_state r_last] in H1.
    destruct (PL.log_key_in0 s3 sp e HR3 He) as (b & Hb & _ & Hid).
    destruct (PL.R0_purged _ _ HR3 b Hb) as [H2 _]. rewrite <- Hid in H2.
    eapply opair_lt_not_ge; [exact H2|]. eapply opair_le_trans; [exact H1|exact Hpg]. }
  eapply PL.R0_same; [exact HR3|reflexivity|reflexivity| |].
  - rewrite (rel_log _ _ _ HRel3). now apply filter_all.
  - rewrite (rel_rs _ _ _ HRel3). apply (PL.R0_rs _ _ HR3).
Qed.

Print Assumptions suffix_replay.
