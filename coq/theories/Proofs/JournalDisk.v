(* Facts about the directory model of Model/Core.v (disk_get/put/append/sync/remove on
   id-sorted file lists) and about the sequential worker seen as a function on
   (disk, worker files).  Used by JournalFacts.v (property C11). *)
From Coq Require Import List NArith Lia Bool Arith Sorting.Sorted.
From Coq.Strings Require Import Byte.
From RaftLog Require Import Base.Bytes Model.Types Model.Codec Model.Cache Model.Core
  Model.Recover Model.Run.
Import ListNotations.
Local Open Scope N_scope.
Local Arguments N.add : simpl never.
Local Arguments N.sub : simpl never.
Local Arguments N.mul : simpl never.
Local Arguments N.eqb : simpl never.
Local Arguments N.ltb : simpl never.
Local Arguments N.leb : simpl never.
Local Arguments N.compare : simpl never.

Definition ids (d : disk) : list N := map f_id d.
Definition file_bytes (d : disk) (id : N) : bytes :=
  match disk_get id d with Some f => f_data f | None => [] end.
Definition dsorted (d : disk) : Prop := StronglySorted N.lt (ids d).

(* ------------------------------------------------------------------ sorted lists of N *)
Lemma ss_inv a l : StronglySorted N.lt (a :: l) -> StronglySorted N.lt l /\ Forall (N.lt a) l.
Proof. intros H. inversion H; subst. split; assumption. Qed.

Lemma ss_app_inv (l1 l2 : list N) : StronglySorted N.lt (l1 ++ l2) ->
  StronglySorted N.lt l1 /\ StronglySorted N.lt l2 /\
  (forall a b, In a l1 -> In b l2 -> a < b).
Proof.
  induction l1 as [|x l1 IH]; simpl; intros H.
  - split; [constructor|]. split; [assumption|]. intros a b [].
  - apply ss_inv in H as [H1 H2]. destruct (IH H1) as [Ha [Hb Hc]].
    apply Forall_app in H2 as [H2 H3].
    split; [constructor; assumption|]. split; [assumption|].
    intros a b [Ea|Ia] Ib.
    + subst a. rewrite Forall_forall in H3. apply H3. assumption.
    + apply Hc; assumption.
Qed.

Lemma ss_app (l1 l2 : list N) : StronglySorted N.lt l1 -> StronglySorted N.lt l2 ->
  (forall a b, In a l1 -> In b l2 -> a < b) -> StronglySorted N.lt (l1 ++ l2).
Proof.
  induction l1 as [|x l1 IH]; simpl; intros H1 H2 H3; [assumption|].
  apply ss_inv in H1 as [H1 H1'].
  constructor.
  - apply IH; try assumption. intros a b Ia Ib. apply H3; [right|]; assumption.
  - apply Forall_app. split; [assumption|].
    rewrite Forall_forall. intros b Ib. apply H3; [left; reflexivity|assumption].
Qed.

Lemma ss_NoDup (l : list N) : StronglySorted N.lt l -> NoDup l.
Proof.
  induction l as [|a l IH]; intros H; [constructor|].
  apply ss_inv in H as [H1 H2]. constructor; [|apply IH; assumption].
  intros I. rewrite Forall_forall in H2. specialize (H2 _ I). lia.
Qed.

Lemma ss_filter (p : N -> bool) (l : list N) :
  StronglySorted N.lt l -> StronglySorted N.lt (filter p l).
Proof.
  induction l as [|a l IH]; intros H; [constructor|].
  apply ss_inv in H as [H1 H2]. simpl. destruct (p a).
  - constructor; [apply IH; assumption|].
    rewrite Forall_forall in *. intros x Ix. apply filter_In in Ix as [Ix _]. auto.
  - apply IH; assumption.
Qed.

(* ------------------------------------------------------------------ disk_get *)
Lemma disk_get_id id d f : disk_get id d = Some f -> f_id f = id.
Proof.
  induction d as [|g r IH]; simpl; [discriminate|].
  destruct (N.eqb_spec id (f_id g)) as [E|E]; intros H.
  - inversion H; subst. reflexivity.
  - apply IH; assumption.
Qed.

Lemma disk_get_In id d f : disk_get id d = Some f -> In f d.
Proof.
  induction d as [|g r IH]; simpl; [discriminate|].
  destruct (N.eqb_spec id (f_id g)) as [E|E]; intros H.
  - inversion H; subst. left; reflexivity.
  - right. apply IH; assumption.
Qed.

Lemma disk_get_None id d : disk_get id d = None <-> ~ In id (ids d).
Proof.
  induction d as [|g r IH]; simpl.
  - split; [intros _ []|reflexivity].
  - destruct (N.eqb_spec id (f_id g)) as [E|E].
    + split; [discriminate|]. intros H. exfalso. apply H. left. symmetry; assumption.
    + rewrite IH. split.
      * intros H [H1|H1]; [apply E; symmetry; assumption|apply H; assumption].
      * intros H H1. apply H. right; assumption.
Qed.

Lemma disk_get_Some_In id d : In id (ids d) -> exists f, disk_get id d = Some f.
Proof.
  intros H. destruct (disk_get id d) as [f|] eqn:E; [eauto|].
  apply disk_get_None in E. contradiction.
Qed.

Lemma In_disk_get d f : dsorted d -> In f d -> disk_get (f_id f) d = Some f.
Proof.
  unfold dsorted, ids. induction d as [|g r IH]; simpl; intros S HI; [contradiction|].
  destruct HI as [E|I].
  - subst g. rewrite N.eqb_refl. reflexivity.
  - apply ss_inv in S as [S1 S2].
    destruct (N.eqb_spec (f_id f) (f_id g)) as [E|E].
    + rewrite Forall_forall in S2. specialize (S2 (f_id f) (in_map f_id _ _ I)). lia.
    + apply IH; assumption.
Qed.

Lemma file_bytes_not_in id d : ~ In id (ids d) -> file_bytes d id = [].
Proof. intros H. apply disk_get_None in H. unfold file_bytes. rewrite H. reflexivity. Qed.

(* two sorted directories with the same lookup function are equal *)
Lemma disk_ext d1 : forall d2, dsorted d1 -> dsorted d2 ->
  (forall j, disk_get j d1 = disk_get j d2) -> d1 = d2.
Proof.
  unfold dsorted, ids.
  induction d1 as [|f r1 IH]; intros [|g r2] S1 S2 H.
  - reflexivity.
  - specialize (H (f_id g)). simpl in H. rewrite N.eqb_refl in H. discriminate.
  - specialize (H (f_id f)). simpl in H. rewrite N.eqb_refl in H. discriminate.
  - simpl in S1, S2. apply ss_inv in S1 as [S1 F1]. apply ss_inv in S2 as [S2 F2].
    rewrite Forall_forall in F1, F2.
    assert (Efg : f = g).
    { pose proof (H (f_id f)) as Hf. pose proof (H (f_id g)) as Hg. simpl in Hf, Hg.
      rewrite N.eqb_refl in Hf. rewrite N.eqb_refl in Hg.
      destruct (N.eqb_spec (f_id f) (f_id g)) as [E|E].
      - inversion Hf; reflexivity.
      - destruct (N.eqb_spec (f_id g) (f_id f)) as [E'|E']; [exfalso; auto|].
        symmetry in Hf. apply disk_get_In in Hf. apply disk_get_In in Hg.
        pose proof (F2 _ (in_map f_id _ _ Hf)). pose proof (F1 _ (in_map f_id _ _ Hg)). lia. }
    subst g. f_equal. apply IH; try assumption.
    intros j. specialize (H j). simpl in H.
    destruct (N.eqb_spec j (f_id f)) as [E|E]; [|assumption].
    subst j.
    assert (N1 : disk_get (f_id f) r1 = None).
    { apply disk_get_None. intros I. specialize (F1 _ I). lia. }
    assert (N2 : disk_get (f_id f) r2 = None).
    { apply disk_get_None. intros I. specialize (F2 _ I). lia. }
    rewrite N1, N2. reflexivity.
Qed.

(* ------------------------------------------------------------------ disk_put *)
Lemma disk_get_put j f d :
  disk_get j (disk_put f d) = if N.eqb j (f_id f) then Some f else disk_get j d.
Proof.
  induction d as [|g r IH]; simpl.
  - reflexivity.
  - destruct (N.compare_spec (f_id f) (f_id g)) as [E|L|G]; simpl.
    + rewrite <- E. destruct (N.eqb j (f_id f)); reflexivity.
    + reflexivity.
    + rewrite IH. destruct (N.eqb_spec j (f_id g)) as [E1|E1];
        destruct (N.eqb_spec j (f_id f)) as [E2|E2]; try reflexivity. lia.
Qed.

Lemma In_ids_put j f d : In j (ids (disk_put f d)) <-> j = f_id f \/ In j (ids d).
Proof.
  unfold ids. induction d as [|g r IH]; simpl.
  - split; intros [H|H]; auto.
  - destruct (N.compare_spec (f_id f) (f_id g)) as [E|L|G]; simpl.
    + rewrite E. split; intros H; [destruct H; auto|]. destruct H as [H|[H|H]]; auto.
    + split; intros H; [destruct H as [H|[H|H]]; auto|]. destruct H as [H|[H|H]]; auto.
    + rewrite IH. split; intros H; [destruct H as [H|[H|H]]; auto|].
      destruct H as [H|[H|H]]; auto.
Qed.

Lemma dsorted_put f d : dsorted d -> dsorted (disk_put f d).
Proof.
  unfold dsorted. induction d as [|g r IH]; simpl; intros S.
  - repeat constructor.
  - destruct (N.compare_spec (f_id f) (f_id g)) as [E|L|G]; simpl.
    + unfold ids in *. simpl in *. rewrite E. assumption.
    + unfold ids in *. simpl in *. constructor; [assumption|].
      apply ss_inv in S as [S1 S2]. constructor; [assumption|].
      eapply Forall_impl; [|exact S2]. simpl. intros; lia.
    + unfold ids in S. simpl in S. apply ss_inv in S as [S1 S2].
      change (StronglySorted N.lt (f_id g :: ids (disk_put f r))).
      constructor; [apply IH; assumption|].
      rewrite Forall_forall in *. intros x Ix. apply In_ids_put in Ix as [Ix|Ix].
      * subst x. assumption.
      * apply S2. assumption.
Qed.

Lemma disk_put_last f d : Forall (fun j => j < f_id f) (ids d) -> disk_put f d = d ++ [f].
Proof.
  unfold ids. induction d as [|g r IH]; simpl; intros H; [reflexivity|].
  inversion H as [|? ? H1 H2]; subst.
  destruct (N.compare_spec (f_id f) (f_id g)) as [E|L|G]; try lia.
  rewrite IH by assumption. reflexivity.
Qed.

Lemma ids_put_existing g d : dsorted d -> In (f_id g) (ids d) -> ids (disk_put g d) = ids d.
Proof.
  unfold dsorted, ids. induction d as [|h r IH]; simpl; intros S I; [contradiction|].
  apply ss_inv in S as [S1 S2].
  destruct (N.compare_spec (f_id g) (f_id h)) as [E|L|G]; simpl.
  - rewrite E. reflexivity.
  - exfalso. destruct I as [I|I]; [lia|]. rewrite Forall_forall in S2. specialize (S2 _ I). lia.
  - f_equal. apply IH; [assumption|]. destruct I as [I|I]; [lia|assumption].
Qed.

Lemma fb_put f d j :
  file_bytes (disk_put f d) j = if N.eqb j (f_id f) then f_data f else file_bytes d j.
Proof. unfold file_bytes. rewrite disk_get_put. destruct (N.eqb j (f_id f)); reflexivity. Qed.

(* ------------------------------------------------------------------ disk_append, disk_sync *)
Lemma disk_get_append j i x d :
  disk_get j (disk_append i x d) =
  match disk_get i d with
  | Some g => if N.eqb j i then Some (mkFile i (f_data g ++ x) (f_synced g)) else disk_get j d
  | None => disk_get j d
  end.
Proof.
  unfold disk_append. destruct (disk_get i d) as [g|] eqn:E; [|reflexivity].
  rewrite disk_get_put. reflexivity.
Qed.

Lemma disk_get_sync j i d :
  disk_get j (disk_sync i d) =
  match disk_get i d with
  | Some g => if N.eqb j i then Some (mkFile i (f_data g) (N.of_nat (length (f_data g))))
              else disk_get j d
  | None => disk_get j d
  end.
Proof.
  unfold disk_sync. destruct (disk_get i d) as [g|] eqn:E; [|reflexivity].
  rewrite disk_get_put. reflexivity.
Qed.

Lemma ids_append i x d : dsorted d -> ids (disk_append i x d) = ids d.
Proof.
  intros S. unfold disk_append. destruct (disk_get i d) as [g|] eqn:E; [|reflexivity].
  apply ids_put_existing; [assumption|]. simpl.
  apply disk_get_In in E as I. apply disk_get_id in E. subst i. apply in_map. assumption.
Qed.

Lemma ids_sync i d : dsorted d -> ids (disk_sync i d) = ids d.
Proof.
  intros S. unfold disk_sync. destruct (disk_get i d) as [g|] eqn:E; [|reflexivity].
  apply ids_put_existing; [assumption|]. simpl.
  apply disk_get_In in E as I. apply disk_get_id in E. subst i. apply in_map. assumption.
Qed.

Lemma dsorted_append i x d : dsorted d -> dsorted (disk_append i x d).
Proof. intros S. unfold dsorted. rewrite ids_append; assumption. Qed.
Lemma dsorted_sync i d : dsorted d -> dsorted (disk_sync i d).
Proof. intros S. unfold dsorted. rewrite ids_sync; assumption. Qed.

Lemma fb_append_same i x d : In i (ids d) -> file_bytes (disk_append i x d) i = file_bytes d i ++ x.
Proof.
  intros I. apply disk_get_Some_In in I as [g E]. unfold file_bytes.
  rewrite disk_get_append, E, N.eqb_refl. reflexivity.
Qed.

Lemma fb_append_other i x d j : j <> i -> file_bytes (disk_append i x d) j = file_bytes d j.
Proof.
  intros Hne. unfold file_bytes. rewrite disk_get_append.
  destruct (disk_get i d); [|reflexivity].
  destruct (N.eqb_spec j i); [contradiction|reflexivity].
Qed.

Lemma fb_sync i d j : file_bytes (disk_sync i d) j = file_bytes d j.
Proof.
  unfold file_bytes. rewrite disk_get_sync.
  destruct (disk_get i d) as [g|] eqn:E; [|reflexivity].
  destruct (N.eqb_spec j i) as [E1|E1]; [|reflexivity].
  subst j. rewrite E. reflexivity.
Qed.

Lemma disk_append_nil i d : dsorted d -> disk_append i [] d = d.
Proof.
  intros S. apply disk_ext; [apply dsorted_append; assumption|assumption|].
  intros j. rewrite disk_get_append. destruct (disk_get i d) as [g|] eqn:E; [|reflexivity].
  destruct (N.eqb_spec j i) as [E1|E1]; [|reflexivity].
  subst j. rewrite E, app_nil_r. apply disk_get_id in E. subst i. destruct g; reflexivity.
Qed.

(* ------------------------------------------------------------------ disk_remove *)
Lemma disk_get_remove j i d :
  disk_get j (disk_remove i d) = if N.eqb j i then None else disk_get j d.
Proof.
  unfold disk_remove. induction d as [|g r IH]; simpl.
  - destruct (N.eqb j i); reflexivity.
  - destruct (N.eqb_spec i (f_id g)) as [E|E]; simpl.
    + rewrite IH. destruct (N.eqb_spec j i) as [E1|E1]; [reflexivity|].
      destruct (N.eqb_spec j (f_id g)) as [E2|E2]; [lia|reflexivity].
    + rewrite IH. destruct (N.eqb_spec j (f_id g)) as [E2|E2]; [|reflexivity].
      destruct (N.eqb_spec j i) as [E1|E1]; [lia|reflexivity].
Qed.

Lemma ids_remove i d : ids (disk_remove i d) = filter (fun j => negb (N.eqb i j)) (ids d).
Proof.
  unfold ids, disk_remove. induction d as [|g r IH]; simpl; [reflexivity|].
  destruct (N.eqb i (f_id g)); simpl; rewrite IH; reflexivity.
Qed.

Lemma dsorted_remove i d : dsorted d -> dsorted (disk_remove i d).
Proof. intros S. unfold dsorted. rewrite ids_remove. apply ss_filter. assumption. Qed.

Lemma fb_remove i d j : file_bytes (disk_remove i d) j = if N.eqb j i then [] else file_bytes d j.
Proof. unfold file_bytes. rewrite disk_get_remove. destruct (N.eqb j i); reflexivity. Qed.

Definition remove_all (rm : list N) (d : disk) : disk := fold_left (fun d i => disk_remove i d) rm d.

Lemma dsorted_remove_all rm : forall d, dsorted d -> dsorted (remove_all rm d).
Proof.
  unfold remove_all. induction rm as [|i rm IH]; simpl; intros d S; [assumption|].
  apply IH. apply dsorted_remove. assumption.
Qed.

Definition mem (i : N) (l : list N) : bool := existsb (N.eqb i) l.
Lemma mem_In i l : mem i l = true <-> In i l.
Proof.
  unfold mem. rewrite existsb_exists. split.
  - intros [x [Hx E]]. apply N.eqb_eq in E. subst x. assumption.
  - intros H. exists i. split; [assumption|apply N.eqb_refl].
Qed.

Lemma ids_remove_all rm : forall d,
  ids (remove_all rm d) = filter (fun j => negb (mem j rm)) (ids d).
Proof.
  unfold remove_all. induction rm as [|i rm IH]; simpl; intros d.
  - induction (ids d) as [|a l IHl]; simpl; [reflexivity|]. rewrite <- IHl. reflexivity.
  - rewrite IH, ids_remove. generalize (ids d) as l. intros l.
    induction l as [|a l IHl]; simpl; [reflexivity|].
    rewrite (N.eqb_sym a i). destruct (N.eqb i a); simpl; rewrite IHl; reflexivity.
Qed.

Lemma fb_remove_all rm : forall d j,
  file_bytes (remove_all rm d) j = if mem j rm then [] else file_bytes d j.
Proof.
  unfold remove_all. induction rm as [|i rm IH]; simpl; intros d j; [reflexivity|].
  rewrite IH, fb_remove. unfold mem. destruct (N.eqb j i); simpl;
    destruct (existsb (N.eqb j) rm); reflexivity.
Qed.

(* ------------------------------------------------------------------ commutation with disk_put *)
Lemma put_append_comm f i x d : dsorted d -> i <> f_id f ->
  disk_append i x (disk_put f d) = disk_put f (disk_append i x d).
Proof.
  intros S Hne. apply disk_ext.
  - apply dsorted_append, dsorted_put; assumption.
  - apply dsorted_put, dsorted_append; assumption.
  - intros j. rewrite disk_get_append, !disk_get_put, disk_get_append.
    destruct (N.eqb_spec i (f_id f)) as [E|_]; [contradiction|].
    destruct (disk_get i d) as [g|]; [|reflexivity].
    destruct (N.eqb_spec j i) as [E1|E1]; [|reflexivity].
    destruct (N.eqb_spec j (f_id f)) as [E2|E2]; [lia|reflexivity].
Qed.

Lemma put_sync_comm f i d : dsorted d -> i <> f_id f ->
  disk_sync i (disk_put f d) = disk_put f (disk_sync i d).
Proof.
  intros S Hne. apply disk_ext.
  - apply dsorted_sync, dsorted_put; assumption.
  - apply dsorted_put, dsorted_sync; assumption.
  - intros j. rewrite disk_get_sync, !disk_get_put, disk_get_sync.
    destruct (N.eqb_spec i (f_id f)) as [E|_]; [contradiction|].
    destruct (disk_get i d) as [g|]; [|reflexivity].
    destruct (N.eqb_spec j i) as [E1|E1]; [|reflexivity].
    destruct (N.eqb_spec j (f_id f)) as [E2|E2]; [lia|reflexivity].
Qed.

Lemma put_remove_comm f i d : dsorted d -> i <> f_id f ->
  disk_remove i (disk_put f d) = disk_put f (disk_remove i d).
Proof.
  intros S Hne. apply disk_ext.
  - apply dsorted_remove, dsorted_put; assumption.
  - apply dsorted_put, dsorted_remove; assumption.
  - intros j. rewrite disk_get_remove, !disk_get_put, disk_get_remove.
    destruct (N.eqb_spec j i) as [E1|E1]; [|reflexivity].
    destruct (N.eqb_spec j (f_id f)) as [E2|E2]; [lia|reflexivity].
Qed.

Definition sync_all (l : list wfile) (d : disk) : disk :=
  fold_left (fun d f => disk_sync (wf_id f) d) l d.

Lemma dsorted_sync_all l : forall d, dsorted d -> dsorted (sync_all l d).
Proof.
  unfold sync_all. induction l as [|g l IH]; simpl; intros d S; [assumption|].
  apply IH, dsorted_sync, S.
Qed.

Lemma ids_sync_all l : forall d, dsorted d -> ids (sync_all l d) = ids d.
Proof.
  unfold sync_all. induction l as [|g l IH]; simpl; intros d S; [reflexivity|].
  rewrite IH by (apply dsorted_sync; assumption). apply ids_sync; assumption.
Qed.

Lemma fb_sync_all l : forall d j, file_bytes (sync_all l d) j = file_bytes d j.
Proof.
  unfold sync_all. induction l as [|g l IH]; simpl; intros d j; [reflexivity|].
  rewrite IH. apply fb_sync.
Qed.

Lemma put_sync_all_comm f l : forall d, dsorted d -> ~ In (f_id f) (map wf_id l) ->
  sync_all l (disk_put f d) = disk_put f (sync_all l d).
Proof.
  unfold sync_all. induction l as [|g l IH]; simpl; intros d S H; [reflexivity|].
  rewrite put_sync_comm by (try assumption; intros E; apply H; left; assumption).
  apply IH; [apply dsorted_sync; assumption|]. intros I. apply H. right; assumption.
Qed.

Lemma put_remove_all_comm f rm : forall d, dsorted d -> ~ In (f_id f) rm ->
  remove_all rm (disk_put f d) = disk_put f (remove_all rm d).
Proof.
  unfold remove_all. induction rm as [|i rm IH]; simpl; intros d S H; [reflexivity|].
  rewrite put_remove_comm by (try assumption; intros E; apply H; left; assumption).
  apply IH; [apply dsorted_remove; assumption|]. intros I. apply H. right; assumption.
Qed.

(* ------------------------------------------------------------------ the worker on (disk, files) *)
Definition wstate := (disk * list wfile)%type.

Definition wstep (s : wstate) (r : wreq) : wstate :=
  match r with
  | WWrite _ data _ =>
    match rev (snd s) with
    | [] => s
    | newest :: older =>
      (disk_sync (wf_id newest) (sync_all (rev older) (disk_append (wf_id newest) data (fst s))),
       [newest])
    end
  | WAppendFile off prev => (fst s, snd s ++ [mkWF off prev])
  | WRemove rm => (remove_all rm (fst s), snd s)
  end.

Definition wproj (y : sys) : wstate := (y_disk y, y_files y).
Definition wrun (q : list wreq) (s : wstate) : wstate := fold_left wstep q s.
Definition wfinal (y : sys) : wstate := wrun (y_queue y) (wproj y).

Lemma worker_step_proj y r : wproj (worker_step y r) = wstep (wproj y) r.
Proof.
  unfold wproj. destruct r as [u data cb|off prev|rm]; simpl.
  - destruct (rev (y_files y)) as [|nw older]; reflexivity.
  - reflexivity.
  - reflexivity.
Qed.

Lemma fold_worker_step_proj q : forall y, wproj (fold_left worker_step q y) = wrun q (wproj y).
Proof.
  unfold wrun. induction q as [|r q IH]; intros y; simpl; [reflexivity|].
  rewrite IH, worker_step_proj. reflexivity.
Qed.

Lemma worker_idle_proj y : wproj (worker_idle y) = wfinal y.
Proof. unfold worker_idle, wfinal. rewrite fold_worker_step_proj. reflexivity. Qed.

Lemma worker_idle_disk y : y_disk (worker_idle y) = fst (wfinal y).
Proof. rewrite <- worker_idle_proj. reflexivity. Qed.
Lemma worker_idle_files y : y_files (worker_idle y) = snd (wfinal y).
Proof. rewrite <- worker_idle_proj. reflexivity. Qed.

Lemma fold_worker_step_queue q : forall y, y_queue (fold_left worker_step q y) = y_queue y.
Proof.
  induction q as [|r q IH]; intros y; simpl; [reflexivity|]. rewrite IH.
  destruct r as [u data cb|off prev|rm]; simpl; try reflexivity.
  destruct (rev (y_files y)); reflexivity.
Qed.

Lemma worker_idle_queue y : y_queue (worker_idle y) = [].
Proof. unfold worker_idle. rewrite fold_worker_step_queue. reflexivity. Qed.

(* the parts of the caller state that the worker never touches *)
Definition core_eqj (k k' : core) : Prop :=
  k_cfg k' = k_cfg k /\ k_open k' = k_open k /\ k_pending k' = k_pending k /\
  k_closed k' = k_closed k /\ k_removed k' = k_removed k /\
  m_rs (k_sm k') = m_rs (k_sm k) /\ m_log (k_sm k') = m_log (k_sm k).

Lemma core_eqj_refl k : core_eqj k k.
Proof. repeat split. Qed.
Lemma core_eqj_trans k1 k2 k3 : core_eqj k1 k2 -> core_eqj k2 k3 -> core_eqj k1 k3.
Proof.
  unfold core_eqj. intros (a1&a2&a3&a4&a5&a6&a7) (b1&b2&b3&b4&b5&b6&b7).
  repeat split; congruence.
Qed.
Lemma core_eqj_cache k c : core_eqj k (core_with_cache k c).
Proof. repeat split. Qed.

Lemma worker_step_core y r : core_eqj (y_core y) (y_core (worker_step y r)).
Proof.
  destruct r as [u data cb|off prev|rm]; simpl; try apply core_eqj_refl.
  destruct (rev (y_files y)); simpl; [apply core_eqj_refl|apply core_eqj_cache].
Qed.

Lemma fold_worker_step_core q : forall y, core_eqj (y_core y) (y_core (fold_left worker_step q y)).
Proof.
  induction q as [|r q IH]; intros y; simpl; [apply core_eqj_refl|].
  eapply core_eqj_trans; [apply worker_step_core|apply IH].
Qed.

Lemma worker_idle_core y : core_eqj (y_core y) (y_core (worker_idle y)).
Proof.
  unfold worker_idle.
  apply (fold_worker_step_core (y_queue y) (mkSys (y_core y) (y_disk y) [] (y_files y) (y_acks y))).
Qed.

(* sortedness is preserved by the worker *)
Lemma wstep_sorted s r : dsorted (fst s) -> dsorted (fst (wstep s r)).
Proof.
  intros S. destruct r as [u data cb|off prev|rm]; simpl.
  - destruct (rev (snd s)) as [|nw older]; [assumption|]. simpl.
    apply dsorted_sync, dsorted_sync_all, dsorted_append, S.
  - assumption.
  - apply dsorted_remove_all, S.
Qed.

Lemma wrun_sorted q : forall s, dsorted (fst s) -> dsorted (fst (wrun q s)).
Proof.
  unfold wrun. induction q as [|r q IH]; intros s S; simpl; [assumption|].
  apply IH, wstep_sorted, S.
Qed.

(* ids mentioned by the worker files and the queued requests *)
Definition req_ids (r : wreq) : list N :=
  match r with WWrite _ _ _ => [] | WAppendFile off _ => [off] | WRemove rm => rm end.
Definition mentioned (fs : list wfile) (q : list wreq) : list N :=
  map wf_id fs ++ flat_map req_ids q.

Lemma wstep_files_ids s r j :
  In j (map wf_id (snd (wstep s r))) -> In j (map wf_id (snd s)) \/ In j (req_ids r).
Proof.
  destruct r as [u data cb|off prev|rm]; simpl.
  - destruct (rev (snd s)) as [|nw older] eqn:E; [auto|]. simpl.
    intros [H|[]]. left. subst j. apply in_map. apply in_rev. rewrite E. left; reflexivity.
  - rewrite map_app, in_app_iff. simpl. tauto.
  - auto.
Qed.

(* a file created by the caller with an id that the worker does not mention can be
   moved past the whole queue *)
Lemma wstep_put_comm f d fs r : dsorted d ->
  ~ In (f_id f) (map wf_id fs ++ req_ids r) ->
  wstep (disk_put f d, fs) r = (disk_put f (fst (wstep (d, fs) r)), snd (wstep (d, fs) r)).
Proof.
  intros S H. rewrite in_app_iff in H.
  destruct r as [u data cb|off prev|rm]; simpl.
  - destruct (rev fs) as [|nw older] eqn:E; [reflexivity|]. simpl. f_equal.
    assert (Inw : In nw fs) by (apply in_rev; rewrite E; left; reflexivity).
    assert (Hnw : wf_id nw <> f_id f).
    { intros E1. apply H. left. rewrite <- E1. apply in_map. assumption. }
    rewrite put_append_comm by assumption.
    rewrite put_sync_all_comm.
    + rewrite put_sync_comm; [reflexivity| |assumption].
      apply dsorted_sync_all, dsorted_append, S.
    + apply dsorted_append, S.
    + intros I. apply H. left. apply in_map_iff in I as [g [Eg Ig]]. rewrite <- Eg.
      apply in_map. apply in_rev. rewrite E. right. apply in_rev. assumption.
  - reflexivity.
  - f_equal. apply put_remove_all_comm; [assumption|]. intros I. apply H. right. assumption.
Qed.

Lemma wrun_put_comm f q : forall d fs, dsorted d ->
  ~ In (f_id f) (mentioned fs q) ->
  wrun q (disk_put f d, fs) = (disk_put f (fst (wrun q (d, fs))), snd (wrun q (d, fs))).
Proof.
  unfold wrun, mentioned. induction q as [|r q IH]; intros d fs S H; simpl; [reflexivity|].
  simpl in H. rewrite !in_app_iff in H.
  rewrite wstep_put_comm; [|assumption|rewrite in_app_iff; tauto].
  destruct (wstep (d, fs) r) as [d1 fs1] eqn:E. simpl.
  apply IH.
  - change d1 with (fst (d1, fs1)). rewrite <- E. apply wstep_sorted. assumption.
  - rewrite in_app_iff. intros [I|I]; [|tauto].
    change fs1 with (snd (d1, fs1)) in I. rewrite <- E in I.
    apply wstep_files_ids in I. simpl in I. tauto.
Qed.

(* the worker only extends or removes files *)
Lemma wstep_extends s r j f g : dsorted (fst s) ->
  disk_get j (fst s) = Some f -> disk_get j (fst (wstep s r)) = Some g ->
  exists tl, f_data g = f_data f ++ tl.
Proof.
  intros S Hf Hg.
  assert (Hfb : forall d, disk_get j d = Some g -> file_bytes d j = f_data g).
  { intros d Hd. unfold file_bytes. rewrite Hd. reflexivity. }
  assert (Hff : file_bytes (fst s) j = f_data f) by (unfold file_bytes; rewrite Hf; reflexivity).
  destruct r as [u data cb|off prev|rm]; simpl in Hg.
  - destruct (rev (snd s)) as [|nw older].
    + rewrite Hf in Hg. inversion Hg. exists []. rewrite app_nil_r. reflexivity.
    + simpl in Hg. apply Hfb in Hg. rewrite fb_sync, fb_sync_all in Hg.
      destruct (N.eq_dec j (wf_id nw)) as [E|E].
      * subst j. rewrite fb_append_same in Hg.
        -- exists data. congruence.
        -- apply disk_get_In in Hf as I. apply disk_get_id in Hf. rewrite <- Hf.
           apply in_map. assumption.
      * rewrite fb_append_other in Hg by assumption. exists []. rewrite app_nil_r. congruence.
  - rewrite Hf in Hg. inversion Hg. exists []. rewrite app_nil_r. reflexivity.
  - pose proof (Hfb _ Hg) as Hg'. rewrite fb_remove_all in Hg'.
    destruct (mem j rm) eqn:E.
    + (* removed files are not found *)
      exfalso.
      assert (Hn : disk_get j (remove_all rm (fst s)) = None).
      { apply disk_get_None. rewrite ids_remove_all. intros I. apply filter_In in I as [_ I].
        rewrite E in I. discriminate. }
      congruence.
    + exists []. rewrite app_nil_r. congruence.
Qed.

Lemma wstep_get_back s r j g : dsorted (fst s) ->
  disk_get j (fst (wstep s r)) = Some g -> exists f, disk_get j (fst s) = Some f.
Proof.
  intros S Hg. apply disk_get_Some_In.
  assert (I : In j (ids (fst (wstep s r)))).
  { destruct (disk_get j (fst (wstep s r))) eqn:E; [|discriminate].
    destruct (in_dec N.eq_dec j (ids (fst (wstep s r)))) as [I|I]; [assumption|].
    apply disk_get_None in I. congruence. }
  clear Hg. destruct r as [u data cb|off prev|rm]; simpl in I.
  - destruct (rev (snd s)) as [|nw older]; [assumption|]. simpl in I.
    rewrite ids_sync in I by (apply dsorted_sync_all, dsorted_append, S).
    rewrite ids_sync_all in I by (apply dsorted_append, S).
    rewrite ids_append in I by assumption. assumption.
  - assumption.
  - rewrite ids_remove_all in I. apply filter_In in I as [I _]. assumption.
Qed.

Lemma wrun_extends q : forall s j f g, dsorted (fst s) ->
  disk_get j (fst s) = Some f -> disk_get j (fst (wrun q s)) = Some g ->
  exists tl, f_data g = f_data f ++ tl.
Proof.
  unfold wrun. induction q as [|r q IH]; intros s j f g S Hf Hg; simpl in Hg.
  - rewrite Hf in Hg. inversion Hg. exists []. rewrite app_nil_r. reflexivity.
  - destruct (disk_get j (fst (wstep s r))) as [h|] eqn:E.
    + destruct (wstep_extends s r j f h S Hf E) as [t1 E1].
      destruct (IH (wstep s r) j h g (wstep_sorted _ _ S) E Hg) as [t2 E2].
      exists (t1 ++ t2). rewrite E2, E1, app_assoc. reflexivity.
    + exfalso. (* once removed, never back *)
      clear IH Hf. revert E Hg. generalize (wstep_sorted s r S). generalize (wstep s r) as s1.
      induction q as [|r' q IHq]; intros s1 S1 E Hg; simpl in Hg; [congruence|].
      destruct (disk_get j (fst (wstep s1 r'))) as [h|] eqn:E'.
      * destruct (wstep_get_back s1 r' j h S1 E') as [f' Hf']. congruence.
      * apply (IHq (wstep s1 r') (wstep_sorted _ _ S1) E' Hg).
Qed.

(* view of a WWrite processed when the newest worker file is known *)
Lemma wstep_write older nw d u data cb : dsorted d ->
  let s' := wstep (d, older ++ [nw]) (WWrite u data cb) in
  snd s' = [nw] /\ ids (fst s') = ids d /\ dsorted (fst s') /\
  (In (wf_id nw) (ids d) -> file_bytes (fst s') (wf_id nw) = file_bytes d (wf_id nw) ++ data) /\
  (forall j, j <> wf_id nw -> file_bytes (fst s') j = file_bytes d j).
Proof.
  intros S. simpl. rewrite rev_app_distr. simpl.
  split; [reflexivity|].
  assert (S1 : dsorted (disk_append (wf_id nw) data d)) by (apply dsorted_append, S).
  assert (S2 : dsorted (sync_all (rev (rev older)) (disk_append (wf_id nw) data d)))
    by (apply dsorted_sync_all, S1).
  split; [|split; [|split]].
  - rewrite ids_sync by assumption. rewrite ids_sync_all by assumption. apply ids_append, S.
  - apply dsorted_sync, S2.
  - intros I. rewrite fb_sync, fb_sync_all. apply fb_append_same, I.
  - intros j Hj. rewrite fb_sync, fb_sync_all. apply fb_append_other, Hj.
Qed.
