(* C04 (part 1): flush acknowledgements on the L2 system.
   - generic tools: induction over runs, the disk operations of a step,
     a characterisation of what a write call does to the caller state;
   - C04_synced_le_written, C04_once_in_order, C04_exactly_once.
   The durability theorem C04_ack_after_sync is in AckDurable.v. *)
From Coq Require Import List NArith Bool Lia Arith Sorting.Sorted.
From Coq Require Import ZifyBool ZifyN ZifyNat.
From Coq.Strings Require Import Byte.
From RaftLog Require Import Base.Bytes Model.Types Model.Codec Model.Cache Model.Core
  Model.Recover Model.Run Model.Sys Spec.Durable.
From RaftLog Require Import Proofs.CodecFacts Proofs.NoPanic.
Import ListNotations.
Local Open Scope N_scope.
Arguments N.add : simpl never.
Arguments N.sub : simpl never.
Arguments N.mul : simpl never.
Arguments N.eqb : simpl never.
Arguments N.ltb : simpl never.
Arguments N.leb : simpl never.
Arguments N.compare : simpl never.
Arguments N.of_nat : simpl never.
Arguments N.to_nat : simpl never.

Notation blen b := (N.of_nat (length b)).

(* ------------------------------------------------------------------ runs *)
Lemma zrun_inv (P : sys2 -> Prop) :
  (forall z e z' v, P z -> zstep z e = Some (z', v) -> P z') ->
  forall es z0 z vis, P z0 -> zrun z0 es = Some (z, vis) -> P z.
Proof.
  intros Hstep es. induction es as [|e es IH]; intros z0 z vis H0 Hr; simpl in Hr.
  - inversion Hr; subst; exact H0.
  - destruct (zstep z0 e) as [[z1 v1]|] eqn:E; [|discriminate].
    destruct (zrun z1 es) as [[z2 v2]|] eqn:E2; [|discriminate].
    inversion Hr; subst. eapply IH; [|exact E2]. eapply Hstep; eauto.
Qed.

Lemma zrun_inv_ff (P : sys2 -> Prop) :
  (forall z e z' v, ev_fault_free e = true -> P z -> zstep z e = Some (z', v) -> P z') ->
  forall es z0 z vis, forallb ev_fault_free es = true -> P z0 -> zrun z0 es = Some (z, vis) -> P z.
Proof.
  intros Hstep es. induction es as [|e es IH]; intros z0 z vis Hff H0 Hr; simpl in Hr.
  - inversion Hr; subst; exact H0.
  - simpl in Hff. apply andb_true_iff in Hff. destruct Hff as [He Hff].
    destruct (zstep z0 e) as [[z1 v1]|] eqn:E; [|discriminate].
    destruct (zrun z1 es) as [[z2 v2]|] eqn:E2; [|discriminate].
    inversion Hr; subst. eapply IH; [exact Hff| |exact E2]. eapply Hstep; eauto.
Qed.

Definition head0 (cfg : config) : bytes := enc_record (RState (m_rs (sm_new cfg))).
Definition core0 (cfg : config) : core :=
  mkCore cfg (sm_new cfg) (ck_push (mkChunk 0 []) (blen (head0 cfg))) [] [] [] 0 0 0.
Definition zstart (cfg : config) : sys2 :=
  mkSys2 (core0 cfg) [] [mkFile 0 (head0 cfg) 0] [] (mkWorker [mkWF 0 None] true None false [])
         [] false (mkGhost [] [] [] [0]).

Lemma zinit_eq cfg : zinit cfg [] = Some (zstart cfg).
Proof. reflexivity. Qed.

Lemma zreach_ind (P : sys2 -> Prop) cfg :
  P (zstart cfg) ->
  (forall z e z' v, P z -> zstep z e = Some (z', v) -> P z') ->
  forall z, zreach cfg z -> P z.
Proof.
  intros H0 Hs z (z0 & es & vis & Hi & Hr). rewrite zinit_eq in Hi. inversion Hi; subst.
  eapply zrun_inv; eauto.
Qed.

Lemma zreach_ff_ind (P : sys2 -> Prop) cfg :
  P (zstart cfg) ->
  (forall z e z' v, ev_fault_free e = true -> P z -> zstep z e = Some (z', v) -> P z') ->
  forall z, zreach_ff cfg z -> P z.
Proof.
  intros H0 Hs z (z0 & es & vis & Hi & Hff & Hr). rewrite zinit_eq in Hi. inversion Hi; subst.
  eapply zrun_inv_ff; eauto.
Qed.

(* ------------------------------------------------------------------ case analysis of a step *)
Ltac dm H :=
  match type of H with
  | context [match ?x with _ => _ end] => destruct x eqn:?; try discriminate H
  end.
Ltac inv_step H := repeat dm H; inversion H; subst; clear H.

(* ------------------------------------------------------------------ what a step does to the disk *)
Inductive disk_op (d : disk) : disk -> Prop :=
| DSame : disk_op d d
| DCreate id : disk_op d (disk_put (mkFile id [] 0) d)
| DAppend id data : disk_op d (disk_append id data d)
| DSync id : disk_op d (disk_sync id d)
| DRemove id : disk_op d (disk_remove id d).

Lemma zstep_disk z e z' v : zstep z e = Some (z', v) -> disk_op (z_disk z) (z_disk z').
Proof.
  intros H. destruct e as [o| |k nf|ok|]; simpl in H.
  - unfold zcall in H. inv_step H; simpl; constructor.
  - unfold zeff in H. inv_step H; simpl; constructor.
  - unfold zrecv in H. inv_step H; simpl; constructor.
  - unfold zwork in H. inv_step H; simpl; constructor.
  - inv_step H; simpl; constructor.
Qed.

Lemma disk_get_In id d f : disk_get id d = Some f -> In f d /\ f_id f = id.
Proof.
  induction d as [|g r IH]; simpl; [discriminate|].
  destruct (N.eqb id (f_id g)) eqn:E; intros H.
  - inversion H; subst. split; [now left|]. symmetry. now apply N.eqb_eq.
  - destruct (IH H) as [Hin Hid]. split; [now right|exact Hid].
Qed.

Lemma disk_op_Forall (P : file -> Prop) d d' :
  (forall id, P (mkFile id [] 0)) ->
  (forall f data, P f -> P (mkFile (f_id f) (f_data f ++ data) (f_synced f))) ->
  (forall f, P f -> P (mkFile (f_id f) (f_data f) (blen (f_data f)))) ->
  disk_op d d' -> Forall P d -> Forall P d'.
Proof.
  intros Hc Ha Hs Hop Hd. destruct Hop as [|id|id data|id|id].
  - exact Hd.
  - apply disk_put_Forall; [apply Hc|exact Hd].
  - unfold disk_append. destruct (disk_get id d) as [f|] eqn:E; [|exact Hd].
    destruct (disk_get_In _ _ _ E) as [Hin Hid]. apply disk_put_Forall; [|exact Hd].
    rewrite <- Hid. apply Ha. rewrite Forall_forall in Hd. now apply Hd.
  - unfold disk_sync. destruct (disk_get id d) as [f|] eqn:E; [|exact Hd].
    destruct (disk_get_In _ _ _ E) as [Hin Hid]. apply disk_put_Forall; [|exact Hd].
    rewrite <- Hid. apply Hs. rewrite Forall_forall in Hd. now apply Hd.
  - unfold disk_remove. rewrite Forall_forall in *. intros f Hf. apply filter_In in Hf. now apply Hd.
Qed.

(* ------------------------------------------------------------------ C04: synced <= written *)
Definition synced_le (f : file) : Prop := (f_synced f <= blen (f_data f))%N.

Lemma synced_le_step d d' : disk_op d d' -> Forall synced_le d -> Forall synced_le d'.
Proof.
  apply disk_op_Forall; unfold synced_le; simpl.
  - intros _. lia.
  - intros f data H. rewrite app_length. lia.
  - intros f _. lia.
Qed.

Theorem C04_synced_le_written : forall cfg z, zreach cfg z ->
  Forall (fun f => (f_synced f <= N.of_nat (length (f_data f)))%N) (z_disk z).
Proof.
  intros cfg. apply (zreach_ind (fun z => Forall synced_le (z_disk z))).
  - simpl. constructor; [|constructor]. unfold synced_le; simpl. lia.
  - intros z e z' v Hz Hs. eapply synced_le_step; [eapply zstep_disk; eauto|exact Hz].
Qed.

(* ------------------------------------------------------------------ chunks *)
Lemma last_rev {A} (l : list A) d : last l d = match rev l with [] => d | e :: _ => e end.
Proof.
  destruct l as [|a l] using rev_ind; [reflexivity|].
  rewrite last_last, rev_unit. reflexivity.
Qed.

Lemma ck_end_push c n : ck_end (ck_push c n) = ck_end c + n.
Proof. unfold ck_end, ck_push; simpl. now rewrite last_last. Qed.

Lemma ck_id_push c n : ck_id (ck_push c n) = ck_id c.
Proof. reflexivity. Qed.

Lemma ck_last_segment_push c n : ck_last_segment (ck_push c n) = Ret (ck_end c, n).
Proof.
  unfold ck_last_segment, ck_push, ck_end; simpl. rewrite rev_unit.
  rewrite (last_rev (ck_ends c) (ck_id c)).
  destruct (rev (ck_ends c)) as [|e r]; f_equal; f_equal; lia.
Qed.

(* ------------------------------------------------------------------ what a write call does *)
(* one record journalled: nothing (refused), appended to the open chunk, or appended
   and the chunk rotated *)
Inductive aa_res (k : core) : core -> list eff -> Prop :=
| AASame : aa_res k k []
| AAPlain k' data :
    data <> [] ->
    k_open k' = ck_push (k_open k) (blen data) ->
    k_pending k' = k_pending k ++ data ->
    k_closed k' = k_closed k -> k_removed k' = k_removed k -> k_next_cb k' = k_next_cb k ->
    aa_res k k' []
| AARot k' data head prev st :
    data <> [] -> head <> [] ->
    k_open k' = ck_push (mkChunk (ck_end (k_open k) + blen data) []) (blen head) ->
    k_pending k' = [] ->
    k_closed k' = closed_insert (mkClosed (ck_push (k_open k) (blen data)) st false) (k_closed k) ->
    k_removed k' = k_removed k -> k_next_cb k' = k_next_cb k ->
    aa_res k k' [ECreate (ck_end (k_open k) + blen data) head;
                 ESend (WWrite (ck_end (k_open k) + blen data) (k_pending k ++ data) None);
                 ESend (WAppendFile (ck_end (k_open k) + blen data) prev)].

Lemma enc_record_nonnil r : enc_record r <> [].
Proof.
  intros E. pose proof (enc_record_min_len r) as H. rewrite E in H. simpl in H. lia.
Qed.

Lemma append_and_apply_inv k r k' w effs :
  append_and_apply k r = Ret (k', w, effs) -> aa_res k k' effs.
Proof.
  unfold append_and_apply. intros H.
  destruct (index_limit r); [inversion H; subst; constructor|].
  destruct (rs_validate (m_rs (k_sm k)) r); [inversion H; subst; constructor|].
  rewrite ck_last_segment_push in H.
  destruct (sm_apply (k_sm k) r (ck_id (ck_push (k_open k) (blen (enc_record r))))
                     (ck_end (k_open k), blen (enc_record r))) as [sm1 oe].
  destruct oe as [e|].
  - inversion H; subst. eapply AAPlain with (data := enc_record r); try reflexivity.
    apply enc_record_nonnil.
  - unfold try_close in H. cbn [k_cfg k_open k_pending k_sm k_closed k_removed k_hit k_miss k_next_cb] in H.
    destruct (is_full (k_cfg k) (ck_push (k_open k) (blen (enc_record r)))).
    + rewrite ck_last_segment_push in H.
      destruct (k_pending k ++ enc_record r) as [|b p] eqn:Ep.
      { apply app_eq_nil in Ep. destruct Ep as [_ Ep]. now apply enc_record_nonnil in Ep. }
      rewrite <- Ep in H. inversion H; subst. cbn [app fst snd].
      eapply AARot with (data := enc_record r); try reflexivity.
      * apply enc_record_nonnil.
      * apply enc_record_nonnil.
    + inversion H; subst. eapply AAPlain with (data := enc_record r); try reflexivity.
      apply enc_record_nonnil.
Qed.

Inductive aa_chain : core -> core -> list eff -> Prop :=
| ACNil k : aa_chain k k []
| ACCons k k1 k2 e1 e2 : aa_res k k1 e1 -> aa_chain k1 k2 e2 -> aa_chain k k2 (e1 ++ e2).

Lemma aa_chain_one k k' e : aa_res k k' e -> aa_chain k k' e.
Proof. intros H. rewrite <- (app_nil_r e). econstructor; [exact H|constructor]. Qed.

Lemma do_append_inv es : forall k acc effs0 k' w effs',
  do_append k es acc effs0 = Ret (k', w, effs') ->
  exists effs, effs' = effs0 ++ effs /\ aa_chain k k' effs.
Proof.
  induction es as [|[id p] es IH]; intros k acc effs0 k' w effs' H; simpl in H.
  - inversion H; subst. exists []. rewrite app_nil_r. split; [reflexivity|constructor].
  - destruct (append_and_apply k (RAppend id p)) as [[[k1 w1] ef]|] eqn:E; [|discriminate].
    apply append_and_apply_inv in E.
    destruct w1 as [o l|e].
    + apply IH in H. destruct H as (effs & -> & Hc). exists (ef ++ effs).
      rewrite app_assoc. split; [reflexivity|]. econstructor; eauto.
    + inversion H; subst. exists ef. split; [reflexivity|]. now apply aa_chain_one.
Qed.

Definition cids (l : list closed) : list N := map (fun c => ck_id (cl_chunk c)) l.

(* after the journalling: a purge moves a prefix of the closed chunks to removed *)
Definition post_purge (k1 k' : core) : Prop :=
  k_open k' = k_open k1 /\ k_pending k' = k_pending k1 /\ k_next_cb k' = k_next_cb k1 /\
  exists ids, k_removed k' = k_removed k1 ++ ids /\ cids (k_closed k1) = ids ++ cids (k_closed k').

Lemma post_purge_refl k : post_purge k k.
Proof. repeat split. exists []. now rewrite app_nil_r. Qed.

Lemma pop_obsolete_ids upto cl : forall ids rest,
  pop_obsolete upto cl = (ids, rest) -> cids cl = ids ++ cids rest.
Proof.
  induction cl as [|c r IH]; intros ids rest H; simpl in H.
  - inversion H; subst. reflexivity.
  - destruct (opair_ltb (Some upto) (r_last (cl_state c))).
    + inversion H; subst. reflexivity.
    + destruct (pop_obsolete upto r) as [ids1 rest1] eqn:E. inversion H; subst.
      simpl. f_equal. now apply IH.
Qed.

Lemma do_write_inv k w k' r effs :
  do_write k w = Ret (k', r, effs) ->
  exists k1, aa_chain k k1 effs /\ post_purge k1 k'.
Proof.
  intros H. destruct w as [v|es|i|upto|id|u|st]; simpl in H.
  - exists k'. split; [|apply post_purge_refl]. eapply aa_chain_one, append_and_apply_inv; eauto.
  - destruct (wal_last_segment k) as [w0|]; [|discriminate].
    apply do_append_inv in H. destruct H as (effs1 & -> & Hc). exists k'. split; [exact Hc|apply post_purge_refl].
  - destruct (N.eqb i (next_index (r_purged (m_rs (k_sm k))))).
    { exists k'. split; [|apply post_purge_refl]. eapply aa_chain_one, append_and_apply_inv; eauto. }
    destruct (N.eqb i 0).
    { inversion H; subst. exists k'. split; [constructor|apply post_purge_refl]. }
    destruct (lm_get_id k (i - 1)).
    + exists k'. split; [|apply post_purge_refl]. eapply aa_chain_one, append_and_apply_inv; eauto.
    + inversion H; subst. exists k'. split; [constructor|apply post_purge_refl].
  - destruct (N.ltb (lid_index upto) (next_index (r_purged (m_rs (k_sm k))))).
    { destruct (wal_last_segment k); [|discriminate]. inversion H; subst.
      exists k'. split; [constructor|apply post_purge_refl]. }
    destruct (append_and_apply k (RPurge upto)) as [[[k1 w1] ef]|] eqn:E; [|discriminate].
    apply append_and_apply_inv in E.
    destruct w1 as [o l|e].
    + destruct (pop_obsolete upto (k_closed k1)) as [ids rest] eqn:Ep. inversion H; subst.
      exists k1. split; [now apply aa_chain_one|].
      unfold post_purge; simpl. repeat split. exists ids. split; [reflexivity|].
      eapply pop_obsolete_ids; eauto.
    + inversion H; subst. exists k'. split; [now apply aa_chain_one|apply post_purge_refl].
  - exists k'. split; [|apply post_purge_refl]. eapply aa_chain_one, append_and_apply_inv; eauto.
  - exists k'. split; [|apply post_purge_refl]. eapply aa_chain_one, append_and_apply_inv; eauto.
  - exists k'. split; [|apply post_purge_refl]. eapply aa_chain_one, append_and_apply_inv; eauto.
Qed.

Lemma do_read_fields k d from to :
  let k' := fst (do_read k d from to) in
  k_open k' = k_open k /\ k_pending k' = k_pending k /\ k_closed k' = k_closed k /\
  k_removed k' = k_removed k /\ k_next_cb k' = k_next_cb k.
Proof.
  unfold do_read.
  destruct (read_items (m_cache (k_sm k)) (k_closed k) d
              (lm_range from (N.max to from) (m_log (k_sm k))) (k_hit k) (k_miss k)) as [[items h] ms].
  simpl. repeat split.
Qed.

(* ------------------------------------------------------------------ callbacks in flight *)
Definition cb_of_req (r : wreq) : list N := match r with WWrite _ _ (Some c) => [c] | _ => [] end.
Definition cb_of_ww (w : wwrite) : list N := match ww_cb w with Some c => [c] | None => [] end.
Definition cb_of_xeff (x : xeff) : list N := match x with XSend r => cb_of_req r | _ => [] end.

Definition batch_cbs (w : worker) : list N :=
  match w_batch w with
  | None => []
  | Some b =>
    match b_pos b with
    | BWrite _ | BSyncOld | BSetEvict | BSyncNew => flat_map cb_of_ww (b_writes b)
    | BCallbacks i => flat_map cb_of_ww (skipn i (b_writes b))
    | _ => []
    end
  end.

(* callbacks invoked, then those still to be invoked, in request order *)
Definition pend (z : sys2) : list N :=
  map fst (z_acks z) ++ batch_cbs (z_w z) ++ flat_map cb_of_req (z_queue z) ++ flat_map cb_of_xeff (z_todo z).

Definition req_of_ww (w : wwrite) : wreq := WWrite (ww_upto w) (ww_data w) (ww_cb w).

Lemma take_writes_spec k : forall q ws rest,
  take_writes k q = Some (ws, rest) -> q = map req_of_ww ws ++ rest.
Proof.
  induction k as [|k IH]; intros q ws rest H; simpl in H.
  - inversion H; subst. reflexivity.
  - destruct q as [|[upto data cb|off p|ids] q]; try discriminate.
    destruct (take_writes k q) as [[ws1 rest1]|] eqn:E; [|discriminate].
    inversion H; subst. simpl. unfold req_of_ww at 1; simpl. f_equal. now apply IH.
Qed.

Lemma cb_of_req_ww ws : flat_map cb_of_req (map req_of_ww ws) = flat_map cb_of_ww ws.
Proof. induction ws as [|w ws IH]; simpl; [reflexivity|]. now rewrite IH. Qed.

Lemma aa_res_nocb k k' effs : aa_res k k' effs ->
  k_next_cb k' = k_next_cb k /\ flat_map cb_of_xeff (flat_map expand_eff effs) = [].
Proof. intros H. destruct H; simpl; auto. Qed.

Lemma aa_chain_nocb k k' effs : aa_chain k k' effs ->
  k_next_cb k' = k_next_cb k /\ flat_map cb_of_xeff (flat_map expand_eff effs) = [].
Proof.
  induction 1 as [k|k k1 k2 e1 e2 H1 H2 IH]; [auto|].
  destruct (aa_res_nocb _ _ _ H1) as [Ha Hb]. destruct IH as [Hc Hd].
  split; [congruence|]. rewrite !flat_map_app, Hb, Hd. reflexivity.
Qed.

Lemma skipn_nth_cons {A} (l : list A) i x : nth_error l i = Some x -> skipn i l = x :: skipn (S i) l.
Proof.
  revert i. induction l as [|a l IH]; intros [|i] H; simpl in *; try discriminate.
  - now inversion H.
  - now apply IH.
Qed.

Lemma skipn_nth_none {A} (l : list A) i : nth_error l i = None -> skipn i l = [].
Proof. intros H. apply skipn_all2. now apply nth_error_None. Qed.

Definition pend_dead (z : sys2) : list N :=
  map fst (z_acks z) ++ flat_map cb_of_req (z_queue z) ++ flat_map cb_of_xeff (z_todo z).

Lemma pend_step z e z' v : zstep z e = Some (z', v) ->
  (pend z' = pend z /\ k_next_cb (z_core z') = k_next_cb (z_core z)) \/
  (pend z' = pend z ++ [k_next_cb (z_core z)] /\ k_next_cb (z_core z') = k_next_cb (z_core z) + 1) \/
  (e = ZWork false /\ pend z' = pend_dead z /\ k_next_cb (z_core z') = k_next_cb (z_core z)).
Proof.
  intros H. destruct e as [o| |k nf|ok|]; simpl in H.
  - unfold zcall in H.
    destruct (z_todo z) eqn:Et; [|discriminate]. destruct (z_dropped z); [discriminate|].
    destruct o as [w|cb|from to| | | | | |cfg'].
    + destruct (do_write (z_core z) w) as [[[k r] effs]|] eqn:E; [|discriminate].
      inversion H; subst; clear H. apply do_write_inv in E. destruct E as (k1 & Hc & Hp).
      apply aa_chain_nocb in Hc. destruct Hc as [Hn Hcb]. destruct Hp as (_ & _ & Hn' & _).
      left. unfold pend; simpl. rewrite Et, Hcb. simpl. split; [reflexivity|congruence].
    + unfold do_flush in H. destruct cb.
      * right; left. inversion H; subst; clear H. unfold pend; simpl. rewrite Et. simpl.
        split; [|reflexivity].
        destruct (k_removed (z_core z)); simpl; rewrite !app_nil_r, <- !app_assoc; reflexivity.
      * left. inversion H; subst; clear H. unfold pend; simpl. rewrite Et. simpl.
        split; [|reflexivity].
        destruct (k_removed (z_core z)); simpl; reflexivity.
    + pose proof (do_read_fields (z_core z) (z_disk z) from to) as Hf.
      destruct (do_read (z_core z) (z_disk z) from to) as [k items]. inversion H; subst; clear H.
      left. simpl in Hf. unfold pend; simpl. rewrite Et. split; [reflexivity|apply Hf].
    + inversion H; subst. left. auto.
    + inversion H; subst. left. auto.
    + inversion H; subst. left. auto.
    + inv_step H; left; auto.
    + inversion H; subst. left. unfold pend; simpl. auto.
    + discriminate.
  - unfold zeff in H. destruct (z_todo z) as [|[id|id data|r] t] eqn:Et; [discriminate| | |];
      inversion H; subst; clear H; left; unfold pend; simpl; rewrite Et; simpl; (split; [|reflexivity]).
    + reflexivity.
    + reflexivity.
    + rewrite flat_map_app. simpl. rewrite app_nil_r, <- !app_assoc. reflexivity.
  - unfold zrecv in H.
    destruct (w_alive (z_w z)); [|discriminate].
    destruct (w_batch (z_w z)) eqn:Eb; [discriminate|].
    destruct (z_queue z) as [|r q] eqn:Eq; [discriminate|].
    assert (Hb0 : batch_cbs (z_w z) = []) by (unfold batch_cbs; now rewrite Eb).
    destruct r as [upto data cb|off p|ids].
    + destruct (take_writes k q) as [[ws rest]|] eqn:Et; [|discriminate].
      apply take_writes_spec in Et. subst q.
      left. unfold pend. rewrite Hb0, Eq.
      destruct nf.
      * destruct rest as [|[u2 d2 c2|off p|ids] rest'']; try discriminate;
          inversion H; subst; clear H; simpl; (split; [|reflexivity]);
          unfold batch_cbs; simpl; rewrite !flat_map_app, cb_of_req_ww; simpl;
          unfold cb_of_ww at 1; simpl; destruct cb; simpl; rewrite <- ?app_assoc; reflexivity.
      * inversion H; subst; clear H; simpl; (split; [|reflexivity]).
        unfold batch_cbs; simpl; rewrite !flat_map_app, cb_of_req_ww; simpl.
        unfold cb_of_ww at 1; simpl; destruct cb; simpl; rewrite <- ?app_assoc; reflexivity.
    + destruct (Nat.eqb k 0 && negb nf); [|discriminate]. inversion H; subst; clear H.
      left. unfold pend. rewrite Hb0, Eq. simpl. split; reflexivity.
    + destruct (Nat.eqb k 0 && negb nf); [|discriminate]. inversion H; subst; clear H.
      left. unfold pend. rewrite Hb0, Eq. simpl. split; reflexivity.
  - unfold zwork in H.
    destruct (w_alive (z_w z)); [|discriminate].
    destruct (w_batch (z_w z)) as [b|] eqn:Eb; [|discriminate].
    assert (Hdead : forall z1, z_acks z1 = z_acks z -> z_queue z1 = z_queue z -> z_todo z1 = z_todo z ->
                    w_batch (z_w z1) = None -> pend z1 = pend_dead z).
    { intros z1 Ha Hq Ht Hb1. unfold pend, pend_dead, batch_cbs. rewrite Ha, Hq, Ht, Hb1. reflexivity. }
    destruct (b_pos b) eqn:Ep.
    + (* BWrite *)
      destruct (nth_error (b_writes b) i) as [ww|].
      * destruct (ww_data ww) eqn:Ed.
        { inversion H; subst; clear H. left. unfold pend, batch_cbs; simpl. rewrite Eb, Ep. auto. }
        destruct (newest (z_w z)); [|discriminate]. destruct ok; inversion H; subst; clear H.
        { left. unfold pend, batch_cbs; simpl. rewrite Eb, Ep. auto. }
        { right; right. split; [reflexivity|]. split; [|reflexivity]. apply Hdead; reflexivity. }
      * inversion H; subst; clear H. left. unfold pend, batch_cbs; simpl. rewrite Eb, Ep. auto.
    + (* BSyncOld *)
      destruct (w_files (z_w z)) as [|f [|g rest]]; try destruct ok; inversion H; subst; clear H;
        left; unfold pend, batch_cbs; simpl; rewrite Eb, Ep; auto.
    + destruct (w_files (z_w z)) as [|f rest]; [discriminate|]. inversion H; subst; clear H.
      left; unfold pend, batch_cbs; simpl; rewrite Eb, Ep; auto.
    + destruct (w_files (z_w z)) as [|f rest]; [discriminate|].
      destruct ok; inversion H; subst; clear H; left; unfold pend, batch_cbs; simpl; rewrite Eb, Ep; auto.
    + (* BCallbacks *)
      destruct (nth_error (b_writes b) i) as [ww|] eqn:En.
      * pose proof (skipn_nth_cons _ _ _ En) as Hsk.
        destruct (ww_cb ww) as [c|] eqn:Ec; inversion H; subst; clear H; left;
          unfold pend, batch_cbs; simpl; rewrite Eb, Ep, Hsk; simpl; unfold cb_of_ww at 2; rewrite Ec; simpl.
        { rewrite map_app. simpl. rewrite <- !app_assoc. simpl. auto. }
        { auto. }
      * pose proof (skipn_nth_none _ _ En) as Hsk. inversion H; subst; clear H. left.
        unfold pend, batch_cbs; simpl; rewrite Eb, Ep, Hsk. auto.
    + (* BPostponed *)
      destruct (w_sync_failed (z_w z)).
      { inversion H; subst; clear H. left; unfold pend, batch_cbs; simpl; rewrite Eb, Ep; auto. }
      destruct (w_postponed (z_w z)) as [|id rest].
      { inversion H; subst; clear H. left; unfold pend, batch_cbs; simpl; rewrite Eb, Ep; auto. }
      destruct ok; inversion H; subst; clear H.
      { left; unfold pend, batch_cbs; simpl; rewrite Eb, Ep; auto. }
      { right; right. split; [reflexivity|]. split; [|reflexivity]. apply Hdead; reflexivity. }
    + (* BNonFlush *)
      destruct (b_nf b) as [[u d c|off p|ids]|]; try discriminate.
      * inversion H; subst; clear H. left; unfold pend, batch_cbs; simpl; rewrite Eb, Ep; auto.
      * destruct (w_sync_failed (z_w z)); inversion H; subst; clear H;
          left; unfold pend, batch_cbs; simpl; rewrite Eb, Ep; auto.
      * inversion H; subst; clear H. left; unfold pend, batch_cbs; simpl; rewrite Eb, Ep; auto.
    + (* BUnlink *)
      destruct ids as [|id rest].
      { inversion H; subst; clear H. left; unfold pend, batch_cbs; simpl; rewrite Eb, Ep; auto. }
      destruct ok; inversion H; subst; clear H.
      { left; unfold pend, batch_cbs; simpl; rewrite Eb, Ep; auto. }
      { right; right. split; [reflexivity|]. split; [|reflexivity]. apply Hdead; reflexivity. }
    + inversion H; subst; clear H. left; unfold pend, batch_cbs; simpl; rewrite Eb, Ep; auto.
  - destruct (z_todo z) eqn:Et; [|discriminate]. inversion H; subst; clear H. left.
    unfold pend; simpl. rewrite Et. auto.
Qed.

(* ------------------------------------------------------------------ sorted lists of N *)
Lemma ss_app {A} (R : A -> A -> Prop) (a b : list A) :
  StronglySorted R (a ++ b) <->
  StronglySorted R a /\ StronglySorted R b /\ (forall x y, In x a -> In y b -> R x y).
Proof.
  induction a as [|x a IH]; simpl.
  - split.
    + intros H. split; [constructor|]. split; [exact H|]. intros x y [].
    + intros (_ & H & _). exact H.
  - split.
    + intros H. apply StronglySorted_inv in H. destruct H as [Hs Hf].
      apply IH in Hs. destruct Hs as (Ha & Hb & Hab). rewrite Forall_app in Hf. destruct Hf as [Hfa Hfb].
      split; [constructor; assumption|]. split; [exact Hb|].
      intros x0 y [->|Hx] Hy.
      * rewrite Forall_forall in Hfb. now apply Hfb.
      * now apply Hab.
    + intros (Ha & Hb & Hab). apply StronglySorted_inv in Ha. destruct Ha as [Ha Hfa].
      constructor.
      * apply IH. split; [exact Ha|]. split; [exact Hb|]. intros; apply Hab; auto.
      * rewrite Forall_app. split; [exact Hfa|]. rewrite Forall_forall. intros y Hy. apply Hab; auto.
Qed.

Lemma ss_drop_mid {A} (R : A -> A -> Prop) (a m c : list A) :
  StronglySorted R (a ++ m ++ c) -> StronglySorted R (a ++ c).
Proof.
  rewrite !ss_app. intros (Ha & (Hm & Hc & Hmc) & Hamc).
  split; [exact Ha|]. split; [exact Hc|]. intros x y Hx Hy. apply Hamc; [exact Hx|].
  apply in_or_app. now right.
Qed.

Lemma ss_strictly_increasing l : StronglySorted N.lt l -> strictly_increasing l.
Proof.
  induction l as [|a r IH]; intros H; simpl; [exact I|].
  apply StronglySorted_inv in H. destruct H as [Hs Hf]. split; [|now apply IH].
  destruct r as [|b r']; [exact I|]. now inversion Hf.
Qed.

(* strictly increasing and bounded by b *)
Definition incb (l : list N) (b : N) : Prop := StronglySorted N.lt l /\ Forall (fun x => x < b) l.

Lemma incb_snoc l b : incb l b -> incb (l ++ [b]) (b + 1).
Proof.
  intros [Hs Hf]. split.
  - apply ss_app. split; [exact Hs|]. split; [repeat constructor|].
    intros x y Hx [<-|[]]. rewrite Forall_forall in Hf. now apply Hf.
  - rewrite Forall_app. split.
    + eapply Forall_impl; [|exact Hf]. simpl. intros; lia.
    + repeat constructor. lia.
Qed.

Lemma incb_drop_mid a m c b : incb (a ++ m ++ c) b -> incb (a ++ c) b.
Proof.
  intros [Hs Hf]. split; [eapply ss_drop_mid; eauto|].
  rewrite !Forall_app in *. tauto.
Qed.

(* ------------------------------------------------------------------ C04: at most once, in order *)
Definition pend_ok (z : sys2) : Prop := incb (pend z) (k_next_cb (z_core z)).

Lemma pend_ok_init cfg : pend_ok (zstart cfg).
Proof. split; constructor. Qed.

Lemma pend_ok_step z e z' v : pend_ok z -> zstep z e = Some (z', v) -> pend_ok z'.
Proof.
  unfold pend_ok. intros Hz Hs. destruct (pend_step _ _ _ _ Hs) as [[Hp Hn]|[[Hp Hn]|(_ & Hp & Hn)]].
  - now rewrite Hp, Hn.
  - rewrite Hp, Hn. now apply incb_snoc.
  - rewrite Hp, Hn. unfold pend in Hz. unfold pend_dead. eapply incb_drop_mid; eauto.
Qed.

Lemma pend_ok_reach cfg z : zreach cfg z -> pend_ok z.
Proof.
  apply (zreach_ind pend_ok); [apply pend_ok_init|]. intros; eapply pend_ok_step; eauto.
Qed.

Theorem C04_once_in_order : forall cfg z, zreach cfg z -> acks_in_order z.
Proof.
  intros cfg z H. apply pend_ok_reach in H. destruct H as [Hs _].
  unfold pend in Hs. apply ss_app in Hs. destruct Hs as [Hs _].
  now apply ss_strictly_increasing.
Qed.

(* ------------------------------------------------------------------ C04: exactly once without failures *)
Definition pend_full (z : sys2) : Prop :=
  pend z = map N.of_nat (seq 0 (N.to_nat (k_next_cb (z_core z)))).

Lemma pend_full_step z e z' v :
  ev_fault_free e = true -> pend_full z -> zstep z e = Some (z', v) -> pend_full z'.
Proof.
  unfold pend_full. intros Hff Hz Hs.
  destruct (pend_step _ _ _ _ Hs) as [[Hp Hn]|[[Hp Hn]|(He & _)]].
  - now rewrite Hp, Hn.
  - rewrite Hp, Hn, Hz.
    replace (N.to_nat (k_next_cb (z_core z) + 1)) with (S (N.to_nat (k_next_cb (z_core z)))) by lia.
    rewrite seq_S, map_app. simpl. now rewrite N2Nat.id.
  - subst e. discriminate.
Qed.

Theorem C04_exactly_once : forall cfg z, zreach_ff cfg z -> worker_idle2 z -> acks_complete z.
Proof.
  intros cfg z H (Hq & Hb & Ht).
  assert (Hf : pend_full z).
  { clear Hq Hb Ht. revert z H. apply (zreach_ff_ind pend_full); [reflexivity|]. intros; eapply pend_full_step; eauto. }
  unfold pend_full, pend, batch_cbs in Hf. rewrite Hq, Hb, Ht in Hf. simpl in Hf.
  rewrite app_nil_r in Hf. exact Hf.
Qed.

Print Assumptions C04_synced_le_written.
Print Assumptions C04_once_in_order.
Print Assumptions C04_exactly_once.
