(* The L2 contracts (C04, C08, C14) for a store instance started by opening ANY
   directory that opens, not only the empty one: [zreach_from cfg d z].

   Hypotheses on the directory [d] (each theorem lists exactly what it uses):
   - [disk_sorted d]: the file names are pairwise different and listed in increasing
     order (what a directory listing sorted by chunk id is);
   - [Forall synced_le d]: no file claims more synced bytes than it has;
   - [older_synced d]: every file except the newest is completely synced. The newest
     file is tracked (and synced) by the new flush worker, older files never are, so
     without this a successful callback would not imply durability.
   open_dir itself checks that the files abut; everything else ([open_dir_shape] in
   RestartShape.v) follows. The step lemmas of AckFacts / AckDurable / PurgeFacts /
   PurgeDurable / PurgeDrain are reused unchanged; only the initial states are new. *)
From Coq Require Import List NArith Bool Lia Arith Sorting.Sorted.
From Coq Require Import ZifyBool ZifyN ZifyNat.
From Coq.Strings Require Import Byte.
From RaftLog Require Import Base.Bytes Model.Types Model.Codec Model.Cache Model.Core
  Model.Recover Model.Run Model.Sys Spec.Durable.
From RaftLog Require Import Proofs.CodecFacts Proofs.NoPanic Proofs.ScanFacts Proofs.RecoverFacts
  Proofs.AckFacts Proofs.RestartShape.
From RaftLog Require Proofs.AckDurable Proofs.JournalDisk Proofs.JournalChunk Proofs.PurgeFacts
  Proofs.PurgeDurable Proofs.PurgeDrain Proofs.RestartDrain.
Import ListNotations.
Local Open Scope N_scope.
Arguments N.add : simpl never.
Arguments N.sub : simpl never.
Arguments N.mul : simpl never.
Arguments N.eqb : simpl never.
Arguments N.ltb : simpl never.
Arguments N.leb : simpl never.
Arguments N.min : simpl never.
Arguments N.compare : simpl never.
Arguments N.of_nat : simpl never.
Arguments N.to_nat : simpl never.
Local Arguments enc_record : simpl never.

Module JD := JournalDisk.
Module JC := JournalChunk.
Module PF := PurgeFacts.
Module PD := PurgeDurable.

(* ================================================================== statements *)
Definition zreach_from (cfg : config) (d : disk) (z : sys2) : Prop :=
  exists z0 es vis, zinit cfg d = Some z0 /\ zrun z0 es = Some (z, vis).
Definition zreach_from_ff (cfg : config) (d : disk) (z : sys2) : Prop :=
  exists z0 es vis, zinit cfg d = Some z0 /\ forallb ev_fault_free es = true /\ zrun z0 es = Some (z, vis).

Definition older_synced (d : disk) : Prop :=
  Forall (fun f => f_synced f = N.of_nat (length (f_data f))) (removelast d).

Lemma zreach_from_nil cfg z : zreach_from cfg [] z <-> zreach cfg z.
Proof. reflexivity. Qed.

Lemma zreach_from_ff_reach cfg d z : zreach_from_ff cfg d z -> zreach_from cfg d z.
Proof. intros (z0 & es & vis & H0 & _ & Hr). exists z0, es, vis. auto. Qed.

Lemma zinit_inv cfg d z0 : zinit cfg d = Some z0 -> exists y, open_dir cfg d = OpenOk y /\ z0 = sys2_of y.
Proof.
  unfold zinit. destruct (open_dir cfg d) as [y|e d'] eqn:E; [|discriminate].
  intros H. inversion H. eauto.
Qed.

Lemma zreach_from_ind (P : sys2 -> Prop) cfg d :
  (forall y, open_dir cfg d = OpenOk y -> P (sys2_of y)) ->
  (forall z e z' v, P z -> zstep z e = Some (z', v) -> P z') ->
  forall z, zreach_from cfg d z -> P z.
Proof.
  intros H0 Hs z (z0 & es & vis & Hi & Hr). apply zinit_inv in Hi. destruct Hi as (y & Ho & ->).
  eapply zrun_inv; eauto.
Qed.

Lemma zreach_from_ff_ind (P : sys2 -> Prop) cfg d :
  (forall y, open_dir cfg d = OpenOk y -> P (sys2_of y)) ->
  (forall z e z' v, ev_fault_free e = true -> P z -> zstep z e = Some (z', v) -> P z') ->
  forall z, zreach_from_ff cfg d z -> P z.
Proof.
  intros H0 Hs z (z0 & es & vis & Hi & Hff & Hr). apply zinit_inv in Hi. destruct Hi as (y & Ho & ->).
  eapply zrun_inv_ff; eauto.
Qed.

(* ================================================================== what needs no hypothesis *)
Lemma open_dir_fresh cfg d y : open_dir cfg d = OpenOk y ->
  y_queue y = [] /\ y_acks y = [] /\ k_next_cb (y_core y) = 0.
Proof.
  rewrite open_dir_eq. unfold open_finish.
  destruct (open_loop cfg d (acc0 cfg d)) as [a|[e d']]; [|discriminate].
  destruct (reusable (oa_closed a)) as [[init lastc]|].
  - intros H. inversion H; subst. auto.
  - destruct (disk_get _ (oa_disk a)); [discriminate|]. intros H. inversion H; subst. auto.
Qed.

Lemma pend_from cfg d y : open_dir cfg d = OpenOk y -> pend (sys2_of y) = [].
Proof.
  intros H. destruct (open_dir_fresh _ _ _ H) as (Hq & Ha & _).
  unfold pend, sys2_of, batch_cbs. simpl. now rewrite Hq, Ha.
Qed.

Lemma pend_ok_from cfg d y : open_dir cfg d = OpenOk y -> pend_ok (sys2_of y).
Proof. intros H. unfold pend_ok. rewrite (pend_from _ _ _ H). split; constructor. Qed.

Theorem C04_once_in_order_from : forall cfg d z, zreach_from cfg d z -> acks_in_order z.
Proof.
  intros cfg d z H.
  assert (Hp : pend_ok z).
  { revert z H. apply (zreach_from_ind pend_ok).
    - intros y. apply pend_ok_from.
    - intros; eapply pend_ok_step; eauto. }
  destruct Hp as [Hs _]. unfold pend in Hs. apply ss_app in Hs. destruct Hs as [Hs _].
  now apply ss_strictly_increasing.
Qed.

Theorem C04_exactly_once_from : forall cfg d z,
  zreach_from_ff cfg d z -> worker_idle2 z -> acks_complete z.
Proof.
  intros cfg d z H (Hq & Hb & Ht).
  assert (Hf : pend_full z).
  { clear Hq Hb Ht. revert z H. apply (zreach_from_ff_ind pend_full).
    - intros y Ho. unfold pend_full. rewrite (pend_from _ _ _ Ho).
      destruct (open_dir_fresh _ _ _ Ho) as (_ & _ & Hn). simpl. rewrite Hn. reflexivity.
    - intros; eapply pend_full_step; eauto. }
  unfold pend_full, pend, batch_cbs in Hf. rewrite Hq, Hb, Ht in Hf. simpl in Hf.
  rewrite app_nil_r in Hf. exact Hf.
Qed.

Theorem C14_quiescent_from : forall cfg d z,
  zreach_from cfg d z -> z_dropped z = true -> worker_idle2 z -> quiesced z.
Proof.
  intros cfg d z _ Hd (Hq & Hb & Ht). split; [exact Hd|].
  intros e. destruct e as [o| |k nf|ok|]; cbn [zstep].
  - left. unfold zcall. rewrite Ht, Hd. reflexivity.
  - left. unfold zeff. rewrite Ht. reflexivity.
  - left. unfold zrecv. rewrite Hb, Hq. destruct (w_alive (z_w z)); reflexivity.
  - left. unfold zwork. rewrite Hb. destruct (w_alive (z_w z)); reflexivity.
  - right. rewrite Ht. eexists. split; reflexivity.
Qed.

(* ================================================================== C04: synced <= written *)
Lemma open_loop_synced_le cfg : forall files a a',
  open_loop cfg files a = inl a' -> Forall synced_le (oa_disk a) -> Forall synced_le (oa_disk a').
Proof.
  induction files as [|f rest IH]; intros a a' H Hd.
  - inversion H; subst. exact Hd.
  - rewrite open_loop_eq in H.
    destruct (gap_at a (f_id f)); [discriminate|].
    destruct (chunk_open cfg (f_id f) (f_data f)) as [oc|e]; [|discriminate]. cbv zeta in H.
    assert (Hd1 : Forall synced_le (trunc_disk (f_id f) oc (oa_disk a))).
    { unfold trunc_disk. destruct (oc_truncated oc); [|exact Hd].
      apply disk_put_Forall; [|exact Hd]. unfold synced_le. cbn [f_synced f_data]. lia. }
    destruct (ck_ends (oc_chunk oc)) as [|e0 el]; [destruct rest as [|g rest']|].
    + inversion H; subst a'. cbn [oa_disk]. unfold disk_remove.
      rewrite Forall_forall in *. intros x Hx. apply filter_In in Hx. now apply Hd1.
    + destruct (replay (sm_pre a) (f_id f) (f_id f) (oc_records oc) []) as [s1 [er|]]; [discriminate|].
      eapply IH in H; [exact H|exact Hd1].
    + assert (H' : match replay (sm_pre a) (f_id f) (f_id f) (oc_records oc) (e0 :: el) with
                   | (s1, Some er) => inr (er, trunc_disk (f_id f) oc (oa_disk a))
                   | (s1, None) =>
                     open_loop cfg rest
                       (mkOA s1 (closed_insert (mkClosed (oc_chunk oc) (m_rs s1) (oc_truncated oc)) (oa_closed a))
                             (Some (ck_end (oc_chunk oc))) (r_last (m_rs s1)) (trunc_disk (f_id f) oc (oa_disk a)))
                   end = inl a') by (destruct rest; exact H).
      clear H.
      destruct (replay (sm_pre a) (f_id f) (f_id f) (oc_records oc) (e0 :: el)) as [s1 [er|]]; [discriminate|].
      eapply IH in H'; [exact H'|exact Hd1].
Qed.

Lemma open_dir_synced_le cfg d y :
  open_dir cfg d = OpenOk y -> Forall synced_le d -> Forall synced_le (y_disk y).
Proof.
  rewrite open_dir_eq. unfold open_finish. intros H Hd.
  destruct (open_loop cfg d (acc0 cfg d)) as [a|[e d']] eqn:El; [|discriminate].
  apply open_loop_synced_le in El; [|exact Hd].
  destruct (reusable (oa_closed a)) as [[init lastc]|].
  - inversion H; subst. exact El.
  - destruct (disk_get _ (oa_disk a)); [discriminate|]. inversion H; subst. cbn [y_disk].
    apply disk_put_Forall; [|exact El]. unfold synced_le. cbn [f_synced f_data]. lia.
Qed.

Theorem C04_synced_le_written_from : forall cfg d z,
  Forall (fun f => (f_synced f <= N.of_nat (length (f_data f)))%N) d ->
  zreach_from cfg d z ->
  Forall (fun f => (f_synced f <= N.of_nat (length (f_data f)))%N) (z_disk z).
Proof.
  intros cfg d z Hd. revert z. apply (zreach_from_ind (fun z => Forall synced_le (z_disk z))).
  - intros y Ho. cbn [sys2_of z_disk]. eapply open_dir_synced_le; eauto.
  - intros z e z' v Hz Hs. eapply synced_le_step; [eapply zstep_disk; eauto|exact Hz].
Qed.

(* ================================================================== the initial state, in general *)
Lemma sorted_ids d : disk_sorted d -> StronglySorted N.lt (map f_id d).
Proof.
  induction 1 as [|f r Hr IH Hf]; cbn [map]; constructor; [exact IH|].
  rewrite Forall_map. exact Hf.
Qed.

Lemma opened_ids S y old fc : opened S y old fc ->
  map f_id (y_disk y) = cids (k_closed (y_core y)) ++ [ck_id (k_open (y_core y))].
Proof. intros O. rewrite (o_disk _ _ _ _ O), map_app, (o_closed _ _ _ _ O), <- (o_id _ _ _ _ O). reflexivity. Qed.

Lemma opened_ids_le S y old fc : opened S y old fc ->
  Forall (fun f => f_id f <= f_id fc) (y_disk y).
Proof.
  intros O. pose proof (o_sorted _ _ _ _ O) as Hs. rewrite (o_disk _ _ _ _ O) in *.
  apply AD.sorted_app_inv in Hs. destruct Hs as (_ & _ & Hlt).
  rewrite Forall_app. split.
  - rewrite Forall_forall. intros f Hf. specialize (Hlt f fc Hf (or_introl eq_refl)). lia.
  - constructor; [lia|constructor].
Qed.

(* ---- AckDurable ---- *)
Lemma binv_from y old fc : opened synced_le y old fc -> AD.binv (sys2_of y).
Proof.
  intros O. constructor; simpl.
  - apply (o_sorted _ _ _ _ O).
  - apply (o_le _ _ _ _ O).
  - constructor.
  - intros f c _ [].
  - rewrite <- (o_id _ _ _ _ O). eapply opened_ids_le; eauto.
  - constructor.
  - rewrite <- (o_id _ _ _ _ O), <- (o_end _ _ _ _ O). apply (o_pos _ _ _ _ O).
  - constructor.
  - intros U c [].
  - constructor.
Qed.

Lemma remL_from y old fc : opened synced_le y old fc -> AD.remL (sys2_of y) = map f_id (y_disk y).
Proof.
  intros O. unfold AD.remL, AD.remW, AD.unl, AD.stream_batch, AD.core_ids. simpl.
  rewrite (o_queue _ _ _ _ O), (o_removed _ _ _ _ O). simpl. symmetry. eapply opened_ids; eauto.
Qed.

Lemma linv_from y old fc : opened synced_le y old fc -> AD.linv (sys2_of y).
Proof.
  intros O. constructor.
  - rewrite (remL_from _ _ _ O). apply sorted_ids. apply (o_sorted _ _ _ _ O).
  - rewrite (remL_from _ _ _ O). intros f Hf. now apply in_map.
  - intros x [].
  - intros _. left. reflexivity.
  - intros H. now elim H.
Qed.

Lemma cinv_from y old fc : opened synced_le y old fc -> Forall full_synced old -> AD.cinv (sys2_of y).
Proof.
  intros O Hold. destruct (o_files _ _ _ _ O) as [pl Hfl].
  exists old, [], fc, [], true, (AD.mkWst (f_id fc) (fend fc) [] true).
  constructor; unfold AD.stream, AD.stream_batch, AD.claimed, AD.written, AD.single_phase, AD.unl; simpl;
    rewrite ?(o_queue _ _ _ _ O), ?Hfl; simpl; auto.
  - apply (o_disk _ _ _ _ O).
  - apply (o_contig _ _ _ _ O).
  - apply (o_id _ _ _ _ O).
  - rewrite (o_pending _ _ _ _ O), <- (o_end _ _ _ _ O). simpl. lia.
  - intros b i Hb. discriminate.
Qed.

Lemma full_from cfg d y old fc :
  open_dir cfg d = OpenOk y -> opened synced_le y old fc -> Forall full_synced old -> AD.full (sys2_of y).
Proof.
  intros Ho O Hold. destruct (open_dir_fresh _ _ _ Ho) as (Hq & Ha & _). constructor.
  - eapply binv_from; eauto.
  - eapply pend_ok_from; eauto.
  - unfold AD.finv, AD.inflight, AD.batch_writes. simpl. rewrite Hq. intros c u [].
  - intros c U n U' n' [].
  - intros c U n [].
  - intros _. split; [eapply linv_from; eauto|eapply cinv_from; eauto].
Qed.

Definition dir_wf (d : disk) : Prop := disk_sorted d /\ Forall synced_le d.

Lemma synced_le_full id data : synced_le (mkFile id data (N.of_nat (length data))).
Proof. unfold synced_le. cbn [f_synced f_data]. lia. Qed.
Lemma synced_le_zero id data : synced_le (mkFile id data 0).
Proof. unfold synced_le. cbn [f_synced f_data]. lia. Qed.

Lemma Forall_True {A} (l : list A) : Forall (fun _ => True) l.
Proof. induction l; constructor; auto. Qed.

Lemma opened_of cfg d y : open_dir cfg d = OpenOk y -> disk_sorted d ->
  exists old fc, opened (fun _ => True) y old fc.
Proof.
  intros Ho Hs.
  destruct (open_dir_shape (fun _ => True) (fun _ => True) (fun _ _ => I) (fun _ _ => I) (fun _ _ => I)
              cfg d y Ho Hs (Forall_True _) (Forall_True _)) as (old & fc & O & _).
  eauto.
Qed.

Lemma opened_of_synced cfg d y : open_dir cfg d = OpenOk y -> dir_wf d -> older_synced d ->
  exists old fc, opened synced_le y old fc /\ Forall full_synced old.
Proof.
  intros Ho [Hs Hle] Hold.
  apply (open_dir_shape full_synced synced_le (fun _ _ => eq_refl) synced_le_full synced_le_zero
           cfg d y Ho Hs Hle). exact Hold.
Qed.

Theorem C04_ack_after_sync_from : forall cfg d z,
  dir_wf d -> older_synced d -> zreach_from cfg d z -> acked_durable z.
Proof.
  intros cfg d z Hwf Hold H. apply AD.f_k. revert z H. apply (zreach_from_ind AD.full).
  - intros y Ho. destruct (opened_of_synced _ _ _ Ho Hwf Hold) as (old & fc & O & Hf).
    eapply full_from; eauto.
  - intros; eapply AD.full_step; eauto.
Qed.

(* ---- PurgeFacts ---- *)
Lemma inv_from S y old fc : opened S y old fc -> PF.Inv (sys2_of y).
Proof.
  intros O. pose proof (opened_ids _ _ _ _ O) as Hids.
  pose proof (sorted_ids _ (o_sorted _ _ _ _ O)) as Hsd.
  destruct (o_files _ _ _ _ O) as [pl Hfl].
  exists [], [], (JD.ids (y_disk y)).
  constructor; unfold sys2_of;
    cbn [z_core z_todo z_disk z_queue z_w z_acks z_dropped z_ghost g_created g_removals
         w_alive w_batch w_postponed w_sync_failed PF.todo_rm PF.todo_cr flat_map app].
  - split.
    + rewrite <- (o_id _ _ _ _ O), <- (o_end _ _ _ _ O). apply (o_pos _ _ _ _ O).
    + unfold PF.tail_ids. change (map PF.cid (k_closed (y_core y))) with (cids (k_closed (y_core y))).
      rewrite <- Hids. exact Hsd.
  - intros _. reflexivity.
  - rewrite (o_queue _ _ _ _ O), (o_removed _ _ _ _ O). reflexivity.
  - rewrite app_nil_r. unfold PF.tail_ids, JD.ids. exact Hids.
  - reflexivity.
  - rewrite app_nil_r. exact Hsd.
  - intros _. cbn [w_batch w_postponed]. left. reflexivity.
  - intros l U id [].
Qed.

Theorem C08_oldest_first_from : forall cfg d z, disk_sorted d -> zreach_from cfg d z -> files_contiguous z.
Proof.
  intros cfg d z Hwf H.
  assert (Hi : PF.Inv z).
  { revert z H. apply (zreach_from_ind PF.Inv).
    - intros y Ho. destruct (opened_of _ _ _ Ho Hwf) as (old & fc & O). eapply inv_from; eauto.
    - intros; eapply PF.inv_zstep; eauto. }
  destruct Hi as (gone & rmw & keep & Hc). exists gone, []. rewrite app_nil_r. apply Hc.
Qed.

Theorem C08_liveness_from : forall cfg d z,
  disk_sorted d -> zreach_from_ff cfg d z -> worker_idle2 z -> removals_done z.
Proof.
  intros cfg d z Hwf Hff (Hq & Hb & Ht).
  assert (Hi : PF.Inv z /\ PF.ffinv z).
  { revert z Hff Hq Hb Ht. intros z Hff _ _ _. revert z Hff.
    apply (zreach_from_ff_ind (fun z => PF.Inv z /\ PF.ffinv z)).
    - intros y Ho. destruct (opened_of _ _ _ Ho Hwf) as (old & fc & O).
      split; [eapply inv_from; eauto|repeat split].
    - intros z e z' v He [H1 H2] Hs. split; [eapply PF.inv_zstep; eauto|eapply PF.ff_zstep; eauto]. }
  destruct Hi as [(gone & rmw & keep & Hc) (Ha & Hs & Hp)].
  intros l U id Hin Hid. apply JD.disk_get_None.
  pose proof (PF.ci_alive _ _ _ _ Hc Ha) as Erm. unfold PF.w_rm in Erm. rewrite Hb, Hp in Erm. cbn [app] in Erm.
  destruct (PF.ci_removed _ _ _ _ Hc _ _ _ Hin Hid) as [G|G].
  - intros Hi. pose proof (PF.ci_sorted _ _ _ _ Hc) as S. rewrite Ht in S. cbn [PF.todo_cr flat_map] in S.
    rewrite app_nil_r in S. eapply PF.ss_disj; [exact S|exact G|exact Hi].
  - rewrite Erm, Hq, Ht in G. destruct G.
Qed.

(* ---- PurgeDurable ---- *)
Lemma dsorted_of d : disk_sorted d -> JD.dsorted d.
Proof. apply sorted_ids. Qed.

Lemma dur_ids_zero sy l : PD.dur_ids sy l 0.
Proof. induction l as [|i r IH]; cbn [PD.dur_ids]; [exact I|]. split; [lia|exact IH]. Qed.

Lemma old_ids_full sy ln T n : forall l, contig l ->
  (forall f, In f (removelast l) -> sy (f_id f) = N.of_nat (length (f_data f))) ->
  PD.old_ids sy ln T n (map f_id l).
Proof.
  induction l as [|f r IH]; intros Hc Hsy; [exact I|].
  cbn [map PD.old_ids]. destruct Hc as [Hc1 Hc2]. split.
  - destruct r as [|g r']; cbn [map]; [exact I|]. intros _ _. left.
    rewrite (Hsy f) by (left; reflexivity). unfold AD.fend in Hc1. lia.
  - apply IH; [exact Hc2|]. intros g Hg. apply Hsy.
    destruct r as [|g' r']; [destruct Hg|]. right. exact Hg.
Qed.

Lemma sinv_from y old fc : opened synced_le y old fc -> Forall full_synced old -> PD.sinv (sys2_of y) 0.
Proof.
  intros O Hold. destruct (o_files _ _ _ _ O) as [pl Hfl].
  pose proof (o_sorted _ _ _ _ O) as Hs. pose proof (dsorted_of _ Hs) as Hsd.
  assert (Hget : disk_get (f_id fc) (y_disk y) = Some fc).
  { rewrite (o_disk _ _ _ _ O) in *. apply AD.disk_get_mid. exact Hs. }
  pose proof (o_pos _ _ _ _ O) as Hpos. unfold AD.fend in Hpos.
  constructor; unfold sys2_of, PD.zG;
    cbn [z_core z_todo z_disk z_queue z_w z_acks z_dropped z_ghost g_created g_removals
         w_alive w_batch w_postponed w_sync_failed w_files PF.todo_rm PF.todo_cr flat_map app].
  - apply (o_le _ _ _ _ O).
  - intros l U [].
  - split; [lia|constructor].
  - intros _. constructor; unfold PD.zG;
      cbn [z_core z_todo z_disk z_queue z_w z_acks z_dropped z_ghost g_created g_removals
           w_alive w_batch w_postponed w_sync_failed w_files].
    + exists (mkWF (f_id fc) pl), (JC.blen (f_data fc)).
      constructor; unfold PD.zG, PD.stream, PD.w_stream, PD.accepted, PD.unlink_rem;
        cbn [z_core z_todo z_disk z_queue z_w z_acks z_dropped z_ghost g_created g_removals
             w_alive w_batch w_postponed w_sync_failed w_files wf_id app].
      * unfold newest. cbn [w_files]. rewrite Hfl. reflexivity.
      * unfold PD.hl. rewrite Hget. reflexivity.
      * unfold JC.blen. lia.
      * rewrite (o_queue _ _ _ _ O). cbn [map app PD.acct]. unfold PD.kfin_of, PD.kfin.
        rewrite (o_pending _ _ _ _ O), <- (o_id _ _ _ _ O), <- (o_end _ _ _ _ O).
        split; [reflexivity|]. split; [unfold AD.fend, JC.blen; cbn [length]; lia|].
        intros j Hj. unfold PD.hl. rewrite disk_get_none; [reflexivity|].
        pose proof (opened_ids_le _ _ _ _ O) as Hle. eapply Forall_impl; [|exact Hle].
        cbn beta. intros g Hg. lia.
      * lia.
      * constructor.
      * intros l U id [].
    + intros nf _. unfold JD.ids. rewrite (o_disk _ _ _ _ O) at 3. apply old_ids_full.
      * apply (o_contig _ _ _ _ O).
      * rewrite removelast_last. intros f Hf. unfold PD.fsy.
        rewrite (JD.In_disk_get _ _ Hsd).
        -- rewrite Forall_forall in Hold. apply Hold. exact Hf.
        -- rewrite (o_disk _ _ _ _ O). apply in_or_app. now left.
    + exact I.
    + intros _ _. unfold PD.durd. apply dur_ids_zero.
Qed.

Lemma dinv_from y old fc : opened synced_le y old fc -> Forall full_synced old -> PD.DInv (sys2_of y).
Proof. intros O Hold. split; [eapply inv_from; eauto|]. exists 0. now apply (sinv_from _ old fc). Qed.

Lemma zreach_from_DInv cfg d z : dir_wf d -> older_synced d -> zreach_from cfg d z -> PD.DInv z.
Proof.
  intros Hwf Hold. revert z. apply (zreach_from_ind PD.DInv).
  - intros y Ho. destruct (opened_of_synced _ _ _ Ho Hwf Hold) as (old & fc & O & Hf).
    eapply dinv_from; eauto.
  - intros; eapply PD.dinv_zstep; eauto.
Qed.

Theorem C08_removed_after_durable_from : forall cfg d z,
  dir_wf d -> older_synced d -> zreach_from cfg d z -> removed_after_durable z.
Proof.
  intros cfg d z Hwf Hold Hr.
  destruct (zreach_from_DInv _ _ _ Hwf Hold Hr) as ((gone & rmw & keep & Hc) & Lw & Hs).
  intros l U id Hin Hid Hnone.
  destruct (PD.s_u3 _ _ Hs _ _ Hin) as [[D _]|D].
  - apply PD.durable_upto_ids; [eapply PF.cinv_dsorted; exact Hc|exact D].
  - exfalso. apply JD.disk_get_None in Hnone. apply Hnone. apply D. exact Hid.
Qed.

(* ---- C14: the worker of a dropped store finishes (no hypothesis on the directory) ---- *)
Lemma open_dir_files cfg d y : open_dir cfg d = OpenOk y -> exists f, y_files y = [f].
Proof.
  rewrite open_dir_eq. unfold open_finish.
  destruct (open_loop cfg d (acc0 cfg d)) as [a|[e d']]; [|discriminate].
  destruct (reusable (oa_closed a)) as [[init lastc]|].
  - intros H. inversion H; subst. cbn [y_files]. eauto.
  - destruct (disk_get _ (oa_disk a)); [discriminate|]. intros H. inversion H; subst. cbn [y_files]. eauto.
Qed.

Lemma good0_from cfg d z : zreach_from cfg d z -> RestartDrain.Good0 z.
Proof.
  revert z. apply (zreach_from_ind RestartDrain.Good0).
  - intros y Ho. destruct (open_dir_files _ _ _ Ho) as [f Hf]. split; [|exact I].
    intros _. unfold sys2_of. cbn [z_w w_files]. rewrite Hf. split; [discriminate|exact I].
  - intros; eapply RestartDrain.good0_zstep; eauto.
Qed.

Theorem C14_drain_terminates_from : forall cfg d z,
  zreach_from cfg d z -> z_dropped z = true -> z_todo z = [] -> w_alive (z_w z) = true ->
  exists es z' vis, forallb ev_fault_free es = true /\ zrun z es = Some (z', vis) /\ worker_idle2 z'.
Proof.
  intros cfg d z Hr _ Ht Ha.
  eapply RestartDrain.drain_queue0; [apply le_n|eapply good0_from; eauto|exact Ha|exact Ht].
Qed.

Print Assumptions C04_synced_le_written_from.
Print Assumptions C04_once_in_order_from.
Print Assumptions C08_oldest_first_from.
Print Assumptions C08_removed_after_durable_from.
Print Assumptions C04_ack_after_sync_from.
Print Assumptions C14_quiescent_from.
Print Assumptions C08_liveness_from.
Print Assumptions C04_exactly_once_from.
Print Assumptions C14_drain_terminates_from.

(* ================================================================== non-vacuity *)
(* the directory left by a short run of a store with two records per chunk: two files,
   the older one completely synced, the newest (created by the rotation) not synced at all *)
Definition demo_cfg : config := mkConfig 10 1000 2 1000 true.
Definition demo_prefix : list zev :=
  [ZCall (OW (OVote (1, 2))); ZEff; ZEff; ZEff; ZEff; ZRecv 0 true;
   ZWork true; ZWork true; ZWork true; ZWork true; ZWork true; ZWork true; ZWork true; ZWork true;
   ZWork true; ZWork true].
Definition demo_dir : disk :=
  match zrun (zstart demo_cfg) demo_prefix with Some (z, _) => z_disk z | None => [] end.
Definition demo_events : list zev :=
  [ZCall (OFlush true); ZEff; ZRecv 0 false;
   ZWork true; ZWork true; ZWork true; ZWork true; ZWork true; ZWork true].

Example demo_dir_ok :
  length demo_dir = 2%nat /\ dir_wf demo_dir /\ older_synced demo_dir /\
  (exists z0, zinit demo_cfg demo_dir = Some z0) /\
  ~ Forall (fun f => f_synced f = N.of_nat (length (f_data f))) demo_dir.
Proof.
  split; [vm_compute; reflexivity|]. split; [|split; [|split]].
  - split.
    + vm_compute. repeat constructor.
    + vm_compute. repeat constructor; discriminate.
  - vm_compute. repeat constructor.
  - destruct (zinit demo_cfg demo_dir) as [z0|] eqn:E; [eauto|vm_compute in E; discriminate].
  - intros H. vm_compute in H. inversion H as [|? ? _ H2]; subst. inversion H2 as [|? ? H3 _]; subst. discriminate.
Qed.

Example demo_ack_reachable :
  exists z, zreach_from demo_cfg demo_dir z /\ In (0, true) (z_acks z).
Proof.
  destruct (zinit demo_cfg demo_dir) as [z0|] eqn:E0; [|vm_compute in E0; discriminate].
  destruct (zrun z0 demo_events) as [[z vis]|] eqn:E.
  - exists z. split; [exists z0, demo_events, vis; auto|].
    vm_compute in E0. inversion E0; subst z0; clear E0.
    vm_compute in E. inversion E; subst; clear E. now left.
  - vm_compute in E0. inversion E0; subst z0; clear E0. vm_compute in E. discriminate.
Qed.

(* ================================================================== the hypothesis is needed *)
(* the same directory with the older file not synced: the callback reports success although
   the bytes of the older file are not durable *)
Definition bad_dir : disk :=
  match demo_dir with f :: r => mkFile (f_id f) (f_data f) 0 :: r | [] => [] end.

Theorem older_synced_needed :
  exists z, dir_wf bad_dir /\ zreach_from demo_cfg bad_dir z /\ ~ acked_durable z.
Proof.
  destruct (zinit demo_cfg bad_dir) as [z0|] eqn:E0; [|vm_compute in E0; discriminate].
  destruct (zrun z0 demo_events) as [[z vis]|] eqn:E.
  - exists z. split; [|split; [exists z0, demo_events, vis; auto|]].
    + split; [vm_compute; repeat constructor|vm_compute; repeat constructor; discriminate].
    + vm_compute in E0. inversion E0; subst z0; clear E0.
      vm_compute in E. inversion E; subst; clear E.
      intros H. specialize (H 0 80 0%nat (or_introl eq_refl) (or_introl eq_refl)).
      vm_compute in H. destruct H as [H _]. apply H; reflexivity.
  - vm_compute in E0. inversion E0; subst z0; clear E0. vm_compute in E. discriminate.
Qed.
Print Assumptions demo_dir_ok.
Print Assumptions demo_ack_reachable.
Print Assumptions older_synced_needed.

(* the same for C08: three files, the middle one not synced. After the reopen a purge makes
   the oldest file obsolete; it is unlinked although the bytes of the middle file, which lie
   below the journal end of the flush that requested the removal, are not durable *)
Definition demo3_prefix : list zev :=
  [ZCall (OW (OAppend [((1, 0), [])])); ZEff; ZEff; ZEff; ZEff;
   ZRecv 0 false; ZWork true; ZWork true; ZWork true; ZWork true; ZWork true; ZWork true; ZWork true;
   ZWork true; ZWork true; ZWork true; ZRecv 0 false; ZWork true; ZWork true;
   ZCall (OW (OAppend [((1, 1), [])])); ZEff; ZEff; ZEff; ZEff;
   ZRecv 0 false; ZWork true; ZWork true; ZWork true; ZWork true; ZWork true; ZWork true; ZWork true;
   ZWork true; ZWork true; ZWork true; ZWork true; ZRecv 0 false; ZWork true; ZWork true].
Definition demo3_dir : disk :=
  match zrun (zstart demo_cfg) demo3_prefix with Some (z, _) => z_disk z | None => [] end.
Definition bad_dir3 : disk :=
  match demo3_dir with a :: b :: r => a :: mkFile (f_id b) (f_data b) 0 :: r | _ => [] end.
Definition purge_events : list zev :=
  [ZCall (OW (OPurge (1, 0))); ZEff; ZEff; ZEff; ZEff;
   ZRecv 0 false; ZWork true; ZWork true; ZWork true; ZWork true; ZWork true; ZWork true; ZWork true;
   ZWork true; ZWork true; ZWork true; ZRecv 0 false; ZWork true; ZWork true;
   ZCall (OFlush false); ZEff; ZEff;
   ZRecv 0 false; ZWork true; ZWork true; ZWork true; ZWork true; ZWork true; ZWork true; ZWork true;
   ZWork true; ZWork true; ZWork true; ZWork true; ZRecv 0 false; ZWork true; ZWork true; ZWork true; ZWork true].

Example demo3_dir_ok :
  length demo3_dir = 3%nat /\ dir_wf demo3_dir /\ older_synced demo3_dir /\
  exists z0, zinit demo_cfg demo3_dir = Some z0.
Proof.
  split; [vm_compute; reflexivity|]. split; [|split].
  - split.
    + vm_compute. repeat constructor.
    + vm_compute. repeat constructor; discriminate.
  - vm_compute. repeat constructor.
  - destruct (zinit demo_cfg demo3_dir) as [z0|] eqn:E; [eauto|vm_compute in E; discriminate].
Qed.

Theorem older_synced_needed_C08 :
  exists z, dir_wf bad_dir3 /\ zreach_from demo_cfg bad_dir3 z /\ ~ removed_after_durable z.
Proof.
  destruct (zinit demo_cfg bad_dir3) as [z0|] eqn:E0; [|vm_compute in E0; discriminate].
  destruct (zrun z0 purge_events) as [[z vis]|] eqn:E.
  - exists z. split; [|split; [exists z0, purge_events, vis; auto|]].
    + split; [vm_compute; repeat constructor|vm_compute; repeat constructor; discriminate].
    + vm_compute in E0. inversion E0; subst z0; clear E0.
      vm_compute in E. inversion E; subst; clear E.
      intros H. specialize (H [0] 228 0 (or_introl eq_refl) (or_introl eq_refl) eq_refl).
      vm_compute in H. destruct H as [H _]. apply H; reflexivity.
  - vm_compute in E0. inversion E0; subst z0; clear E0. vm_compute in E. discriminate.
Qed.

Print Assumptions demo3_dir_ok.
Print Assumptions older_synced_needed_C08.
